import Flowjaxv.Driver.Util
import Flowjaxv.Driver.Leaves
import Flowjaxv.Driver.Tree
import Flowjaxv.Driver.Misc
import Flowjaxv.Driver.ArrTree
import Flowjaxv.Driver.JaxTr
import Flowjaxv.Driver.AdDrv
import Flowjaxv.Driver.AdSplineDrv
import Flowjaxv.Driver.AdMvnDrv
import Flowjaxv.Driver.PyTree
import Flowjaxv.Driver.Masks
import Flowjaxv.Driver.Wrappers
import Flowjaxv.Driver.Params
import Flowjaxv.Driver.ArgCheck
import Flowjaxv.Driver.Families
import Flowjaxv.Driver.Bisection
import Flowjaxv.Driver.BisectionGen
import Flowjaxv.Driver.Train
import Flowjaxv.Driver.Vectorize
import Flowjaxv.Driver.TraceDrv
import Flowjaxv.Driver.Losses
import Flowjaxv.Driver.NetInverse
import Flowjaxv.Driver.NetGen
import Flowjaxv.Driver.Planar
import Flowjaxv.Driver.BnafLd
import Flowjaxv.Driver.BnafGen
import Flowjaxv.Driver.BnafInitGen
import Flowjaxv.Driver.PlanarInitGen
import Flowjaxv.Driver.ElboAd
import Flowjaxv.Driver.Flows
import Flowjaxv.Driver.TrainGen
import Flowjaxv.Driver.LossesGen
import Flowjaxv.Driver.DistPublicGen
import Flowjaxv.Driver.CtorsGen
import Flowjaxv.Driver.FamiliesGen
import Flowjaxv.Driver.TriangularGen
import Flowjaxv.Driver.WrapperGen
import Flowjaxv.Driver.PermGen
import Flowjaxv.Driver.MergeGen
/-!
Model driver: `lake env lean --run Driver.lean < ops.txt`.  One op per line in, one line out
(`ERR <msg>` when the model rejects the op).
-/
open Drv

def dispatch (line : String) : String :=
  match (line.trimAscii.toString.splitOn " ").filter (· ≠ "") with
  | [] => "ERR empty"
  | op :: args =>
    let r : Except String String :=
      match op with
      | "leaf" => leaf args
      | "tree" => tree args
      | "vtree" => vtree args
      | "ctree" => ctree args
      | "tdist" => tdist args
      | "mgmt" => mgmt args
      | "mgch" => mgch args
      | "atree" => atree args
      | "atreeh" => atreeh args
      | "jnpprim" => jnpprim args
      | "jaxtrvmap" => jaxtrvmap args
      | "ad" => ad args
      | "adfam" => adfam args
      | "adplanar" => adplanar args
      | "admix" => admix args
      | "adnet" => adnet args
      | "adspline" => adspline args
      | "admvn" => admvn args
      | "pytree" => pytree args
      | "gwrap" => gwrap args
      | "jmod" => jmodOp args
      | "rankmask" => rankmask args
      | "blockdiag" => blockdiag args
      | "blocktril" => blocktril args
      | "mafranks" => mafranks args
      | "mafmasks" => mafmasks args
      | "gimod" => gimod args
      | "grankmask" => grankmask args
      | "gblockdiag" => gblockdiag args
      | "gblocktril" => gblocktril args
      | "gmafranks" => gmafranks args
      | "gmafmasks" => gmafmasks args
      | "mafdeps" => mafdeps args
      | "bnafdeps" => bnafdeps args
      | "mafnet" => mafnet args
      | "coupling" => coupling args
      | "bnaf" => bnaf args
      | "par" => par args
      | "ac" => ac args
      | "gc" => gc args
      | "gfam" => gfam args
      | "gbij" => gbij args
      | "gmvn" => gmvn args
      | "gmix" => gmix args
      | "gmixs" => gmixs args
      | "family" => family args
      | "familyv" => familyv args
      | "familys" => familys args
      | "accessor" => accessor args
      | "mixture" => mixture args
      | "mixweights" => mixweights args
      | "mixsample" => mixsample args
      | "mvn" => mvnOp args
      | "bis" => bis args
      | "adapt" => adapt args
      | "ar" => ar args
      | "archeck" => archeck args
      | "gbis" => gbis args
      | "gar" => gar args
      | "ginv" => ginv args
      | "garcheck" => garcheck args
      | "cfruit" => cfruit args
      | "fit" => fit args
      | "vi" => vi args
      | "vipost" => vipost args
      | "nval" => nval args
      | "addbatch" => addbatch args
      | "fitdata" => fitdata args
      | "gcfruit" => gcfruit args
      | "gaddbatch" => gaddbatch args
      | "gbatches" => gbatches args
      | "gsplit" => gsplit args
      | "gfit" => gfit args
      | "gvi" => gvi args
      | "gfitdata" => gfitdata args
      | "sig" => sig args
      | "parsesig" => parsesig args
      | "bshape" => bshape args
      | "leadshape" => leadshape args
      | "outshape" => outshape args
      | "outshapef" => outshapef args
      | "keyshape" => keyshape args
      | "pair" => pair args
      | "checkshapes" => checkshapes args
      | "gsig" => gsig args
      | "goutshapef" => goutshapef args
      | "gkeyshape" => gkeyshape args
      | "gpairs" => gpairs args
      | "tracesafe" => tracesafe args
      | "tracetable" => tracetable args
      | "fieldkind" => fieldkind args
      | "mle" => mle args
      | "elbo" => elbo args
      | "cidx" => cidx args
      | "contrastive" => contrastive args
      | "gmle" => gmle args
      | "gelbo" => gelbo args
      | "gcidx" => gcidx args
      | "gcontrastive" => gcontrastive args
      | "mafbij" => mafbij args
      | "gnet" => gnet args
      | "couplingbij" => couplingbij args
      | "bnafinv" => bnafinv args
      | "ctor" => ctor args
      | "permute" => permute args
      | "permvalid" => permvalid args
      | "flip" => flip args
      | "addcond" => addcond args
      | "planar" => planar args
      | "triaff" => triaff args
      | "gtriaff" => gtriaff args
      | "gwrapper" => gwrapper args
      | "gpermute" => gpermute args
      | "gpermctor" => gpermctor args
      | "ginitsub" => ginitsub args
      | "bnafld" => bnafld args
      | "gbnafld" => gbnafld args
      | "gbnafild" => gbnafild args
      | "gbnaft" => gbnaft args
      | "gbnaflj" => gbnaflj args
      | "gbnafinit" => gbnafinit args
      | "guplanarinit" => guplanarinit args
      | "gactlj" => gactlj args
      | "bnafild" => bnafild args
      | "bnaflj" => bnaflj args
      | "actlj" => actlj args
      | "lmme" => lmme args
      | "stlgrad" => stlgrad args
      | "flow" => flow args
      | _ => .error s!"unknown op {op}"
    match r with
    | .ok s => s
    | .error e => s!"ERR {e}"

partial def loop (h : IO.FS.Stream) (out : IO.FS.Stream) : IO Unit := do
  let line ← h.getLine
  if line.isEmpty then return ()
  out.putStrLn (dispatch line)
  loop h out

def main : IO Unit := do
  let out ← IO.getStdout
  loop (← IO.getStdin) out
  out.flush
