import Flowjaxv.Prelude.Scalar
import Flowjaxv.Prelude.Jnp
import Flowjaxv.Gen.Leaves
