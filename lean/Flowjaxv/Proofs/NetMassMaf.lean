import Flowjaxv.Proofs.NetMass
/-!
# C04 in `d` dimensions for a MaskedAutoregressive layer with the affine transformer

The layer is the hand model `Masks.mafBij N tf` (forward `Model/Masks.lean`, sequential inverse / log-dets
`Model/NetInverse.lean`) with the GENERATED `Affine` as scalar transformer, `tf ps = Affine(loc ps, scale ps)`,
read in coordinates on `ℝⁿ` (`NetMass.liftBij`).  Everything is derived from the network itself:

* `DiffC g v` — a list-valued map of `w ∈ ℝⁿ` of constant length with differentiable coordinates; preserved by a
  (masked) linear layer of ANY shape, by a differentiable activation and hence by the whole masked MLP (`diffC_mlp`);
* `RowDiff f` — `f : List ℝ → ℝ` is a differentiable function of the entries of a parameter row (`ps[k]`,
  `ps[k] + a`, `softplus (ps[k] + a)`: what `get_ravelled_pytree_constructor` builds for `Affine`);
* `maf_affine_fwd_differentiable` — the forward map is differentiable everywhere when the activation is;
* `maf_affine_fwdJacN` (`Transformed(base, MAF)`) and `maf_affine_invert_invJacN` (`Transformed(base, Invert(MAF))`, the
  orientation `masked_autoregressive_flow` builds by default): the layer hypotheses of `Proofs/MassFlow.lean`, with
  lawfulness from C01 `maf_lawful` and the determinant / returned log-det from C02 `maf_logdet`.

With the default `relu` activation the network is differentiable off finitely many hyperplane preimages only (a null
set): outside these theorems.
-/
set_option linter.unusedSectionVars false
set_option linter.unusedVariables false
open Masks MasksPf Gen Set MeasureTheory NetLogDet

namespace NetMass

/-! ## differentiable list-valued maps of constant length -/

/-- a list-valued map of `w ∈ ℝⁿ` of constant length whose every coordinate (`0` past the end) is differentiable at `v` -/
structure DiffC {n : ℕ} (g : (Fin n → ℝ) → List ℝ) (v : Fin n → ℝ) : Prop where
  len : ∃ m, ∀ w, (g w).length = m
  diff : ∀ c, DifferentiableAt ℝ (fun w => nth (g w) c) v

theorem nth_of_ge {l : List ℝ} {c : ℕ} (h : l.length ≤ c) : nth l c = 0 := by
  simp [nth, List.getElem?_eq_none h]

/-- the network input `hstack((x, condition))` -/
theorem diffC_input {n : ℕ} (cond : List ℝ) (v : Fin n → ℝ) : DiffC (fun w : Fin n → ℝ => List.ofFn w ++ cond) v := by
  refine ⟨⟨n + cond.length, fun w => by simp⟩, fun c => ?_⟩
  by_cases hc : c < n
  · have e : (fun w : Fin n → ℝ => nth (List.ofFn w ++ cond) c) = fun w => w ⟨c, hc⟩ := by
      funext w
      simp [nth, List.getElem?_append_left, hc]
    rw [e]
    exact differentiableAt_apply (𝕜 := ℝ) (F' := fun _ : Fin n => ℝ) ⟨c, hc⟩ v
  · have e : (fun w : Fin n → ℝ => nth (List.ofFn w ++ cond) c) = fun _ => nth cond (c - n) := by
      funext w
      simp only [nth]
      rw [List.getElem?_append_right (by simp; omega)]
      simp
    rw [e]
    exact differentiableAt_const _

/-- a linear layer `W @ x + b` of ANY shape -/
theorem diffC_linear {n : ℕ} (W : List (List ℝ)) (b : List ℝ) (g : (Fin n → ℝ) → List ℝ) (v : Fin n → ℝ)
    (hg : DiffC g v) : DiffC (fun w => linearApply W b (g w)) v := by
  refine ⟨⟨min W.length b.length, fun w => linearApply_length _ _ _⟩, fun u => ?_⟩
  by_cases hu : u < min W.length b.length
  · have huW : u < W.length := by omega
    have hub : u < b.length := by omega
    have hfun : (fun w => nth (linearApply W b (g w)) u)
        = fun w => (∑ c ∈ Finset.range W[u].length, nth W[u] c * nth (g w) c) + b[u] := by
      funext w
      rw [nth_linearApply _ _ _ u huW hub]
    rw [hfun]
    apply DifferentiableAt.add_const
    apply DifferentiableAt.fun_sum
    intro c _
    exact (hg.diff c).const_mul _
  · have hfun : (fun w => nth (linearApply W b (g w)) u) = fun _ => (0 : ℝ) := by
      funext w
      exact nth_of_ge (by rw [linearApply_length]; omega)
    rw [hfun]
    exact differentiableAt_const _

/-- a scalar activation applied to every unit -/
theorem diffC_map {n : ℕ} (act : ℝ → ℝ) (hact : ∀ z, DifferentiableAt ℝ act z) (g : (Fin n → ℝ) → List ℝ)
    (v : Fin n → ℝ) (hg : DiffC g v) : DiffC (fun w => (g w).map act) v := by
  obtain ⟨m, hm⟩ := hg.len
  refine ⟨⟨m, fun w => by simp [hm]⟩, fun c => ?_⟩
  by_cases hc : c < m
  · have hfun : (fun w => nth ((g w).map act) c) = fun w => act (nth (g w) c) := by
      funext w
      rw [nth_of_lt (by simp [hm, hc]), nth_of_lt (by rw [hm]; exact hc)]; simp
    rw [hfun]
    exact (hact _).comp v (hg.diff c)
  · have hfun : (fun w => nth ((g w).map act) c) = fun _ => (0 : ℝ) := by
      funext w
      exact nth_of_ge (by simp [hm]; omega)
    rw [hfun]
    exact differentiableAt_const _

/-- the whole masked MLP, any number of layers of any shapes -/
theorem diffC_mlp {n : ℕ} (act : ℝ → ℝ) (hact : ∀ z, DifferentiableAt ℝ act z) (v : Fin n → ℝ) :
    ∀ (Ls : List (MaskedLinear ℝ)) (g : (Fin n → ℝ) → List ℝ), DiffC g v →
      DiffC (fun w => mlpForward act Ls (g w)) v := by
  intro Ls
  induction Ls with
  | nil => intro g hg; simpa [mlpForward] using hg
  | cons L Ls ih =>
    intro g hg
    cases Ls with
    | nil =>
      have := diffC_linear L.unwrapW L.bias g v hg
      simpa only [mlpForward, MaskedLinear.apply] using this
    | cons L' Ls' =>
      have h1 := diffC_map act hact _ v (diffC_linear L.unwrapW L.bias g v hg)
      have h2 := ih _ h1
      simpa only [mlpForward, MaskedLinear.apply] using h2

/-- `f` is a differentiable function of the entries of its argument row -/
def RowDiff (f : List ℝ → ℝ) : Prop :=
  ∀ (n : ℕ) (g : (Fin n → ℝ) → List ℝ) (v : Fin n → ℝ), DiffC g v → DifferentiableAt ℝ (fun w => f (g w)) v

theorem rowDiff_nth (k : ℕ) : RowDiff (fun ps => nth ps k) := fun _ g v hg => hg.diff k

theorem rowDiff_getD (k : ℕ) : RowDiff (fun ps => ps.getD k 0) := by
  intro n g v hg
  have e : (fun w => (g w).getD k 0) = fun w => nth (g w) k := by
    funext w; simp [nth, List.getD_eq_getElem?_getD]
  rw [e]; exact hg.diff k

theorem RowDiff.comp {f : List ℝ → ℝ} (hf : RowDiff f) (φ : ℝ → ℝ) (hφ : ∀ z, DifferentiableAt ℝ φ z) :
    RowDiff (fun ps => φ (f ps)) := fun n g v hg => (hφ _).comp v (hf n g v hg)

/-- `loc = ps[k] + a`: what the ravelled constructor builds (`ravelled_params + init`) -/
theorem rowDiff_nth_add (k : ℕ) (a : ℝ) : RowDiff (fun ps => nth ps k + a) :=
  RowDiff.comp (rowDiff_nth k) (fun z => z + a) (fun z => (differentiableAt_id).add_const a)

/-- `scale = softplus (ps[k] + a)` -/
theorem rowDiff_softplus (k : ℕ) (a : ℝ) : RowDiff (fun ps => (Transc.softplus (nth ps k + a) : ℝ)) :=
  RowDiff.comp (rowDiff_nth_add k a) (fun z => (Transc.softplus z : ℝ))
    (fun z => (LogDet.hasDerivAt_softplus z).differentiableAt)

/-! ## the MAF conditioner and the affine layer in coordinates -/
section maf
variable (N : MafNet ℝ)

/-- row `i` of the transformer parameters computed at the point `w` -/
noncomputable def mafRow (c : List ℝ) (w : Fin N.dim → ℝ) (i : ℕ) : List ℝ :=
  (N.params (List.ofFn w) c).getD i []

theorem mafRow_spec (c : List ℝ) (w : Fin N.dim → ℝ) (i : ℕ) (hi : i < N.dim) :
    (N.params (List.ofFn w) c)[i]? = some (mafRow N c w i) := by
  have : i < (N.params (List.ofFn w) c).length := by rw [NetLawful.params_length]; exact hi
  simp [mafRow, List.getD_eq_getElem?_getD, this]

theorem mafRow_eq (hN : N.WellShaped) (c : List ℝ) (w : Fin N.dim → ℝ) (i : ℕ) (hi : i < N.dim) :
    mafRow N c w i = ((N.flatParams (List.ofFn w) c).drop (i * N.numParams)).take N.numParams := by
  have h1 := mafRow_spec N c w i hi
  unfold MafNet.params at h1
  rw [reshapeRows_getElem? _ N.numParams _ (maf_flatParams_length N hN _ c) i hi] at h1
  exact (Option.some.inj h1).symm

/-- every parameter row is a differentiable list-valued map of the input when the activation is differentiable -/
theorem mafRow_diffC (hN : N.WellShaped) (hact : ∀ z, DifferentiableAt ℝ N.act z) (c : List ℝ) (v : Fin N.dim → ℝ)
    (i : ℕ) (hi : i < N.dim) : DiffC (fun w => mafRow N c w i) v := by
  have hflat : DiffC (fun w : Fin N.dim → ℝ => N.flatParams (List.ofFn w) c) v := by
    unfold MafNet.flatParams
    exact diffC_mlp N.act hact v N.layers _ (diffC_input c v)
  have hle : (i + 1) * N.numParams ≤ N.dim * N.numParams := Nat.mul_le_mul_right _ hi
  have hlen : ∀ w : Fin N.dim → ℝ, (mafRow N c w i).length = N.numParams := by
    intro w
    rw [mafRow_eq N hN c w i hi, List.length_take, List.length_drop, maf_flatParams_length N hN]
    have : (i + 1) * N.numParams = i * N.numParams + N.numParams := by ring
    omega
  refine ⟨⟨N.numParams, hlen⟩, fun k => ?_⟩
  by_cases hk : k < N.numParams
  · have e : (fun w => nth (mafRow N c w i) k) = fun w => nth (N.flatParams (List.ofFn w) c) (i * N.numParams + k) := by
      funext w
      rw [mafRow_eq N hN c w i hi]
      simp only [nth, List.getElem?_take, List.getElem?_drop, hk, if_true]
    rw [e]; exact hflat.diff _
  · have e : (fun w => nth (mafRow N c w i) k) = fun _ => (0 : ℝ) := by
      funext w; exact nth_of_ge (by rw [hlen]; omega)
    rw [e]; exact differentiableAt_const _

variable (loc scale : List ℝ → ℝ)

/-- the forward pass of the affine MAF layer in coordinates: `yᵢ = xᵢ · scale(rowᵢ(x)) + loc(rowᵢ(x))` -/
theorem maf_affine_fwd_apply (c : List ℝ) (w : Fin N.dim → ℝ) (i : Fin N.dim) :
    coords N.dim (fun x => (mafBij N (affineFamily loc scale)).fwd x c) w i
      = w i * scale (mafRow N c w i) + loc (mafRow N c w i) := by
  show nth (N.transform (fun ps t => (affineFamily loc scale ps).fwd t ()) (List.ofFn w) c) i = _
  have hx : (List.ofFn w)[(i : ℕ)]? = some (w i) := by simp
  unfold MafNet.transform
  simp only [nth]
  rw [NetLawful.getElem?_zipWith' _ _ _ i _ _ (mafRow_spec N c w i i.2) hx]
  simp [affineFamily, Affine.toBij, Affine.transform] <;> ring

/-- **the forward map of the affine MAF layer is differentiable at every point** — every well-shaped masked network with a
differentiable activation, location / scale differentiable functions of the parameter row, every condition -/
theorem maf_affine_fwd_differentiable (hN : N.WellShaped) (hact : ∀ z, DifferentiableAt ℝ N.act z)
    (hloc : RowDiff loc) (hscale : RowDiff scale) (c : List ℝ) :
    Differentiable ℝ (coords N.dim fun x => (mafBij N (affineFamily loc scale)).fwd x c) := by
  intro v
  rw [differentiableAt_pi]
  intro i
  have e : (fun w => coords N.dim (fun x => (mafBij N (affineFamily loc scale)).fwd x c) w i)
      = fun w : Fin N.dim → ℝ => w i * scale (mafRow N c w i) + loc (mafRow N c w i) := by
    funext w; exact maf_affine_fwd_apply N loc scale c w i
  rw [e]
  have hrow := mafRow_diffC N hN hact c v i i.2
  exact ((differentiableAt_apply (𝕜 := ℝ) (F' := fun _ : Fin N.dim => ℝ) i v).fun_mul (hscale _ _ v hrow)).fun_add
    (hloc _ _ v hrow)

theorem maf_affine_lawful (hN : N.WellShaped) (hs : ∀ ps, scale ps ≠ 0) :
    (liftBij N.dim (mafBij N (affineFamily loc scale))).Lawful univ univ := by
  have hL := NetLawful.maf_lawful N hN (affineFamily loc scale) univ univ (affineFamily_lawful loc scale hs)
  refine liftBij_lawful N.dim _ _ _ hL (fun x hx => ⟨hx, fun _ _ => trivial⟩) (fun x hx => ⟨hx, fun _ _ => trivial⟩) ?_ ?_
  · intro x c hx
    exact NetLawful.transform_length N _ x c hx
  · intro x c hx
    exact (hL.mapsInv x ⟨hx, fun _ _ => trivial⟩ c).1

/-- the Jacobian facts of the forward map (C02 `maf_logdet` with its differentiability hypothesis discharged) -/
theorem maf_affine_jac (hN : N.WellShaped) (hact : ∀ z, DifferentiableAt ℝ N.act z)
    (hloc : RowDiff loc) (hscale : RowDiff scale) (hs : ∀ ps, scale ps ≠ 0) (c : List ℝ) (v : Fin N.dim → ℝ) :
    HasFDerivAt (fun w => (liftBij N.dim (mafBij N (affineFamily loc scale))).fwd w c)
      (fderiv ℝ (coords N.dim fun x => (mafBij N (affineFamily loc scale)).fwd x c) v) v ∧
    (fderiv ℝ (coords N.dim fun x => (mafBij N (affineFamily loc scale)).fwd x c) v).det
      = ∏ i : Fin N.dim, scale (mafRow N c v i) ∧
    (fderiv ℝ (coords N.dim fun x => (mafBij N (affineFamily loc scale)).fwd x c) v).det ≠ 0 ∧
    ((mafBij N (affineFamily loc scale)).fwdLd (List.ofFn v) c).2
      = Real.log |(fderiv ℝ (coords N.dim fun x => (mafBij N (affineFamily loc scale)).fwd x c) v).det| := by
  have hJ := (maf_affine_fwd_differentiable N loc scale hN hact hloc hscale c v).hasFDerivAt
  obtain ⟨h1, h2, h3⟩ := NetLogDet.maf_logdet N hN (affineFamily loc scale) c v _ hJ
    (fun i => scale (mafRow N c v i)) (by
      intro i ps hps
      rw [mafRow_spec N c v i i.2] at hps
      have : ps = mafRow N c v i := (Option.some.inj hps).symm
      subst this
      exact LogDet.affine_ld (C := Unit) (Affine.mk (loc _) (scale _)) (hs _) (v i) trivial ())
  exact ⟨hJ, h1, h2, h3⟩

/-- **`Mass.FwdJacN` for the affine MAF layer** (`Transformed(base, MaskedAutoregressive)`, i.e. `invert=False`) -/
theorem maf_affine_fwdJacN (hN : N.WellShaped) (hact : ∀ z, DifferentiableAt ℝ N.act z)
    (hloc : RowDiff loc) (hscale : RowDiff scale) (hs : ∀ ps, scale ps ≠ 0) (c : List ℝ) :
    Mass.FwdJacN (liftBij N.dim (mafBij N (affineFamily loc scale))) c := by
  have hL := maf_affine_lawful N loc scale hN hs
  refine Mass.FwdJacN.of_hasFDerivAt hL
    (fun v => fderiv ℝ (coords N.dim fun x => (mafBij N (affineFamily loc scale)).fwd x c) v)
    (fun v => ⟨(maf_affine_jac N loc scale hN hact hloc hscale hs c v).1,
      (maf_affine_jac N loc scale hN hact hloc hscale hs c v).2.2.1⟩) ?_
  intro y
  have hLL := NetLawful.maf_lawful N hN (affineFamily loc scale) univ univ (affineFamily_lawful loc scale hs)
  have hlen : (N.inverse (fun ps t => (affineFamily loc scale ps).inv t ()) (List.ofFn y) c).length = N.dim :=
    (hLL.mapsInv (List.ofFn y) ⟨by simp, fun _ _ => trivial⟩ c).1
  have hof : List.ofFn ((liftBij N.dim (mafBij N (affineFamily loc scale))).inv y c)
      = N.inverse (fun ps t => (affineFamily loc scale ps).inv t ()) (List.ofFn y) c :=
    ofFn_nth _ N.dim hlen
  rw [← (maf_affine_jac N loc scale hN hact hloc hscale hs c _).2.2.2, hof]
  rfl

/-- **`Mass.InvJacN` for `Invert(MaskedAutoregressive)`** — the orientation `masked_autoregressive_flow` builds by default
(`invert=True`): `log_prob` evaluates the network once (the forward pass), `sample` runs the `dim`-pass inverse -/
theorem maf_affine_invert_invJacN (hN : N.WellShaped) (hact : ∀ z, DifferentiableAt ℝ N.act z)
    (hloc : RowDiff loc) (hscale : RowDiff scale) (hs : ∀ ps, scale ps ≠ 0) (c : List ℝ) :
    Mass.InvJacN (Gen.Invert.mk (liftBij N.dim (mafBij N (affineFamily loc scale)))).toBij c := by
  refine Mass.InvJacN.invert (maf_affine_lawful N loc scale hN hs)
    (fun v => fderiv ℝ (coords N.dim fun x => (mafBij N (affineFamily loc scale)).fwd x c) v)
    (Mass.PiecewiseFDeriv.of_hasFDerivAt fun v => (maf_affine_jac N loc scale hN hact hloc hscale hs c v).1) ?_
  intro v
  exact ⟨(maf_affine_jac N loc scale hN hact hloc hscale hs c v).2.2.1,
    (maf_affine_jac N loc scale hN hact hloc hscale hs c v).2.2.2⟩

end maf

/-! ## a concrete conditional network for the non-vacuity instance -/

/-- dim 2, one conditioning variable, width 2, depth 1, two parameters per coordinate (location, raw scale), `tanh` activation,
weights of both signs away from any initialisation -/
noncomputable def mafTanhExample : MafNet ℝ :=
  { dim := 2, condDim := some 1, width := 2, depth := 1, numParams := 2,
    weights := [[[1, -2, 3], [-1, 1, 2]], [[2, 1], [-1, 3], [1, 1], [-2, 1]]],
    biases := [[1, -1], [0, 1, -1, 2]], act := Real.tanh }

theorem mafTanhExample_wellShaped : mafTanhExample.WellShaped := by
  refine ⟨rfl, rfl, ?_⟩
  intro l hw hb
  have hl : l < 2 := hw
  interval_cases l
  · exact ⟨3, 2, rfl, rfl, ⟨rfl, by intro row hrow; simp [mafTanhExample] at hrow; rcases hrow with rfl | rfl <;> rfl⟩, rfl⟩
  · exact ⟨2, 4, rfl, rfl, ⟨rfl, by
      intro row hrow; simp [mafTanhExample] at hrow; rcases hrow with rfl | rfl | rfl | rfl <;> rfl⟩, rfl⟩

theorem tanh_differentiableAt (z : ℝ) : DifferentiableAt ℝ Real.tanh z := (LogDet.hasDerivAt_tanh z).differentiableAt


/-! ## the layer predicate used by the stack theorems -/

/-- `b` is an affine MAF layer on `ℝⁿ` (either orientation) satisfying the hypotheses of `maf_affine_fwdJacN` -/
def IsMafLayer (n : ℕ) (b : Bij (Fin n → ℝ) (List ℝ) ℝ) : Prop :=
  ∃ (N : MafNet ℝ) (hd : N.dim = n) (loc scale : List ℝ → ℝ), N.WellShaped ∧ (∀ z, DifferentiableAt ℝ N.act z) ∧
    RowDiff loc ∧ RowDiff scale ∧ (∀ ps, scale ps ≠ 0) ∧
    (b = hd ▸ liftBij N.dim (mafBij N (affineFamily loc scale)) ∨
     b = hd ▸ (Gen.Invert.mk (liftBij N.dim (mafBij N (affineFamily loc scale)))).toBij)

theorem IsMafLayer.layer {n : ℕ} {b : Bij (Fin n → ℝ) (List ℝ) ℝ} (h : IsMafLayer n b) (c : List ℝ) :
    Mass.InvJacN b c ∨ Mass.FwdJacN b c := by
  obtain ⟨N, hd, loc, scale, hN, hact, hloc, hscale, hs, hb⟩ := h
  subst hd
  rcases hb with rfl | rfl
  · exact Or.inr (maf_affine_fwdJacN N loc scale hN hact hloc hscale hs c)
  · exact Or.inl (maf_affine_invert_invJacN N loc scale hN hact hloc hscale hs c)

end NetMass
