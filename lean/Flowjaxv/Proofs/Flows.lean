import Flowjaxv.Proofs.NetLawful
import Flowjaxv.Proofs.NetLogDet
import Flowjaxv.Proofs.Planar
import Flowjaxv.Proofs.Perm
import Flowjaxv.Proofs.Rqs
import Flowjaxv.Proofs.LogDet
import Flowjaxv.Proofs.DistTheory
import Flowjaxv.Proofs.Params
import Flowjaxv.Proofs.Triangular
import Flowjaxv.Model.Flows
import Flowjaxv.Proofs.JaxTransforms
/-!
# Whole premade flows: lawfulness, log-det antisymmetry, change of variables — every number of layers

Helper lemmas for the "premade flows" sections of `Props/C01.lean`, `Props/C03.lean`, `Props/C08.lean`.
The objects are the GENERATED factory bodies of `Gen/Flows.lean` (`_add_default_permute`, `make_layer`,
`Invert(Scan(layers)) if invert else Scan(layers)`, `Transformed(base_dist, bijection)`) instantiated at `ℝ`.
-/
set_option linter.unusedSectionVars false
set_option linter.unusedVariables false
open Gen Flows Set

namespace FlowsPf

/-- the vectors of length `dim` (the support of every premade flow: `base_dist.shape == (dim,)`) -/
def Vec (dim : ℕ) : Set (List ℝ) := {x | x.length = dim}

@[simp] theorem mem_Vec {dim : ℕ} {x : List ℝ} : x ∈ Vec dim ↔ x.length = dim := Iff.rfl

/-! ## generic facts about `Bij.Lawful` / `Bij.LdAntisym` -/

theorem Lawful.congr {X C : Type} {b : Bij X C ℝ} {D E D' E' : Set X} (h : b.Lawful D E) (hD : D' = D) (hE : E' = E) :
    b.Lawful D' E' := by subst hD; subst hE; exact h

theorem LdAntisym.mono {X C : Type} {b : Bij X C ℝ} {D D' : Set X} (h : b.LdAntisym D) (hs : D' ⊆ D) :
    b.LdAntisym D' := fun x hx c => h x (hs hx) c

/-- restricting a lawful bijection to a predicate both directions preserve -/
theorem Lawful.restrict {X C : Type} {b : Bij X C ℝ} {D E S S' : Set X} (h : b.Lawful D E)
    (hf : ∀ x ∈ D, x ∈ S → ∀ c, b.fwd x c ∈ S') (hi : ∀ y ∈ E, y ∈ S' → ∀ c, b.inv y c ∈ S) :
    b.Lawful (D ∩ S) (E ∩ S') :=
  ⟨fun x hx c => ⟨h.maps x hx.1 c, hf x hx.1 hx.2 c⟩, fun y hy c => ⟨h.mapsInv y hy.1 c, hi y hy.1 hy.2 c⟩,
   fun x hx c => h.left x hx.1 c, fun y hy c => h.right y hy.1 c, h.fwdLd_fst, h.invLd_fst⟩

/-! ## `_add_default_permute` -/
section perm
variable {C : Type}

theorem flip_lawful (s d : ℕ) : (flipOf s : Bij (List ℝ) C ℝ).Lawful (Vec d) (Vec d) :=
  ⟨fun x hx _ => by simpa [flipOf, Flip.transform] using hx, fun y hy _ => by simpa [flipOf, Flip.inverse] using hy,
   fun x _ _ => by simp [flipOf, Flip.transform, Flip.inverse], fun y _ _ => by simp [flipOf, Flip.transform, Flip.inverse],
   fun _ _ => rfl, fun _ _ => rfl⟩

theorem flip_ldAntisym (s : ℕ) (D : Set (List ℝ)) : (flipOf s : Bij (List ℝ) C ℝ).LdAntisym D := by
  intro x _ c; simp [flipOf, Flip.transform_and_log_det, Flip.inverse_and_log_det]

theorem permute_lawful {perm : List ℕ} {d : ℕ} (h : perm.Perm (List.range d)) :
    (permuteOf perm : Bij (List ℝ) C ℝ).Lawful (Vec d) (Vec d) := by
  have hl : perm.length = d := by simpa using h.length_eq
  have h' : perm.Perm (List.range perm.length) := by rw [hl]; exact h
  refine ⟨?_, ?_, ?_, ?_, fun _ _ => rfl, fun _ _ => rfl⟩
  · intro x _ _; simp [permuteOf, PermModel.fwd, hl]
  · intro y _ _; simp [permuteOf, PermModel.inv, PermModel.fwd, PermModel.argsort, hl]
  · intro x hx _; exact PermModel.inv_fwd perm h' x (by rw [hl]; exact hx)
  · intro y hy _; exact PermModel.fwd_inv perm h' y (by rw [hl]; exact hy)

theorem permute_ldAntisym (perm : List ℕ) (D : Set (List ℝ)) : (permuteOf perm : Bij (List ℝ) C ℝ).LdAntisym D := by
  intro x _ c; simp [permuteOf]

/-- `jr.permutation(key, arange(dim))` IS the rearrangement the key determines, when that is a permutation of `0…dim-1` -/
theorem jrPermutation_arange {perm : List ℕ} {d : ℕ} (h : perm.Perm (List.range d)) :
    jrPermutation perm (arange d) = perm := by
  unfold jrPermutation arange
  conv_rhs => rw [← List.map_id perm]
  apply List.map_congr_left
  intro i hi
  have : i < d := List.mem_range.mp (h.mem_iff.mp hi)
  simp [List.getD_eq_getElem?_getD, this]

/-- the three branches of the GENERATED `_add_default_permute`, as equations -/
theorem add_default_permute_one (b : VBij ℝ) (key : List ℕ) : add_default_permute b 1 key = b := by
  simp [add_default_permute]
theorem add_default_permute_two (b : VBij ℝ) (key : List ℕ) :
    add_default_permute b 2 key = (Chain.mk [b, flipOf 2]).toBij := by
  simp [add_default_permute, mergeChains, chainOf]
theorem add_default_permute_other (b : VBij ℝ) {d : ℕ} (h1 : d ≠ 1) (h2 : d ≠ 2) (key : List ℕ) :
    add_default_permute b d key = (Chain.mk [b, permuteOf (jrPermutation key (arange d))]).toBij := by
  simp [add_default_permute, mergeChains, chainOf, h1, h2]

theorem add_default_permute_lawful {b : VBij ℝ} {d : ℕ} {key : List ℕ} (hb : b.Lawful (Vec d) (Vec d))
    (hk : PermKeyOK d key) : (add_default_permute b d key).Lawful (Vec d) (Vec d) := by
  by_cases h1 : d = 1
  · subst h1; rw [add_default_permute_one]; exact hb
  by_cases h2 : d = 2
  · subst h2; rw [add_default_permute_two]
    exact Gen.chain_lawful (.cons hb (.cons (flip_lawful 2 2) (.nil _)))
  · rw [add_default_permute_other b h1 h2, jrPermutation_arange (hk h1 h2)]
    exact Gen.chain_lawful (.cons hb (.cons (permute_lawful (hk h1 h2)) (.nil _)))

theorem add_default_permute_ldAntisym {b : VBij ℝ} {d : ℕ} {key : List ℕ} (hb : b.Lawful (Vec d) (Vec d))
    (ha : b.LdAntisym (Vec d)) (hk : PermKeyOK d key) : (add_default_permute b d key).LdAntisym (Vec d) := by
  by_cases h1 : d = 1
  · subst h1; rw [add_default_permute_one]; exact ha
  by_cases h2 : d = 2
  · subst h2; rw [add_default_permute_two]
    exact LogDet.chain_ld_antisym (.cons hb ha (.cons (flip_lawful 2 2) (flip_ldAntisym 2 _) (.nil _)))
  · rw [add_default_permute_other b h1 h2, jrPermutation_arange (hk h1 h2)]
    exact LogDet.chain_ld_antisym (.cons hb ha (.cons (permute_lawful (hk h1 h2)) (permute_ldAntisym _ _) (.nil _)))

end perm

/-! ## `Scan(layers)`, `Invert(…) if invert else …`, `filter_vmap(make_layer)(jr.split(key, n))` -/
section scan
variable {X C : Type}

theorem chainLawful_of_forall {ls : List (Bij X C ℝ)} {D : Set X} (h : ∀ b ∈ ls, b.Lawful D D) : ChainLawful ls D D := by
  induction ls with
  | nil => exact .nil D
  | cons b bs ih => exact .cons (h b (List.mem_cons_self ..)) (ih fun b' hb' => h b' (List.mem_cons_of_mem _ hb'))

theorem chainAll_of_forall {ls : List (Bij X C ℝ)} {D : Set X} (h : ∀ b ∈ ls, b.Lawful D D ∧ b.LdAntisym D) :
    LogDet.ChainAll Bij.LdAntisym ls D D := by
  induction ls with
  | nil => exact .nil D
  | cons b bs ih =>
    exact .cons (h b (List.mem_cons_self ..)).1 (h b (List.mem_cons_self ..)).2
      (ih fun b' hb' => h b' (List.mem_cons_of_mem _ hb'))

/-- `Flows.scanOf` — the GENERATED `Scan` methods (`Gen/JaxTransforms.lean`) on the stacked layers — is the generated `Chain` of
the unstacked layers (`JaxTrProofs.scan_toBij_eq_chain`) -/
theorem scanOf_eq_chain {α : Type} [Add α] [Sub α] [Neg α] [OfNat α 0] (ls : List (Bij X C α)) :
    scanOf ls = (Chain.mk ls).toBij := JaxTrProofs.scan_toBij_eq_chain (JaxTr.scanOfLayers ls)

/-- **Scan of any number of layers, each lawful on `D`, is lawful on `D`** (induction on the layer list via `ChainLawful`) -/
theorem scan_lawful {ls : List (Bij X C ℝ)} {D : Set X} (h : ∀ b ∈ ls, b.Lawful D D) : (scanOf ls).Lawful D D := by
  rw [scanOf_eq_chain]; exact Gen.chain_lawful (chainLawful_of_forall h)

theorem scan_ldAntisym {ls : List (Bij X C ℝ)} {D : Set X} (h : ∀ b ∈ ls, b.Lawful D D ∧ b.LdAntisym D) :
    (scanOf ls).LdAntisym D := by rw [scanOf_eq_chain]; exact LogDet.chain_ld_antisym (chainAll_of_forall h)

/-- both values of the `invert` flag -/
theorem orient_lawful {b : Bij X C ℝ} {D : Set X} (h : b.Lawful D D) (invert : Bool) :
    (if invert then invertOf b else b).Lawful D D := by
  cases invert
  · simpa using h
  · simpa [invertOf] using Gen.invert_lawful h

theorem orient_ldAntisym {b : Bij X C ℝ} {D : Set X} (h : b.Lawful D D) (ha : b.LdAntisym D) (invert : Bool) :
    (if invert then invertOf b else b).LdAntisym D := by
  cases invert
  · simpa using ha
  · simpa [invertOf] using LogDet.invert_ld_antisym h ha

theorem mem_layers {κ β : Type} (mk : κ → β) (key : ℕ → κ) (n : ℕ) (b : β) :
    b ∈ filterVmap mk (jrSplitN key n) ↔ ∃ i < n, b = mk (key i) := by
  simp only [filterVmap, jrSplitN, List.map_map, List.mem_map, List.mem_range, Function.comp]
  constructor
  · rintro ⟨i, hi, rfl⟩; exact ⟨i, hi, rfl⟩
  · rintro ⟨i, hi, rfl⟩; exact ⟨i, hi, rfl⟩

/-- the shape every generated factory body has: any number `n` of layers made from per-layer keys -/
theorem flow_lawful {κ : Type} (mk : κ → Bij X C ℝ) (key : ℕ → κ) (n : ℕ) (invert : Bool) {D : Set X}
    (h : ∀ i < n, (mk (key i)).Lawful D D) :
    (if invert then invertOf (scanOf (filterVmap mk (jrSplitN key n))) else scanOf (filterVmap mk (jrSplitN key n))).Lawful D D :=
  orient_lawful (scan_lawful fun b hb => by obtain ⟨i, hi, rfl⟩ := (mem_layers mk key n b).mp hb; exact h i hi) invert

theorem flow_ldAntisym {κ : Type} (mk : κ → Bij X C ℝ) (key : ℕ → κ) (n : ℕ) (invert : Bool) {D : Set X}
    (h : ∀ i < n, (mk (key i)).Lawful D D ∧ (mk (key i)).LdAntisym D) :
    (if invert then invertOf (scanOf (filterVmap mk (jrSplitN key n))) else scanOf (filterVmap mk (jrSplitN key n))).LdAntisym D :=
  orient_ldAntisym
    (scan_lawful fun b hb => by obtain ⟨i, hi, rfl⟩ := (mem_layers mk key n b).mp hb; exact (h i hi).1)
    (scan_ldAntisym fun b hb => by obtain ⟨i, hi, rfl⟩ := (mem_layers mk key n b).mp hb; exact h i hi) invert

end scan

/-! ## the layers on `Vec dim` -/
section layers
open Masks

theorem coupling_layer_lawful (cnd : List ℝ → List ℝ) (tf : List ℝ → Bij ℝ Unit ℝ) (htf : ∀ ps, (tf ps).Lawful univ univ)
    (d dim : ℕ) : (couplingOf cnd tf d dim).Lawful (Vec dim) (Vec dim) := by
  have h := NetLawful.coupling_lawful d cnd tf univ univ htf
  have hr := Lawful.restrict (S := Vec dim) (S' := Vec dim) h
    (fun x _ hx c => by
      show (couplingTransform d cnd _ x c).length = dim
      rw [NetLawful.coupling_length']; exact hx)
    (fun y _ hy c => by
      show (couplingInverse d cnd _ y c).length = dim
      rw [NetLawful.couplingInverse_eq, NetLawful.coupling_length']; exact hy)
  refine Lawful.congr hr ?_ ?_ <;> · ext x; simp [Vec]

theorem coupling_layer_ldAntisym (cnd : List ℝ → List ℝ) (tf : List ℝ → Bij ℝ Unit ℝ)
    (htf : ∀ ps, (tf ps).LdAntisym univ) (d dim : ℕ) : (couplingOf cnd tf d dim).LdAntisym (Vec dim) :=
  LdAntisym.mono (NetLogDet.coupling_ld_antisym d cnd tf univ htf) (fun x _ t _ => trivial)

theorem maf_layer_lawful (N : MafNet ℝ) (hN : N.WellShaped) (tf : List ℝ → Bij ℝ Unit ℝ)
    (htf : ∀ ps, (tf ps).Lawful univ univ) {dim : ℕ} (hd : N.dim = dim) : (mafOf N tf dim).Lawful (Vec dim) (Vec dim) := by
  refine Lawful.congr (NetLawful.maf_lawful N hN tf univ univ htf) ?_ ?_ <;> · ext x; simp [Vec, hd]

theorem maf_layer_ldAntisym (N : MafNet ℝ) (hN : N.WellShaped) (tf : List ℝ → Bij ℝ Unit ℝ)
    (htf : ∀ ps, (tf ps).Lawful univ univ) {dim : ℕ} (hd : N.dim = dim) : (mafOf N tf dim).LdAntisym (Vec dim) :=
  LdAntisym.mono (NetLogDet.maf_ld_antisym N hN tf univ univ htf) (fun x hx => ⟨by simpa [Vec, hd] using hx, fun _ _ => trivial⟩)

/-- what `Planar.get_planar(condition)` must return for every condition: a vector of length `2·dim+1` whose `w` part is non-zero -/
def PlanarOK (dim : ℕ) (paramsFn : List ℝ → List ℝ) : Prop :=
  ∀ c, (paramsFn c).length = 2 * dim + 1 ∧ Jnp.dot ((paramsFn c).take dim) ((paramsFn c).take dim) ≠ 0

theorem planar_layer_lawful {dim : ℕ} {paramsFn : List ℝ → List ℝ} (h : PlanarOK dim paramsFn) {s : ℝ} (hs0 : 0 < s) (hs1 : s ≤ 1) :
    (planarOf paramsFn dim s).Lawful (Vec dim) (Vec dim) := by
  have hc := fun c => PlanarPf.lrelu_lawful (C := Unit) (PlanarPf.getPlanar_wf (h c).1 (h c).2) hs0 hs1
  exact ⟨fun x hx c => (hc c).maps x hx (), fun y hy c => (hc c).mapsInv y hy (), fun x hx c => (hc c).left x hx (),
    fun y hy c => (hc c).right y hy (), fun x c => (hc c).fwdLd_fst x (), fun y c => (hc c).invLd_fst y ()⟩

theorem planar_layer_ldAntisym {dim : ℕ} {paramsFn : List ℝ → List ℝ} (h : PlanarOK dim paramsFn) {s : ℝ} (hs0 : 0 < s) (hs1 : s ≤ 1) :
    (planarOf paramsFn dim s).LdAntisym (Vec dim) :=
  fun x hx c => PlanarPf.lrelu_ld_antisym (C := Unit) (PlanarPf.getPlanar_wf (h c).1 (h c).2) hs0 hs1 x hx ()

/-- the inverter returns, for every target of length `dim`, a preimage of length `dim` under the map it is handed
(what `AutoregressiveBisectionInverter` does up to its tolerance: C10; exact solvers: `C01.bnaf_invertible`) -/
def InverterExact (dim : ℕ) (inverter : (List ℝ → List ℝ → List ℝ) → List ℝ → List ℝ → List ℝ)
    (T : List ℝ → List ℝ → List ℝ) : Prop :=
  ∀ y c, y.length = dim → (inverter T y c).length = dim ∧ T (inverter T y c) c = y

theorem bnaf_layer_lawful (act : ℝ → ℝ) (hact : StrictMono act) {dim depth bd : ℕ} (B : BnafNet ℝ)
    (hok : NetLawful.BnafOK dim depth bd B.layers B.condLinear)
    (inverter : (List ℝ → List ℝ → List ℝ) → List ℝ → List ℝ → List ℝ)
    (hinv : InverterExact dim inverter (bnafTransform act B.layers B.condLinear)) :
    (bnafOf B dim act inverter).Lawful (Vec dim) (Vec dim) := by
  refine ⟨?_, ?_, ?_, ?_, fun _ _ => rfl, fun _ _ => rfl⟩
  · intro x hx c
    exact NetLawful.bnafTransform_length act dim depth bd B.layers hok.hshapes hok.hws B.condLinear c x
  · intro y hy c; exact (hinv y c hy).1
  · intro x hx c
    have hTx := NetLawful.bnafTransform_length act dim depth bd B.layers hok.hshapes hok.hws B.condLinear c x
    obtain ⟨hl, hT⟩ := hinv _ c hTx
    exact NetLawful.bnaf_injective act hact hok c _ x hl hx hT
  · intro y hy c; exact (hinv y c hy).2

theorem bnaf_layer_ldAntisym (act : ℝ → ℝ) (hact : StrictMono act) {dim depth bd : ℕ} (B : BnafNet ℝ)
    (hok : NetLawful.BnafOK dim depth bd B.layers B.condLinear)
    (inverter : (List ℝ → List ℝ → List ℝ) → List ℝ → List ℝ → List ℝ)
    (hinv : InverterExact dim inverter (bnafTransform act B.layers B.condLinear)) :
    (bnafOf B dim act inverter).LdAntisym (Vec dim) := by
  intro x hx c
  have hl := (bnaf_layer_lawful act hact B hok inverter hinv).left x hx c
  show -(B.logDet ((bnafOf B dim act inverter).inv ((bnafOf B dim act inverter).fwd x c) c) c) = -(B.logDet x c)
  rw [hl]

end layers

/-! ## `_affine_with_min_scale` and the transformer families -/
section transformers
open Params

/-- the GENERATED `_affine_with_min_scale(m)` reparameterises the scale by the chain `SoftPlus ; Loc(m)` (C11's `minScaleBij`) -/
theorem affine_with_min_scale_bijection (m : ℝ) : (affine_with_min_scale m).scale.bijection = minScaleBij m := rfl

theorem affine_with_min_scale_loc (m : ℝ) : (affine_with_min_scale m).loc = 0 := rfl

/-- for EVERY raw value of the trainable entry: the unwrapped scale is `softplus(raw) + m` -/
theorem affine_with_min_scale_scale (m raw : ℝ) :
    ({ (affine_with_min_scale m).scale with arr := raw } : BijectionReparam ℝ).unwrap = Real.log (1 + Real.exp raw) + m :=
  ParamsPf.minScaleOfRaw_eq m raw

/-- … so it stays strictly above `min_scale`, hence positive when `min_scale ≥ 0` -/
theorem affine_with_min_scale_bound (m raw : ℝ) :
    m < ({ (affine_with_min_scale m).scale with arr := raw } : BijectionReparam ℝ).unwrap ∧
    (0 ≤ m → 0 < ({ (affine_with_min_scale m).scale with arr := raw } : BijectionReparam ℝ).unwrap) := by
  rw [affine_with_min_scale_scale]
  have := Leaves.softplus_pos raw
  exact ⟨by linarith, fun h => by linarith⟩

/-- as constructed the scale is exactly 1 (`min_scale < 1`) -/
theorem affine_with_min_scale_init {m : ℝ} (hm : m < 1) : (affine_with_min_scale m).unwrap.scale = 1 :=
  ParamsPf.minScaleInit_eq hm

/-- the default `min_scale` of the signature is `0.01` -/
theorem min_scale_default_eq : (affine_with_min_scale.min_scale_default : ℝ) = 1 / 100 := by
  simp only [affine_with_min_scale.min_scale_default]; norm_num

theorem affineFamily_scale (p : AffineP ℝ) (init ps : List ℝ) :
    (affineFamily p init ps) = (Affine.mk ((addInit init ps).getD 0 0)
      ({ p.scale with arr := (addInit init ps).getD 1 0 } : BijectionReparam ℝ).unwrap).toBij := rfl

/-- the transformer family of an `Affine`-shaped transformer whose reparameterised scale never vanishes is lawful for
EVERY conditioner output row -/
theorem affineFamily_lawful (p : AffineP ℝ) (init : List ℝ)
    (hp : ∀ raw, ({ p.scale with arr := raw } : BijectionReparam ℝ).unwrap ≠ 0) (ps : List ℝ) :
    (affineFamily p init ps).Lawful univ univ := by
  rw [affineFamily_scale]; exact Leaves.affine_lawful _ (hp _)

theorem affineFamily_ldAntisym (p : AffineP ℝ) (init ps : List ℝ) : (affineFamily p init ps).LdAntisym univ := by
  rw [affineFamily_scale]; exact LogDet.affine_ld_antisym _

/-- `transformer=None`: lawful for every conditioner output (scale `= softplus(raw) + 0.01 > 0`) -/
theorem defaultTransformer_lawful (ps : List ℝ) : (defaultTransformer ps : Bij ℝ Unit ℝ).Lawful univ univ := by
  refine affineFamily_lawful _ _ (fun raw => ?_) ps
  have := (affine_with_min_scale_bound (affine_with_min_scale.min_scale_default : ℝ) raw).2
    (by rw [min_scale_default_eq]; norm_num)
  exact ne_of_gt this

theorem defaultTransformer_ldAntisym (ps : List ℝ) : (defaultTransformer ps : Bij ℝ Unit ℝ).LdAntisym univ :=
  affineFamily_ldAntisym _ _ ps

/-- plain `Affine()` as transformer (`scale = softplus(raw) > 0`) -/
theorem plainAffine_lawful (init ps : List ℝ) : (affineFamily (affineDefault : AffineP ℝ) init ps).Lawful univ univ :=
  affineFamily_lawful affineDefault _ (fun raw => ne_of_gt (show (0:ℝ) < (softplusRaw raw).unwrap from ParamsPf.softplusRaw_pos raw)) ps

theorem addInit_length (init ps : List ℝ) : (addInit init ps).length = init.length := by simp [addInit]

/-- static configuration of a spline transformer the constructor accepts and `init` of the matching length -/
structure RqsCfgOK (cfg : RqsCfg ℝ) (init : List ℝ) : Prop where
  knots_pos : 1 ≤ cfg.knots
  init_len : init.length = 3 * cfg.knots + 2
  interval : cfg.interval.1 < cfg.interval.2
  adjust : 0 ≤ cfg.softmax_adjust
  min_derivative : 0 ≤ cfg.min_derivative

/-- for EVERY conditioner output row the spline the constructor builds is well-formed (`Rqs.RqsWF`) -/
theorem rqsFamily_wf {cfg : RqsCfg ℝ} {init : List ℝ} (h : RqsCfgOK cfg init) (ps : List ℝ) :
    Rqs.RqsWF (rqsSpline cfg init ps) := by
  obtain ⟨hK, hl, hlt, ha, hδ⟩ := h
  have hL : (addInit init ps).length = 3 * cfg.knots + 2 := by rw [addInit_length, hl]
  set raw := addInit init ps
  have hX : (raw.take cfg.knots).length = cfg.knots := by simp [hL]; omega
  have hY : ((raw.drop cfg.knots).take cfg.knots).length = cfg.knots := by simp [hL]; omega
  have hD : (raw.drop (2 * cfg.knots)).length = cfg.knots + 2 := by simp [hL]; omega
  have hXne : raw.take cfg.knots ≠ [] := by intro h0; rw [h0] at hX; simp at hX; omega
  have hYne : (raw.drop cfg.knots).take cfg.knots ≠ [] := by intro h0; rw [h0] at hY; simp at hY; omega
  rcases hiv : cfg.interval with ⟨lo, hi⟩
  simp only [rqsSpline, hiv] at hlt ⊢
  have hx := ParamsPf.knots_generated hXne hlt ha
  have hy := ParamsPf.knots_generated hYne hlt ha
  refine ⟨?_, ?_, ?_, hx.1, hy.1, ?_, hx.2.2.1, hx.2.2.2, hy.2.2.1, hy.2.2.2⟩
  · show 2 ≤ (realToIncreasingOnInterval _ _ _).length; rw [hx.2.1]; omega
  · show (realToIncreasingOnInterval _ _ _).length = (realToIncreasingOnInterval _ _ _).length
    rw [hx.2.1, hy.2.1, hX, hY]
  · show (rqsDerivatives _ _).length = (realToIncreasingOnInterval _ _ _).length
    rw [ParamsPf.rqsDerivatives_length, hx.2.1, hD, hX]
  · intro d hd
    have := ParamsPf.rqsDerivatives_mem d hd
    linarith

theorem rqsFamily_lawful {cfg : RqsCfg ℝ} {init : List ℝ} (h : RqsCfgOK cfg init) (ps : List ℝ) :
    (rqsFamily cfg init ps).Lawful univ univ := Rqs.rqs_lawful (rqsFamily_wf h ps)

theorem rqsFamily_ldAntisym {cfg : RqsCfg ℝ} {init : List ℝ} (h : RqsCfgOK cfg init) (ps : List ℝ) :
    (rqsFamily cfg init ps).LdAntisym univ := Rqs.rqs_ldAntisym (rqsFamily_wf h ps)

end transformers

/-! ## the generated `make_layer` closures and factory bodies, unfolded -/
section unfold
open Masks
variable (tf : List ℝ → Bij ℝ Unit ℝ) (dim : ℕ)

theorem coupling_make_layer_eq (k : (List ℝ → List ℝ) × List ℕ) :
    coupling_flow.make_layer tf dim k = add_default_permute (couplingOf k.1 tf (dim / 2) dim) dim k.2 := rfl
theorem maf_make_layer_eq (k : MafNet ℝ × List ℕ) :
    masked_autoregressive_flow.make_layer tf dim k = add_default_permute (mafOf k.1 tf dim) dim k.2 := rfl
theorem planar_make_layer_eq (s : ℝ) (k : (List ℝ → List ℝ) × List ℕ) :
    planar_flow.make_layer dim s k = add_default_permute (planarOf k.1 dim s) dim k.2 := rfl
theorem bnaf_make_layer_eq (act : ℝ → ℝ) (inverter : (List ℝ → List ℝ → List ℝ) → List ℝ → List ℝ → List ℝ)
    (k : BnafNet ℝ × List ℕ) :
    block_neural_autoregressive_flow.make_layer dim act inverter k = add_default_permute (bnafOf k.1 dim act inverter) dim k.2 := rfl

theorem couplingFlowBij_eq (key : ℕ → (List ℝ → List ℝ) × List ℕ) (n : ℕ) (invert : Bool) :
    couplingFlowBij tf dim key n invert =
      (if invert then invertOf (scanOf (filterVmap (coupling_flow.make_layer tf dim) (jrSplitN key n)))
       else scanOf (filterVmap (coupling_flow.make_layer tf dim) (jrSplitN key n))) := rfl
theorem mafFlowBij_eq (key : ℕ → MafNet ℝ × List ℕ) (n : ℕ) (invert : Bool) :
    mafFlowBij tf dim key n invert =
      (if invert then invertOf (scanOf (filterVmap (masked_autoregressive_flow.make_layer tf dim) (jrSplitN key n)))
       else scanOf (filterVmap (masked_autoregressive_flow.make_layer tf dim) (jrSplitN key n))) := rfl
theorem planarFlowBij_eq (s : ℝ) (key : ℕ → (List ℝ → List ℝ) × List ℕ) (n : ℕ) (invert : Bool) :
    planarFlowBij dim s key n invert =
      (if invert then invertOf (scanOf (filterVmap (planar_flow.make_layer dim s) (jrSplitN key n)))
       else scanOf (filterVmap (planar_flow.make_layer dim s) (jrSplitN key n))) := rfl
theorem bnafFlowBij_eq (act : ℝ → ℝ) (inverter : (List ℝ → List ℝ → List ℝ) → List ℝ → List ℝ → List ℝ)
    (key : ℕ → BnafNet ℝ × List ℕ) (n : ℕ) (invert : Bool) :
    bnafFlowBij dim act inverter key n invert =
      (if invert then invertOf (scanOf (filterVmap (block_neural_autoregressive_flow.make_layer dim act inverter) (jrSplitN key n)))
       else scanOf (filterVmap (block_neural_autoregressive_flow.make_layer dim act inverter) (jrSplitN key n))) := rfl
theorem triSplineFlowBij_eq (m : ℝ) (key : ℕ → TriSplineNet ℝ × List ℕ) (n : ℕ) (invert : Bool) :
    triSplineFlowBij dim m key n invert =
      (if invert then invertOf (scanOf (filterVmap (triSplineLayer dim m) (jrSplitN key n)))
       else scanOf (filterVmap (triSplineLayer dim m) (jrSplitN key n))) := rfl
end unfold

/-! ## whole flows: every number of layers, every parameter value, both orientations -/
section flows
open Masks

/-- **coupling_flow** -/
theorem coupling_flow_lawful (tf : List ℝ → Bij ℝ Unit ℝ) (htf : ∀ ps, (tf ps).Lawful univ univ) (dim : ℕ)
    (key : ℕ → (List ℝ → List ℝ) × List ℕ) (n : ℕ) (invert : Bool) (hperm : ∀ i < n, PermKeyOK dim (key i).2) :
    (couplingFlowBij tf dim key n invert).Lawful (Vec dim) (Vec dim) := by
  rw [couplingFlowBij_eq]
  refine flow_lawful _ key n invert fun i hi => ?_
  rw [coupling_make_layer_eq]
  exact add_default_permute_lawful (coupling_layer_lawful _ tf htf _ dim) (hperm i hi)

theorem coupling_flow_ldAntisym (tf : List ℝ → Bij ℝ Unit ℝ) (htf : ∀ ps, (tf ps).Lawful univ univ)
    (hta : ∀ ps, (tf ps).LdAntisym univ) (dim : ℕ)
    (key : ℕ → (List ℝ → List ℝ) × List ℕ) (n : ℕ) (invert : Bool) (hperm : ∀ i < n, PermKeyOK dim (key i).2) :
    (couplingFlowBij tf dim key n invert).LdAntisym (Vec dim) := by
  rw [couplingFlowBij_eq]
  refine flow_ldAntisym _ key n invert fun i hi => ?_
  rw [coupling_make_layer_eq]
  exact ⟨add_default_permute_lawful (coupling_layer_lawful _ tf htf _ dim) (hperm i hi),
    add_default_permute_ldAntisym (coupling_layer_lawful _ tf htf _ dim) (coupling_layer_ldAntisym _ tf hta _ dim) (hperm i hi)⟩

/-- **masked_autoregressive_flow** -/
theorem maf_flow_lawful (tf : List ℝ → Bij ℝ Unit ℝ) (htf : ∀ ps, (tf ps).Lawful univ univ) (dim : ℕ)
    (key : ℕ → MafNet ℝ × List ℕ) (n : ℕ) (invert : Bool)
    (hnet : ∀ i < n, (key i).1.WellShaped ∧ (key i).1.dim = dim) (hperm : ∀ i < n, PermKeyOK dim (key i).2) :
    (mafFlowBij tf dim key n invert).Lawful (Vec dim) (Vec dim) := by
  rw [mafFlowBij_eq]
  refine flow_lawful _ key n invert fun i hi => ?_
  rw [maf_make_layer_eq]
  exact add_default_permute_lawful (maf_layer_lawful _ (hnet i hi).1 tf htf (hnet i hi).2) (hperm i hi)

theorem maf_flow_ldAntisym (tf : List ℝ → Bij ℝ Unit ℝ) (htf : ∀ ps, (tf ps).Lawful univ univ) (dim : ℕ)
    (key : ℕ → MafNet ℝ × List ℕ) (n : ℕ) (invert : Bool)
    (hnet : ∀ i < n, (key i).1.WellShaped ∧ (key i).1.dim = dim) (hperm : ∀ i < n, PermKeyOK dim (key i).2) :
    (mafFlowBij tf dim key n invert).LdAntisym (Vec dim) := by
  rw [mafFlowBij_eq]
  refine flow_ldAntisym _ key n invert fun i hi => ?_
  rw [maf_make_layer_eq]
  exact ⟨add_default_permute_lawful (maf_layer_lawful _ (hnet i hi).1 tf htf (hnet i hi).2) (hperm i hi),
    add_default_permute_ldAntisym (maf_layer_lawful _ (hnet i hi).1 tf htf (hnet i hi).2)
      (maf_layer_ldAntisym _ (hnet i hi).1 tf htf (hnet i hi).2) (hperm i hi)⟩

/-- **planar_flow**, leaky-relu activation with `0 < negative_slope ≤ 1` -/
theorem planar_flow_lawful (dim : ℕ) {s : ℝ} (hs0 : 0 < s) (hs1 : s ≤ 1)
    (key : ℕ → (List ℝ → List ℝ) × List ℕ) (n : ℕ) (invert : Bool)
    (hpar : ∀ i < n, PlanarOK dim (key i).1) (hperm : ∀ i < n, PermKeyOK dim (key i).2) :
    (planarFlowBij dim s key n invert).Lawful (Vec dim) (Vec dim) := by
  rw [planarFlowBij_eq]
  refine flow_lawful _ key n invert fun i hi => ?_
  rw [planar_make_layer_eq]
  exact add_default_permute_lawful (planar_layer_lawful (hpar i hi) hs0 hs1) (hperm i hi)

theorem planar_flow_ldAntisym (dim : ℕ) {s : ℝ} (hs0 : 0 < s) (hs1 : s ≤ 1)
    (key : ℕ → (List ℝ → List ℝ) × List ℕ) (n : ℕ) (invert : Bool)
    (hpar : ∀ i < n, PlanarOK dim (key i).1) (hperm : ∀ i < n, PermKeyOK dim (key i).2) :
    (planarFlowBij dim s key n invert).LdAntisym (Vec dim) := by
  rw [planarFlowBij_eq]
  refine flow_ldAntisym _ key n invert fun i hi => ?_
  rw [planar_make_layer_eq]
  exact ⟨add_default_permute_lawful (planar_layer_lawful (hpar i hi) hs0 hs1) (hperm i hi),
    add_default_permute_ldAntisym (planar_layer_lawful (hpar i hi) hs0 hs1) (planar_layer_ldAntisym (hpar i hi) hs0 hs1) (hperm i hi)⟩

/-- **block_neural_autoregressive_flow**: the forward maps are analytic, the inverse is whatever the `inverter` returns;
with an inverter that returns exact preimages the whole flow is lawful -/
theorem bnaf_flow_lawful (dim depth bd : ℕ) (act : ℝ → ℝ) (hact : StrictMono act)
    (inverter : (List ℝ → List ℝ → List ℝ) → List ℝ → List ℝ → List ℝ)
    (key : ℕ → BnafNet ℝ × List ℕ) (n : ℕ) (invert : Bool)
    (hnet : ∀ i < n, NetLawful.BnafOK dim depth bd (key i).1.layers (key i).1.condLinear ∧
      InverterExact dim inverter (bnafTransform act (key i).1.layers (key i).1.condLinear))
    (hperm : ∀ i < n, PermKeyOK dim (key i).2) :
    (bnafFlowBij dim act inverter key n invert).Lawful (Vec dim) (Vec dim) := by
  rw [bnafFlowBij_eq]
  refine flow_lawful _ key n invert fun i hi => ?_
  rw [bnaf_make_layer_eq]
  exact add_default_permute_lawful (bnaf_layer_lawful act hact _ (hnet i hi).1 inverter (hnet i hi).2) (hperm i hi)

theorem bnaf_flow_ldAntisym (dim depth bd : ℕ) (act : ℝ → ℝ) (hact : StrictMono act)
    (inverter : (List ℝ → List ℝ → List ℝ) → List ℝ → List ℝ → List ℝ)
    (key : ℕ → BnafNet ℝ × List ℕ) (n : ℕ) (invert : Bool)
    (hnet : ∀ i < n, NetLawful.BnafOK dim depth bd (key i).1.layers (key i).1.condLinear ∧
      InverterExact dim inverter (bnafTransform act (key i).1.layers (key i).1.condLinear))
    (hperm : ∀ i < n, PermKeyOK dim (key i).2) :
    (bnafFlowBij dim act inverter key n invert).LdAntisym (Vec dim) := by
  rw [bnafFlowBij_eq]
  refine flow_ldAntisym _ key n invert fun i hi => ?_
  rw [bnaf_make_layer_eq]
  exact ⟨add_default_permute_lawful (bnaf_layer_lawful act hact _ (hnet i hi).1 inverter (hnet i hi).2) (hperm i hi),
    add_default_permute_ldAntisym (bnaf_layer_lawful act hact _ (hnet i hi).1 inverter (hnet i hi).2)
      (bnaf_layer_ldAntisym act hact _ (hnet i hi).1 inverter (hnet i hi).2) (hperm i hi)⟩

end flows

/-! ## forward-only facts (no inverter / no analytic inverse needed) -/
section forward
variable {X C : Type}

/-- what can be said of a bijection from its forward methods alone: maps `D` into `D`, is injective on `D`, and
`transform_and_log_det` returns the point `transform` returns -/
structure FwdLawful (b : Bij X C ℝ) (D : Set X) : Prop where
  maps : ∀ x ∈ D, ∀ c, b.fwd x c ∈ D
  inj : ∀ x ∈ D, ∀ x' ∈ D, ∀ c, b.fwd x c = b.fwd x' c → x = x'
  fwdLd_fst : ∀ x c, (b.fwdLd x c).1 = b.fwd x c

theorem FwdLawful.of_lawful {b : Bij X C ℝ} {D : Set X} (h : b.Lawful D D) : FwdLawful b D :=
  ⟨h.maps, fun x hx x' hx' c e => by rw [← h.left x hx c, e, h.left x' hx' c], h.fwdLd_fst⟩

theorem scan_fwdLawful {ls : List (Bij X C ℝ)} {D : Set X} (h : ∀ b ∈ ls, FwdLawful b D) : FwdLawful (scanOf ls) D := by
  rw [scanOf_eq_chain]
  refine ⟨?_, ?_, fun x c => Chain.tld_fst ls c (fun b hb x => (h b hb).fwdLd_fst x c) x⟩
  · induction ls with
    | nil => intro x hx c; simpa [scanOf, Chain.toBij] using hx
    | cons b bs ih =>
      intro x hx c
      have := ih (fun b' hb' => h b' (List.mem_cons_of_mem _ hb')) _ ((h b (List.mem_cons_self ..)).maps x hx c) c
      simpa [scanOf, Chain.toBij] using this
  · induction ls with
    | nil => intro x _ x' _ c e; simpa [scanOf, Chain.toBij] using e
    | cons b bs ih =>
      intro x hx x' hx' c e
      have hb := h b (List.mem_cons_self ..)
      simp only [scanOf, Chain.toBij, Chain.transform_cons] at e
      have := ih (fun b' hb' => h b' (List.mem_cons_of_mem _ hb')) _ (hb.maps x hx c) _ (hb.maps x' hx' c) c
        (by simpa [scanOf, Chain.toBij] using e)
      exact hb.inj x hx x' hx' c this

/-- forward maps, log-det point: what survives without any injectivity information (tanh planar layers) -/
structure FwdPoint (b : Bij X C ℝ) (D : Set X) : Prop where
  maps : ∀ x ∈ D, ∀ c, b.fwd x c ∈ D
  fwdLd_fst : ∀ x c, (b.fwdLd x c).1 = b.fwd x c

theorem scan_fwdPoint {ls : List (Bij X C ℝ)} {D : Set X} (h : ∀ b ∈ ls, FwdPoint b D) : FwdPoint (scanOf ls) D := by
  rw [scanOf_eq_chain]
  refine ⟨?_, fun x c => Chain.tld_fst ls c (fun b hb x => (h b hb).fwdLd_fst x c) x⟩
  induction ls with
  | nil => intro x hx c; simpa [scanOf, Chain.toBij] using hx
  | cons b bs ih =>
    intro x hx c
    have := ih (fun b' hb' => h b' (List.mem_cons_of_mem _ hb')) _ ((h b (List.mem_cons_self ..)).maps x hx c) c
    simpa [scanOf, Chain.toBij] using this

end forward

section forwardFlows
open Masks

theorem add_default_permute_fwdLawful {b : VBij ℝ} {d : ℕ} {key : List ℕ} (hb : FwdLawful b (Vec d))
    (hk : PermKeyOK d key) : FwdLawful (add_default_permute b d key) (Vec d) := by
  by_cases h1 : d = 1
  · subst h1; rw [add_default_permute_one]; exact hb
  by_cases h2 : d = 2
  · subst h2; rw [add_default_permute_two]
    exact scan_fwdLawful (ls := [b, flipOf 2]) (by
      intro b' hb'; simp only [List.mem_cons, List.not_mem_nil, or_false] at hb'
      rcases hb' with rfl | rfl
      · exact hb
      · exact .of_lawful (flip_lawful 2 2))
  · rw [add_default_permute_other b h1 h2, jrPermutation_arange (hk h1 h2)]
    exact scan_fwdLawful (ls := [b, permuteOf key]) (by
      intro b' hb'; simp only [List.mem_cons, List.not_mem_nil, or_false] at hb'
      rcases hb' with rfl | rfl
      · exact hb
      · exact .of_lawful (permute_lawful (hk h1 h2)))

theorem add_default_permute_fwdPoint {b : VBij ℝ} {d : ℕ} {key : List ℕ} (hb : FwdPoint b (Vec d))
    (hk : PermKeyOK d key) : FwdPoint (add_default_permute b d key) (Vec d) := by
  have hflip : FwdPoint (flipOf 2 : VBij ℝ) (Vec 2) := ⟨(flip_lawful 2 2).maps, (flip_lawful 2 2).fwdLd_fst⟩
  by_cases h1 : d = 1
  · subst h1; rw [add_default_permute_one]; exact hb
  by_cases h2 : d = 2
  · subst h2; rw [add_default_permute_two]
    exact scan_fwdPoint (ls := [b, flipOf 2]) (by
      intro b' hb'; simp only [List.mem_cons, List.not_mem_nil, or_false] at hb'
      rcases hb' with rfl | rfl
      · exact hb
      · exact hflip)
  · rw [add_default_permute_other b h1 h2, jrPermutation_arange (hk h1 h2)]
    have hp := permute_lawful (C := List ℝ) (hk h1 h2)
    exact scan_fwdPoint (ls := [b, permuteOf key]) (by
      intro b' hb'; simp only [List.mem_cons, List.not_mem_nil, or_false] at hb'
      rcases hb' with rfl | rfl
      · exact hb
      · exact ⟨hp.maps, hp.fwdLd_fst⟩)

/-- **BNAF flow, forward direction, NO hypothesis on the inverter**: for every number of layers, all raw weights
(`BnafOK`), every strictly increasing activation and every valid permutation, `Scan(layers).transform` maps `ℝ^dim` into
`ℝ^dim`, is injective (a preimage is unique when it exists) and `transform_and_log_det` returns the same point. -/
theorem bnaf_flow_forward_lawful (dim depth bd : ℕ) (act : ℝ → ℝ) (hact : StrictMono act)
    (inverter : (List ℝ → List ℝ → List ℝ) → List ℝ → List ℝ → List ℝ)
    (key : ℕ → BnafNet ℝ × List ℕ) (n : ℕ)
    (hnet : ∀ i < n, NetLawful.BnafOK dim depth bd (key i).1.layers (key i).1.condLinear)
    (hperm : ∀ i < n, PermKeyOK dim (key i).2) :
    FwdLawful (bnafFlowBij dim act inverter key n false) (Vec dim) := by
  rw [bnafFlowBij_eq]
  simp only [Bool.false_eq_true, if_false]
  refine scan_fwdLawful fun b hb => ?_
  obtain ⟨i, hi, rfl⟩ := (mem_layers _ key n b).mp hb
  rw [bnaf_make_layer_eq]
  refine add_default_permute_fwdLawful ⟨?_, ?_, fun _ _ => rfl⟩ (hperm i hi)
  · intro x hx c
    exact NetLawful.bnafTransform_length act dim depth bd _ (hnet i hi).hshapes (hnet i hi).hws _ c x
  · intro x hx x' hx' c e
    exact NetLawful.bnaf_injective act hact (hnet i hi) c x x' hx hx' e

/-- **tanh planar flow** (`negative_slope=None`), the two methods the library implements: for every number of layers
`Scan(layers).transform` maps `ℝ^dim` into `ℝ^dim` and `transform_and_log_det` returns the same point -/
theorem planar_tanh_flow_forward (dim : ℕ) (key : ℕ → (List ℝ → List ℝ) × List ℕ) (n : ℕ)
    (hpar : ∀ i < n, PlanarOK dim (key i).1) (hperm : ∀ i < n, PermKeyOK dim (key i).2) :
    (∀ x ∈ Vec dim, ∀ c, planarTanhFlowFwd dim key n x c ∈ Vec dim) ∧
    (∀ x c, (planarTanhFlowFwdLd dim key n x c).1 = planarTanhFlowFwd dim key n x c) := by
  have h : FwdPoint (scanOf (filterVmap (planarTanhLayer dim) (jrSplitN key n))) (Vec dim) := by
    refine scan_fwdPoint fun b hb => ?_
    obtain ⟨i, hi, rfl⟩ := (mem_layers _ key n b).mp hb
    refine add_default_permute_fwdPoint ⟨?_, ?_⟩ (hperm i hi)
    · intro x hx c
      have hwf := PlanarPf.getPlanar_wf (hpar i hi c).1 (hpar i hi c).2
      show ((Planar.getPlanar dim ((key i).1 c)).transform_tanh x).length = dim
      simp only [UnconditionalPlanar.transform_tanh, List.length_zipWith, List.length_map,
        PlanarPf.get_act_scale_length hwf]
      have hx' : x.length = dim := hx
      simp [hx']
    · intro x c
      show ((Planar.getPlanar dim ((key i).1 c)).transform_and_log_det_tanh x).1 = (Planar.getPlanar dim ((key i).1 c)).transform_tanh x
      simp only [UnconditionalPlanar.transform_and_log_det_tanh, UnconditionalPlanar.transform_tanh]
      rw [ParamsPf.jdot_comm x]
  exact ⟨h.maps, h.fwdLd_fst⟩

end forwardFlows

/-! ## C03: the `Transformed` every factory returns -/
section cov
variable {K : Type}

/-- the three clauses of C03 for `Transformed(base, b)` with `b` lawful on `D` with antisymmetric log-dets -/
theorem flow_change_of_variables {b : VBij ℝ} {D : Set (List ℝ)} (hb : b.Lawful D D) (ha : b.LdAntisym D)
    (base : VDist K ℝ) :
    (∀ x c, (transformedOf base b).logProb x c = base.logProb (b.inv x c) c + (b.invLd x c).2) ∧
    (∀ k c, (transformedOf base b).sample k c = b.fwd (base.sample k c) c) ∧
    (∀ k c, (transformedOf base b).sampleLp k c
        = (b.fwd (base.sampleLp k c).1 c, (base.sampleLp k c).2 - (b.fwdLd (base.sampleLp k c).1 c).2)) ∧
    (base.Consistent → (∀ k c, base.sample k c ∈ D) → (transformedOf base b).Consistent) := by
  refine ⟨fun x c => ?_, fun k c => rfl, fun k c => ?_, fun hc hD => ?_⟩
  · show (Transformed.mk base b).toDist.logProb x c = _
    rw [Gen.transformed_logProb]; simp only [hb.invLd_fst]
  · show (Transformed.mk base b).toDist.sampleLp k c = _
    rw [Gen.transformed_sampleLp]; simp only [hb.fwdLd_fst]
  · exact Gen.transformed_consistent (Transformed.mk base b) hb ha hc hD

end cov

/-! ## C08: the layer stack of a factory IS the chain of its unstacked layers -/
section c08
variable {X C : Type}

theorem layers_eq_map {κ β : Type} (mk : κ → β) (key : ℕ → κ) (n : ℕ) :
    filterVmap mk (jrSplitN key n) = (List.range n).map (fun i => mk (key i)) := by
  simp [filterVmap, jrSplitN, List.map_map, Function.comp_def]

/-- `Chain([a, p]).merge_chains()` for each layer, then the chain of those: same four methods as the FLAT chain
`[a₀, p₀, a₁, p₁, …]` (what `merge_chains` / a fully unrolled flow would be) -/
theorem chain_of_pairs_flat (ls : List (Bij X C ℝ × Bij X C ℝ)) :
    (Chain.mk (ls.map fun l => mergeChains (chainOf [l.1, l.2]))).toBij.Equiv
      (Chain.mk (ls.flatMap fun l => [l.1, l.2])).toBij := by
  have := Gen.merge_chains_step (ls.map fun l => Item.chain [l.1, l.2])
  simpa [List.map_map, Function.comp_def, Item.toBij, Item.flat, List.flatMap_map, mergeChains, chainOf] using this

end c08

/-! ## triangular_spline_flow -/
section trispline
variable {C : Type}

theorem zipWith_cancel' {β : Type} (f g : β → ℝ → ℝ) : ∀ (bs : List β) (xs : List ℝ), xs.length = bs.length →
    (∀ b ∈ bs, ∀ t, g b (f b t) = t) → List.zipWith g bs (List.zipWith f bs xs) = xs
  | [], xs, hl, _ => by simpa using hl
  | b :: bs, [], hl, _ => by simp at hl
  | b :: bs, x :: xs, hl, h => by
    simp only [List.zipWith_cons_cons]
    rw [h b (List.mem_cons_self ..) x, zipWith_cancel' f g bs xs (by simpa using hl)
      (fun b' hb' => h b' (List.mem_cons_of_mem _ hb'))]

theorem zipWith_congr_mem {β γ : Type} (f g : β → ℝ → γ) : ∀ (bs : List β) (xs : List ℝ),
    (∀ b ∈ bs, ∀ t, f b t = g b t) → List.zipWith f bs xs = List.zipWith g bs xs
  | [], _, _ => by simp
  | _ :: _, [], _ => by simp
  | b :: bs, x :: xs, h => by
    simp only [List.zipWith_cons_cons]
    rw [h b (List.mem_cons_self ..) x, zipWith_congr_mem f g bs xs (fun b' hb' => h b' (List.mem_cons_of_mem _ hb'))]

theorem sum_zipWith_neg' {β : Type} (f : β → ℝ → ℝ) (f2 g2 : β → ℝ → ℝ) : ∀ (bs : List β) (xs : List ℝ),
    (∀ b ∈ bs, ∀ t, g2 b (f b t) = -f2 b t) →
    (List.zipWith g2 bs (List.zipWith f bs xs)).sum = -(List.zipWith f2 bs xs).sum
  | [], _, _ => by simp
  | _ :: _, [], _ => by simp
  | b :: bs, x :: xs, h => by
    simp only [List.zipWith_cons_cons, List.sum_cons]
    rw [h b (List.mem_cons_self ..) x, sum_zipWith_neg' f f2 g2 bs xs (fun b' hb' => h b' (List.mem_cons_of_mem _ hb'))]
    ring

/-- the elementwise lifting of scalar bijections lawful on all of ℝ is lawful on the vectors of matching length -/
theorem elementwise_vec_lawful {bs : List (Bij ℝ C ℝ)} (hb : ∀ b ∈ bs, b.Lawful univ univ) :
    (Bij.elementwise bs).Lawful (Vec bs.length) (Vec bs.length) := by
  refine ⟨?_, ?_, ?_, ?_, ?_, ?_⟩
  · intro x hx c; simp only [Bij.elementwise, mem_Vec, List.length_zipWith]; rw [mem_Vec.mp hx]; simp
  · intro y hy c; simp only [Bij.elementwise, mem_Vec, List.length_zipWith]; rw [mem_Vec.mp hy]; simp
  · intro x hx c
    exact zipWith_cancel' (fun b t => b.fwd t c) (fun b t => b.inv t c) bs x hx (fun b hb' t => (hb b hb').left t trivial c)
  · intro y hy c
    exact zipWith_cancel' (fun b t => b.inv t c) (fun b t => b.fwd t c) bs y hy (fun b hb' t => (hb b hb').right t trivial c)
  · intro x c
    exact zipWith_congr_mem (fun b t => (b.fwdLd t c).1) (fun b t => b.fwd t c) bs x (fun b hb' t => (hb b hb').fwdLd_fst t c)
  · intro y c
    exact zipWith_congr_mem (fun b t => (b.invLd t c).1) (fun b t => b.inv t c) bs y (fun b hb' t => (hb b hb').invLd_fst t c)

theorem elementwise_vec_ldAntisym {bs : List (Bij ℝ C ℝ)} (ha : ∀ b ∈ bs, b.LdAntisym univ) (D : Set (List ℝ)) :
    (Bij.elementwise bs).LdAntisym D := by
  intro x _ c
  show ((Bij.elementwise bs).invLd ((Bij.elementwise bs).fwd x c) c).2 = -((Bij.elementwise bs).fwdLd x c).2
  rw [LogDet.elementwise_inv_ld_sum, LogDet.elementwise_ld_sum]
  exact sum_zipWith_neg' (fun b t => b.fwd t c) (fun b t => (b.fwdLd t c).2) (fun b t => (b.invLd t c).2) bs x
    (fun b hb t => ha b hb t trivial c)

/-- what the layer key of `triangular_spline_flow` must determine: `dim` well-formed splines, a lower-triangular matrix
with non-zero diagonal (after weight normalisation; the constructor makes the diagonal positive), `loc` of length `dim`,
and a `dim × cond_dim` matrix when conditional; `tanh_max_val > 0` -/
structure TriSplineOK (dim : ℕ) (m : ℝ) (net : TriSplineNet ℝ) : Prop where
  max_val : 0 < m
  n_splines : net.splines.length = dim
  splines : ∀ s ∈ net.splines, Rqs.RqsWF s
  tri : TriPf.TriWF dim net.tri
  cond : ∀ W, net.condLinear = some W → W.length = dim

theorem linearCondition_lawful (W : List (List ℝ)) : (linearCondition W).Lawful (Vec W.length) (Vec W.length) := by
  have h := elementwise_vec_lawful (C := List ℝ) (bs := W.map fun row =>
    let p : AdditiveCondition (List ℝ) ℝ := { module := fun c => Jnp.dot row c }
    (⟨p.transform, p.inverse, p.transform_and_log_det, p.inverse_and_log_det⟩ : Bij ℝ (List ℝ) ℝ)) (by
      intro b hb
      obtain ⟨row, _, rfl⟩ := List.mem_map.mp hb
      refine ⟨fun _ _ _ => trivial, fun _ _ _ => trivial, ?_, ?_, fun _ _ => rfl, fun _ _ => rfl⟩
      · intro x _ c; simp [AdditiveCondition.transform, AdditiveCondition.inverse]
      · intro y _ c; simp [AdditiveCondition.transform, AdditiveCondition.inverse])
  simpa [linearCondition] using h

theorem linearCondition_ldAntisym (W : List (List ℝ)) (D : Set (List ℝ)) : (linearCondition W).LdAntisym D := by
  refine elementwise_vec_ldAntisym ?_ D
  intro b hb
  obtain ⟨row, _, rfl⟩ := List.mem_map.mp hb
  intro x _ c
  simp [AdditiveCondition.transform_and_log_det, AdditiveCondition.inverse_and_log_det]

theorem triSplineCore_chain {dim : ℕ} {m : ℝ} {net : TriSplineNet ℝ} (h : TriSplineOK dim m net) :
    LogDet.ChainAll Bij.LdAntisym
      ([(Bij.elementwise (List.replicate dim (LeakyTanh.init m).toBij) : VBij ℝ),
        Bij.elementwise (net.splines.map fun s => s.toBij),
        invertOf (Bij.elementwise (List.replicate dim (LeakyTanh.init m).toBij)), net.tri.toBij] ++
        condTail net.condLinear) (Vec dim) (Vec dim) := by
  have hlt : (Bij.elementwise (List.replicate dim (LeakyTanh.init m).toBij) : VBij ℝ).Lawful (Vec dim) (Vec dim) := by
    have := elementwise_vec_lawful (C := List ℝ) (bs := List.replicate dim (LeakyTanh.init m).toBij)
      (fun b hb => by rw [List.eq_of_mem_replicate hb]; exact Leaves.leakytanh_lawful (Leaves.leaky_init_wf h.max_val))
    simpa using this
  have hlta : (Bij.elementwise (List.replicate dim (LeakyTanh.init m).toBij) : VBij ℝ).LdAntisym (Vec dim) :=
    elementwise_vec_ldAntisym (fun b hb => by rw [List.eq_of_mem_replicate hb]; exact LogDet.leakytanh_ld_antisym h.max_val) _
  have hsp : (Bij.elementwise (net.splines.map fun s => s.toBij) : VBij ℝ).Lawful (Vec dim) (Vec dim) := by
    have := elementwise_vec_lawful (C := List ℝ) (bs := net.splines.map fun s => s.toBij)
      (fun b hb => by obtain ⟨s, hs, rfl⟩ := List.mem_map.mp hb; exact Rqs.rqs_lawful (h.splines s hs))
    simpa [h.n_splines] using this
  have hspa : (Bij.elementwise (net.splines.map fun s => s.toBij) : VBij ℝ).LdAntisym (Vec dim) :=
    elementwise_vec_ldAntisym (fun b hb => by obtain ⟨s, hs, rfl⟩ := List.mem_map.mp hb; exact Rqs.rqs_ldAntisym (h.splines s hs)) _
  have hinv : (invertOf (Bij.elementwise (List.replicate dim (LeakyTanh.init m).toBij)) : VBij ℝ).Lawful (Vec dim) (Vec dim) :=
    Gen.invert_lawful hlt
  have hinva : (invertOf (Bij.elementwise (List.replicate dim (LeakyTanh.init m).toBij)) : VBij ℝ).LdAntisym (Vec dim) :=
    LogDet.invert_ld_antisym hlt hlta
  have htri : (net.tri.toBij : VBij ℝ).Lawful (Vec dim) (Vec dim) := TriPf.triangular_lawful h.tri
  have htria : (net.tri.toBij : VBij ℝ).LdAntisym (Vec dim) := TriPf.triangular_ld_antisym _ _
  have htail : LogDet.ChainAll Bij.LdAntisym (condTail net.condLinear) (Vec dim) (Vec dim) := by
    cases hc : net.condLinear with
    | none => exact .nil _
    | some W =>
      have hW := h.cond W hc
      have hl := linearCondition_lawful W
      rw [hW] at hl
      exact .cons hl (linearCondition_ldAntisym W _) (.nil _)
  exact .cons hlt hlta (.cons hsp hspa (.cons hinv hinva (.cons htri htria htail)))

theorem triSpline_layer_lawful {dim : ℕ} {m : ℝ} {net : TriSplineNet ℝ} (h : TriSplineOK dim m net) :
    (triSplineCore net dim m).Lawful (Vec dim) (Vec dim) := Gen.chain_lawful (triSplineCore_chain h).lawful

theorem triSpline_layer_ldAntisym {dim : ℕ} {m : ℝ} {net : TriSplineNet ℝ} (h : TriSplineOK dim m net) :
    (triSplineCore net dim m).LdAntisym (Vec dim) := LogDet.chain_ld_antisym (triSplineCore_chain h)

/-- **triangular_spline_flow**: every number of layers, every spline / triangular / conditioning parameter value, both
orientations -/
theorem tri_spline_flow_lawful (dim : ℕ) (m : ℝ) (key : ℕ → TriSplineNet ℝ × List ℕ) (n : ℕ) (invert : Bool)
    (hnet : ∀ i < n, TriSplineOK dim m (key i).1) (hperm : ∀ i < n, PermKeyOK dim (key i).2) :
    (triSplineFlowBij dim m key n invert).Lawful (Vec dim) (Vec dim) := by
  rw [triSplineFlowBij_eq]
  refine flow_lawful _ key n invert fun i hi => ?_
  exact add_default_permute_lawful (triSpline_layer_lawful (hnet i hi)) (hperm i hi)

theorem tri_spline_flow_ldAntisym (dim : ℕ) (m : ℝ) (key : ℕ → TriSplineNet ℝ × List ℕ) (n : ℕ) (invert : Bool)
    (hnet : ∀ i < n, TriSplineOK dim m (key i).1) (hperm : ∀ i < n, PermKeyOK dim (key i).2) :
    (triSplineFlowBij dim m key n invert).LdAntisym (Vec dim) := by
  rw [triSplineFlowBij_eq]
  refine flow_ldAntisym _ key n invert fun i hi => ?_
  exact ⟨add_default_permute_lawful (triSpline_layer_lawful (hnet i hi)) (hperm i hi),
    add_default_permute_ldAntisym (triSpline_layer_lawful (hnet i hi)) (triSpline_layer_ldAntisym (hnet i hi)) (hperm i hi)⟩


/-! ### the GENERATED `make_layer` / `get_splines` (g25): equal to the hand model, so the theorems above are about it -/

/-- the hand model's per-layer key of the generated closure: the layer as constructed from `(lt_key, perm_key, cond_key)` -/
noncomputable def genTriSplineKey (dim knots : ℕ) (cond_dim : Option ℕ) (key : ℕ → TriSplineKey ℝ) : ℕ → TriSplineNet ℝ × List ℕ :=
  fun i => (triSplineInitNet dim knots cond_dim (key i), (key i).2.1)

/-- **`gen_tri_spline_make_layer_eq`** — the closure `triangular_spline_flow.make_layer` REGENERATED from the source (with the
nested `get_splines`) is the hand model `Flows.triSplineCore` of the layer as constructed, followed by the generated
`_add_default_permute` with `perm_key`: every `dim`, every key (triangular weights, permutation, condition matrix),
every `tanh_max_val`, every `knots`, conditional or not.  (Both sides unfold to the same term: the order of the four
bijections, the `Invert`, `interval=1`, `.set(1)`, `replace_fn=WeightNormalization`, the conditional `append` and which key
goes where are all read from the source on the left and written by hand on the right.) -/
theorem gen_tri_spline_make_layer_eq (dim : ℕ) (m : ℝ) (knots : ℕ) (cond_dim : Option ℕ) (key : TriSplineKey ℝ) :
    triangular_spline_flow.make_layer dim m knots cond_dim key =
      triSplineLayer dim m (triSplineInitNet dim knots cond_dim key, key.2.1) := by
  obtain ⟨lt, perm, ck⟩ := key
  cases cond_dim <;> rfl

/-- the generated `get_splines()` is the `Vmap` of `dim` copies of `RationalQuadraticSpline(knots=knots, interval=1)` -/
theorem gen_tri_spline_get_splines_eq (dim knots : ℕ) :
    (triangular_spline_flow.get_splines knots dim : VBij ℝ) =
      Bij.elementwise ((List.replicate dim (rqsCtor knots (1 : ℝ))).map fun s => s.toBij) := rfl

/-- the generated factory body over the generated closure = the factory body over the hand layer at the constructed keys -/
theorem genTriSplineFlowBij_eq (dim : ℕ) (m : ℝ) (knots : ℕ) (cond_dim : Option ℕ) (key : ℕ → TriSplineKey ℝ) (n : ℕ)
    (invert : Bool) :
    genTriSplineFlowBij dim m knots cond_dim key n invert =
      triSplineFlowBij dim m (genTriSplineKey dim knots cond_dim key) n invert := by
  have h : filterVmap (triangular_spline_flow.make_layer dim m knots cond_dim) (jrSplitN key n) =
      filterVmap (triSplineLayer dim m) (jrSplitN (genTriSplineKey dim knots cond_dim key) n) := by
    simp only [filterVmap, jrSplitN, List.map_map]
    refine List.map_congr_left fun i _ => ?_
    exact gen_tri_spline_make_layer_eq dim m knots cond_dim (key i)
  show (if invert then invertOf (scanOf (filterVmap (triangular_spline_flow.make_layer dim m knots cond_dim) (jrSplitN key n)))
       else scanOf (filterVmap (triangular_spline_flow.make_layer dim m knots cond_dim) (jrSplitN key n))) = _
  rw [h]; rfl

end trispline

/-! ## concrete objects for the non-vacuity instances -/
section instances
open Masks MasksPf

/-- per-layer keys of a 2-layer coupling flow on `ℝ³`: two different (non-linear / constant) conditioners, two different
permutations of `0,1,2` -/
noncomputable def couplingKeys : ℕ → (List ℝ → List ℝ) × List ℕ := fun i =>
  if i = 0 then ((fun l => l.flatMap fun a => [a * a + 1, a - 2, 3, a]), [2, 0, 1])
  else ((fun _ => [1 / 2, -1, 0, 4]), [1, 2, 0])

theorem couplingKeys_perm : ∀ i < 2, PermKeyOK 3 (couplingKeys i).2 := by
  intro i hi _ _
  interval_cases i
  · simp only [couplingKeys, if_true]; decide
  · simp only [couplingKeys, one_ne_zero, if_false]; decide

theorem mafExample_wellShaped : mafExample.WellShaped := by
  refine ⟨rfl, rfl, ?_⟩
  intro l hw hb
  have hl : l < 2 := hw
  interval_cases l
  · exact ⟨2, 2, rfl, rfl, ⟨rfl, by intro row hrow; simp [mafExample] at hrow; subst hrow; rfl⟩, rfl⟩
  · exact ⟨2, 2, rfl, rfl, ⟨rfl, by intro row hrow; simp [mafExample] at hrow; subst hrow; rfl⟩, rfl⟩

/-- a constant (unconditional) planar parameter vector for `dim = 2`: `w = (1, 0)`, `u = (0, 3)`, `b = 0` -/
def planarParams : List ℝ → List ℝ := fun _ => [1, 0, 0, 3, 0]

theorem planarParams_ok : PlanarOK 2 planarParams := by
  intro c; refine ⟨rfl, ?_⟩; simp [planarParams, ParamsPf.jdot_eq]

/-- a triangular-spline layer on `ℝ²`: two copies of `Rqs.exampleSpline`, the lower-triangular matrix `[[1,0],[1/2,2]]`,
`loc = (0, 1)`, conditioned linearly on one variable through `W = [[1],[-2]]` -/
noncomputable def triSplineNet : TriSplineNet ℝ :=
  ⟨[Rqs.exampleSpline, Rqs.exampleSpline], ⟨[[1, 0], [1 / 2, 2]], [0, 1], true⟩, some [[1], [-2]]⟩

theorem triSplineNet_ok : TriSplineOK 2 3 triSplineNet := by
  refine ⟨by norm_num, rfl, ?_, ?_, ?_⟩
  · intro s hs
    simp only [triSplineNet, List.mem_cons, List.not_mem_nil, or_false, or_self] at hs
    subst hs; exact Rqs.rqsWF_instance
  · refine ⟨rfl, ?_⟩
    simp only [triSplineNet, if_true]
    refine ⟨⟨rfl, by intro r hr; simp at hr; rcases hr with rfl | rfl <;> rfl⟩, ?_, ?_⟩
    · intro i j hij hj
      have : i = 0 ∧ j = 1 := by omega
      obtain ⟨rfl, rfl⟩ := this
      simp [TriPf.entry]
    · intro i hi
      have : i = 0 ∨ i = 1 := by omega
      rcases this with rfl | rfl <;> simp [TriPf.entry]
  · intro W hW
    simp only [triSplineNet, Option.some.injEq] at hW
    subst hW; rfl

/-- an inverter that returns a preimage of length `dim` whenever one exists (classical choice) — what an exact solver
computes; used only to show that `InverterExact` is satisfiable -/
noncomputable def choiceInverter (dim : ℕ) : (List ℝ → List ℝ → List ℝ) → List ℝ → List ℝ → List ℝ :=
  fun T y c => by
    classical
    exact if h : ∃ x : List ℝ, x.length = dim ∧ T x c = y then Classical.choose h else y

theorem choiceInverter_exact (dim : ℕ) (T : List ℝ → List ℝ → List ℝ)
    (hsurj : ∀ y c, y.length = dim → ∃ x : List ℝ, x.length = dim ∧ T x c = y) : InverterExact dim (choiceInverter dim) T := by
  intro y c hy
  have h := hsurj y c hy
  simp only [choiceInverter, dif_pos h]
  exact Classical.choose_spec h

/-- the BNAF layer of the instances: `MasksPf.bnafExample` (dim 2, depth 1, block_dim 1), unconditional -/
noncomputable def bnafNet : BnafNet ℝ := ⟨bnafExample, none, fun _ _ => 0⟩

theorem bnafNet_exact : InverterExact 2 (choiceInverter 2) (Masks.bnafTransform (fun z : ℝ => z + z) bnafNet.layers bnafNet.condLinear) := by
  have hact : StrictMono (fun z : ℝ => z + z) := fun a b h => by simp only; linarith
  have hsurj : Function.Surjective (fun z : ℝ => z + z) := fun b => ⟨b / 2, by simp only; ring⟩
  refine choiceInverter_exact 2 _ fun y c hy => ?_
  exact NetLawful.bnaf_surjective_of_slices _ NetLawful.bnafExample_ok c
    (fun x i hx hi => (NetLawful.bnaf_slice_surjective _ hact hsurj NetLawful.bnafExample_ok c x hx i hi).2) y hy

end instances

end FlowsPf
