import Flowjaxv.Proofs.Masks
import Flowjaxv.Gen.MasksGen
/-!
# The GENERATED mask helpers and rank assignment (`Gen/MasksGen.lean`) equal the hand model (`Model/Masks.lean`)

`Gen/MasksGen.lean` is re-translated from `/repo/flowjax/masks.py` and `/repo/flowjax/bijections/masked_autoregressive.py` on
every run; the statements below are therefore re-checked against what the code says now.  Every size is universally
quantified (block shape, number of blocks, offset, rank vectors, dim, cond_dim, width, parameters per dimension, depth).
-/
open Masks

namespace MasksGenPf

/-! ## list facts -/

theorem foldl_append_singleton {β γ : Type} (f : β → γ) (xs : List β) (init : List γ) :
    xs.foldl (fun acc x => acc ++ [f x]) init = init ++ xs.map f := by
  induction xs generalizing init with
  | nil => simp
  | cons x xs ih => simp [ih]

theorem zipIdx_replicate {β : Type} (n : Nat) (x : β) (k : Nat) :
    (List.replicate n x).zipIdx k = (List.range' k n).map fun i => (x, i) := by
  induction n generalizing k with
  | zero => simp
  | succ n ih => simp [List.replicate_succ, List.zipIdx_cons, List.range'_succ, ih]

theorem enumerate_eq {β : Type} (xs : List β) :
    JnpMask.enumerate xs = (List.range xs.length).zipWith (fun i x => (i, x)) xs := by
  unfold JnpMask.enumerate
  apply List.ext_getElem
  · simp
  · intro i h1 h2
    simp

/-! ## `rank_based_mask` -/

theorem gen_rankBasedMask (inR outR : List Int) (eq : Bool) :
    Gen.rankBasedMask inR outR eq = rankBasedMask inR outR eq := by
  unfold Gen.rankBasedMask rankBasedMask JnpMask.outer
  cases eq <;> simp

/-! ## `block_diag_mask` -/

theorem gen_blockDiagMask (b0 b1 n : Nat) : Gen.blockDiagMask (b0, b1) n = blockDiagMask b0 b1 n := by
  unfold Gen.blockDiagMask blockDiagMask JnpMask.blockDiag JnpMask.ones3
  simp only [List.length_replicate, zipIdx_replicate, List.flatMap_map, List.map_replicate]
  rw [List.range_eq_range']

/-! ## `block_tril_mask` -/

theorem sliceBound_some_nonneg (len dflt : Nat) (s : Int) (hs : 0 ≤ s) :
    JnpMask.sliceBound len dflt (some s) = min s.toNat len := by
  simp [JnpMask.sliceBound, not_lt.mpr hs]

/-- one `.at[row:, col:col+w].set(True)` with non-negative bounds is the hand model's `setBlockTrue` -/
theorem atSetSlice2_eq_setBlockTrue (m : Mask) (row : Int) (hrow : 0 ≤ row) (col w : Nat) :
    JnpMask.atSetSlice2 m (some row, none) (some (col : Int), some ((col + w : Nat) : Int)) true
      = setBlockTrue m row.toNat col w := by
  unfold JnpMask.atSetSlice2 setBlockTrue
  have hr0 : ¬ row < 0 := not_lt.mpr hrow
  have hc0 : ¬ ((col : Int) < 0) := by omega
  have hc1 : ¬ (((col + w : Nat) : Int) < 0) := by omega
  simp only [JnpMask.sliceBound, hr0, hc0, hc1, if_false, Int.toNat_natCast]
  rw [List.mapIdx_eq_mapIdx_iff]
  intro i hi
  have h1 : (min row.toNat m.length ≤ i ∧ i < m.length) ↔ row.toNat ≤ i := by omega
  by_cases hr : row.toNat ≤ i
  · rw [if_pos (h1.mpr hr), if_pos hr, List.mapIdx_eq_mapIdx_iff]
    intro j hj
    by_cases hc : col ≤ j ∧ j < col + w
    · have : min col m[i].length ≤ j ∧ j < min (col + w) m[i].length := by omega
      simp [this, hc.1, hc.2]
    · have : ¬ (min col m[i].length ≤ j ∧ j < min (col + w) m[i].length) := by omega
      rw [if_neg this]
      rcases not_and_or.mp hc with h | h <;> simp [h]
  · rw [if_neg (fun h => hr (h1.mp h)), if_neg hr]

theorem gen_blockTrilStep (b0 b1 : Nat) (k : Int) (mask : Mask) (i : Nat) :
    JnpMask.atSetSlice2 mask (some (max (0 : Int) (((i : Nat) : Int) - k) * ((b0 : Nat) : Int)), none)
        (some (((i * b1 : Nat)) : Int), some (((i * b1 + b1 : Nat)) : Int)) true
      = blockTrilStep b0 b1 k mask i := by
  have h0 : (0 : Int) ≤ max (0 : Int) ((i : Int) - k) * (b0 : Int) :=
    Int.mul_nonneg (le_max_left _ _) (Int.natCast_nonneg _)
  rw [atSetSlice2_eq_setBlockTrue mask _ h0]
  unfold blockTrilStep
  congr 1
  rw [Int.toNat_mul (le_max_left _ _) (Int.natCast_nonneg _)]
  simp

theorem gen_blockTrilMask (b0 b1 n : Nat) (k : Int) : Gen.blockTrilMask (b0, b1) n k = blockTrilMask b0 b1 n k := by
  unfold Gen.blockTrilMask blockTrilMask
  simp only [gen_blockTrilStep]
  rfl

/-! ## the rank vectors of `MaskedAutoregressive.__init__` -/

theorem imod_eq_jmod (a b : Int) : JnpMask.imod a b = jmod a b := rfl

theorem jarange_eq (n : Nat) : JnpMask.arange n = arange n := rfl

theorem gen_mafRanks (np dim width : Nat) (cd : Option Nat) :
    Gen.mafRanks np dim cd width = (mafInRanks dim cd, mafHiddenRanks dim width cd, mafOutRanks dim np) := by
  cases cd with
  | none =>
    simp [Gen.mafRanks, mafInRanks, mafHiddenRanks, mafOutRanks, imod_eq_jmod, jarange_eq, JnpMask.repeat]
  | some c =>
    simp [Gen.mafRanks, mafInRanks, mafHiddenRanks, mafOutRanks, imod_eq_jmod, jarange_eq, JnpMask.repeat,
      JnpMask.hstack, JnpMask.ones, List.map_replicate]

/-! ## `masked_autoregressive_mlp` -/

/-- the rank list the code builds: `[in_ranks, *[hidden_ranks] * depth, out_ranks]` -/
theorem gen_ranks_eq (inR hidR outR : List Int) (d : Nat) :
    ([inR] ++ JnpMask.listMul [hidR] d ++ [outR]) = mlpRanks inR hidR outR d := by
  simp [JnpMask.listMul, mlpRanks]

/-- what the loop of `masked_autoregressive_mlp` computes: layer `i` gets `Where(rank_based_mask(ranks[i], ranks[i+1],
eq = (i != len(layers) - 1)), weight_i, 0)` -/
theorem gen_mlp_layers {ω : Type} (mlp : JnpMask.MLP ω) (inR hidR outR : List Int) :
    (Gen.maskedAutoregressiveMlp mlp inR hidR outR).layers =
      (JnpMask.enumerate mlp.layers).map fun p =>
        ({ weight := { cond := rankBasedMask ((mlpRanks inR hidR outR mlp.depth).getD p.1 [])
                                ((mlpRanks inR hidR outR mlp.depth).getD (p.1 + 1) [])
                                (decide ((p.1 : Int) ≠ (mlp.layers.length : Int) - 1)),
                       if_true := p.2.weight } } : JnpMask.Linear (JnpMask.WhereZ ω)) := by
  unfold Gen.maskedAutoregressiveMlp
  simp only [gen_ranks_eq, gen_rankBasedMask, JnpMask.listGet]
  rw [foldl_append_singleton (fun p : Nat × JnpMask.Linear ω =>
        ({ weight := { cond := rankBasedMask ((mlpRanks inR hidR outR mlp.depth).getD p.1 default)
                                ((mlpRanks inR hidR outR mlp.depth).getD (p.1 + 1) default)
                                (decide ((p.1 : Int) ≠ (mlp.layers.length : Int) - 1)),
                       if_true := p.2.weight } } : JnpMask.Linear (JnpMask.WhereZ ω)))]
  simp
  intro a b _
  rfl

theorem mlpRanks_length (inR hidR outR : List Int) (d : Nat) : (mlpRanks inR hidR outR d).length = d + 2 := by
  simp [mlpRanks]

/-- For an MLP with `depth + 1` linear layers (what `eqx.nn.MLP` allocates): the `Where.cond` arrays of the generated
`masked_autoregressive_mlp`, in layer order, are the hand model's `mlpMasks`; every `Where.if_true` is the layer's own raw
weight (and `if_false = 0`, fixed by the record type); `depth` is untouched. -/
theorem gen_mlp_masks {ω : Type} (mlp : JnpMask.MLP ω) (hlen : mlp.layers.length = mlp.depth + 1) (inR hidR outR : List Int) :
    (Gen.maskedAutoregressiveMlp mlp inR hidR outR).layers.map (fun L => L.weight.cond) = mlpMasks inR hidR outR mlp.depth ∧
    (Gen.maskedAutoregressiveMlp mlp inR hidR outR).layers.map (fun L => L.weight.if_true) = mlp.layers.map (fun L => L.weight) ∧
    (Gen.maskedAutoregressiveMlp mlp inR hidR outR).depth = mlp.depth := by
  refine ⟨?_, ?_, rfl⟩
  · rw [gen_mlp_layers, enumerate_eq]
    apply List.ext_getElem
    · simp [MasksPf.mlpMasks_length, hlen]
    · intro i h1 h2
      have hi : i < mlp.depth + 1 := by simpa [hlen] using h1
      have hr := mlpRanks_length inR hidR outR mlp.depth
      simp only [List.getElem_map, List.getElem_zipWith, List.getElem_range, mlpMasks, List.getElem_mapIdx, List.getElem_zip,
        List.getElem_tail, hlen]
      rw [List.getD_eq_getElem?_getD, List.getD_eq_getElem?_getD, List.getElem?_eq_getElem (by omega), List.getElem?_eq_getElem (by omega)]
      simp only [Option.getD_some]
      congr 1
      have : ((mlp.depth + 1 : Nat) : Int) - 1 = (mlp.depth : Int) := by omega
      rw [this]
      by_cases h : i = mlp.depth
      · simp [h]
      · have h' : (i : Int) ≠ (mlp.depth : Int) := by exact_mod_cast h
        simp [h, h']
  · rw [gen_mlp_layers, enumerate_eq]
    apply List.ext_getElem
    · simp
    · intro i h1 h2
      simp

end MasksGenPf
