import Mathlib.Tactic
import Mathlib.Analysis.SpecialFunctions.Log.Basic
import Mathlib.Algebra.BigOperators.Ring.List
import Mathlib.Algebra.Order.BigOperators.Group.List
import Flowjaxv.Proofs.RealInst
import Flowjaxv.Proofs.DistTheory
import Flowjaxv.Model.Losses
/-!
# Facts about the loss models (`Model/Losses.lean`) at `ℝ`
-/
set_option linter.unusedSectionVars false

namespace Losses
variable {X C K : Type}

/-! ### sums, counts, means -/

theorem sum_eq (xs : List ℝ) : sum xs = xs.sum := by
  induction xs with
  | nil => rfl
  | cons x xs ih => simp only [List.sum_cons, ← ih]; rfl

theorem count_eq {β : Type} (xs : List β) : (count xs : ℝ) = (xs.length : ℝ) := by
  induction xs with
  | nil => simp [count]
  | cons x xs ih =>
    have : (count (x :: xs) : ℝ) = count xs + 1 := rfl
    rw [this, ih]; simp

theorem mean_eq (xs : List ℝ) : mean xs = xs.sum / (xs.length : ℝ) := by
  rw [mean, sum_eq, count_eq]

theorem sum_range_map (f : ℕ → ℝ) (n : ℕ) :
    ((List.range n).map f).sum = ∑ i ∈ Finset.range n, f i := by
  induction n with
  | zero => simp
  | succ n ih => rw [List.range_succ, List.map_append, List.sum_append, ih, Finset.sum_range_succ]; simp

theorem mean_range_map (f : ℕ → ℝ) (n : ℕ) :
    mean ((List.range n).map f) = (∑ i ∈ Finset.range n, f i) / (n : ℝ) := by
  rw [mean_eq, sum_range_map]; simp

/-- every non-empty batch is the tabulation of its index function -/
theorem exists_index_fn (xs : List X) (h : xs ≠ []) :
    ∃ x : ℕ → X, xs = (List.range xs.length).map x := by
  obtain ⟨x0, -⟩ := List.exists_mem_of_ne_nil xs h
  refine ⟨fun i => xs.getD i x0, ?_⟩
  apply List.ext_getElem
  · simp
  · intro i h1 h2
    simp [List.getD_eq_getElem?_getD, List.getElem?_eq_getElem h1]

/-! ### the two ELBO paths -/

theorem zipWith_unzip_map {A B D : Type} (f : A → B × D) (g : D → B → ℝ) (l : List A) :
    List.zipWith g (l.map f).unzip.2 (l.map f).unzip.1 = l.map (fun a => g (f a).2 (f a).1) := by
  induction l with
  | nil => rfl
  | cons a l _ => simp

theorem elbo_nonstl (d : Distn X C K ℝ) (target : X → ℝ) (keys : List K) (c : C) :
    elboLoss d target false keys c
      = mean (keys.map fun k => (d.sampleLp k c).2 - target (d.sampleLp k c).1) := by
  simp only [elboLoss, Bool.false_eq_true, if_false]
  rw [zipWith_unzip_map (fun k => d.sampleLp k c) (fun lp x => lp - target x)]

theorem elbo_stl (d : Distn X C K ℝ) (target : X → ℝ) (keys : List K) (c : C) :
    elboLoss d target true keys c
      = mean (keys.map fun k => d.logProb (d.sample k c) c - target (d.sample k c)) := by
  simp only [elboLoss, if_true]
  congr 1
  induction keys with
  | nil => rfl
  | cons k ks _ => simp

/-! ### logsumexp -/

theorem sum_exp_pos (xs : List ℝ) (h : xs ≠ []) : 0 < (xs.map Real.exp).sum := by
  apply List.sum_pos
  · intro y hy
    obtain ⟨x, -, rfl⟩ := List.mem_map.mp hy
    exact Real.exp_pos x
  · simpa using h

theorem sum_exp_nonneg (xs : List ℝ) : 0 ≤ (xs.map Real.exp).sum := by
  apply List.sum_nonneg
  intro y hy
  obtain ⟨x, -, rfl⟩ := List.mem_map.mp hy
  exact (Real.exp_pos x).le

/-- the max-shifted formula that JAX evaluates equals `log Σ exp` (for any shift, in fact) -/
theorem lse_eq (xs : List ℝ) (h : xs ≠ []) : lse xs = Real.log ((xs.map Real.exp).sum) := by
  simp only [lse, sum_eq, RealInst.log_eq, RealInst.exp_eq]
  generalize maxL xs = m
  have h1 : (xs.map fun x => Real.exp (x - m)) = (xs.map Real.exp).map (fun e => Real.exp (-m) * e) := by
    rw [List.map_map]
    apply List.map_congr_left
    intro x _
    simp only [Function.comp]
    rw [← Real.exp_add]; ring_nf
  rw [h1, List.sum_map_mul_left, List.map_id']
  rw [Real.log_mul (Real.exp_pos _).ne' (sum_exp_pos xs h).ne', Real.log_exp]; ring

theorem lse_append_singleton (pos : ℝ) (con : List ℝ) :
    lse (con ++ [pos]) = Real.log (Real.exp pos + (con.map Real.exp).sum) := by
  rw [lse_eq _ (by simp), List.map_append, List.sum_append]
  simp [add_comm]

/-- `logsumexp(… ++ [pos]) ≥ pos` -/
theorem le_lse (pos : ℝ) (con : List ℝ) : pos ≤ lse (con ++ [pos]) := by
  rw [lse_append_singleton]
  calc pos = Real.log (Real.exp pos) := (Real.log_exp pos).symm
    _ ≤ _ := Real.log_le_log (Real.exp_pos pos) (by linarith [sum_exp_nonneg con])

theorem rowTerm_nonneg (pos : ℝ) (con : List ℝ) : 0 ≤ rowTerm pos con := by
  have := le_lse pos con
  simp only [rowTerm]; linarith

/-- one row is the softmax cross-entropy with the positive logit as the label -/
theorem rowTerm_eq (pos : ℝ) (con : List ℝ) :
    rowTerm pos con = -Real.log (Real.exp pos / (Real.exp pos + (con.map Real.exp).sum)) := by
  have hS : 0 < Real.exp pos + (con.map Real.exp).sum := by
    linarith [Real.exp_pos pos, sum_exp_nonneg con]
  rw [rowTerm, lse_append_singleton, Real.log_div (Real.exp_pos _).ne' hS.ne', Real.log_exp]

/-! ### contrastive indices -/

theorem choices_eq_erase {b i : ℕ} (hi : i < b) : choices b i = (List.range b).erase i := by
  have := List.Nodup.erase_getElem (List.nodup_range (n := b)) i (by simpa using hi)
  simp only [List.getElem_range] at this
  rw [choices, this]

theorem mem_choices {b i j : ℕ} (hi : i < b) : j ∈ choices b i ↔ j ≠ i ∧ j < b := by
  rw [choices_eq_erase hi, List.Nodup.mem_erase_iff List.nodup_range, List.mem_range]

theorem choices_nodup (b i : ℕ) : (choices b i).Nodup :=
  List.Nodup.sublist (List.eraseIdx_sublist _ _) List.nodup_range

theorem choices_length {b i : ℕ} (hi : i < b) : (choices b i).length = b - 1 := by
  simp [choices, List.length_eraseIdx, hi]

/-- a family of permutations of the candidate lists, one per row -/
def Admissible (b : ℕ) (π : ℕ → List ℕ) : Prop := ∀ i < b, (π i).Perm (choices b i)

theorem admissibleB_iff (b : ℕ) (π : ℕ → List ℕ) : admissibleB b π = true ↔ Admissible b π := by
  simp [admissibleB, Admissible, List.isPerm_iff]

theorem take_valid {b n i : ℕ} {π : ℕ → List ℕ} (hπ : Admissible b π) (hn : n < b) (hi : i < b) :
    ((π i).take n).length = n ∧ ((π i).take n).Nodup ∧ i ∉ (π i).take n ∧ ∀ j ∈ (π i).take n, j < b := by
  have hp := hπ i hi
  have hlen : (π i).length = b - 1 := by rw [hp.length_eq, choices_length hi]
  refine ⟨?_, ?_, ?_, ?_⟩
  · rw [List.length_take, hlen]; omega
  · exact List.Nodup.sublist (List.take_sublist _ _) (hp.nodup_iff.mpr (choices_nodup b i))
  · intro hm
    have := (mem_choices hi).mp (hp.mem_iff.mp (List.mem_of_mem_take hm))
    exact this.1 rfl
  · intro j hm
    exact ((mem_choices hi).mp (hp.mem_iff.mp (List.mem_of_mem_take hm))).2

/-! ### evaluation of the contrastive model -/

theorem gather_range_map (x : ℕ → X) (b : ℕ) (js : List ℕ) (h : ∀ j ∈ js, j < b) :
    gather ((List.range b).map x) js = some (js.map x) := by
  induction js with
  | nil => rfl
  | cons j js ih =>
    have hj : j < b := h j (by simp)
    have ih' := ih (fun k hk => h k (by simp [hk]))
    have hx : ((List.range b).map x)[j]? = some (x j) := by simp [hj]
    simp only [gather, hx, ih', List.map_cons]

theorem sequence_map_some {A B : Type} (f : A → B) (l : List A) :
    sequence (l.map fun a => some (f a)) = some (l.map f) := by
  induction l with
  | nil => rfl
  | cons a l ih => simp only [List.map_cons, sequence, ih]

/-- the value of the contrastive model on a batch given by index functions -/
theorem contrastive_eval (d : Distn X C K ℝ) (prior : X → ℝ) (b n : ℕ) (x : ℕ → X) (c : ℕ → C)
    (π : ℕ → List ℕ) (hn : n < b) (hπ : Admissible b π) :
    contrastiveLoss d prior n ((List.range b).map x) ((List.range b).map c) π
      = some (mean ((List.range b).map fun i =>
          rowTerm (logit d prior (x i) (c i)) (((π i).take n).map fun j => logit d prior (x j) (c i)))) := by
  have hlx : ((List.range b).map x).length = b := by simp
  have hlc : ((List.range b).map c).length = b := by simp
  rw [contrastiveLoss, hlx, hlc, if_neg (by omega), if_neg (by simp)]
  simp only [contrastiveIdxs, List.zip_map', List.map_map]
  have hrow : ∀ i ∈ List.range b,
      ((fun r : X × C × List ℕ => rowLoss d prior ((List.range b).map x) r.1 r.2.1 r.2.2) ∘
          fun i => (x i, c i, (π i).take n)) i
        = some (rowTerm (logit d prior (x i) (c i)) (((π i).take n).map fun j => logit d prior (x j) (c i))) := by
    intro i hi
    have hv := take_valid hπ hn (List.mem_range.mp hi)
    simp only [Function.comp, rowLoss, gather_range_map x b _ hv.2.2.2, Option.map_some, List.map_map]
    rfl
  rw [List.map_congr_left hrow, sequence_map_some, Option.map_some]

end Losses
