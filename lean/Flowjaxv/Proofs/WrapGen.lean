import Flowjaxv.Proofs.Tree
import Flowjaxv.Model.WrapGen
/-!
# The generated `.unwrap()` bodies satisfy what `Model/Tree.lean` asks of the abstract `WrapFn` — core Lean only

`WrapFree` (wrapper-free arguments give a wrapper-free value) and `SkUniform` (the skeleton of the value depends only on the
skeleton of the arguments) are the two hypotheses of the C12 theorems about `unwrap`.  They are PROVED here for
`PyTree.genWrapFn`, the `WrapFn` assembled from the bodies generated from `/repo/flowjax/wrappers.py` (`Gen/Wrappers.lean`), for
every bijection table and every `Lambda` function with the same two properties.
-/
set_option linter.unusedSectionVars false
namespace PyTree
open Gen.Wr

section
variable {α : Type} [Add α] [Sub α] [Mul α] [Div α] [Neg α] [LT α] [LE α] [BEq α]
  [OfNat α 0] [OfNat α 1] [OfNat α 2] [OfNat α 4] [OfScientific α]
  [DecidableLT α] [DecidableLE α] [Transc α] [Inhabited α]

/-! ## `NonTrainable.unwrap` is the identity on values -/

/-- the generated `NonTrainable.unwrap` (`partition`, `stop_gradient` on the array half, `combine`) returns its tree, for every
lawful pair `eqx.partition` / `eqx.combine` -/
theorem gen_nonTrainable_identity {τ : Type} (P : Wrappers.EqxPartition τ) (hP : P.Lawful) (t : τ) :
    (⟨t⟩ : NonTrainable τ).unwrap P = t := hP t

theorem treePartition_lawful : (treePartition : Wrappers.EqxPartition (Tree α)).Lawful := fun t => combine_part t

/-- the clause `Model/Tree.lean` hard-wires for `NonTrainable` nodes is the generated body over the model's partition -/
theorem applyW_nonTrainable_eq_gen (f : WrapFn α) (tag : Nat) (b : List Nat) (c : Tree α) :
    applyW f .nonTrainable tag b [c] = (⟨c⟩ : NonTrainable (Tree α)).unwrap treePartition := by
  rw [gen_nonTrainable_identity _ treePartition_lawful]
  rfl

/-! ## skeleton lemmas -/

theorem Sk_nthT : ∀ (cs cs' : List (Tree α)) (j : Nat), SkL cs cs' = true → Sk (nthT cs j) (nthT cs' j) = true
  | [], cs', j, h => by
      cases cs' with
      | nil => simp [nthT, Sk]
      | cons _ _ => simp [SkL] at h
  | c :: cs, cs', j, h => by
      cases cs' with
      | nil => simp [SkL] at h
      | cons c' cs' =>
        simp only [SkL, Bool.and_eq_true] at h
        cases j with
        | zero => simpa [nthT] using h.1
        | succ j => simpa [nthT] using Sk_nthT cs cs' j h.2

theorem idix_of_Sk (tag : Nat) {t t' : Tree α} (h : Sk t t' = true) : idix tag t = idix tag t' := by
  cases t with
  | arr id ix a => rw [Sk_arr_inv h]; rfl
  | none => rw [Sk_none_inv h]
  | static id => rw [Sk_static_inv h]
  | node cs => rw [(Sk_node_inv h).1]; rfl
  | wrap k tg b cs => rw [(Sk_wrap_inv h).1]; rfl

theorem SkL_single_inv {c : Tree α} {cs' : List (Tree α)} (h : SkL [c] cs' = true) : ∃ c', cs' = [c'] ∧ Sk c c' = true := by
  cases cs' with
  | nil => simp [SkL] at h
  | cons c' r =>
    cases r with
    | nil => exact ⟨c', rfl, by simpa [SkL] using h⟩
    | cons _ _ => simp [SkL] at h

theorem SkL_length : ∀ (cs cs' : List (Tree α)), SkL cs cs' = true → cs.length = cs'.length
  | [], [], _ => rfl
  | [], _ :: _, h => by simp [SkL] at h
  | _ :: _, [], h => by simp [SkL] at h
  | _ :: cs, _ :: cs', h => by
      simp only [SkL, Bool.and_eq_true] at h
      simp [SkL_length cs cs' h.2]

/-! ## the two hypotheses of the C12 theorems, for the generated bodies -/

/-- `WrapFree` for the generated bodies: `Where`, `WeightNormalization`, `BijectionReparam` return an array; `NonTrainable` returns
its (wrapper-free) tree; a `Lambda` is as wrapper-free as its function. -/
theorem genWrapFn_wrapFree (bij : Nat → Bij α Unit α) (lam : Nat → List (Tree α) → Tree α)
    (hl : ∀ tag cs, noWrapL cs = true → noWrap (lam tag cs) = true) : WrapFree (genWrapFn bij lam) := by
  intro k tag cs hcs
  cases k with
  | whereK => simp [genWrapFn, noWrap]
  | weightNorm => simp [genWrapFn, noWrap]
  | reparam => simp [genWrapFn, noWrap]
  | lambda => simpa [genWrapFn, Lambda.unwrap] using hl tag cs hcs
  | nonTrainable =>
    simp only [genWrapFn]
    rw [gen_nonTrainable_identity _ treePartition_lawful]
    split
    · simpa [noWrapL] using hcs
    · simpa [noWrap] using hcs

/-- `SkUniform` for the generated bodies (what the vmapped-construction theorems need) -/
theorem genWrapFn_skUniform (bij : Nat → Bij α Unit α) (lam : Nat → List (Tree α) → Tree α)
    (hl : ∀ tag cs cs', SkL cs cs' = true → Sk (lam tag cs) (lam tag cs') = true) : SkUniform (genWrapFn bij lam) := by
  intro k tag cs cs' h
  cases k with
  | whereK => simp [genWrapFn, Sk, idix_of_Sk tag (Sk_nthT cs cs' 1 h)]
  | weightNorm => simp [genWrapFn, Sk, idix_of_Sk tag (Sk_nthT cs cs' 0 h)]
  | reparam => simp [genWrapFn, Sk, idix_of_Sk tag (Sk_nthT cs cs' 0 h)]
  | lambda => simpa [genWrapFn, Lambda.unwrap] using hl tag cs cs' h
  | nonTrainable =>
    simp only [genWrapFn]
    rw [gen_nonTrainable_identity _ treePartition_lawful, gen_nonTrainable_identity _ treePartition_lawful]
    have hlen := SkL_length cs cs' h
    match cs, cs', h, hlen with
    | [c], [c'], h, _ => simpa [SkL] using h
    | [], [], _, _ => simp [Sk, SkL]
    | c :: d :: r, c' :: d' :: r', h, _ => simpa [Sk] using h
    | [_], [], _, hl => simp at hl
    | [_], _ :: _ :: _, _, hl => simp at hl
    | [], _ :: _, _, hl => simp at hl
    | _ :: _ :: _, [], _, hl => simp at hl
    | _ :: _ :: _, [_], _, hl => simp at hl

/-! ## the bodies are value-level functions of the wrapper's own leaves -/

/-- a `Where` node over three array leaves unwraps to the array computed elementwise by the generated `Where.unwrap`; the result
carries the identity of `if_true` -/
theorem genWrapFn_where (bij : Nat → Bij α Unit α) (lam : Nat → List (Tree α) → Tree α) (tag : Nat)
    (i1 i2 i3 : Nat) (x1 x2 x3 : Bool) (c a b : Arr α) :
    genWrapFn bij lam .whereK tag [.arr i1 x1 c, .arr i2 x2 a, .arr i3 x3 b] = .arr i2 x2 (whereArr c a b) := rfl

theorem whereArr_base_scalar (c a : List α) (v : α) :
    whereArr (.base c) (.base a) (.base [v]) = .base (List.zipWith (fun c a => (⟨c != 0, a, v⟩ : Where α).unwrap) c a) := by
  simp [whereArr, whereArrS]

/-- a `WeightNormalization` node over a weight matrix and a `(rows, 1)` scale unwraps to the generated matrix-level body -/
theorem genWrapFn_weightNorm (bij : Nat → Bij α Unit α) (lam : Nat → List (Tree α) → Tree α) (tag : Nat)
    (i1 i2 : Nat) (x1 x2 : Bool) (w s : Arr α) :
    genWrapFn bij lam .weightNorm tag [.arr i1 x1 w, .arr i2 x2 s] = .arr i1 x1 (wnArr w s) := rfl

theorem mapM_row?_map_base (m : List (List α)) : (m.map Arr.base).mapM Arr.row? = some m := by
  induction m with
  | nil => rfl
  | cons r m ih => simp [List.mapM_cons, Arr.row?, ih]

theorem wnArr_matrix (W : List (List α)) (S : List (List α)) :
    wnArr (Arr.ofMatrix W) (Arr.ofMatrix S) = Arr.ofMatrix (WeightNormalization.unwrap ⟨W, colOf S⟩) := by
  simp only [wnArr, Arr.ofMatrix, Arr.matrix?]
  rw [mapM_row?_map_base, mapM_row?_map_base]

/-- a `BijectionReparam` node over an array and a bijection named `id` unwraps to the generated body (the bijection's `transform`)
applied to every element -/
theorem genWrapFn_reparam (bij : Nat → Bij α Unit α) (lam : Nat → List (Tree α) → Tree α) (tag : Nat)
    (i1 id : Nat) (x1 : Bool) (a : Arr α) :
    genWrapFn bij lam .reparam tag [.arr i1 x1 a, .static id]
      = .arr i1 x1 (a.map fun x => (⟨x, bij id⟩ : BijectionReparam α α).unwrap) := rfl

theorem genWrapFn_lambda (bij : Nat → Bij α Unit α) (lam : Nat → List (Tree α) → Tree α) (tag : Nat) (cs : List (Tree α)) :
    genWrapFn bij lam .lambda tag cs = lam tag cs := rfl

end
end PyTree
