import Flowjaxv.Proofs.EF
import Flowjaxv.Proofs.Families
/-!
# The families at `EF` (reals extended by `+∞`, `−∞`, NaN with IEEE special-value rules): C05's
"minus infinity outside the support, never NaN"

`Props/C05.lean`'s density theorems are over `ℝ`, where `log 0 = 0`: they cannot say `−∞`.  Here the SAME
polymorphic definitions (`Families.uniform`, `Families.exponential`, `Families.logNormal`, … — generated
standard log-densities under the generated `Transformed._log_prob` with the constructor's bijection) are
instantiated at `EF` (`Proofs/EF.lean`, the number domain of C18), whose `log 0 = −∞`, `log (negative) = NaN`,
`∞ − ∞ = NaN`, and the last line of the public `log_prob`, `jnp.where(jnp.isnan(lps), -jnp.inf, lps)`
(`Families.publicLp`), is applied.  `EF` models the special-value rules only: finite arithmetic is exact
(no rounding, overflow or underflow).

The instances below extend `EF` conservatively by exactly what the scalar interface needs (`<`, `≤`, `==`
with IEEE semantics — every comparison with NaN is false; numerals; `Transc` from the existing `EF.exp/log/…`;
`π`; `log Γ` on `(0, ∞)`, `+∞ ↦ +∞`, NaN elsewhere — the families only evaluate it at positive arguments).
-/
noncomputable section
open Classical Gen Families

namespace EF

instance : LT EF := ⟨fun a b => EF.lt a b = true⟩
instance : LE EF := ⟨fun a b => EF.le a b = true⟩
instance : DecidableLT EF := fun a b => inferInstanceAs (Decidable (EF.lt a b = true))
instance : DecidableLE EF := fun a b => inferInstanceAs (Decidable (EF.le a b = true))
instance : BEq EF := ⟨EF.beq⟩
instance (n : Nat) : OfNat EF n := ⟨fin (n : ℝ)⟩
instance : OfScientific EF := ⟨fun m s e => fin ((OfScientific.ofScientific m s e : ℚ) : ℝ)⟩
instance : Inhabited EF := ⟨fin 0⟩
instance : Transc EF := ⟨EF.exp, EF.log, EF.tanh, EF.artanh, EF.sqrt, EF.softplus, EF.expm1⟩
instance : HasPi EF := ⟨fin Real.pi⟩
/-- `log Γ` is `EF.lgamma` of `Proofs/EF.lean` (finite on `(0, ∞)`, `+∞` at the poles and at `+∞`) -/
instance : HasLgamma EF := ⟨EF.lgamma⟩

/-! ### evaluation lemmas -/
@[simp] theorem zero_def : (0 : EF) = fin 0 := by show fin ((0 : ℕ) : ℝ) = _; simp
@[simp] theorem one_def : (1 : EF) = fin 1 := by show fin ((1 : ℕ) : ℝ) = _; simp
@[simp] theorem two_def : (2 : EF) = fin 2 := by show fin ((2 : ℕ) : ℝ) = _; simp

@[simp] theorem fin_lt (a b : ℝ) : (fin a < fin b) ↔ a < b := by
  show EF.lt (fin a) (fin b) = true ↔ _; simp [EF.lt]
@[simp] theorem not_pinf_lt (x : EF) : ¬ (pinf < x) := by
  show ¬ EF.lt pinf x = true; cases x <;> simp [EF.lt]
@[simp] theorem not_lt_ninf (x : EF) : ¬ (x < ninf) := by
  show ¬ EF.lt x ninf = true; cases x <;> simp [EF.lt]
@[simp] theorem not_nan_lt (x : EF) : ¬ (nan < x) := by
  show ¬ EF.lt nan x = true; cases x <;> simp [EF.lt]
@[simp] theorem not_lt_nan (x : EF) : ¬ (x < nan) := by
  show ¬ EF.lt x nan = true; cases x <;> simp [EF.lt]
@[simp] theorem fin_lt_pinf (a : ℝ) : fin a < pinf := by show EF.lt (fin a) pinf = true; rfl
@[simp] theorem ninf_lt_fin (a : ℝ) : ninf < fin a := by show EF.lt ninf (fin a) = true; rfl

@[simp] theorem texp_fin (r : ℝ) : (Transc.exp (fin r) : EF) = fin (Real.exp r) := rfl
@[simp] theorem tsoftplus_fin (r : ℝ) : (Transc.softplus (fin r) : EF) = fin (Real.log (1 + Real.exp r)) := rfl
@[simp] theorem texpm1_fin (r : ℝ) : (Transc.expm1 (fin r) : EF) = fin (Real.exp r - 1) := rfl
theorem tlog_fin {r : ℝ} (h : 0 < r) : (Transc.log (fin r) : EF) = fin (Real.log r) := by
  show EF.log (fin r) = _; simp [EF.log, h]
@[simp] theorem tlog_zero : (Transc.log (fin 0) : EF) = ninf := by
  show EF.log (fin 0) = _; simp [EF.log]
theorem tlog_neg {r : ℝ} (h : r < 0) : (Transc.log (fin r) : EF) = nan := by
  show EF.log (fin r) = _; simp [EF.log, not_lt.mpr h.le, h.ne]
@[simp] theorem tlog_pinf : (Transc.log pinf : EF) = pinf := rfl
@[simp] theorem tlog_ninf : (Transc.log ninf : EF) = nan := rfl
@[simp] theorem tlog_nan : (Transc.log nan : EF) = nan := rfl
theorem tsqrt_fin {r : ℝ} (h : 0 ≤ r) : (Transc.sqrt (fin r) : EF) = fin (Real.sqrt r) := by
  show EF.sqrt (fin r) = _; simp [EF.sqrt, h]
@[simp] theorem pi_def : (HasPi.pi : EF) = fin Real.pi := rfl
theorem lgamma_fin {r : ℝ} (h : 0 < r) : (HasLgamma.lgamma (fin r) : EF) = fin (Real.log (Real.Gamma r)) := by
  show EF.lgamma (fin r) = _; simp [EF.lgamma, (Real.Gamma_pos_of_pos h).ne']

@[simp] theorem add_ninf_fin (a : ℝ) : (ninf + fin a : EF) = ninf := rfl
@[simp] theorem fin_add_ninf (a : ℝ) : (fin a + ninf : EF) = ninf := rfl
@[simp] theorem add_pinf_fin (a : ℝ) : (pinf + fin a : EF) = pinf := rfl
@[simp] theorem fin_add_pinf (a : ℝ) : (fin a + pinf : EF) = pinf := rfl
@[simp] theorem ninf_add_ninf : (ninf + ninf : EF) = ninf := rfl
@[simp] theorem pinf_add_ninf : (pinf + ninf : EF) = nan := rfl
@[simp] theorem ninf_add_pinf : (ninf + pinf : EF) = nan := rfl
@[simp] theorem nan_add (x : EF) : (nan + x : EF) = nan := by cases x <;> rfl
@[simp] theorem add_nan (x : EF) : (x + nan : EF) = nan := by cases x <;> rfl
@[simp] theorem neg_ninf : (-ninf : EF) = pinf := rfl
@[simp] theorem neg_pinf : (-pinf : EF) = ninf := rfl
@[simp] theorem neg_nan : (-nan : EF) = nan := rfl
@[simp] theorem pinf_sub_fin (a : ℝ) : (pinf - fin a : EF) = pinf := rfl
@[simp] theorem ninf_sub_fin (a : ℝ) : (ninf - fin a : EF) = ninf := rfl
@[simp] theorem nan_sub (x : EF) : (nan - x : EF) = nan := by
  show add nan (neg x) = nan; cases x <;> rfl
theorem pinf_div_fin {s : ℝ} (h : 0 < s) : (pinf / fin s : EF) = pinf := by
  show mul pinf (recip (fin s)) = _
  simp [recip, h.ne', mul, inv_pos.mpr h]
theorem ninf_div_fin {s : ℝ} (h : 0 < s) : (ninf / fin s : EF) = ninf := by
  show mul ninf (recip (fin s)) = _
  simp [recip, h.ne', mul, inv_pos.mpr h]
@[simp] theorem nan_div (x : EF) : (nan / x : EF) = nan := by
  show mul nan (recip x) = nan; cases h : recip x <;> rfl
@[simp] theorem nan_mul (x : EF) : (nan * x : EF) = nan := by cases x <;> rfl
@[simp] theorem pinf_mul_pinf : (pinf * pinf : EF) = pinf := rfl
@[simp] theorem ninf_mul_ninf : (ninf * ninf : EF) = pinf := rfl

/-! ### the public `log_prob`'s last line -/
@[simp] theorem publicLp_fin (r : ℝ) : publicLp (fin r) = fin r := by
  show (if EF.beq (fin r) (fin r) = true then fin r else _) = _; simp [EF.beq]
@[simp] theorem publicLp_ninf : publicLp ninf = ninf := by
  show (if EF.beq ninf ninf = true then ninf else _) = _; simp [EF.beq]
@[simp] theorem publicLp_pinf : publicLp pinf = pinf := by
  show (if EF.beq pinf pinf = true then pinf else _) = _; simp [EF.beq]
@[simp] theorem publicLp_nan : publicLp nan = ninf := by
  show (if EF.beq nan nan = true then nan else -(1 / 0 : EF)) = _
  have : (fin 1 / fin 0 : EF) = pinf := by
    show mul (fin 1) (recip (fin 0)) = _
    simp [recip, mul]
  simp [EF.beq, this]

/-- **never NaN**: whatever the private `_log_prob` returns, the public `log_prob` is not NaN -/
theorem publicLp_not_nan (v : EF) : ¬ isNaN (publicLp v) := by
  cases v <;> simp [isNaN]

/-- … and it only changes a NaN -/
theorem publicLp_of_not_nan {v : EF} (h : ¬ isNaN v) : publicLp v = v := by
  cases v <;> simp_all [isNaN]

end EF

namespace FamiliesEF
open EF

/-! ### the constructor's reparameterised scale, at `EF` -/

theorem softplus_roundtrip_fin {s : ℝ} (h : 0 < s) :
    Ctors.softplusUnwrap (Ctors.softplusRaw (fin s)) = fin s := by
  have h1 : 0 < -(Real.exp (-s) - 1) := by
    have : Real.exp (-s) < 1 := Real.exp_lt_one_iff.mpr (by linarith)
    linarith
  have e : Ctors.softplusRaw (fin s) = fin (Ctors.softplusRaw s) := by
    simp only [Ctors.softplusRaw, SoftPlus.inverse, fin_neg, texpm1_fin, tlog_fin h1, fin_add]
    rfl
  rw [e]
  show fin (Ctors.softplusUnwrap (Ctors.softplusRaw s)) = _
  rw [show Ctors.softplusUnwrap (Ctors.softplusRaw s) = s from Leaves.softplus_softplus_inv h]

theorem affine_scale_fin (l s : ℝ) (h : 0 < s) : (Ctors.affine (fin l) (fin s)).scale = fin s :=
  softplus_roundtrip_fin h
theorem scale_scale_fin (s : ℝ) (h : 0 < s) : (Ctors.scale (fin s)).scale = fin s :=
  softplus_roundtrip_fin h

theorem jabs_fin {s : ℝ} (h : 0 < s) : Jnp.abs (fin s) = fin s := by
  unfold Jnp.abs
  rw [if_neg]
  simp only [zero_def, fin_lt]; exact not_lt.mpr h.le

/-- what `Affine.inverse` does to an extended real, `scale > 0` -/
def affInv (l s : ℝ) : EF → EF
  | fin x => fin ((x - l) / s)
  | pinf => pinf
  | ninf => ninf
  | nan => nan

theorem affine_invLd (l s : ℝ) (h : 0 < s) (x : EF) :
    ((Ctors.affine (fin l) (fin s)).toBij : Bij EF Unit EF).invLd x ()
      = (affInv l s x, fin (-Real.log s)) := by
  have hs := affine_scale_fin l s h
  have hl : (Ctors.affine (fin l) (fin s)).loc = fin l := rfl
  simp only [Affine.toBij, Affine.inverse_and_log_det, hs, hl, Jnp.sumElem, jabs_fin h, tlog_fin h, fin_neg]
  cases x with
  | fin x => simp only [fin_sub, fin_div h.ne', affInv]
  | pinf => simp only [pinf_sub_fin, pinf_div_fin h, affInv]
  | ninf => simp only [ninf_sub_fin, ninf_div_fin h, affInv]
  | nan => simp only [nan_sub, nan_div, affInv]

/-- the private `_log_prob` of every location–scale family at any extended real -/
theorem locScale_logProb (lp : EF → EF) (l s : ℝ) (h : 0 < s) (x : EF) :
    (locScale lp (fin l) (fin s)).logProb x () = lp (affInv l s x) + fin (-Real.log s) := by
  simp only [locScale, locScaleComp, oneDim, Transformed.toDist, Transformed.logProb, stdDist, DistCore.toDist,
    affine_invLd l s h x]

/-! ### Uniform -/

theorem uniformLp_fin (t : ℝ) :
    (StandardUniform.logProb (fin t) : EF) = if 0 ≤ t ∧ t ≤ 1 then fin 0 else ninf := by
  simp only [StandardUniform.logProb, Jnp.sumElem, Stats.uniformLogpdf, zero_def, one_def, fin_lt]
  by_cases h0 : t < 0
  · rw [if_pos h0, if_neg (by intro h; linarith [h.1]), tlog_zero]
  · by_cases h1 : 1 < t
    · rw [if_neg h0, if_pos h1, if_neg (by intro h; linarith [h.2]), tlog_zero]
    · rw [if_neg h0, if_neg h1, if_pos ⟨not_lt.mp h0, not_lt.mp h1⟩, tlog_fin one_pos, Real.log_one]

theorem uniformLp_pinf : (StandardUniform.logProb pinf : EF) = ninf := by
  simp [StandardUniform.logProb, Jnp.sumElem, Stats.uniformLogpdf]
theorem uniformLp_ninf : (StandardUniform.logProb ninf : EF) = ninf := by
  simp [StandardUniform.logProb, Jnp.sumElem, Stats.uniformLogpdf]

theorem uniform_eq (a b : ℝ) :
    (uniform (fin a) (fin b) : Distn EF Unit EF EF) = locScale StandardUniform.logProb (fin a) (fin (b - a)) := by
  simp only [uniform, uniformComp, locScale, locScaleComp, fin_sub]

/-- Uniform(a, b), `a < b`, at every real point: `−log(b − a)` on the closed support, **−∞ outside** -/
theorem uniform_logProb (a b x : ℝ) (h : a < b) :
    (uniform (fin a) (fin b)).logProb (fin x) ()
      = if a ≤ x ∧ x ≤ b then fin (-Real.log (b - a)) else ninf := by
  have hpos : 0 < b - a := sub_pos.mpr h
  rw [uniform_eq, locScale_logProb _ a (b - a) hpos, affInv, uniformLp_fin]
  have hiff : (0 ≤ (x - a) / (b - a) ∧ (x - a) / (b - a) ≤ 1) ↔ (a ≤ x ∧ x ≤ b) := by
    rw [div_nonneg_iff, div_le_one hpos]
    constructor
    · rintro ⟨h1 | h1, h2⟩
      · exact ⟨by linarith [h1.1], by linarith⟩
      · linarith [h1.2]
    · rintro ⟨h1, h2⟩
      exact ⟨Or.inl ⟨by linarith, hpos.le⟩, by linarith⟩
  by_cases hx : a ≤ x ∧ x ≤ b
  · rw [if_pos hx, if_pos (hiff.mpr hx), fin_add, zero_add]
  · rw [if_neg hx, if_neg (fun hh => hx (hiff.mp hh)), add_ninf_fin]

/-- … and at `±∞` -/
theorem uniform_logProb_inf (a b : ℝ) (h : a < b) :
    (uniform (fin a) (fin b)).logProb pinf () = ninf ∧ (uniform (fin a) (fin b)).logProb ninf () = ninf := by
  have hpos : 0 < b - a := sub_pos.mpr h
  rw [uniform_eq, locScale_logProb _ a (b - a) hpos, locScale_logProb _ a (b - a) hpos]
  simp only [affInv, uniformLp_pinf, uniformLp_ninf, add_ninf_fin, and_self]

/-- a NaN *input* (not a point of the sample space): `jstats.uniform.logpdf(nan)` is `log 1`, so Uniform — alone among
the families — returns the finite in-support value (the real `Uniform(0, 2).log_prob(nan)` is `−log 2`) -/
theorem uniform_logProb_nan (a b : ℝ) (h : a < b) :
    (uniform (fin a) (fin b)).logProb nan () = fin (-Real.log (b - a)) := by
  have hpos : 0 < b - a := sub_pos.mpr h
  rw [uniform_eq, locScale_logProb _ a (b - a) hpos]
  simp [affInv, StandardUniform.logProb, Jnp.sumElem, Stats.uniformLogpdf, tlog_fin one_pos]

/-! ### Exponential -/

theorem exponLp_fin (t : ℝ) :
    (StandardExponential.logProb (fin t) : EF) = if 0 ≤ t then fin (-t) else ninf := by
  simp only [StandardExponential.logProb, Jnp.sumElem, Stats.exponLogpdf, zero_def, one_def, fin_lt, fin_neg]
  by_cases h0 : t < 0
  · rw [if_pos h0, if_neg (not_le.mpr h0), tlog_zero, fin_add_ninf]
  · rw [if_neg h0, if_pos (not_lt.mp h0), tlog_fin one_pos, Real.log_one, fin_add, add_zero]

theorem scale_invLd (s : ℝ) (h : 0 < s) (x : EF) :
    ((Ctors.scale (fin s)).toBij : Bij EF Unit EF).invLd x ()
      = (affInv 0 s x, fin (-Real.log s)) := by
  have hs := scale_scale_fin s h
  simp only [Scale.toBij, Scale.inverse_and_log_det, hs, Jnp.sumElem, jabs_fin h, tlog_fin h, fin_neg]
  cases x with
  | fin x => simp only [fin_div h.ne', affInv, sub_zero]
  | pinf => simp only [pinf_div_fin h, affInv]
  | ninf => simp only [ninf_div_fin h, affInv]
  | nan => simp only [nan_div, affInv]

theorem exponential_logProb_eq (lam : ℝ) (h : 0 < lam) (x : EF) :
    (exponential (fin lam)).logProb x ()
      = StandardExponential.logProb (affInv 0 (1 / lam) x) + fin (-Real.log (1 / lam)) := by
  have hpos : 0 < 1 / lam := by positivity
  have e : (1 / fin lam : EF) = fin (1 / lam) := by rw [one_def, fin_div h.ne']
  simp only [exponential, exponentialComp, oneDim, Transformed.toDist, Transformed.logProb, stdDist,
    DistCore.toDist, e, scale_invLd (1 / lam) hpos x]

/-- Exponential(λ), `λ > 0`, at every real point: `log λ − λx` on `[0, ∞)`, **−∞ for `x < 0`** -/
theorem exponential_logProb (lam x : ℝ) (h : 0 < lam) :
    (exponential (fin lam)).logProb (fin x) ()
      = if 0 ≤ x then fin (Real.log lam - lam * x) else ninf := by
  have hpos : 0 < 1 / lam := by positivity
  rw [exponential_logProb_eq lam h, affInv, exponLp_fin]
  have hiff : 0 ≤ (x - 0) / (1 / lam) ↔ 0 ≤ x := by
    rw [sub_zero, div_nonneg_iff]
    constructor
    · rintro (h1 | h1)
      · exact h1.1
      · linarith [h1.2]
    · intro h1; exact Or.inl ⟨h1, hpos.le⟩
  by_cases hx : 0 ≤ x
  · rw [if_pos hx, if_pos (hiff.mpr hx), fin_add]
    congr 1
    rw [one_div, Real.log_inv]
    field_simp
    ring
  · rw [if_neg hx, if_neg (fun hh => hx (hiff.mp hh)), add_ninf_fin]

/-- at `+∞` the private value is `−∞`; at `−∞` it is NaN (`∞ − ∞`) and the public one `−∞` -/
theorem exponential_logProb_inf (lam : ℝ) (h : 0 < lam) :
    (exponential (fin lam)).logProb pinf () = ninf ∧
    publicLp ((exponential (fin lam)).logProb ninf ()) = ninf := by
  rw [exponential_logProb_eq lam h, exponential_logProb_eq lam h]
  simp [affInv, StandardExponential.logProb, Jnp.sumElem, Stats.exponLogpdf, tlog_fin one_pos]

/-! ### Normal / LogNormal -/

theorem normLp_fin (t : ℝ) :
    (StandardNormal.logProb (fin t) : EF) = fin (StandardNormal.logProb t) := by
  have hp : (0 : ℝ) ≤ 2 * Real.pi := by positivity
  have hs : 0 < Real.sqrt (2 * Real.pi) := Real.sqrt_pos.mpr (by positivity)
  simp only [StandardNormal.logProb, Jnp.sumElem, Stats.normLogpdf, two_def, pi_def, fin_mul, fin_neg,
    fin_div (two_ne_zero : (2 : ℝ) ≠ 0), tsqrt_fin hp, tlog_fin hs, fin_sub]
  rfl

theorem normLp_pinf : (StandardNormal.logProb pinf : EF) = ninf := by
  have hp : (0 : ℝ) ≤ 2 * Real.pi := by positivity
  have hs : 0 < Real.sqrt (2 * Real.pi) := Real.sqrt_pos.mpr (by positivity)
  simp only [StandardNormal.logProb, Jnp.sumElem, Stats.normLogpdf, two_def, pi_def, fin_mul, pinf_mul_pinf,
    neg_pinf, ninf_div_fin two_pos, tsqrt_fin hp, tlog_fin hs, ninf_sub_fin]

theorem normLp_ninf : (StandardNormal.logProb ninf : EF) = ninf := by
  have hp : (0 : ℝ) ≤ 2 * Real.pi := by positivity
  have hs : 0 < Real.sqrt (2 * Real.pi) := Real.sqrt_pos.mpr (by positivity)
  simp only [StandardNormal.logProb, Jnp.sumElem, Stats.normLogpdf, two_def, pi_def, fin_mul, ninf_mul_ninf,
    neg_pinf, ninf_div_fin two_pos, tsqrt_fin hp, tlog_fin hs, ninf_sub_fin]

/-- the private `_log_prob` of LogNormal at any extended real `y`: `Exp.inverse_and_log_det` takes
`log y`, then `Affine.inverse_and_log_det` -/
theorem logNormal_logProb_eq (μ σ : ℝ) (h : 0 < σ) (y : EF) :
    (logNormal (fin μ) (fin σ)).logProb y ()
      = StandardNormal.logProb (affInv μ σ (Transc.log y)) + ((0 + -(Transc.log y)) + fin (-Real.log σ)) := by
  simp only [logNormal, logNormalComp, oneDim, Transformed.toDist, Transformed.logProb, stdDist, DistCore.toDist,
    Chain.toBij, Chain.inverse_and_log_det, List.reverse_cons, List.reverse_nil, List.nil_append,
    List.cons_append, List.foldl_cons, List.foldl_nil, Exp.toBij, Exp.inverse_and_log_det, Jnp.sumElem,
    affine_invLd μ σ h]

/-- LogNormal(μ, σ), `σ > 0`, on the support `x > 0`: finite, the value of the real-number theorem -/
theorem logNormal_logProb_pos (μ σ x : ℝ) (h : 0 < σ) (hx : 0 < x) :
    (logNormal (fin μ) (fin σ)).logProb (fin x) () = fin ((logNormal μ σ).logProb x ()) := by
  rw [logNormal_logProb_eq μ σ h, tlog_fin hx, affInv, normLp_fin]
  simp only [zero_def, fin_neg, fin_add]
  congr 1
  have hs := FamiliesPf.affine_scale_eq μ σ h
  have hl := FamiliesPf.affine_loc_eq μ σ
  simp only [logNormal, logNormalComp, oneDim, Transformed.toDist, Transformed.logProb, stdDist, DistCore.toDist,
    Chain.toBij, Chain.inverse_and_log_det, List.reverse_cons, List.reverse_nil, List.nil_append,
    List.cons_append, List.foldl_cons, List.foldl_nil, Exp.toBij, Exp.inverse_and_log_det, Affine.toBij,
    Affine.inverse_and_log_det, hs, hl, RealInst.sumElem_eq, RealInst.jabs_eq, RealInst.log_eq, abs_of_pos h]

/-- **LogNormal at `x ≤ 0`**: the private `_log_prob` is NaN (`log` of a negative number; at `x = 0`:
`−∞ + ∞`), the public `log_prob` is `−∞` -/
theorem logNormal_logProb_nonpos (μ σ x : ℝ) (h : 0 < σ) (hx : x ≤ 0) :
    (logNormal (fin μ) (fin σ)).logProb (fin x) () = nan ∧
    publicLp ((logNormal (fin μ) (fin σ)).logProb (fin x) ()) = ninf := by
  have e : (logNormal (fin μ) (fin σ)).logProb (fin x) () = nan := by
    rw [logNormal_logProb_eq μ σ h]
    rcases hx.lt_or_eq with hneg | h0
    · rw [tlog_neg hneg]; simp [affInv]
    · rw [h0, tlog_zero]; simp [affInv, normLp_ninf]
  rw [e]; exact ⟨rfl, publicLp_nan⟩

theorem logNormal_logProb_inf (μ σ : ℝ) (h : 0 < σ) :
    (logNormal (fin μ) (fin σ)).logProb pinf () = ninf ∧
    publicLp ((logNormal (fin μ) (fin σ)).logProb ninf ()) = ninf := by
  rw [logNormal_logProb_eq μ σ h, logNormal_logProb_eq μ σ h]
  simp [affInv, normLp_pinf]

/-! ### the full-support families are finite at every real point (so NaN never arises there) -/

/-- if the standard log-density maps reals to reals (with value `lpR`), so does the family, and the value is
the real-number model's -/
theorem locScale_fin (lp : EF → EF) (lpR : ℝ → ℝ) (hlp : ∀ t, lp (fin t) = fin (lpR t))
    (l s x : ℝ) (h : 0 < s) :
    (locScale lp (fin l) (fin s)).logProb (fin x) () = fin ((locScale lpR l s).logProb x ()) := by
  rw [locScale_logProb lp l s h, affInv, hlp, fin_add, FamiliesPf.locScale_logProb lpR l s x h]
  rfl

theorem gumbelLp_fin (t : ℝ) : (StandardGumbel.logProb (fin t) : EF) = fin (StandardGumbel.logProb t) := by
  simp only [StandardGumbel.logProb, Jnp.sumElem, fin_neg, texp_fin, fin_add]
  rfl

theorem cauchyLp_fin (t : ℝ) : (StandardCauchy.logProb (fin t) : EF) = fin (StandardCauchy.logProb t) := by
  have h1 : 0 < 1 + t * t := add_pos_of_pos_of_nonneg one_pos (mul_self_nonneg t)
  simp only [StandardCauchy.logProb, Jnp.sumElem, Stats.cauchyLogpdf, pi_def, one_def, tlog_fin Real.pi_pos,
    fin_mul, fin_add, tlog_fin h1, fin_neg, fin_sub]
  rfl

theorem laplaceLp_fin (t : ℝ) : (StandardLaplace.logProb (fin t) : EF) = fin (StandardLaplace.logProb t) := by
  have ha : Jnp.abs (fin t) = fin (Jnp.abs t) := by
    unfold Jnp.abs
    by_cases h : t < 0 <;> simp [h]
  simp only [StandardLaplace.logProb, Jnp.sumElem, Stats.laplaceLogpdf, ha, two_def, tlog_fin two_pos, fin_neg,
    fin_sub]
  rfl

theorem logisticLp_fin (t : ℝ) : (StandardLogistic.logProb (fin t) : EF) = fin (StandardLogistic.logProb t) := by
  simp only [StandardLogistic.logProb, Jnp.sumElem, Stats.logisticLogpdf, two_def, fin_neg, tsoftplus_fin,
    fin_mul, fin_sub]
  rfl

theorem studentLp_fin (ν : ℝ) (hν : 0 < ν) (t : ℝ) :
    ((StdStudentT.mk (fin ν)).logProb (fin t) : EF) = fin ((StdStudentT.mk ν).logProb t) := by
  have h1 : 0 < (ν + 1) / 2 := by positivity
  have h2 : 0 < ν / 2 := by positivity
  have h3 : 0 < ν * Real.pi := by positivity
  have h4 : 0 < 1 + t * t / ν := add_pos_of_pos_of_nonneg one_pos (div_nonneg (mul_self_nonneg t) hν.le)
  simp only [StdStudentT.logProb, Jnp.sumElem, Stats.tLogpdf, one_def, two_def, pi_def, fin_add, fin_mul,
    fin_div (two_ne_zero : (2 : ℝ) ≠ 0), fin_div hν.ne', lgamma_fin h1, lgamma_fin h2, tlog_fin h3, tlog_fin h4,
    fin_sub]
  rfl

theorem studentDf_fin (ν : ℝ) (hν : 0 < ν) : studentDf (fin ν) = fin ν := softplus_roundtrip_fin hν

end FamiliesEF
end
