import Flowjaxv.Proofs.BijTheory
import Flowjaxv.Model.ToDist
/-! Change of variables for the generated `AbstractTransformed` methods; `merge_chains` / `merge_transforms`. -/
set_option linter.unusedSectionVars false
open Gen

namespace Distn
variable {X C K L : Type}
/-- the log-probability returned together with a sample equals `log_prob` at that sample -/
def Consistent (d : Distn X C K L) : Prop :=
  ∀ k c, d.sampleLp k c = (d.sample k c, d.logProb (d.sample k c) c)

/-- two distributions compute the same three methods -/
structure Equiv (d e : Distn X C K L) : Prop where
  logProb : ∀ x c, d.logProb x c = e.logProb x c
  sample : ∀ k c, d.sample k c = e.sample k c
  sampleLp : ∀ k c, d.sampleLp k c = e.sampleLp k c
end Distn

namespace Gen
variable {X C K : Type}

theorem core_consistent (d : DistCore X C K ℝ) : d.toDist.Consistent := fun _ _ => rfl

theorem transformed_logProb (t : Transformed X C K ℝ) (x : X) (c : C) :
    t.toDist.logProb x c
      = t.base_dist.logProb (t.bijection.invLd x c).1 c + (t.bijection.invLd x c).2 := rfl

theorem transformed_sample (t : Transformed X C K ℝ) (k : K) (c : C) :
    t.toDist.sample k c = t.bijection.fwd (t.base_dist.sample k c) c := rfl

theorem transformed_sampleLp (t : Transformed X C K ℝ) (k : K) (c : C) :
    t.toDist.sampleLp k c
      = ((t.bijection.fwdLd (t.base_dist.sampleLp k c).1 c).1,
         (t.base_dist.sampleLp k c).2 - (t.bijection.fwdLd (t.base_dist.sampleLp k c).1 c).2) := rfl

/-- C03, third clause: if the bijection is lawful on `D` with anti-symmetric log-dets, the base is
consistent and draws in `D`, then the log-prob returned with a sample equals `log_prob` there. -/
theorem transformed_consistent (t : Transformed X C K ℝ) {D E : Set X}
    (hb : t.bijection.Lawful D E) (ha : t.bijection.LdAntisym D)
    (hc : t.base_dist.Consistent) (hD : ∀ k c, t.base_dist.sample k c ∈ D) :
    t.toDist.Consistent := by
  intro k c
  have hs := hc k c
  have hmem := hD k c
  rw [transformed_sampleLp, transformed_logProb, transformed_sample, hs]
  simp only [hb.fwdLd_fst, hb.invLd_fst]
  rw [hb.left _ hmem c, ha _ hmem c]
  simp [sub_eq_add_neg]

/-! ### log-dets of chains add up -/
theorem Chain.tld_cons (b : Bij X C ℝ) (bs : List (Bij X C ℝ)) (x : X) (c : C) :
    (Chain.mk (b :: bs)).transform_and_log_det x c
      = (((Chain.mk bs).transform_and_log_det (b.fwdLd x c).1 c).1,
         (b.fwdLd x c).2 + ((Chain.mk bs).transform_and_log_det (b.fwdLd x c).1 c).2) := by
  simp only [Chain.transform_and_log_det, List.foldl_cons, Jnp.sumElem]
  generalize (b.fwdLd x c).1 = y
  generalize (b.fwdLd x c).2 = l
  have key : ∀ (bs : List (Bij X C ℝ)) (y : X) (a : ℝ),
      List.foldl (fun (st : X × ℝ) (bijection : Bij X C ℝ) =>
          ((bijection.fwdLd st.1 c).1, st.2 + (bijection.fwdLd st.1 c).2)) (y, a) bs
        = ((List.foldl (fun (st : X × ℝ) (bijection : Bij X C ℝ) =>
              ((bijection.fwdLd st.1 c).1, st.2 + (bijection.fwdLd st.1 c).2)) (y, 0) bs).1,
           a + (List.foldl (fun (st : X × ℝ) (bijection : Bij X C ℝ) =>
              ((bijection.fwdLd st.1 c).1, st.2 + (bijection.fwdLd st.1 c).2)) (y, 0) bs).2) := by
    intro bs
    induction bs with
    | nil => intro y a; simp
    | cons b' bs ih =>
      intro y a
      simp only [List.foldl_cons]
      rw [ih _ (a + _), ih _ (0 + _)]
      simp [add_assoc]
  have := key bs y (0 + l)
  simp only [zero_add] at this ⊢
  exact this

theorem Chain.tld_nil (x : X) (c : C) :
    (Chain.mk ([] : List (Bij X C ℝ))).transform_and_log_det x c = (x, 0) := rfl

theorem Chain.tld_append (as bs : List (Bij X C ℝ)) (x : X) (c : C) :
    (Chain.mk (as ++ bs)).transform_and_log_det x c
      = (((Chain.mk bs).transform_and_log_det ((Chain.mk as).transform_and_log_det x c).1 c).1,
         ((Chain.mk as).transform_and_log_det x c).2
           + ((Chain.mk bs).transform_and_log_det ((Chain.mk as).transform_and_log_det x c).1 c).2) := by
  induction as generalizing x with
  | nil => simp [Chain.tld_nil]
  | cons a as ih =>
    rw [List.cons_append, Chain.tld_cons, ih, Chain.tld_cons]
    simp [add_assoc]

theorem Chain.ild_nil (y : X) (c : C) :
    (Chain.mk ([] : List (Bij X C ℝ))).inverse_and_log_det y c = (y, 0) := rfl

theorem Chain.ild_append (as bs : List (Bij X C ℝ)) (y : X) (c : C) :
    (Chain.mk (as ++ bs)).inverse_and_log_det y c
      = (((Chain.mk as).inverse_and_log_det ((Chain.mk bs).inverse_and_log_det y c).1 c).1,
         ((Chain.mk bs).inverse_and_log_det y c).2
           + ((Chain.mk as).inverse_and_log_det ((Chain.mk bs).inverse_and_log_det y c).1 c).2) := by
  -- the inverse folds over the reversed list, so this is `tld_append` for the inverted children
  let flip : Bij X C ℝ → Bij X C ℝ := fun b => ⟨b.inv, b.fwd, b.invLd, b.fwdLd⟩
  have h : ∀ (l : List (Bij X C ℝ)) (y : X),
      (Chain.mk l).inverse_and_log_det y c = (Chain.mk (l.reverse.map flip)).transform_and_log_det y c := by
    intro l y
    simp only [Chain.inverse_and_log_det, Chain.transform_and_log_det, List.foldl_map]
    rfl
  rw [h, h as, h bs, List.reverse_append, List.map_append, Chain.tld_append]

end Gen

namespace Bij
variable {X C L : Type}
/-- two bijections compute the same four methods -/
structure Equiv (a b : Bij X C L) : Prop where
  fwd : ∀ x c, a.fwd x c = b.fwd x c
  inv : ∀ y c, a.inv y c = b.inv y c
  fwdLd : ∀ x c, a.fwdLd x c = b.fwdLd x c
  invLd : ∀ y c, a.invLd y c = b.invLd y c
end Bij

namespace Gen
variable {X C K : Type}

/-- A chain element as `merge_chains` sees it: a plain bijection or a nested `Chain`. -/
inductive Item (X C : Type) where
  | plain (b : Bij X C ℝ)
  | chain (bs : List (Bij X C ℝ))

def Item.toBij : Item X C → Bij X C ℝ
  | .plain b => b
  | .chain bs => (Chain.mk bs).toBij

/-- one pass of the `while any(isinstance(b, Chain))` loop of `merge_chains` -/
def Item.flat : Item X C → List (Bij X C ℝ)
  | .plain b => [b]
  | .chain bs => bs

private theorem chain_single_tld (b : Bij X C ℝ) (x : X) (c : C) :
    (Chain.mk [b]).transform_and_log_det x c = ((b.fwdLd x c).1, (b.fwdLd x c).2) := by
  rw [Chain.tld_cons, Chain.tld_nil]; simp

private theorem chain_single_ild (b : Bij X C ℝ) (y : X) (c : C) :
    (Chain.mk [b]).inverse_and_log_det y c = ((b.invLd y c).1, (b.invLd y c).2) := by
  have := Chain.ild_append ([] : List (Bij X C ℝ)) [b] y c
  simp only [List.nil_append, Chain.ild_nil] at this
  simp [Chain.inverse_and_log_det, Jnp.sumElem]

/-- **merge_chains never changes the function** (one flattening pass; the loop repeats it until no
nested chain is left, so by iteration any nesting depth): the chain of the items equals the chain
of the concatenated contents, in all four methods. -/
theorem merge_chains_step (items : List (Item X C)) :
    (Chain.mk (items.map Item.toBij)).toBij.Equiv (Chain.mk (items.flatMap Item.flat)).toBij := by
  induction items with
  | nil => exact ⟨fun _ _ => rfl, fun _ _ => rfl, fun _ _ => rfl, fun _ _ => rfl⟩
  | cons it items ih =>
    have hsplit : (it :: items).flatMap Item.flat = it.flat ++ items.flatMap Item.flat := by simp
    refine ⟨?_, ?_, ?_, ?_⟩
    · intro x c
      simp only [Chain.toBij, List.map_cons, Chain.transform_cons, hsplit, Chain.transform_append]
      have := ih.fwd
      simp only [Chain.toBij] at this
      rw [this]
      cases it with
      | plain b => simp [Item.toBij, Item.flat]
      | chain bs => simp [Item.toBij, Item.flat, Chain.toBij]
    · intro y c
      simp only [Chain.toBij, List.map_cons, Chain.inverse_cons, hsplit, Chain.inverse_append]
      have := ih.inv
      simp only [Chain.toBij] at this
      rw [this]
      cases it with
      | plain b => simp [Item.toBij, Item.flat]
      | chain bs => simp [Item.toBij, Item.flat, Chain.toBij]
    · intro x c
      simp only [Chain.toBij, List.map_cons, hsplit]
      rw [Chain.tld_cons, Chain.tld_append]
      have := ih.fwdLd
      simp only [Chain.toBij] at this
      cases it with
      | plain b => simp only [Item.toBij, Item.flat, chain_single_tld]; rw [this]
      | chain bs => simp only [Item.toBij, Item.flat, Chain.toBij]; rw [this]
    · intro y c
      simp only [Chain.toBij, List.map_cons, hsplit]
      have h1 := Chain.ild_append [it.toBij] (items.map Item.toBij) y c
      simp only [List.singleton_append] at h1
      rw [h1, Chain.ild_append, chain_single_ild]
      have := ih.invLd
      simp only [Chain.toBij] at this
      cases it with
      | plain b => simp only [Item.toBij, Item.flat, chain_single_ild]; rw [this]
      | chain bs => simp only [Item.toBij, Item.flat, Chain.toBij]; rw [this]

/-- **merge_transforms never changes the distribution**: any depth of nested transformed
distributions equals one transformed distribution over the chain of the bijections (innermost
first), in `_log_prob`, `_sample` and `_sample_and_log_prob`. -/
theorem merge_transforms_sem (base : Distn X C K ℝ) (bs : List (Bij X C ℝ)) :
    (nestTransformed base bs).Equiv (mergeTransforms base bs) := by
  induction bs using List.reverseRecOn with
  | nil =>
    refine ⟨fun x c => ?_, fun k c => ?_, fun k c => ?_⟩
    · simp [nestTransformed, mergeTransforms, Transformed.toDist, Transformed.logProb, Chain.toBij, Chain.ild_nil]
    · simp [nestTransformed, mergeTransforms, Transformed.toDist, Transformed.sample, Chain.toBij]
    · simp [nestTransformed, mergeTransforms, Transformed.toDist, Transformed.sampleLp, Chain.toBij, Chain.tld_nil]
  | append_singleton bs b ih =>
    have hn : nestTransformed base (bs ++ [b]) = (Transformed.mk (nestTransformed base bs) b).toDist := by
      simp [nestTransformed, List.foldl_append]
    refine ⟨fun x c => ?_, fun k c => ?_, fun k c => ?_⟩
    · rw [hn]
      show (nestTransformed base bs).logProb (b.invLd x c).1 c + (b.invLd x c).2 = _
      rw [ih.logProb]
      simp only [mergeTransforms, Transformed.toDist, Transformed.logProb, Chain.toBij]
      rw [Chain.ild_append, chain_single_ild]
      ring
    · rw [hn]
      show b.fwd ((nestTransformed base bs).sample k c) c = _
      rw [ih.sample]
      simp only [mergeTransforms, Transformed.toDist, Transformed.sample, Chain.toBij, Chain.transform_append,
        Chain.transform_cons, Chain.transform_nil]
    · rw [hn]
      show ((b.fwdLd ((nestTransformed base bs).sampleLp k c).1 c).1,
            ((nestTransformed base bs).sampleLp k c).2 - (b.fwdLd ((nestTransformed base bs).sampleLp k c).1 c).2) = _
      rw [ih.sampleLp]
      simp only [mergeTransforms, Transformed.toDist, Transformed.sampleLp, Chain.toBij]
      rw [Chain.tld_append, chain_single_tld]
      ext
      · rfl
      · simp only; ring

end Gen
