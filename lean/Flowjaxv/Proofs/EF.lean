import Mathlib.Tactic
import Mathlib.Analysis.SpecialFunctions.Artanh
import Mathlib.Analysis.SpecialFunctions.Log.Basic
import Mathlib.Analysis.SpecialFunctions.Sqrt
import Mathlib.Analysis.SpecialFunctions.Gamma.Basic
import Flowjaxv.Model.Ad
/-!
# `EF`: reals extended by `+∞`, `−∞`, `NaN` with IEEE's special-value rules and EXACT finite arithmetic

Everything about NaN/∞ propagation, nothing about rounding, overflow or signed zero.  This is the
number domain of the C18 theorems; its executable counterpart is `Float` (the driver runs the same
`Ad.Expr` interpreter there and compares with `jax.grad`).
-/
noncomputable section
open Classical

inductive EF | fin (r : ℝ) | pinf | ninf | nan

namespace EF

def isFin : EF → Prop | fin _ => True | _ => False
def isNaN : EF → Prop | nan => True | _ => False

def neg : EF → EF | fin r => fin (-r) | pinf => ninf | ninf => pinf | nan => nan
def add : EF → EF → EF
  | fin a, fin b => fin (a + b)
  | nan, _ | _, nan => nan
  | pinf, ninf | ninf, pinf => nan
  | pinf, _ | _, pinf => pinf
  | ninf, _ | _, ninf => ninf
def mul : EF → EF → EF
  | fin a, fin b => fin (a * b)
  | nan, _ | _, nan => nan
  | fin a, pinf | pinf, fin a => if a = 0 then nan else if 0 < a then pinf else ninf
  | fin a, ninf | ninf, fin a => if a = 0 then nan else if 0 < a then ninf else pinf
  | pinf, pinf | ninf, ninf => pinf
  | pinf, ninf | ninf, pinf => ninf
def recip : EF → EF
  | fin a => if a = 0 then pinf else fin a⁻¹
  | pinf | ninf => fin 0
  | nan => nan
def div (a b : EF) : EF := mul a (recip b)

def lt : EF → EF → Bool
  | fin a, fin b => decide (a < b) | fin _, pinf => true | ninf, fin _ => true | ninf, pinf => true | _, _ => false
def le : EF → EF → Bool
  | fin a, fin b => decide (a ≤ b) | fin _, pinf => true | ninf, fin _ => true | ninf, pinf => true
  | pinf, pinf => true | ninf, ninf => true | _, _ => false
def beq : EF → EF → Bool
  | fin a, fin b => decide (a = b) | pinf, pinf => true | ninf, ninf => true | _, _ => false

def abs : EF → EF | fin r => fin |r| | pinf => pinf | ninf => pinf | nan => nan
def sign : EF → EF
  | fin r => fin (if r < 0 then -1 else if 0 < r then 1 else 0) | pinf => fin 1 | ninf => fin (-1) | nan => nan
def exp : EF → EF | fin r => fin (Real.exp r) | pinf => pinf | ninf => fin 0 | nan => nan
def log : EF → EF
  | fin r => if 0 < r then fin (Real.log r) else if r = 0 then ninf else nan
  | pinf => pinf | _ => nan
def tanh : EF → EF | fin r => fin (Real.tanh r) | pinf => fin 1 | ninf => fin (-1) | nan => nan
def artanh : EF → EF
  | fin a => if |a| < 1 then fin (Real.artanh a) else if a = 1 then pinf else if a = -1 then ninf else nan
  | _ => nan
def sqrt : EF → EF
  | fin r => if 0 ≤ r then fin (Real.sqrt r) else nan
  | pinf => pinf | _ => nan
def softplus : EF → EF
  | fin r => fin (Real.log (1 + Real.exp r)) | pinf => pinf | ninf => fin 0 | nan => nan
def expm1 : EF → EF | fin r => fin (Real.exp r - 1) | pinf => pinf | ninf => fin (-1) | nan => nan
def sigmoid : EF → EF
  | fin r => fin (1 / (1 + Real.exp (-r))) | pinf => fin 1 | ninf => fin 0 | nan => nan

def log1p : EF → EF
  | fin r => if -1 < r then fin (Real.log (1 + r)) else if r = -1 then ninf else nan
  | pinf => pinf | _ => nan
/-- `log |Γ r|`: `+∞` at the poles `0, −1, −2, …` (where Mathlib's `Real.Gamma` is `0`) -/
def lgamma : EF → EF
  | fin r => if Real.Gamma r = 0 then pinf else fin (Real.log (Real.Gamma r))
  | pinf => pinf | _ => nan
/-- the derivative of `log Γ`.  TRUSTED PRIMITIVE: off the poles its value is the real number
`deriv (log ∘ Γ) r`, i.e. the model ASSUMES that JAX's `digamma` returns a finite float wherever `lgamma` is
differentiable (no overflow for representable positive arguments); at the poles the model says NaN. -/
def digamma : EF → EF
  | fin r => if Real.Gamma r = 0 then nan else fin (deriv (fun t => Real.log (Real.Gamma t)) r)
  | pinf => pinf | _ => nan
def isNaNb : EF → Bool | nan => true | _ => false

instance : Add EF := ⟨add⟩
instance : Mul EF := ⟨mul⟩
instance : Neg EF := ⟨neg⟩
instance : Sub EF := ⟨fun a b => add a (neg b)⟩
instance : Div EF := ⟨div⟩

instance : Ad.Num EF where
  ofInt i := fin (i : ℝ)
  ofSci m s e := fin ((OfScientific.ofScientific m s e : ℚ) : ℝ)
  lt := lt
  le := le
  beq := beq
  abs := abs
  sign := sign
  exp := exp
  log := log
  tanh := tanh
  artanh := artanh
  sqrt := sqrt
  softplus := softplus
  expm1 := expm1
  sigmoid := sigmoid
  log1p := log1p
  lgamma := lgamma
  digamma := digamma
  inf := pinf
  isNaN := isNaNb

@[simp] theorem fin_add (a b : ℝ) : (fin a + fin b : EF) = fin (a + b) := rfl
@[simp] theorem fin_sub (a b : ℝ) : (fin a - fin b : EF) = fin (a - b) := by
  show add (fin a) (neg (fin b)) = _; simp [add, neg, sub_eq_add_neg]
@[simp] theorem fin_mul (a b : ℝ) : (fin a * fin b : EF) = fin (a * b) := rfl
@[simp] theorem fin_neg (a : ℝ) : (-(fin a) : EF) = fin (-a) := rfl
theorem fin_div {a b : ℝ} (h : b ≠ 0) : (fin a / fin b : EF) = fin (a / b) := by
  show mul (fin a) (recip (fin b)) = _; simp [recip, h, mul, div_eq_mul_inv]
@[simp] theorem isFin_fin (r : ℝ) : isFin (fin r) := trivial
theorem isFin_iff {x : EF} : isFin x ↔ ∃ r, x = fin r := by
  cases x <;> simp [isFin]
@[simp] theorem ofInt_eq (i : Int) : (Ad.Num.ofInt i : EF) = fin (i : ℝ) := rfl
@[simp] theorem num_lt (a b : ℝ) : Ad.Num.lt (fin a) (fin b) = decide (a < b) := rfl
@[simp] theorem num_le (a b : ℝ) : Ad.Num.le (fin a) (fin b) = decide (a ≤ b) := rfl
@[simp] theorem num_beq (a b : ℝ) : Ad.Num.beq (fin a) (fin b) = decide (a = b) := rfl

@[simp] theorem num_abs (r : ℝ) : (Ad.Num.abs (fin r) : EF) = fin |r| := rfl
@[simp] theorem num_sign (r : ℝ) :
    (Ad.Num.sign (fin r) : EF) = fin (if r < 0 then -1 else if 0 < r then 1 else 0) := rfl
@[simp] theorem num_exp (r : ℝ) : (Ad.Num.exp (fin r) : EF) = fin (Real.exp r) := rfl
@[simp] theorem num_tanh (r : ℝ) : (Ad.Num.tanh (fin r) : EF) = fin (Real.tanh r) := rfl
@[simp] theorem num_softplus (r : ℝ) : (Ad.Num.softplus (fin r) : EF) = fin (Real.log (1 + Real.exp r)) := rfl
@[simp] theorem num_expm1 (r : ℝ) : (Ad.Num.expm1 (fin r) : EF) = fin (Real.exp r - 1) := rfl
theorem num_log {r : ℝ} (h : 0 < r) : (Ad.Num.log (fin r) : EF) = fin (Real.log r) := by
  show EF.log (fin r) = _; simp [EF.log, h]
theorem num_sqrt {r : ℝ} (h : 0 ≤ r) : (Ad.Num.sqrt (fin r) : EF) = fin (Real.sqrt r) := by
  show EF.sqrt (fin r) = _; simp [EF.sqrt, h]
theorem num_log1p {r : ℝ} (h : -1 < r) : (Ad.Num.log1p (fin r) : EF) = fin (Real.log (1 + r)) := by
  show EF.log1p (fin r) = _; simp [EF.log1p, h]
theorem num_lgamma {r : ℝ} (h : 0 < r) : (Ad.Num.lgamma (fin r) : EF) = fin (Real.log (Real.Gamma r)) := by
  show EF.lgamma (fin r) = _; simp [EF.lgamma, (Real.Gamma_pos_of_pos h).ne']
theorem num_digamma {r : ℝ} (h : 0 < r) :
    (Ad.Num.digamma (fin r) : EF) = fin (deriv (fun t => Real.log (Real.Gamma t)) r) := by
  show EF.digamma (fin r) = _; simp [EF.digamma, (Real.Gamma_pos_of_pos h).ne']
@[simp] theorem num_isNaN_fin (r : ℝ) : (Ad.Num.isNaN (fin r) : Bool) = false := rfl
@[simp] theorem num_inf : (Ad.Num.inf : EF) = pinf := rfl
theorem num_artanh {r : ℝ} (h : |r| < 1) : (Ad.Num.artanh (fin r) : EF) = fin (Real.artanh r) := by
  show EF.artanh (fin r) = _; simp [EF.artanh, h]

end EF
end
