import Mathlib.LinearAlgebra.Matrix.Permutation
import Flowjaxv.Proofs.NetMass
import Flowjaxv.Proofs.VecLd
import Flowjaxv.Proofs.Perm
import Flowjaxv.Gen.Misc
/-!
# C04 in `d` dimensions for the permutation layers between flow layers (`Flip`, `Permute`), and condition-dependent layers

`_add_default_permute` puts a `Flip` (dim 2) or a `Permute` (dim > 2) after every layer of the flow factories.  Both act on
coordinates as `y ↦ y ∘ q` for a bijection `q` of the index set: a linear map with a permutation matrix, `|det| = 1`
(`Matrix.det_permutation`), reported log-det `0`.

* `coordPerm_invJacN` — the generic statement (`Mass.InvJacN`) for any lawful `b` whose inverse map is `y ↦ y ∘ q` at `c`;
* `flipBij` — the record of the four methods GENERATED from `Flip` (`Gen/Misc.lean`);
* `permuteBij perm` — the hand model `PermModel` (`Model/Perm.lean`, tied to the code by C07's correspondence) with log-det `0`;
* `Bij.dep` — a layer whose parameters are computed from the condition (`Planar` with `cond_dim`): `B c` is the layer at `c`.
-/
set_option linter.unusedSectionVars false
set_option linter.unusedVariables false
open Gen Set MeasureTheory

namespace PermMass
variable {n : ℕ} {C : Type}

/-- `y ↦ y ∘ σ` is the linear map of the permutation matrix of `σ` -/
theorem comp_perm_hasFDerivAt (σ : Equiv.Perm (Fin n)) (y : Fin n → ℝ) :
    HasFDerivAt (fun y : Fin n → ℝ => y ∘ σ) (VecLd.matCLM (σ.permMatrix ℝ)) y := by
  have e : (fun y : Fin n → ℝ => y ∘ σ) = VecLd.matCLM (σ.permMatrix ℝ) := by
    funext y
    show y ∘ σ = Matrix.toLin' (σ.permMatrix ℝ) y
    rw [Matrix.toLin'_apply, Matrix.permMatrix_mulVec]
  rw [e]
  exact (VecLd.matCLM (σ.permMatrix ℝ)).hasFDerivAt

theorem abs_det_perm (σ : Equiv.Perm (Fin n)) : |(VecLd.matCLM (σ.permMatrix ℝ)).det| = 1 := by
  rw [VecLd.matCLM_det, Matrix.det_permutation]
  rcases Int.units_eq_one_or (Equiv.Perm.sign σ) with h | h <;> simp [h]

/-- **a coordinate permutation satisfies `Mass.InvJacN`**: `b` lawful on `ℝⁿ`, inverse map `y ↦ y ∘ q` with `q` bijective, reported
inverse log-det `0` -/
theorem coordPerm_invJacN {b : Bij (Fin n → ℝ) C ℝ} {c : C} (hL : b.Lawful univ univ) (q : Fin n → Fin n)
    (hq : Function.Bijective q) (hinv : ∀ y, b.inv y c = y ∘ q) (hld : ∀ y, (b.invLd y c).2 = 0) :
    Mass.InvJacN b c := by
  let σ : Equiv.Perm (Fin n) := Equiv.ofBijective q hq
  have e : (fun y => b.inv y c) = fun y : Fin n → ℝ => y ∘ σ := by
    funext y; rw [hinv y]; rfl
  refine Mass.InvJacN.of_hasFDerivAt hL (fun _ => VecLd.matCLM (σ.permMatrix ℝ)) fun y => ⟨?_, ?_, ?_⟩
  · rw [e]; exact comp_perm_hasFDerivAt _ y
  · intro h0
    have := abs_det_perm σ
    rw [h0] at this; simp at this
  · rw [hld y, abs_det_perm, Real.log_one]

/-! ## Flip (generated) -/

/-- the four methods GENERATED from `flowjax.bijections.utils.Flip` -/
def flipBij : Bij (List ℝ) C ℝ :=
  ⟨fun x _ => Flip.transform x, fun y _ => Flip.inverse y, fun x _ => Flip.transform_and_log_det x,
   fun y _ => Flip.inverse_and_log_det y⟩

theorem flip_lift_lawful : (NetMass.liftBij n (flipBij : Bij (List ℝ) C ℝ)).Lawful univ univ := by
  have hL : (flipBij : Bij (List ℝ) C ℝ).Lawful univ univ :=
    ⟨fun _ _ _ => trivial, fun _ _ _ => trivial, fun x _ _ => by simp [flipBij, Flip.transform, Flip.inverse],
     fun x _ _ => by simp [flipBij, Flip.transform, Flip.inverse], fun _ _ => rfl, fun _ _ => rfl⟩
  exact NetMass.liftBij_lawful n _ _ _ hL (fun _ _ => trivial) (fun _ _ => trivial)
    (fun x c hx => by simp [flipBij, Flip.transform, hx]) (fun x c hx => by simp [flipBij, Flip.inverse, hx])

theorem nth_reverse_ofFn (y : Fin n → ℝ) (i : Fin n) : MasksPf.nth (List.reverse (List.ofFn y)) i = y (Fin.rev i) := by
  have hi : (i : ℕ) < (List.ofFn y).length := by simp
  simp only [MasksPf.nth]
  rw [List.getElem?_reverse hi]
  simp only [List.length_ofFn]
  have h2 : n - 1 - (i : ℕ) < n := by have := i.2; omega
  rw [List.getElem?_ofFn]
  simp only [h2, dite_true, Option.getD_some]
  congr 1
  ext
  simp [Fin.rev]; omega

theorem rev_bijective : Function.Bijective (Fin.rev : Fin n → Fin n) := Fin.rev_bijective

/-- **`Flip`** (both as a layer and inside `Invert`): `Mass.InvJacN` -/
theorem flip_invJacN (c : C) : Mass.InvJacN (NetMass.liftBij n (flipBij : Bij (List ℝ) C ℝ)) c :=
  coordPerm_invJacN flip_lift_lawful Fin.rev rev_bijective
    (fun y => by funext i; exact nth_reverse_ofFn y i) (fun _ => rfl)

theorem flip_invert_invJacN (c : C) :
    Mass.InvJacN (Gen.Invert.mk (NetMass.liftBij n (flipBij : Bij (List ℝ) C ℝ))).toBij c := by
  have hL := flip_lift_lawful (n := n) (C := C)
  refine coordPerm_invJacN (b := (Gen.Invert.mk (NetMass.liftBij n (flipBij : Bij (List ℝ) C ℝ))).toBij)
    ⟨fun _ _ _ => trivial, fun _ _ _ => trivial, fun y _ c => hL.right y trivial c, fun x _ c => hL.left x trivial c,
      fun y c => hL.invLd_fst y c, fun x c => hL.fwdLd_fst x c⟩ Fin.rev rev_bijective
    (fun y => by funext i; exact nth_reverse_ofFn y i) (fun _ => rfl)

/-! ## Permute (hand model `PermModel`) -/

/-- the four methods of `Permute(permutation)` on flat vectors: `x[perm]`, `y[argsort perm]`, log-det `0` -/
def permuteBij (perm : List ℕ) : Bij (List ℝ) C ℝ :=
  ⟨fun x _ => PermModel.fwd perm x, fun y _ => PermModel.inv perm y, fun x _ => (PermModel.fwd perm x, 0),
   fun y _ => (PermModel.inv perm y, 0)⟩

theorem permute_lift_lawful (perm : List ℕ) (h : perm.Perm (List.range perm.length)) :
    (NetMass.liftBij perm.length (permuteBij perm : Bij (List ℝ) C ℝ)).Lawful univ univ := by
  have hL : (permuteBij perm : Bij (List ℝ) C ℝ).Lawful {x | x.length = perm.length} {y | y.length = perm.length} :=
    ⟨fun x _ _ => by simp [permuteBij, PermModel.fwd],
     fun y _ _ => by simp [permuteBij, PermModel.inv, PermModel.fwd, PermModel.argsort],
     fun x hx _ => PermModel.inv_fwd perm h x hx, fun y hy _ => PermModel.fwd_inv perm h y hy, fun _ _ => rfl, fun _ _ => rfl⟩
  exact NetMass.liftBij_lawful perm.length _ _ _ hL (fun _ hx => hx) (fun _ hx => hx)
    (fun x c hx => hL.maps x hx c) (fun y c hy => hL.mapsInv y hy c)

/-- index map `k ↦ l[k]` of a list of indices, total on `Fin n` -/
def sel (n : ℕ) (l : List ℕ) (k : Fin n) : Fin n :=
  if h : l.getD k 0 < n then ⟨l.getD k 0, h⟩ else k

theorem sel_val {l : List ℕ} (hlen : l.length = n) (hl : ∀ j ∈ l, j < n) (k : Fin n) :
    (sel n l k : ℕ) = l[(k : ℕ)]'(by rw [hlen]; exact k.2) := by
  have hk : (k : ℕ) < l.length := by rw [hlen]; exact k.2
  have e : l.getD k 0 = l[(k : ℕ)] := by simp [List.getD_eq_getElem?_getD, hk]
  have hlt : l.getD k 0 < n := by rw [e]; exact hl _ (List.getElem_mem hk)
  unfold sel
  rw [dif_pos hlt]
  exact e

theorem nth_fwd_ofFn {l : List ℕ} (hlen : l.length = n) (hl : ∀ j ∈ l, j < n) (y : Fin n → ℝ) (k : Fin n) :
    MasksPf.nth (PermModel.fwd l (List.ofFn y)) k = y (sel n l k) := by
  have hk : (k : ℕ) < l.length := by rw [hlen]; exact k.2
  have hk' : (k : ℕ) < (PermModel.fwd l (List.ofFn y)).length := by simpa [PermModel.fwd] using hk
  have hlt : l[(k : ℕ)] < n := hl _ (List.getElem_mem hk)
  have hs : sel n l k = ⟨l[(k : ℕ)], hlt⟩ := Fin.ext (sel_val hlen hl k)
  rw [MasksPf.nth_of_lt hk', hs]
  simp [PermModel.fwd, List.getD_eq_getElem?_getD, List.getElem?_ofFn, hlt]

theorem perm_mem_lt {perm : List ℕ} (h : perm.Perm (List.range perm.length)) : ∀ j ∈ perm, j < perm.length :=
  fun j hj => List.mem_range.mp (h.mem_iff.mp hj)

theorem sel_perm_bijective {perm : List ℕ} (h : perm.Perm (List.range perm.length)) :
    Function.Bijective (sel perm.length perm) := by
  rw [← Finite.injective_iff_bijective]
  have hnd : perm.Nodup := h.nodup_iff.mpr List.nodup_range
  intro a b hab
  have hv : (sel perm.length perm a : ℕ) = sel perm.length perm b := congrArg Fin.val hab
  rw [sel_val rfl (perm_mem_lt h), sel_val rfl (perm_mem_lt h)] at hv
  exact Fin.ext ((List.Nodup.getElem_inj_iff hnd).mp hv)

theorem argsort_mem_lt {perm : List ℕ} (h : perm.Perm (List.range perm.length)) :
    ∀ j ∈ PermModel.argsort perm, j < perm.length := by
  intro j hj
  simp only [PermModel.argsort, List.mem_map, List.mem_range] at hj
  obtain ⟨i, hi, rfl⟩ := hj
  exact List.idxOf_lt_length_iff.mpr (h.mem_iff.mpr (List.mem_range.mpr hi))

theorem sel_argsort_bijective {perm : List ℕ} (h : perm.Perm (List.range perm.length)) :
    Function.Bijective (sel perm.length (PermModel.argsort perm)) := by
  rw [← Finite.injective_iff_bijective]
  intro a b hab
  have hv : (sel perm.length (PermModel.argsort perm) a : ℕ) = sel perm.length (PermModel.argsort perm) b :=
    congrArg Fin.val hab
  rw [sel_val (PermModel.length_argsort perm) (argsort_mem_lt h), sel_val (PermModel.length_argsort perm) (argsort_mem_lt h)] at hv
  simp only [PermModel.argsort, List.getElem_map, List.getElem_range] at hv
  have hma : (a : ℕ) ∈ perm := h.mem_iff.mpr (List.mem_range.mpr a.2)
  exact Fin.ext ((List.idxOf_inj hma).mp hv)

/-- **`Permute(perm)`** for every permutation of `0..n-1` the constructor accepts (`PermModel.valid_iff`): `Mass.InvJacN`, as a layer
and inside `Invert` -/
theorem permute_invJacN (perm : List ℕ) (h : perm.Perm (List.range perm.length)) (c : C) :
    Mass.InvJacN (NetMass.liftBij perm.length (permuteBij perm : Bij (List ℝ) C ℝ)) c :=
  coordPerm_invJacN (permute_lift_lawful perm h) (sel perm.length (PermModel.argsort perm)) (sel_argsort_bijective h)
    (fun y => by
      funext k
      exact nth_fwd_ofFn (PermModel.length_argsort perm) (argsort_mem_lt h) y k) (fun _ => rfl)

theorem permute_invert_invJacN (perm : List ℕ) (h : perm.Perm (List.range perm.length)) (c : C) :
    Mass.InvJacN (Gen.Invert.mk (NetMass.liftBij perm.length (permuteBij perm : Bij (List ℝ) C ℝ))).toBij c := by
  have hL := permute_lift_lawful (C := C) perm h
  refine coordPerm_invJacN (b := (Gen.Invert.mk (NetMass.liftBij perm.length (permuteBij perm : Bij (List ℝ) C ℝ))).toBij)
    ⟨fun _ _ _ => trivial, fun _ _ _ => trivial, fun y _ c => hL.right y trivial c, fun x _ c => hL.left x trivial c,
      fun y c => hL.invLd_fst y c, fun x c => hL.fwdLd_fst x c⟩ (sel perm.length perm) (sel_perm_bijective h)
    (fun y => by
      funext k
      exact nth_fwd_ofFn rfl (perm_mem_lt h) y k) (fun _ => rfl)

end PermMass

/-! ## a layer whose parameters are computed from the condition -/

/-- `B c` is the bijection used at condition `c` (e.g. `Planar.get_planar(condition)`): every method evaluates `B condition` -/
def Bij.dep {X C L : Type} (B : C → Bij X C L) : Bij X C L :=
  ⟨fun x c => (B c).fwd x c, fun y c => (B c).inv y c, fun x c => (B c).fwdLd x c, fun y c => (B c).invLd y c⟩

namespace Mass
variable {E C : Type} [NormedAddCommGroup E] [NormedSpace ℝ E] [FiniteDimensional ℝ E] [MeasurableSpace E] [BorelSpace E]

theorem dep_lawful {B : C → Bij E C ℝ} (hL : ∀ c, (B c).Lawful univ univ) : (Bij.dep B).Lawful univ univ :=
  ⟨fun _ _ _ => trivial, fun _ _ _ => trivial, fun x _ c => (hL c).left x trivial c, fun y _ c => (hL c).right y trivial c,
    fun x c => (hL c).fwdLd_fst x c, fun y c => (hL c).invLd_fst y c⟩

theorem InvJacN.dep {B : C → Bij E C ℝ} (hL : ∀ c, (B c).Lawful univ univ) {c : C} (h : InvJacN (B c) c) :
    InvJacN (Bij.dep B) c := ⟨dep_lawful hL, h.jac⟩

theorem FwdJacN.dep {B : C → Bij E C ℝ} (hL : ∀ c, (B c).Lawful univ univ) {c : C} (h : FwdJacN (B c) c) :
    FwdJacN (Bij.dep B) c := ⟨dep_lawful hL, h.jac⟩

theorem InvJacN.dep_invert {B : C → Bij E C ℝ} (hL : ∀ c, (B c).Lawful univ univ) {c : C}
    (h : InvJacN (Gen.Invert.mk (B c)).toBij c) : InvJacN (Gen.Invert.mk (Bij.dep B)).toBij c :=
  ⟨⟨fun _ _ _ => trivial, fun _ _ _ => trivial, fun y _ c => (hL c).right y trivial c, fun x _ c => (hL c).left x trivial c,
    fun y c => (hL c).invLd_fst y c, fun x c => (hL c).fwdLd_fst x c⟩, h.jac⟩

end Mass
