import Flowjaxv.Proofs.MassAR
import Flowjaxv.Proofs.NetMassMaf
import Flowjaxv.Proofs.MassLeaves
/-!
# C04 for Coupling / MaskedAutoregressive layers with NON-differentiable conditioners and ANY scalar transformer family

`Proofs/NetMass.lean` / `NetMassMaf.lean` need the conditioner network to be differentiable (so `relu`, the library's
default activation, is outside) and the affine transformer.  Here the layer facts `Mass.MassOK` / `Mass.LawOK` are
obtained from `Mass.ar_layer` (Tonelli, one coordinate at a time): the only hypotheses are

* the scalar transformer family is lawful `ℝ ↔ ℝ`, log-det antisymmetric and satisfies the ONE-dimensional layer fact
  `Mass.LawOK volume (tf ps) ()` for every parameter row (proved for affine, spline, … in `MassLeaves.lean`);
* JOINT MEASURABILITY of (point, own coordinate) ↦ transformer of that point's parameter row applied to the coordinate
  (`MafMeas`, `CouplingMeas`) — discharged below for the affine family over every masked network / conditioner with a
  CONTINUOUS activation (`relu` included): `maf_affine_meas`, `coupling_affine_meas`.
-/
set_option linter.unusedSectionVars false
set_option linter.unusedVariables false
open Masks MasksPf Gen Set MeasureTheory NetLogDet MassShear

namespace NetMass

theorem meas_slice {A : Type} [MeasurableSpace A] (f : A → ℝ → ℝ) (hf : Measurable fun p : A × ℝ => f p.1 p.2) (a : A) :
    Measurable (f a) := hf.comp (measurable_const.prodMk measurable_id)


/-! ## continuity of the conditioner networks (any continuous activation, `relu` included) -/
section cont

/-- a list-valued map of `w ∈ ℝⁿ` of constant length whose every coordinate (`0` past the end) is continuous -/
structure ContC {n : ℕ} (g : (Fin n → ℝ) → List ℝ) : Prop where
  len : ∃ m, ∀ w, (g w).length = m
  cont : ∀ c, Continuous (fun w => nth (g w) c)

theorem contC_input {n : ℕ} (cond : List ℝ) : ContC (fun w : Fin n → ℝ => List.ofFn w ++ cond) := by
  refine ⟨⟨n + cond.length, fun w => by simp⟩, fun c => ?_⟩
  by_cases hc : c < n
  · have e : (fun w : Fin n → ℝ => nth (List.ofFn w ++ cond) c) = fun w => w ⟨c, hc⟩ := by
      funext w
      simp [nth, List.getElem?_append_left, hc]
    rw [e]
    exact continuous_apply _
  · have e : (fun w : Fin n → ℝ => nth (List.ofFn w ++ cond) c) = fun _ => nth cond (c - n) := by
      funext w
      simp only [nth]
      rw [List.getElem?_append_right (by simp; omega)]
      simp
    rw [e]
    exact continuous_const

/-- the first block of a coupling layer: `hstack((x[:d], condition))` -/
theorem contC_take {n : ℕ} (d : ℕ) (cond : List ℝ) : ContC (fun w : Fin n → ℝ => (List.ofFn w).take d ++ cond) := by
  refine ⟨⟨min d n + cond.length, fun w => by simp⟩, fun c => ?_⟩
  by_cases hc : c < min d n
  · have hcn : c < n := by omega
    have e : (fun w : Fin n → ℝ => nth ((List.ofFn w).take d ++ cond) c) = fun w => w ⟨c, hcn⟩ := by
      funext w
      simp only [nth]
      rw [List.getElem?_append_left (by simp; omega), List.getElem?_take]
      have hcd : c < d := by omega
      simp [hcn, hcd]
    rw [e]
    exact continuous_apply _
  · have e : (fun w : Fin n → ℝ => nth ((List.ofFn w).take d ++ cond) c) = fun _ => nth cond (c - min d n) := by
      funext w
      simp only [nth]
      rw [List.getElem?_append_right (by simp; omega)]
      simp
    rw [e]
    exact continuous_const

theorem contC_linear {n : ℕ} (W : List (List ℝ)) (b : List ℝ) (g : (Fin n → ℝ) → List ℝ)
    (hg : ContC g) : ContC (fun w => linearApply W b (g w)) := by
  refine ⟨⟨min W.length b.length, fun w => linearApply_length _ _ _⟩, fun u => ?_⟩
  by_cases hu : u < min W.length b.length
  · have huW : u < W.length := by omega
    have hub : u < b.length := by omega
    have hfun : (fun w => nth (linearApply W b (g w)) u)
        = fun w => (∑ c ∈ Finset.range W[u].length, nth W[u] c * nth (g w) c) + b[u] := by
      funext w
      rw [nth_linearApply _ _ _ u huW hub]
    rw [hfun]
    exact (continuous_finsetSum _ fun c _ => (hg.cont c).const_mul _).add continuous_const
  · have hfun : (fun w => nth (linearApply W b (g w)) u) = fun _ => (0 : ℝ) := by
      funext w
      exact nth_of_ge (by rw [linearApply_length]; omega)
    rw [hfun]
    exact continuous_const

theorem contC_map {n : ℕ} (act : ℝ → ℝ) (hact : Continuous act) (g : (Fin n → ℝ) → List ℝ)
    (hg : ContC g) : ContC (fun w => (g w).map act) := by
  obtain ⟨m, hm⟩ := hg.len
  refine ⟨⟨m, fun w => by simp [hm]⟩, fun c => ?_⟩
  by_cases hc : c < m
  · have hfun : (fun w => nth ((g w).map act) c) = fun w => act (nth (g w) c) := by
      funext w
      rw [nth_of_lt (by simp [hm, hc]), nth_of_lt (by rw [hm]; exact hc)]; simp
    rw [hfun]
    exact hact.comp (hg.cont c)
  · have hfun : (fun w => nth ((g w).map act) c) = fun _ => (0 : ℝ) := by
      funext w
      exact nth_of_ge (by simp [hm]; omega)
    rw [hfun]
    exact continuous_const

/-- the whole (masked) MLP, any number of layers of any shapes, any continuous activation -/
theorem contC_mlp {n : ℕ} (act : ℝ → ℝ) (hact : Continuous act) :
    ∀ (Ls : List (MaskedLinear ℝ)) (g : (Fin n → ℝ) → List ℝ), ContC g →
      ContC (fun w => mlpForward act Ls (g w)) := by
  intro Ls
  induction Ls with
  | nil => intro g hg; simpa [mlpForward] using hg
  | cons L Ls ih =>
    intro g hg
    cases Ls with
    | nil =>
      have := contC_linear L.unwrapW L.bias g hg
      simpa only [mlpForward, MaskedLinear.apply] using this
    | cons L' Ls' =>
      have h1 := contC_map act hact _ (contC_linear L.unwrapW L.bias g hg)
      have h2 := ih _ h1
      simpa only [mlpForward, MaskedLinear.apply] using h2

/-- `relu` is continuous -/
theorem relu_continuous : Continuous (fun z : ℝ => max z 0) := continuous_id.max continuous_const

/-- `f` is a measurable function of the entries of its argument row -/
def RowMeas (f : List ℝ → ℝ) : Prop :=
  ∀ (n : ℕ) (g : (Fin n → ℝ) → List ℝ), ContC g → Measurable (fun w => f (g w))

theorem rowMeas_nth (k : ℕ) : RowMeas (fun ps => nth ps k) := fun _ g hg => (hg.cont k).measurable

theorem RowMeas.comp {f : List ℝ → ℝ} (hf : RowMeas f) (φ : ℝ → ℝ) (hφ : Measurable φ) :
    RowMeas (fun ps => φ (f ps)) := fun n g hg => hφ.comp (hf n g hg)

theorem rowMeas_nth_add (k : ℕ) (a : ℝ) : RowMeas (fun ps => nth ps k + a) :=
  RowMeas.comp (rowMeas_nth k) (fun z => z + a) (measurable_id.add_const a)

theorem rowMeas_softplus (k : ℕ) (a : ℝ) : RowMeas (fun ps => (Transc.softplus (nth ps k + a) : ℝ)) :=
  RowMeas.comp (rowMeas_nth_add k a) (fun z => (Transc.softplus z : ℝ))
    (continuous_iff_continuousAt.mpr fun z => (LogDet.hasDerivAt_softplus z).continuousAt).measurable

end cont

/-- log-det antisymmetry of a list-level bijection read in coordinates -/
theorem liftBij_ld_antisym (n : ℕ) {C : Type} (b : Bij (List ℝ) C ℝ) (D : Set (List ℝ)) (h : b.LdAntisym D)
    (hD : ∀ x : List ℝ, x.length = n → x ∈ D) (hf : ∀ (x : List ℝ) c, x.length = n → (b.fwd x c).length = n)
    (w : Fin n → ℝ) (c : C) :
    ((liftBij n b).invLd ((liftBij n b).fwd w c) c).2 = -((liftBij n b).fwdLd w c).2 := by
  show (b.invLd (List.ofFn fun i => nth (b.fwd (List.ofFn w) c) i) c).2 = -(b.fwdLd (List.ofFn w) c).2
  rw [ofFn_nth _ n (hf _ c (by simp))]
  exact h _ (hD _ (by simp)) c

/-- both layer facts -/
def LayerOK {n : ℕ} {C : Type} (b : Bij (Fin n → ℝ) C ℝ) (c : C) : Prop :=
  Mass.MassOK volume b c ∧ Mass.LawOK volume b c

/-! ## MaskedAutoregressive, any transformer family -/
section maf
variable (N : MafNet ℝ) (tf : List ℝ → Bij ℝ Unit ℝ)

/-- joint measurability of "parameter row of coordinate `i` at the point, then the scalar transformer" -/
structure MafMeas (c : List ℝ) : Prop where
  fwd : ∀ i, i < N.dim → Measurable fun p : (Fin N.dim → ℝ) × ℝ => (tf (mafRow N c p.1 i)).fwd p.2 ()
  inv : ∀ i, i < N.dim → Measurable fun p : (Fin N.dim → ℝ) × ℝ => (tf (mafRow N c p.1 i)).inv p.2 ()
  ld : ∀ i, i < N.dim → Measurable fun p : (Fin N.dim → ℝ) × ℝ => ((tf (mafRow N c p.1 i)).invLd p.2 ()).2

/-- the forward pass in coordinates: `yᵢ = T(rowᵢ(x))(xᵢ)` -/
theorem maf_fwd_apply (c : List ℝ) (w : Fin N.dim → ℝ) (i : Fin N.dim) :
    (liftBij N.dim (mafBij N tf)).fwd w c i = (tf (mafRow N c w i)).fwd (w i) () := by
  show nth (N.transform (fun ps t => (tf ps).fwd t ()) (List.ofFn w) c) i = _
  have hx : (List.ofFn w)[(i : ℕ)]? = some (w i) := by simp
  unfold MafNet.transform
  simp only [nth]
  rw [NetLawful.getElem?_zipWith' _ _ _ i _ _ (mafRow_spec N c w i i.2) hx]
  rfl

/-- the parameter row of coordinate `i` looks at the coordinates below `i` only -/
theorem mafRow_agree (hN : N.WellShaped) (c : List ℝ) (i : Fin N.dim) (w w' : Fin N.dim → ℝ)
    (h : AgreeBelow i.val w w') : mafRow N c w i = mafRow N c w' i := by
  have h1 := mafRow_spec N c w i i.2
  have h2 := mafRow_spec N c w' i i.2
  rw [maf_params_dep N hN (List.ofFn w) (List.ofFn w') c (by simp) (by simp) i i.2 (by
    intro j hj hj' hji
    simp only [List.getElem_ofFn]
    exact h ⟨j, by simpa using hj⟩ hji)] at h1
  rw [h1] at h2
  exact Option.some.inj h2

theorem maf_lift_lawful (hN : N.WellShaped) (htf : ∀ ps, (tf ps).Lawful univ univ) :
    (liftBij N.dim (mafBij N tf)).Lawful univ univ := by
  have hL := NetLawful.maf_lawful N hN tf univ univ htf
  refine liftBij_lawful N.dim _ _ _ hL (fun x hx => ⟨hx, fun _ _ => trivial⟩) (fun x hx => ⟨hx, fun _ _ => trivial⟩) ?_ ?_
  · intro x c hx; exact (hL.maps x ⟨hx, fun _ _ => trivial⟩ c).1
  · intro x c hx; exact (hL.mapsInv x ⟨hx, fun _ _ => trivial⟩ c).1

/-- the log-det returned with the inverse, as a sum over coordinates of the scalar inverse log-dets -/
theorem maf_invLd_sum (hN : N.WellShaped) (htf : ∀ ps, (tf ps).Lawful univ univ)
    (hanti : ∀ ps, (tf ps).LdAntisym univ) (c : List ℝ) (y : Fin N.dim → ℝ) :
    ((liftBij N.dim (mafBij N tf)).invLd y c).2
      = ∑ i : Fin N.dim, ((tf (mafRow N c ((liftBij N.dim (mafBij N tf)).inv y c) i)).invLd (y i) ()).2 := by
  set x := (liftBij N.dim (mafBij N tf)).inv y c with hx
  have hL := maf_lift_lawful N tf hN htf
  -- the list-level preimage is `List.ofFn x`
  have hlen : (N.inverse (fun ps t => (tf ps).inv t ()) (List.ofFn y) c).length = N.dim :=
    ((NetLawful.maf_lawful N hN tf univ univ htf).mapsInv (List.ofFn y) ⟨by simp, fun _ _ => trivial⟩ c).1
  have hxl : N.inverse (fun ps t => (tf ps).inv t ()) (List.ofFn y) c = List.ofFn x :=
    (ofFn_nth _ N.dim hlen).symm
  -- each `yᵢ` is the scalar forward image of `xᵢ`
  have hy : ∀ i : Fin N.dim, y i = (tf (mafRow N c x i)).fwd (x i) () := by
    intro i
    have := congrFun (hL.right y trivial c) i
    rw [← this, maf_fwd_apply]
  have hP : (N.params (List.ofFn x) c).length = N.dim := NetLawful.params_length N _ _
  show -(vmapFwdLd ((N.params (N.inverse (fun ps t => (tf ps).inv t ()) (List.ofFn y) c) c).map tf)
      (N.inverse (fun ps t => (tf ps).inv t ()) (List.ofFn y) c)).2 = _
  rw [hxl]
  simp only [vmapFwdLd]
  rw [List.zipWith_map_left, jsum_eq_sum, zipWith_eq_ofFn _ _ hP x, List.sum_ofFn, ← Finset.sum_neg_distrib]
  refine Finset.sum_congr rfl fun i _ => ?_
  have hrow : (N.params (List.ofFn x) c)[i]'(by rw [hP]; exact i.2) = mafRow N c x i := by
    have := mafRow_spec N c x i i.2
    rw [List.getElem?_eq_getElem (by rw [hP]; exact i.2)] at this
    exact Option.some.inj this
  rw [hrow, hy i, hanti (mafRow N c x i) (x i) trivial ()]

/-- the three fibre families of the layer -/
noncomputable def mafG (c : List ℝ) (i : Fin N.dim) (w : Fin N.dim → ℝ) (t : ℝ) : ℝ := (tf (mafRow N c w i)).fwd t ()
noncomputable def mafH (c : List ℝ) (i : Fin N.dim) (w : Fin N.dim → ℝ) (t : ℝ) : ℝ := (tf (mafRow N c w i)).inv t ()
noncomputable def mafL (c : List ℝ) (i : Fin N.dim) (w : Fin N.dim → ℝ) (t : ℝ) : ℝ := ((tf (mafRow N c w i)).invLd t ()).2

/-- **`Mass.MassOK` and `Mass.LawOK` for a masked autoregressive layer** — every well-shaped masked network (ANY activation:
nothing but measurability is asked), every scalar transformer family that is lawful on `ℝ`, log-det antisymmetric and
satisfies the one-dimensional layer fact. -/
theorem maf_layer_meas (hN : N.WellShaped) (htf : ∀ ps, (tf ps).Lawful univ univ)
    (hanti : ∀ ps, (tf ps).LdAntisym univ) (h1 : ∀ ps, Mass.LawOK volume (tf ps) ()) (c : List ℝ)
    (hm : MafMeas N tf c) :
    LayerOK (liftBij N.dim (mafBij N tf)) c ∧ LayerOK (Gen.Invert.mk (liftBij N.dim (mafBij N tf))).toBij c := by
  have hL := maf_lift_lawful N tf hN htf
  have a1 : ∀ (i : Fin N.dim) w w', AgreeBelow i.val w w' → mafH N tf c i w = mafH N tf c i w' := by
    intro i w w' h; funext t; simp only [mafH, mafRow_agree N hN c i w w' h]
  have a2 : ∀ (i : Fin N.dim) w w', AgreeBelow i.val w w' → mafL N tf c i w = mafL N tf c i w' := by
    intro i w w' h; funext t; simp only [mafL, mafRow_agree N hN c i w w' h]
  have a3 : ∀ i, Measurable fun p : (Fin N.dim → ℝ) × ℝ => mafG N tf c i p.1 p.2 := fun i => hm.fwd i i.2
  have a4 : ∀ i, Measurable fun p : (Fin N.dim → ℝ) × ℝ => mafH N tf c i p.1 p.2 := fun i => hm.inv i i.2
  have a5 : ∀ i, Measurable fun p : (Fin N.dim → ℝ) × ℝ => mafL N tf c i p.1 p.2 := fun i => hm.ld i i.2
  have a6 : ∀ i w t, mafG N tf c i w (mafH N tf c i w t) = t := fun i w t => (htf _).right t trivial ()
  have a7 : ∀ i w, Measure.map (mafH N tf c i w)
      ((volume : Measure ℝ).withDensity fun t => ENNReal.ofReal (Real.exp (mafL N tf c i w t))) = volume := by
    intro i w
    have him : Measurable (mafH N tf c i w) := meas_slice (mafH N tf c i) (a4 i) w
    exact Mass.fibre_of_lawOK (tf (mafRow N c w i)) (htf _) (h1 _) him
  have a8 : ∀ x, (liftBij N.dim (mafBij N tf)).fwd x c = fun i => mafG N tf c i x (x i) := by
    intro x; funext i; exact maf_fwd_apply N tf c x i
  have a9 : ∀ y, ((liftBij N.dim (mafBij N tf)).invLd y c).2
      = ∑ i, mafL N tf c i ((liftBij N.dim (mafBij N tf)).inv y c) (y i) := maf_invLd_sum N tf hN htf hanti c
  have a10 : ∀ x, ((liftBij N.dim (mafBij N tf)).invLd ((liftBij N.dim (mafBij N tf)).fwd x c) c).2
      = -((liftBij N.dim (mafBij N tf)).fwdLd x c).2 := by
    intro x
    have hLl := NetLawful.maf_lawful N hN tf univ univ htf
    exact liftBij_ld_antisym N.dim _ _ (maf_ld_antisym N hN tf univ univ htf) (fun x hx => ⟨hx, fun _ _ => trivial⟩)
      (fun x c hx => (hLl.maps x ⟨hx, fun _ _ => trivial⟩ c).1) x c
  exact ⟨Mass.ar_layer _ c hL (mafG N tf c) (mafH N tf c) (mafL N tf c) a1 a2 a3 a4 a5 a6 a7 a8 a9,
    Mass.ar_layer_invert _ c hL (mafG N tf c) (mafH N tf c) (mafL N tf c) a1 a2 a3 a4 a5 a6 a7 a8 a9 a10⟩

end maf


/-! ## MaskedAutoregressive with the affine transformer and ANY continuous activation (`relu`: the library's default) -/
section mafaffine
variable (N : MafNet ℝ) (loc scale : List ℝ → ℝ)

/-- every parameter row is a continuous list-valued map of the input when the activation is continuous -/
theorem mafRow_contC (hN : N.WellShaped) (hact : Continuous N.act) (c : List ℝ)
    (i : ℕ) (hi : i < N.dim) : ContC (fun w => mafRow N c w i) := by
  have hflat : ContC (fun w : Fin N.dim → ℝ => N.flatParams (List.ofFn w) c) := by
    unfold MafNet.flatParams
    exact contC_mlp N.act hact N.layers _ (contC_input c)
  have hle : (i + 1) * N.numParams ≤ N.dim * N.numParams := Nat.mul_le_mul_right _ hi
  have hlen : ∀ w : Fin N.dim → ℝ, (mafRow N c w i).length = N.numParams := by
    intro w
    rw [mafRow_eq N hN c w i hi, List.length_take, List.length_drop, maf_flatParams_length N hN]
    have : (i + 1) * N.numParams = i * N.numParams + N.numParams := by ring
    omega
  refine ⟨⟨N.numParams, hlen⟩, fun k => ?_⟩
  by_cases hk : k < N.numParams
  · have e : (fun w => nth (mafRow N c w i) k) = fun w => nth (N.flatParams (List.ofFn w) c) (i * N.numParams + k) := by
      funext w
      rw [mafRow_eq N hN c w i hi]
      simp only [nth, List.getElem?_take, List.getElem?_drop, hk, if_true]
    rw [e]; exact hflat.cont _
  · have e : (fun w => nth (mafRow N c w i) k) = fun _ => (0 : ℝ) := by
      funext w; exact nth_of_ge (by rw [hlen]; omega)
    rw [e]; exact continuous_const

theorem affineFamily_lawOK (hs : ∀ ps, scale ps ≠ 0) (ps : List ℝ) :
    Mass.LawOK volume (affineFamily loc scale ps) () :=
  (Mass.affine_invJac _ (hs ps) ()).lawOK

theorem affineFamily_antisym (ps : List ℝ) : (affineFamily loc scale ps).LdAntisym univ :=
  LogDet.affine_ld_antisym _

/-- joint measurability for the affine family over a network with a continuous activation -/
theorem maf_affine_meas (hN : N.WellShaped) (hact : Continuous N.act) (hloc : RowMeas loc) (hscale : RowMeas scale)
    (c : List ℝ) : MafMeas N (affineFamily loc scale) c := by
  have hl : ∀ i, i < N.dim → Measurable fun w : Fin N.dim → ℝ => loc (mafRow N c w i) :=
    fun i hi => hloc _ _ (mafRow_contC N hN hact c i hi)
  have hsc : ∀ i, i < N.dim → Measurable fun w : Fin N.dim → ℝ => scale (mafRow N c w i) :=
    fun i hi => hscale _ _ (mafRow_contC N hN hact c i hi)
  refine ⟨fun i hi => ?_, fun i hi => ?_, fun i hi => ?_⟩
  · have e : (fun p : (Fin N.dim → ℝ) × ℝ => (affineFamily loc scale (mafRow N c p.1 i)).fwd p.2 ())
        = fun p => p.2 * scale (mafRow N c p.1 i) + loc (mafRow N c p.1 i) := by
      funext p; simp only [affineFamily, Affine.toBij, Affine.transform]
    rw [e]
    exact (measurable_snd.mul ((hsc i hi).comp measurable_fst)).add ((hl i hi).comp measurable_fst)
  · have e : (fun p : (Fin N.dim → ℝ) × ℝ => (affineFamily loc scale (mafRow N c p.1 i)).inv p.2 ())
        = fun p => (p.2 - loc (mafRow N c p.1 i)) / scale (mafRow N c p.1 i) := by
      funext p; simp only [affineFamily, Affine.toBij, Affine.inverse]
    rw [e]
    exact (measurable_snd.sub ((hl i hi).comp measurable_fst)).div ((hsc i hi).comp measurable_fst)
  · have e : (fun p : (Fin N.dim → ℝ) × ℝ => ((affineFamily loc scale (mafRow N c p.1 i)).invLd p.2 ()).2)
        = fun p => -Real.log |scale (mafRow N c p.1 i)| := by
      funext p; simp [affineFamily, Affine.toBij, Affine.inverse_and_log_det]
    rw [e]
    exact (Real.measurable_log.comp (continuous_abs.measurable.comp ((hsc i hi).comp measurable_fst))).neg

/-- **the default masked autoregressive layer is mass preserving and its sampler follows its density**: every well-shaped
masked network with a CONTINUOUS activation (`relu` included — no differentiability), location / scale measurable
functions of the parameter row (`ps[0] + a`, `softplus(ps[1] + b)`), non-vanishing scale, every condition. -/
theorem maf_affine_layer_meas (hN : N.WellShaped) (hact : Continuous N.act) (hloc : RowMeas loc)
    (hscale : RowMeas scale) (hs : ∀ ps, scale ps ≠ 0) (c : List ℝ) :
    LayerOK (liftBij N.dim (mafBij N (affineFamily loc scale))) c ∧
    LayerOK (Gen.Invert.mk (liftBij N.dim (mafBij N (affineFamily loc scale)))).toBij c :=
  maf_layer_meas N (affineFamily loc scale) hN (affineFamily_lawful loc scale hs) (affineFamily_antisym loc scale)
    (affineFamily_lawOK loc scale hs) c (maf_affine_meas N loc scale hN hact hloc hscale c)

end mafaffine


/-! ## Coupling, any transformer family -/
section coupling
variable (d n : ℕ) (cnd : List ℝ → List ℝ) (tf : List ℝ → Bij ℝ Unit ℝ)

/-- joint measurability of "parameter row of transformed coordinate `k` at the point, then the scalar transformer" -/
structure CouplingMeas (c : List ℝ) : Prop where
  fwd : ∀ k, k < n - d → Measurable fun p : (Fin n → ℝ) × ℝ => (tf (rowAt d n cnd c p.1 k)).fwd p.2 ()
  inv : ∀ k, k < n - d → Measurable fun p : (Fin n → ℝ) × ℝ => (tf (rowAt d n cnd c p.1 k)).inv p.2 ()
  ld : ∀ k, k < n - d → Measurable fun p : (Fin n → ℝ) × ℝ => ((tf (rowAt d n cnd c p.1 k)).invLd p.2 ()).2

/-- one direction of the layer in coordinates, for any scalar map family `T` -/
theorem coupling_apply (T : List ℝ → ℝ → ℝ) (c : List ℝ) (w : Fin n → ℝ) (i : Fin n) :
    nth (couplingTransform d cnd T (List.ofFn w) c) i =
      if (i : ℕ) < d then w i else T (rowAt d n cnd c w (i - d)) (w i) := by
  split
  · rename_i hid
    simp only [nth]
    rw [coupling_out_first d cnd _ _ c i hid]
    simp
  · rename_i hid
    obtain ⟨ps, h1, h2⟩ := coupling_getElem? d cnd T (List.ofFn w) c i (by omega) (by simp)
    simp only [List.length_ofFn] at h1
    rw [rowAt_spec d n cnd c w (i - d) (by have := i.2; omega)] at h1
    have : ps = rowAt d n cnd c w (i - d) := (Option.some.inj h1).symm
    subst this
    simp only [nth, h2]
    simp

/-- the rows look at the first block only -/
theorem rowAt_agree (c : List ℝ) (w w' : Fin n → ℝ) (h : AgreeBelow d w w') (k : ℕ) :
    rowAt d n cnd c w k = rowAt d n cnd c w' k := by
  have : (List.ofFn w).take d = (List.ofFn w').take d := by
    apply List.ext_getElem (by simp)
    intro j h1 h2
    simp only [List.length_take, List.length_ofFn] at h1
    simp only [List.getElem_take, List.getElem_ofFn]
    exact h ⟨j, by omega⟩ (by simp; omega)
  simp only [rowAt, this]

theorem coupling_lift_lawful (htf : ∀ ps, (tf ps).Lawful univ univ) :
    (liftBij n (couplingBij d cnd tf)).Lawful univ univ := by
  have hL := NetLawful.coupling_lawful d cnd tf univ univ htf
  refine liftBij_lawful n _ _ _ hL (fun x _ t _ => trivial) (fun x _ t _ => trivial) ?_ ?_
  · intro x c hx
    show (couplingTransform d cnd _ x c).length = n
    rw [NetLawful.coupling_length', hx]
  · intro x c hx
    show (couplingTransform d cnd _ x c).length = n
    rw [NetLawful.coupling_length', hx]

noncomputable def cplG (c : List ℝ) (i : Fin n) (w : Fin n → ℝ) (t : ℝ) : ℝ :=
  if (i : ℕ) < d then t else (tf (rowAt d n cnd c w (i - d))).fwd t ()
noncomputable def cplH (c : List ℝ) (i : Fin n) (w : Fin n → ℝ) (t : ℝ) : ℝ :=
  if (i : ℕ) < d then t else (tf (rowAt d n cnd c w (i - d))).inv t ()
noncomputable def cplL (c : List ℝ) (i : Fin n) (w : Fin n → ℝ) (t : ℝ) : ℝ :=
  if (i : ℕ) < d then 0 else ((tf (rowAt d n cnd c w (i - d))).invLd t ()).2

theorem coupling_fwd_apply (c : List ℝ) (w : Fin n → ℝ) (i : Fin n) :
    (liftBij n (couplingBij d cnd tf)).fwd w c i = cplG d n cnd tf c i w (w i) :=
  coupling_apply d n cnd (fun ps t => (tf ps).fwd t ()) c w i

theorem coupling_inv_apply (c : List ℝ) (w : Fin n → ℝ) (i : Fin n) :
    (liftBij n (couplingBij d cnd tf)).inv w c i = cplH d n cnd tf c i w (w i) :=
  coupling_apply d n cnd (fun ps t => (tf ps).inv t ()) c w i

/-- the log-det returned with the inverse as a sum over ALL coordinates (`0` on the first block) -/
theorem coupling_invLd_sum (hdn : d ≤ n) (c : List ℝ) (y : Fin n → ℝ) :
    ((liftBij n (couplingBij d cnd tf)).invLd y c).2
      = ∑ i : Fin n, cplL d n cnd tf c i ((liftBij n (couplingBij d cnd tf)).inv y c) (y i) := by
  set x := (liftBij n (couplingBij d cnd tf)).inv y c with hx
  -- the preimage has the same first block, hence the same rows
  have hxy : AgreeBelow d x y := by
    intro j hj
    rw [hx, coupling_inv_apply]; simp [cplH, hj]
  set rows := reshapeRows (n - d) (cnd ((List.ofFn y).take d ++ c)) with hrows
  have hret : ((liftBij n (couplingBij d cnd tf)).invLd y c).2
      = ∑ k ∈ Finset.range (n - d),
          nth (List.zipWith (fun ps t => ((tf ps).invLd t ()).2) rows ((List.ofFn y).drop d)) k := by
    show (vmapInvLd _ _).2 = _
    simp only [vmapInvLd, List.length_ofFn]
    rw [List.zipWith_map_left, jsum_eq_sum, list_sum_range]
    congr 1
    simp [reshapeRows_length]
  rw [hret]
  have hsplit : ∑ i : Fin n, cplL d n cnd tf c i x (y i)
      = ∑ k ∈ Finset.range (n - d),
          (if hk : d + k < n then ((tf (rowAt d n cnd c x k)).invLd (y ⟨d + k, hk⟩) ()).2 else 0) := by
    rw [← Fin.sum_univ_eq_sum_range (fun k => if hk : k < n then cplL d n cnd tf c ⟨k, hk⟩ x (y ⟨k, hk⟩) else 0) n
      |>.symm.trans (Finset.sum_congr rfl fun i _ => by simp [i.2])]
    have hn : Finset.range n = Finset.range (d + (n - d)) := by congr 1; omega
    rw [hn, Finset.sum_range_add]
    have h0 : ∑ k ∈ Finset.range d, (if hk : k < n then cplL d n cnd tf c ⟨k, hk⟩ x (y ⟨k, hk⟩) else 0) = 0 := by
      apply Finset.sum_eq_zero
      intro k hk
      have hkd := Finset.mem_range.mp hk
      simp [cplL, hkd]
    rw [h0, zero_add]
    apply Finset.sum_congr rfl
    intro k hk
    have hk' := Finset.mem_range.mp hk
    have h1 : d + k < n := by omega
    simp [cplL, h1]
  rw [hsplit]
  apply Finset.sum_congr rfl
  intro k hk
  have hk' : k < n - d := Finset.mem_range.mp hk
  have hi : d + k < n := by omega
  have hps : rows[k]? = some (rowAt d n cnd c y k) := rowAt_spec d n cnd c y k hk'
  have hyk : ((List.ofFn y).drop d)[k]? = some (y ⟨d + k, hi⟩) := by
    rw [List.getElem?_drop]; simp [hi]
  simp only [nth]
  rw [NetLawful.getElem?_zipWith' _ _ _ k _ _ hps hyk, dif_pos hi, rowAt_agree d n cnd c x y hxy k]
  rfl

/-- **`Mass.MassOK` and `Mass.LawOK` for a coupling layer** — every conditioner FUNCTION (nothing but measurability of the
composite is asked: `relu` networks qualify), every first-block size `d ≤ n`, every scalar transformer family that is
lawful on `ℝ` and satisfies the one-dimensional layer fact (affine, rational-quadratic spline, …), every condition. -/
theorem coupling_layer_meas (hdn : d ≤ n) (htf : ∀ ps, (tf ps).Lawful univ univ)
    (hanti : ∀ ps, (tf ps).LdAntisym univ)
    (h1 : ∀ ps, Mass.LawOK volume (tf ps) ()) (c : List ℝ) (hm : CouplingMeas d n cnd tf c) :
    LayerOK (liftBij n (couplingBij d cnd tf)) c ∧ LayerOK (Gen.Invert.mk (liftBij n (couplingBij d cnd tf))).toBij c := by
  have hL := coupling_lift_lawful d n cnd tf htf
  have hbelow : ∀ (i : Fin n) (w w' : Fin n → ℝ), ¬ (i : ℕ) < d → AgreeBelow i.val w w' → AgreeBelow d w w' :=
    fun i w w' hid h j hj => h j (by omega)
  have a1 : ∀ (i : Fin n) w w', AgreeBelow i.val w w' → cplH d n cnd tf c i w = cplH d n cnd tf c i w' := by
    intro i w w' h; funext t
    by_cases hid : (i : ℕ) < d
    · simp [cplH, hid]
    · simp only [cplH, hid, if_false, rowAt_agree d n cnd c w w' (hbelow i w w' hid h)]
  have a2 : ∀ (i : Fin n) w w', AgreeBelow i.val w w' → cplL d n cnd tf c i w = cplL d n cnd tf c i w' := by
    intro i w w' h; funext t
    by_cases hid : (i : ℕ) < d
    · simp [cplL, hid]
    · simp only [cplL, hid, if_false, rowAt_agree d n cnd c w w' (hbelow i w w' hid h)]
  have a3 : ∀ i, Measurable fun p : (Fin n → ℝ) × ℝ => cplG d n cnd tf c i p.1 p.2 := by
    intro i
    by_cases hid : (i : ℕ) < d
    · simp only [cplG, hid, if_true]; exact measurable_snd
    · simp only [cplG, hid, if_false]; exact hm.fwd _ (by have := i.2; omega)
  have a4 : ∀ i, Measurable fun p : (Fin n → ℝ) × ℝ => cplH d n cnd tf c i p.1 p.2 := by
    intro i
    by_cases hid : (i : ℕ) < d
    · simp only [cplH, hid, if_true]; exact measurable_snd
    · simp only [cplH, hid, if_false]; exact hm.inv _ (by have := i.2; omega)
  have a5 : ∀ i, Measurable fun p : (Fin n → ℝ) × ℝ => cplL d n cnd tf c i p.1 p.2 := by
    intro i
    by_cases hid : (i : ℕ) < d
    · simp only [cplL, hid, if_true]; exact measurable_const
    · simp only [cplL, hid, if_false]; exact hm.ld _ (by have := i.2; omega)
  have a6 : ∀ i w t, cplG d n cnd tf c i w (cplH d n cnd tf c i w t) = t := by
    intro i w t
    by_cases hid : (i : ℕ) < d
    · simp [cplG, cplH, hid]
    · simp only [cplG, cplH, hid, if_false]; exact (htf _).right t trivial ()
  have a7 : ∀ i w, Measure.map (cplH d n cnd tf c i w)
      ((volume : Measure ℝ).withDensity fun t => ENNReal.ofReal (Real.exp (cplL d n cnd tf c i w t))) = volume := by
    intro i w
    by_cases hid : (i : ℕ) < d
    · have e1 : cplH d n cnd tf c i w = id := by funext t; simp [cplH, hid]
      have e2 : (fun t => ENNReal.ofReal (Real.exp (cplL d n cnd tf c i w t))) = fun _ => 1 := by
        funext t; simp [cplL, hid]
      rw [e1, e2]
      have : (volume : Measure ℝ).withDensity (fun _ => (1 : ENNReal)) = volume := withDensity_one
      rw [this, Measure.map_id]
    · have him : Measurable (cplH d n cnd tf c i w) := meas_slice (cplH d n cnd tf c i) (a4 i) w
      have e1 : cplH d n cnd tf c i w = fun t => (tf (rowAt d n cnd c w (i - d))).inv t () := by
        funext t; simp [cplH, hid]
      have e2 : (fun t => ENNReal.ofReal (Real.exp (cplL d n cnd tf c i w t)))
          = fun t => ENNReal.ofReal (Real.exp ((tf (rowAt d n cnd c w (i - d))).invLd t ()).2) := by
        funext t; simp [cplL, hid]
      rw [e1] at him
      rw [e1, e2]
      exact Mass.fibre_of_lawOK _ (htf _) (h1 _) him
  have a8 : ∀ x, (liftBij n (couplingBij d cnd tf)).fwd x c = fun i => cplG d n cnd tf c i x (x i) := by
    intro x; funext i; exact coupling_fwd_apply d n cnd tf c x i
  have a10 : ∀ x, ((liftBij n (couplingBij d cnd tf)).invLd ((liftBij n (couplingBij d cnd tf)).fwd x c) c).2
      = -((liftBij n (couplingBij d cnd tf)).fwdLd x c).2 := by
    intro x
    refine liftBij_ld_antisym n _ _ (coupling_ld_antisym d cnd tf univ hanti) (fun x _ t _ => trivial) ?_ x c
    intro x c hx
    show (couplingTransform d cnd _ x c).length = n
    rw [NetLawful.coupling_length', hx]
  exact ⟨Mass.ar_layer _ c hL (cplG d n cnd tf c) (cplH d n cnd tf c) (cplL d n cnd tf c) a1 a2 a3 a4 a5 a6 a7 a8
      (coupling_invLd_sum d n cnd tf hdn c),
    Mass.ar_layer_invert _ c hL (cplG d n cnd tf c) (cplH d n cnd tf c) (cplL d n cnd tf c) a1 a2 a3 a4 a5 a6 a7 a8
      (coupling_invLd_sum d n cnd tf hdn c) a10⟩

end coupling


/-! ## Coupling with the affine transformer and ANY continuous conditioner (`relu` networks: the library's default) -/
section couplingaffine
variable (d n np : ℕ) (cnd : List ℝ → List ℝ) (loc scale : List ℝ → ℝ)

/-- row `k` of a continuous conditioner of constant output length `(n - d) * np` is continuous -/
theorem rowAt_contC (c : List ℝ) (hc : ContC (fun w : Fin n → ℝ => cnd ((List.ofFn w).take d ++ c)))
    (hlen : ∀ z, (cnd z).length = (n - d) * np) (k : ℕ) (hk : k < n - d) :
    ContC (fun w : Fin n → ℝ => rowAt d n cnd c w k) := by
  have hrow : ∀ w : Fin n → ℝ, rowAt d n cnd c w k
      = ((cnd ((List.ofFn w).take d ++ c)).drop (k * np)).take np := by
    intro w
    have h1 := rowAt_spec d n cnd c w k hk
    rw [reshapeRows_getElem? _ np _ (hlen _) k hk] at h1
    exact (Option.some.inj h1).symm
  have hle : (k + 1) * np ≤ (n - d) * np := Nat.mul_le_mul_right _ hk
  have hl : ∀ w : Fin n → ℝ, (rowAt d n cnd c w k).length = np := by
    intro w
    rw [hrow, List.length_take, List.length_drop, hlen]
    have : (k + 1) * np = k * np + np := by ring
    omega
  refine ⟨⟨np, hl⟩, fun j => ?_⟩
  by_cases hj : j < np
  · have e : (fun w => nth (rowAt d n cnd c w k) j)
        = fun w : Fin n → ℝ => nth (cnd ((List.ofFn w).take d ++ c)) (k * np + j) := by
      funext w
      rw [hrow]
      simp only [nth, List.getElem?_take, List.getElem?_drop, hj, if_true]
    rw [e]; exact hc.cont _
  · have e : (fun w => nth (rowAt d n cnd c w k) j) = fun _ => (0 : ℝ) := by
      funext w; exact nth_of_ge (by rw [hl]; omega)
    rw [e]; exact continuous_const

/-- joint measurability for the affine family over a continuous conditioner -/
theorem coupling_affine_meas (c : List ℝ) (hc : ContC (fun w : Fin n → ℝ => cnd ((List.ofFn w).take d ++ c)))
    (hlen : ∀ z, (cnd z).length = (n - d) * np) (hloc : RowMeas loc) (hscale : RowMeas scale) :
    CouplingMeas d n cnd (affineFamily loc scale) c := by
  have hl : ∀ k, k < n - d → Measurable fun w : Fin n → ℝ => loc (rowAt d n cnd c w k) :=
    fun k hk => hloc _ _ (rowAt_contC d n np cnd c hc hlen k hk)
  have hsc : ∀ k, k < n - d → Measurable fun w : Fin n → ℝ => scale (rowAt d n cnd c w k) :=
    fun k hk => hscale _ _ (rowAt_contC d n np cnd c hc hlen k hk)
  refine ⟨fun k hk => ?_, fun k hk => ?_, fun k hk => ?_⟩
  · have e : (fun p : (Fin n → ℝ) × ℝ => (affineFamily loc scale (rowAt d n cnd c p.1 k)).fwd p.2 ())
        = fun p => p.2 * scale (rowAt d n cnd c p.1 k) + loc (rowAt d n cnd c p.1 k) := by
      funext p; simp only [affineFamily, Affine.toBij, Affine.transform]
    rw [e]
    exact (measurable_snd.mul ((hsc k hk).comp measurable_fst)).add ((hl k hk).comp measurable_fst)
  · have e : (fun p : (Fin n → ℝ) × ℝ => (affineFamily loc scale (rowAt d n cnd c p.1 k)).inv p.2 ())
        = fun p => (p.2 - loc (rowAt d n cnd c p.1 k)) / scale (rowAt d n cnd c p.1 k) := by
      funext p; simp only [affineFamily, Affine.toBij, Affine.inverse]
    rw [e]
    exact (measurable_snd.sub ((hl k hk).comp measurable_fst)).div ((hsc k hk).comp measurable_fst)
  · have e : (fun p : (Fin n → ℝ) × ℝ => ((affineFamily loc scale (rowAt d n cnd c p.1 k)).invLd p.2 ()).2)
        = fun p => -Real.log |scale (rowAt d n cnd c p.1 k)| := by
      funext p; simp [affineFamily, Affine.toBij, Affine.inverse_and_log_det]
    rw [e]
    exact (Real.measurable_log.comp (continuous_abs.measurable.comp ((hsc k hk).comp measurable_fst))).neg

/-- a conditioner that IS a multilayer perceptron with a continuous activation (any depth, any shapes) -/
theorem mlp_conditioner_contC (act : ℝ → ℝ) (hact : Continuous act) (Ls : List (MaskedLinear ℝ)) (c : List ℝ) :
    ContC (fun w : Fin n → ℝ => mlpForward act Ls ((List.ofFn w).take d ++ c)) :=
  contC_mlp act hact Ls _ (contC_take d c)

/-- **the default coupling layer is mass preserving and its sampler follows its density, in both orientations**: every
conditioner that is continuous in the first block (`relu` networks included — no differentiability) with output length
`(n - d) · np`, location / scale measurable functions of the parameter row, non-vanishing scale, every `d ≤ n`, every
condition. -/
theorem coupling_affine_layer_meas (hdn : d ≤ n) (c : List ℝ)
    (hc : ContC (fun w : Fin n → ℝ => cnd ((List.ofFn w).take d ++ c)))
    (hlen : ∀ z, (cnd z).length = (n - d) * np) (hloc : RowMeas loc) (hscale : RowMeas scale)
    (hs : ∀ ps, scale ps ≠ 0) :
    LayerOK (liftBij n (couplingBij d cnd (affineFamily loc scale))) c ∧
    LayerOK (Gen.Invert.mk (liftBij n (couplingBij d cnd (affineFamily loc scale)))).toBij c :=
  coupling_layer_meas d n cnd (affineFamily loc scale) hdn (affineFamily_lawful loc scale hs)
    (affineFamily_antisym loc scale) (affineFamily_lawOK loc scale hs) c
    (coupling_affine_meas d n np cnd loc scale c hc hlen hloc hscale)

end couplingaffine

end NetMass
