import Flowjaxv.Proofs.MassChain
import Flowjaxv.Proofs.NetMassSpline
import Flowjaxv.Proofs.PermMass
import Flowjaxv.Proofs.Flows
import Flowjaxv.Proofs.TriangularGen
import Flowjaxv.Proofs.Wrappers
/-!
# C04 in `d` dimensions for `triangular_spline_flow`: elementwise layers, TriangularAffine, additive conditions, chains

`NetMass.VLayer n b c` — a list-level bijection `b` (the type of every premade flow layer) keeps vectors of length `n`, its
`…_and_log_det` methods return the plain methods' point, and read in coordinates (`NetMass.liftBij n b`) BOTH `b` and the generated
`Invert(b)` supply the two layer facts (`Mass.MassOK volume`, `Mass.LawOK volume`) at condition `c`.

* `VLayer.chain`, `VLayer.invert`, `VLayer.orient` — closed under the generated `Chain` of any list, `Invert`, the `invert` flag;
* `elementwise_vlayer` — the elementwise lifting `Bij.elementwise` of ANY family of scalar bijections, each lawful on ℝ, log-det
  antisymmetric, with the one-dimensional layer fact and measurable inverse / inverse log-det (the trivial-locality instance of
  `Mass.ar_layer` / `ar_layer_invert`); instances: `LeakyTanh(m, (n,))` every `m > 0`, `Vmap` of well-formed splines,
  `AdditiveCondition(Linear)`;
* `triangular_vlayer` — `TriangularAffine`: constant Jacobian `A`, `det A = ∏ diag ≠ 0`; also for the GENERATED methods
  (`TriGen.toBij`, every raw parameter value);
* `flip_vlayer`, `permute_vlayer`, `add_default_permute_vlayer`;
* `triSplineCore_vlayer`, `triSplineLayer_vlayer`, `triSplineFlow_vlayer` — every layer and the whole generated factory body.
-/
set_option linter.unusedSectionVars false
set_option linter.unusedVariables false
open Gen Set MeasureTheory Flows FlowsPf MasksPf

namespace NetMass
variable {n : ℕ} {C : Type}

/-- a list-level layer on vectors of length `n` that supplies the layer facts in both orientations at condition `c` -/
structure VLayer (n : ℕ) (b : Bij (List ℝ) C ℝ) (c : C) : Prop where
  len_fwd : ∀ x : List ℝ, x.length = n → (b.fwd x c).length = n
  len_inv : ∀ y : List ℝ, y.length = n → (b.inv y c).length = n
  fwdLd_fst : ∀ x, (b.fwdLd x c).1 = b.fwd x c
  invLd_fst : ∀ y, (b.invLd y c).1 = b.inv y c
  ok : Mass.BiLayer volume (liftBij n b) c

/-- what `LayerOK` says, for both orientations -/
theorem VLayer.layerOK {b : Bij (List ℝ) C ℝ} {c : C} (h : VLayer n b c) :
    LayerOK (liftBij n b) c ∧ LayerOK (Gen.Invert.mk (liftBij n b)).toBij c := h.ok

theorem VLayer.congr {a b : Bij (List ℝ) C ℝ} {c : C} (h : VLayer n a c) (e : b.Equiv a) : VLayer n b c := by
  refine ⟨fun x hx => by rw [e.fwd]; exact h.len_fwd x hx, fun y hy => by rw [e.inv]; exact h.len_inv y hy,
    fun x => by rw [e.fwdLd, e.fwd]; exact h.fwdLd_fst x, fun y => by rw [e.invLd, e.inv]; exact h.invLd_fst y, ?_, ?_⟩
  · exact h.ok.1.congr (fun x => by simp only [liftBij, e.fwd]) (fun y => by simp only [liftBij, e.inv])
      (fun y => by simp only [liftBij, e.invLd])
  · exact h.ok.2.congr (fun x => by simp only [Invert.toBij, Invert.transform, liftBij, e.inv])
      (fun y => by simp only [Invert.toBij, Invert.inverse, liftBij, e.fwd])
      (fun y => by simp only [Invert.toBij, Invert.inverse_and_log_det, liftBij, e.fwdLd])

/-- the generated `Invert` -/
theorem VLayer.invert {b : Bij (List ℝ) C ℝ} {c : C} (h : VLayer n b c) : VLayer n (Invert.mk b).toBij c :=
  ⟨h.len_inv, h.len_fwd, h.invLd_fst, h.fwdLd_fst,
    h.ok.2.congr (fun _ => rfl) (fun _ => rfl) (fun _ => rfl), h.ok.1.congr (fun _ => rfl) (fun _ => rfl) (fun _ => rfl)⟩

theorem VLayer.orient {b : Bij (List ℝ) C ℝ} {c : C} (h : VLayer n b c) (invert : Bool) :
    VLayer n (if invert then invertOf b else b) c := by
  cases invert
  · simpa using h
  · simpa [invertOf] using h.invert

/-! ## the generated `Chain` -/

theorem chain_len_fwd (bs : List (Bij (List ℝ) C ℝ)) (c : C)
    (h : ∀ b ∈ bs, ∀ x : List ℝ, x.length = n → (b.fwd x c).length = n) :
    ∀ x : List ℝ, x.length = n → ((Chain.mk bs).toBij.fwd x c).length = n := by
  induction bs with
  | nil => intro x hx; simpa [Chain.toBij] using hx
  | cons b bs ih =>
    intro x hx
    simp only [Chain.toBij, Chain.transform_cons]
    exact ih (fun b' hb' => h b' (List.mem_cons_of_mem _ hb')) _ (h b (List.mem_cons_self ..) x hx)

theorem chain_len_inv (bs : List (Bij (List ℝ) C ℝ)) (c : C)
    (h : ∀ b ∈ bs, ∀ y : List ℝ, y.length = n → (b.inv y c).length = n) :
    ∀ y : List ℝ, y.length = n → ((Chain.mk bs).toBij.inv y c).length = n := by
  induction bs with
  | nil => intro y hy; simpa [Chain.toBij] using hy
  | cons b bs ih =>
    intro y hy
    simp only [Chain.toBij, Chain.inverse_cons]
    exact h b (List.mem_cons_self ..) _ (ih (fun b' hb' => h b' (List.mem_cons_of_mem _ hb')) y hy)

/-- one orientation: the layer facts of `Chain(bs)` read in coordinates, from those of the members -/
theorem chain_lift_layer (bs : List (Bij (List ℝ) C ℝ)) (c : C)
    (hf : ∀ b ∈ bs, ∀ x : List ℝ, x.length = n → (b.fwd x c).length = n)
    (hi : ∀ b ∈ bs, ∀ y : List ℝ, y.length = n → (b.inv y c).length = n)
    (hfst : ∀ b ∈ bs, ∀ y, (b.invLd y c).1 = b.inv y c)
    (h : ∀ b ∈ bs, Mass.Layer volume (liftBij n b) c) :
    Mass.Layer volume (liftBij n (Chain.mk bs).toBij) c := by
  induction bs using List.reverseRecOn with
  | nil =>
    have h0 := Mass.Layer.chain_nil (X := Fin n → ℝ) (C := C) volume c
    refine h0.congr (fun x => ?_) (fun y => ?_) (fun y => ?_)
    · funext i; simp [liftBij, Chain.toBij, nth_ofFn]
    · funext i; simp [liftBij, Chain.toBij, nth_ofFn]
    · simp only [liftBij, Chain.toBij, Chain.ild_nil]
      congr 1; funext i; exact nth_ofFn _ i
  | append_singleton bs b ih =>
    have hb := h b (by simp)
    have ih' := ih (fun b' hb' => hf b' (List.mem_append_left _ hb')) (fun b' hb' => hi b' (List.mem_append_left _ hb'))
      (fun b' hb' => hfst b' (List.mem_append_left _ hb')) (fun b' hb' => h b' (List.mem_append_left _ hb'))
    obtain ⟨h1, h2, h3⟩ := Mass.Chain.snoc_facts bs b c (hfst b (by simp))
    have hlf := chain_len_fwd (n := n) bs c (fun b' hb' => hf b' (List.mem_append_left _ hb'))
    refine Mass.Layer.comp2 ih' hb (fun y => ?_) (fun x => ?_) (fun y => ?_) (fun y => ?_)
    · show (fun i : Fin n => nth ((Chain.mk (bs ++ [b])).toBij.invLd (List.ofFn y) c).1 i)
        = fun i : Fin n => nth ((Chain.mk (bs ++ [b])).toBij.inv (List.ofFn y) c) i
      have := Chain.ild_fst (bs ++ [b]) c (fun b' hb' y => hfst b' hb' y) (List.ofFn y)
      simp only [Chain.toBij]; rw [this]
    · funext i
      show nth ((Chain.mk (bs ++ [b])).toBij.fwd (List.ofFn x) c) i
        = nth (b.fwd (List.ofFn fun j => nth ((Chain.mk bs).toBij.fwd (List.ofFn x) c) j) c) i
      rw [h1, ofFn_nth _ n (hlf _ (by simp))]
    · funext i
      show nth ((Chain.mk (bs ++ [b])).toBij.inv (List.ofFn y) c) i
        = nth ((Chain.mk bs).toBij.inv (List.ofFn fun j => nth (b.inv (List.ofFn y) c) j) c) i
      rw [h2, ofFn_nth _ n (hi b (by simp) _ (by simp))]
    · show ((Chain.mk (bs ++ [b])).toBij.invLd (List.ofFn y) c).2
        = (b.invLd (List.ofFn y) c).2
          + ((Chain.mk bs).toBij.invLd (List.ofFn fun j => nth (b.inv (List.ofFn y) c) j) c).2
      rw [h3, ofFn_nth _ n (hi b (by simp) _ (by simp))]

/-- **the generated `Chain` of any list of such layers is such a layer** (both orientations) -/
theorem VLayer.chain (bs : List (Bij (List ℝ) C ℝ)) (c : C) (h : ∀ b ∈ bs, VLayer n b c) :
    VLayer n (Chain.mk bs).toBij c := by
  have h1 : Mass.Layer volume (liftBij n (Chain.mk bs).toBij) c :=
    chain_lift_layer bs c (fun b hb => (h b hb).len_fwd) (fun b hb => (h b hb).len_inv) (fun b hb => (h b hb).invLd_fst)
      (fun b hb => (h b hb).ok.1)
  have h2 : Mass.Layer volume (liftBij n (Chain.mk (bs.reverse.map Mass.invB)).toBij) c := by
    have hm : ∀ b' ∈ bs.reverse.map Mass.invB, ∃ b ∈ bs, b' = (Invert.mk b).toBij := by
      intro b' hb'
      obtain ⟨b, hb, rfl⟩ := List.mem_map.mp hb'
      exact ⟨b, List.mem_reverse.mp hb, rfl⟩
    refine chain_lift_layer _ c ?_ ?_ ?_ ?_
    · intro b' hb'; obtain ⟨b, hb, rfl⟩ := hm b' hb'; exact (h b hb).len_inv
    · intro b' hb'; obtain ⟨b, hb, rfl⟩ := hm b' hb'; exact (h b hb).len_fwd
    · intro b' hb'; obtain ⟨b, hb, rfl⟩ := hm b' hb'; exact (h b hb).fwdLd_fst
    · intro b' hb'; obtain ⟨b, hb, rfl⟩ := hm b' hb'
      exact (h b hb).ok.2.congr (fun _ => rfl) (fun _ => rfl) (fun _ => rfl)
  have e := Mass.invert_chain_equiv bs
  refine ⟨chain_len_fwd bs c (fun b hb => (h b hb).len_fwd), chain_len_inv bs c (fun b hb => (h b hb).len_inv),
    fun x => Chain.tld_fst bs c (fun b hb x => (h b hb).fwdLd_fst x) x,
    fun y => Chain.ild_fst bs c (fun b hb y => (h b hb).invLd_fst y) y, h1, ?_⟩
  refine h2.congr (fun x => ?_) (fun y => ?_) (fun y => ?_)
  · show (fun i : Fin n => nth ((Invert.mk (Chain.mk bs).toBij).toBij.fwd (List.ofFn x) c) i) = _
    rw [e.fwd]; rfl
  · show (fun i : Fin n => nth ((Invert.mk (Chain.mk bs).toBij).toBij.inv (List.ofFn y) c) i) = _
    rw [e.inv]; rfl
  · show ((fun i : Fin n => nth ((Invert.mk (Chain.mk bs).toBij).toBij.invLd (List.ofFn y) c).1 i),
      ((Invert.mk (Chain.mk bs).toBij).toBij.invLd (List.ofFn y) c).2) = _
    rw [e.invLd]; rfl

/-! ## elementwise layers -/

/-- the one-dimensional layer fact is the fibre hypothesis of `Mass.ar_layer`, at any condition -/
theorem fibre_of_lawOK' (τ : Bij ℝ C ℝ) (c : C) (hL : τ.Lawful univ univ) (h : Mass.LawOK volume τ c)
    (him : Measurable fun y => τ.inv y c) :
    Measure.map (fun y => τ.inv y c)
      ((volume : Measure ℝ).withDensity fun t => ENNReal.ofReal (Real.exp (τ.invLd t c).2)) = volume := by
  have h1 := h.law (fun _ => 1)
  simp only [ENNReal.ofReal_one, one_mul] at h1
  have h0 : (volume : Measure ℝ).withDensity (fun _ => (1 : ENNReal)) = volume := withDensity_one
  rw [h0] at h1
  rw [← h1, Measure.map_map him h.fwd_meas]
  have : ((fun y => τ.inv y c) ∘ fun x => τ.fwd x c) = id := by
    funext x; exact hL.left x trivial c
  rw [this, Measure.map_id]

theorem elementwise_vec_lawful' (τ : Fin n → Bij ℝ C ℝ) (hL : ∀ i, (τ i).Lawful univ univ) :
    (Bij.elementwise (List.ofFn τ)).Lawful (Vec n) (Vec n) := by
  have := elementwise_vec_lawful (C := C) (bs := List.ofFn τ) (by
    intro b hb
    obtain ⟨i, rfl⟩ := (List.mem_ofFn' τ b).mp hb
    exact hL i)
  simpa using this

/-- **every elementwise layer**: coordinate `i` goes through the scalar bijection `τ i`, the log-det is the sum.  Hypotheses per
coordinate: lawful on ℝ, log-det antisymmetric, the ONE-dimensional layer fact, measurable inverse and inverse log-det.
Conclusion: the layer facts in `n` dimensions, both orientations. -/
theorem elementwise_vlayer (τ : Fin n → Bij ℝ C ℝ) (c : C) (hL : ∀ i, (τ i).Lawful univ univ)
    (hanti : ∀ i, (τ i).LdAntisym univ) (h1 : ∀ i, Mass.LawOK volume (τ i) c)
    (hmi : ∀ i, Measurable fun y => (τ i).inv y c) (hml : ∀ i, Measurable fun y => ((τ i).invLd y c).2) :
    VLayer n (Bij.elementwise (List.ofFn τ)) c := by
  have hLv := elementwise_vec_lawful' τ hL
  have hLl : (liftBij n (Bij.elementwise (List.ofFn τ))).Lawful univ univ :=
    liftBij_lawful n _ _ _ hLv (fun _ h => h) (fun _ h => h) (fun x c hx => hLv.maps x hx c)
      (fun y c hy => hLv.mapsInv y hy c)
  have hfwd : ∀ x, (liftBij n (Bij.elementwise (List.ofFn τ))).fwd x c = fun i => (τ i).fwd (x i) c := by
    intro x; funext i
    show nth ((Bij.elementwise (List.ofFn τ)).fwd (List.ofFn x) c) i = _
    rw [LogDet.elementwise_fwd_ofFn, nth_ofFn]
  have hinv : ∀ y, (liftBij n (Bij.elementwise (List.ofFn τ))).inv y c = fun i => (τ i).inv (y i) c := by
    intro y; funext i
    show nth ((Bij.elementwise (List.ofFn τ)).inv (List.ofFn y) c) i = _
    simp only [Bij.elementwise]
    rw [LogDet.zipWith_ofFn, nth_ofFn]
  have hld : ∀ y, ((liftBij n (Bij.elementwise (List.ofFn τ))).invLd y c).2
      = ∑ i, (fun (i : Fin n) (_ : Fin n → ℝ) t => ((τ i).invLd t c).2) i
          ((liftBij n (Bij.elementwise (List.ofFn τ))).inv y c) (y i) := by
    intro y
    show ((Bij.elementwise (List.ofFn τ)).invLd (List.ofFn y) c).2 = _
    rw [LogDet.elementwise_inv_ld_sum, LogDet.zipWith_ofFn, List.sum_ofFn]
  have hantiL : ∀ x, ((liftBij n (Bij.elementwise (List.ofFn τ))).invLd
      ((liftBij n (Bij.elementwise (List.ofFn τ))).fwd x c) c).2
        = -((liftBij n (Bij.elementwise (List.ofFn τ))).fwdLd x c).2 := fun x =>
    liftBij_ld_antisym n _ (Vec n)
      (elementwise_vec_ldAntisym (by
        intro b hb
        obtain ⟨i, rfl⟩ := (List.mem_ofFn' τ b).mp hb
        exact hanti i) _) (fun _ h => h) (fun x c hx => hLv.maps x hx c) x c
  have hfib : ∀ (i : Fin n) (_ : Fin n → ℝ), Measure.map ((fun (i : Fin n) (_ : Fin n → ℝ) t => (τ i).inv t c) i ‹_›)
      ((volume : Measure ℝ).withDensity fun t => ENNReal.ofReal (Real.exp
        ((fun (i : Fin n) (_ : Fin n → ℝ) t => ((τ i).invLd t c).2) i ‹_› t))) = volume :=
    fun i _ => fibre_of_lawOK' (τ i) c (hL i) (h1 i) (hmi i)
  refine ⟨fun x hx => hLv.maps x hx c, fun y hy => hLv.mapsInv y hy c, fun x => hLv.fwdLd_fst x c,
    fun y => hLv.invLd_fst y c, ?_, ?_⟩
  · exact Mass.ar_layer _ c hLl (fun i _ t => (τ i).fwd t c) (fun i _ t => (τ i).inv t c)
      (fun i _ t => ((τ i).invLd t c).2) (fun _ _ _ _ => rfl) (fun _ _ _ _ => rfl)
      (fun i => (h1 i).fwd_meas.comp measurable_snd) (fun i => (hmi i).comp measurable_snd)
      (fun i => (hml i).comp measurable_snd) (fun i _ t => (hL i).right t trivial c) hfib hfwd hld
  · exact Mass.ar_layer_invert _ c hLl (fun i _ t => (τ i).fwd t c) (fun i _ t => (τ i).inv t c)
      (fun i _ t => ((τ i).invLd t c).2) (fun _ _ _ _ => rfl) (fun _ _ _ _ => rfl)
      (fun i => (h1 i).fwd_meas.comp measurable_snd) (fun i => (hmi i).comp measurable_snd)
      (fun i => (hml i).comp measurable_snd) (fun i _ t => (hL i).right t trivial c) hfib hfwd hld hantiL

/-- the same for a list of scalar bijections of length `n` (the form `Bij.elementwise` is used in) -/
theorem elementwise_vlayer_list (bs : List (Bij ℝ C ℝ)) (hlen : bs.length = n) (c : C)
    (hL : ∀ τ ∈ bs, τ.Lawful univ univ) (hanti : ∀ τ ∈ bs, τ.LdAntisym univ) (h1 : ∀ τ ∈ bs, Mass.LawOK volume τ c)
    (hmi : ∀ τ ∈ bs, Measurable fun y => τ.inv y c) (hml : ∀ τ ∈ bs, Measurable fun y => (τ.invLd y c).2) :
    VLayer n (Bij.elementwise bs) c := by
  have e : bs = List.ofFn (fun i : Fin n => bs[(i : ℕ)]'(by rw [hlen]; exact i.2)) := by
    apply List.ext_getElem <;> simp [hlen]
  have hm : ∀ i : Fin n, bs[(i : ℕ)]'(by rw [hlen]; exact i.2) ∈ bs := fun i => List.getElem_mem _
  have := elementwise_vlayer (fun i : Fin n => bs[(i : ℕ)]'(by rw [hlen]; exact i.2)) c (fun i => hL _ (hm i))
    (fun i => hanti _ (hm i)) (fun i => h1 _ (hm i)) (fun i => hmi _ (hm i)) (fun i => hml _ (hm i))
  rwa [← e] at this

/-! ### the scalar instances -/

/-- measurability of the three methods of `LeakyTanh(m)` as built by the generated constructor, every `m > 0` -/
theorem leakytanh_meas {m : ℝ} (hm : 0 < m) (c : C) :
    (Measurable fun y => ((LeakyTanh.init m).toBij : Bij ℝ C ℝ).inv y c) ∧
    (Measurable fun y => (((LeakyTanh.init m).toBij : Bij ℝ C ℝ).invLd y c).2) := by
  have h := Leaves.leaky_init_wf hm
  have hsm : StrictMono (LeakyTanh.init m : LeakyTanh ℝ).transform :=
    strictMono_of_hasDerivAt_pos (fun x => Mass.leaky_hasDerivAt h (Docs.leaky_linear_grad_eq m) x) (Mass.leakyDer_pos h)
  have hmono : Monotone (LeakyTanh.init m : LeakyTanh ℝ).inverse := by
    intro a b hab
    by_contra hlt
    have := hsm (not_le.mp hlt)
    rw [Leaves.leaky_right h, Leaves.leaky_right h] at this
    exact absurd hab (not_le.mpr this)
  have hinv : Measurable (LeakyTanh.init m : LeakyTanh ℝ).inverse := hmono.measurable
  have htanh : Measurable Real.tanh :=
    (continuous_iff_continuousAt.mpr fun z => (LogDet.hasDerivAt_tanh z).continuousAt).measurable
  have hder : Measurable (Mass.leakyDer (LeakyTanh.init m : LeakyTanh ℝ)) := by
    unfold Mass.leakyDer
    refine Measurable.ite ?_ measurable_const ((measurable_const).sub (htanh.pow_const 2))
    exact measurableSet_le measurable_const (continuous_abs.measurable)
  refine ⟨hinv, ?_⟩
  have e : (fun y => (((LeakyTanh.init m).toBij : Bij ℝ C ℝ).invLd y c).2)
      = fun y => -Real.log |Mass.leakyDer (LeakyTanh.init m) ((LeakyTanh.init m : LeakyTanh ℝ).inverse y)| := by
    funext y; exact Mass.leaky_invLd h y
  rw [e]
  exact (Real.measurable_log.comp (continuous_abs.measurable.comp (hder.comp hinv))).neg

/-- **`LeakyTanh(max_val, (n,))`**, every `max_val > 0`, every `n`, every condition: both orientations -/
theorem leakytanh_vlayer {m : ℝ} (hm : 0 < m) (c : C) :
    VLayer n (Bij.elementwise (List.replicate n ((LeakyTanh.init m).toBij : Bij ℝ C ℝ))) c := by
  have h := Leaves.leaky_init_wf hm
  refine elementwise_vlayer_list _ (by simp) c ?_ ?_ ?_ ?_ ?_ <;> intro τ hτ <;> rw [List.eq_of_mem_replicate hτ]
  · exact Leaves.leakytanh_lawful h
  · exact LogDet.leakytanh_ld_antisym hm
  · exact (Mass.leakytanh_fwdJac h c).lawOK
  · exact (leakytanh_meas hm c).1
  · exact (leakytanh_meas hm c).2

/-- measurability of the methods of a fixed spline (no well-formedness needed) -/
theorem rqs_meas (p : RationalQuadraticSpline ℝ) (c : C) :
    (Measurable fun y => (p.toBij : Bij ℝ C ℝ).inv y c) ∧ (Measurable fun y => ((p.toBij : Bij ℝ C ℝ).invLd y c).2) :=
  ⟨measurable_rqs_inverse (A := ℝ) (measL_const p.x_pos) (measL_const p.y_pos) (measL_const p.derivatives) p.interval
      measurable_id,
    measurable_rqs_invLd (A := ℝ) (measL_const p.x_pos) (measL_const p.y_pos) (measL_const p.derivatives) p.interval
      measurable_id⟩

/-- **`Vmap` of `n` rational-quadratic splines**, each well-formed (`Rqs.RqsWF`: what the constructor produces for every raw
parameter value, C11), every condition: both orientations -/
theorem splines_vlayer (ss : List (RationalQuadraticSpline ℝ)) (hlen : ss.length = n) (hwf : ∀ s ∈ ss, Rqs.RqsWF s) (c : C) :
    VLayer n (Bij.elementwise (ss.map fun s => (s.toBij : Bij ℝ C ℝ))) c := by
  refine elementwise_vlayer_list _ (by simpa using hlen) c ?_ ?_ ?_ ?_ ?_ <;> intro τ hτ <;>
    obtain ⟨s, hs, rfl⟩ := List.mem_map.mp hτ
  · exact Rqs.rqs_lawful (hwf s hs)
  · exact Rqs.rqs_ldAntisym (hwf s hs)
  · exact (Mass.rqs_fwdJac (hwf s hs) c).lawOK
  · exact (rqs_meas s c).1
  · exact (rqs_meas s c).2

/-- the scalar `AdditiveCondition` with module `c ↦ v c`: a translation by `v c` at condition `c` -/
def addCond (v : C → ℝ) : Bij ℝ C ℝ :=
  let p : AdditiveCondition C ℝ := { module := v }
  ⟨p.transform, p.inverse, p.transform_and_log_det, p.inverse_and_log_det⟩

theorem addCond_facts (v : C → ℝ) (c : C) :
    (addCond v).Lawful univ univ ∧ (addCond v).LdAntisym univ ∧ Mass.LawOK volume (addCond v) c ∧
    (Measurable fun y => (addCond v).inv y c) ∧ (Measurable fun y => ((addCond v).invLd y c).2) := by
  refine ⟨⟨fun _ _ _ => trivial, fun _ _ _ => trivial, ?_, ?_, fun _ _ => rfl, fun _ _ => rfl⟩, ?_, ?_, ?_, ?_⟩
  · intro x _ c; simp [addCond, AdditiveCondition.transform, AdditiveCondition.inverse]
  · intro y _ c; simp [addCond, AdditiveCondition.transform, AdditiveCondition.inverse]
  · intro x _ c; simp [addCond, AdditiveCondition.transform_and_log_det, AdditiveCondition.inverse_and_log_det]
  · have hl := (Mass.loc_invJac (C := C) (Loc.mk (v c)) c).lawOK
    exact ⟨fun _ => rfl, hl.fwd_meas, fun p => hl.law p⟩
  · exact measurable_id.sub_const (v c)
  · exact measurable_const

/-- **`AdditiveCondition(Linear(cond_dim, n, use_bias=False))`**: every weight matrix with `n` rows, every condition -/
theorem linearCondition_vlayer (W : List (List ℝ)) (hW : W.length = n) (c : List ℝ) : VLayer n (linearCondition W) c := by
  have e : linearCondition W = Bij.elementwise (W.map fun row => addCond fun c => Jnp.dot row c) := rfl
  rw [e]
  refine elementwise_vlayer_list _ (by simpa using hW) c ?_ ?_ ?_ ?_ ?_ <;> intro τ hτ <;>
    obtain ⟨row, _, rfl⟩ := List.mem_map.mp hτ
  · exact (addCond_facts _ c).1
  · exact (addCond_facts _ c).2.1
  · exact (addCond_facts _ c).2.2.1
  · exact (addCond_facts _ c).2.2.2.1
  · exact (addCond_facts _ c).2.2.2.2

/-! ## TriangularAffine -/

/-- **`TriangularAffine`** (hand model): every triangular matrix with non-zero diagonal, every `loc`, both triangles, every
dimension, every condition — an everywhere-differentiable affine bijection with constant Jacobian `A`,
`det A = ∏ Aᵢᵢ ≠ 0`, reported log-det `Σ log|Aᵢᵢ| = log|det A|` -/
theorem triangular_jac {t : Tri.TriAffine ℝ} (h : TriPf.TriWF n t) (c : C) :
    (liftBij n (t.toBij : Bij (List ℝ) C ℝ)).Lawful univ univ ∧
    (∀ v, HasFDerivAt (fun x => (liftBij n (t.toBij : Bij (List ℝ) C ℝ)).fwd x c)
      (VecLd.matCLM (TriPf.toMat n t.triangular)) v) ∧
    (VecLd.matCLM (TriPf.toMat n t.triangular)).det ≠ 0 ∧
    (∀ v, ((liftBij n (t.toBij : Bij (List ℝ) C ℝ)).fwdLd v c).2
      = Real.log |(VecLd.matCLM (TriPf.toMat n t.triangular)).det|) := by
  have hL := TriPf.triangular_lawful (C := C) h
  have hLl : (liftBij n (t.toBij : Bij (List ℝ) C ℝ)).Lawful univ univ :=
    liftBij_lawful n _ _ _ hL (fun _ h => h) (fun _ h => h) (fun x c hx => hL.maps x hx c)
      (fun y c hy => hL.mapsInv y hy c)
  have hfwd : (fun x => (liftBij n (t.toBij : Bij (List ℝ) C ℝ)).fwd x c)
      = fun v => Matrix.mulVec (TriPf.toMat n t.triangular) v + VecLd.toVec n t.loc := by
    funext v i
    show nth (t.transform (List.ofFn v)) i = _
    rw [TriPf.transform_ofFn h, nth_ofFn]
  have hld := TriPf.triangular_ld (C := C) h
  refine ⟨hLl, fun v => ?_, ?_, fun v => ?_⟩
  · rw [hfwd]
    exact ((VecLd.matCLM (TriPf.toMat n t.triangular)).hasFDerivAt).add_const _
  · rw [VecLd.matCLM_det]; exact (hld 0 trivial c).2.2.1
  · rw [VecLd.matCLM_det]; exact (hld v trivial c).2.2.2

theorem triangular_vlayer {t : Tri.TriAffine ℝ} (h : TriPf.TriWF n t) (c : C) :
    VLayer n (t.toBij : Bij (List ℝ) C ℝ) c := by
  have hL := TriPf.triangular_lawful (C := C) h
  obtain ⟨hLl, hd, hdet, hld⟩ := triangular_jac h c
  have hpw := Mass.PiecewiseFDeriv.of_hasFDerivAt (E := Fin n → ℝ) hd
  have hj : ∀ v : Fin n → ℝ, ((fun _ => VecLd.matCLM (TriPf.toMat n t.triangular)) v).det ≠ 0 ∧
      ((liftBij n (t.toBij : Bij (List ℝ) C ℝ)).fwdLd v c).2
        = Real.log |((fun _ => VecLd.matCLM (TriPf.toMat n t.triangular)) v).det| := fun v => ⟨hdet, hld v⟩
  have hanti : ∀ x, ((liftBij n (t.toBij : Bij (List ℝ) C ℝ)).invLd ((liftBij n (t.toBij : Bij (List ℝ) C ℝ)).fwd x c) c).2
      = -((liftBij n (t.toBij : Bij (List ℝ) C ℝ)).fwdLd x c).2 := fun x =>
    liftBij_ld_antisym n _ univ (TriPf.triangular_ld_antisym t univ) (fun _ _ => trivial) (fun x c hx => hL.maps x hx c) x c
  have hF : Mass.FwdJacN (liftBij n (t.toBij : Bij (List ℝ) C ℝ)) c := Mass.FwdJacN.of_fwdLd hLl _ hpw hj hanti
  have hI : Mass.InvJacN (Invert.mk (liftBij n (t.toBij : Bij (List ℝ) C ℝ))).toBij c := Mass.InvJacN.invert hLl _ hpw hj
  exact ⟨fun x hx => hL.maps x hx c, fun y hy => hL.mapsInv y hy c, fun x => hL.fwdLd_fst x c, fun y => hL.invLd_fst y c,
    ⟨hF.massOK volume, hF.lawOK volume⟩, ⟨hI.massOK volume, hI.lawOK volume⟩⟩

/-- the same for the four methods GENERATED from `flowjax.bijections.TriangularAffine` (`Gen/TriangularGen.lean`) -/
theorem triangular_gen_vlayer (t : TriangularAffine ℝ) (h : TriPf.TriWF n (TriGenPf.toModel t)) (c : C) :
    VLayer n (TriGen.toBij t : Bij (List ℝ) C ℝ) c := by
  rw [TriGenPf.gen_toBij_eq]; exact triangular_vlayer h c

/-- … for EVERY raw parameter value: diagonal `softplus(rawᵢ) > 0`, any square `arr`, any `loc`, both triangles -/
theorem triangular_gen_ofRaw_vlayer (lower : Bool) (raw : List ℝ) (arr : List (List ℝ)) (loc : List ℝ)
    (hsq : TriPf.Square n arr) (hr : raw.length = n) (hl : loc.length = n) (c : C) :
    VLayer n (TriGen.toBij (TriGen.unwrap (TriGen.ofRaw lower raw arr loc)) : Bij (List ℝ) C ℝ) c := by
  refine triangular_gen_vlayer _ ?_ c
  rw [TriGenPf.gen_ofRaw_eq lower raw arr loc (fun r hr' => by rw [hsq.2 r hr', hr])]
  exact TriPf.ofRaw_wf lower raw arr loc hsq hr hl

/-! ## the default permutations -/

theorem flip_vlayer (s : ℕ) (c : C) : VLayer n (flipOf s : Bij (List ℝ) C ℝ) c := by
  have h1 : Mass.InvJacN (liftBij n (flipOf s : Bij (List ℝ) C ℝ)) c := PermMass.flip_invJacN (n := n) c
  have h2 : Mass.InvJacN (Invert.mk (liftBij n (flipOf s : Bij (List ℝ) C ℝ))).toBij c :=
    PermMass.flip_invert_invJacN (n := n) c
  exact ⟨fun x hx => by simpa [flipOf, Flip.transform] using hx, fun y hy => by simpa [flipOf, Flip.inverse] using hy,
    fun _ => rfl, fun _ => rfl, ⟨h1.massOK volume, h1.lawOK volume⟩, ⟨h2.massOK volume, h2.lawOK volume⟩⟩

theorem permute_vlayer {perm : List ℕ} (h : perm.Perm (List.range n)) (c : C) :
    VLayer n (permuteOf perm : Bij (List ℝ) C ℝ) c := by
  have hl : perm.length = n := by simpa using h.length_eq
  subst hl
  have hL := permute_lawful (C := C) h
  have h1 : Mass.InvJacN (liftBij perm.length (permuteOf perm : Bij (List ℝ) C ℝ)) c := PermMass.permute_invJacN perm h c
  have h2 : Mass.InvJacN (Invert.mk (liftBij perm.length (permuteOf perm : Bij (List ℝ) C ℝ))).toBij c :=
    PermMass.permute_invert_invJacN perm h c
  exact ⟨fun x hx => hL.maps x hx c, fun y hy => hL.mapsInv y hy c, fun _ => rfl, fun _ => rfl,
    ⟨h1.massOK volume, h1.lawOK volume⟩, ⟨h2.massOK volume, h2.lawOK volume⟩⟩

/-- the GENERATED `_add_default_permute` (nothing for `dim = 1`, `Flip` for `dim = 2`, `Permute(jr.permutation(…))` otherwise) -/
theorem add_default_permute_vlayer {b : VBij ℝ} {d : ℕ} {key : List ℕ} {c : List ℝ} (hb : VLayer d b c)
    (hk : PermKeyOK d key) : VLayer d (add_default_permute b d key) c := by
  by_cases h1 : d = 1
  · subst h1; rw [add_default_permute_one]; exact hb
  by_cases h2 : d = 2
  · subst h2; rw [add_default_permute_two]
    refine VLayer.chain _ c fun b' hb' => ?_
    simp only [List.mem_cons, List.not_mem_nil, or_false] at hb'
    rcases hb' with rfl | rfl
    · exact hb
    · exact flip_vlayer 2 c
  · rw [add_default_permute_other b h1 h2, jrPermutation_arange (hk h1 h2)]
    refine VLayer.chain _ c fun b' hb' => ?_
    simp only [List.mem_cons, List.not_mem_nil, or_false] at hb'
    rcases hb' with rfl | rfl
    · exact hb
    · exact permute_vlayer (hk h1 h2) c

/-! ## `triangular_spline_flow` -/

/-- **one layer of `triangular_spline_flow`, before the default permutation**:
`Chain([LeakyTanh(m, (dim,)), Vmap(splines), Invert(LeakyTanh(m, (dim,))), TriangularAffine, (AdditiveCondition(Linear))])` -/
theorem triSplineCore_vlayer {dim : ℕ} {m : ℝ} {net : TriSplineNet ℝ} (h : TriSplineOK dim m net) (c : List ℝ) :
    VLayer dim (triSplineCore net dim m) c := by
  have hlt := leakytanh_vlayer (n := dim) (C := List ℝ) h.max_val c
  have hsp := splines_vlayer (C := List ℝ) net.splines h.n_splines h.splines c
  have htri := triangular_vlayer (C := List ℝ) h.tri c
  show VLayer dim (Chain.mk ([(Bij.elementwise (List.replicate dim (LeakyTanh.init m).toBij) : VBij ℝ),
        Bij.elementwise (net.splines.map fun s => s.toBij),
        invertOf (Bij.elementwise (List.replicate dim (LeakyTanh.init m).toBij)), net.tri.toBij] ++
        condTail net.condLinear)).toBij c
  refine VLayer.chain _ c fun b hb => ?_
  rcases List.mem_append.mp hb with hb | hb
  · simp only [List.mem_cons, List.not_mem_nil, or_false] at hb
    rcases hb with rfl | rfl | rfl | rfl
    · exact hlt
    · exact hsp
    · exact hlt.invert
    · exact htri
  · cases hc : net.condLinear with
    | none => rw [hc] at hb; simp [condTail] at hb
    | some W =>
      rw [hc] at hb
      simp only [condTail, List.mem_cons, List.not_mem_nil, or_false] at hb
      subst hb
      exact linearCondition_vlayer W (h.cond W hc) c

/-- **every layer `make_layer` returns**: with the default permutation -/
theorem triSplineLayer_vlayer {dim : ℕ} {m : ℝ} {key : TriSplineNet ℝ × List ℕ} (h : TriSplineOK dim m key.1)
    (hk : PermKeyOK dim key.2) (c : List ℝ) : VLayer dim (triSplineLayer dim m key) c :=
  add_default_permute_vlayer (triSplineCore_vlayer h c) hk

/-- **the whole bijection the generated factory body builds**: `Invert(Scan(layers)) if invert else Scan(layers)`, any number of
layers -/
theorem triSplineFlow_vlayer (dim : ℕ) (m : ℝ) (key : ℕ → TriSplineNet ℝ × List ℕ) (nl : ℕ) (invert : Bool)
    (hnet : ∀ i < nl, TriSplineOK dim m (key i).1) (hperm : ∀ i < nl, PermKeyOK dim (key i).2) (c : List ℝ) :
    VLayer dim (triSplineFlowBij dim m key nl invert) c := by
  rw [triSplineFlowBij_eq]
  refine VLayer.orient ?_ invert
  rw [scanOf_eq_chain]
  refine VLayer.chain _ c fun b hb => ?_
  obtain ⟨i, hi, rfl⟩ := (mem_layers _ key nl b).mp hb
  exact triSplineLayer_vlayer (hnet i hi) (hperm i hi) c

/-! ## the list-level `Transformed` read in coordinates -/

/-- a list-level distribution read in coordinates -/
noncomputable def liftDist (n : ℕ) {K : Type} (d : Distn (List ℝ) C K ℝ) : Distn (Fin n → ℝ) C K ℝ :=
  ⟨fun x c => d.logProb (List.ofFn x) c, fun k c i => nth (d.sample k c) i,
   fun k c => (fun i => nth (d.sampleLp k c).1 i, (d.sampleLp k c).2)⟩

/-- `Transformed(base, b)._log_prob` at a vector of length `n` is the coordinate version's -/
theorem transformed_lift_logProb {K : Type} {b : Bij (List ℝ) C ℝ} {c : C} (h : VLayer n b c)
    (base : Distn (List ℝ) C K ℝ) (y : Fin n → ℝ) :
    (transformedOf base b).logProb (List.ofFn y) c
      = (Transformed.mk (liftDist n base) (liftBij n b)).toDist.logProb y c := by
  show base.logProb (b.invLd (List.ofFn y) c).1 c + (b.invLd (List.ofFn y) c).2
    = base.logProb (List.ofFn fun i => nth (b.invLd (List.ofFn y) c).1 i) c + (b.invLd (List.ofFn y) c).2
  rw [ofFn_nth _ n (by rw [h.invLd_fst]; exact h.len_inv _ (by simp))]

end NetMass

/-! ## weight normalisation keeps a triangular matrix with non-zero diagonal triangular with non-zero diagonal

`triangular_spline_flow` wraps the triangular matrix in `WeightNormalization` (`eqx.tree_at(lambda t: t.triangular, tri_aff,
replace_fn=WeightNormalization)`): after unwrap, row `i` is `scaleᵢ · rowᵢ / ‖rowᵢ‖` (the GENERATED `Wr.WeightNormalization.unwrap`),
`scaleᵢ = softplus(raw) > 0`. -/
namespace TriPf
open Gen.Wr

theorem entry_weightnorm {n : ℕ} (w : List (List ℝ)) (sc : List ℝ) (hw : w.length = n) (hs : sc.length = n) (i j : ℕ)
    (hi : i < n) :
    entry (⟨w, sc⟩ : WeightNormalization ℝ).unwrap i j
      = sc.getD i 0 / Real.sqrt (Jnp.dot (w.getD i []) (w.getD i [])) * entry w i j := by
  have hiw : i < w.length := by omega
  have his : i < sc.length := by omega
  rw [WrappersPf.wn_eq_rows]
  unfold entry
  have e1 : (List.zipWith (fun row s => (⟨row, s⟩ : WeightNormRow ℝ).unwrap) w sc).getD i []
      = (⟨w[i], sc[i]⟩ : WeightNormRow ℝ).unwrap := by
    simp [List.getD_eq_getElem?_getD, List.getElem?_zipWith, hiw, his]
  have e2 : w.getD i [] = w[i] := by simp [List.getD_eq_getElem?_getD, hiw]
  have e3 : sc.getD i 0 = sc[i] := by simp [List.getD_eq_getElem?_getD, his]
  rw [e1, e2, e3]
  have e : (⟨w[i], sc[i]⟩ : WeightNormRow ℝ).unwrap
      = List.map (fun b => (sc[i] / Real.sqrt (Jnp.dot w[i] w[i])) * b) w[i] := by
    unfold WeightNormRow.unwrap
    simp only [RealInst.sqrt_eq, List.map_map]; congr 1; funext b; simp only [Function.comp]; ring
  rw [e]
  simp only [List.getD_eq_getElem?_getD, List.getElem?_map]
  cases (w[i])[j]? <;> simp

theorem square_weightnorm {n : ℕ} (w : List (List ℝ)) (sc : List ℝ) (hw : Square n w) (hs : sc.length = n) :
    Square n (⟨w, sc⟩ : WeightNormalization ℝ).unwrap := by
  rw [WrappersPf.wn_eq_rows]
  refine ⟨by simp [hw.1, hs], fun r hr => ?_⟩
  obtain ⟨i, hi, rfl⟩ := List.mem_iff_getElem.mp hr
  simp only [List.getElem_zipWith, WeightNormRow.unwrap, List.length_map]
  exact hw.2 _ (List.getElem_mem _)

/-- the factor `scaleᵢ / ‖rowᵢ‖` is non-zero as soon as `scaleᵢ ≠ 0` and the row has a non-zero entry -/
theorem weightnorm_factor_ne {n : ℕ} (w : List (List ℝ)) (sc : List ℝ) (hw : w.length = n) (i : ℕ) (hi : i < n)
    (hd : entry w i i ≠ 0) (hs : sc.getD i 0 ≠ 0) :
    sc.getD i 0 / Real.sqrt (Jnp.dot (w.getD i []) (w.getD i [])) ≠ 0 := by
  refine div_ne_zero hs (Real.sqrt_ne_zero'.mpr (lt_of_le_of_ne (ParamsPf.jdot_self_nonneg _) (Ne.symm ?_)))
  intro h0
  have hall := ParamsPf.jdot_self_eq_zero.mp h0
  apply hd
  unfold entry
  generalize w.getD i [] = row at hall ⊢
  rw [List.getD_eq_getElem?_getD]
  cases hr : row[i]? with
  | none => rfl
  | some v => simp only [Option.getD_some]; exact hall v (List.mem_of_getElem? hr)

/-- **`TriangularAffine` with a weight-normalised matrix**: a triangular matrix with non-zero diagonal, every row rescaled by
`WeightNormalization.unwrap` with non-zero scales (the library's are `softplus(raw) > 0`), is still `TriWF` -/
theorem weightnorm_triWF {n : ℕ} {t : Tri.TriAffine ℝ} (h : TriWF n t) (sc : List ℝ) (hs : sc.length = n)
    (hne : ∀ i < n, sc.getD i 0 ≠ 0) :
    TriWF n ⟨(⟨t.triangular, sc⟩ : WeightNormalization ℝ).unwrap, t.loc, t.lower⟩ := by
  obtain ⟨hloc, htri⟩ := h
  have hsq := TriWF.sq ⟨hloc, htri⟩
  refine ⟨hloc, ?_⟩
  cases hl : t.lower
  · rw [hl] at htri
    simp only [Bool.false_eq_true, if_false] at htri ⊢
    refine ⟨square_weightnorm _ _ hsq hs, fun i j hji hi => ?_, fun i hi => ?_⟩
    · rw [entry_weightnorm _ _ hsq.1 hs i j hi, htri.zero i j hji hi, mul_zero]
    · rw [entry_weightnorm _ _ hsq.1 hs i i hi]
      exact mul_ne_zero (weightnorm_factor_ne _ _ hsq.1 i hi (htri.diag_ne i hi) (hne i hi)) (htri.diag_ne i hi)
  · rw [hl] at htri
    simp only [if_true] at htri ⊢
    refine ⟨square_weightnorm _ _ hsq hs, fun i j hij hj => ?_, fun i hi => ?_⟩
    · rw [entry_weightnorm _ _ hsq.1 hs i j (by omega), htri.zero i j hij hj, mul_zero]
    · rw [entry_weightnorm _ _ hsq.1 hs i i hi]
      exact mul_ne_zero (weightnorm_factor_ne _ _ hsq.1 i hi (htri.diag_ne i hi) (hne i hi)) (htri.diag_ne i hi)

end TriPf

/-! ## the GENERATED `triangular_spline_flow.make_layer` (g25): the layer as constructed satisfies `TriSplineOK` -/
section GenTriSpline
open Gen Flows
namespace FlowsPf

theorem atSet_square {n : ℕ} (a : List (List ℝ)) (idx : List (ℕ × ℕ)) (v : ℝ) (h : TriPf.Square n a) :
    TriPf.Square n (atSet a idx v) := by
  obtain ⟨h1, h2⟩ := h
  refine ⟨by simp [atSet, h1], fun r hr => ?_⟩
  obtain ⟨i, hi, rfl⟩ := List.mem_iff_getElem.mp hr
  simp only [atSet, List.getElem_mapIdx, List.length_mapIdx]
  exact h2 _ (List.getElem_mem _)

/-- the layer AS CONSTRUCTED by the generated `make_layer` satisfies `TriSplineOK` -/
theorem triSplineInitNet_ok (dim : ℕ) {m : ℝ} (hm : 0 < m) {knots : ℕ} (hk : 1 ≤ knots) (cond_dim : Option ℕ)
    (key : TriSplineKey ℝ) (hsq : TriPf.Square dim key.1) (hc : cond_dim.isSome → key.2.2.length = dim) :
    TriSplineOK dim m (triSplineInitNet dim knots cond_dim key) := by
  refine ⟨hm, by simp [triSplineInitNet], ?_, ?_, ?_⟩
  · intro s hs
    simp only [triSplineInitNet] at hs
    rw [List.eq_of_mem_replicate hs]
    refine rqsFamily_wf (cfg := ⟨knots, (-1, 1), 0.01, 0.001⟩) ⟨hk, ?_, ?_, ?_, ?_⟩ []
    · simp; omega
    · norm_num
    · norm_num
    · norm_num
  · have hA := atSet_square key.1 (diagIndices dim) 1 hsq
    set arr := atSet key.1 (diagIndices dim) (1 : ℝ) with harr
    have hr : ((Tri.diag arr).map fun v => (Params.softplusInit v).arr).length = dim := by
      rw [List.length_map, TriPf.diag_eq_ofFn dim arr hA.1, List.length_ofFn]
    have hwf := TriPf.ofRaw_wf true ((Tri.diag arr).map fun v => (Params.softplusInit v).arr) arr (zeros dim) hA hr
      (by simp [zeros])
    have hlen := (TriPf.TriWF.sq hwf).1
    refine TriPf.weightnorm_triWF (t := Tri.ofRaw true _ arr (zeros dim)) hwf _ ?_ fun i hi => ?_
    · simp only [List.length_map]; exact hlen
    · have gen : ∀ l : List (List ℝ), i < l.length →
          ((l.map fun row => (Params.softplusInit (1 / Transc.sqrt (Jnp.dot row row))).arr).map
            fun r => (Params.softplusRaw r).unwrap).getD i 0 ≠ 0 := by
        intro l hl
        simp only [List.map_map, List.getD_eq_getElem?_getD, List.getElem?_map, List.getElem?_eq_getElem hl,
          Option.map_some, Option.getD_some, Function.comp]
        exact (ParamsPf.softplusRaw_pos _).ne'
      exact gen _ (by rw [show (WMat.unwrap (triangularAffineOf (zeros dim) arr).triangular).length = dim from hlen]; exact hi)
  · intro W hW
    cases cond_dim with
    | none => simp [triSplineInitNet] at hW
    | some cd =>
      simp only [triSplineInitNet, Option.map_some, Option.some.injEq] at hW
      subst hW; exact hc rfl

/-- hypotheses on the keys of the generated factory: `tanh_max_val > 0`, `knots ≥ 1`, every `init(lt_key, (dim, dim))` is
`dim × dim`, every `Linear` weight has `dim` rows when conditional, every `jr.permutation` result is a permutation -/
structure GenTriSplineKeysOK (dim : ℕ) (m : ℝ) (knots : ℕ) (cond_dim : Option ℕ) (key : ℕ → TriSplineKey ℝ) (n : ℕ) : Prop where
  max_val : 0 < m
  knots : 1 ≤ knots
  weights : ∀ i < n, TriPf.Square dim (key i).1
  cond : ∀ i < n, cond_dim.isSome → (key i).2.2.length = dim
  perm : ∀ i < n, PermKeyOK dim (key i).2.1

theorem GenTriSplineKeysOK.net {dim : ℕ} {m : ℝ} {knots : ℕ} {cond_dim : Option ℕ} {key : ℕ → TriSplineKey ℝ} {n : ℕ}
    (h : GenTriSplineKeysOK dim m knots cond_dim key n) :
    ∀ i < n, TriSplineOK dim m (genTriSplineKey dim knots cond_dim key i).1 :=
  fun i hi => triSplineInitNet_ok dim h.max_val h.knots cond_dim (key i) (h.weights i hi) (h.cond i hi)

/-- C01 on the REGENERATED closure: the flow whose layers are the generated `make_layer` is a lawful bijection of `ℝ^dim` -/
theorem gen_tri_spline_flow_lawful {dim : ℕ} {m : ℝ} {knots : ℕ} {cond_dim : Option ℕ} {key : ℕ → TriSplineKey ℝ} {n : ℕ}
    (h : GenTriSplineKeysOK dim m knots cond_dim key n) (invert : Bool) :
    (genTriSplineFlowBij dim m knots cond_dim key n invert).Lawful (Vec dim) (Vec dim) := by
  rw [genTriSplineFlowBij_eq]
  exact tri_spline_flow_lawful dim m _ n invert h.net h.perm

/-- C03 on the regenerated closure -/
theorem gen_tri_spline_flow_ldAntisym {dim : ℕ} {m : ℝ} {knots : ℕ} {cond_dim : Option ℕ} {key : ℕ → TriSplineKey ℝ} {n : ℕ}
    (h : GenTriSplineKeysOK dim m knots cond_dim key n) (invert : Bool) :
    (genTriSplineFlowBij dim m knots cond_dim key n invert).LdAntisym (Vec dim) := by
  rw [genTriSplineFlowBij_eq]
  exact tri_spline_flow_ldAntisym dim m _ n invert h.net h.perm

/-- a 2-layer conditional generated flow on `ℝ³` (`knots = 4`, `tanh_max_val = 3`, `cond_dim = 2`): two different weight
matrices (both signs, non-unit diagonals that `.set(1)` overwrites), two different permutations, two condition matrices -/
noncomputable def genTriKeys : ℕ → TriSplineKey ℝ := fun i =>
  if i = 0 then ([[5, -1, 2], [1 / 2, -3, 0], [-2, 1, 0]], [2, 0, 1], [[1, 0], [-2, 1], [0, 3]])
  else ([[0, 0, 0], [-1, 0, 7], [4, -4, 1]], [1, 2, 0], [[0, 0], [1, 1], [-1, 2]])

theorem genTriKeys_ok : GenTriSplineKeysOK 3 3 4 (some 2) genTriKeys 2 := by
  refine ⟨by norm_num, by norm_num, ?_, ?_, ?_⟩
  · intro i hi
    interval_cases i
    · simp only [genTriKeys, if_true]
      exact ⟨rfl, by intro r hr; simp at hr; rcases hr with rfl | rfl | rfl <;> rfl⟩
    · simp only [genTriKeys, one_ne_zero, if_false]
      exact ⟨rfl, by intro r hr; simp at hr; rcases hr with rfl | rfl | rfl <;> rfl⟩
  · intro i hi _
    interval_cases i
    · simp [genTriKeys]
    · simp [genTriKeys]
  · intro i hi _ _
    interval_cases i
    · simp only [genTriKeys, if_true]; decide
    · simp only [genTriKeys, one_ne_zero, if_false]; decide

end FlowsPf
end GenTriSpline
