import Flowjaxv.Proofs.AdVecTheory
import Flowjaxv.Gen.VecAst
/-!
# `logsumexp`, `log_softmax` and the generated `VmapMixture._log_prob` are `Safe` for every non-empty array of finite numbers (C18)

`Vec.logsumexp` / `Vec.logSoftmax` (`Model/AdVec.lean`) are transcriptions of the JAX library functions — their maxima sit under
`stop_gradient` — and the mixture's `_log_prob` and stored-weights lambda are generated (`Gen/VecAst.lean`).
-/
set_option linter.unusedSimpArgs false
set_option linter.unusedVariables false
noncomputable section
open Classical Ad EF AdT AdV GenAst

namespace AdM

theorem max_eval_fin {env : Env EF} {a b : Expr EF} {x y : ℝ} (ha : a.eval env = fin x) (hb : b.eval env = fin y) :
    (Expr.max a b).eval env = fin (if x < y then y else x) := by
  by_cases h : x < y <;> simp [Expr.eval, ha, hb, h]

theorem max_eval_ninf {env : Env EF} {a b : Expr EF} {y : ℝ} (ha : a.eval env = ninf) (hb : b.eval env = fin y) :
    (Expr.max a b).eval env = fin y := by
  have : (Num.lt (ninf : EF) (fin y)) = true := rfl
  simp [Expr.eval, ha, hb, this]

theorem foldl_max_fin {env : Env EF} : ∀ {es : List (Expr EF)} {rs : List ℝ} (acc : Expr EF) (m : ℝ),
    acc.eval env = fin m → EvalsTo env es rs → ∃ m', (es.foldl Expr.max acc).eval env = fin m'
  | _, _, acc, m, hacc, .nil => ⟨m, hacc⟩
  | _, _, acc, m, hacc, .cons (a := e) he hte => foldl_max_fin (Expr.max acc e) _ (max_eval_fin hacc he) hte

/-- the maximum of a non-empty array of finite numbers is finite -/
theorem maxE_fin {env : Env EF} {es : List (Expr EF)} {rs : List ℝ} (h : EvalsTo env es rs) (hne : rs ≠ []) :
    ∃ m, (Vec.maxE es).eval env = fin m := by
  cases h with
  | nil => exact absurd rfl hne
  | cons he hte =>
    simp only [Vec.maxE, List.foldl_cons]
    exact foldl_max_fin (Expr.max _ _) _ (max_eval_ninf (by simp [Expr.eval]; rfl) he) hte

theorem isFiniteB_fin (m : ℝ) : Vec.isFiniteB (fin m : EF) = true := rfl

theorem sum_pos_of {rs : List ℝ} (h : ∀ r ∈ rs, 0 < r) (hne : rs ≠ []) : 0 < rs.sum := List.sum_pos _ h hne


/-- `exp(e − c)` for every element: safe, evaluates to positive reals -/
theorem expShift {env : Env EF} {es : List (Expr EF)} {rs : List ℝ} {c : Expr EF} {m : ℝ}
    (hs : SafeVec env es) (he : EvalsTo env es rs) (hc : Safe env c) (hce : c.eval env = fin m) :
    SafeVec env (es.map (fun e => Expr.prim Prim.exp (Expr.sub e c))) ∧
    EvalsTo env (es.map (fun e => Expr.prim Prim.exp (Expr.sub e c))) (rs.map (fun r => Real.exp (r - m))) := by
  refine ⟨?_, ?_⟩
  · have k : ∀ e, Safe env e → Safe env (Expr.prim Prim.exp (Expr.sub e c)) := fun e h => ⟨⟨h, hc⟩, fun _ _ => trivial⟩
    exact safeVec_map k hs
  · exact evalsTo_map (env' := env) (fun e r hr => by simp [Expr.eval, applyPrim, hr, hce]) he

theorem map_exp_pos {rs : List ℝ} {m : ℝ} : ∀ r ∈ rs.map (fun r => Real.exp (r - m)), 0 < r := by
  intro r hr; obtain ⟨a, _, rfl⟩ := List.mem_map.mp hr; exact Real.exp_pos _

/-- `logsumexp` of a non-empty array of safe, finite expressions is safe (finite value, finite adjoints w.r.t. everything the
elements depend on) -/
theorem logsumexp_safe {env : Env EF} {a : List (Expr EF)} {rs : List ℝ} (hs : SafeVec env a) (he : EvalsTo env a rs) (hne : rs ≠ []) :
    Safe env (Vec.logsumexp a) ∧ ∃ v, (Vec.logsumexp a).eval env = fin v := by
  obtain ⟨m, hm⟩ := maxE_fin he hne
  set amax : Expr EF := Expr.stopGrad (Expr.sel (fun env => Vec.isFiniteB ((Vec.maxE a).eval env)) (Vec.maxE a) (Expr.const (Num.ofInt 0))) with hamax
  have hae : amax.eval env = fin m := by simp [hamax, Expr.eval, hm, isFiniteB_fin]
  have haS : Safe env amax := by show isFin (amax.eval env); rw [hae]; trivial
  obtain ⟨hS, hE⟩ := expShift hs he haS hae
  have hsum := sum_eval hE
  have hpos : 0 < (rs.map (fun r => Real.exp (r - m))).sum := sum_pos_of map_exp_pos (by simpa using hne)
  have habs : 0 < |(rs.map (fun r => Real.exp (r - m))).sum| := abs_pos.mpr hpos.ne'
  have heabs : (Expr.prim Prim.abs (Vec.sum (a.map (fun e => Expr.prim Prim.exp (Expr.sub e amax))))).eval env
      = fin |(rs.map (fun r => Real.exp (r - m))).sum| := by
    show Num.abs (Expr.eval env _) = _; rw [hsum]; rfl
  have hlog : (Expr.prim Prim.log (Expr.prim Prim.abs (Vec.sum (a.map (fun e => Expr.prim Prim.exp (Expr.sub e amax)))))).eval env
      = fin (Real.log |(rs.map (fun r => Real.exp (r - m))).sum|) := by
    show Num.log (Expr.eval env _) = _; rw [heabs, EF.num_log habs]
  refine ⟨⟨⟨⟨sum_safe hS, fun _ _ => trivial⟩, fun r hr => ?_⟩, haS⟩,
    Real.log |(rs.map (fun r => Real.exp (r - m))).sum| + m, ?_⟩
  · rw [heabs] at hr; cases hr; exact habs
  · show Expr.eval env _ + Expr.eval env amax = _; rw [hlog, hae]; rfl

/-- `log_softmax` of a non-empty array of safe, finite expressions: every element safe and finite -/
theorem logSoftmax_safe {env : Env EF} {x : List (Expr EF)} {rs : List ℝ} (hs : SafeVec env x) (he : EvalsTo env x rs) (hne : rs ≠ []) :
    SafeVec env (Vec.logSoftmax x) ∧ ∃ rs', EvalsTo env (Vec.logSoftmax x) rs' ∧ rs'.length = rs.length := by
  obtain ⟨m, hm⟩ := maxE_fin he hne
  set xmax : Expr EF := Expr.stopGrad (Vec.maxE x) with hx
  have hae : xmax.eval env = fin m := by simp [hx, Expr.eval, hm]
  have haS : Safe env xmax := by show isFin (xmax.eval env); rw [hae]; trivial
  have hshE : EvalsTo env (x.map (fun e => Expr.sub e xmax)) (rs.map (fun r => r - m)) :=
    evalsTo_map (env' := env) (fun e r hr => by simp [Expr.eval, hr, hae]) he
  have hshS : SafeVec env (x.map (fun e => Expr.sub e xmax)) := by
    have k : ∀ e, Safe env e → Safe env (Expr.sub e xmax) := fun e h => ⟨h, haS⟩
    exact safeVec_map k hs
  have hexE : EvalsTo env ((x.map (fun e => Expr.sub e xmax)).map (fun e => Expr.prim Prim.exp e)) ((rs.map (fun r => r - m)).map Real.exp) :=
    evalsTo_map (env' := env) (fun e r hr => by simp [Expr.eval, applyPrim, hr]) hshE
  have hexS : SafeVec env ((x.map (fun e => Expr.sub e xmax)).map (fun e => Expr.prim Prim.exp e)) := by
    have k : ∀ e, Safe env e → Safe env (Expr.prim Prim.exp e) := fun e h => ⟨h, fun _ _ => trivial⟩
    exact safeVec_map k hshS
  have hpos : 0 < ((rs.map (fun r => r - m)).map Real.exp).sum :=
    sum_pos_of (by intro r hr; obtain ⟨a, _, rfl⟩ := List.mem_map.mp hr; exact Real.exp_pos _) (by simpa using hne)
  set lse : Expr EF := Expr.prim Prim.log (Vec.sum ((x.map (fun e => Expr.sub e xmax)).map (fun e => Expr.prim Prim.exp e))) with hl
  have hlse : lse.eval env = fin (Real.log ((rs.map (fun r => r - m)).map Real.exp).sum) := by
    show Num.log (Expr.eval env _) = _; rw [sum_eval hexE, EF.num_log hpos]
  have hlseS : Safe env lse := by
    refine ⟨sum_safe hexS, fun r hr => ?_⟩
    rw [sum_eval hexE] at hr; cases hr; exact hpos
  refine ⟨?_, (rs.map (fun r => r - m)).map (fun r => r - Real.log ((rs.map (fun r => r - m)).map Real.exp).sum), ?_, by simp⟩
  · have k : ∀ e, Safe env e → Safe env (Expr.sub e lse) := fun e h => ⟨h, hlseS⟩
    exact safeVec_map k hshS
  · exact evalsTo_map (env' := env) (f := fun r => r - Real.log ((rs.map (fun r => r - m)).map Real.exp).sum)
      (fun e r hr => by show Expr.eval env e - Expr.eval env lse = _; rw [hr, hlse]; rfl) hshE

/-- the mixture's `_log_prob`: any number `k ≥ 1` of components with safe, finite log-densities and any real raw log-weights -/
theorem mixture_safe {env : Env EF} {ws lps : List (Expr EF)} {wr lr : List ℝ}
    (hws : SafeVec env ws) (hwe : EvalsTo env ws wr) (hls : SafeVec env lps) (hle : EvalsTo env lps lr)
    (hlen : wr.length = lr.length) (hne : lr ≠ []) :
    Safe env (VmapMixture.log_prob.ast (VmapMixture.log_normalized_weights.ast ws) lps) ∧
    ∃ v, (VmapMixture.log_prob.ast (VmapMixture.log_normalized_weights.ast ws) lps).eval env = fin v := by
  have hwne : wr ≠ [] := by intro h; rw [h] at hlen; exact hne (List.length_eq_zero_iff.mp hlen.symm)
  obtain ⟨hnS, nr, hnE, hnl⟩ := logSoftmax_safe hws hwe hwne
  unfold VmapMixture.log_prob.ast VmapMixture.log_normalized_weights.ast
  refine logsumexp_safe (rs := List.zipWith (· + ·) lr nr)
    (safeVec_zip (op := Expr.add) (fun _ _ a b => ⟨a, b⟩) hls hnS)
    (evalsTo_zip (fun a b x y hx hy => by simp [Expr.eval, hx, hy]) hle hnE) ?_
  intro h
  have := congrArg List.length h
  simp only [List.length_zipWith, List.length_nil, hnl, hlen, Nat.min_self] at this
  exact hne (List.length_eq_zero_iff.mp this)

/-- concrete environment: raw log-weights (vector 0) and the components' log-densities (vector 1) -/
def envMix (wr lr : List ℝ) : Env EF := { s := fun _ => fin 0, v := fun j => if j = 0 then wr.map fin else if j = 1 then lr.map fin else [] }

theorem mixture_params_safe (wr lr : List ℝ) (hlen : wr.length = lr.length) (hne : lr ≠ []) :
    Safe (envMix wr lr) (VmapMixture.log_prob.ast (VmapMixture.log_normalized_weights.ast (Vec.ofVec 0 wr.length)) (Vec.ofVec 1 wr.length)) :=
  (mixture_safe (ofVec_safe (ws := wr) rfl) (ofVec_evalsTo (ws := wr) rfl rfl) (ofVec_safe (ws := lr) rfl)
    (ofVec_evalsTo (ws := lr) rfl hlen.symm) hlen hne).1
end AdM
end
