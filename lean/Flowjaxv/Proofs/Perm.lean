import Mathlib.Data.List.Perm.Basic
import Mathlib.Data.List.Nodup
import Mathlib.Data.List.Range
import Mathlib.Data.List.Sort
import Mathlib.Tactic
import Flowjaxv.Model.Perm
/-! Permute is a bijection for every permutation of every length. -/
namespace PermModel
variable {α : Type} [Inhabited α]

theorem length_argsort (perm : List Nat) : (argsort perm).length = perm.length := by
  simp [argsort]

theorem inv_fwd (perm : List Nat) (h : perm.Perm (List.range perm.length)) (xs : List α)
    (hx : xs.length = perm.length) : inv perm (fwd perm xs) = xs := by
  apply List.ext_getElem
  · simp [inv, fwd, argsort, hx]
  · intro j h1 h2
    have hj : j < perm.length := by rw [← hx]; exact h2
    have hmem : j ∈ perm := h.mem_iff.mpr (List.mem_range.mpr hj)
    have hidx : perm.idxOf j < perm.length := List.idxOf_lt_length_iff.mpr hmem
    simp only [inv, fwd, argsort, List.getElem_map, List.getElem_range, List.getD_eq_getElem?_getD]
    rw [List.getElem?_map, List.getElem?_eq_getElem hidx]
    simp only [Option.map_some, Option.getD_some, List.getElem_idxOf hidx]
    rw [List.getElem?_eq_getElem h2]; rfl

theorem fwd_inv (perm : List Nat) (h : perm.Perm (List.range perm.length)) (ys : List α)
    (hy : ys.length = perm.length) : fwd perm (inv perm ys) = ys := by
  have hnd : perm.Nodup := h.nodup_iff.mpr List.nodup_range
  apply List.ext_getElem
  · simp [inv, fwd, argsort, hy]
  · intro i h1 h2
    have hi : i < perm.length := by rw [← hy]; exact h2
    have hlt : perm[i] < perm.length := by
      have : perm[i] ∈ List.range perm.length := h.mem_iff.mp (List.getElem_mem hi)
      exact List.mem_range.mp this
    simp only [inv, fwd, argsort, List.getElem_map, List.getD_eq_getElem?_getD]
    rw [List.getElem?_map, List.getElem?_map, List.getElem?_range hlt]
    simp only [Option.map_some, Option.getD_some]
    rw [hnd.idxOf_getElem i hi, List.getElem?_eq_getElem h2]; rfl

/-- the constructor's test accepts exactly the permutations of `0..n-1` -/
theorem valid_iff (perm : List Nat) : valid perm = true ↔ perm.Perm (List.range perm.length) := by
  unfold valid
  constructor
  · intro h
    have h' : perm.mergeSort (· ≤ ·) = List.range perm.length := by simpa using h
    have hp := (List.mergeSort_perm perm (· ≤ ·)).symm
    rw [h'] at hp; exact hp
  · intro h
    have hs : (perm.mergeSort (· ≤ ·)).Pairwise (· ≤ ·) := by
      have := List.pairwise_mergeSort (le := fun a b : Nat => decide (a ≤ b))
        (by intro a b c; simp; omega) (by intro a b; simp; omega) perm
      simpa using this
    have hp : (perm.mergeSort (· ≤ ·)).Perm (List.range perm.length) :=
      (List.mergeSort_perm perm _).trans h
    have hr : (List.range perm.length).Pairwise (· ≤ ·) :=
      (List.pairwise_lt_range (n := perm.length)).imp (fun h => Nat.le_of_lt h)
    have := List.Perm.eq_of_pairwise (l₁ := perm.mergeSort (· ≤ ·)) (l₂ := List.range perm.length)
      (le := (· ≤ ·)) (fun a b _ _ hab hba => Nat.le_antisymm hab hba) hs hr hp
    simp [this]

end PermModel
