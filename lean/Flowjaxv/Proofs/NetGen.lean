import Flowjaxv.Model.NetGenBij
import Flowjaxv.Proofs.NetLawful
import Flowjaxv.Proofs.NetLogDet
/-!
# generated = model for the methods of `Coupling` and `MaskedAutoregressive`

`Gen/NetGen.lean` is regenerated from `/repo/flowjax/bijections/coupling.py` and `masked_autoregressive.py` on every run.
Here the generated methods are proved equal to the hand models `Masks.couplingBij` / `Masks.mafBij`
(`Model/Masks.lean`, `Model/NetInverse.lean`) for EVERY input, condition (`None` or an array), dimension, conditioner
function / masked network and transformer family, at EVERY scalar type (so also at `Float`, where the driver runs them);
every theorem about the hand models is then restated on the generated definitions (`Props/C01`, `C02`, `C09`).
-/
set_option linter.unusedSectionVars false
set_option linter.unusedVariables false
open Masks Nw GenNet

namespace NetGenPf

section generic
variable {α : Type} [Add α] [Mul α] [Neg α] [OfNat α 0] [Inhabited α]

/-- `x if condition is None else jnp.hstack((x, condition))` is `x ++ condition` with `[]` for `None` -/
theorem nnInput_eq (a : List α) (c : Option (List α)) :
    (match c with | none => a | some v => Nw.hstack (a, v)) = a ++ c.getD [] := by
  cases c <;> simp [Nw.hstack]

/-- `jnp.reshape(params, (d, -1))` as generated is `reshapeRows` -/
theorem reshape2_neg_one (flat : List α) (d : Int) :
    Nw.reshape2 flat (d, Nw.negNat 1) = reshapeRows d.toNat flat := by
  simp [Nw.reshape2, Nw.negNat]

theorem reshape2_neg_one' (flat : List α) (d : Int) :
    Nw.reshape2 flat (d, -1) = reshapeRows d.toNat flat := by
  simp [Nw.reshape2]

theorem zipWith_map_tf {β : Type} (f : Bij α Unit α → α → β) (tf : List α → Bij α Unit α) (rows : List (List α))
    (xs : List α) : List.zipWith f (rows.map tf) xs = List.zipWith (fun ps t => f (tf ps) t) rows xs := by
  rw [List.zipWith_map_left]

/-- the generated `Coupling._flat_params_to_transformer` -/
theorem coupling_flat_eq (self : CouplingObj α) (ps : List α) :
    Coupling.flatParamsToTransformer self ps
      = Nw.Vmap ((reshapeRows (self.dim - self.untransformed_dim) ps).map self.transformer_constructor) := by
  simp [Coupling.flatParamsToTransformer, reshape2_neg_one, Nw.subNat, Int.toNat_sub]

/-- **generated `Coupling` = `Masks.couplingBij`**, all four methods, every `x` of the declared length `dim`, every
condition (`None` or an array), every conditioner function and transformer family, every split. -/
theorem gen_coupling_eq_model (self : CouplingObj α) (x : List α) (c : Option (List α)) (hx : x.length = self.dim) :
    (Coupling.toBij self).fwd x c
        = (couplingBij self.untransformed_dim self.conditioner self.transformer_constructor).fwd x (c.getD []) ∧
    (Coupling.toBij self).inv x c
        = (couplingBij self.untransformed_dim self.conditioner self.transformer_constructor).inv x (c.getD []) ∧
    (Coupling.toBij self).fwdLd x c
        = (couplingBij self.untransformed_dim self.conditioner self.transformer_constructor).fwdLd x (c.getD []) ∧
    (Coupling.toBij self).invLd x c
        = (couplingBij self.untransformed_dim self.conditioner self.transformer_constructor).invLd x (c.getD []) := by
  cases c <;> refine ⟨?_, ?_, ?_, ?_⟩ <;>
    simp only [Coupling.toBij, Coupling.transform, Coupling.inverse, Coupling.transformAndLogDet, Coupling.inverseAndLogDet,
      couplingBij, couplingTransform, couplingInverse, coupling_flat_eq, hx, Nw.sliceTo, Nw.sliceFrom, Nw.hstack,
      Nw.vmapTransform, Nw.vmapInverse, Nw.vmapTransformLd, Nw.vmapInverseLd, Nw.Vmap, zipWith_map_tf,
      Option.getD_none, Option.getD_some, List.append_nil]

/-- the same as an equation of `Bij` records on the points of the declared length -/
theorem gen_coupling_toBij_eq (self : CouplingObj α) (x : List α) (c : Option (List α)) (hx : x.length = self.dim) :
    (Coupling.toBij self).fwd x c = (optCond (couplingBij self.untransformed_dim self.conditioner self.transformer_constructor)).fwd x c ∧
    (Coupling.toBij self).inv x c = (optCond (couplingBij self.untransformed_dim self.conditioner self.transformer_constructor)).inv x c ∧
    (Coupling.toBij self).fwdLd x c = (optCond (couplingBij self.untransformed_dim self.conditioner self.transformer_constructor)).fwdLd x c ∧
    (Coupling.toBij self).invLd x c = (optCond (couplingBij self.untransformed_dim self.conditioner self.transformer_constructor)).invLd x c :=
  gen_coupling_eq_model self x c hx

/-! ## MaskedAutoregressive -/

/-- the generated `MaskedAutoregressive._flat_params_to_transformer` on the object built from a masked net -/
theorem maf_flat_eq (N : MafNet α) (tf : List α → Bij α Unit α) (ps : List α) :
    Maf.flatParamsToTransformer (MafObj.ofNet N tf) ps = Nw.Vmap ((reshapeRows N.dim ps).map tf) := by
  simp [Maf.flatParamsToTransformer, reshape2_neg_one', MafObj.ofNet, Nw.shapeIdx, Nw.negNat]

theorem gen_maf_transform_eq (N : MafNet α) (tf : List α → Bij α Unit α) (x : List α) (c : Option (List α)) :
    Maf.transform (MafObj.ofNet N tf) x c = (mafBij N tf).fwd x (c.getD []) := by
  cases c <;>
    simp only [Maf.transform, maf_flat_eq, Nw.vmapTransform, Nw.Vmap, zipWith_map_tf, mafBij, MafNet.transform,
      MafNet.params, MafNet.flatParams, Nw.hstack, Option.getD_none, Option.getD_some, List.append_nil] <;> rfl

theorem gen_maf_transformLd_eq (N : MafNet α) (tf : List α → Bij α Unit α) (x : List α) (c : Option (List α)) :
    Maf.transformAndLogDet (MafObj.ofNet N tf) x c = (mafBij N tf).fwdLd x (c.getD []) := by
  cases c <;>
    simp only [Maf.transformAndLogDet, maf_flat_eq, Nw.vmapTransformLd, Nw.Vmap, mafBij,
      MafNet.params, MafNet.flatParams, Nw.hstack, Option.getD_none, Option.getD_some, List.append_nil] <;> rfl

theorem params_length' (N : MafNet α) (x cond : List α) : (N.params x cond).length = N.dim := by
  simp [MafNet.params, reshapeRows]

theorem invStep_length (N : MafNet α) (Tinv : List α → α → α) (cond y : List α) (k : Nat) :
    (N.invStep Tinv cond y k).length = y.length := by
  unfold MafNet.invStep
  split <;> simp

theorem invFold_length (N : MafNet α) (Tinv : List α → α → α) (cond : List α) (n : Nat) (y : List α) :
    ((List.range n).foldl (N.invStep Tinv cond) y).length = y.length := by
  induction n with
  | zero => simp
  | succ n ih => rw [List.range_succ, List.foldl_append]; simp [invStep_length, ih]

/-- **one generated scan step = `MafNet.invStep`** (the body of `inv_scan_fn`, with `rank < len(y) = dim`) -/
theorem gen_invScanFn_eq (N : MafNet α) (tf : List α → Bij α Unit α) (c : Option (List α)) (y : List α) (k : Nat)
    (hy : y.length = N.dim) (hk : k < N.dim) :
    Maf.invScanFn (MafObj.ofNet N tf) (y, k) () c
      = ((N.invStep (fun ps t => (tf ps).inv t ()) (c.getD []) y k, k + 1), ()) := by
  have hz : (List.zipWith (fun ps t => (tf ps).inv t ()) (N.params y (c.getD [])) y).length = N.dim := by
    simp [params_length', hy]
  have hkz : k < (List.zipWith (fun ps t => (tf ps).inv t ()) (N.params y (c.getD [])) y).length := by omega
  have e : Maf.invScanFn (MafObj.ofNet N tf) (y, k) () c
      = ((y.set k ((List.zipWith (fun ps t => (tf ps).inv t ()) (N.params y (c.getD [])) y).getD
          (min k ((List.zipWith (fun ps t => (tf ps).inv t ()) (N.params y (c.getD [])) y).length - 1)) default), k + 1), ()) := by
    cases c <;>
      simp only [Maf.invScanFn, maf_flat_eq, Nw.vmapInverse, Nw.Vmap, zipWith_map_tf, Nw.atSet, Nw.atIdx, Nw.at_,
        Nw.idx, Nw.hstack, Option.getD_none, Option.getD_some, List.append_nil, MafNet.params, MafNet.flatParams] <;> rfl
  rw [e]
  have hmin : min k ((List.zipWith (fun ps t => (tf ps).inv t ()) (N.params y (c.getD [])) y).length - 1) = k := by omega
  rw [hmin]
  unfold MafNet.invStep
  rw [List.getElem?_eq_getElem hkz]
  simp [List.getD_eq_getElem?_getD, List.getElem?_eq_getElem hkz]

/-- the generated scan (`jax.lax.scan(fn, (y, 0), None, length=n)`) is the fold of `invStep` over `range n`, carrying the
rank -/
theorem gen_scan_eq (N : MafNet α) (tf : List α → Bij α Unit α) (c : Option (List α)) (y : List α)
    (hy : y.length = N.dim) (n : Nat) (hn : n ≤ N.dim) :
    (List.range n).foldl (fun cr _ => (Maf.invScanFn (MafObj.ofNet N tf) cr () c).1) (y, 0)
      = ((List.range n).foldl (N.invStep (fun ps t => (tf ps).inv t ()) (c.getD [])) y, n) := by
  induction n with
  | zero => simp
  | succ n ih =>
    rw [List.range_succ, List.foldl_append, List.foldl_append, ih (by omega)]
    simp only [List.foldl_cons, List.foldl_nil]
    rw [gen_invScanFn_eq N tf c _ n (by rw [invFold_length, hy]) (by omega)]

theorem gen_maf_inverse_eq (N : MafNet α) (tf : List α → Bij α Unit α) (y : List α) (c : Option (List α))
    (hy : y.length = N.dim) :
    Maf.inverse (MafObj.ofNet N tf) y c = (mafBij N tf).inv y (c.getD []) := by
  simp only [Maf.inverse, Nw.scanNone, mafBij, MafNet.inverse]
  rw [gen_scan_eq N tf c y hy y.length (by omega)]

/-- **generated `MaskedAutoregressive` = `Masks.mafBij`**, all four methods (the inverse scan included), every masked
network (all sizes, weights, activation, both rank branches), every transformer family, every `x` of length `dim`,
every condition. -/
theorem gen_maf_eq_model (N : MafNet α) (tf : List α → Bij α Unit α) (x : List α) (c : Option (List α))
    (hx : x.length = N.dim) :
    (Maf.toBij (MafObj.ofNet N tf)).fwd x c = (mafBij N tf).fwd x (c.getD []) ∧
    (Maf.toBij (MafObj.ofNet N tf)).inv x c = (mafBij N tf).inv x (c.getD []) ∧
    (Maf.toBij (MafObj.ofNet N tf)).fwdLd x c = (mafBij N tf).fwdLd x (c.getD []) ∧
    (Maf.toBij (MafObj.ofNet N tf)).invLd x c = (mafBij N tf).invLd x (c.getD []) := by
  refine ⟨gen_maf_transform_eq N tf x c, gen_maf_inverse_eq N tf x c hx, gen_maf_transformLd_eq N tf x c, ?_⟩
  simp only [Maf.toBij, Maf.inverseAndLogDet, gen_maf_inverse_eq N tf x c hx, gen_maf_transformLd_eq]
  rfl

/-! ## the constructors: guard and declared shapes -/

/-- the generated `Coupling.__init__` fragment: raises (`none`) iff the transformer is not an unconditional bijection of shape
`()`; otherwise the attributes are those of `CouplingObj.mk'` (`shape = (dim,)`, `cond_shape = (cond_dim,)` or `None`, the two
sizes as passed) -/
theorem gen_coupling_init_spec (t : Nw.TSpec) (d dim : Nat) (cd : Option Nat) (w dep : Nat)
    (cnd : List α → List α) (tf : List α → Bij α Unit α) :
    (Coupling.initShapes t d dim cd w dep = none ↔ (t.shape ≠ [] ∨ t.cond_shape ≠ none)) ∧
    (t.shape = [] → t.cond_shape = none →
      Coupling.initShapes t d dim cd w dep
        = some ((CouplingObj.mk' d dim cd cnd tf).shape, (CouplingObj.mk' d dim cd cnd tf).cond_shape,
                (CouplingObj.mk' d dim cd cnd tf).untransformed_dim, (CouplingObj.mk' d dim cd cnd tf).dim)) := by
  constructor
  · cases h : t.cond_shape <;> by_cases h' : t.shape = [] <;> simp [Coupling.initShapes, h, h']
  · intro h h'
    cases cd <;> simp [Coupling.initShapes, h, h', CouplingObj.mk']

/-- the generated `MaskedAutoregressive.__init__` fragment: the same guard; `shape = (dim,)` — what `MafObj.ofNet` declares
(`_flat_params_to_transformer` reads `self.shape[-1]`) -/
theorem gen_maf_init_spec (t : Nw.TSpec) (w dep : Nat) (N : MafNet α) (tf : List α → Bij α Unit α) :
    (Maf.initShapes t N.dim N.condDim w dep = none ↔ (t.shape ≠ [] ∨ t.cond_shape ≠ none)) ∧
    (t.shape = [] → t.cond_shape = none →
      Maf.initShapes t N.dim N.condDim w dep = some ((MafObj.ofNet N tf).shape, (MafObj.ofNet N tf).cond_shape)) := by
  constructor
  · cases h : t.cond_shape <;> by_cases h' : t.shape = [] <;> simp [Maf.initShapes, h, h']
  · intro h h'
    cases hc : N.condDim <;> simp [Maf.initShapes, h, h', MafObj.ofNet, hc]

end generic

/-! ## transfer of the theorems about the hand models to the generated definitions (at `ℝ`) -/
section real
open Set

/-- a bijection record `g` that agrees with a lawful `b` (after the change of condition `κ`) on two sets closed under `b`
is lawful there -/
theorem lawful_transfer {X C C' L : Type} (g : Bij X C' L) (b : Bij X C L) (κ : C' → C) (D E D₀ E₀ : Set X)
    (hb : b.Lawful D₀ E₀) (hD : D ⊆ D₀) (hE : E ⊆ E₀)
    (hmaps : ∀ x ∈ D, ∀ c, b.fwd x c ∈ E) (hmapsInv : ∀ y ∈ E, ∀ c, b.inv y c ∈ D)
    (hfwd : ∀ x ∈ D, ∀ c, g.fwd x c = b.fwd x (κ c)) (hinv : ∀ y ∈ E, ∀ c, g.inv y c = b.inv y (κ c))
    (h1 : ∀ x c, (g.fwdLd x c).1 = g.fwd x c) (h2 : ∀ y c, (g.invLd y c).1 = g.inv y c) : g.Lawful D E := by
  refine ⟨?_, ?_, ?_, ?_, h1, h2⟩
  · intro x hx c; rw [hfwd x hx]; exact hmaps x hx _
  · intro y hy c; rw [hinv y hy]; exact hmapsInv y hy _
  · intro x hx c; rw [hfwd x hx, hinv _ (hmaps x hx _)]; exact hb.left x (hD hx) _
  · intro y hy c; rw [hinv y hy, hfwd _ (hmapsInv y hy _)]; exact hb.right y (hE hy) _

/-- the point returned by the generated `Coupling.transform_and_log_det` is `Coupling.transform`'s — for EVERY input (no
shape hypothesis), whenever each scalar transformer has that property -/
theorem gen_coupling_fwdLd_fst (self : CouplingObj ℝ)
    (h : ∀ ps t, ((self.transformer_constructor ps).fwdLd t ()).1 = (self.transformer_constructor ps).fwd t ())
    (x : List ℝ) (c : Option (List ℝ)) :
    (Coupling.transformAndLogDet self x c).1 = Coupling.transform self x c := by
  cases c <;>
    simp only [Coupling.transformAndLogDet, Coupling.transform, coupling_flat_eq, Nw.vmapTransformLd, Nw.vmapTransform,
      Nw.Vmap, vmapFwdLd, Nw.hstack, NetLawful.zipWith_map_fst _ h, zipWith_map_tf]

theorem gen_coupling_invLd_fst (self : CouplingObj ℝ)
    (h : ∀ ps t, ((self.transformer_constructor ps).invLd t ()).1 = (self.transformer_constructor ps).inv t ())
    (y : List ℝ) (c : Option (List ℝ)) :
    (Coupling.inverseAndLogDet self y c).1 = Coupling.inverse self y c := by
  cases c <;>
    simp only [Coupling.inverseAndLogDet, Coupling.inverse, coupling_flat_eq, Nw.vmapInverseLd, Nw.vmapInverse,
      Nw.Vmap, vmapInvLd, Nw.hstack, NetLawful.zipWith_map_fst_inv _ h, zipWith_map_tf]

/-- **the generated `Coupling` is lawful** on the vectors of the declared length -/
theorem gen_coupling_lawful (self : CouplingObj ℝ) (D₁ E₁ : Set ℝ)
    (htf : ∀ ps, (self.transformer_constructor ps).Lawful D₁ E₁) :
    (Coupling.toBij self).Lawful
      {x | x.length = self.dim ∧ ∀ t ∈ x.drop self.untransformed_dim, t ∈ D₁}
      {y | y.length = self.dim ∧ ∀ t ∈ y.drop self.untransformed_dim, t ∈ E₁} := by
  have hb := NetLawful.coupling_lawful self.untransformed_dim self.conditioner self.transformer_constructor D₁ E₁ htf
  refine lawful_transfer _ _ (fun c => c.getD []) _ _ _ _ hb (fun x hx => hx.2) (fun y hy => hy.2) ?_ ?_ ?_ ?_ ?_ ?_
  · intro x hx c
    exact ⟨(NetLawful.coupling_length' _ _ _ x c).trans hx.1, hb.maps x hx.2 c⟩
  · intro y hy c
    exact ⟨(NetLawful.coupling_length' _ _ _ y c).trans hy.1, hb.mapsInv y hy.2 c⟩
  · intro x hx c; exact (gen_coupling_eq_model self x c hx.1).1
  · intro y hy c; exact (gen_coupling_eq_model self y c hy.1).2.1
  · exact gen_coupling_fwdLd_fst self (fun ps t => (htf ps).fwdLd_fst t ())
  · exact gen_coupling_invLd_fst self (fun ps t => (htf ps).invLd_fst t ())

theorem gen_maf_fwdLd_fst (self : MafObj ℝ)
    (h : ∀ ps t, ((self.transformer_constructor ps).fwdLd t ()).1 = (self.transformer_constructor ps).fwd t ())
    (x : List ℝ) (c : Option (List ℝ)) :
    (Maf.transformAndLogDet self x c).1 = Maf.transform self x c := by
  cases c <;>
    simp only [Maf.transformAndLogDet, Maf.transform, Maf.flatParamsToTransformer, Nw.vmapTransformLd, Nw.vmapTransform,
      Nw.Vmap, vmapFwdLd, Nw.hstack, NetLawful.zipWith_map_fst _ h, zipWith_map_tf]

/-- **the generated `MaskedAutoregressive` is lawful** (object built from any well-shaped masked network) -/
theorem gen_maf_lawful (N : MafNet ℝ) (hN : N.WellShaped) (tf : List ℝ → Bij ℝ Unit ℝ) (D₁ E₁ : Set ℝ)
    (htf : ∀ ps, (tf ps).Lawful D₁ E₁) :
    (Maf.toBij (MafObj.ofNet N tf)).Lawful {x | x.length = N.dim ∧ ∀ t ∈ x, t ∈ D₁} {y | y.length = N.dim ∧ ∀ t ∈ y, t ∈ E₁} := by
  have hb := NetLawful.maf_lawful N hN tf D₁ E₁ htf
  refine lawful_transfer _ _ (fun c => c.getD []) _ _ _ _ hb (fun x hx => hx) (fun y hy => hy) hb.maps hb.mapsInv ?_ ?_ ?_ ?_
  · intro x hx c; exact (gen_maf_eq_model N tf x c hx.1).1
  · intro y hy c; exact (gen_maf_eq_model N tf y c hy.1).2.1
  · exact gen_maf_fwdLd_fst (MafObj.ofNet N tf) (fun ps t => (htf ps).fwdLd_fst t ())
  · intro y c; rfl

/-- the generated forward maps, read in coordinates on `ℝⁿ`, are the hand models' -/
theorem gen_coupling_coords (self : CouplingObj ℝ) (c : Option (List ℝ)) :
    NetLogDet.coords self.dim (fun x => (Coupling.toBij self).fwd x c)
      = NetLogDet.coords self.dim
          (fun x => (couplingBij self.untransformed_dim self.conditioner self.transformer_constructor).fwd x (c.getD [])) := by
  funext w
  unfold NetLogDet.coords
  beta_reduce
  rw [(gen_coupling_eq_model self (List.ofFn w) c (by simp)).1]

theorem gen_maf_coords (N : MafNet ℝ) (tf : List ℝ → Bij ℝ Unit ℝ) (c : Option (List ℝ)) :
    NetLogDet.coords N.dim (fun x => (Maf.toBij (MafObj.ofNet N tf)).fwd x c)
      = NetLogDet.coords N.dim (fun x => (mafBij N tf).fwd x (c.getD [])) := by
  funext w
  unfold NetLogDet.coords
  beta_reduce
  rw [(gen_maf_eq_model N tf (List.ofFn w) c (by simp)).1]

end real

/-! ## concrete objects over `ℤ` for the kernel-evaluated instances of `Props/C01`, `C02`, `C09` -/

/-- the scalar family "shift by the first parameter" (log-det `0`) at `ℤ` -/
def shiftFamilyZ (ps : List Int) : Bij Int Unit Int :=
  ⟨fun x _ => x + ps.getD 0 0, fun y _ => y + -(ps.getD 0 0), fun x _ => (x + ps.getD 0 0, 0),
   fun y _ => (y + -(ps.getD 0 0), 0)⟩

/-- a `Coupling` on `ℤ³` (`untransformed_dim = 1`, `cond_dim = 1`) with the non-linear conditioner
`(a, c) ↦ (a², a + c)` -/
def couplingExampleZ : CouplingObj Int :=
  CouplingObj.mk' 1 3 (some 1) (fun l => [l.getD 0 0 * l.getD 0 0, l.getD 0 0 + l.getD 1 0]) shiftFamilyZ

/-- the masked net of `MasksPf.mafExample` (dim 2, width 2, depth 1, identity activation, all raw weights 1) at `ℤ` -/
def mafExampleZ : MafNet Int :=
  { dim := 2, condDim := none, width := 2, depth := 1, numParams := 1,
    weights := [[[1, 1], [1, 1]], [[1, 1], [1, 1]]], biases := [[0, 0], [0, 0]], act := fun z => z }

end NetGenPf
