import Flowjaxv.Model.NetGenBij
import Flowjaxv.Proofs.NetLawful
import Flowjaxv.Proofs.NetLogDet
/-!
# generated = model for the methods of `Coupling` and `MaskedAutoregressive`

`Gen/NetGen.lean` is regenerated from `/repo/flowjax/bijections/coupling.py` and `masked_autoregressive.py` on every run.
Here the generated methods are proved equal to the hand models `Masks.couplingBij` / `Masks.mafBij`
(`Model/Masks.lean`, `Model/NetInverse.lean`) for EVERY input, condition (`None` or an array), dimension, conditioner
function / masked network and transformer family, at EVERY scalar type (so also at `Float`, where the driver runs them);
every theorem about the hand models is then restated on the generated definitions (`Props/C01`, `C02`, `C09`).
-/
set_option linter.unusedSectionVars false
set_option linter.unusedVariables false
open Masks Nw GenNet

namespace NetGenPf

section generic
variable {α : Type} [Add α] [Mul α] [Neg α] [OfNat α 0] [Inhabited α]

/-- `x if condition is None else jnp.hstack((x, condition))` is `x ++ condition` with `[]` for `None` -/
theorem nnInput_eq (a : List α) (c : Option (List α)) :
    (match c with | none => a | some v => Nw.hstack (a, v)) = a ++ c.getD [] := by
  cases c <;> simp [Nw.hstack]

/-- `jnp.reshape(params, (d, -1))` as generated is `reshapeRows` -/
theorem reshape2_neg_one (flat : List α) (d : Int) :
    Nw.reshape2 flat (d, Nw.negNat 1) = reshapeRows d.toNat flat := by
  simp [Nw.reshape2, Nw.negNat]

theorem reshape2_neg_one' (flat : List α) (d : Int) :
    Nw.reshape2 flat (d, -1) = reshapeRows d.toNat flat := by
  simp [Nw.reshape2]

theorem zipWith_map_tf {β : Type} (f : Bij α Unit α → α → β) (tf : List α → Bij α Unit α) (rows : List (List α))
    (xs : List α) : List.zipWith f (rows.map tf) xs = List.zipWith (fun ps t => f (tf ps) t) rows xs := by
  rw [List.zipWith_map_left]

/-- the generated `Coupling._flat_params_to_transformer` -/
theorem coupling_flat_eq (self : CouplingObj α) (ps : List α) :
    Coupling.flatParamsToTransformer self ps
      = Nw.Vmap ((reshapeRows (self.dim - self.untransformed_dim) ps).map self.transformer_constructor) := by
  simp [Coupling.flatParamsToTransformer, reshape2_neg_one, Nw.subNat, Int.toNat_sub]

/-- **generated `Coupling` = `Masks.couplingBij`**, all four methods, every `x` of the declared length `dim`, every
condition (`None` or an array), every conditioner function and transformer family, every split. -/
theorem gen_coupling_eq_model (self : CouplingObj α) (x : List α) (c : Option (List α)) (hx : x.length = self.dim) :
    (Coupling.toBij self).fwd x c
        = (couplingBij self.untransformed_dim self.conditioner self.transformer_constructor).fwd x (c.getD []) ∧
    (Coupling.toBij self).inv x c
        = (couplingBij self.untransformed_dim self.conditioner self.transformer_constructor).inv x (c.getD []) ∧
    (Coupling.toBij self).fwdLd x c
        = (couplingBij self.untransformed_dim self.conditioner self.transformer_constructor).fwdLd x (c.getD []) ∧
    (Coupling.toBij self).invLd x c
        = (couplingBij self.untransformed_dim self.conditioner self.transformer_constructor).invLd x (c.getD []) := by
  cases c <;> refine ⟨?_, ?_, ?_, ?_⟩ <;>
    simp only [Coupling.toBij, Coupling.transform, Coupling.inverse, Coupling.transformAndLogDet, Coupling.inverseAndLogDet,
      couplingBij, couplingTransform, couplingInverse, coupling_flat_eq, hx, Nw.sliceTo, Nw.sliceFrom, Nw.hstack,
      Nw.vmapTransform, Nw.vmapInverse, Nw.vmapTransformLd, Nw.vmapInverseLd, Nw.Vmap, zipWith_map_tf,
      Option.getD_none, Option.getD_some, List.append_nil]

/-- the same as an equation of `Bij` records on the points of the declared length -/
theorem gen_coupling_toBij_eq (self : CouplingObj α) (x : List α) (c : Option (List α)) (hx : x.length = self.dim) :
    (Coupling.toBij self).fwd x c = (optCond (couplingBij self.untransformed_dim self.conditioner self.transformer_constructor)).fwd x c ∧
    (Coupling.toBij self).inv x c = (optCond (couplingBij self.untransformed_dim self.conditioner self.transformer_constructor)).inv x c ∧
    (Coupling.toBij self).fwdLd x c = (optCond (couplingBij self.untransformed_dim self.conditioner self.transformer_constructor)).fwdLd x c ∧
    (Coupling.toBij self).invLd x c = (optCond (couplingBij self.untransformed_dim self.conditioner self.transformer_constructor)).invLd x c :=
  gen_coupling_eq_model self x c hx

/-! ## MaskedAutoregressive -/

/-- the generated `MaskedAutoregressive._flat_params_to_transformer` on the object built from a masked net -/
theorem maf_flat_eq (N : MafNet α) (tf : List α → Bij α Unit α) (ps : List α) :
    Maf.flatParamsToTransformer (MafObj.ofNet N tf) ps = Nw.Vmap ((reshapeRows N.dim ps).map tf) := by
  simp [Maf.flatParamsToTransformer, reshape2_neg_one', MafObj.ofNet, Nw.shapeIdx, Nw.negNat]

theorem gen_maf_transform_eq (N : MafNet α) (tf : List α → Bij α Unit α) (x : List α) (c : Option (List α)) :
    Maf.transform (MafObj.ofNet N tf) x c = (mafBij N tf).fwd x (c.getD []) := by
  cases c <;>
    simp only [Maf.transform, maf_flat_eq, Nw.vmapTransform, Nw.Vmap, zipWith_map_tf, mafBij, MafNet.transform,
      MafNet.params, MafNet.flatParams, Nw.hstack, Option.getD_none, Option.getD_some, List.append_nil] <;> rfl

theorem gen_maf_transformLd_eq (N : MafNet α) (tf : List α → Bij α Unit α) (x : List α) (c : Option (List α)) :
    Maf.transformAndLogDet (MafObj.ofNet N tf) x c = (mafBij N tf).fwdLd x (c.getD []) := by
  cases c <;>
    simp only [Maf.transformAndLogDet, maf_flat_eq, Nw.vmapTransformLd, Nw.Vmap, mafBij,
      MafNet.params, MafNet.flatParams, Nw.hstack, Option.getD_none, Option.getD_some, List.append_nil] <;> rfl

theorem params_length' (N : MafNet α) (x cond : List α) : (N.params x cond).length = N.dim := by
  simp [MafNet.params, reshapeRows]

theorem invStep_length (N : MafNet α) (Tinv : List α → α → α) (cond y : List α) (k : Nat) :
    (N.invStep Tinv cond y k).length = y.length := by
  unfold MafNet.invStep
  split <;> simp

theorem invFold_length (N : MafNet α) (Tinv : List α → α → α) (cond : List α) (n : Nat) (y : List α) :
    ((List.range n).foldl (N.invStep Tinv cond) y).length = y.length := by
  induction n with
  | zero => simp
  | succ n ih => rw [List.range_succ, List.foldl_append]; simp [invStep_length, ih]

/-- **one generated scan step = `MafNet.invStep`** (the body of `inv_scan_fn`, with `rank < len(y) = dim`) -/
theorem gen_invScanFn_eq (N : MafNet α) (tf : List α → Bij α Unit α) (c : Option (List α)) (y : List α) (k : Nat)
    (hy : y.length = N.dim) (hk : k < N.dim) :
    Maf.invScanFn (MafObj.ofNet N tf) (y, k) () c
      = ((N.invStep (fun ps t => (tf ps).inv t ()) (c.getD []) y k, k + 1), ()) := by
  have hz : (List.zipWith (fun ps t => (tf ps).inv t ()) (N.params y (c.getD [])) y).length = N.dim := by
    simp [params_length', hy]
  have hkz : k < (List.zipWith (fun ps t => (tf ps).inv t ()) (N.params y (c.getD [])) y).length := by omega
  have e : Maf.invScanFn (MafObj.ofNet N tf) (y, k) () c
      = ((y.set k ((List.zipWith (fun ps t => (tf ps).inv t ()) (N.params y (c.getD [])) y).getD
          (min k ((List.zipWith (fun ps t => (tf ps).inv t ()) (N.params y (c.getD [])) y).length - 1)) default), k + 1), ()) := by
    cases c <;>
      simp only [Maf.invScanFn, maf_flat_eq, Nw.vmapInverse, Nw.Vmap, zipWith_map_tf, Nw.atSet, Nw.atIdx, Nw.at_,
        Nw.idx, Nw.hstack, Option.getD_none, Option.getD_some, List.append_nil, MafNet.params, MafNet.flatParams] <;> rfl
  rw [e]
  have hmin : min k ((List.zipWith (fun ps t => (tf ps).inv t ()) (N.params y (c.getD [])) y).length - 1) = k := by omega
  rw [hmin]
  unfold MafNet.invStep
  rw [List.getElem?_eq_getElem hkz]
  simp [List.getD_eq_getElem?_getD, List.getElem?_eq_getElem hkz]

/-- the generated scan (`jax.lax.scan(fn, (y, 0), None, length=n)`) is the fold of `invStep` over `range n`, carrying the
rank -/
theorem gen_scan_eq (N : MafNet α) (tf : List α → Bij α Unit α) (c : Option (List α)) (y : List α)
    (hy : y.length = N.dim) (n : Nat) (hn : n ≤ N.dim) :
    (List.range n).foldl (fun cr _ => (Maf.invScanFn (MafObj.ofNet N tf) cr () c).1) (y, 0)
      = ((List.range n).foldl (N.invStep (fun ps t => (tf ps).inv t ()) (c.getD [])) y, n) := by
  induction n with
  | zero => simp
  | succ n ih =>
    rw [List.range_succ, List.foldl_append, List.foldl_append, ih (by omega)]
    simp only [List.foldl_cons, List.foldl_nil]
    rw [gen_invScanFn_eq N tf c _ n (by rw [invFold_length, hy]) (by omega)]

theorem gen_maf_inverse_eq (N : MafNet α) (tf : List α → Bij α Unit α) (y : List α) (c : Option (List α))
    (hy : y.length = N.dim) :
    Maf.inverse (MafObj.ofNet N tf) y c = (mafBij N tf).inv y (c.getD []) := by
  simp only [Maf.inverse, Nw.scanNone, mafBij, MafNet.inverse]
  rw [gen_scan_eq N tf c y hy y.length (by omega)]

/-- **generated `MaskedAutoregressive` = `Masks.mafBij`**, all four methods (the inverse scan included), every masked
network (all sizes, weights, activation, both rank branches), every transformer family, every `x` of length `dim`,
every condition. -/
theorem gen_maf_eq_model (N : MafNet α) (tf : List α → Bij α Unit α) (x : List α) (c : Option (List α))
    (hx : x.length = N.dim) :
    (Maf.toBij (MafObj.ofNet N tf)).fwd x c = (mafBij N tf).fwd x (c.getD []) ∧
    (Maf.toBij (MafObj.ofNet N tf)).inv x c = (mafBij N tf).inv x (c.getD []) ∧
    (Maf.toBij (MafObj.ofNet N tf)).fwdLd x c = (mafBij N tf).fwdLd x (c.getD []) ∧
    (Maf.toBij (MafObj.ofNet N tf)).invLd x c = (mafBij N tf).invLd x (c.getD []) := by
  refine ⟨gen_maf_transform_eq N tf x c, gen_maf_inverse_eq N tf x c hx, gen_maf_transformLd_eq N tf x c, ?_⟩
  simp only [Maf.toBij, Maf.inverseAndLogDet, gen_maf_inverse_eq N tf x c hx, gen_maf_transformLd_eq]
  rfl

end generic

end NetGenPf
