import Flowjaxv.Proofs.AdVExpr
import Flowjaxv.Proofs.AdRqs
import Flowjaxv.Proofs.AdNet
/-!
# C18 for coupling / masked-autoregressive layers with the rational-quadratic-spline transformer

The generated parameterisation ASTs (`Gen/SplineAst.lean`) are safe for every real raw leaf and evaluate to the generated shallow
definitions `Gen.realToIncreasingOnInterval` / `Gen.rqsDerivatives` (so the C11 lemma `knots_generated` applies: the knots are
strictly increasing and padded with the ends, the derivatives positive): the spline record the kernel sees is `RqsWF`, and the
kernel ASTs are safe there (`AdRqs.tld_safe_env`, `ild_safe_env`) at EVERY real input.
-/
set_option linter.unusedSimpArgs false
set_option linter.unusedVariables false
noncomputable section
open Classical Ad EF AdT AdV AdX GenAst Gen

namespace AdS

theorem const_eval (env : Env EF) (r : ℝ) : (Expr.const (fin r) : Expr EF).eval env = fin r := rfl

/-- `_real_to_increasing_on_interval` as an AST: safe, and evaluates to the generated shallow definition, for every non-empty
array of safe finite raw values, `softmax_adjust ≥ 0` (the constructor's argument check) and any interval -/
theorem posParam_safe {env : Env EF} {arr : List (Expr EF)} {raws : List ℝ} {lo hi adj : ℝ} (hne : raws ≠ []) (hadj : 0 ≤ adj)
    (hs : SafeVec (env.set 301001 (fin (hi - lo))) arr) (he : EvalsTo (env.set 301001 (fin (hi - lo))) arr raws) :
    SafeVec env (RealToIncreasingOnInterval.ast arr (Expr.const (fin lo)) (Expr.const (fin hi)) (Expr.const (fin adj))) ∧
    EvalsTo env (RealToIncreasingOnInterval.ast arr (Expr.const (fin lo)) (Expr.const (fin hi)) (Expr.const (fin adj)))
      (realToIncreasingOnInterval raws (lo, hi) adj) := by
  set env' := env.set 301001 (fin (hi - lo)) with henv'
  obtain ⟨hS0, hE0⟩ := softmax_safe hs he hne
  have hlen0 : (Vec.softmax arr).length = (Jnp.softmax raws).length := hE0.length_eq
  have hlenpos : ((Jnp.softmax raws).length : ℝ) ≠ 0 := by
    rw [ParamsPf.softmax_length]
    have : raws.length ≠ 0 := by simpa using hne
    exact_mod_cast this
  have h1a : (1 : ℝ) + adj ≠ 0 := by linarith
  -- the shift `softmax_adjust / widths.size`
  set sh : Expr EF := Expr.div (Expr.const (fin adj)) (Vec.sizeE (Vec.softmax arr)) with hsh
  have hsizeE : (Vec.sizeE (Vec.softmax arr)).eval env' = fin ((Jnp.softmax raws).length : ℝ) := by
    simp [Vec.sizeE, Expr.eval, hlen0]
  have hshE : sh.eval env' = fin (adj / ((Jnp.softmax raws).length : ℝ)) := by
    show Expr.eval env' _ / Expr.eval env' _ = _
    rw [hsizeE, const_eval, EF.fin_div hlenpos]
  have hshS : Safe env' sh := by
    refine ⟨trivial, trivial, ?_⟩
    rw [hsizeE]; intro h; exact hlenpos (EF.fin.inj h)
  set dn : Expr EF := Expr.add (Expr.const (Num.ofInt 1)) (Expr.const (fin adj)) with hdn
  have hdnE : dn.eval env' = fin (1 + adj) := by simp [hdn, Expr.eval]
  have hdnS : Safe env' dn := ⟨trivial, trivial⟩
  -- widths_1
  set w1 : List (Expr EF) := Vec.mapR Expr.div (Vec.mapR Expr.add (Vec.softmax arr) sh) dn with hw1
  set W : List ℝ := List.map (fun a => a / (1 + adj)) (List.map (fun a => a + adj / (((Jnp.softmax raws).length : ℕ) : ℝ)) (Jnp.softmax raws)) with hW
  have hE1 : EvalsTo env' w1 W :=
    evalsTo_mapR (f := fun x c => x / c) (fun a x hx => by
      show Expr.eval env' a / Expr.eval env' dn = _; rw [hx, hdnE, EF.fin_div h1a])
      (evalsTo_mapR (f := fun x c => x + c) (fun a x hx => by
        show Expr.eval env' a + Expr.eval env' sh = _; rw [hx, hshE]; rfl) hE0)
  have hS1 : SafeVec env' w1 := by
    refine safeVec_map (env' := env') (g := fun e => Expr.div e dn) (fun a ha => ⟨ha, hdnS, ?_⟩)
      (safeVec_map (env' := env') (g := fun e => Expr.add e sh) (fun a ha => ⟨ha, hshS⟩) hS0)
    rw [hdnE]; intro h; exact h1a (EF.fin.inj h)
  -- widths_2
  have hWne : W ≠ [] := by
    intro h
    have := congrArg List.length h
    simp only [hW, List.length_map, ParamsPf.softmax_length, List.length_nil] at this
    exact hne (List.length_eq_zero_iff.mp this)
  obtain ⟨w, t, hWc⟩ := List.exists_cons_of_ne_nil hWne
  obtain ⟨a0, as0, hw1c⟩ : ∃ a0 as0, w1 = a0 :: as0 := by
    have := hE1.length_eq
    cases hw : w1 with
    | nil => rw [hw, hWc] at this; simp at this
    | cons a0 as0 => exact ⟨a0, as0, rfl⟩
  have hg0 : (Vec.getAt w1 0).eval env' = fin w := by
    rw [hw1c]; refine getAt_zero_eval (xs := t) ?_; rw [← hw1c, ← hWc]; exact hE1
  have hg0S : Safe env' (Vec.getAt w1 0) := by
    rw [hw1c]; show Safe env' a0; exact hS1 a0 (by rw [hw1c]; exact List.mem_cons_self ..)
  set half : Expr EF := Expr.div (Vec.getAt w1 0) (Expr.const (Num.ofInt 2)) with hhalf
  have hhalfE : half.eval env' = fin (w / 2) := by
    show Expr.eval env' _ / Expr.eval env' _ = _
    rw [hg0]; show fin w / fin ((2 : ℤ) : ℝ) = _
    rw [EF.fin_div (by norm_num)]; norm_num
  have hhalfS : Safe env' half := by
    refine ⟨hg0S, trivial, ?_⟩
    show (fin ((2 : ℤ) : ℝ) : EF) ≠ fin 0
    intro h; have := EF.fin.inj h; norm_num at this
  have hE2 : EvalsTo env' (Vec.setAt w1 0 half) (Jnp.setItem W 0 ((Jnp.getItem W 0) / 2)) := by
    have : Jnp.getItem W 0 = w := by rw [hWc]; exact ParamsPf.getItem_zero_cons w t
    rw [this]; exact evalsTo_set hE1 0 hhalfE
  have hS2 : SafeVec env' (Vec.setAt w1 0 half) := safeVec_set hS1 0 hhalfS
  -- cumsum, scale, shift, pad
  have hvar : (Expr.var 301001 : Expr EF).eval env' = fin (hi - lo) := by simp [henv', Expr.eval, Env.set]
  have hvarS : Safe env' (Expr.var 301001) := by show isFin (env'.s 301001); simp [henv', Env.set]
  have hE3 : EvalsTo env' (Vec.cumsum (Vec.setAt w1 0 half)) (Jnp.cumsum (Jnp.setItem W 0 ((Jnp.getItem W 0) / 2))) := by
    rw [ParamsPf.jcumsum_eq]; exact evalsTo_cumsumFrom _ 0 (by simp [Expr.eval]) hE2
  have hS3 : SafeVec env' (Vec.cumsum (Vec.setAt w1 0 half)) := safeVec_cumsumFrom _ trivial hS2
  have hE4 := evalsTo_mapL (op := Expr.add) (f := fun c x => c + x) (s := Expr.const (fin lo)) (c := lo)
    (fun a x hx => by show Expr.eval env' _ + Expr.eval env' a = _; rw [hx, const_eval]; rfl)
    (evalsTo_mapL (op := Expr.mul) (f := fun c x => c * x) (s := Expr.var 301001) (c := hi - lo)
      (fun a x hx => by show Expr.eval env' _ * Expr.eval env' a = _; rw [hx, hvar]; rfl) hE3)
  have hS4 : SafeVec env' (Vec.mapL Expr.add (Expr.const (fin lo)) (Vec.mapL Expr.mul (Expr.var 301001) (Vec.cumsum (Vec.setAt w1 0 half)))) :=
    safeVec_map (env' := env') (g := fun e => Expr.add (Expr.const (fin lo)) e) (fun a ha => ⟨trivial, ha⟩)
      (safeVec_map (env' := env') (g := fun e => Expr.mul (Expr.var 301001) e) (fun a ha => ⟨hvarS, ha⟩) hS3)
  have hE5 := evalsTo_pad1 hE4 (lo := Expr.const (fin lo)) (hi := Expr.const (fin hi)) (const_eval env' lo) (const_eval env' hi)
  have hS5 := safeVec_pad1 hS4 (lo := Expr.const (fin lo)) (hi := Expr.const (fin hi)) (env := env') trivial trivial
  -- the enclosing `let scale := interval[1] - interval[0]`, element by element
  have hscE : (Expr.sub (Expr.const (fin hi)) (Expr.const (fin lo)) : Expr EF).eval env = fin (hi - lo) := by simp [Expr.eval]
  have hscS : Safe env (Expr.sub (Expr.const (fin hi)) (Expr.const (fin lo))) := ⟨trivial, trivial⟩
  constructor
  · unfold RealToIncreasingOnInterval.ast
    refine safeVec_map (env' := env') (g := fun e_ => Expr.letE 301001 (Expr.sub (Expr.const (fin hi)) (Expr.const (fin lo))) e_) ?_ hS5
    intro a ha
    refine ⟨hscS, ?_⟩
    rw [hscE]; exact ha
  · unfold RealToIncreasingOnInterval.ast
    have : realToIncreasingOnInterval raws (lo, hi) adj
        = Jnp.pad1 (List.map (fun x => lo + x) (List.map (fun x => (hi - lo) * x) (Jnp.cumsum (Jnp.setItem W 0 ((Jnp.getItem W 0) / 2))))) (lo, hi) := rfl
    rw [this]
    refine evalsTo_mapE (env' := env') ?_ hE5
    intro a x hx
    show Expr.eval (env.set 301001 (Expr.eval env _)) a = _
    rw [hscE]; exact hx

/-- the lambda of `self.derivatives`: `softplus(arr) + min_derivative` -/
theorem derivParam_safe {env : Env EF} {arr : List (Expr EF)} {raws : List ℝ} {md : ℝ}
    (hs : SafeVec env arr) (he : EvalsTo env arr raws) :
    SafeVec env (RationalQuadraticSpline.derivatives_param.ast (Expr.const (fin md)) arr) ∧
    EvalsTo env (RationalQuadraticSpline.derivatives_param.ast (Expr.const (fin md)) arr) (rqsDerivatives md raws) := by
  unfold RationalQuadraticSpline.derivatives_param.ast rqsDerivatives
  constructor
  · exact safeVec_map (env' := env) (g := fun e => Expr.add e (Expr.const (fin md))) (fun a ha => ⟨ha, trivial⟩)
      (safeVec_map (env' := env) (g := fun e_ => Expr.prim Prim.softplus e_) (fun a ha => ⟨ha, fun _ _ => trivial⟩) hs)
  · exact evalsTo_mapR (f := fun x c => x + c) (fun a x hx => by
      show Expr.eval env a + Expr.eval env _ = _; rw [hx, const_eval]; rfl)
      (evalsTo_map (env' := env) (g := fun e_ => Expr.prim Prim.softplus e_) (f := fun v => Transc.softplus v)
        (fun a x hx => by show Num.softplus (Expr.eval env a) = _; rw [hx]; rfl) he)


/-! ### one dimension of the transformer: conditioner outputs → raw leaves → unwrapped arrays → kernel -/

/-- the real number held by scalar `i` (0 if not finite) -/
def val (env : Env EF) (i : Nat) : ℝ := match env.s i with | fin r => r | _ => 0
theorem val_eq {env : Env EF} {i : Nat} (h : isFin (env.s i)) : env.s i = fin (val env i) := by
  unfold val; cases hh : env.s i <;> simp_all [isFin]

theorem evalsTo_range_map {env : Env EF} (f : Nat → Expr EF) (g : Nat → ℝ) (n : Nat) (h : ∀ j, j < n → (f j).eval env = fin (g j)) :
    EvalsTo env ((List.range n).map f) ((List.range n).map g) := by
  unfold EvalsTo
  rw [List.forall₂_iff_get]
  refine ⟨by simp, fun i h1 h2 => ?_⟩
  simp only [List.get_eq_getElem, List.getElem_map, List.getElem_range]
  exact h i (by simpa using h1)

theorem evalsTo_map_eval {env : Env EF} {es : List (Expr EF)} {rs : List ℝ} (h : EvalsTo env es rs) :
    es.map (fun d => d.eval env) = rs.map fin := by
  induction h with
  | nil => rfl
  | cons ha _ ih => simp only [List.map_cons, ha, ih]

/-- real configuration of the spline -/
structure CfgOK (c : Net.SplineCfg EF) (K : Nat) (lo hi adj md : ℝ) (inits : List ℝ) : Prop where
  hK : c.K = K
  K_pos : 1 ≤ K
  hlo : c.lo = fin lo
  hhi : c.hi = fin hi
  hadj : c.adj = fin adj
  hmd : c.md = fin md
  hinit : c.init = inits.map fin
  lo_lt_hi : lo < hi
  adj_nonneg : 0 ≤ adj
  md_nonneg : 0 ≤ md

theorem init_getD (inits : List ℝ) (j : Nat) : ((inits.map fin).getD j (Num.ofInt 0) : EF) = fin (inits.getD j 0) := by
  simp only [List.getD_eq_getElem?_getD, List.getElem?_map]
  cases inits[j]? <;> simp

/-- the raw leaf `j` of one dimension: conditioner output (scalar `pBase + j`) plus its initial value -/
def rawE (c : Net.SplineCfg EF) (j : Nat) : Expr EF := Expr.add (Expr.var (Net.pBase + j)) (Expr.const (c.init.getD j (Num.ofInt 0)))

theorem rawE_eval {c : Net.SplineCfg EF} {inits : List ℝ} (hi : c.init = inits.map fin) {env : Env EF} {j : Nat}
    (h : isFin (env.s (Net.pBase + j))) : (rawE c j).eval env = fin (val env (Net.pBase + j) + inits.getD j 0) := by
  simp only [rawE, Expr.eval, hi, init_getD, val_eq h, EF.fin_add]

theorem rawE_safe {c : Net.SplineCfg EF} {inits : List ℝ} (hi : c.init = inits.map fin) {env : Env EF} {j : Nat}
    (h : isFin (env.s (Net.pBase + j))) : Safe env (rawE c j) := by
  refine ⟨h, ?_⟩
  show isFin (c.init.getD j (Num.ofInt 0)); rw [hi, init_getD]; trivial

/-- environments that differ from `env` only in scalars below `pBase` -/
def SameAbove (env env' : Env EF) : Prop := ∀ j, env'.s (Net.pBase + j) = env.s (Net.pBase + j)

theorem rawVec {c : Net.SplineCfg EF} {inits : List ℝ} (hi : c.init = inits.map fin) {env env' : Env EF} (off n : Nat)
    (hf : ∀ j, j < off + n → isFin (env.s (Net.pBase + j))) (hsame : SameAbove env env') :
    SafeVec env' ((List.range n).map (fun j => rawE c (off + j))) ∧
    EvalsTo env' ((List.range n).map (fun j => rawE c (off + j))) ((List.range n).map (fun j => val env (Net.pBase + (off + j)) + inits.getD (off + j) 0)) := by
  constructor
  · intro e he
    obtain ⟨j, hj, rfl⟩ := List.mem_map.mp he
    have hj' : j < n := by simpa using hj
    exact rawE_safe hi (by rw [hsame]; exact hf _ (by omega))
  · refine evalsTo_range_map _ _ n (fun j hj => ?_)
    have h1 : isFin (env'.s (Net.pBase + (off + j))) := by rw [hsame]; exact hf _ (by omega)
    rw [rawE_eval hi h1]
    have : val env' (Net.pBase + (off + j)) = val env (Net.pBase + (off + j)) := by unfold val; rw [hsame]
    rw [this]

theorem sameAbove_set {env env' : Env EF} (h : SameAbove env env') {i : Nat} (hi : i < Net.pBase) (a : EF) : SameAbove env (env'.set i a) := by
  intro j
  have : Net.pBase + j ≠ i := by omega
  simp only [Env.set, this, if_false]; exact h j

theorem sameAbove_setV {env env' : Env EF} (h : SameAbove env env') (vec : Nat) (xs : List EF) : SameAbove env (env'.setV vec xs) := h

/-- the spline record the kernel sees is well-formed -/
theorem rqsWF_of_raws {K : Nat} (hK : 1 ≤ K) {lo hi adj md : ℝ} (hlt : lo < hi) (hadj : 0 ≤ adj) (hmd : 0 ≤ md)
    {rx ry rd : List ℝ} (hx : rx.length = K) (hy : ry.length = K) (hd : rd.length = K + 2) :
    Rqs.RqsWF { interval := (lo, hi), x_pos := realToIncreasingOnInterval rx (lo, hi) adj,
                y_pos := realToIncreasingOnInterval ry (lo, hi) adj, derivatives := rqsDerivatives md rd } := by
  have hxne : rx ≠ [] := by intro h; rw [h] at hx; simp at hx; omega
  have hyne : ry ≠ [] := by intro h; rw [h] at hy; simp at hy; omega
  obtain ⟨x1, x2, x3, x4⟩ := ParamsPf.knots_generated hxne hlt hadj
  obtain ⟨y1, y2, y3, y4⟩ := ParamsPf.knots_generated hyne hlt hadj
  refine ⟨?_, ?_, ?_, x1, y1, ?_, x3, x4, y3, y4⟩
  · show 2 ≤ (realToIncreasingOnInterval rx (lo, hi) adj).length; rw [x2]; omega
  · show (realToIncreasingOnInterval ry (lo, hi) adj).length = (realToIncreasingOnInterval rx (lo, hi) adj).length
    rw [x2, y2, hx, hy]
  · show (rqsDerivatives md rd).length = (realToIncreasingOnInterval rx (lo, hi) adj).length
    rw [ParamsPf.rqsDerivatives_length, x2, hx, hd]
  · intro d hdm
    have := ParamsPf.rqsDerivatives_mem d hdm
    linarith

/-- what the proof needs from a kernel: safe in every environment that carries a well-formed spline and a finite input in variable 0 -/
def KernelOK (kernel : Expr EF) : Prop :=
  ∀ (p : RationalQuadraticSpline ℝ), Rqs.RqsWF p → ∀ (env : Env EF), AdRqs.EnvOK p env → ∀ x : ℝ, env.s 0 = fin x → Safe env kernel

theorem kernelOK_tld1 : KernelOK (RationalQuadraticSpline.transform_and_log_det.ast (Expr.var 0)).1 :=
  fun p h env he x hx => (AdRqs.tld_safe_env h he hx).1
theorem kernelOK_tld2 : KernelOK (RationalQuadraticSpline.transform_and_log_det.ast (Expr.var 0)).2 :=
  fun p h env he x hx => (AdRqs.tld_safe_env h he hx).2
theorem kernelOK_ild1 : KernelOK (RationalQuadraticSpline.inverse_and_log_det.ast (Expr.var 0)).1 :=
  fun p h env he x hx => (AdRqs.ild_safe_env h he hx).1
theorem kernelOK_ild2 : KernelOK (RationalQuadraticSpline.inverse_and_log_det.ast (Expr.var 0)).2 :=
  fun p h env he x hx => (AdRqs.ild_safe_env h he hx).2


open AdN in
/-- ONE DIMENSION.  For every environment whose vector parameters are those of `env`, every conditioner-output expressions `ps` and
input expression `xi` that are safe whatever the scalars hold: the whole pipeline — bind the outputs, add the initial leaves,
unwrap the three `Lambda`s through the generated parameterisation ASTs, run the generated kernel — is safe. -/
theorem splineDim_safeX {c : Net.SplineCfg EF} {K : Nat} {lo hi adj md : ℝ} {inits : List ℝ} (hc : CfgOK c K lo hi adj md inits)
    {env : Env EF} {ps : List (Expr EF)} {xi : Expr EF} (hps : VSafeVec env ps) (hxi : VSafe env xi)
    {kernel : Expr EF} (hk : KernelOK kernel) (env0 : Env EF) (hv0 : env0.v = env.v) :
    SafeX env0 (Net.splineDim c ps xi kernel) := by
  unfold Net.splineDim
  refine safeX_letAll ?_ ?_
  · intro b hb env' hv'
    obtain ⟨j, _, rfl⟩ := List.mem_map.mp hb
    exact vsafeVec_getD hps j env' (hv'.trans hv0)
  · intro env1 hv1 _ hfin
    have hP : ∀ j, j < 3 * c.K + 2 → isFin (env1.s (Net.pBase + j)) := by
      intro j hj
      exact hfin (Net.pBase + j, ps.getD j (Expr.const (Num.ofInt 0))) (List.mem_map.mpr ⟨j, by simpa using hj, rfl⟩)
    rw [hc.hK] at hP
    have hxS : Safe env1 xi := hxi env1 (hv1.trans hv0)
    obtain ⟨x, hx⟩ := isFin_iff.mp (safe_eval_fin xi env1 hxS)
    refine ⟨hxS, ?_⟩
    show SafeX (env1.set 0 (Expr.eval env1 xi)) _
    rw [hx]
    -- the three raw arrays
    have hs2 : SameAbove env1 (env1.set 0 (fin x)) := sameAbove_set (fun _ => rfl) (by decide) _
    set rx := (List.range K).map (fun j => val env1 (Net.pBase + (0 + j)) + inits.getD (0 + j) 0) with hrx
    set ry := (List.range K).map (fun j => val env1 (Net.pBase + (K + j)) + inits.getD (K + j) 0) with hry
    set rd := (List.range (K + 2)).map (fun j => val env1 (Net.pBase + (2 * K + j)) + inits.getD (2 * K + j) 0) with hrd
    have hlx : rx.length = K := by simp [hrx]
    have hly : ry.length = K := by simp [hry]
    have hld : rd.length = K + 2 := by simp [hrd]
    have hxne : rx ≠ [] := by intro h; rw [h] at hlx; simp at hlx; have := hc.K_pos; omega
    have hyne : ry ≠ [] := by intro h; rw [h] at hly; simp at hly; have := hc.K_pos; omega
    have exr : (List.range c.K).map (fun j => Expr.add (Expr.var (Net.pBase + j)) (Expr.const (c.init.getD j (Num.ofInt 0))))
        = (List.range K).map (fun j => rawE c (0 + j)) := by rw [hc.hK]; simp [rawE]
    have eyr : (List.range c.K).map (fun j => Expr.add (Expr.var (Net.pBase + (c.K + j))) (Expr.const (c.init.getD (c.K + j) (Num.ofInt 0))))
        = (List.range K).map (fun j => rawE c (K + j)) := by rw [hc.hK]; rfl
    have edr : (List.range (c.K + 2)).map (fun j => Expr.add (Expr.var (Net.pBase + (2 * c.K + j))) (Expr.const (c.init.getD (2 * c.K + j) (Num.ofInt 0))))
        = (List.range (K + 2)).map (fun j => rawE c (2 * K + j)) := by rw [hc.hK]; rfl
    rw [exr, eyr, edr, hc.hlo, hc.hhi, hc.hadj, hc.hmd]
    -- vector 0: x_pos
    set e2 := env1.set 0 (fin x) with he2
    obtain ⟨hXs, hXe⟩ := rawVec hc.hinit (env := env1) (env' := e2.set 301001 (fin (hi - lo))) 0 K (fun j hj => hP j (by omega))
      (sameAbove_set hs2 (by decide) _)
    obtain ⟨hX1, hX2⟩ := posParam_safe (env := e2) hxne hc.adj_nonneg hXs hXe
    refine ⟨hX1, ?_⟩
    rw [evalsTo_map_eval hX2]
    -- vector 1: y_pos
    set e3 := e2.setV 0 ((realToIncreasingOnInterval rx (lo, hi) adj).map fin) with he3
    obtain ⟨hYs, hYe⟩ := rawVec hc.hinit (env := env1) (env' := e3.set 301001 (fin (hi - lo))) K K (fun j hj => hP j (by omega))
      (sameAbove_set (sameAbove_setV hs2 _ _) (by decide) _)
    obtain ⟨hY1, hY2⟩ := posParam_safe (env := e3) hyne hc.adj_nonneg hYs hYe
    refine ⟨hY1, ?_⟩
    rw [evalsTo_map_eval hY2]
    -- vector 2: derivatives
    set e4 := e3.setV 1 ((realToIncreasingOnInterval ry (lo, hi) adj).map fin) with he4
    obtain ⟨hDs, hDe⟩ := rawVec hc.hinit (env := env1) (env' := e4) (2 * K) (K + 2) (fun j hj => hP j (by omega))
      (sameAbove_setV (sameAbove_setV hs2 _ _) _ _)
    obtain ⟨hD1, hD2⟩ := derivParam_safe (md := md) hDs hDe
    refine ⟨hD1, ?_⟩
    rw [evalsTo_map_eval hD2]
    -- the kernel
    set e5 := e4.setV 2 ((rqsDerivatives md rd).map fin) with he5
    show Safe e5 (Expr.letE 1 (Expr.const (fin lo)) (Expr.letE 2 (Expr.const (fin hi)) kernel))
    refine ⟨trivial, trivial, ?_⟩
    refine hk _ (rqsWF_of_raws hc.K_pos hc.lo_lt_hi hc.adj_nonneg hc.md_nonneg hlx hly hld) _ ⟨?_, ?_, ?_, ?_, ?_⟩ x ?_
    · simp [Env.set, Expr.eval]
    · simp [Env.set, Expr.eval]
    · simp [Env.set, he5, he4, he3, Env.setV]
    · simp [Env.set, he5, he4, Env.setV]
    · simp [Env.set, he5, Env.setV]
    · simp [Env.set, he5, he4, he3, he2, Env.setV]


/-! ### the layers -/
open AdN

/-- safe whatever the scalar variables hold (network weights, biases, the input and the condition are vector parameters) -/
def VSafeX (env : Env EF) (e : VExpr EF) : Prop := ∀ env' : Env EF, env'.v = env.v → SafeX env' e

theorem splineTld_vsafeX {c : Net.SplineCfg EF} {K : Nat} {lo hi adj md : ℝ} {inits : List ℝ} (hc : CfgOK c K lo hi adj md inits)
    {env : Env EF} {ps : List (Expr EF)} {xi : Expr EF} (hps : VSafeVec env ps) (hxi : VSafe env xi) :
    VSafeX env (Net.splineTld c ps xi).1 ∧ VSafeX env (Net.splineTld c ps xi).2 :=
  ⟨fun env' hv => splineDim_safeX hc hps hxi kernelOK_tld1 env' hv, fun env' hv => splineDim_safeX hc hps hxi kernelOK_tld2 env' hv⟩

theorem splineIld_vsafeX {c : Net.SplineCfg EF} {K : Nat} {lo hi adj md : ℝ} {inits : List ℝ} (hc : CfgOK c K lo hi adj md inits)
    {env : Env EF} {ps : List (Expr EF)} {xi : Expr EF} (hps : VSafeVec env ps) (hxi : VSafe env xi) :
    VSafeX env (Net.splineIld c ps xi).1 ∧ VSafeX env (Net.splineIld c ps xi).2 :=
  ⟨fun env' hv => splineDim_safeX hc hps hxi kernelOK_ild1 env' hv, fun env' hv => splineDim_safeX hc hps hxi kernelOK_ild2 env' hv⟩

theorem partsV_vsafeX {env : Env EF} {P : Nat} {tf : List (Expr EF) → Expr EF → VExpr EF × VExpr EF}
    (htf : ∀ ps x, VSafeVec env ps → VSafe env x → VSafeX env (tf ps x).1 ∧ VSafeX env (tf ps x).2)
    {params xs : List (Expr EF)} (hp : VSafeVec env params) (hx : VSafeVec env xs) :
    (∀ e ∈ (Net.partsV P tf params xs).map Prod.fst, VSafeX env e) ∧ (∀ e ∈ (Net.partsV P tf params xs).map Prod.snd, VSafeX env e) := by
  have hsub : ∀ i, VSafeVec env ((params.drop (i * P)).take P) :=
    fun i e he => hp e (List.mem_of_mem_drop (List.mem_of_mem_take he))
  constructor <;> intro e he <;> simp only [Net.partsV, List.map_map, List.mem_map, Function.comp] at he <;>
    obtain ⟨xi, hxi, rfl⟩ := he
  · exact (htf _ _ (hsub _) (hx _ (List.fst_mem_of_mem_zipIdx hxi))).1
  · exact (htf _ _ (hsub _) (hx _ (List.fst_mem_of_mem_zipIdx hxi))).2

theorem vsafeX_sum {env : Env EF} {es : List (VExpr EF)} (h : ∀ e ∈ es, VSafeX env e) : VSafeX env (VExpr.sum es) :=
  fun env' hv => safeX_sum (fun e he => h e he env' hv)

theorem vsafeVec_append {env : Env EF} {a b : List (Expr EF)} (ha : VSafeVec env a) (hb : VSafeVec env b) : VSafeVec env (a ++ b) := by
  intro e he
  rcases List.mem_append.mp he with h | h
  · exact ha e h
  · exact hb e h

theorem couplingV_vsafeX {env : Env EF} {P : Nat} {tf : List (Expr EF) → Expr EF → VExpr EF × VExpr EF}
    (htf : ∀ ps x, VSafeVec env ps → VSafe env x → VSafeX env (tf ps x).1 ∧ VSafeX env (tf ps x).2)
    {net : List (Expr EF) → List (Expr EF)} (hnet : ∀ xs, VSafeVec env xs → VSafeVec env (net xs))
    (u : Nat) {x cond : List (Expr EF)} (hx : VSafeVec env x) (hcond : VSafeVec env cond) :
    (∀ e ∈ (Net.couplingV u P net tf x cond).1, VSafeX env e) ∧ VSafeX env (Net.couplingV u P net tf x cond).2 := by
  have hxc : VSafeVec env (x.take u) := fun e he => hx e (List.mem_of_mem_take he)
  have hxt : VSafeVec env (x.drop u) := fun e he => hx e (List.mem_of_mem_drop he)
  obtain ⟨h1, h2⟩ := partsV_vsafeX (P := P) htf (hnet _ (vsafeVec_append hxc hcond)) hxt
  refine ⟨fun e he => ?_, vsafeX_sum h2⟩
  rcases List.mem_append.mp he with h | h
  · obtain ⟨a, ha, rfl⟩ := List.mem_map.mp h
    exact fun env' hv => hxc a ha env' hv
  · exact h1 e h

theorem autoregV_vsafeX {env : Env EF} {P : Nat} {tf : List (Expr EF) → Expr EF → VExpr EF × VExpr EF}
    (htf : ∀ ps x, VSafeVec env ps → VSafe env x → VSafeX env (tf ps x).1 ∧ VSafeX env (tf ps x).2)
    {net : List (Expr EF) → List (Expr EF)} (hnet : ∀ xs, VSafeVec env xs → VSafeVec env (net xs))
    {x cond : List (Expr EF)} (hx : VSafeVec env x) (hcond : VSafeVec env cond) :
    (∀ e ∈ (Net.autoregV P net tf x cond).1, VSafeX env e) ∧ VSafeX env (Net.autoregV P net tf x cond).2 := by
  obtain ⟨h1, h2⟩ := partsV_vsafeX (P := P) htf (hnet _ (vsafeVec_append hx hcond)) hx
  exact ⟨h1, vsafeX_sum h2⟩

end AdS
end
