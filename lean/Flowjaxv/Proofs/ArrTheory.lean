import Flowjaxv.Proofs.DistTheory
import Flowjaxv.Proofs.ArrLists
import Flowjaxv.Model.ArrExt
/-!
# Theory of the array combinators of `Model/Arr.lean`

Lawfulness (`Bij.Lawful`) of `concatenate / stack / partialB / reshape / embed / elementwise` on the
well-shaped arrays `WS shape`, the slicewise descriptions, and the frame property of `partialB`.
-/
set_option linter.unusedSectionVars false
set_option linter.unusedVariables false
open Gen Set Arr

namespace Bij
variable {X C L : Type}

/-- the record with the two directions swapped (what `Invert` builds) -/
def flip (b : Bij X C L) : Bij X C L := ⟨b.inv, b.fwd, b.invLd, b.fwdLd⟩

theorem Lawful.flip {b : Bij X C L} {D E : Set X} (h : b.Lawful D E) : b.flip.Lawful E D :=
  ⟨h.mapsInv, h.maps, h.right, h.left, h.invLd_fst, h.fwdLd_fst⟩

end Bij

namespace ArrComb
variable {α C L : Type} [Add L] [OfNat L 0]

/-- well-shaped arrays: the declared shape, and as many entries as the shape says -/
def WS (shape : List Nat) : Set (Arr α) :=
  {a | a.shape = shape ∧ a.data.length = Arr.prod shape}

theorem mem_WS {shape : List Nat} {a : Arr α} :
    a ∈ WS shape ↔ a.shape = shape ∧ a.data.length = Arr.prod shape := Iff.rfl

theorem mk_mem_WS {shape : List Nat} {d : List α} (h : d.length = Arr.prod shape) :
    (⟨shape, d⟩ : Arr α) ∈ WS shape := ⟨rfl, h⟩

theorem WS.eta {shape : List Nat} {a : Arr α} (h : a ∈ WS shape) : (⟨shape, a.data⟩ : Arr α) = a := by
  cases a; cases h; simp_all

/-! ### generic list helpers -/

theorem zipWith_roundtrip {β γ : Type} {f g : β → γ → γ} {bs : List β} {xs : List γ}
    (hl : xs.length = bs.length)
    (h : ∀ j (h1 : j < bs.length) (h2 : j < xs.length), g bs[j] (f bs[j] xs[j]) = xs[j]) :
    List.zipWith g bs (List.zipWith f bs xs) = xs := by
  apply List.ext_getElem
  · simp [hl]
  · intro j h1 h2
    simp only [List.getElem_zipWith]
    exact h j (by simp at h1; omega) h2

theorem zipWith_congr_mem {β γ δ : Type} {f g : β → γ → δ} {bs : List β} (xs : List γ)
    (h : ∀ b ∈ bs, ∀ x, f b x = g b x) : List.zipWith f bs xs = List.zipWith g bs xs := by
  induction bs generalizing xs with
  | nil => simp
  | cons b bs ih =>
    cases xs with
    | nil => simp
    | cons x xs =>
      simp only [List.zipWith_cons_cons]
      rw [h b (List.mem_cons_self ..), ih xs (fun b' hb' => h b' (List.mem_cons_of_mem _ hb'))]

/-! ## Partial -/
section partialS
variable [Inhabited α]

theorem partial_flip (shape sub pos : List Nat) (b : Bij (Arr α) C L) :
    partialB shape sub pos b.flip = (partialB shape sub pos b).flip := rfl

theorem partial_left {shape sub pos : List Nat} {b : Bij (Arr α) C L}
    (hb : b.Lawful (WS sub) (WS sub)) (hnd : pos.Nodup) (hr : ∀ p ∈ pos, p < Arr.prod shape)
    (hl : pos.length = Arr.prod sub) :
    ∀ x ∈ WS shape, ∀ c, (partialB shape sub pos b).inv ((partialB shape sub pos b).fwd x c) c = x := by
  intro x hx c
  obtain ⟨hs, hlen⟩ := hx
  have hg : (⟨sub, gather pos x.data⟩ : Arr α) ∈ WS sub := mk_mem_WS (by simp [hl])
  have hy := hb.maps _ hg c
  show (⟨shape, scatter pos (scatter pos x.data (b.fwd ⟨sub, gather pos x.data⟩ c).data)
    (b.inv ⟨sub, gather pos (scatter pos x.data (b.fwd ⟨sub, gather pos x.data⟩ c).data)⟩ c).data⟩ : Arr α) = x
  rw [gather_scatter hnd (by rw [hlen]; exact hr) (by rw [hy.2, hl]), WS.eta hy, hb.left _ hg c]
  simp only
  rw [scatter_scatter_gather hnd (by rw [hy.2, hl])]
  cases x; simp_all

theorem partial_lawful {shape sub pos : List Nat} {b : Bij (Arr α) C L}
    (hb : b.Lawful (WS sub) (WS sub)) (hnd : pos.Nodup) (hr : ∀ p ∈ pos, p < Arr.prod shape)
    (hl : pos.length = Arr.prod sub) :
    (partialB shape sub pos b).Lawful (WS shape) (WS shape) := by
  refine ⟨?_, ?_, partial_left hb hnd hr hl, partial_left hb.flip hnd hr hl, ?_, ?_⟩
  · intro x hx c; exact mk_mem_WS (by simp [hx.2])
  · intro y hy c; exact mk_mem_WS (by simp [hy.2])
  · intro x c; simp [partialB, hb.fwdLd_fst]
  · intro y c; simp [partialB, hb.invLd_fst]

/-- **Partial changes only the indexed entries** (both directions) -/
theorem partial_frame (shape sub pos : List Nat) (b : Bij (Arr α) C L) {i : Nat} (hi : i ∉ pos)
    (x : Arr α) (c : C) :
    ((partialB shape sub pos b).fwd x c).data[i]? = x.data[i]?
      ∧ ((partialB shape sub pos b).inv x c).data[i]? = x.data[i]? :=
  ⟨scatter_frame hi _ _, scatter_frame hi _ _⟩

/-- on the indexed entries Partial is the wrapped bijection applied to the gathered sub-array -/
theorem partial_indexed {shape sub pos : List Nat} {b : Bij (Arr α) C L}
    (hb : b.Lawful (WS sub) (WS sub)) (hnd : pos.Nodup) (hr : ∀ p ∈ pos, p < Arr.prod shape)
    (hl : pos.length = Arr.prod sub) {x : Arr α} (hx : x ∈ WS shape) (c : C) :
    gather pos ((partialB shape sub pos b).fwd x c).data = (b.fwd ⟨sub, gather pos x.data⟩ c).data := by
  have hg : (⟨sub, gather pos x.data⟩ : Arr α) ∈ WS sub := mk_mem_WS (by simp [hl])
  have hy := hb.maps _ hg c
  exact gather_scatter hnd (by rw [hx.2]; exact hr) (by rw [hy.2, hl])

end partialS

/-! ## Reshape, EmbedCondition, elementwise -/

theorem reshape_flip (shape inner : List Nat) (b : Bij (Arr α) C L) :
    reshape shape inner b.flip = (reshape shape inner b).flip := rfl

theorem reshape_left {shape inner : List Nat} {b : Bij (Arr α) C L}
    (hb : b.Lawful (WS inner) (WS inner)) (hp : Arr.prod shape = Arr.prod inner) :
    ∀ x ∈ WS shape, ∀ c, (reshape shape inner b).inv ((reshape shape inner b).fwd x c) c = x := by
  intro x hx c
  have hg : (⟨inner, x.data⟩ : Arr α) ∈ WS inner := mk_mem_WS (by rw [hx.2, hp])
  have hy := hb.maps _ hg c
  show (⟨shape, (b.inv ⟨inner, (b.fwd ⟨inner, x.data⟩ c).data⟩ c).data⟩ : Arr α) = x
  rw [WS.eta hy, hb.left _ hg c]
  exact WS.eta hx

theorem reshape_lawful {shape inner : List Nat} {b : Bij (Arr α) C L}
    (hb : b.Lawful (WS inner) (WS inner)) (hp : Arr.prod shape = Arr.prod inner) :
    (reshape shape inner b).Lawful (WS shape) (WS shape) := by
  refine ⟨?_, ?_, reshape_left hb hp, reshape_left hb.flip hp, ?_, ?_⟩
  · intro x hx c
    have hg : (⟨inner, x.data⟩ : Arr α) ∈ WS inner := mk_mem_WS (by rw [hx.2, hp])
    exact mk_mem_WS (by rw [(hb.maps _ hg c).2, hp])
  · intro y hy c
    have hg : (⟨inner, y.data⟩ : Arr α) ∈ WS inner := mk_mem_WS (by rw [hy.2, hp])
    exact mk_mem_WS (by rw [(hb.mapsInv _ hg c).2, hp])
  · intro x c; simp [reshape, hb.fwdLd_fst]
  · intro y c; simp [reshape, hb.invLd_fst]

/-- **Reshape only re-presents the point**: row-major data goes through the wrapped bijection
untouched, the result carries the declared shape, the log-det is the wrapped one's. -/
theorem reshape_represent (shape inner : List Nat) (b : Bij (Arr α) C L) (x : Arr α) (c : C) :
    ((reshape shape inner b).fwd x c).data = (b.fwd ⟨inner, x.data⟩ c).data
    ∧ ((reshape shape inner b).inv x c).data = (b.inv ⟨inner, x.data⟩ c).data
    ∧ ((reshape shape inner b).fwd x c).shape = shape
    ∧ ((reshape shape inner b).inv x c).shape = shape
    ∧ ((reshape shape inner b).fwdLd x c).2 = (b.fwdLd ⟨inner, x.data⟩ c).2
    ∧ ((reshape shape inner b).invLd x c).2 = (b.invLd ⟨inner, x.data⟩ c).2 :=
  ⟨rfl, rfl, rfl, rfl, rfl, rfl⟩

theorem embed_lawful {C' : Type} (net : C' → C) {b : Bij (Arr α) C L} {D E : Set (Arr α)}
    (hb : b.Lawful D E) : (embed net b).Lawful D E :=
  ⟨fun x hx c => hb.maps x hx (net c), fun y hy c => hb.mapsInv y hy (net c),
   fun x hx c => hb.left x hx (net c), fun y hy c => hb.right y hy (net c),
   fun x c => hb.fwdLd_fst x (net c), fun y c => hb.invLd_fst y (net c)⟩

/-- **EmbedCondition only re-presents the condition**: every method is the wrapped one at `net c`. -/
theorem embed_represent {C' : Type} (net : C' → C) (b : Bij (Arr α) C L) (x : Arr α) (c : C') :
    (embed net b).fwd x c = b.fwd x (net c) ∧ (embed net b).inv x c = b.inv x (net c)
    ∧ (embed net b).fwdLd x c = b.fwdLd x (net c) ∧ (embed net b).invLd x c = b.invLd x (net c) :=
  ⟨rfl, rfl, rfl, rfl⟩

theorem elementwise_flip (bs : List (Bij α C L)) :
    elementwise (bs.map Bij.flip) = (elementwise bs).flip := by
  simp [elementwise, Bij.flip, List.zipWith_map_left]

theorem elementwise_left {shape : List Nat} {bs : List (Bij α C L)}
    (hb : ∀ b ∈ bs, b.Lawful univ univ) (hl : bs.length = Arr.prod shape) :
    ∀ x ∈ WS shape, ∀ c, (elementwise bs).inv ((elementwise bs).fwd x c) c = x := by
  intro x hx c
  show (⟨x.shape, List.zipWith (fun b v => b.inv v c) bs
    (List.zipWith (fun b v => b.fwd v c) bs x.data)⟩ : Arr α) = x
  rw [zipWith_roundtrip (f := fun b v => b.fwd v c) (g := fun b v => b.inv v c) (by rw [hx.2, hl])
    (fun j h1 h2 => (hb _ (List.getElem_mem h1)).left _ trivial c)]

theorem elementwise_lawful {shape : List Nat} {bs : List (Bij α C L)}
    (hb : ∀ b ∈ bs, b.Lawful univ univ) (hl : bs.length = Arr.prod shape) :
    (elementwise bs).Lawful (WS shape) (WS shape) := by
  have hb' : ∀ b ∈ bs.map Bij.flip, b.Lawful univ univ := by
    intro b h; obtain ⟨b', h', rfl⟩ := List.mem_map.mp h; exact (hb b' h').flip
  have hr := elementwise_left (shape := shape) hb' (by simpa using hl)
  rw [elementwise_flip] at hr
  refine ⟨?_, ?_, elementwise_left hb hl, hr, ?_, ?_⟩
  · intro x hx c; exact ⟨hx.1, by simp [elementwise, hx.2, hl]⟩
  · intro y hy c; exact ⟨hy.1, by simp [elementwise, hy.2, hl]⟩
  · intro x c
    simp only [elementwise]
    rw [zipWith_congr_mem x.data (fun b h v => (hb b h).fwdLd_fst v c)]
  · intro y c
    simp only [elementwise]
    rw [zipWith_congr_mem y.data (fun b h v => (hb b h).invLd_fst v c)]

/-! ## Concatenate -/

/-- the spec is coherent: the axis exists and the children's sizes add up to the axis length -/
structure ConcatSpec.Coherent (s : ConcatSpec) : Prop where
  axis_lt : s.axis < s.shape.length
  axis_size : s.shape[s.axis] = s.sizes.sum

theorem ConcatSpec.A_eq_sum (s : ConcatSpec) : s.A = s.sizes.sum := foldl_add_eq_sum _

theorem ConcatSpec.Coherent.prod_shape {s : ConcatSpec} (h : s.Coherent) :
    Arr.prod s.shape = s.O * (s.sizes.sum * s.I) := by
  rw [prod_split h.axis_lt, h.axis_size]; rfl

theorem ConcatSpec.Coherent.prod_child {s : ConcatSpec} (h : s.Coherent) (n : Nat) :
    Arr.prod (s.childShape n) = s.O * (n * s.I) := prod_set h.axis_lt n

/-- a list of children values of the right shapes -/
def ConcatSpec.ChildWS (s : ConcatSpec) (ys : List (Arr α)) : Prop :=
  ys.length = s.sizes.length ∧
    ∀ j (h1 : j < ys.length) (h2 : j < s.sizes.length), ys[j] ∈ WS (s.childShape s.sizes[j])

/-- the children's views that `glue` concatenates -/
def ConcatSpec.views (s : ConcatSpec) (ys : List (Arr α)) : List (View α) :=
  (List.zip s.sizes ys).map (fun ny => view3 s.O ny.1 s.I ny.2.data)

theorem ConcatSpec.glue_eq (s : ConcatSpec) (ys : List (Arr α)) :
    s.glue ys = ⟨s.shape, unview3 (catView s.O (s.views ys))⟩ := rfl

theorem ConcatSpec.parts_eq (s : ConcatSpec) (x : List α) :
    s.parts x = (List.zip s.sizes (splitView s.sizes (view3 s.O s.sizes.sum s.I x))).map
      (fun nv => ⟨s.childShape nv.1, unview3 nv.2⟩) := by
  rw [← s.A_eq_sum]; rfl

theorem ConcatSpec.views_wf {s : ConcatSpec} (hs : s.Coherent) {ys : List (Arr α)}
    (hy : s.ChildWS ys) :
    (s.views ys).length = s.sizes.length ∧
      ∀ j (h1 : j < (s.views ys).length) (h2 : j < s.sizes.length),
        View.WF s.O s.sizes[j] s.I (s.views ys)[j] := by
  refine ⟨by simp [ConcatSpec.views, hy.1], ?_⟩
  intro j h1 h2
  simp only [ConcatSpec.views, List.getElem_map, List.getElem_zip]
  exact view3_wf (by rw [(hy.2 j (by rw [hy.1]; exact h2) h2).2, hs.prod_child])

theorem ConcatSpec.views_wf' {s : ConcatSpec} (hs : s.Coherent) {ys : List (Arr α)}
    (hy : s.ChildWS ys) :
    ∀ j (h1 : j < (s.views ys).length) (h2 : j < s.sizes.length),
      (s.views ys)[j].length = s.O ∧ ∀ blk ∈ (s.views ys)[j], blk.length = s.sizes[j] := by
  intro j h1 h2
  obtain ⟨h3, h4⟩ := (s.views_wf hs hy).2 j h1 h2
  exact ⟨h3, fun blk hb => (h4 blk hb).1⟩

theorem ConcatSpec.catView_views_wf {s : ConcatSpec} (hs : s.Coherent) {ys : List (Arr α)}
    (hy : s.ChildWS ys) : View.WF s.O s.sizes.sum s.I (catView s.O (s.views ys)) :=
  catView_wf (s.views_wf hs hy).1 (s.views_wf hs hy).2

/-- the parts handed to the children are well-shaped -/
theorem ConcatSpec.parts_ws {s : ConcatSpec} (hs : s.Coherent) {x : List α}
    (hx : x.length = Arr.prod s.shape) : s.ChildWS (s.parts x) := by
  rw [s.parts_eq]
  refine ⟨by simp, ?_⟩
  intro j h1 h2
  simp only [List.getElem_map, List.getElem_zip]
  refine mk_mem_WS ?_
  rw [unview3_length (splitView_wf (view3_wf (by rw [hx, hs.prod_shape])) rfl h2), hs.prod_child]

/-- gluing well-shaped children gives a well-shaped array of the declared shape -/
theorem ConcatSpec.glue_ws {s : ConcatSpec} (hs : s.Coherent) {ys : List (Arr α)}
    (hy : s.ChildWS ys) : s.glue ys ∈ WS s.shape := by
  rw [s.glue_eq]
  exact mk_mem_WS (by rw [unview3_length (s.catView_views_wf hs hy), hs.prod_shape])

/-- splitting what was glued gives back the children's values -/
theorem ConcatSpec.parts_glue {s : ConcatSpec} (hs : s.Coherent) {ys : List (Arr α)}
    (hy : s.ChildWS ys) : s.parts (s.glue ys).data = ys := by
  rw [s.glue_eq, s.parts_eq]
  simp only
  rw [view3_unview3 (s.catView_views_wf hs hy),
    splitView_catView (s.views_wf hs hy).1 (s.views_wf' hs hy)]
  apply List.ext_getElem
  · simp [ConcatSpec.views, hy.1]
  · intro j h1 h2
    have hj : j < s.sizes.length := by rw [← hy.1]; exact h2
    have hyj := hy.2 j h2 hj
    simp only [ConcatSpec.views, List.getElem_map, List.getElem_zip]
    rw [unview3_view3 (by rw [hyj.2, hs.prod_child])]
    exact WS.eta hyj

/-- gluing the parts gives back the array -/
theorem ConcatSpec.glue_parts {s : ConcatSpec} (hs : s.Coherent) {x : Arr α}
    (hx : x ∈ WS s.shape) : s.glue (s.parts x.data) = x := by
  have hlen : x.data.length = s.O * (s.sizes.sum * s.I) := by rw [hx.2, hs.prod_shape]
  have hV := view3_wf hlen
  have : s.views (s.parts x.data) = splitView s.sizes (view3 s.O s.sizes.sum s.I x.data) := by
    rw [s.parts_eq]
    apply List.ext_getElem
    · simp [ConcatSpec.views]
    · intro j h1 h2
      have hj : j < s.sizes.length := by simpa using h2
      simp only [ConcatSpec.views, List.getElem_map, List.getElem_zip]
      exact view3_unview3 (splitView_wf hV rfl hj)
  rw [s.glue_eq, this, catView_splitView hV.1 (fun blk hb => (hV.2 blk hb).1), unview3_view3 hlen]
  exact WS.eta hx

theorem concatenate_flip (s : ConcatSpec) (bs : List (Bij (Arr α) C L)) :
    concatenate s (bs.map Bij.flip) = (concatenate s bs).flip := by
  simp [concatenate, Bij.flip, List.zipWith_map_left]

/-- hypothesis of `concatenate_lawful`: child `j` is lawful on arrays of its own shape -/
def ChildrenLawful (s : ConcatSpec) (bs : List (Bij (Arr α) C L)) : Prop :=
  bs.length = s.sizes.length ∧
    ∀ j (h1 : j < bs.length) (h2 : j < s.sizes.length),
      bs[j].Lawful (WS (s.childShape s.sizes[j])) (WS (s.childShape s.sizes[j]))

theorem ChildrenLawful.flip {s : ConcatSpec} {bs : List (Bij (Arr α) C L)}
    (h : ChildrenLawful s bs) : ChildrenLawful s (bs.map Bij.flip) := by
  refine ⟨by simpa using h.1, ?_⟩
  intro j h1 h2
  simp only [List.getElem_map]
  exact (h.2 j (by simpa using h1) h2).flip

theorem ChildrenLawful.out_ws {s : ConcatSpec} {bs : List (Bij (Arr α) C L)}
    (hb : ChildrenLawful s bs) {ps : List (Arr α)} (hp : s.ChildWS ps) (c : C) :
    s.ChildWS (List.zipWith (fun b p => b.fwd p c) bs ps) := by
  refine ⟨by simp [hb.1, hp.1], ?_⟩
  intro j h1 h2
  simp only [List.getElem_zipWith]
  exact (hb.2 j (by rw [hb.1]; exact h2) h2).maps _ (hp.2 j (by rw [hp.1]; exact h2) h2) c

/-- **each part of the output is the child's output on the corresponding part of the input** -/
theorem concatenate_parts_fwd {s : ConcatSpec} {bs : List (Bij (Arr α) C L)} (hs : s.Coherent)
    (hb : ChildrenLawful s bs) {x : Arr α} (hx : x ∈ WS s.shape) (c : C) :
    s.parts ((concatenate s bs).fwd x c).data
      = List.zipWith (fun b p => b.fwd p c) bs (s.parts x.data) :=
  s.parts_glue hs (hb.out_ws (s.parts_ws hs hx.2) c)

theorem concatenate_left {s : ConcatSpec} {bs : List (Bij (Arr α) C L)} (hs : s.Coherent)
    (hb : ChildrenLawful s bs) :
    ∀ x ∈ WS s.shape, ∀ c, (concatenate s bs).inv ((concatenate s bs).fwd x c) c = x := by
  intro x hx c
  have hp := s.parts_ws hs hx.2
  show s.glue (List.zipWith (fun b p => b.inv p c) bs
    (s.parts ((concatenate s bs).fwd x c).data)) = x
  rw [concatenate_parts_fwd hs hb hx c,
    zipWith_roundtrip (f := fun b p => b.fwd p c) (g := fun b p => b.inv p c) (by rw [hp.1, hb.1])
      (fun j h1 h2 => (hb.2 j h1 (by rw [← hb.1]; exact h1)).left _
        (hp.2 j h2 (by rw [← hb.1]; exact h1)) c)]
  exact s.glue_parts hs hx

/-- **Concatenate is lawful** on arrays of the declared shape when every child is lawful on arrays
of its own shape (any rank, any axis, any sizes — zeros included). -/
theorem concatenate_lawful {s : ConcatSpec} {bs : List (Bij (Arr α) C L)} (hs : s.Coherent)
    (hb : ChildrenLawful s bs) : (concatenate s bs).Lawful (WS s.shape) (WS s.shape) := by
  have hr := concatenate_left hs hb.flip
  have hm : ∀ (bs : List (Bij (Arr α) C L)), ChildrenLawful s bs →
      ∀ x ∈ WS s.shape, ∀ c, (concatenate s bs).fwd x c ∈ WS s.shape :=
    fun bs hb x hx c => s.glue_ws hs (hb.out_ws (s.parts_ws hs hx.2) c)
  have hmi := hm _ hb.flip
  rw [concatenate_flip] at hr hmi
  have hmem : ∀ b ∈ bs, (∀ x c, (b.fwdLd x c).1 = b.fwd x c) ∧ (∀ y c, (b.invLd y c).1 = b.inv y c) := by
    intro b hbm
    obtain ⟨j, hj, rfl⟩ := List.getElem_of_mem hbm
    have := hb.2 j hj (by rw [← hb.1]; exact hj)
    exact ⟨this.fwdLd_fst, this.invLd_fst⟩
  refine ⟨hm bs hb, hmi, concatenate_left hs hb, hr, ?_, ?_⟩
  · intro x c
    simp only [concatenate, List.map_zipWith]
    rw [zipWith_congr_mem _ (fun b h p => (hmem b h).1 p c)]
  · intro y c
    simp only [concatenate, List.map_zipWith]
    rw [zipWith_congr_mem _ (fun b h p => (hmem b h).2 p c)]

/-- slicewise description, both directions -/
theorem concatenate_slicewise {s : ConcatSpec} {bs : List (Bij (Arr α) C L)} (hs : s.Coherent)
    (hb : ChildrenLawful s bs) {x : Arr α} (hx : x ∈ WS s.shape) (c : C) :
    s.parts ((concatenate s bs).fwd x c).data
        = List.zipWith (fun b p => b.fwd p c) bs (s.parts x.data)
    ∧ s.parts ((concatenate s bs).inv x c).data
        = List.zipWith (fun b p => b.inv p c) bs (s.parts x.data) := by
  refine ⟨concatenate_parts_fwd hs hb hx c, ?_⟩
  have := concatenate_parts_fwd hs hb.flip hx c
  rw [concatenate_flip, List.zipWith_map_left] at this
  exact this

/-- the returned log-det is the sum of the children's (as the code's fold), both directions -/
theorem concatenate_ld_fold (s : ConcatSpec) (bs : List (Bij (Arr α) C L)) (x : Arr α) (c : C) :
    ((concatenate s bs).fwdLd x c).2
        = (List.zipWith (fun b p => (b.fwdLd p c).2) bs (s.parts x.data)).foldl (· + ·) 0
    ∧ ((concatenate s bs).invLd x c).2
        = (List.zipWith (fun b p => (b.invLd p c).2) bs (s.parts x.data)).foldl (· + ·) 0 := by
  simp [concatenate, List.map_zipWith]

/-- over ℝ the fold is the sum -/
theorem concatenate_ld {C : Type} (s : ConcatSpec) (bs : List (Bij (Arr α) C ℝ)) (x : Arr α) (c : C) :
    ((concatenate s bs).fwdLd x c).2
        = (List.zipWith (fun b p => (b.fwdLd p c).2) bs (s.parts x.data)).sum
    ∧ ((concatenate s bs).invLd x c).2
        = (List.zipWith (fun b p => (b.invLd p c).2) bs (s.parts x.data)).sum := by
  rw [List.sum_eq_foldl, List.sum_eq_foldl]
  exact concatenate_ld_fold s bs x c

/-! ## Stack: Concatenate of children given a singleton axis -/

/-- a child of `Stack` seen on its slice (the slice keeps its singleton axis; the child works on
`childShape`; data untouched) — the `expand` of `ArrComb.stack` -/
def expandB (childShape : List Nat) (b : Bij (Arr α) C L) : Bij (Arr α) C L where
  fwd := fun p c => ⟨p.shape, (b.fwd ⟨childShape, p.data⟩ c).data⟩
  inv := fun p c => ⟨p.shape, (b.inv ⟨childShape, p.data⟩ c).data⟩
  fwdLd := fun p c => let r := b.fwdLd ⟨childShape, p.data⟩ c; (⟨p.shape, r.1.data⟩, r.2)
  invLd := fun p c => let r := b.invLd ⟨childShape, p.data⟩ c; (⟨p.shape, r.1.data⟩, r.2)

theorem stack_eq (s : ConcatSpec) (childShape : List Nat) (bs : List (Bij (Arr α) C L)) :
    stack s childShape bs = concatenate s (bs.map (expandB childShape)) := rfl

theorem expandB_flip (cs : List Nat) (b : Bij (Arr α) C L) :
    expandB cs b.flip = (expandB cs b).flip := rfl

theorem expandB_left {cs cs' : List Nat} {b : Bij (Arr α) C L}
    (hb : b.Lawful (WS cs) (WS cs)) (hp : Arr.prod cs' = Arr.prod cs) :
    ∀ x ∈ WS cs', ∀ c, (expandB cs b).inv ((expandB cs b).fwd x c) c = x := by
  intro x hx c
  have hg : (⟨cs, x.data⟩ : Arr α) ∈ WS cs := mk_mem_WS (by rw [hx.2, hp])
  have hy := hb.maps _ hg c
  show (⟨x.shape, (b.inv ⟨cs, (b.fwd ⟨cs, x.data⟩ c).data⟩ c).data⟩ : Arr α) = x
  rw [WS.eta hy, hb.left _ hg c]

theorem expandB_lawful {cs cs' : List Nat} {b : Bij (Arr α) C L}
    (hb : b.Lawful (WS cs) (WS cs)) (hp : Arr.prod cs' = Arr.prod cs) :
    (expandB cs b).Lawful (WS cs') (WS cs') := by
  refine ⟨?_, ?_, expandB_left hb hp, expandB_left hb.flip hp, ?_, ?_⟩
  · intro x hx c
    have hg : (⟨cs, x.data⟩ : Arr α) ∈ WS cs := mk_mem_WS (by rw [hx.2, hp])
    exact ⟨hx.1, by show (b.fwd ⟨cs, x.data⟩ c).data.length = _; rw [(hb.maps _ hg c).2, hp]⟩
  · intro y hy c
    have hg : (⟨cs, y.data⟩ : Arr α) ∈ WS cs := mk_mem_WS (by rw [hy.2, hp])
    exact ⟨hy.1, by show (b.inv ⟨cs, y.data⟩ c).data.length = _; rw [(hb.mapsInv _ hg c).2, hp]⟩
  · intro x c; simp [expandB, hb.fwdLd_fst]
  · intro y c; simp [expandB, hb.invLd_fst]

/-- coherence of a `Stack` spec: the axis exists in the stacked shape, its length is the number of
children, every child has size one along it, and the child shape is the stacked shape without it -/
structure StackCoherent (s : ConcatSpec) (childShape : List Nat) (k : Nat) : Prop where
  axis_lt : s.axis < s.shape.length
  axis_size : s.shape[s.axis] = k
  sizes_eq : s.sizes = List.replicate k 1
  child_eq : childShape = s.shape.eraseIdx s.axis

theorem StackCoherent.coherent {s : ConcatSpec} {cs : List Nat} {k : Nat} (h : StackCoherent s cs k) :
    s.Coherent := ⟨h.axis_lt, by rw [h.axis_size, h.sizes_eq]; simp⟩

theorem StackCoherent.prod_child {s : ConcatSpec} {cs : List Nat} {k : Nat} (h : StackCoherent s cs k) :
    Arr.prod (s.childShape 1) = Arr.prod cs := by
  rw [h.coherent.prod_child, h.child_eq, prod_eraseIdx h.axis_lt]; simp [ConcatSpec.O, ConcatSpec.I]

theorem StackCoherent.children {s : ConcatSpec} {cs : List Nat} {bs : List (Bij (Arr α) C L)}
    (h : StackCoherent s cs bs.length) (hb : ∀ b ∈ bs, b.Lawful (WS cs) (WS cs)) :
    ChildrenLawful s (bs.map (expandB cs)) := by
  refine ⟨by simp [h.sizes_eq], ?_⟩
  intro j h1 h2
  have h1' : j < bs.length := by simpa using h1
  have hsz : s.sizes[j] = 1 := by simp [h.sizes_eq]
  simp only [List.getElem_map]
  rw [hsz]
  exact expandB_lawful (hb _ (List.getElem_mem h1')) h.prod_child

/-- **Stack is lawful** on arrays of the stacked shape when every child is lawful on the child shape -/
theorem stack_lawful {s : ConcatSpec} {cs : List Nat} {bs : List (Bij (Arr α) C L)}
    (h : StackCoherent s cs bs.length) (hb : ∀ b ∈ bs, b.Lawful (WS cs) (WS cs)) :
    (stack s cs bs).Lawful (WS s.shape) (WS s.shape) := by
  rw [stack_eq]; exact concatenate_lawful h.coherent (h.children hb)

/-- **slice `j` of the output of Stack is child `j` applied to slice `j` of the input** (the slices
are `s.parts`, each of shape `s.childShape 1`; the child sees its data under `childShape`) -/
theorem stack_slicewise {s : ConcatSpec} {cs : List Nat} {bs : List (Bij (Arr α) C L)}
    (h : StackCoherent s cs bs.length) (hb : ∀ b ∈ bs, b.Lawful (WS cs) (WS cs))
    {x : Arr α} (hx : x ∈ WS s.shape) (c : C) :
    (s.parts ((stack s cs bs).fwd x c).data).map Arr.data
        = List.zipWith (fun b (p : Arr α) => (b.fwd ⟨cs, p.data⟩ c).data) bs (s.parts x.data)
    ∧ (s.parts ((stack s cs bs).inv x c).data).map Arr.data
        = List.zipWith (fun b (p : Arr α) => (b.inv ⟨cs, p.data⟩ c).data) bs (s.parts x.data) := by
  have := concatenate_slicewise h.coherent (h.children hb) hx c
  rw [stack_eq, this.1, this.2]
  simp [List.map_zipWith, List.zipWith_map_left, expandB]

/-! ## Vmap: Stack along a new leading axis -/

theorem vmap_coherent (cs : List Nat) (bs : List (Bij (Arr α) C L)) :
    StackCoherent ⟨bs.length :: cs, 0, List.replicate bs.length 1⟩ cs bs.length :=
  ⟨by simp, by simp, rfl, by simp⟩

theorem vmap_parts (cs : List Nat) (k : Nat) {x : List α} (hx : x.length = k * Arr.prod cs) :
    ((⟨k :: cs, 0, List.replicate k 1⟩ : ConcatSpec).parts x).map Arr.data
      = chunks (Arr.prod cs) k x := by
  rw [ConcatSpec.parts_eq]
  apply List.ext_getElem
  · simp
  · intro j h1 h2
    have hj : j < k := by simpa using h2
    have hjc : j < (chunks (Arr.prod cs) k x).length := by simpa using hj
    simp only [List.getElem_map, List.getElem_zip]
    rw [splitView_slicewise _ _ (by simpa using hj)]
    have hO : (⟨k :: cs, 0, List.replicate k 1⟩ : ConcatSpec).O = 1 := rfl
    have hI : (⟨k :: cs, 0, List.replicate k 1⟩ : ConcatSpec).I = Arr.prod cs := rfl
    have hoff : offset (List.replicate k 1) j = j := by
      simp [offset, List.take_replicate, Nat.min_eq_left (Nat.le_of_lt hj)]
    have htk : List.take (k * Arr.prod cs) x = x := List.take_of_length_le (by omega)
    simp only [hO, hI, hoff, view3, chunks, List.sum_replicate_nat, Nat.mul_one, List.map_cons,
      List.map_nil, List.getElem_replicate, htk]
    rw [List.drop_eq_getElem_cons hjc]
    simp only [unview3, List.take_succ_cons, List.take_zero, List.map_cons, List.map_nil,
      List.flatten_cons, List.flatten_nil, List.append_nil]

/-- **Vmap applies the wrapped bijection slice by slice along the new leading axis**: slice `i`
(the `i`-th chunk of `∏ cshape` entries) of the output is bijection `i` applied to slice `i` of the input. -/
theorem vmap_slicewise (cs : List Nat) {bs : List (Bij (Arr α) C L)}
    (hb : ∀ b ∈ bs, b.Lawful (WS cs) (WS cs)) {x : Arr α} (hx : x ∈ WS (bs.length :: cs)) (c : C) :
    chunks (Arr.prod cs) bs.length ((vmap cs bs).fwd x c).data
        = List.zipWith (fun b sl => (b.fwd ⟨cs, sl⟩ c).data) bs (chunks (Arr.prod cs) bs.length x.data)
    ∧ chunks (Arr.prod cs) bs.length ((vmap cs bs).inv x c).data
        = List.zipWith (fun b sl => (b.inv ⟨cs, sl⟩ c).data) bs (chunks (Arr.prod cs) bs.length x.data) := by
  have hco := vmap_coherent cs bs
  have hl := stack_lawful hco hb
  have hsl := stack_slicewise hco hb hx c
  have hlen : ∀ {y : Arr α}, y ∈ WS (bs.length :: cs) → y.data.length = bs.length * Arr.prod cs :=
    fun hy => by rw [hy.2, prod_cons]
  have h1 := vmap_parts cs bs.length (hlen (hl.maps x hx c))
  have h2 := vmap_parts cs bs.length (hlen (hl.mapsInv x hx c))
  have h0 := vmap_parts cs bs.length (hlen hx)
  constructor
  · rw [← h0, List.zipWith_map_right]; exact h1.symm.trans hsl.1
  · rw [← h0, List.zipWith_map_right]; exact h2.symm.trans hsl.2

theorem vmap_lawful (cs : List Nat) {bs : List (Bij (Arr α) C L)}
    (hb : ∀ b ∈ bs, b.Lawful (WS cs) (WS cs)) :
    (vmap cs bs).Lawful (WS (bs.length :: cs)) (WS (bs.length :: cs)) :=
  stack_lawful (vmap_coherent cs bs) hb

end ArrComb

/-! ## Chain: composition, indexing, slicing -/
namespace Gen
variable {X C : Type}

theorem chain_pair_fwd {α : Type} [Add α] [Neg α] [OfNat α 0] (b₁ b₂ : Bij X C α) (x : X) (c : C) :
    (Chain.mk [b₁, b₂]).toBij.fwd x c = b₂.fwd (b₁.fwd x c) c := by simp [Chain.toBij]

theorem chain_pair_inv {α : Type} [Add α] [Neg α] [OfNat α 0] (b₁ b₂ : Bij X C α) (y : X) (c : C) :
    (Chain.mk [b₁, b₂]).toBij.inv y c = b₁.inv (b₂.inv y c) c := by simp [Chain.toBij]

theorem chain_pair_fwdLd (b₁ b₂ : Bij X C ℝ) (x : X) (c : C) :
    (Chain.mk [b₁, b₂]).toBij.fwdLd x c
      = ((b₂.fwdLd (b₁.fwdLd x c).1 c).1, (b₁.fwdLd x c).2 + (b₂.fwdLd (b₁.fwdLd x c).1 c).2) := by
  simp [Chain.toBij, Chain.tld_cons, Chain.tld_nil]

theorem chain_pair_invLd (b₁ b₂ : Bij X C ℝ) (y : X) (c : C) :
    (Chain.mk [b₁, b₂]).toBij.invLd y c
      = ((b₁.invLd (b₂.invLd y c).1 c).1, (b₂.invLd y c).2 + (b₁.invLd (b₂.invLd y c).1 c).2) := by
  simp [Chain.toBij, Chain.inverse_and_log_det, Jnp.sumElem]

/-- cutting a chain in two sub-chains and chaining them is the chain, in all four methods -/
theorem chain_split (l : List (Bij X C ℝ)) (i : Nat) :
    (Chain.mk [(Chain.mk (l.take i)).toBij, (Chain.mk (l.drop i)).toBij]).toBij.Equiv (Chain.mk l).toBij := by
  have := merge_chains_step [Item.chain (l.take i), Item.chain (l.drop i)]
  simpa [Item.toBij, Item.flat] using this

/-- `c[:i] ; c[i:j] ; c[j:]` is `c` -/
theorem chain_slice3 (l : List (Bij X C ℝ)) {i j : Nat} (hij : i ≤ j) :
    (Chain.mk [(Chain.mk l).getSlice 0 i |>.toBij, (Chain.mk l).getSlice i j |>.toBij,
        (Chain.mk l).getSlice j l.length |>.toBij]).toBij.Equiv (Chain.mk l).toBij := by
  have := merge_chains_step
    [Item.chain (l.take i), Item.chain ((l.take j).drop i), Item.chain (l.drop j)]
  have hl : l.take i ++ ((l.take j).drop i ++ l.drop j) = l := by
    rw [← List.append_assoc]
    have : l.take i = (l.take j).take i := by rw [List.take_take, Nat.min_eq_left hij]
    rw [this, List.take_append_drop, List.take_append_drop]
  simpa [Item.toBij, Item.flat, Chain.getSlice, hl] using this

/-- `c[:i] ; c[i] ; c[i+1:]` is `c` -/
theorem chain_index3 (l : List (Bij X C ℝ)) {i : Nat} (hi : i < l.length) :
    (Chain.mk [(Chain.mk (l.take i)).toBij, l[i], (Chain.mk (l.drop (i + 1))).toBij]).toBij.Equiv
      (Chain.mk l).toBij := by
  have := merge_chains_step
    [Item.chain (l.take i), Item.plain l[i], Item.chain (l.drop (i + 1))]
  have hl : l.take i ++ l[i] :: l.drop (i + 1) = l := by
    rw [← List.drop_eq_getElem_cons hi, List.take_append_drop]
  simpa [Item.toBij, Item.flat, hl] using this

end Gen
