import Mathlib.Topology.Order.IntermediateValue
import Mathlib.Algebra.Ring.GeomSum
import Mathlib.Algebra.Order.BigOperators.Ring.Finset
import Flowjaxv.Proofs.Bisection
/-!
# Error propagation of the coordinate-by-coordinate scan (C10, autoregressive part)

`Bisection.scan_exact` covers an exact scalar solver.  Here: an `ε`-accurate scalar solver on a
triangular map whose own-coordinate slices are continuous with slope `≥ m > 0` and which is
`L`-Lipschitz (ℓ¹) in the earlier coordinates gives `|outᵢ − xsᵢ| ≤ ε·(1 + L/m)^i`; and the bisection
solver of `_autoregressive_bisection_search` IS `ε`-accurate for an explicit `ε`.
-/
set_option linter.unusedSectionVars false
set_option linter.unusedVariables false
open Gen Model Finset

namespace Bisection

/-- triangular map on length-`n` vectors; own-coordinate slices continuous with slope at least `m`;
`L`-Lipschitz in the earlier coordinates (and independent of the later ones) -/
structure LipTriangular (fn : List ℝ → List ℝ) (n : ℕ) (m L : ℝ) : Prop where
  m_pos : 0 < m
  L_nonneg : 0 ≤ L
  length_eq : ∀ x : List ℝ, x.length = n → (fn x).length = n
  slope : ∀ (x : List ℝ) (i : ℕ), x.length = n → i < n → ∀ s t : ℝ, s ≤ t →
    m * (t - s) ≤ (fn (x.set i t)).getD i 0 - (fn (x.set i s)).getD i 0
  cont : ∀ (x : List ℝ) (i : ℕ), x.length = n → i < n →
    Continuous (fun t => (fn (x.set i t)).getD i 0)
  lip : ∀ (x x' : List ℝ) (i : ℕ), x.length = n → x'.length = n → i < n → x.getD i 0 = x'.getD i 0 →
    |(fn x).getD i 0 - (fn x').getD i 0| ≤ L * ∑ j ∈ range i, |x.getD j 0 - x'.getD j 0|

theorem LipTriangular.toTriangular {fn : List ℝ → List ℝ} {n : ℕ} {m L : ℝ} (h : LipTriangular fn n m L) :
    Triangular fn n where
  length_eq := h.length_eq
  dep := by
    intro x x' i hx hx' hi hj
    have h0 : ∑ j ∈ range i, |x.getD j 0 - x'.getD j 0| = 0 := by
      apply Finset.sum_eq_zero
      intro j hjm
      rw [hj j (Finset.mem_range.mp hjm).le, sub_self, abs_zero]
    have := h.lip x x' i hx hx' hi (hj i (le_refl _))
    rw [h0, mul_zero] at this
    have h2 := abs_nonneg ((fn x).getD i 0 - (fn x').getD i 0)
    have : |(fn x).getD i 0 - (fn x').getD i 0| = 0 := le_antisymm this h2
    exact sub_eq_zero.mp (abs_eq_zero.mp this)
  mono := by
    intro x i hx hi s t hst
    have := h.slope x i hx hi s t hst.le
    have hm := h.m_pos
    simp only
    nlinarith

/-- a continuous function with slope `≥ m > 0` has a root within `|g p| / m` of any point `p` -/
theorem root_near {g : ℝ → ℝ} {m : ℝ} (hm : 0 < m) (hc : Continuous g)
    (hs : ∀ s t : ℝ, s ≤ t → m * (t - s) ≤ g t - g s) (p : ℝ) :
    ∃ r, g r = 0 ∧ |r - p| ≤ |g p| / m := by
  have hd : 0 ≤ |g p| / m := div_nonneg (abs_nonneg _) hm.le
  have ha : g (p - |g p| / m) ≤ 0 := by
    have := hs (p - |g p| / m) p (by linarith)
    have e : m * (p - (p - |g p| / m)) = |g p| := by field_simp; ring
    rw [e] at this
    linarith [le_abs_self (g p)]
  have hb : 0 ≤ g (p + |g p| / m) := by
    have := hs p (p + |g p| / m) (by linarith)
    have e : m * (p + |g p| / m - p) = |g p| := by field_simp; ring
    rw [e] at this
    linarith [neg_abs_le (g p)]
  obtain ⟨r, ⟨hr1, hr2⟩, hr0⟩ :=
    intermediate_value_Icc (by linarith : p - |g p| / m ≤ p + |g p| / m) hc.continuousOn ⟨ha, hb⟩
  exact ⟨r, hr0, by rw [abs_le]; constructor <;> linarith⟩

/-- the scan with an `ε`-accurate scalar solver: `|outᵢ − xsᵢ| ≤ ε·(1 + L/m)^i` -/
theorem scan_error_bound {fn : List ℝ → List ℝ} {n : ℕ} {m L : ℝ} (ht : LipTriangular fn n m L)
    (xs : List ℝ) (hxs : xs.length = n) (hroot : ∀ i, i < n → (fn xs).getD i 0 = 0)
    (ε : ℝ) (hε : 0 ≤ ε) (solve : (ℝ → ℝ) → Option ℝ)
    (hsolve : ∀ (g : ℝ → ℝ) (r : ℝ), StrictMono g → g r = 0 →
      (∃ i, i < n ∧ |r - xs.getD i 0| ≤ ε * (1 + L / m) ^ n) → ∃ v, solve g = some v ∧ |v - r| ≤ ε) :
    ∀ (k i : ℕ) (y : List ℝ), i + k = n → y.length = n →
      (∀ j, j < i → |y.getD j 0 - xs.getD j 0| ≤ ε * (1 + L / m) ^ j) →
      ∃ out, autoregressiveScan solve fn k i y = some out ∧ out.length = n ∧
        ∀ j, j < n → |out.getD j 0 - xs.getD j 0| ≤ ε * (1 + L / m) ^ j := by
  have hm := ht.m_pos
  have hL := ht.L_nonneg
  have hq : 0 ≤ L / m := div_nonneg hL hm.le
  have htri := ht.toTriangular
  intro k
  induction k with
  | zero =>
    intro i y hik hy hpre
    exact ⟨y, by simp [autoregressiveScan], hy, fun j hj => hpre j (by omega)⟩
  | succ k ih =>
    intro i y hik hy hpre
    have hi : i < n := by omega
    set g : ℝ → ℝ := fun t => (fn (y.set i t)).getD i 0 with hg
    set p := xs.getD i 0 with hp
    -- |g p| ≤ L · Σ_{j<i} ε (1+q)^j
    have hgp : |g p| ≤ L * ∑ j ∈ range i, ε * (1 + L / m) ^ j := by
      have h1 := ht.lip (y.set i p) xs i (by simp [hy]) hxs hi (getD_set_self y i (by omega) p)
      rw [hroot i hi, sub_zero] at h1
      refine le_trans h1 (mul_le_mul_of_nonneg_left ?_ hL)
      apply Finset.sum_le_sum
      intro j hj
      have hji : j < i := Finset.mem_range.mp hj
      rw [getD_set_ne y i j (by omega)]
      exact hpre j hji
    have hsum : L / m * ∑ j ∈ range i, ε * (1 + L / m) ^ j = ε * ((1 + L / m) ^ i - 1) := by
      have := geom_sum_mul_add (L / m) i
      rw [← Finset.mul_sum]
      have e : (L / m + 1) = (1 + L / m) := add_comm _ _
      rw [e] at this
      linear_combination ε * this
    obtain ⟨r', hr0, hrp⟩ := root_near hm (ht.cont y i hy hi) (ht.slope y i hy hi) p
    have hrp' : |r' - p| ≤ ε * ((1 + L / m) ^ i - 1) := by
      refine le_trans hrp ?_
      rw [← hsum, div_le_iff₀ hm]
      calc |g p| ≤ L * ∑ j ∈ range i, ε * (1 + L / m) ^ j := hgp
        _ = L / m * (∑ j ∈ range i, ε * (1 + L / m) ^ j) * m := by field_simp
    have hpow : (1 + L / m) ^ i ≤ (1 + L / m) ^ n := pow_le_pow_right₀ (by linarith) hi.le
    obtain ⟨v, hv, hvr⟩ := hsolve g r' (htri.mono y i hy hi) hr0
      ⟨i, hi, le_trans hrp' (by nlinarith [mul_le_mul_of_nonneg_left hpow hε])⟩
    have hvp : |v - p| ≤ ε * (1 + L / m) ^ i := by
      have : |v - p| ≤ |v - r'| + |r' - p| := by
        have := abs_add_le (v - r') (r' - p)
        simpa using this
      linarith
    have hs : solve (scalarFn fn y i) = some v := by rw [scalarFn_eq htri y hy i hi]; exact hv
    unfold autoregressiveScan
    rw [hs]
    apply ih (i + 1) _ (by omega) (by simp [hy])
    intro j hj
    by_cases e : j = i
    · subst e; rw [getD_set_self y j (by omega) v]; exact hvp
    · rw [getD_set_ne y i j (Ne.symm e)]; exact hpre j (by omega)

theorem adaptFuel_le_of_dist {r lower upper d : ℝ} (h : lower < upper)
    (hd : max (lower - r) (r - upper) ≤ d) :
    adaptFuel r lower upper ≤ Nat.clog 2 (⌈d / (upper - lower)⌉₊ + 1) := by
  unfold adaptFuel adaptUnits
  apply Nat.clog_mono_right
  apply Nat.succ_le_succ
  apply Nat.ceil_mono
  exact div_le_div_of_nonneg_right hd (by linarith)

/-- the scalar solver of `_autoregressive_bisection_search` is `ε`-accurate on every strictly increasing
function whose root is within `ρ` of a point at distance `≤ D` from `[lower, upper]` -/
theorem bisectionSolver_accurate {lower upper : ℝ} (h : lower < upper) (tol : ℝ) (max_iter : Int)
    (hmi : 0 ≤ max_iter) (D ρ : ℝ) (fuel : ℕ)
    (hf1 : Nat.clog 2 (⌈(D + ρ) / (upper - lower)⌉₊ + 1) ≤ fuel) (hf2 : max_iter.toNat ≤ fuel)
    (g : ℝ → ℝ) (r : ℝ) (hg : StrictMono g) (hr : g r = 0) (c : ℝ)
    (hc : lower - D ≤ c ∧ c ≤ upper + D) (hD : 0 ≤ D) (hrc : |r - c| ≤ ρ) :
    ∃ v, bisectionSolver lower upper tol max_iter fuel g = some v ∧
      |v - r| ≤ max tol ((upper - lower + D + ρ) / 2 ^ (max_iter.toNat + 1)) := by
  have hρ : 0 ≤ ρ := le_trans (abs_nonneg _) hrc
  obtain ⟨h1, h2⟩ := abs_le.mp hrc
  have hd : max (lower - r) (r - upper) ≤ D + ρ := max_le (by linarith [hc.1]) (by linarith [hc.2])
  obtain ⟨root, ai, it, lo, hi, e, _, _, _, _, _, _, _, hw, hres, _⟩ :=
    search_main g hg r hr h tol max_iter hmi fuel (le_trans (adaptFuel_le_of_dist h hd) hf1) hf2
  refine ⟨root, by unfold bisectionSolver; rw [e]; rfl, le_trans hres (max_le_max (le_refl _) ?_)⟩
  apply div_le_div_of_nonneg_right _ (by positivity)
  refine le_trans hw ?_
  unfold adaptWidth
  have : max 0 (max (lower - r) (r - upper)) ≤ D + ρ := max_le (by linarith) hd
  linarith

/-! ### a concrete instance (non-vacuity of `LipTriangular`) -/

/-- a concrete 2-dimensional triangular map with cross-coordinate coupling -/
def exampleMap (x : List ℝ) : List ℝ := [2 * x.getD 0 0 - 5, x.getD 1 0 + x.getD 0 0 - 5]

theorem exampleMap_lip : LipTriangular exampleMap 2 1 1 where
  m_pos := by norm_num
  L_nonneg := by norm_num
  length_eq := by intro x _; rfl
  slope := by
    intro x i hx hi s t hst
    obtain ⟨a, b, rfl⟩ := List.length_eq_two.mp hx
    interval_cases i <;> (simp [exampleMap]; try linarith)
  cont := by
    intro x i hx hi
    obtain ⟨a, b, rfl⟩ := List.length_eq_two.mp hx
    interval_cases i <;> simp [exampleMap] <;> fun_prop
  lip := by
    intro x x' i hx hx' hi he
    obtain ⟨a, b, rfl⟩ := List.length_eq_two.mp hx
    obtain ⟨a', b', rfl⟩ := List.length_eq_two.mp hx'
    interval_cases i
    · simp [exampleMap] at he ⊢; rw [he]; simp
    · simp [exampleMap] at he ⊢; rw [he]
      have : b' + a - (b' + a') = a - a' := by ring
      rw [this]


end Bisection
