import Flowjaxv.Proofs.Vectorize
import Flowjaxv.Gen.DistPublicGen
/-!
# The GENERATED public wrappers of `AbstractDistribution` (`Gen/DistPublicGen.lean`) equal the hand model `Model/Vectorize.lean`

`Gen/DistPublicGen.lean` is regenerated from `flowjax/distributions.py` / `flowjax/utils.py` on every run
(`tools/py2lean/py2meth.py`, sheet `targets_dist_public.py`, world `Model/DistPublicWorld.lean`).  Here: each generated
function equals the hand model's corresponding function for ALL shapes, arrays and private methods, accepted or rejected.
`d` is always the unwrapped object `W.unwrap self` (every public method starts with `self = unwrap(self)`).
-/
set_option linter.unusedSectionVars false
set_option linter.unusedVariables false

namespace VectorizeGen
open Vec Pw GenDist

variable {X C K L A R : Type}

/-! ### `_get_ufunc_signature` -/

theorem shapesToStr_eq' (ss : List Shape) : getUfuncSignature_shapesToStr ss = shapesToStr ss := rfl

/-- the generated `_get_ufunc_signature` is the hand model's signature text, for all lists of shapes -/
theorem ufunc_signature_eq (ins outs : List Shape) : getUfuncSignature ins outs = ufuncSignatureChars ins outs := by
  simp only [getUfuncSignature, shapesToStr_eq', ufuncSignatureChars, List.append_assoc]

theorem ufunc_signature_string_eq (ins outs : List Shape) :
    String.ofList (getUfuncSignature ins outs) = ufuncSignature ins outs := by
  rw [ufunc_signature_eq]; rfl

theorem parseSig_roundtrip (ins outs : List Shape) (hi : ins ≠ []) (ho : outs ≠ []) :
    parseSig (getUfuncSignature ins outs) = some (ins, outs) := by
  simp only [parseSig, ufunc_signature_eq, parseSignatureChars_roundtrip ins outs hi ho, mapM_mapM_nameToNat]

/-! ### the properties -/

theorem ndim_eq (W : World X C K L) (d : DistObj X C K L) : ndim W d = d.shape.length := rfl

theorem cond_ndim_eq (W : World X C K L) (d : DistObj X C K L) : condNdim W d = d.cond_shape.map List.length := by
  unfold condNdim; cases d.cond_shape <;> rfl

/-! ### `_check_shapes` -/

/-- the generated wrapper raises iff some positional argument's shape differs from the declared one (`zip(strict=False)`:
surplus arguments are not looked at) — the hand model's `checkShapes` on every pair -/
theorem wrapper_raises_eq (ins : List Shape) (args : List Shaped) :
    vectorize_checkShapes_wrapper_raises ins args
      = !((List.zipWith checkShapes ins (args.map (·.shape))).all id) := by
  unfold vectorize_checkShapes_wrapper_raises bindArgs
  simp only [Bool.false_or]
  induction ins generalizing args with
  | nil => simp
  | cons s ins ih =>
    cases args with
    | nil => simp
    | cons a args =>
      have := ih args
      simp only [List.map_cons, List.zip_cons_cons, List.any_cons, List.zipWith_cons_cons, List.all_cons, this, checkShapes, id]
      cases h : (a.shape == s) <;> simp [bne, h]

theorem vectorizeLoopWith_eq (ins args : List Shape) :
    vectorizeLoopWith (vectorize_checkShapes_wrapper_raises ins) ins args = vectorizeLoop ins args := by
  unfold vectorizeLoopWith vectorizeLoop
  cases splitAll ins args with
  | none => rfl
  | some parts =>
    simp only []
    cases dimsAll [] ins parts with
    | none => rfl
    | some sz =>
      simp only []
      cases broadcastShapes (parts.map (·.1)) with
      | none => rfl
      | some loop =>
        simp only [wrapper_raises_eq, List.map_map, Function.comp_def]
        cases (List.zipWith checkShapes ins (parts.map fun p => p.2)).all id <;> rfl

/-! ### `_vectorize` -/

/-- the `in_shapes` / `out_shapes` the generated `_vectorize` selects are the hand model's `methodShapes` -/
theorem vectorize_unfold (W : World X C K L) (d : DistObj X C K L) (m : BoundMethod A C R) :
    vectorize W d m
      = jnpVectorize ⟨vectorize_checkShapes_wrapper_raises (methodShapes m.name d.shape d.cond_shape).1, m⟩
          (getUfuncSignature (methodShapes m.name d.shape d.cond_shape).1 (methodShapes m.name d.shape d.cond_shape).2)
          (match d.cond_shape with | none => [1] | some _ => []) := by
  unfold vectorize methodShapes
  cases d.cond_shape <;> cases m.name <;> rfl

theorem methodShapes_ne_nil (n : Method) (shape : Shape) (cs : Option Shape) :
    (methodShapes n shape cs).1 ≠ [] ∧ (methodShapes n shape cs).2 ≠ [] := by
  cases n <;> cases cs <;> simp [methodShapes]

/-- the first input core shape of a method: `(2,)` for the samplers (a key), `self.shape` for `_log_prob` -/
def coreOf (n : Method) (shape : Shape) : Shape := match n with | .logProb => shape | _ => [2]

theorem methodShapes_fst (n : Method) (shape : Shape) (cs : Option Shape) :
    (methodShapes n shape cs).1 = coreOf n shape :: (match cs with | some c => [c] | none => []) := by
  cases n <;> cases cs <;> rfl

/-- `jnp.vectorize` with nothing excluded, on a signature that parses to two input core shapes -/
theorem jnpVectorize_two (f : Checked A C R) (sig : List Char) (cA cB : Shape) (outs : List Shape)
    (hp : parseSig sig = some ([cA, cB], outs))
    (hl : ∀ args, vectorizeLoopWith f.raises [cA, cB] args = vectorizeLoop [cA, cB] args)
    (hout : outs = f.method.outShapes) (a : Arr A) :
    (∀ c : Arr C, jnpVectorize f sig [] a (some c) = vectorize2 cA cB (fun a c => f.method.call a (.elem c)) a c) ∧
    jnpVectorize f sig [] a (none : Option (Arr C)) = .error .typeError := by
  constructor
  · intro c
    simp only [jnpVectorize, hp, hl, hout, if_true, (by simp : ¬ (([] : List Nat) = [1])), if_false]
    unfold vectorize2
    cases vectorizeLoop [cA, cB] [a.shape, c.shape] with
    | error e => rfl
    | ok p =>
      obtain ⟨leads, loop⟩ := p
      match leads with
      | [] => rfl
      | [_] => rfl
      | [_, _] => rfl
      | _ :: _ :: _ :: _ => rfl
  · simp only [jnpVectorize, hp, (by simp : ¬ (([] : List Nat) = [1])), if_false, if_true]

/-- `jnp.vectorize` with argument 1 excluded, on a signature that parses to one input core shape -/
theorem jnpVectorize_one (f : Checked A C R) (sig : List Char) (cA : Shape) (outs : List Shape)
    (hp : parseSig sig = some ([cA], outs))
    (hl : ∀ args, vectorizeLoopWith f.raises [cA] args = vectorizeLoop [cA] args)
    (hout : outs = f.method.outShapes) (a : Arr A) (c : Option (Arr C)) :
    jnpVectorize f sig [1] a c = vectorize1 cA (fun a => f.method.call a (.raw c)) a := by
  simp only [jnpVectorize, hp, hl, hout, if_true]
  unfold vectorize1
  cases vectorizeLoop [cA] [a.shape] with
  | error e => rfl
  | ok p =>
    obtain ⟨leads, loop⟩ := p
    match leads with
    | [] => rfl
    | [_] => rfl
    | _ :: _ :: _ => rfl

/-- conditional distribution: the generated `_vectorize(method)(a, c)` is the hand model's `vectorize2` with the core shapes
of the method, the condition vectorised over (`None` is a TypeError) — provided the method returns arrays of the shapes
its contract says (`m.outShapes`) -/
theorem vectorize_cond_eq (W : World X C K L) (d : DistObj X C K L) (m : BoundMethod A C R) (cs : Shape)
    (hcs : d.cond_shape = some cs) (hout : m.outShapes = (methodShapes m.name d.shape d.cond_shape).2) (a : Arr A) :
    (∀ c : Arr C, vectorize W d m a (some c)
        = vectorize2 (coreOf m.name d.shape) cs (fun a c => m.call a (.elem c)) a c) ∧
    vectorize W d m a none = .error .typeError := by
  rw [vectorize_unfold]
  have hp := parseSig_roundtrip _ _ (methodShapes_ne_nil m.name d.shape d.cond_shape).1
    (methodShapes_ne_nil m.name d.shape d.cond_shape).2
  have hf : (methodShapes m.name d.shape d.cond_shape).1 = [coreOf m.name d.shape, cs] := by
    rw [methodShapes_fst, hcs]
  rw [hf] at hp ⊢
  simp only [hcs]
  exact jnpVectorize_two _ _ _ _ _ (by rw [← hcs]; exact hp) (fun args => vectorizeLoopWith_eq _ args) (by rw [hout, hcs]) a

/-- unconditional distribution: argument 1 is excluded and handed to every call unchanged — the hand model's `vectorize1` -/
theorem vectorize_uncond_eq (W : World X C K L) (d : DistObj X C K L) (m : BoundMethod A C R)
    (hcs : d.cond_shape = none) (hout : m.outShapes = (methodShapes m.name d.shape d.cond_shape).2) (a : Arr A)
    (c : Option (Arr C)) :
    vectorize W d m a c = vectorize1 (coreOf m.name d.shape) (fun a => m.call a (.raw c)) a := by
  rw [vectorize_unfold]
  have hp := parseSig_roundtrip _ _ (methodShapes_ne_nil m.name d.shape d.cond_shape).1
    (methodShapes_ne_nil m.name d.shape d.cond_shape).2
  have hf : (methodShapes m.name d.shape d.cond_shape).1 = [coreOf m.name d.shape] := by
    rw [methodShapes_fst, hcs]
  rw [hf] at hp ⊢
  simp only [hcs]
  exact jnpVectorize_one _ _ _ _ (by rw [← hcs]; exact hp) (fun args => vectorizeLoopWith_eq _ args) (by rw [hout, hcs]) a c

/-! ### `_get_sample_keys` -/

theorem orNone_negNat (n : Nat) : orNone (negNat n) = negOrNone n := by
  unfold orNone negNat negOrNone
  by_cases h : n = 0
  · simp [h]
  · have : ¬ (-(n : Int) = 0) := by omega
    simp [h, this]

theorem sliceTo_eq (c : Shape) (n : Nat) : sliceTo c (orNone (negNat n)) = leadingCondShape c n := by
  rw [orNone_negNat]; rfl

theorem bind_ok' {ε α β : Type} (a : α) (f : α → Except ε β) : Except.bind (Except.ok a) f = f a := rfl
theorem bind_error' {ε α β : Type} (e : ε) (f : α → Except ε β) : Except.bind (Except.error e : Except ε α) f = Except.error e := rfl

theorem sprod_pair (n : Nat) : sprod [n, 2] = n * 2 := by simp [sprod]

theorem reshape_split (W : World X C K L) (key : K) (ks : Shape) :
    reshapeKeys (jrSplit W key (sprod ks)) (ks ++ [2]) = sampleKeys W.split key ks := by
  rw [sampleKeys_eq]
  unfold reshapeKeys jrSplit
  have h : sprod [sprod ks, 2] = sprod (ks ++ [2]) := by rw [sprod_pair, sprod_append]; simp [sprod]
  simp only [h, if_true, List.dropLast_concat, List.headD_cons]

/-- the generated `_get_sample_keys` is the hand model's `sampleKeys` on `keyShape`: conditional distribution with an array
condition, unconditional distribution with anything; for a conditional distribution and `condition=None` it raises -/
theorem sample_keys_eq (W : World X C K L) (d : DistObj X C K L) (key : K) (ss : Shape) :
    (∀ cs (c : Arr C), d.cond_shape = some cs →
        getSampleKeys W d key ss (some c) = sampleKeys W.split key (keyShape ss (some cs) (some c.shape))) ∧
    (∀ c : Option (Arr C), d.cond_shape = none → getSampleKeys W d key ss c = sampleKeys W.split key (keyShape ss none none)) ∧
    (∀ cs, d.cond_shape = some cs → getSampleKeys W d key ss (none : Option (Arr C)) = .error .typeError) := by
  refine ⟨fun cs c h => ?_, fun c h => ?_, fun cs h => ?_⟩
  · simp only [getSampleKeys, cond_ndim_eq, h, Option.map_some, shapeOfOpt, bind_ok', keyShape, reshape_split, sliceTo_eq]
  · simp only [getSampleKeys, cond_ndim_eq, h, Option.map_none, bind_ok', keyShape, reshape_split]
  · simp only [getSampleKeys, cond_ndim_eq, h, Option.map_some, shapeOfOpt, bind_error']

/-! ### the three public methods -/

/-- the NaN → −inf line on one element -/
def post (W : World X C K L) : L → L := fun l => if W.isnan l then W.neg W.inf else l

theorem bind_ok_map {ε α β : Type} (e : Except ε α) (f : α → β) :
    (Except.bind e fun a => Except.ok (f a)) = e.map f := by cases e <;> rfl

/-- generated `log_prob` = hand model, conditional distribution (every `x`, every condition incl. `None`) -/
theorem log_prob_cond_eq (W : World X C K L) (self : DistObj X C K L) (cs : Shape) (hcs : (W.unwrap self).cond_shape = some cs)
    (x : Arr X) (c : Option (Arr C)) :
    logProb W self x c
      = logProbCond (W.unwrap self).shape cs (fun x c => (W.unwrap self).logProb x (.elem c)) (post W) x c := by
  have hv := vectorize_cond_eq W (W.unwrap self) (mLogProb (W.unwrap self)) cs hcs (by rw [hcs]; rfl) x
  cases c with
  | none => simp only [logProb, toArray, hcs, toArrayOpt, bind_ok', bind_error', logProbCond]
  | some c =>
    simp only [logProb, toArray, hcs, toArrayOpt, bind_ok', logProbCond, hv.1 c, bind_ok_map]
    rfl

/-- generated `log_prob` = hand model, unconditional distribution (the condition, whatever it is, is passed through) -/
theorem log_prob_uncond_eq (W : World X C K L) (self : DistObj X C K L) (hcs : (W.unwrap self).cond_shape = none)
    (x : Arr X) (c : Option (Arr C)) :
    logProb W self x c
      = logProbUncond (W.unwrap self).shape (fun x c => (W.unwrap self).logProb x (.raw c)) (post W) x c := by
  have hv := vectorize_uncond_eq W (W.unwrap self) (mLogProb (W.unwrap self)) hcs (by rw [hcs]; rfl) x c
  simp only [logProb, toArray, hcs, bind_ok', logProbUncond, hv, bind_ok_map]
  rfl

/-- the generic sampler: the generated `sample` / `sample_and_log_prob` share their text up to the method -/
theorem sampler_cond_eq (W : World X C K L) (d : DistObj X C K L) (m : BoundMethod K C R) (cs : Shape)
    (hcs : d.cond_shape = some cs) (hn : m.name ≠ .logProb) (hout : m.outShapes = (methodShapes m.name d.shape d.cond_shape).2)
    (key : K) (ss : Shape) (c : Option (Arr C)) :
    (Except.bind (match d.cond_shape with
        | none => Except.ok c
        | some _ => Except.bind (toArrayOpt c) fun t => Except.ok t) fun c =>
      Except.bind (getSampleKeys W d key ss c) fun keys => vectorize W d m keys c)
      = sampleWithCond cs (fun k c => m.call k (.elem c)) W.split key ss c := by
  have hcore : coreOf m.name d.shape = [2] := by cases h : m.name <;> simp_all [coreOf]
  cases c with
  | none => simp only [hcs, toArrayOpt, bind_error', sampleWithCond]
  | some c =>
    simp only [hcs, toArrayOpt, bind_ok', sampleWithCond, (sample_keys_eq W d key ss).1 cs c hcs]
    cases sampleKeys W.split key (keyShape ss (some cs) (some c.shape)) with
    | error e => rfl
    | ok keys => simp only [bind_ok', (vectorize_cond_eq W d m cs hcs hout keys).1 c, hcore]

theorem sampler_uncond_eq (W : World X C K L) (d : DistObj X C K L) (m : BoundMethod K C R)
    (hcs : d.cond_shape = none) (hn : m.name ≠ .logProb) (hout : m.outShapes = (methodShapes m.name d.shape d.cond_shape).2)
    (key : K) (ss : Shape) (c : Option (Arr C)) :
    (Except.bind (match d.cond_shape with
        | none => Except.ok c
        | some _ => Except.bind (toArrayOpt c) fun t => Except.ok t) fun c =>
      Except.bind (getSampleKeys W d key ss c) fun keys => vectorize W d m keys c)
      = sampleWithoutCond (fun k c => m.call k (.raw c)) W.split key ss c := by
  have hcore : coreOf m.name d.shape = [2] := by cases h : m.name <;> simp_all [coreOf]
  simp only [hcs, bind_ok', sampleWithoutCond, (sample_keys_eq W d key ss).2.1 c hcs]
  cases sampleKeys W.split key (keyShape ss none none) with
  | error e => rfl
  | ok keys => simp only [bind_ok', vectorize_uncond_eq W d m hcs hout keys c, hcore]

/-- generated `sample` = hand model -/
theorem sample_eq (W : World X C K L) (self : DistObj X C K L) (key : K) (ss : Shape) (c : Option (Arr C)) :
    (∀ cs, (W.unwrap self).cond_shape = some cs →
      GenDist.sample W self key ss c = sampleCond cs (fun k c => (W.unwrap self).sample k (.elem c)) W.split key ss c) ∧
    ((W.unwrap self).cond_shape = none →
      GenDist.sample W self key ss c = sampleUncond (fun k c => (W.unwrap self).sample k (.raw c)) W.split key ss c) := by
  constructor
  · intro cs hcs
    exact sampler_cond_eq W (W.unwrap self) (mSample (W.unwrap self)) cs hcs (by simp [mSample]) (by rw [hcs]; rfl) key ss c
  · intro hcs
    exact sampler_uncond_eq W (W.unwrap self) (mSample (W.unwrap self)) hcs (by simp [mSample]) (by rw [hcs]; rfl) key ss c

/-- generated `sample_and_log_prob` = hand model -/
theorem sample_lp_eq (W : World X C K L) (self : DistObj X C K L) (key : K) (ss : Shape) (c : Option (Arr C)) :
    (∀ cs, (W.unwrap self).cond_shape = some cs →
      sampleAndLogProb W self key ss c
        = sampleLpCond cs (fun k c => (W.unwrap self).sampleLp k (.elem c)) W.split key ss c) ∧
    ((W.unwrap self).cond_shape = none →
      sampleAndLogProb W self key ss c
        = sampleLpUncond (fun k c => (W.unwrap self).sampleLp k (.raw c)) W.split key ss c) := by
  constructor
  · intro cs hcs
    exact sampler_cond_eq W (W.unwrap self) (mSampleLp (W.unwrap self)) cs hcs (by simp [mSampleLp]) (by rw [hcs]; rfl) key ss c
  · intro hcs
    exact sampler_uncond_eq W (W.unwrap self) (mSampleLp (W.unwrap self)) hcs (by simp [mSampleLp]) (by rw [hcs]; rfl) key ss c

end VectorizeGen
