import Flowjaxv.Proofs.Leaves
import Flowjaxv.Model.Params
/-!
# Helper lemmas for C11 (constrained parameterisations) over ℝ

About the definitions generated into `Gen/Params.lean` and the hand-written glue `Model/Params.lean`.
-/
open Gen RealInst Params

namespace ParamsPf

/-! ### list primitives over ℝ -/
theorem foldl_add (a : ℝ) (xs : List ℝ) : xs.foldl (· + ·) a = a + xs.sum := by
  induction xs generalizing a with
  | nil => simp
  | cons x xs ih => simp [List.foldl_cons, ih, add_assoc]

theorem jsum_eq (xs : List ℝ) : Jnp.sum xs = xs.sum := by
  unfold Jnp.sum; rw [foldl_add]; simp

/-- sequential partial sums starting from `a` -/
def cumsumFrom (a : ℝ) : List ℝ → List ℝ
  | [] => []
  | x :: xs => (a + x) :: cumsumFrom (a + x) xs

theorem cumsum_fold (xs : List ℝ) (l : List ℝ) (a : ℝ) :
    (xs.foldl (fun (acc : List ℝ × ℝ) x => (acc.1 ++ [acc.2 + x], acc.2 + x)) (l, a)).1
      = l ++ cumsumFrom a xs := by
  induction xs generalizing l a with
  | nil => simp [cumsumFrom]
  | cons x xs ih => simp [List.foldl_cons, ih, cumsumFrom]

theorem jcumsum_eq (xs : List ℝ) : Jnp.cumsum xs = cumsumFrom 0 xs := by
  unfold Jnp.cumsum; rw [cumsum_fold]; simp

theorem cumsumFrom_length (a : ℝ) (xs : List ℝ) : (cumsumFrom a xs).length = xs.length := by
  induction xs generalizing a with
  | nil => rfl
  | cons x xs ih => simp [cumsumFrom, ih]

/-- with positive increments the partial sums are strictly increasing, all above the start
and at most `start + total` -/
theorem cumsumFrom_pos (a : ℝ) (xs : List ℝ) (h : ∀ x ∈ xs, 0 < x) :
    (cumsumFrom a xs).Pairwise (· < ·) ∧ (∀ c ∈ cumsumFrom a xs, a < c ∧ c ≤ a + xs.sum) := by
  induction xs generalizing a with
  | nil => simp [cumsumFrom]
  | cons x xs ih =>
    have hx : 0 < x := h x (by simp)
    have hxs : ∀ y ∈ xs, 0 < y := fun y hy => h y (by simp [hy])
    obtain ⟨ih1, ih2⟩ := ih (a + x) hxs
    have hs : 0 ≤ xs.sum := List.sum_nonneg (fun y hy => (hxs y hy).le)
    refine ⟨?_, ?_⟩
    · simp only [cumsumFrom, List.pairwise_cons]
      exact ⟨fun c hc => (ih2 c hc).1, ih1⟩
    · intro c hc
      simp only [cumsumFrom, List.mem_cons] at hc
      rcases hc with rfl | hc
      · simp only [List.sum_cons]; constructor <;> linarith
      · have := ih2 c hc; simp only [List.sum_cons]; constructor <;> linarith

theorem sum_map_div (l : List ℝ) (c : ℝ) : (l.map (fun e => e / c)).sum = l.sum / c := by
  induction l with
  | nil => simp
  | cons x xs ih => simp [ih, add_div]

theorem sum_map_add (l : List ℝ) (c : ℝ) : (l.map (fun e => e + c)).sum = l.sum + l.length * c := by
  induction l with
  | nil => simp
  | cons x xs ih => simp [ih]; ring

theorem sum_exp_pos {xs : List ℝ} (h : xs ≠ []) : 0 < (xs.map Real.exp).sum := by
  cases xs with
  | nil => exact absurd rfl h
  | cons x t =>
    simp only [List.map_cons, List.sum_cons]
    have : 0 ≤ (t.map Real.exp).sum := List.sum_nonneg (by intro y hy; simp at hy; obtain ⟨a, _, rfl⟩ := hy; exact (Real.exp_pos a).le)
    linarith [Real.exp_pos x]

theorem softmax_eq (xs : List ℝ) :
    Jnp.softmax xs = xs.map (fun x => Real.exp x / (xs.map Real.exp).sum) := by
  simp [Jnp.softmax, jsum_eq, List.map_map, Function.comp_def]

theorem softmax_length (xs : List ℝ) : (Jnp.softmax xs).length = xs.length := by
  simp [softmax_eq]

theorem softmax_pos {xs : List ℝ} : ∀ s ∈ Jnp.softmax xs, 0 < s := by
  intro s hs
  rw [softmax_eq] at hs
  simp only [List.mem_map] at hs
  obtain ⟨x, hx, rfl⟩ := hs
  have : xs ≠ [] := List.ne_nil_of_mem hx
  exact div_pos (Real.exp_pos x) (sum_exp_pos this)

theorem softmax_sum {xs : List ℝ} (h : xs ≠ []) : (Jnp.softmax xs).sum = 1 := by
  have := sum_exp_pos h
  have e : Jnp.softmax xs = (xs.map Real.exp).map (fun e => e / (xs.map Real.exp).sum) := by
    simp [softmax_eq, List.map_map, Function.comp_def]
  rw [e, sum_map_div]; exact div_self this.ne'

/-- the width vector after the `softmax_adjust` floor: positive entries summing to one -/
noncomputable def adjWidths (arr : List ℝ) (adj : ℝ) : List ℝ :=
  List.map (fun a => a / (1 + adj)) (List.map (fun a => a + (adj / ((List.length (Jnp.softmax arr) : ℕ) : ℝ))) (Jnp.softmax arr))

theorem adjWidths_length (arr : List ℝ) (adj : ℝ) : (adjWidths arr adj).length = arr.length := by
  simp [adjWidths, softmax_length]

theorem adjWidths_pos {arr : List ℝ} {adj : ℝ} (ha : 0 ≤ adj) : ∀ w ∈ adjWidths arr adj, 0 < w := by
  intro w hw
  simp only [adjWidths, List.mem_map] at hw
  obtain ⟨a, ⟨s, hs, rfl⟩, rfl⟩ := hw
  have := softmax_pos s hs
  have h2 : 0 ≤ adj / ((List.length (Jnp.softmax arr) : ℕ) : ℝ) := div_nonneg ha (Nat.cast_nonneg _)
  exact div_pos (by linarith) (by linarith)

theorem adjWidths_sum {arr : List ℝ} {adj : ℝ} (ha : 0 ≤ adj) (hne : arr ≠ []) : (adjWidths arr adj).sum = 1 := by
  have hl : (arr.length : ℝ) ≠ 0 := by
    have : arr.length ≠ 0 := by simpa using hne
    exact_mod_cast this
  simp only [adjWidths, sum_map_div, sum_map_add, softmax_sum hne, softmax_length]
  have h1 : (1 : ℝ) + adj ≠ 0 := by linarith
  field_simp

theorem getItem_zero_cons (w : ℝ) (t : List ℝ) : Jnp.getItem (w :: t) 0 = w := by
  unfold Jnp.getItem
  have h1 : ¬ ((t.length : Int) < 0) := by omega
  simp [h1]

/-- core of the knot construction: positive widths summing to one, first width halved,
cumulative sum, affine map onto `[lo, hi]`, padding with the ends -/
theorem knots_of_widths {ws : List ℝ} (hpos : ∀ w ∈ ws, 0 < w) (hsum : ws.sum = 1) (hne : ws ≠ [])
    {lo hi : ℝ} (hlt : lo < hi) :
    let ws' := Jnp.setItem ws 0 ((Jnp.getItem ws 0) / 2)
    let pos := List.map (fun b => lo + b) (List.map (fun b => (hi - lo) * b) (Jnp.cumsum ws'))
    (Jnp.pad1 pos (lo, hi)).Pairwise (· < ·) ∧ (Jnp.pad1 pos (lo, hi)).length = ws.length + 2 ∧
      (Jnp.pad1 pos (lo, hi)).head? = some lo ∧ (Jnp.pad1 pos (lo, hi)).getLast? = some hi := by
  intro ws' pos
  obtain ⟨w, t, rfl⟩ := List.exists_cons_of_ne_nil hne
  have hw : 0 < w := hpos w (by simp)
  have hws' : ws' = (w / 2) :: t := by
    simp [ws', Jnp.setItem, getItem_zero_cons]
  have hpos' : ∀ x ∈ ws', 0 < x := by
    intro x hx; rw [hws'] at hx
    rcases List.mem_cons.mp hx with rfl | hx
    · linarith
    · exact hpos x (by simp [hx])
  have hsum' : ws'.sum = 1 - w / 2 := by
    rw [hws']; simp only [List.sum_cons] at hsum ⊢; linarith
  obtain ⟨hp, hb⟩ := cumsumFrom_pos 0 ws' hpos'
  have hsc : 0 < hi - lo := by linarith
  have hmem : ∀ p ∈ pos, lo < p ∧ p < hi := by
    intro p hp'
    simp only [pos, List.mem_map, jcumsum_eq] at hp'
    obtain ⟨b, ⟨c, hc, rfl⟩, rfl⟩ := hp'
    obtain ⟨h1, h2⟩ := hb c hc
    rw [hsum'] at h2
    constructor
    · nlinarith
    · have : c < 1 := by linarith
      nlinarith
  have hpp : pos.Pairwise (· < ·) := by
    simp only [pos, jcumsum_eq, List.pairwise_map]
    refine hp.imp ?_
    intro a b hab; nlinarith
  refine ⟨?_, ?_, ?_, ?_⟩
  · simp only [Jnp.pad1, List.pairwise_cons, List.pairwise_append, List.mem_append, List.mem_singleton]
    refine ⟨?_, hpp, by simp, ?_⟩
    · rintro a (ha | rfl)
      · exact (hmem a ha).1
      · exact hlt
    · intro a ha b hb; rw [hb]; exact (hmem a ha).2
  · simp [Jnp.pad1, pos, jcumsum_eq, cumsumFrom_length, hws']
  · simp [Jnp.pad1]
  · simp [Jnp.pad1, List.getLast?_cons, List.getLast?_append]

/-- the generated knot parameterisation is `knots_of_widths` applied to the adjusted softmax widths -/
theorem knots_generated {arr : List ℝ} (hne : arr ≠ []) {lo hi adj : ℝ} (hlt : lo < hi) (ha : 0 ≤ adj) :
    (realToIncreasingOnInterval arr (lo, hi) adj).Pairwise (· < ·) ∧
    (realToIncreasingOnInterval arr (lo, hi) adj).length = arr.length + 2 ∧
    (realToIncreasingOnInterval arr (lo, hi) adj).head? = some lo ∧
    (realToIncreasingOnInterval arr (lo, hi) adj).getLast? = some hi := by
  have hne' : adjWidths arr adj ≠ [] := by
    intro h; have := adjWidths_length arr adj; rw [h] at this; simp at this; exact hne (List.length_eq_zero_iff.mp this.symm)
  have := knots_of_widths (adjWidths_pos ha) (adjWidths_sum ha hne) hne' hlt
  simp only [adjWidths_length] at this
  exact this

/-! ### spline derivatives -/
theorem softplus_pos' (x : ℝ) : 0 < (Transc.softplus x : ℝ) := Leaves.softplus_pos x

theorem rqsDerivatives_mem {δ : ℝ} {raw : List ℝ} : ∀ d ∈ rqsDerivatives δ raw, δ < d := by
  intro d hd
  simp only [rqsDerivatives, List.mem_map] at hd
  obtain ⟨a, ⟨r, _, rfl⟩, rfl⟩ := hd
  have := softplus_pos' r; linarith

theorem rqsDerivatives_length (δ : ℝ) (raw : List ℝ) : (rqsDerivatives δ raw).length = raw.length := by
  simp [rqsDerivatives]

theorem rqs_init_deriv {δ : ℝ} (h : δ < 1) :
    (Transc.softplus (rqsDerivativeInit δ) : ℝ) + δ = 1 := by
  simp only [rqsDerivativeInit, softplus_eq, log_eq, exp_eq]
  have h1 : 1 < Real.exp (1 - δ) := by rw [Real.one_lt_exp_iff]; linarith
  rw [Real.exp_log (by linarith)]
  have : (1 : ℝ) + (Real.exp (1 - δ) - 1) = Real.exp (1 - δ) := by ring
  rw [this, Real.log_exp]; ring

/-! ### dot products -/
theorem jdot_eq (u w : List ℝ) : Jnp.dot u w = (List.zipWith (· * ·) u w).sum := by
  unfold Jnp.dot; rw [jsum_eq]

theorem jdot_comm (u w : List ℝ) : Jnp.dot u w = Jnp.dot w u := by
  rw [jdot_eq, jdot_eq]
  induction u generalizing w with
  | nil => simp
  | cons a u ih => cases w with
    | nil => simp
    | cons b w => simp [ih, mul_comm]

theorem jdot_add {u v : List ℝ} (h : u.length = v.length) (w : List ℝ) :
    Jnp.dot (List.zipWith (fun a b => a + b) u v) w = Jnp.dot u w + Jnp.dot v w := by
  simp only [jdot_eq]
  induction u generalizing v w with
  | nil => cases v <;> simp at h ⊢
  | cons a u ih => cases v with
    | nil => simp at h
    | cons b v => cases w with
      | nil => simp
      | cons c w =>
        simp only [List.length_cons, Nat.add_right_cancel_iff] at h
        simp [ih h]; ring

theorem jdot_map_left (f : ℝ) (u w : List ℝ) :
    Jnp.dot (List.map (fun b => f * b) u) w = f * Jnp.dot u w := by
  simp only [jdot_eq]
  induction u generalizing w with
  | nil => simp
  | cons a u ih => cases w with
    | nil => simp
    | cons c w => simp [ih]; ring

theorem jdot_self_nonneg (w : List ℝ) : 0 ≤ Jnp.dot w w := by
  rw [jdot_eq]
  induction w with
  | nil => simp
  | cons a w ih => simp only [List.zipWith_cons_cons, List.sum_cons]; nlinarith [mul_self_nonneg a]

/-- `w·w = 0` exactly for the zero vector -/
theorem jdot_self_eq_zero {w : List ℝ} : Jnp.dot w w = 0 ↔ ∀ a ∈ w, a = 0 := by
  induction w with
  | nil => simp [jdot_eq]
  | cons a w ih =>
    have h0 := jdot_self_nonneg w
    have e : Jnp.dot (a :: w) (a :: w) = a * a + Jnp.dot w w := by simp [jdot_eq]
    rw [e]
    constructor
    · intro h
      have ha : a * a = 0 := by nlinarith [mul_self_nonneg a]
      have hw : Jnp.dot w w = 0 := by nlinarith [mul_self_nonneg a]
      intro b hb
      rcases List.mem_cons.mp hb with rfl | hb
      · exact mul_self_eq_zero.mp ha
      · exact ih.mp hw b hb
    · intro h
      have ha : a = 0 := h a (by simp)
      have hw : Jnp.dot w w = 0 := ih.mpr (fun b hb => h b (by simp [hb]))
      rw [ha, hw]; ring

/-! ### planar -/
/-- the scalar the constraint is about: `m(wᵀu) = −1 + log(1 + softplus(wᵀu))` -/
noncomputable def planarM (wtu : ℝ) : ℝ := -1 + Real.log (1 + Real.log (1 + Real.exp wtu))

theorem planarM_gt (x : ℝ) : -1 < planarM x := by
  unfold planarM
  have := Leaves.softplus_pos x
  have : 0 < Real.log (1 + Real.log (1 + Real.exp x)) := Real.log_pos (by linarith)
  linarith

theorem planar_dot (p : UnconditionalPlanar ℝ) (hl : p._act_scale.length = p.weight.length)
    (hw : Jnp.dot p.weight p.weight ≠ 0) :
    Jnp.dot p.get_act_scale p.weight = planarM (Jnp.dot p._act_scale p.weight) := by
  have hd := jdot_self_nonneg p.weight
  unfold UnconditionalPlanar.get_act_scale
  simp only [sqrt_eq, log_eq, softplus_eq]
  rw [jdot_add (by simp [hl]), Real.mul_self_sqrt hd]
  have : (List.map (fun a => a / Jnp.dot p.weight p.weight)
        (List.map (fun b => (-1 + Real.log (1 + Real.log (1 + Real.exp (Jnp.dot p._act_scale p.weight))) - Jnp.dot p._act_scale p.weight) * b) p.weight))
      = List.map (fun b => ((-1 + Real.log (1 + Real.log (1 + Real.exp (Jnp.dot p._act_scale p.weight))) - Jnp.dot p._act_scale p.weight) / Jnp.dot p.weight p.weight) * b) p.weight := by
    simp only [List.map_map]; congr 1; funext b; simp only [Function.comp]; ring
  rw [this, jdot_map_left]
  unfold planarM
  field_simp; ring

theorem one_add_mul_pos {c s : ℝ} (hc : -1 < c) (hs0 : 0 < s) (hs1 : s ≤ 1) : 0 < 1 + s * c := by
  rcases le_or_gt 0 c with h | h
  · have := mul_nonneg hs0.le h; linarith
  · nlinarith

/-! ### mixture weights -/
theorem logSoftmax_eq (v : List ℝ) :
    Jnp.logSoftmax v = v.map (fun x => x - Real.log ((v.map Real.exp).sum)) := by
  simp [Jnp.logSoftmax, jsum_eq]

theorem exp_logSoftmax {v : List ℝ} (h : v ≠ []) :
    (Jnp.logSoftmax v).map Real.exp = Jnp.softmax v := by
  have hp := sum_exp_pos h
  rw [logSoftmax_eq, softmax_eq, List.map_map]
  congr 1; funext x
  simp only [Function.comp, Real.exp_sub, Real.exp_log hp]

theorem sum_map_log_exp {w : List ℝ} (hw : ∀ x ∈ w, 0 < x) : ((w.map Real.log).map Real.exp) = w := by
  rw [List.map_map]
  conv_rhs => rw [← List.map_id w]
  apply List.map_congr_left
  intro x hx; simp [Real.exp_log (hw x hx)]

theorem mixture_roundtrip {w : List ℝ} (hw : ∀ x ∈ w, 0 < x) :
    (mixtureLogNormalizedWeights (mixtureRawInit w)).map Real.exp = w.map (fun x => x / w.sum) := by
  simp only [mixtureLogNormalizedWeights, mixtureRawInit, log_eq]
  by_cases h : w = []
  · subst h; simp [Jnp.logSoftmax]
  · have h' : w.map Real.log ≠ [] := by simpa using h
    rw [exp_logSoftmax h', softmax_eq, sum_map_log_exp hw, List.map_map]
    apply List.map_congr_left
    intro x hx; simp [Real.exp_log (hw x hx)]

/-! ### weight normalisation -/
theorem jdot_self_map (f : ℝ) (w : List ℝ) :
    Jnp.dot (List.map (fun b => f * b) w) (List.map (fun b => f * b) w) = f * f * Jnp.dot w w := by
  rw [jdot_map_left, jdot_comm, jdot_map_left]; ring

theorem weightnorm_norm (p : WeightNormRow ℝ) (hw : Jnp.dot p.weight p.weight ≠ 0) (hs : 0 < p.scale) :
    Real.sqrt (Jnp.dot p.unwrap p.unwrap) = p.scale := by
  have hd := jdot_self_nonneg p.weight
  have hdp : 0 < Jnp.dot p.weight p.weight := lt_of_le_of_ne hd (Ne.symm hw)
  have hn : 0 < Real.sqrt (Jnp.dot p.weight p.weight) := Real.sqrt_pos.mpr hdp
  have e : p.unwrap = List.map (fun b => (p.scale / Real.sqrt (Jnp.dot p.weight p.weight)) * b) p.weight := by
    unfold WeightNormRow.unwrap
    simp only [sqrt_eq, List.map_map]; congr 1; funext b; simp only [Function.comp]; ring
  rw [e, jdot_self_map]
  have : p.scale / Real.sqrt (Jnp.dot p.weight p.weight) * (p.scale / Real.sqrt (Jnp.dot p.weight p.weight)) * Jnp.dot p.weight p.weight
      = p.scale * p.scale := by
    have h2 := Real.mul_self_sqrt hd
    field_simp
    nlinarith [h2]
  rw [this, Real.sqrt_mul_self hs.le]

/-! ### SoftPlus reparameterisation -/
theorem softplusRaw_unwrap (raw : ℝ) : (softplusRaw raw).unwrap = Real.log (1 + Real.exp raw) := rfl

theorem softplusRaw_pos (raw : ℝ) : 0 < (softplusRaw raw).unwrap := Leaves.softplus_pos raw

theorem softplusInit_unwrap {s : ℝ} (hs : 0 < s) : (softplusInit s).unwrap = s :=
  Leaves.softplus_softplus_inv hs

theorem softplusRejects_iff (v : ℝ) : softplusRejects v = true ↔ v ≤ 0 := by
  simp only [softplusRejects, expm1_eq, decide_eq_true_eq]
  constructor
  · intro h
    by_contra hv; have hv := not_le.mp hv
    have : Real.exp (-v) < 1 := by rw [Real.exp_lt_one_iff]; linarith
    linarith
  · intro h
    have : 1 ≤ Real.exp (-v) := by rw [Real.one_le_exp_iff]; linarith
    linarith

theorem anyNonPositive_iff (xs : List ℝ) : anyNonPositive xs = true ↔ ∃ x ∈ xs, x ≤ 0 := by
  simp [anyNonPositive]

theorem softplusRejectsAny_iff (xs : List ℝ) : softplusRejectsAny xs = true ↔ ∃ x ∈ xs, x ≤ 0 := by
  simp [softplusRejectsAny, softplusRejects_iff]

/-! ### `_affine_with_min_scale` -/
theorem minScaleOfRaw_eq (m raw : ℝ) : minScaleOfRaw m raw = Real.log (1 + Real.exp raw) + m := by
  simp [minScaleOfRaw, BijectionReparam.unwrap, minScaleBij, Chain.toBij, Chain.transform, SoftPlus.toBij, Loc.toBij,
    SoftPlus.transform, Loc.transform]

theorem minScaleInit_eq {m : ℝ} (hm : m < 1) : minScaleInit m = 1 := by
  have h := Leaves.softplus_softplus_inv (y := 1 - m) (by linarith)
  simp only [SoftPlus.transform, SoftPlus.inverse] at h
  simp only [minScaleInit, BijectionReparam.init, BijectionReparam.unwrap, minScaleBij, Chain.toBij, Chain.transform, Chain.inverse,
    SoftPlus.toBij, Loc.toBij, SoftPlus.transform, SoftPlus.inverse, Loc.transform, Loc.inverse, List.foldl_cons, List.foldl_nil,
    List.reverse_cons, List.reverse_nil, List.nil_append, List.cons_append]
  linarith

/-! ### Permute's check -/
theorem target_sorted (n : Nat) :
    ((List.range n).map Int.ofNat).Pairwise (fun a b => decide (a ≤ b) = true) := by
  rw [List.pairwise_map]
  refine (List.pairwise_lt_range (n := n)).imp ?_
  intro a b h; simp; omega

theorem permuteRejects_iff (p : List Int) :
    permuteRejects p = false ↔ p.Perm ((List.range p.length).map Int.ofNat) := by
  have hs : (p.mergeSort (fun a b => decide (a ≤ b))).Pairwise (fun a b => decide (a ≤ b) = true) :=
    List.pairwise_mergeSort (by intro a b c; simp; omega) (by intro a b; simp; omega) p
  have hp := List.mergeSort_perm p (fun a b => decide (a ≤ b))
  unfold permuteRejects
  constructor
  · intro h
    have e : p.mergeSort (fun a b => decide (a ≤ b)) = (List.range p.length).map Int.ofNat := by
      simpa using h
    rw [← e]; exact hp.symm
  · intro h
    have e : p.mergeSort (fun a b => decide (a ≤ b)) = (List.range p.length).map Int.ofNat :=
      List.Perm.eq_of_pairwise (le := fun a b => decide (a ≤ b) = true)
        (by intro a b _ _ h1 h2; simp at h1 h2; omega) hs (target_sorted _) (hp.trans h)
    simp [e]

/-! ### `_to_triangular` -/
theorem toTriangular_getElem? (lower : Bool) (diag : List ℝ) (arr : List (List ℝ)) (i : Nat) :
    (toTriangular lower diag arr)[i]? =
      match diag[i]?, arr[i]? with
      | some d, some row => some (row.mapIdx (fun j a =>
          (if j = i then d else 0) + (if (if lower then j < i else i < j) then a else 0)))
      | _, _ => none := by
  simp only [toTriangular, List.getElem?_zipWith, List.getElem?_zipIdx]
  cases diag[i]? <;> cases arr[i]? <;> simp

theorem toTriangular_length (lower : Bool) (diag : List ℝ) (arr : List (List ℝ)) (h : diag.length = arr.length) :
    (toTriangular lower diag arr).length = arr.length := by
  simp [toTriangular, h]

/-- the diagonal of the assembled matrix is exactly `diag` (square `arr`, matching length) -/
theorem diag_toTriangular (lower : Bool) (diag : List ℝ) (arr : List (List ℝ))
    (hsq : ∀ r ∈ arr, r.length = arr.length) (hl : diag.length = arr.length) :
    diagEntries (toTriangular lower diag arr) = diag.map some := by
  apply List.ext_getElem?
  intro i
  simp only [diagEntries, List.getElem?_mapIdx, List.getElem?_map, toTriangular_getElem?]
  by_cases hi : i < arr.length
  · have hd : diag[i]? = some diag[i] := List.getElem?_eq_getElem (by omega)
    have ha : arr[i]? = some arr[i] := List.getElem?_eq_getElem hi
    have hr : arr[i].length = arr.length := hsq _ (List.getElem_mem hi)
    rw [hd, ha]
    simp only [Option.map_some, List.getElem?_mapIdx]
    have hri : (arr[i])[i]? = some (arr[i])[i] := List.getElem?_eq_getElem (by omega)
    rw [hri]; simp
  · have hd : diag[i]? = none := List.getElem?_eq_none (by omega)
    rw [hd]; simp

/-- every entry of the assembled matrix -/
theorem toTriangular_entry (lower : Bool) (diag : List ℝ) (arr : List (List ℝ)) (i j : Nat) (d a : ℝ) (row : List ℝ)
    (hd : diag[i]? = some d) (hr : arr[i]? = some row) (ha : row[j]? = some a) :
    ((toTriangular lower diag arr)[i]?.bind (·[j]?)) =
      some ((if j = i then d else 0) + (if (if lower then j < i else i < j) then a else 0)) := by
  rw [toTriangular_getElem?, hd, hr]
  simp [List.getElem?_mapIdx, ha]

theorem mapM_id_map_some (l : List ℝ) : (l.map some).mapM id = some l := by
  induction l with
  | nil => rfl
  | cons x xs ih => simp [List.mapM_cons, ih]

/-- for a square matrix the diagonal read-out has no holes -/
theorem diagEntries_square (m : List (List ℝ)) (hsq : ∀ r ∈ m, r.length = m.length) :
    ∃ d : List ℝ, diagEntries m = d.map some ∧ d.length = m.length ∧
      ∀ (i : Nat) (x : ℝ), d[i]? = some x → ∃ row, m[i]? = some row ∧ row[i]? = some x := by
  refine ⟨m.mapIdx (fun i row => row[i]?.getD 0), ?_, by simp, ?_⟩
  · apply List.ext_getElem?
    intro i
    simp only [diagEntries, List.getElem?_mapIdx, List.getElem?_map]
    cases h : m[i]? with
    | none => simp
    | some row =>
      have hi : i < m.length := (List.getElem?_eq_some_iff.mp h).1
      have hr : row.length = m.length := hsq row (List.mem_of_getElem? h)
      have : row[i]? = some row[i] := List.getElem?_eq_getElem (by omega)
      simp [this]
  · intro i x hx
    simp only [List.getElem?_mapIdx] at hx
    cases h : m[i]? with
    | none => simp [h] at hx
    | some row =>
      have hi : i < m.length := (List.getElem?_eq_some_iff.mp h).1
      have hr : row.length = m.length := hsq row (List.mem_of_getElem? h)
      have h2 : row[i]? = some row[i] := List.getElem?_eq_getElem (by omega)
      simp [h, h2] at hx
      exact ⟨row, rfl, by rw [h2, hx]⟩

/-- `TriangularAffine(loc, L)` for a square lower-triangular `L` with positive diagonal stores and
unwraps to exactly `L` (what `MultivariateNormal` relies on with `L = cholesky(covariance)`). -/
theorem triangularInit_lower (L : List (List ℝ)) (hsq : ∀ r ∈ L, r.length = L.length)
    (hlow : ∀ (i j : Nat) (row : List ℝ) (a : ℝ), L[i]? = some row → row[j]? = some a → i < j → a = 0)
    (hpos : ∀ (i : Nat) (row : List ℝ) (d : ℝ), L[i]? = some row → row[i]? = some d → 0 < d) :
    triangularInit true L = some L := by
  obtain ⟨d, hd, hdl, hdm⟩ := diagEntries_square L hsq
  have hdpos : ∀ x ∈ d, 0 < x := by
    intro x hx
    obtain ⟨i, hi, rfl⟩ := List.getElem_of_mem hx
    obtain ⟨row, h1, h2⟩ := hdm i d[i] (List.getElem?_eq_getElem hi)
    exact hpos i row _ h1 h2
  have hsq' : isSquare L = true := by
    simp only [isSquare, List.all_eq_true, beq_iff_eq]; exact hsq
  have hrej : softplusRejectsAny d = false := by
    rw [Bool.eq_false_iff, Ne, softplusRejectsAny_iff]
    rintro ⟨x, hx, hle⟩; exact absurd (hdpos x hx) (not_lt.mpr hle)
  have hmap : d.map (fun v => (softplusInit v).unwrap) = d := by
    conv_rhs => rw [← List.map_id d]
    apply List.map_congr_left
    intro x hx; exact softplusInit_unwrap (hdpos x hx)
  unfold triangularInit
  simp only [hsq', Bool.not_true, Bool.false_eq_true, if_false, hd, mapM_id_map_some, hrej, hmap]
  congr 1
  apply List.ext_getElem?
  intro i
  rw [toTriangular_getElem?]
  cases hr : L[i]? with
  | none =>
    have : d[i]? = none := by
      rw [List.getElem?_eq_none_iff] at hr ⊢; omega
    simp [this]
  | some row =>
    have hi : i < L.length := (List.getElem?_eq_some_iff.mp hr).1
    have hdi : d[i]? = some d[i] := List.getElem?_eq_getElem (by omega)
    obtain ⟨row', h1, h2⟩ := hdm i d[i] hdi
    rw [hr] at h1; cases h1
    rw [hdi]
    simp only [Option.some.injEq]
    apply List.ext_getElem?
    intro j
    simp only [List.getElem?_mapIdx]
    cases ha : row[j]? with
    | none => simp
    | some a =>
      simp only [Option.map_some, Option.some.injEq, if_true]
      rcases Nat.lt_trichotomy j i with h | h | h
      · have : j ≠ i := by omega
        simp [this, h]
      · subst h
        rw [h2] at ha; cases ha; simp
      · have : j ≠ i := by omega
        have hz := hlow i j row a hr ha h
        have : ¬ j < i := by omega
        simp [*]

end ParamsPf
