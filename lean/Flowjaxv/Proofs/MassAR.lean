import Flowjaxv.Proofs.MassShear
import Flowjaxv.Proofs.MassFlow
import Mathlib.MeasureTheory.Integral.Bochner.ContinuousLinearMap
/-!
# From the measure-level identity `WPres` to the layer facts `MassOK` / `LawOK`, and the autoregressive layer theorem

* `massOK_of_wpres`, `lawOK_of_wpres` — a lawful bijection whose inverse pushes the measure with density
  `exp (inverse log-det)` forward to `μ` supplies both layer facts, for EVERY integrand / base density (no
  measurability or integrability hypothesis on it);
* `fibre_of_lawOK` — the one-dimensional layer fact `LawOK volume τ ()` (proved for affine, spline, … in
  `Proofs/MassLeaves.lean`) is the fibre hypothesis of `MassShear.ar_wpres`;
* `ar_layer` — **every autoregressive layer is mass preserving**: a lawful bijection `b` of `ℝⁿ` whose forward map is
  `x ↦ (g i x (x i))_i` with `g i x` a function of the coordinates of `x` below `i` only, fibrewise inverse `h i x`,
  inverse log-det `Σ_i l i x (y i)`, fibres satisfying the one-dimensional identity and everything jointly
  MEASURABLE — no differentiability in the conditioning coordinates.  Coupling layers and masked autoregressive
  layers with `relu` conditioners and with spline transformers are instances.
-/
open Gen Set MeasureTheory MassShear

namespace Mass

section bridge
variable {X C : Type} [MeasurableSpace X]

/-- the measurable equivalence `inverse` of a lawful bijection with measurable directions -/
noncomputable def invEquiv (b : Bij X C ℝ) (c : C) (hL : b.Lawful univ univ)
    (hfm : Measurable fun x => b.fwd x c) (him : Measurable fun y => b.inv y c) : X ≃ᵐ X where
  toFun y := b.inv y c
  invFun x := b.fwd x c
  left_inv y := hL.right y trivial c
  right_inv x := hL.left x trivial c
  measurable_toFun := him
  measurable_invFun := hfm

theorem massOK_of_wpres (μ : Measure X) (b : Bij X C ℝ) (c : C) (hL : b.Lawful univ univ)
    (hfm : Measurable fun x => b.fwd x c)
    (hw : WPres μ (fun y => b.inv y c) (fun y => ENNReal.ofReal (Real.exp (b.invLd y c).2))) :
    MassOK μ b c := by
  refine ⟨fun y => hL.invLd_fst y c, fun p => ?_⟩
  set φ := invEquiv b c hL hfm hw.meas
  have hmap : Measure.map φ (μ.withDensity fun y => ENNReal.ofReal (Real.exp (b.invLd y c).2)) = μ := hw.map_eq
  conv_rhs => rw [← hmap]
  rw [integral_map_equiv φ p,
    integral_withDensity_eq_integral_toReal_smul hw.measE (Filter.Eventually.of_forall fun _ => ENNReal.ofReal_lt_top)]
  congr 1; funext y
  rw [ENNReal.toReal_ofReal (Real.exp_pos _).le, smul_eq_mul, mul_comm]
  rfl

theorem lawOK_of_wpres (μ : Measure X) (b : Bij X C ℝ) (c : C) (hL : b.Lawful univ univ)
    (hfm : Measurable fun x => b.fwd x c)
    (hw : WPres μ (fun y => b.inv y c) (fun y => ENNReal.ofReal (Real.exp (b.invLd y c).2))) :
    LawOK μ b c := by
  refine ⟨fun y => hL.invLd_fst y c, hfm, fun p => ?_⟩
  set φ := invEquiv b c hL hfm hw.meas
  set E : X → ENNReal := fun y => ENNReal.ofReal (Real.exp (b.invLd y c).2) with hE
  have hmap : Measure.map φ (μ.withDensity E) = μ := hw.map_eq
  ext S hS
  rw [Measure.map_apply hfm hS, withDensity_apply _ (hfm hS), withDensity_apply _ hS]
  -- rewrite the measure on the left as the push-forward
  have h1 : ∫⁻ z in (fun x => b.fwd x c) ⁻¹' S, ENNReal.ofReal (p z) ∂μ
      = ∫⁻ y in S, ENNReal.ofReal (p (b.inv y c)) ∂(μ.withDensity E) := by
    conv_lhs => rw [← hmap]
    rw [φ.restrict_map, lintegral_map_equiv]
    have : φ ⁻¹' ((fun x => b.fwd x c) ⁻¹' S) = S := by
      ext y; simp only [mem_preimage]
      show b.fwd (b.inv y c) c ∈ S ↔ y ∈ S
      rw [hL.right y trivial c]
    rw [this]; rfl
  rw [h1, setLIntegral_withDensity_eq_setLIntegral_mul_non_measurable μ hw.measE _ hS
    (Filter.Eventually.of_forall fun _ => ENNReal.ofReal_lt_top)]
  refine setLIntegral_congr_fun hS fun y _ => ?_
  simp only [Pi.mul_apply, hE]
  rw [mul_comm, ← ENNReal.ofReal_mul' (Real.exp_pos _).le]

end bridge



section invert
variable {X C : Type} [MeasurableSpace X]

/-- the other orientation: if `φ` pushes the measure with density `E` to `μ`, then `φ⁻¹` pushes the measure with
density `1 / E ∘ φ⁻¹` to `μ` -/
theorem map_symm_withDensity_inv {μ : Measure X} (φ : X ≃ᵐ X) {E : X → ENNReal} (hE : Measurable E)
    (h0 : ∀ x, E x ≠ 0) (htop : ∀ x, E x ≠ ⊤) (H : Measure.map φ (μ.withDensity E) = μ) :
    Measure.map φ.symm (μ.withDensity fun x => (E (φ.symm x))⁻¹) = μ := by
  have hinv : (μ.withDensity E).withDensity (fun y => (E y)⁻¹) = μ :=
    withDensity_inv_same hE (Filter.Eventually.of_forall h0) (Filter.Eventually.of_forall htop)
  have claim : μ.withDensity (fun x => (E (φ.symm x))⁻¹)
      = Measure.map φ ((μ.withDensity E).withDensity fun y => (E y)⁻¹) := by
    ext S hS
    rw [φ.map_apply, withDensity_apply _ (φ.measurable hS), withDensity_apply _ hS]
    conv_lhs => rw [← H]
    rw [φ.restrict_map, lintegral_map_equiv]
    simp
  rw [claim, hinv]
  rw [Measure.map_map φ.symm.measurable φ.measurable]
  simp

/-- `MassOK` / `LawOK` for the generated `Invert(b)` from the measure-level identity of `b` and log-det antisymmetry -/
theorem invert_of_wpres (μ : Measure X) (b : Bij X C ℝ) (c : C) (hL : b.Lawful univ univ)
    (hfm : Measurable fun x => b.fwd x c)
    (hw : WPres μ (fun y => b.inv y c) (fun y => ENNReal.ofReal (Real.exp (b.invLd y c).2)))
    (hanti : ∀ x, (b.invLd (b.fwd x c) c).2 = -(b.fwdLd x c).2) :
    MassOK μ (Gen.Invert.mk b).toBij c ∧ LawOK μ (Gen.Invert.mk b).toBij c := by
  have hLi : (Gen.Invert.mk b).toBij.Lawful univ univ :=
    ⟨fun _ _ _ => trivial, fun _ _ _ => trivial, fun y _ c => hL.right y trivial c, fun x _ c => hL.left x trivial c,
      fun y c => hL.invLd_fst y c, fun x c => hL.fwdLd_fst x c⟩
  set φ := invEquiv b c hL hfm hw.meas
  have hmap : Measure.map φ (μ.withDensity fun y => ENNReal.ofReal (Real.exp (b.invLd y c).2)) = μ := hw.map_eq
  have h2 := map_symm_withDensity_inv φ hw.measE
    (fun x => by simp [Real.exp_pos]) (fun x => ENNReal.ofReal_ne_top) hmap
  have hE : (fun x => (ENNReal.ofReal (Real.exp (b.invLd (φ.symm x) c).2))⁻¹)
      = fun x => ENNReal.ofReal (Real.exp (b.fwdLd x c).2) := by
    funext x
    show (ENNReal.ofReal (Real.exp (b.invLd (b.fwd x c) c).2))⁻¹ = _
    rw [hanti x, Real.exp_neg, ENNReal.ofReal_inv_of_pos (Real.exp_pos _), inv_inv]
  rw [hE] at h2
  have hmE : Measurable fun x => ENNReal.ofReal (Real.exp (b.fwdLd x c).2) := by
    rw [← hE]; exact (hw.measE.comp φ.symm.measurable).inv
  have hw' : WPres μ (fun y => (Gen.Invert.mk b).toBij.inv y c)
      (fun y => ENNReal.ofReal (Real.exp ((Gen.Invert.mk b).toBij.invLd y c).2)) :=
    ⟨hfm, hmE, h2⟩
  exact ⟨massOK_of_wpres μ _ c hLi hw.meas hw', lawOK_of_wpres μ _ c hLi hw.meas hw'⟩

end invert

section ar

/-- the one-dimensional layer fact is the fibre hypothesis of `MassShear.ar_wpres` -/
theorem fibre_of_lawOK (τ : Bij ℝ Unit ℝ) (hL : τ.Lawful univ univ) (h : LawOK volume τ ())
    (him : Measurable fun y => τ.inv y ()) :
    Measure.map (fun y => τ.inv y ())
      ((volume : Measure ℝ).withDensity fun t => ENNReal.ofReal (Real.exp (τ.invLd t ()).2)) = volume := by
  have h1 := h.law (fun _ => 1)
  simp only [ENNReal.ofReal_one, one_mul] at h1
  have h0 : (volume : Measure ℝ).withDensity (fun _ => (1 : ENNReal)) = volume := withDensity_one
  rw [h0] at h1
  rw [← h1, Measure.map_map him h.fwd_meas]
  have : ((fun y => τ.inv y ()) ∘ fun x => τ.fwd x ()) = id := by
    funext x; exact hL.left x trivial ()
  rw [this, Measure.map_id]

variable {n : ℕ} {C : Type}

/-- the measure-level identity for an autoregressive layer (see `ar_layer`) -/
theorem ar_layer_wpres (b : Bij (Fin n → ℝ) C ℝ) (c : C) (hL : b.Lawful univ univ)
    (g h l : Fin n → (Fin n → ℝ) → ℝ → ℝ)
    (hloc_h : ∀ i w w', AgreeBelow (i : Fin n).val w w' → h i w = h i w')
    (hloc_l : ∀ i w w', AgreeBelow (i : Fin n).val w w' → l i w = l i w')
    (hg : ∀ i, Measurable fun p : (Fin n → ℝ) × ℝ => g i p.1 p.2)
    (hh : ∀ i, Measurable fun p : (Fin n → ℝ) × ℝ => h i p.1 p.2)
    (hl : ∀ i, Measurable fun p : (Fin n → ℝ) × ℝ => l i p.1 p.2)
    (hgh : ∀ i w t, g i w (h i w t) = t)
    (hfib : ∀ i w, Measure.map (h i w)
      ((volume : Measure ℝ).withDensity fun t => ENNReal.ofReal (Real.exp (l i w t))) = volume)
    (hfwd : ∀ x, b.fwd x c = fun i => g i x (x i))
    (hld : ∀ y, (b.invLd y c).2 = ∑ i, l i (b.inv y c) (y i)) :
    (Measurable fun x => b.fwd x c) ∧
    WPres volume (fun y => b.inv y c) (fun y => ENNReal.ofReal (Real.exp (b.invLd y c).2)) := by
  have hinv : ∀ y, b.inv y c = P h n y := by
    intro y
    have h1 : b.fwd (P h n y) c = y := by rw [hfwd]; exact P_rightInv h hloc_h g hgh y
    have h2 := hL.left (P h n y) trivial c
    rw [h1] at h2; exact h2
  have hfm : Measurable fun x => b.fwd x c := by
    have : (fun x => b.fwd x c) = fun x i => g i x (x i) := by funext x; exact hfwd x
    rw [this]
    exact measurable_pi_iff.mpr fun i => (hg i).comp (measurable_id.prodMk (measurable_pi_apply i))
  have hw := ar_wpres h l hloc_h hloc_l hh hl hfib
  refine ⟨hfm, ?_⟩
  have e1 : (fun y => b.inv y c) = P h n := funext hinv
  have e2 : (fun y => ENNReal.ofReal (Real.exp (b.invLd y c).2))
      = fun y => ENNReal.ofReal (Real.exp (∑ i : Fin n, l i (P h n y) (y i))) := by
    funext y; rw [hld y, hinv y]
  rw [e1, e2]; exact hw

/-- **every autoregressive layer is mass preserving and its sampler follows its density** — no differentiability in
the conditioning coordinates, only joint measurability. -/
theorem ar_layer (b : Bij (Fin n → ℝ) C ℝ) (c : C) (hL : b.Lawful univ univ)
    (g h l : Fin n → (Fin n → ℝ) → ℝ → ℝ)
    (hloc_h : ∀ i w w', AgreeBelow (i : Fin n).val w w' → h i w = h i w')
    (hloc_l : ∀ i w w', AgreeBelow (i : Fin n).val w w' → l i w = l i w')
    (hg : ∀ i, Measurable fun p : (Fin n → ℝ) × ℝ => g i p.1 p.2)
    (hh : ∀ i, Measurable fun p : (Fin n → ℝ) × ℝ => h i p.1 p.2)
    (hl : ∀ i, Measurable fun p : (Fin n → ℝ) × ℝ => l i p.1 p.2)
    (hgh : ∀ i w t, g i w (h i w t) = t)
    (hfib : ∀ i w, Measure.map (h i w)
      ((volume : Measure ℝ).withDensity fun t => ENNReal.ofReal (Real.exp (l i w t))) = volume)
    (hfwd : ∀ x, b.fwd x c = fun i => g i x (x i))
    (hld : ∀ y, (b.invLd y c).2 = ∑ i, l i (b.inv y c) (y i)) :
    MassOK volume b c ∧ LawOK volume b c := by
  obtain ⟨hfm, hw⟩ := ar_layer_wpres b c hL g h l hloc_h hloc_l hg hh hl hgh hfib hfwd hld
  exact ⟨massOK_of_wpres volume b c hL hfm hw, lawOK_of_wpres volume b c hL hfm hw⟩

/-- the same for the generated `Invert(b)` — the orientation the flow factories build with `invert=True` -/
theorem ar_layer_invert (b : Bij (Fin n → ℝ) C ℝ) (c : C) (hL : b.Lawful univ univ)
    (g h l : Fin n → (Fin n → ℝ) → ℝ → ℝ)
    (hloc_h : ∀ i w w', AgreeBelow (i : Fin n).val w w' → h i w = h i w')
    (hloc_l : ∀ i w w', AgreeBelow (i : Fin n).val w w' → l i w = l i w')
    (hg : ∀ i, Measurable fun p : (Fin n → ℝ) × ℝ => g i p.1 p.2)
    (hh : ∀ i, Measurable fun p : (Fin n → ℝ) × ℝ => h i p.1 p.2)
    (hl : ∀ i, Measurable fun p : (Fin n → ℝ) × ℝ => l i p.1 p.2)
    (hgh : ∀ i w t, g i w (h i w t) = t)
    (hfib : ∀ i w, Measure.map (h i w)
      ((volume : Measure ℝ).withDensity fun t => ENNReal.ofReal (Real.exp (l i w t))) = volume)
    (hfwd : ∀ x, b.fwd x c = fun i => g i x (x i))
    (hld : ∀ y, (b.invLd y c).2 = ∑ i, l i (b.inv y c) (y i))
    (hanti : ∀ x, (b.invLd (b.fwd x c) c).2 = -(b.fwdLd x c).2) :
    MassOK volume (Gen.Invert.mk b).toBij c ∧ LawOK volume (Gen.Invert.mk b).toBij c := by
  obtain ⟨hfm, hw⟩ := ar_layer_wpres b c hL g h l hloc_h hloc_l hg hh hl hgh hfib hfwd hld
  exact invert_of_wpres volume b c hL hfm hw hanti

end ar

end Mass
