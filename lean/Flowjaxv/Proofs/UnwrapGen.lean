import Flowjaxv.Model.UnwrapKnot
import Flowjaxv.Proofs.Tree
/-!
# The regenerated traversal (`Gen/UnwrapGen.lean`) is the hand model (`Model/Tree.lean`)   (C12; core Lean only)

* `vectorizedUnwrap_eq`   — generated `vectorized_unwrap` (early `_dummy is None` return, `v_unwrap`, the fold of `eqx.filter_vmap` over
                            `reversed(_dummy.shape)`) on a wrapper node = `applyW` (hence `applyB`: one vmap level per batch axis,
                            outermost axis first), every class, every number of batch levels;
* `recursiveUnwrap_eq`    — generated `recursive_unwrap` = `applyW` on the children handed to the recursive `unwrap`;
* `unwrapFuel_eq`, `genUnwrap_eq`, `genUnwrap_fuel_stable` — generated `unwrap` = `PyTree.unwrap`, with any fuel `≥ wdepth t`;
* `genNonTrainable_eq`    — generated `non_trainable` = `nonTrainableT`; nothing is trainable afterwards, every leaf is frozen;
* `genPartition_eq`       — both generated partition statements = `(partP, partS)`.
-/
namespace PyTree
open UnwrapW
variable {α : Type}

/-! ## the class tests on the constructors -/

@[simp] theorem isUnwrappable_none : isUnwrappable (.none : Tree α) = false := rfl
@[simp] theorem isUnwrappable_arr (id ix a) : isUnwrappable (.arr id ix a : Tree α) = false := rfl
@[simp] theorem isUnwrappable_static (id) : isUnwrappable (.static id : Tree α) = false := rfl
@[simp] theorem isUnwrappable_node (cs) : isUnwrappable (.node cs : Tree α) = false := rfl
@[simp] theorem isUnwrappable_wrap (k tag b cs) : isUnwrappable (.wrap k tag b cs : Tree α) = true := rfl
@[simp] theorem isNonTrainable_none : isNonTrainable (.none : Tree α) = false := rfl
@[simp] theorem isNonTrainable_arr (id ix a) : isNonTrainable (.arr id ix a : Tree α) = false := rfl
@[simp] theorem isNonTrainable_static (id) : isNonTrainable (.static id : Tree α) = false := rfl
@[simp] theorem isNonTrainable_node (cs) : isNonTrainable (.node cs : Tree α) = false := rfl
@[simp] theorem isNonTrainable_wrap (k tag b cs) :
    isNonTrainable (.wrap k tag b cs : Tree α) = decide (k = .nonTrainable) := by cases k <;> rfl
@[simp] theorem isInexactArray_none : isInexactArray (.none : Tree α) = false := rfl
@[simp] theorem isInexactArray_arr (id ix a) : isInexactArray (.arr id ix a : Tree α) = ix := rfl
@[simp] theorem isInexactArray_static (id) : isInexactArray (.static id : Tree α) = false := rfl
@[simp] theorem isInexactArray_node (cs) : isInexactArray (.node cs : Tree α) = false := rfl
@[simp] theorem isInexactArray_wrap (k tag b cs) : isInexactArray (.wrap k tag b cs : Tree α) = false := rfl

/-! ## `vectorized_unwrap` -/

theorem foldl_filterVmap_eq (g : Tree α → Tree α) (b : List Nat) :
    List.foldl (fun (acc : Tree α → Tree α) (v : Nat) =>
        let v_unwrap : Tree α → Tree α := acc; let dim : Nat := v
        let v_unwrap : Tree α → Tree α := filterVmap v_unwrap dim; v_unwrap) g b.reverse
      = List.foldr (fun d acc => filterVmap acc d) g b := by
  rw [List.foldl_reverse]

/-- the nest of `eqx.filter_vmap`s built by the loop, applied to a `_dummy`-carrying wrapper = `applyB` -/
theorem vmapNest_eq (W : World α) (k : Kind) (hk : k = .reparam ∨ k = .lambda) (tag : Nat) :
    ∀ (b : List Nat) (cs : List (Tree α)),
      List.foldr (fun d acc => filterVmap acc d) (GenUnwrap.recursiveUnwrap_vectorizedUnwrap_vUnwrap W) b (.wrap k tag b cs)
        = applyB W.body k tag b cs
  | [], cs => by
      rcases hk with rfl | rfl <;>
        simp [GenUnwrap.recursiveUnwrap_vectorizedUnwrap_vUnwrap, callUnwrap, applyB]
  | n :: b, cs => by
      simp only [List.foldr_cons, filterVmap, sliceT, List.tail_cons, applyB]
      rw [vmapNest_eq W k hk tag b (sliceL 0 cs)]
      exact stackF_congr _ _ _ (fun m _ => vmapNest_eq W k hk tag b (sliceL m cs))

/-- generated `vectorized_unwrap` on a wrapper node = `applyW` of the hand model — every class, every batch shape -/
theorem vectorizedUnwrap_eq (W : World α) (k : Kind) (tag : Nat) (b : List Nat) (cs : List (Tree α)) :
    GenUnwrap.recursiveUnwrap_vectorizedUnwrap W (.wrap k tag b cs) = applyW W.body k tag b cs := by
  unfold GenUnwrap.recursiveUnwrap_vectorizedUnwrap
  cases k with
  | nonTrainable =>
      simp only [dummy, Kind.hasDummy, Bool.false_eq_true, if_false, applyW, callUnwrap]
      rcases cs with _ | ⟨c, _ | ⟨c', cs⟩⟩ <;> rfl
  | whereK => simp [dummy, Kind.hasDummy, callUnwrap, applyW]
  | weightNorm => simp [dummy, Kind.hasDummy, callUnwrap, applyW]
  | reparam =>
      simp only [dummy, Kind.hasDummy, if_true, applyW]
      rw [foldl_filterVmap_eq]
      exact vmapNest_eq W .reparam (Or.inl rfl) tag b cs
  | lambda =>
      simp only [dummy, Kind.hasDummy, if_true, applyW]
      rw [foldl_filterVmap_eq]
      exact vmapNest_eq W .lambda (Or.inr rfl) tag b cs

/-! ## `recursive_unwrap` -/

/-- generated `recursive_unwrap` on a wrapper node: the children go through the recursive `unwrap` (as ONE list), the node is rebuilt
around them, then `vectorized_unwrap` -/
theorem recursiveUnwrap_eq (W : World α) (k : Kind) (tag : Nat) (b : List Nat) (cs : List (Tree α)) :
    GenUnwrap.recursiveUnwrap W (.wrap k tag b cs) = applyW W.body k tag b (W.unwrapRec (.node cs)).children := by
  simp only [GenUnwrap.recursiveUnwrap, treeFlattenOneLevel, treeUnflatten, unwrapList, Tree.children]
  exact vectorizedUnwrap_eq W k tag b _

/-! ## `unwrap` -/

mutual
theorem unwrap_of_wdepth_zero (f : WrapFn α) : ∀ t : Tree α, wdepth t = 0 → unwrap f t = t
  | .none, _ => by simp [unwrap]
  | .arr _ _ _, _ => by simp [unwrap]
  | .static _, _ => by simp [unwrap]
  | .node cs, h => by
      simp only [wdepth] at h
      simp only [unwrap, unwrapL_of_wdepthL_zero f cs h]
  | .wrap _ _ _ _, h => by simp [wdepth] at h
theorem unwrapL_of_wdepthL_zero (f : WrapFn α) : ∀ cs : List (Tree α), wdepthL cs = 0 → unwrapL f cs = cs
  | [], _ => by simp [unwrapL]
  | c :: cs, h => by
      simp only [wdepthL] at h
      have h1 : wdepth c = 0 := by omega
      have h2 : wdepthL cs = 0 := by omega
      simp only [unwrapL, unwrap_of_wdepth_zero f c h1, unwrapL_of_wdepthL_zero f cs h2]
end

mutual
/-- one unrolling of the generated `unwrap` over a recursive binding that is already right up to depth `n` -/
theorem unwrapStep_eq (f : WrapFn α) (r : Tree α → Tree α) (n : Nat)
    (hr : ∀ t, wdepth t ≤ n → r t = unwrap f t) :
    ∀ t : Tree α, wdepth t ≤ n + 1 → GenUnwrap.unwrap ⟨f, r⟩ t = unwrap f t
  | .none, _ => by simp [GenUnwrap.unwrap, treeMap, unwrap]
  | .arr _ _ _, _ => by simp [GenUnwrap.unwrap, treeMap, unwrap]
  | .static _, _ => by simp [GenUnwrap.unwrap, treeMap, unwrap]
  | .node cs, h => by
      simp only [wdepth] at h
      have := unwrapStepL_eq f r n hr cs h
      simp only [GenUnwrap.unwrap, treeMap, isUnwrappable_node, unwrap, Bool.false_eq_true, if_false, this]
  | .wrap k tag b cs, h => by
      simp only [wdepth] at h
      have hcs : wdepth (.node cs : Tree α) ≤ n := by simp only [wdepth]; omega
      simp only [GenUnwrap.unwrap, treeMap, isUnwrappable_wrap, if_true, unwrap]
      rw [recursiveUnwrap_eq]
      simp only [hr _ hcs, unwrap, Tree.children]
theorem unwrapStepL_eq (f : WrapFn α) (r : Tree α → Tree α) (n : Nat)
    (hr : ∀ t, wdepth t ≤ n → r t = unwrap f t) :
    ∀ cs : List (Tree α), wdepthL cs ≤ n + 1 →
      treeMapL (fun leaf => if isUnwrappable leaf then GenUnwrap.recursiveUnwrap ⟨f, r⟩ leaf else leaf) cs
        (fun x => isUnwrappable x) = unwrapL f cs
  | [], _ => by simp [treeMapL, unwrapL]
  | c :: cs, h => by
      simp only [wdepthL] at h
      have h1 : wdepth c ≤ n + 1 := by omega
      have h2 : wdepthL cs ≤ n + 1 := by omega
      have e1 := unwrapStep_eq f r n hr c h1
      simp only [GenUnwrap.unwrap] at e1
      simp only [treeMapL, unwrapL, e1, unwrapStepL_eq f r n hr cs h2]
end

/-- the generated `unwrap`, recursion unrolled `n` times, is the hand model's `unwrap` on every tree with at most `n` nested wrapper
levels -/
theorem unwrapFuel_eq (f : WrapFn α) : ∀ (n : Nat) (t : Tree α), wdepth t ≤ n → unwrapFuel f n t = unwrap f t
  | 0, t, h => by
      simp only [unwrapFuel]
      exact (unwrap_of_wdepth_zero f t (by omega)).symm
  | n + 1, t, h => by
      simp only [unwrapFuel]
      exact unwrapStep_eq f _ n (unwrapFuel_eq f n) t h

/-- generated `unwrap` = hand `unwrap`: every tree, nesting depth, batch shape, per-class body -/
theorem genUnwrap_eq (f : WrapFn α) (t : Tree α) : genUnwrap f t = unwrap f t :=
  unwrapFuel_eq f _ t (Nat.le_refl _)

/-- the value does not depend on the fuel once it covers the nesting depth -/
theorem genUnwrap_fuel_stable (f : WrapFn α) (t : Tree α) (n : Nat) (h : wdepth t ≤ n) :
    unwrapFuel f n t = genUnwrap f t := by
  rw [unwrapFuel_eq f n t h, genUnwrap_eq]

/-- generated `recursive_unwrap` of a wrapper node = the hand model's clause for it -/
theorem genRecursiveUnwrap_eq (f : WrapFn α) (k : Kind) (tag : Nat) (b : List Nat) (cs : List (Tree α)) :
    genRecursiveUnwrap f (.wrap k tag b cs) = unwrap f (.wrap k tag b cs) := by
  simp only [genRecursiveUnwrap, recursiveUnwrap_eq]
  rw [unwrapFuel_eq f _ (.node cs) (by simp only [wdepth]; omega)]
  simp only [unwrap, Tree.children]

/-! ## `non_trainable` -/

mutual
theorem genNonTrainable_eq : ∀ t : Tree α, GenUnwrap.nonTrainable t = nonTrainableT t
  | .none => by simp [GenUnwrap.nonTrainable, treeMap, nonTrainableT]
  | .arr id ix a => by
      cases ix <;> simp [GenUnwrap.nonTrainable, GenUnwrap.nonTrainable_mapFn, treeMap, mkNonTrainable, nonTrainableT]
  | .static _ => by simp [GenUnwrap.nonTrainable, GenUnwrap.nonTrainable_mapFn, treeMap, nonTrainableT]
  | .node cs => by
      have := genNonTrainableL_eq cs
      simp only [GenUnwrap.nonTrainable, treeMap, isNonTrainable_node, nonTrainableT, Bool.false_eq_true, if_false, this]
  | .wrap k tag b cs => by
      have := genNonTrainableL_eq cs
      cases k <;>
        simp [GenUnwrap.nonTrainable, GenUnwrap.nonTrainable_mapFn, treeMap, nonTrainableT, this]
theorem genNonTrainableL_eq : ∀ cs : List (Tree α),
    treeMapL GenUnwrap.nonTrainable_mapFn cs (fun x => isNonTrainable x) = nonTrainableTL cs
  | [] => by simp [treeMapL, nonTrainableTL]
  | c :: cs => by
      have e1 := genNonTrainable_eq c
      simp only [GenUnwrap.nonTrainable] at e1
      simp only [treeMapL, nonTrainableTL, e1, genNonTrainableL_eq cs]
end

mutual
theorem trainable_nonTrainableT : ∀ t : Tree α, trainableLeaves (nonTrainableT t) = []
  | .none => by simp [nonTrainableT, trainableLeaves]
  | .arr id ix a => by cases ix <;> simp [nonTrainableT, trainableLeaves]
  | .static _ => by simp [nonTrainableT, trainableLeaves]
  | .node cs => by simp only [nonTrainableT, trainableLeaves, trainableL_nonTrainableTL cs]
  | .wrap k tag b cs => by
      cases k <;> simp only [nonTrainableT, trainableLeaves, trainableL_nonTrainableTL cs]
theorem trainableL_nonTrainableTL : ∀ cs : List (Tree α), trainableLeavesL (nonTrainableTL cs) = []
  | [] => by simp [nonTrainableTL, trainableLeavesL]
  | c :: cs => by
      simp only [nonTrainableTL, trainableLeavesL, trainable_nonTrainableT c, trainableL_nonTrainableTL cs, List.append_nil]
end

mutual
theorem frozen_nonTrainableT : ∀ t : Tree α, frozenLeaves (nonTrainableT t) = leaves t
  | .none => by simp [nonTrainableT, frozenLeaves, leaves]
  | .arr id ix a => by cases ix <;> simp [nonTrainableT, frozenLeaves, leaves, leavesL]
  | .static _ => by simp [nonTrainableT, frozenLeaves, leaves]
  | .node cs => by simp only [nonTrainableT, frozenLeaves, leaves, frozenL_nonTrainableTL cs]
  | .wrap k tag b cs => by
      cases k <;> simp only [nonTrainableT, frozenLeaves, leaves, frozenL_nonTrainableTL cs]
theorem frozenL_nonTrainableTL : ∀ cs : List (Tree α), frozenLeavesL (nonTrainableTL cs) = leavesL cs
  | [] => by simp [nonTrainableTL, frozenLeavesL, leavesL]
  | c :: cs => by
      simp only [nonTrainableTL, frozenLeavesL, leavesL, frozen_nonTrainableT c, frozenL_nonTrainableTL cs]
end

/-! ## the partition statements of the training loops -/

mutual
theorem partitionP_eq : ∀ t : Tree α, partitionP isInexactArray (fun leaf => isNonTrainable leaf) t = partP t
  | .none => by simp [partitionP, partP]
  | .arr id ix a => by cases ix <;> simp [partitionP, partP]
  | .static _ => by simp [partitionP, partP]
  | .node cs => by
      have := partitionPL_eq cs
      simp only [partitionP, partP, isNonTrainable_node, Bool.false_eq_true, if_false, this]
  | .wrap k tag b cs => by
      have := partitionPL_eq cs
      cases k <;> simp [partitionP, partP, this]
theorem partitionPL_eq : ∀ cs : List (Tree α), partitionPL isInexactArray (fun leaf => isNonTrainable leaf) cs = partPL cs
  | [] => by simp [partitionPL, partPL]
  | c :: cs => by simp only [partitionPL, partPL, partitionP_eq c, partitionPL_eq cs]
end

mutual
theorem partitionS_eq : ∀ t : Tree α, partitionS isInexactArray (fun leaf => isNonTrainable leaf) t = partS t
  | .none => by simp [partitionS, partS]
  | .arr id ix a => by cases ix <;> simp [partitionS, partS]
  | .static _ => by simp [partitionS, partS]
  | .node cs => by
      have := partitionSL_eq cs
      simp only [partitionS, partS, isNonTrainable_node, Bool.false_eq_true, if_false, this]
  | .wrap k tag b cs => by
      have := partitionSL_eq cs
      cases k <;> simp [partitionS, partS, this]
theorem partitionSL_eq : ∀ cs : List (Tree α), partitionSL isInexactArray (fun leaf => isNonTrainable leaf) cs = partSL cs
  | [] => by simp [partitionSL, partSL]
  | c :: cs => by simp only [partitionSL, partSL, partitionS_eq c, partitionSL_eq cs]
end

/-- the generated partition statements (both training loops; `get_ravelled_pytree_constructor` at its default filter) are the hand model's
`(partP, partS)` -/
theorem genPartition_eq (t : Tree α) :
    GenUnwrap.fitToDataPartition t = (partP t, partS t) ∧
    GenUnwrap.fitToVariationalTargetPartition t = (partP t, partS t) ∧
    GenUnwrap.ravelledConstructorPartition t isInexactArray = (partP t, partS t) := by
  simp only [GenUnwrap.fitToDataPartition, GenUnwrap.fitToVariationalTargetPartition, GenUnwrap.ravelledConstructorPartition,
    partition, partitionP_eq, partitionS_eq, and_self]

end PyTree
