import Flowjaxv.Proofs.ArgCheck
import Flowjaxv.Gen.WrapperGen
/-!
# The GENERATED wrapper `_unwrap_check_and_cast` (as a whole) and `__init_subclass__` against the hand model `Model/ArgCheck.lean`
Core Lean only.
-/
open PyShape ArgCheck Gen.Structure

namespace WrapperGenPf
open Gen.WrapperGen

/-- **generated wrapper = hand model**, for every wrapped method (any result type), every declared shape / cond_shape, every Python
argument for `x` and `condition` (None, an array of any shape, not array-like): the closure returned by the generated
`_unwrap_check_and_cast(method)` raises exactly what `wrapperCheckVal` raises (x checked before the condition) and otherwise calls
`method(unwrap(bijection), x', condition')` with the values `wrapperCheckVal` returns. -/
theorem gen_wrapper_eq_model {ρ : Type} (method : PyCtor.SB → Val → Val → Except Err ρ) (shape : Shape) (cs : Option Shape)
    (x c : Val) :
    unwrapCheckAndCast method ⟨shape, cs⟩ x c =
      match wrapperCheckVal shape cs x c with
      | .error e => .error e
      | .ok (x', c') => method ⟨shape, cs⟩ x' c' := by
  have hx : ∀ s : Shape, (if s = shape then (Except.ok (Val.arr s) : Except Err Val) else .error .valueError)
      = if shape = s then .ok (Val.arr s) else .error .valueError := by
    intro s; by_cases h : s = shape
    · subst h; simp
    · have h' : ¬ shape = s := fun e => h e.symm
      simp [h, h']
  cases x <;> cases c <;> cases cs <;>
    simp [unwrapCheckAndCast, wrapperCheckVal, checkXVal, checkConditionVal, PyWrap.unwrap, Except.bind, Except.map,
      arraylikeToArray, shapeOf, optShapeEq, valIsNone, optIsNone] <;>
    (try split) <;> (try split) <;> simp_all

/-! ### `__init_subclass__` on a class dictionary -/
open PyCls

theorem lookup_cons (p : String × Obj) (ps : Cls) (m : String) :
    lookup (p :: ps) m = if p.1 = m then some p.2 else lookup ps m := by
  by_cases h : p.1 = m
  · simp [lookup, List.find?, h]
  · have h' : (p.1 == m) = false := by simpa using h
    simp [lookup, List.find?, h, h']

theorem lookup_map_set' (cls : Cls) (k m : String) (v : Obj) :
    lookup (cls.map (fun p => if p.1 == k then (p.1, v) else p)) m
      = if m = k then (lookup cls k).map (fun _ => v) else lookup cls m := by
  induction cls with
  | nil => simp [lookup]
  | cons p ps ih =>
    rw [List.map_cons, lookup_cons, ih, lookup_cons, lookup_cons]
    by_cases hpk : p.1 = k
    · by_cases hmk : m = k
      · subst hmk; simp [hpk]
      · have hkm : ¬ k = m := fun e => hmk e.symm
        simp [hpk, hmk, hkm]
    · by_cases hpm : p.1 = m
      · have hmk : ¬ m = k := by rw [← hpm]; exact hpk
        simp [hpk, hpm, hmk]
      · simp [hpk, hpm]

theorem lookup_map_set (cls : Cls) (k m : String) (v : Obj) (h : inDict k cls = true) :
    lookup (cls.map (fun p => if p.1 == k then (p.1, v) else p)) m = if m = k then some v else lookup cls m := by
  rw [lookup_map_set']
  obtain ⟨o, ho⟩ := Option.isSome_iff_exists.mp h
  simp [ho]

/-- one round of the hook's loop, looked up afterwards -/
theorem lookup_step (cls : Cls) (k m : String) :
    lookup (if (inDict k cls && !(hasattr (dictGet cls k) "__isabstractmethod__")) then
        setattr cls k (PyCls.unwrapCheckAndCast (dictGet cls k)) else cls) m
      = match lookup cls m with
        | some o => if m = k ∧ hasattr o "__isabstractmethod__" = false then some (.wrapped o) else some o
        | none => none := by
  by_cases hin : inDict k cls = true
  · by_cases ha : hasattr (dictGet cls k) "__isabstractmethod__" = true
    · simp only [hin, ha, Bool.not_true, Bool.and_false, Bool.false_eq_true, if_false]
      cases hm : lookup cls m with
      | none => rfl
      | some o =>
        by_cases hmk : m = k
        · subst hmk
          have : dictGet cls m = o := by simp [dictGet, hm]
          rw [this] at ha; simp [ha]
        · simp [hmk]
    · have ha' : hasattr (dictGet cls k) "__isabstractmethod__" = false := by simpa using ha
      simp only [hin, ha', Bool.not_false, Bool.and_self, if_true, setattr]
      rw [lookup_map_set cls k m _ hin]
      by_cases hmk : m = k
      · subst hmk
        obtain ⟨o, ho⟩ := Option.isSome_iff_exists.mp hin
        have hd : dictGet cls m = o := by simp [dictGet, ho]
        rw [hd] at ha'
        simp [ho, hd, ha', PyCls.unwrapCheckAndCast]
      · cases hm : lookup cls m <;> simp [hmk]
  · have hin' : inDict k cls = false := by simpa using hin
    simp only [hin', Bool.false_and, Bool.false_eq_true, if_false]
    cases hm : lookup cls m with
    | none => rfl
    | some o =>
      have : ¬ m = k := by
        intro e; subst e; simp [inDict, hm] at hin'
      simp [this]

/-- **the generated `__init_subclass__`**: afterwards a name is bound to `_unwrap_check_and_cast(o)` exactly when it is one of the four
method names, the class body binds it (to `o`) and `o` has no `__isabstractmethod__`; every other binding is untouched, nothing is
added — for every class dictionary. -/
theorem gen_init_subclass_spec (cls : Cls) (m : String) :
    lookup (initSubclass cls) m
      = match lookup cls m with
        | some o => if m ∈ fourMethods ∧ hasattr o "__isabstractmethod__" = false then some (.wrapped o) else some o
        | none => none := by
  simp only [initSubclass, List.foldl, lookup_step]
  cases hm : lookup cls m with
  | none => rfl
  | some o =>
    simp only [fourMethods]
    by_cases ha : hasattr o "__isabstractmethod__" = false
    · by_cases h1 : m = "transform"
      · subst h1; simp [ha, hasattr]
      · by_cases h2 : m = "transform_and_log_det"
        · subst h2; simp [ha, hasattr]
        · by_cases h3 : m = "inverse"
          · subst h3; simp [ha, hasattr]
          · by_cases h4 : m = "inverse_and_log_det"
            · subst h4; simp [ha, hasattr]
            · simp [h1, h2, h3, h4]
    · simp [ha]

end WrapperGenPf
