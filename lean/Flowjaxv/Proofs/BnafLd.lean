import Flowjaxv.Proofs.NetLogDet
import Flowjaxv.Model.BnafLd
/-!
# C02 — `BlockAutoregressiveNetwork.transform_and_log_det`: the value the code computes is `log |det J|`

* `lme_mk`: over `ℝ`, the generated `logmatmulexp x y` is entrywise `log (exp x · exp y)` (matrix product of the entrywise
  exponentials, `exp(-inf) = 0`), whenever every column of `y` has a finite entry (and `x` is finite).
* `bnafChain_ld`: the log-space chain of the code computes, for every block `i`, the logarithm of the product of the diagonal
  blocks `W_d[i,i] · diag(act'(h_{d-1})) · W_{d-1}[i,i] · … · W_0[i,i]`, and that product is the derivative of output `i` along
  the coordinate line `x_i` (explicit form of `bnaf_partials`).
* `bnaf_logdet`: the returned value is `some (log |det J|)`, `J` THE Fréchet derivative of the modelled forward map.
-/
set_option linter.unusedSectionVars false
set_option linter.unusedVariables false
open Masks MasksPf Jnp

namespace BnafLd

/-! ## log-domain values over `ℝ` -/

theorem max_some_left (a : ℝ) (b : Ext ℝ) : ∃ s, Ext.max (some a) b = some s := by
  cases b with
  | none => exact ⟨a, rfl⟩
  | some b => exact ⟨_, rfl⟩

theorem foldl_max_some (xs : List (Ext ℝ)) (a : ℝ) : ∃ s, xs.foldl Ext.max (some a) = some s := by
  induction xs generalizing a with
  | nil => exact ⟨a, rfl⟩
  | cons x xs ih =>
    obtain ⟨s, hs⟩ := max_some_left a x
    rw [List.foldl_cons, hs]
    exact ih s

theorem amax_some (xs : List (Ext ℝ)) (h : ∃ a ∈ xs, a ≠ none) : ∃ s, Ext.amax xs = some s := by
  unfold Ext.amax
  induction xs with
  | nil => obtain ⟨a, ha, _⟩ := h; simp at ha
  | cons x xs ih =>
    cases x with
    | some a => exact foldl_max_some xs a
    | none =>
      have : Ext.max none none = (none : Ext ℝ) := rfl
      rw [List.foldl_cons, this]
      apply ih
      obtain ⟨a, ha, hne⟩ := h
      rcases List.mem_cons.mp ha with rfl | ha
      · exact absurd rfl hne
      · exact ⟨a, ha, hne⟩

theorem exp_sub_some (a : Ext ℝ) (s : ℝ) : Ext.exp (Ext.sub a (some s)) = Ext.exp a * Real.exp (-s) := by
  cases a with
  | none => simp [Ext.sub, Ext.exp]
  | some a => simp [Ext.sub, Ext.exp, sub_eq_add_neg, Real.exp_add]

theorem exp_nonneg (a : Ext ℝ) : 0 ≤ Ext.exp a := by
  cases a with
  | none => simp [Ext.exp]
  | some a => simp [Ext.exp, Real.exp_nonneg]

/-! ## matrices given by an entry function -/

/-- the `n × m` matrix with entries `f i j` -/
def mkMat {β : Type} (n m : ℕ) (f : ℕ → ℕ → β) : List (List β) :=
  (List.range n).map fun i => (List.range m).map fun j => f i j

theorem dot_range (k : ℕ) (f g : ℕ → ℝ) :
    Jnp.dot ((List.range k).map f) ((List.range k).map g) = ∑ l ∈ Finset.range k, f l * g l := by
  rw [dot_eq_sum]
  simp only [List.length_map, List.length_range]
  apply Finset.sum_congr rfl
  intro l hl
  have hl' : l < k := Finset.mem_range.mp hl
  simp [nth, hl']

theorem mkMat_headD {β : Type} (n m : ℕ) (hn : 0 < n) (f : ℕ → ℕ → β) : ((mkMat n m f).headD []).length = m := by
  obtain ⟨n, rfl⟩ := Nat.exists_eq_succ_of_ne_zero hn.ne'
  simp [mkMat, List.range_succ_eq_map]

theorem mkMat_congr {β : Type} (n m : ℕ) (f g : ℕ → ℕ → β) (h : ∀ i j, i < n → j < m → f i j = g i j) :
    mkMat n m f = mkMat n m g := by
  unfold mkMat
  apply List.map_congr_left
  intro i hi
  apply List.map_congr_left
  intro j hj
  exact h i j (List.mem_range.mp hi) (List.mem_range.mp hj)

theorem zipWith_range_map {β γ δ : Type} (n : ℕ) (f : β → γ → δ) (a : ℕ → β) (b : ℕ → γ) :
    List.zipWith f ((List.range n).map a) ((List.range n).map b) = (List.range n).map fun i => f (a i) (b i) := by
  apply List.ext_getElem (by simp)
  intro i h1 h2
  simp

theorem amaxRows_mk (n k : ℕ) (fx : ℕ → ℕ → Ext ℝ) :
    Ext.amaxRows (mkMat n k fx) = (List.range n).map fun i => Ext.amax ((List.range k).map fun l => fx i l) := by
  simp [Ext.amaxRows, mkMat]

theorem amaxCols_mk (k m : ℕ) (hk : 0 < k) (fy : ℕ → ℕ → Ext ℝ) :
    Ext.amaxCols (mkMat k m fy) = (List.range m).map fun j => Ext.amax ((List.range k).map fun l => fy l j) := by
  unfold Ext.amaxCols
  rw [mkMat_headD k m hk]
  apply List.map_congr_left
  intro j hj
  have hj' : j < m := List.mem_range.mp hj
  congr 1
  simp only [mkMat, List.map_map]
  apply List.map_congr_left
  intro l _
  simp [hj']

theorem subCol_mk (n k : ℕ) (fx : ℕ → ℕ → Ext ℝ) (S : ℕ → Ext ℝ) :
    Ext.subCol (mkMat n k fx) ((List.range n).map S) = mkMat n k fun i l => Ext.sub (fx i l) (S i) := by
  unfold Ext.subCol mkMat
  rw [zipWith_range_map]
  simp

theorem addCol_mk (n k : ℕ) (fx : ℕ → ℕ → Ext ℝ) (S : ℕ → Ext ℝ) :
    Ext.addCol (mkMat n k fx) ((List.range n).map S) = mkMat n k fun i l => Ext.add (fx i l) (S i) := by
  unfold Ext.addCol mkMat
  rw [zipWith_range_map]
  simp

theorem subRow_mk (k m : ℕ) (fy : ℕ → ℕ → Ext ℝ) (T : ℕ → Ext ℝ) :
    Ext.subRow (mkMat k m fy) ((List.range m).map T) = mkMat k m fun l j => Ext.sub (fy l j) (T j) := by
  unfold Ext.subRow mkMat
  simp

theorem addRow_mk (k m : ℕ) (fy : ℕ → ℕ → Ext ℝ) (T : ℕ → Ext ℝ) :
    Ext.addRow (mkMat k m fy) ((List.range m).map T) = mkMat k m fun l j => Ext.add (fy l j) (T j) := by
  unfold Ext.addRow mkMat
  simp

theorem expM_mk (n k : ℕ) (f : ℕ → ℕ → Ext ℝ) : Ext.expM (mkMat n k f) = mkMat n k fun i l => Ext.exp (f i l) := by
  simp [Ext.expM, mkMat]

theorem logM_mk (n k : ℕ) (f : ℕ → ℕ → ℝ) : Ext.logM (mkMat n k f) = mkMat n k fun i l => Ext.log (f i l) := by
  simp [Ext.logM, mkMat]

theorem matmul_mk (n k m : ℕ) (hk : 0 < k) (a b : ℕ → ℕ → ℝ) :
    Jnp.matmul (mkMat n k a) (mkMat k m b) = mkMat n m fun i j => ∑ l ∈ Finset.range k, a i l * b l j := by
  unfold Jnp.matmul
  rw [mkMat_headD k m hk]
  unfold mkMat
  rw [List.map_map]
  apply List.map_congr_left
  intro i _
  apply List.map_congr_left
  intro j hj
  have hj' : j < m := List.mem_range.mp hj
  simp only [List.map_map]
  rw [← dot_range]
  congr 1
  apply List.map_congr_left
  intro l _
  simp [hj']

theorem lme_mk (n k m : ℕ) (hk : 0 < k) (X : ℕ → ℕ → ℝ) (hX : ∀ i l, i < n → l < k → 0 < X i l)
    (fy : ℕ → ℕ → Ext ℝ) (hy : ∀ j, j < m → ∃ l, l < k ∧ fy l j ≠ none) :
    Gen.logmatmulexp (mkMat n k fun i l => some (Real.log (X i l))) (mkMat k m fy)
      = mkMat n m fun i j => some (Real.log (∑ l ∈ Finset.range k, X i l * Ext.exp (fy l j))) := by
  have hs : ∀ i, ∃ s, Ext.amax ((List.range k).map fun l => (some (Real.log (X i l)) : Ext ℝ)) = some s := by
    intro i
    apply amax_some
    exact ⟨some (Real.log (X i 0)), List.mem_map.mpr ⟨0, List.mem_range.mpr hk, rfl⟩, by simp⟩
  choose s hs using hs
  have ht : ∀ j, j < m → ∃ t, Ext.amax ((List.range k).map fun l => fy l j) = some t := by
    intro j hj
    obtain ⟨l, hl, hne⟩ := hy j hj
    exact amax_some _ ⟨fy l j, List.mem_map.mpr ⟨l, List.mem_range.mpr hl, rfl⟩, hne⟩
  let t : ℕ → ℝ := fun j => (Ext.amax ((List.range k).map fun l => fy l j)).getD 0
  have ht' : ∀ j, j < m → Ext.amax ((List.range k).map fun l => fy l j) = some (t j) := by
    intro j hj
    obtain ⟨t0, h0⟩ := ht j hj
    simp only [t, h0, Option.getD_some]
  have hrows : Ext.amaxRows (mkMat n k fun i l => (some (Real.log (X i l)) : Ext ℝ)) = (List.range n).map fun i => some (s i) := by
    rw [amaxRows_mk]; simp only [hs]
  have hcols : Ext.amaxCols (mkMat k m fy) = (List.range m).map fun j => some (t j) := by
    rw [amaxCols_mk k m hk]
    apply List.map_congr_left
    intro j hj
    exact ht' j (List.mem_range.mp hj)
  unfold Gen.logmatmulexp
  simp only [hrows, hcols, subCol_mk, subRow_mk, expM_mk, matmul_mk _ _ _ hk, logM_mk, addCol_mk, addRow_mk]
  apply mkMat_congr
  intro i j hi hj
  have hpos : 0 < ∑ l ∈ Finset.range k, X i l * Ext.exp (fy l j) := by
    obtain ⟨l0, hl0, hne⟩ := hy j hj
    apply Finset.sum_pos'
    · intro l hl
      exact mul_nonneg (hX i l hi (Finset.mem_range.mp hl)).le (exp_nonneg _)
    · refine ⟨l0, Finset.mem_range.mpr hl0, mul_pos (hX i l0 hi hl0) ?_⟩
      cases h : fy l0 j with
      | none => exact absurd h hne
      | some a => simp [Ext.exp, Real.exp_pos]
  have hsum : ∑ l ∈ Finset.range k, Ext.exp (Ext.sub (some (Real.log (X i l))) (some (s i))) * Ext.exp (Ext.sub (fy l j) (some (t j)))
      = (∑ l ∈ Finset.range k, X i l * Ext.exp (fy l j)) * (Real.exp (-(s i)) * Real.exp (-(t j))) := by
    rw [Finset.sum_mul]
    apply Finset.sum_congr rfl
    intro l hl
    rw [exp_sub_some, exp_sub_some]
    have : Ext.exp (some (Real.log (X i l))) = X i l := by
      simp only [Ext.exp, RealInst.exp_eq]
      exact Real.exp_log (hX i l hi (Finset.mem_range.mp hl))
    rw [this]; ring
  rw [hsum]
  simp only [Ext.log, Ext.add, RealInst.log_eq]
  congr 1
  rw [Real.log_mul hpos.ne' (by positivity), Real.log_mul (by positivity) (by positivity), Real.log_exp, Real.log_exp]
  ring

/-! ## `linear_to_log_block_diagonal`: block `i` is the log of the `i`-th diagonal block of the unwrapped weight -/

theorem filterMap_false {β : Type} (a : ℕ) (w : List β) :
    (List.zip (List.replicate a false) w).filterMap (fun p => if p.1 then some p.2 else none) = [] := by
  induction a generalizing w with
  | zero => simp
  | succ a ih =>
    cases w with
    | nil => simp
    | cons x w => simp [List.replicate_succ, ih]

theorem filterMap_true {β : Type} (b : ℕ) (w : List β) (hw : w.length = b) :
    (List.zip (List.replicate b true) w).filterMap (fun p => if p.1 then some p.2 else none) = w := by
  induction b generalizing w with
  | zero => simp at hw; simp [hw]
  | succ b ih =>
    cases w with
    | nil => simp at hw
    | cons x w => simp [List.replicate_succ, ih w (by simpa using hw)]

theorem filterMap_mask {β : Type} (a b c : ℕ) (w : List β) (hw : w.length = a + b + c) :
    (List.zip (List.replicate a false ++ List.replicate b true ++ List.replicate c false) w).filterMap
      (fun p => if p.1 then some p.2 else none) = (w.drop a).take b := by
  have hsplit : w = w.take a ++ ((w.drop a).take b ++ (w.drop a).drop b) := by simp
  have h1 : (w.take a).length = a := by simp; omega
  have h2 : ((w.drop a).take b).length = b := by simp; omega
  conv_lhs => rw [hsplit]
  rw [List.append_assoc, List.zip_append (by simp [h1]), List.zip_append (by simp [h2]), List.filterMap_append,
    List.filterMap_append, filterMap_false, filterMap_false, filterMap_true _ _ h2]
  simp

theorem flatten_drop_take {β : Type} (b : ℕ) (L : List (List β)) (hL : ∀ l ∈ L, l.length = b) (j : ℕ)
    (hj : j < L.length) : (L.flatten.drop (j * b)).take b = L[j] := by
  induction L generalizing j with
  | nil => simp at hj
  | cons l L ih =>
    have hl : l.length = b := hL l (by simp)
    cases j with
    | zero => simp [hl]
    | succ j =>
      have : (j + 1) * b = l.length + j * b := by rw [hl]; ring
      rw [List.flatten_cons, this, List.drop_length_add_append]
      simpa using ih (fun l' hl' => hL l' (by simp [hl'])) j (by simpa using hj)

theorem drop_take_eq_map (w : List ℝ) (a b : ℕ) (hw : a + b ≤ w.length) :
    (w.drop a).take b = (List.range b).map fun c => nth w (a + c) := by
  apply List.ext_getElem (by simp; omega)
  intro c h1 h2
  simp only [List.length_map, List.length_range] at h2
  simp [nth, show a + c < w.length by omega]

/-- entry `(u, c)` of the unwrapped weight (`0` outside the matrix) -/
noncomputable def eW (L : BnafLayer ℝ) (u c : ℕ) : ℝ := nth (L.unwrapW[u]?.getD []) c

theorem eW_eq (L : BnafLayer ℝ) (u c : ℕ) (hu : u < L.unwrapW.length) : eW L u c = nth L.unwrapW[u] c := by
  simp [eW, hu]

theorem selectMask_chunk (b0 b1 n : ℕ) (W : List (List ℝ)) (hW : HasShape W (b0 * n) (b1 * n)) (u : ℕ) (hu : u < b0 * n) :
    ((selectMask (blockDiagMask b0 b1 n) W).drop (u * b1)).take b1
      = (List.range b1).map fun c => nth (W[u]?.getD []) ((u / b0) * b1 + c) := by
  have hb0 : 0 < b0 := by
    rcases Nat.eq_zero_or_pos b0 with h | h
    · subst h; simp at hu
    · exact h
  have hn : u / b0 < n := by
    apply Nat.div_lt_of_lt_mul; exact hu
  have hmask := blockDiagMask_shape b0 b1 n
  have huW : u < W.length := by rw [hW.1]; exact hu
  have hWu : W[u].length = b1 * n := hW.2 _ (List.getElem_mem huW)
  have hrowlen : u / b0 * b1 + b1 + (n - 1 - u / b0) * b1 = b1 * n := by
    have : n = u / b0 + 1 + (n - 1 - u / b0) := by omega
    conv_rhs => rw [this]
    ring
  unfold selectMask
  rw [List.flatMap_def]
  set g : List Bool × List ℝ → List ℝ := fun mw => (List.zip mw.1 mw.2).filterMap fun p => if p.1 then some p.2 else none with hg
  have hlen : ((List.zip (blockDiagMask b0 b1 n) W).map g).length = b0 * n := by simp [hmask.1, hW.1]
  have hchunk : ∀ r (hr : r < b0 * n), ((List.zip (blockDiagMask b0 b1 n) W).map g)[r]'(by rw [hlen]; exact hr)
      = ((W[r]'(by rw [hW.1]; exact hr)).drop ((r / b0) * b1)).take b1 := by
    intro r hr
    have hrW : r < W.length := by rw [hW.1]; exact hr
    have hrl : W[r].length = b1 * n := hW.2 _ (List.getElem_mem hrW)
    have hrn : r / b0 < n := Nat.div_lt_of_lt_mul hr
    have hm := blockDiagMask_getElem? b0 b1 n r (by rw [Nat.mul_comm]; exact hr)
    have hm' : (blockDiagMask b0 b1 n)[r]'(by rw [hmask.1]; exact hr) = _ := Option.some.inj ((List.getElem?_eq_getElem _).symm.trans hm)
    simp only [List.getElem_map, List.getElem_zip, hg, hm']
    apply filterMap_mask
    rw [hrl]
    have : n = r / b0 + 1 + (n - 1 - r / b0) := by omega
    conv_lhs => rw [this]
    ring
  have hall : ∀ l ∈ (List.zip (blockDiagMask b0 b1 n) W).map g, l.length = b1 := by
    intro l hl
    obtain ⟨r, hr, rfl⟩ := List.getElem_of_mem hl
    rw [hlen] at hr
    rw [hchunk r hr]
    have hrW : r < W.length := by rw [hW.1]; exact hr
    have hrl : W[r].length = b1 * n := hW.2 _ (List.getElem_mem hrW)
    have hrn : r / b0 < n := Nat.div_lt_of_lt_mul hr
    simp only [List.length_take, List.length_drop, hrl]
    have : (r / b0 + 1) * b1 ≤ n * b1 := Nat.mul_le_mul_right _ hrn
    have h2 : (r / b0 + 1) * b1 = r / b0 * b1 + b1 := by ring
    have h3 : n * b1 = b1 * n := Nat.mul_comm _ _
    omega
  rw [flatten_drop_take b1 _ hall u (by rw [hlen]; exact hu), hchunk u hu]
  rw [drop_take_eq_map _ _ _ (by rw [hWu]; omega)]
  simp [huW]

theorem logJac_block (L : BnafLayer ℝ) (hL : BnafWellShaped L) (i : ℕ) (hi : i < L.n) :
    L.logJac[i]? = some (mkMat L.b0 L.b1 fun r c => some (Real.log (eW L (i * L.b0 + r) (i * L.b1 + c)))) := by
  have hsh := unwrapW_shape L hL
  unfold BnafLayer.logJac reshape3 mkMat
  simp only [List.map_map, List.getElem?_map, List.getElem?_range hi, Option.map_some, Function.comp]
  congr 1
  apply List.map_congr_left
  intro r hr
  have hr' : r < L.b0 := List.mem_range.mp hr
  have hu : i * L.b0 + r < L.b0 * L.n := by
    calc i * L.b0 + r < (i + 1) * L.b0 := by rw [Nat.succ_mul]; omega
      _ ≤ L.n * L.b0 := Nat.mul_le_mul_right _ hi
      _ = L.b0 * L.n := Nat.mul_comm _ _
  have hdiv : (i * L.b0 + r) / L.b0 = i := by
    rw [Nat.mul_comm, Nat.mul_add_div (by omega), Nat.div_eq_of_lt hr']; simp
  show List.map Ext.log (List.take L.b1 (List.drop ((i * L.b0 + r) * L.b1) (selectMask (blockDiagMask L.b0 L.b1 L.n) L.unwrapW))) = _
  rw [selectMask_chunk L.b0 L.b1 L.n L.unwrapW hsh _ hu, hdiv]
  simp [eW, Ext.log]

theorem logJac_length (L : BnafLayer ℝ) : L.logJac.length = L.n := by
  simp [BnafLayer.logJac, reshape3]

theorem actLogJac_length (n bd : ℕ) (lag : List ℝ) : (actLogJac n bd lag).length = n := by
  simp [actLogJac, reshapeRows_length]

theorem actLogJac_block (n bd : ℕ) (lag : List ℝ) (hlen : lag.length = n * bd) (i : ℕ) (hi : i < n) :
    (actLogJac n bd lag)[i]? = some (mkMat bd bd fun r c => if r = c then some (nth lag (i * bd + r)) else none) := by
  unfold actLogJac mkMat
  rw [List.getElem?_map, reshapeRows_getElem? n bd lag hlen i hi]
  simp only [Option.map_some]
  congr 1
  apply List.map_congr_left
  intro r hr
  have hr' : r < bd := List.mem_range.mp hr
  apply List.map_congr_left
  intro c _
  split
  · have : i * bd + r < lag.length := by
      rw [hlen]
      calc i * bd + r < (i + 1) * bd := by rw [Nat.succ_mul]; omega
        _ ≤ n * bd := Nat.mul_le_mul_right _ hi
    simp [nth, List.getElem?_drop, hr', this]
  · rfl

/-! ## curves through the layers, with the derivative of block `i` named -/

/-- a curve `t ↦ v t` of unit vectors (`n` blocks of size `bq`): blocks `< i` do not move, unit `c` of block `i` has
derivative `D c` at `t0` -/
structure CurveD (bq i m : ℕ) (v : ℝ → List ℝ) (t0 : ℝ) (D : ℕ → ℝ) : Prop where
  len : ∀ t, (v t).length = m
  const : ∀ c, c < m → c / bq < i → ∀ t, nth (v t) c = nth (v t0) c
  der : ∀ c, c < bq → HasDerivAt (fun t => nth (v t) (i * bq + c)) (D c) t0

theorem block_lt (b n i c : ℕ) (hi : i < n) (hc : c < b) : i * b + c < b * n := by
  calc i * b + c < (i + 1) * b := by rw [Nat.succ_mul]; omega
    _ ≤ n * b := Nat.mul_le_mul_right _ hi
    _ = b * n := Nat.mul_comm _ _

theorem block_div (b i c : ℕ) (hc : c < b) : (i * b + c) / b = i := by
  rw [Nat.mul_comm, Nat.mul_add_div (by omega), Nat.div_eq_of_lt hc]; simp

/-- a sum over all columns of a function supported on block `i` is the sum over that block -/
theorem sum_block (b n i : ℕ) (hi : i < n) (g : ℕ → ℝ) (hg : ∀ c, c < b * n → c / b ≠ i → g c = 0) :
    ∑ c ∈ Finset.range (b * n), g c = ∑ c ∈ Finset.range b, g (i * b + c) := by
  rcases Nat.eq_zero_or_pos b with hb | hb
  · subst hb; simp
  have h1 : i * b ≤ (i + 1) * b := Nat.mul_le_mul_right _ (Nat.le_succ i)
  have h2 : (i + 1) * b ≤ b * n := by rw [Nat.mul_comm b n]; exact Nat.mul_le_mul_right _ hi
  rw [← Finset.sum_range_add_sum_Ico g (h1.trans h2), ← Finset.sum_Ico_consecutive g h1 h2]
  have z1 : ∑ c ∈ Finset.range (i * b), g c = 0 := by
    apply Finset.sum_eq_zero
    intro c hc
    have hc' : c < i * b := Finset.mem_range.mp hc
    apply hg c (by omega)
    have : c / b < i := Nat.div_lt_of_lt_mul (by rw [Nat.mul_comm]; exact hc')
    omega
  have z3 : ∑ c ∈ Finset.Ico ((i + 1) * b) (b * n), g c = 0 := by
    apply Finset.sum_eq_zero
    intro c hc
    obtain ⟨hc1, hc2⟩ := Finset.mem_Ico.mp hc
    apply hg c hc2
    have : i + 1 ≤ c / b := (Nat.le_div_iff_mul_le hb).mpr hc1
    omega
  rw [z1, z3, zero_add, add_zero, Finset.sum_Ico_eq_sum_range]
  have : (i + 1) * b - i * b = b := by rw [Nat.succ_mul]; omega
  rw [this]

theorem curveD_layer (L : BnafLayer ℝ) (hL : BnafWellShaped L) (i : ℕ) (hi : i < L.n)
    (v : ℝ → List ℝ) (t0 : ℝ) (D : ℕ → ℝ) (hv : CurveD L.b1 i (L.b1 * L.n) v t0 D) :
    CurveD L.b0 i (L.b0 * L.n) (fun t => L.apply (v t)) t0
      (fun r => ∑ c ∈ Finset.range L.b1, eW L (i * L.b0 + r) (i * L.b1 + c) * D c) := by
  have hsh := unwrapW_shape L hL
  refine ⟨fun t => bnafApply_length L hL _, ?_, ?_⟩
  · intro u hu hblk t
    have hA : AgreeOn (fun c => c / L.b1 ≤ u / L.b0) (v t) (v t0) := by
      refine ⟨by rw [hv.len, hv.len], ?_⟩
      intro c h h' hc
      have hcm : c < L.b1 * L.n := by rw [hv.len] at h; exact h
      have := hv.const c hcm (by omega) t
      rwa [nth_of_lt h, nth_of_lt h'] at this
    have := (linearApply_agree (sees_bnaf L (u / L.b0)) L.bias hA)
    have h2 := this.2 u (by rw [← BnafLayer.apply, bnafApply_length L hL]; exact hu)
      (by rw [← BnafLayer.apply, bnafApply_length L hL]; exact hu) (le_refl _)
    rw [nth_of_lt (by rw [bnafApply_length L hL]; exact hu), nth_of_lt (by rw [bnafApply_length L hL]; exact hu)]
    exact h2
  · intro r hr
    set u := i * L.b0 + r with hu_def
    have hu : u < L.b0 * L.n := block_lt L.b0 L.n i r hi hr
    have hblk : u / L.b0 = i := block_div L.b0 i r hr
    have huW : u < L.unwrapW.length := by rw [hsh.1]; exact hu
    have hub : u < L.bias.length := by rw [hL.2.1]; exact hu
    have hrow : L.unwrapW[u].length = L.b1 * L.n := hsh.2 _ (List.getElem_mem huW)
    have hfun : (fun t => nth (L.apply (v t)) u) =
        fun t => (∑ c ∈ Finset.range (L.b1 * L.n), nth L.unwrapW[u] c * nth (v t) c) + L.bias[u] := by
      funext t
      rw [BnafLayer.apply, nth_linearApply _ _ _ u huW hub, hrow]
    let G : ℕ → ℝ := fun c =>
      if c / L.b1 = i then nth L.unwrapW[u] c * D (c - i * L.b1) else 0
    have hterm : ∀ c ∈ Finset.range (L.b1 * L.n),
        HasDerivAt (fun t => nth L.unwrapW[u] c * nth (v t) c) (G c) t0 := by
      intro c hc
      have hcm : c < L.b1 * L.n := Finset.mem_range.mp hc
      have hcW : c < L.unwrapW[u].length := by rw [hrow]; exact hcm
      have hb1 : 0 < L.b1 := by
        rcases Nat.eq_zero_or_pos L.b1 with h | h
        · rw [h] at hcm; simp at hcm
        · exact h
      rcases lt_trichotomy (c / L.b1) i with hlt | heq | hgt
      · have hconst : (fun t => nth L.unwrapW[u] c * nth (v t) c) = fun _ => nth L.unwrapW[u] c * nth (v t0) c := by
          funext t; rw [hv.const c hcm hlt t]
        have hG : G c = 0 := by simp only [G]; rw [if_neg (by omega)]
        rw [hconst, hG]; exact hasDerivAt_const _ _
      · have hG : G c = nth L.unwrapW[u] c * D (c - i * L.b1) := by simp only [G]; rw [if_pos heq]
        rw [hG]
        have hc1 : i * L.b1 ≤ c := by
          rw [← heq]; exact Nat.div_mul_le_self c L.b1
        have hc2 : c - i * L.b1 < L.b1 := by
          have : c < (c / L.b1 + 1) * L.b1 := by
            rw [Nat.mul_comm]; exact Nat.lt_mul_div_succ c hb1
          rw [heq, Nat.succ_mul] at this; omega
        have hd := hv.der (c - i * L.b1) hc2
        have e : i * L.b1 + (c - i * L.b1) = c := by omega
        rw [e] at hd
        exact hd.const_mul _
      · have hz : nth L.unwrapW[u] c = 0 := by
          rw [nth_of_lt hcW]
          apply (unwrapW_entry L u c huW hcW).1
          have hnot : ¬ entry (blockTrilMask L.b0 L.b1 L.n 0) u c = true := by
            rw [entry_blockTrilMask L.b0 L.b1 L.n 0 u c hu hcm]
            have : u / L.b0 < c / L.b1 := by omega
            simp only [sub_zero, not_le]; exact_mod_cast this
          simpa using hnot
        have hconst : (fun t => nth L.unwrapW[u] c * nth (v t) c) = fun _ => (0 : ℝ) := by
          funext t; rw [hz, zero_mul]
        have hG : G c = 0 := by simp only [G]; rw [if_neg (by omega)]
        rw [hconst, hG]; exact hasDerivAt_const _ _
    have hsum : HasDerivAt (fun t => (∑ c ∈ Finset.range (L.b1 * L.n), nth L.unwrapW[u] c * nth (v t) c) + L.bias[u])
        (∑ c ∈ Finset.range (L.b1 * L.n), G c) t0 := (HasDerivAt.fun_sum hterm).add_const _
    have hre : ∑ c ∈ Finset.range (L.b1 * L.n), G c
        = ∑ c ∈ Finset.range L.b1, eW L u (i * L.b1 + c) * D c := by
      rw [sum_block L.b1 L.n i hi G (by intro c _ hne; simp only [G]; rw [if_neg hne])]
      apply Finset.sum_congr rfl
      intro c hc
      have hc' : c < L.b1 := Finset.mem_range.mp hc
      simp only [G]
      rw [if_pos (block_div L.b1 i c hc'), eW_eq L u _ huW]
      congr 2
      omega
    rw [hfun, ← hre]
    exact hsum

theorem curveD_map (act : ℝ → ℝ) (hact : ∀ z, DifferentiableAt ℝ act z) (bq i m : ℕ) (him : (i + 1) * bq ≤ m)
    (v : ℝ → List ℝ) (t0 : ℝ) (D : ℕ → ℝ) (hv : CurveD bq i m v t0 D) :
    CurveD bq i m (fun t => (v t).map act) t0 (fun c => deriv act (nth (v t0) (i * bq + c)) * D c) := by
  have hnth : ∀ c, c < m → ∀ t, nth ((v t).map act) c = act (nth (v t) c) := by
    intro c hc t
    rw [nth_of_lt (by simp [hv.len, hc]), nth_of_lt (by rw [hv.len]; exact hc)]; simp
  refine ⟨fun t => by simp [hv.len], ?_, ?_⟩
  · intro c hc hblk t
    rw [hnth c hc t, hnth c hc t0, hv.const c hc hblk t]
  · intro c hc
    have hcm : i * bq + c < m := by rw [Nat.succ_mul] at him; omega
    have hfun : (fun t => nth ((v t).map act) (i * bq + c)) = fun t => act (nth (v t) (i * bq + c)) := by
      funext t; exact hnth _ hcm t
    rw [hfun]
    exact (hact (nth (v t0) (i * bq + c))).hasDerivAt.comp t0 (hv.der c hc)

theorem curveD_add (cterm : List ℝ) (bq i m : ℕ) (him : (i + 1) * bq ≤ m) (hc : cterm.length = m)
    (v : ℝ → List ℝ) (t0 : ℝ) (D : ℕ → ℝ) (hv : CurveD bq i m v t0 D) :
    CurveD bq i m (fun t => List.zipWith (· + ·) (v t) cterm) t0 D := by
  have hnth : ∀ c, c < m → ∀ t, nth (List.zipWith (· + ·) (v t) cterm) c = nth (v t) c + nth cterm c := by
    intro c hcm t
    rw [nth_of_lt (by simp [hv.len, hc, hcm]), nth_of_lt (by rw [hv.len]; exact hcm), nth_of_lt (by rw [hc]; exact hcm)]
    simp
  refine ⟨fun t => by simp [hv.len, hc], ?_, ?_⟩
  · intro c hcm hblk t
    rw [hnth c hcm t, hnth c hcm t0, hv.const c hcm hblk t]
  · intro c hcq
    have hcm : i * bq + c < m := by rw [Nat.succ_mul] at him; omega
    have hfun : (fun t => nth (List.zipWith (· + ·) (v t) cterm) (i * bq + c)) = fun t => nth (v t) (i * bq + c) + nth cterm (i * bq + c) := by
      funext t; exact hnth _ hcm t
    rw [hfun]
    exact (hv.der c hcq).add_const _

/-! ## the forward pass of the log-det model is the modelled `transform` -/

theorem bnafFwdLds_fst (A : ℝ → ℝ × ℝ) (act : ℝ → ℝ) (hA : ∀ z, (A z).1 = act z) (n bd : ℕ) :
    ∀ (Ls : List (BnafLayer ℝ)) (first : Bool) (condTerm : Option (List ℝ)) (x : List ℝ),
      (bnafFwdLds A n bd first condTerm Ls x).1 = bnafForward act first condTerm Ls x := by
  intro Ls
  induction Ls with
  | nil => intro first condTerm x; simp [bnafFwdLds, bnafForward]
  | cons L rest ih =>
    intro first condTerm x
    cases rest with
    | nil => simp [bnafFwdLds, bnafForward]
    | cons L' Ls' =>
      simp only [bnafFwdLds, bnafForward]
      rw [ih]
      simp only [hA]
      rfl

/-! ## `combineLds` -/

theorem combineLds_singleton (b : Blocks ℝ) : combineLds [b] = b := by simp [combineLds]

theorem combineLds_cons_cons (a b : Blocks ℝ) (rest : List (Blocks ℝ)) (hne : rest ≠ []) :
    combineLds (a :: b :: rest) = logmatmulexp3 (logmatmulexp3 (combineLds rest) b) a := by
  unfold combineLds
  obtain ⟨last, init, hrev⟩ : ∃ last init, rest.reverse = last :: init := by
    cases h : rest.reverse with
    | nil => exact absurd (List.reverse_eq_nil_iff.mp h) hne
    | cons x xs => exact ⟨x, xs, rfl⟩
  have : (a :: b :: rest).reverse = last :: (init ++ [b, a]) := by
    simp [hrev]
  rw [this, hrev]
  simp [List.foldl_append]

theorem logmatmulexp3_block (x y : Blocks ℝ) (i : ℕ) (xi yi : List (List (Ext ℝ))) (hx : x[i]? = some xi) (hy : y[i]? = some yi) :
    (logmatmulexp3 x y)[i]? = some (Gen.logmatmulexp xi yi) :=
  NetLawful.getElem?_zipWith' _ _ _ i _ _ hx hy

theorem logmatmulexp3_length (x y : Blocks ℝ) : (logmatmulexp3 x y).length = min x.length y.length := by
  simp [logmatmulexp3]

theorem CurveD.congr {bq i m : ℕ} {v : ℝ → List ℝ} {t0 : ℝ} {D D' : ℕ → ℝ} (h : CurveD bq i m v t0 D)
    (hD : ∀ c, c < bq → D c = D' c) : CurveD bq i m v t0 D' :=
  ⟨h.len, h.const, fun c hc => by rw [← hD c hc]; exact h.der c hc⟩

/-- the diagonal blocks of the unwrapped weight are strictly positive -/
theorem eW_pos (L : BnafLayer ℝ) (hL : BnafWellShaped L) (i r c : ℕ) (hi : i < L.n) (hr : r < L.b0) (hc : c < L.b1) :
    0 < eW L (i * L.b0 + r) (i * L.b1 + c) := by
  have hsh := unwrapW_shape L hL
  have hu : i * L.b0 + r < L.b0 * L.n := block_lt L.b0 L.n i r hi hr
  have hcm : i * L.b1 + c < L.b1 * L.n := block_lt L.b1 L.n i c hi hc
  have huW : i * L.b0 + r < L.unwrapW.length := by rw [hsh.1]; exact hu
  have hcW : i * L.b1 + c < L.unwrapW[i * L.b0 + r].length := by rw [hsh.2 _ (List.getElem_mem huW)]; exact hcm
  rw [eW_eq L _ _ huW, nth_of_lt hcW]
  apply (unwrapW_entry L _ _ huW hcW).2
  rw [entry_blockDiagMask L.b0 L.b1 L.n _ _ hu hcm, block_div L.b0 i r hr, block_div L.b1 i c hc]
  simp

theorem fwdLds_ne_nil (A : ℝ → ℝ × ℝ) (n bd : ℕ) (L : BnafLayer ℝ) (Ls : List (BnafLayer ℝ)) (first : Bool)
    (ct : Option (List ℝ)) (x : List ℝ) : (bnafFwdLds A n bd first ct (L :: Ls) x).2 ≠ [] := by
  cases Ls <;> simp [bnafFwdLds]

/-- one step of the chain in log space: multiply by the activation's diagonal, then by the layer's diagonal block -/
theorem lme_step (bout bd b1 : ℕ) (hbd : 0 < bd) (R : ℕ → ℕ → ℝ) (hR : ∀ r l, r < bout → l < bd → 0 < R r l)
    (a : ℕ → ℝ) (ha : ∀ l, l < bd → 0 < a l) (W : ℕ → ℕ → ℝ) (hW : ∀ l c, l < bd → c < b1 → 0 < W l c) :
    Gen.logmatmulexp
      (Gen.logmatmulexp (mkMat bout bd fun r l => some (Real.log (R r l)))
        (mkMat bd bd fun r c => if r = c then some (Real.log (a r)) else none))
      (mkMat bd b1 fun l c => some (Real.log (W l c)))
    = mkMat bout b1 fun r c => some (Real.log (∑ l ∈ Finset.range bd, R r l * a l * W l c)) := by
  rw [lme_mk bout bd bd hbd R hR _ (fun j hj => ⟨j, hj, by simp⟩)]
  have e1 : (mkMat bout bd fun i j => (some (Real.log (∑ l ∈ Finset.range bd,
        R i l * Ext.exp (if l = j then some (Real.log (a l)) else none))) : Ext ℝ))
      = mkMat bout bd fun r l => some (Real.log (R r l * a l)) := by
    apply mkMat_congr
    intro r c hr hc
    congr 2
    rw [Finset.sum_eq_single c]
    · simp only [if_true, Ext.exp, RealInst.exp_eq, Real.exp_log (ha c hc)]
    · intro l _ hne; simp [hne, Ext.exp]
    · intro hc'; exact absurd (Finset.mem_range.mpr hc) hc'
  rw [e1, lme_mk bout bd b1 hbd (fun r l => R r l * a l) (fun r l hr hl => mul_pos (hR r l hr hl) (ha l hl)) _
    (fun j hj => ⟨0, hbd, by simp⟩)]
  apply mkMat_congr
  intro r c hr hc
  congr 2
  apply Finset.sum_congr rfl
  intro l hl
  simp only [Ext.exp, RealInst.exp_eq, Real.exp_log (hW l c (Finset.mem_range.mp hl) hc)]

/-- the pre-activation of the first layer of `L :: rest`: `L.apply x`, plus `cond_linear(condition)` for the first layer -/
noncomputable def preAct (L : BnafLayer ℝ) (first : Bool) (condTerm : Option (List ℝ)) (x : List ℝ) : List ℝ :=
  match first, condTerm with
  | true, some c => List.zipWith (· + ·) (L.apply x) c
  | _, _ => L.apply x

theorem fwdLds_cons_cons (A : ℝ → ℝ × ℝ) (n bd : ℕ) (L L' : BnafLayer ℝ) (Ls : List (BnafLayer ℝ)) (first : Bool)
    (ct : Option (List ℝ)) (x : List ℝ) :
    (bnafFwdLds A n bd first ct (L :: L' :: Ls) x).2
      = L.logJac :: actLogJac n bd ((preAct L first ct x).map fun z => (A z).2) ::
          (bnafFwdLds A n bd false ct (L' :: Ls) ((preAct L first ct x).map fun z => (A z).1)).2 := by
  cases first <;> cases ct <;> simp [bnafFwdLds, preAct]

theorem forward_cons_cons (act : ℝ → ℝ) (L L' : BnafLayer ℝ) (Ls : List (BnafLayer ℝ)) (first : Bool)
    (ct : Option (List ℝ)) (x : List ℝ) :
    bnafForward act first ct (L :: L' :: Ls) x = bnafForward act false ct (L' :: Ls) ((preAct L first ct x).map act) := by
  cases first <;> cases ct <;> simp [bnafForward, preAct]

theorem bnafChain_ld {bin bout : ℕ} {Ls : List (BnafLayer ℝ)} (h : BnafChain bin Ls bout) (A : ℝ → ℝ × ℝ) (act : ℝ → ℝ)
    (hA1 : ∀ z, (A z).1 = act z) (hA2 : ∀ z, (A z).2 = Real.log (deriv act z))
    (hact : ∀ z, DifferentiableAt ℝ act z ∧ 0 < deriv act z) (n bd i : ℕ) (hi : i < n) :
    (∀ L ∈ Ls, BnafWellShaped L ∧ L.n = n ∧ 0 < L.b1 ∧ 0 < L.b0) →
    (∀ L ∈ Ls.dropLast, L.b0 = bd) →
    ∀ (first : Bool) (condTerm : Option (List ℝ)),
      (first = true → ∀ L ∈ Ls.head?, ∀ c ∈ condTerm, c.length = L.b0 * n) →
      ∀ (v : ℝ → List ℝ) (t0 : ℝ) (D : ℕ → ℝ), CurveD bin i (bin * n) v t0 D →
        ∃ R : ℕ → ℕ → ℝ, (∀ r c, r < bout → c < bin → 0 < R r c) ∧
          (combineLds (bnafFwdLds A n bd first condTerm Ls (v t0)).2)[i]? =
            some (mkMat bout bin fun r c => some (Real.log (R r c))) ∧
          CurveD bout i (bout * n) (fun t => bnafForward act first condTerm Ls (v t)) t0
            (fun r => ∑ c ∈ Finset.range bin, R r c * D c) := by
  induction h with
  | last L =>
    intro hall _ first condTerm _ v t0 D hv
    obtain ⟨hL, hn, hb1, hb0⟩ := hall L (by simp)
    have hiL : i < L.n := by rw [hn]; exact hi
    refine ⟨fun r c => eW L (i * L.b0 + r) (i * L.b1 + c), fun r c hr hc => eW_pos L hL i r c hiL hr hc, ?_, ?_⟩
    · simp only [bnafFwdLds, combineLds_singleton]
      exact logJac_block L hL i hiL
    · have := curveD_layer L hL i hiL v t0 D (by rw [hn]; exact hv)
      rw [hn] at this
      simpa only [bnafForward] using this
  | cons L rest bout hrest ih =>
    intro hall hdl first condTerm hcond v t0 D hv
    obtain ⟨hL, hn, hb1, hb0⟩ := hall L (by simp)
    obtain ⟨L', Ls', rfl⟩ := List.exists_cons_of_ne_nil hrest.ne_nil
    have hiL : i < L.n := by rw [hn]; exact hi
    have hbd : L.b0 = bd := hdl L (by simp [List.dropLast])
    have hbdpos : 0 < bd := by rw [← hbd]; exact hb0
    have him : (i + 1) * L.b0 ≤ L.b0 * n := by rw [Nat.mul_comm L.b0 n]; exact Nat.mul_le_mul_right _ hi
    -- the curve after the first layer (+ condition) and the activation
    have h1 := curveD_layer L hL i hiL v t0 D (by rw [hn]; exact hv)
    rw [hn] at h1
    have h1' : CurveD L.b0 i (L.b0 * n) (fun t => preAct L first condTerm (v t)) t0
        (fun r => ∑ c ∈ Finset.range L.b1, eW L (i * L.b0 + r) (i * L.b1 + c) * D c) := by
      cases first with
      | false => simpa only [preAct] using h1
      | true =>
        cases condTerm with
        | none => simpa only [preAct] using h1
        | some c =>
          have hc : c.length = L.b0 * n := hcond rfl L (by simp) c (by simp)
          simpa only [preAct] using curveD_add c L.b0 i (L.b0 * n) him hc _ t0 _ h1
    have h2 := curveD_map act (fun z => (hact z).1) L.b0 i (L.b0 * n) him _ t0 _ h1'
    have hall' : ∀ M ∈ L' :: Ls', BnafWellShaped M ∧ M.n = n ∧ 0 < M.b1 ∧ 0 < M.b0 :=
      fun M hM => hall M (List.mem_cons_of_mem _ hM)
    have hdl' : ∀ M ∈ (L' :: Ls').dropLast, M.b0 = bd := by
      intro M hM
      apply hdl M
      rw [List.dropLast_cons_of_ne_nil (by simp)]
      exact List.mem_cons_of_mem _ hM
    obtain ⟨R, hRpos, hacc, hcurve⟩ := ih hall' hdl' false condTerm (by intro hf; cases hf) _ t0 _ h2
    -- the activation's derivative at the pre-activations of block `i`
    set hpre := preAct L first condTerm (v t0) with hpre_def
    have hprelen : hpre.length = n * bd := by rw [← hbd, Nat.mul_comm]; exact h1'.len t0
    let a : ℕ → ℝ := fun l => deriv act (nth hpre (i * bd + l))
    have hapos : ∀ l, l < bd → 0 < a l := fun l _ => (hact _).2
    refine ⟨fun r c => ∑ l ∈ Finset.range bd, R r l * a l * eW L (i * L.b0 + l) (i * L.b1 + c), ?_, ?_, ?_⟩
    · intro r c hr hc
      apply Finset.sum_pos
      · intro l hl
        have hl' : l < bd := Finset.mem_range.mp hl
        exact mul_pos (mul_pos (hRpos r l hr (by rw [hbd]; exact hl')) (hapos l hl'))
          (eW_pos L hL i l c hiL (by rw [hbd]; exact hl') hc)
      · exact ⟨0, Finset.mem_range.mpr hbdpos⟩
    · rw [fwdLds_cons_cons, combineLds_cons_cons _ _ _ (fwdLds_ne_nil _ _ _ _ _ _ _ _)]
      have hmap1 : (hpre.map fun z => (A z).1) = hpre.map act := by
        apply List.map_congr_left; intro z _; exact hA1 z
      rw [← hpre_def, hmap1]
      have hA : (actLogJac n bd (hpre.map fun z => (A z).2))[i]?
          = some (mkMat bd bd fun r c => if r = c then some (Real.log (a r)) else none) := by
        rw [actLogJac_block n bd _ (by simp [hprelen]) i hi]
        congr 1
        apply mkMat_congr
        intro r c hr _
        have : i * bd + r < hpre.length := by rw [hprelen, Nat.mul_comm n bd]; exact block_lt bd n i r hi hr
        simp only [a, nth, List.getElem?_map, List.getElem?_eq_getElem this, Option.map_some, Option.getD_some, hA2]
      have hJ := logJac_block L hL i hiL
      rw [hbd] at hacc hJ
      rw [logmatmulexp3_block _ _ i _ _ (logmatmulexp3_block _ _ i _ _ hacc hA) hJ]
      congr 1
      have := lme_step bout bd L.b1 hbdpos R (fun r l hr hl => hRpos r l hr (by rw [hbd]; exact hl)) a hapos
        (fun l c => eW L (i * bd + l) (i * L.b1 + c))
        (fun l c hl hc => by rw [← hbd]; exact eW_pos L hL i l c hiL (by rw [hbd]; exact hl) hc)
      rw [this, hbd]
    · rw [show (fun t => bnafForward act first condTerm (L :: L' :: Ls') (v t))
          = fun t => bnafForward act false condTerm (L' :: Ls') ((preAct L first condTerm (v t)).map act) from by
        funext t; exact forward_cons_cons act L L' Ls' first condTerm (v t)]
      apply hcurve.congr
      intro r _
      rw [hbd]
      simp only [a]
      -- Σ_l R r l * (a l * Σ_c W l c * D c) = Σ_c (Σ_l R r l * a l * W l c) * D c
      simp only [Finset.mul_sum, Finset.sum_mul]
      rw [Finset.sum_comm]
      apply Finset.sum_congr rfl
      intro c _
      apply Finset.sum_congr rfl
      intro l _
      ring

/-! ## shape bookkeeping of the whole array -/

theorem fwdLds_all_length (A : ℝ → ℝ × ℝ) (n bd : ℕ) :
    ∀ (Ls : List (BnafLayer ℝ)), (∀ L ∈ Ls, L.n = n) → ∀ (first : Bool) (ct : Option (List ℝ)) (x : List ℝ),
      ∀ b ∈ (bnafFwdLds A n bd first ct Ls x).2, b.length = n := by
  intro Ls
  induction Ls with
  | nil => intro _ first ct x b hb; simp [bnafFwdLds] at hb
  | cons L rest ih =>
    intro hall first ct x b hb
    cases rest with
    | nil =>
      simp only [bnafFwdLds, List.mem_singleton] at hb
      rw [hb, logJac_length]; exact hall L (by simp)
    | cons L' Ls' =>
      rw [fwdLds_cons_cons] at hb
      simp only [List.mem_cons] at hb
      rcases hb with rfl | rfl | hb
      · rw [logJac_length]; exact hall L (by simp)
      · exact actLogJac_length _ _ _
      · exact ih (fun M hM => hall M (List.mem_cons_of_mem _ hM)) false ct _ b hb

theorem foldl_lme3_length (n : ℕ) : ∀ (rest : List (Blocks ℝ)) (acc : Blocks ℝ), acc.length = n →
    (∀ b ∈ rest, b.length = n) → (rest.foldl logmatmulexp3 acc).length = n := by
  intro rest
  induction rest with
  | nil => intro acc h _; simpa using h
  | cons b rest ih =>
    intro acc h hall
    rw [List.foldl_cons]
    apply ih
    · rw [logmatmulexp3_length, h, hall b (by simp)]; simp
    · intro b' hb'; exact hall b' (by simp [hb'])

theorem combineLds_length (n : ℕ) (lds : List (Blocks ℝ)) (hne : lds ≠ []) (hall : ∀ b ∈ lds, b.length = n) :
    (combineLds lds).length = n := by
  unfold combineLds
  cases h : lds.reverse with
  | nil => exact absurd (List.reverse_eq_nil_iff.mp h) hne
  | cons last rest =>
    simp only
    have hmem : ∀ b ∈ last :: rest, b.length = n := by
      intro b hb; rw [← h] at hb; exact hall b (List.mem_reverse.mp hb)
    exact foldl_lme3_length n rest last (hmem last (by simp)) (fun b hb => hmem b (by simp [hb]))

theorem foldl_add_some (l : List ℝ) (acc : ℝ) : (l.map some).foldl Ext.add (some acc) = some (acc + l.sum) := by
  induction l generalizing acc with
  | nil => simp
  | cons a l ih =>
    simp only [List.map_cons, List.foldl_cons, Ext.add, List.sum_cons]
    rw [ih]; ring_nf

/-- the final `.sum()` of an `(n, 1, 1)` array of finite entries -/
theorem sumAll_blocks (n : ℕ) (acc : Blocks ℝ) (g : ℕ → ℝ) (hlen : acc.length = n)
    (hblk : ∀ i, i < n → acc[i]? = some [[some (g i)]]) : sumAll acc = some (∑ i ∈ Finset.range n, g i) := by
  have hacc : acc = (List.range n).map fun i => [[(some (g i) : Ext ℝ)]] := by
    apply List.ext_getElem? 
    intro i
    by_cases hi : i < n
    · rw [hblk i hi]; simp [hi]
    · rw [List.getElem?_eq_none (by omega), List.getElem?_eq_none (by simp; omega)]
  have hflat : acc.flatten.flatten = ((List.range n).map g).map some := by
    rw [hacc]
    clear hacc hblk hlen
    induction n with
    | zero => simp
    | succ n ih => simp [List.range_succ, ih]
  unfold sumAll
  rw [hflat, foldl_add_some, zero_add, NetLogDet.list_sum_range]
  simp only [List.length_map, List.length_range]
  congr 1
  apply Finset.sum_congr rfl
  intro i hi
  simp [nth, Finset.mem_range.mp hi]

/-! ## the shapes `BlockAutoregressiveNetwork.__init__` builds -/

theorem bnafBlockShapes_pos' (depth bd : Nat) (hbd : 0 < bd) : ∀ p ∈ bnafBlockShapes depth bd, 0 < p.1 := by
  intro p hp
  unfold bnafBlockShapes at hp
  split at hp
  · simp only [List.mem_singleton] at hp; subst hp; simp
  · simp only [List.mem_cons, List.mem_append, List.mem_replicate, List.not_mem_nil, or_false] at hp
    rcases hp with rfl | ⟨_, rfl⟩ | rfl <;> simp [hbd]

theorem bnafBlockShapes_dropLast (depth bd : Nat) : ∀ p ∈ (bnafBlockShapes depth bd).dropLast, p.1 = bd := by
  intro p hp
  unfold bnafBlockShapes at hp
  split at hp
  · simp at hp
  · rw [← List.cons_append, List.dropLast_concat] at hp
    simp only [List.mem_cons, List.mem_replicate] at hp
    rcases hp with rfl | ⟨_, rfl⟩ <;> rfl

theorem layers_dropLast (depth bd : ℕ) (Ls : List (BnafLayer ℝ))
    (h : Ls.map (fun L => (L.b0, L.b1)) = bnafBlockShapes depth bd) : ∀ L ∈ Ls.dropLast, L.b0 = bd := by
  intro L hL
  have : (L.b0, L.b1) ∈ (bnafBlockShapes depth bd).dropLast := by
    rw [← h, ← List.map_dropLast]
    exact List.mem_map.mpr ⟨L, hL, rfl⟩
  exact bnafBlockShapes_dropLast depth bd _ this

/-- what the theorems ask of the activation `A = activation.transform_and_log_det` (on a scalar): its first component is
the scalar map `act`, `act` is differentiable with positive derivative everywhere, and the reported log-det is
`log (act' z)` -/
structure ActOK (A : ℝ → ℝ × ℝ) (act : ℝ → ℝ) : Prop where
  fst : ∀ z, (A z).1 = act z
  diff : ∀ z, DifferentiableAt ℝ act z ∧ 0 < deriv act z
  ld : ∀ z, (A z).2 = Real.log (deriv act z)

/-- block `i` of the combined log-space array is `[[log ∂yᵢ/∂xᵢ]]` -/
theorem bnaf_block (A : ℝ → ℝ × ℝ) (act : ℝ → ℝ) (hA : ActOK A act)
    {dim depth bd : ℕ} {Ls : List (BnafLayer ℝ)} {condLinear : Option (List (List ℝ))}
    (hok : NetLawful.BnafOK dim depth bd Ls condLinear) (cond : List ℝ) (x : List ℝ) (hx : x.length = dim)
    (i : ℕ) (hi : i < dim) :
    ∃ d : ℝ, 0 < d ∧
      (combineLds (bnafFwdLds A dim bd true (condLinear.map fun C => C.map fun row => Jnp.dot row cond) Ls x).2)[i]?
        = some [[some (Real.log d)]] ∧
      HasDerivAt (fun t => nth (bnafTransform act Ls condLinear (x.set i t) cond) i) d (nth x i) := by
  have hchain := bnafChain_of_shapes depth bd Ls hok.hshapes
  have hall : ∀ L ∈ Ls, BnafWellShaped L ∧ L.n = dim ∧ 0 < L.b1 ∧ 0 < L.b0 := by
    intro L hL
    have hmem : (L.b0, L.b1) ∈ bnafBlockShapes depth bd := by
      rw [← hok.hshapes]; exact List.mem_map.mpr ⟨L, hL, rfl⟩
    exact ⟨(hok.hws L hL).1, (hok.hws L hL).2, bnafBlockShapes_pos depth bd hok.hbd _ hmem,
      bnafBlockShapes_pos' depth bd hok.hbd _ hmem⟩
  have hcond : (true = true → ∀ L ∈ Ls.head?, ∀ c ∈ (condLinear.map fun C => C.map fun row => Jnp.dot row cond),
      c.length = L.b0 * dim) := by
    intro _ L hL c hc
    simp only [Option.mem_def, Option.map_eq_some_iff] at hc
    obtain ⟨C, hC, rfl⟩ := hc
    simp only [List.length_map]
    exact hok.hcl C hC L hL
  have hv0 : CurveD 1 i (1 * dim) (fun t => x.set i t) (nth x i) (fun _ => 1) := by
    refine ⟨fun t => by simp [hx], ?_, ?_⟩
    · intro c _ hc t
      simp only [Nat.div_one] at hc
      rw [nth_set_ne x i c t (by omega), nth_set_ne x i c _ (by omega)]
    · intro c hc
      have hc0 : c = 0 := by omega
      subst hc0
      have hfun : (fun t => nth (x.set i t) (i * 1 + 0)) = fun t => t := by
        funext t; simp only [Nat.mul_one, Nat.add_zero]; exact nth_set_self x i t (by omega)
      rw [hfun]
      exact hasDerivAt_id _
  obtain ⟨R, hRpos, hacc, hcurve⟩ := bnafChain_ld hchain A act hA.fst hA.ld hA.diff dim bd i hi hall
    (layers_dropLast depth bd Ls hok.hshapes) true _ hcond _ _ _ hv0
  have hself : x.set i (nth x i) = x := by
    apply List.ext_getElem (by simp)
    intro k h1 h2
    by_cases hk : i = k
    · subst hk; simp [nth, h2]
    · simp [hk]
  refine ⟨R 0 0, hRpos 0 0 (by omega) (by omega), ?_, ?_⟩
  · simp only [hself] at hacc
    rw [hacc]; simp [mkMat]
  · have := hcurve.der 0 (by omega)
    simpa [bnafTransform] using this

/-- **`bnaf_logdet`** -/
theorem bnaf_logdet (A : ℝ → ℝ × ℝ) (act : ℝ → ℝ) (hA : ActOK A act)
    {dim depth bd : ℕ} {Ls : List (BnafLayer ℝ)} {condLinear : Option (List (List ℝ))}
    (hok : NetLawful.BnafOK dim depth bd Ls condLinear) (cond : List ℝ) (v : Fin dim → ℝ) :
    ∃ J : (Fin dim → ℝ) →L[ℝ] (Fin dim → ℝ),
      HasFDerivAt (NetLogDet.coords dim fun x => bnafTransform act Ls condLinear x cond) J v ∧ 0 < J.det ∧
      bnafTransformAndLogDet A dim bd Ls condLinear (List.ofFn v) cond
        = (bnafTransform act Ls condLinear (List.ofFn v) cond, some (Real.log |J.det|)) := by
  obtain ⟨J, d, hJ, hd, _, hdet, hpos, hlog⟩ := NetLogDet.bnaf_det' act hA.diff hok cond v
  refine ⟨J, hJ, hpos, ?_⟩
  have hne : Ls ≠ [] := (bnafChain_of_shapes depth bd Ls hok.hshapes).ne_nil
  obtain ⟨L, rest, rfl⟩ := List.exists_cons_of_ne_nil hne
  set ct := condLinear.map fun C => C.map fun row => Jnp.dot row cond with hct
  have hblk : ∀ i, i < dim →
      (combineLds (bnafFwdLds A dim bd true ct (L :: rest) (List.ofFn v)).2)[i]?
        = some [[some (Real.log (if h : i < dim then d ⟨i, h⟩ else 0))]] := by
    intro i hi
    obtain ⟨d', hd'pos, hacc, hder⟩ := bnaf_block A act hA hok cond (List.ofFn v) (by simp) i hi
    have hnth : nth (List.ofFn v) i = v ⟨i, hi⟩ := by simp [nth, hi]
    rw [hnth] at hder
    have : d' = d ⟨i, hi⟩ := hder.unique (hd ⟨i, hi⟩).2
    rw [hacc, dif_pos hi, this]
  have hlen := combineLds_length dim _ (fwdLds_ne_nil A dim bd L rest true ct (List.ofFn v))
    (fwdLds_all_length A dim bd (L :: rest) (fun M hM => (hok.hws M hM).2) true ct (List.ofFn v))
  have hsum := sumAll_blocks dim _ (fun i => Real.log (if h : i < dim then d ⟨i, h⟩ else 0)) hlen hblk
  unfold bnafTransformAndLogDet
  simp only [← hct]
  rw [hsum, bnafFwdLds_fst A act hA.fst, hlog]
  congr 2
  rw [← Fin.sum_univ_eq_sum_range (fun i => Real.log (if h : i < dim then d ⟨i, h⟩ else 0)) dim]
  apply Finset.sum_congr rfl
  intro i _
  simp

/-- any scalar bijection whose forward log-det is correct on all of `ℝ` with a POSITIVE derivative is an admissible
activation (`activation.transform_and_log_det`, with `transform_and_log_det(z)[0] = transform(z)`) -/
theorem actOK_of_ldCorrectWith (b : Bij ℝ Unit ℝ) (d : ℝ → ℝ) (h : b.LdCorrectWith Set.univ d) (hpos : ∀ z, 0 < d z)
    (hfst : ∀ z, (b.fwdLd z ()).1 = b.fwd z ()) :
    ActOK (fun z => b.fwdLd z ()) (fun z => b.fwd z ()) where
  fst := hfst
  diff z := by
    obtain ⟨h1, _, _⟩ := h z trivial ()
    exact ⟨h1.differentiableAt, by rw [h1.deriv]; exact hpos z⟩
  ld z := by
    obtain ⟨h1, _, h3⟩ := h z trivial ()
    rw [h3, h1.deriv, abs_of_pos (hpos z)]

/-- the default activation `LeakyTanh(max_val)`, any `max_val > 0`, through the GENERATED `transform_and_log_det` -/
theorem leakyTanh_actOK {m : ℝ} (hm : 0 < m) :
    ActOK (fun z => Gen.LeakyTanh.transform_and_log_det (Gen.LeakyTanh.init m) z)
      (Gen.LeakyTanh.transform (Gen.LeakyTanh.init m)) :=
  actOK_of_ldCorrectWith (Gen.LeakyTanh.init m).toBij _ (LogDet.leakytanh_ld hm)
    (fun z => LogDet.leakyDeriv_pos (LogDet.leaky_init_wf2 hm).toLeakyWF z) (fun z => rfl)

/-- `activation = Tanh()` through the generated `Tanh.transform_and_log_det` -/
theorem tanh_actOK : ActOK (fun z => Gen.Tanh.transform_and_log_det ⟨⟩ z) Real.tanh :=
  actOK_of_ldCorrectWith Gen.Tanh.toBij _ LogDet.tanh_ld (fun z => LogDet.one_sub_tanh_sq_pos z) (fun z => rfl)

/-- `activation = fn` (a callable, wrapped by `_CallableToBijection`): `transform_and_log_det(z) = (fn z, log |grad fn z|)`;
admissible when `fn` is differentiable with positive derivative (`jax.grad` IS the derivative: trusted) -/
theorem callable_actOK (fn : ℝ → ℝ) (h : ∀ z, DifferentiableAt ℝ fn z ∧ 0 < deriv fn z) :
    ActOK (fun z => (fn z, Real.log |deriv fn z|)) fn where
  fst _ := rfl
  diff := h
  ld z := by simp only; rw [abs_of_pos (h z).2]

/-- **`bnaf_inverse_logdet`**: `inverse_and_log_det` returns the point `x` the inverter produced and MINUS the forward
log-det at `x`, i.e. `-log |det J(x)| = log |det J(x)⁻¹|` -/
theorem bnaf_inverse_logdet (A : ℝ → ℝ × ℝ) (act : ℝ → ℝ) (hA : ActOK A act)
    {dim depth bd : ℕ} {Ls : List (BnafLayer ℝ)} {condLinear : Option (List (List ℝ))}
    (hok : NetLawful.BnafOK dim depth bd Ls condLinear) (inverter : List ℝ → List ℝ → List ℝ) (y cond : List ℝ)
    (v : Fin dim → ℝ) (hinv : inverter y cond = List.ofFn v) :
    ∃ J : (Fin dim → ℝ) →L[ℝ] (Fin dim → ℝ),
      HasFDerivAt (NetLogDet.coords dim fun x => bnafTransform act Ls condLinear x cond) J v ∧ 0 < J.det ∧
      bnafInverseAndLogDet A dim bd Ls condLinear inverter y cond = (List.ofFn v, some (-(Real.log |J.det|))) ∧
      -(Real.log |J.det|) = Real.log |(J.det)⁻¹| := by
  obtain ⟨J, hJ, hpos, hld⟩ := bnaf_logdet A act hA hok cond v
  refine ⟨J, hJ, hpos, ?_, ?_⟩
  · unfold bnafInverseAndLogDet
    simp only [hinv, hld, Ext.neg]
  · rw [abs_inv, Real.log_inv]

end BnafLd
