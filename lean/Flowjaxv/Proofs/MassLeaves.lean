import Mathlib.Analysis.SpecialFunctions.Gaussian.GaussianIntegral
import Mathlib.MeasureTheory.Measure.Haar.InnerProductSpace
import Mathlib.MeasureTheory.Integral.Pi
import Flowjaxv.Proofs.MassFlow
import Flowjaxv.Proofs.Leaves
import Flowjaxv.Proofs.Rqs
import Flowjaxv.Proofs.Docs
import Flowjaxv.Gen.Dist
/-!
# The generated leaves satisfy the Jacobian hypotheses of `MassFlow`

Affine / Scale / Loc (`InvJac`, the inverse formula is differentiated directly), LeakyTanh
(`FwdJac` with pieces `(-∞,-m]`, `(-m,m)`, `[m,∞)`), RationalQuadraticSpline under `RqsWF`
(`FwdJac` with pieces `(-∞,lo)`, `[lo,hi]`, `(hi,∞)`; one-sided derivatives at the two ends,
where the boundary knot derivative need not be 1).  Bijectivity facts; `tanh` is not onto.
A normalised concrete base (the generated `StandardNormal._log_prob`) for non-vacuity.
-/
open Gen Set MeasureTheory RealInst

namespace Mass

/-! ### more piece layouts -/

/-- three pieces `(-∞,a]`, `(a,b)`, `[b,∞)` -/
theorem PiecewiseDeriv.of_three_open {f f' : ℝ → ℝ} {a b : ℝ}
    (h1 : ∀ x ∈ Iic a, HasDerivWithinAt f (f' x) (Iic a) x)
    (h2 : ∀ x ∈ Ioo a b, HasDerivWithinAt f (f' x) (Ioo a b) x)
    (h3 : ∀ x ∈ Ici b, HasDerivWithinAt f (f' x) (Ici b) x) (hne : a < b) :
    PiecewiseDeriv f f' := by
  refine ⟨3, ![Iic a, Ioo a b, Ici b], ?_, ?_, ?_, ?_⟩
  · intro i; fin_cases i
    · exact measurableSet_Iic
    · exact measurableSet_Ioo
    · exact measurableSet_Ici
  · intro i j hij
    rw [Function.onFun, Set.disjoint_left]
    intro x hx hx'
    fin_cases i <;> fin_cases j <;> simp at hij hx hx' <;> linarith
  · ext x
    simp only [mem_iUnion, mem_univ, iff_true]
    rcases le_or_gt x a with h | h
    · exact ⟨0, h⟩
    · rcases lt_or_ge x b with h' | h'
      · exact ⟨1, ⟨h, h'⟩⟩
      · exact ⟨2, h'⟩
  · intro i; fin_cases i
    · exact h1
    · exact h2
    · exact h3

/-! ### Affine, Scale, Loc -/
section affine
variable {C : Type}

theorem affine_invJac (p : Affine ℝ) (h : p.scale ≠ 0) (c : C) :
    InvJac (p.toBij : Bij ℝ C ℝ) c := by
  refine ⟨Leaves.affine_lawful p h, fun _ => p.scale⁻¹, ?_, fun y => ⟨inv_ne_zero h, ?_⟩⟩
  · refine PiecewiseDeriv.of_hasDerivAt fun y => ?_
    have := ((hasDerivAt_id' y).sub_const p.loc).div_const p.scale
    simpa [Affine.toBij, Affine.inverse, one_div] using this
  · simp [Affine.toBij, Affine.inverse_and_log_det, abs_inv, Real.log_inv]

theorem scale_invJac (p : Scale ℝ) (h : p.scale ≠ 0) (c : C) :
    InvJac (p.toBij : Bij ℝ C ℝ) c := by
  refine ⟨Leaves.scale_lawful p h, fun _ => p.scale⁻¹, ?_, fun y => ⟨inv_ne_zero h, ?_⟩⟩
  · refine PiecewiseDeriv.of_hasDerivAt fun y => ?_
    have := (hasDerivAt_id' y).div_const p.scale
    simpa [Scale.toBij, Scale.inverse, one_div] using this
  · simp [Scale.toBij, Scale.inverse_and_log_det, abs_inv, Real.log_inv]

theorem loc_invJac (p : Loc ℝ) (c : C) : InvJac (p.toBij : Bij ℝ C ℝ) c := by
  refine ⟨Leaves.loc_lawful p, fun _ => 1, ?_, fun y => ⟨one_ne_zero, ?_⟩⟩
  · refine PiecewiseDeriv.of_hasDerivAt fun y => ?_
    have := (hasDerivAt_id' y).sub_const p.loc
    simpa [Loc.toBij, Loc.inverse] using this
  · simp [Loc.toBij, Loc.inverse_and_log_det]

theorem affine_bijective (p : Affine ℝ) (h : p.scale ≠ 0) : Function.Bijective p.transform := by
  have hl := (Leaves.affine_lawful (C := Unit) p h)
  exact Function.bijective_iff_has_inverse.mpr
    ⟨p.inverse, fun x => hl.left x trivial (), fun y => hl.right y trivial ()⟩

end affine

/-! ### tanh -/

theorem hasDerivAt_tanh (x : ℝ) : HasDerivAt Real.tanh (1 - Real.tanh x ^ 2) x := by
  have hc := (Real.cosh_pos x).ne'
  have h := (Real.hasDerivAt_sinh x).div (Real.hasDerivAt_cosh x) hc
  have e : Real.tanh = fun x => Real.sinh x / Real.cosh x := funext Real.tanh_eq_sinh_div_cosh
  rw [e]
  refine h.congr_deriv ?_
  field_simp

theorem one_sub_tanh_sq_pos (x : ℝ) : 0 < 1 - Real.tanh x ^ 2 := by
  rw [← Docs.exp_tanhLogGrad]; exact Real.exp_pos _

theorem tanh_injective : Function.Injective Real.tanh := by
  intro a b h
  rcases lt_trichotomy a b with hab | hab | hab
  · exact absurd h (Leaves.tanh_lt_tanh.mpr hab).ne
  · exact hab
  · exact absurd h (Leaves.tanh_lt_tanh.mpr hab).ne'

theorem range_tanh : range Real.tanh = Ioo (-1) 1 := by
  ext y; constructor
  · rintro ⟨x, rfl⟩; exact ⟨Real.neg_one_lt_tanh x, Real.tanh_lt_one x⟩
  · intro hy; exact ⟨Real.artanh y, Real.tanh_artanh hy⟩

/-- **Tanh is not onto ℝ** (the documented reason BNAF defaults to LeakyTanh) -/
theorem tanh_not_surjective : ¬ Function.Surjective (Tanh.transform ({} : NoParams ℝ)) := by
  intro h
  obtain ⟨x, hx⟩ := h 1
  simp only [Tanh.transform, tanh_eq] at hx
  exact (Real.tanh_lt_one x).ne hx

/-- consequence: a density pulled back through `tanh` (the direction in which a flow whose
`transform` ends in Tanh evaluates `log_prob` when it is used inverted) only collects the base
mass that lies in `(-1,1)` -/
theorem tanh_pullback_mass (p : ℝ → ℝ) :
    ∫ x, p (Real.tanh x) * (1 - Real.tanh x ^ 2) = ∫ z in Ioo (-1 : ℝ) 1, p z := by
  have h := integral_range_eq_of_piecewise tanh_injective
    (PiecewiseDeriv.of_hasDerivAt hasDerivAt_tanh) p
  rw [range_tanh] at h
  rw [h]
  congr 1; funext x
  rw [abs_of_pos (one_sub_tanh_sq_pos x), smul_eq_mul, mul_comm]

/-! ### LeakyTanh -/
section leaky
variable {C : Type} {p : LeakyTanh ℝ}

/-- the derivative of the generated `LeakyTanh.transform` on each of its three pieces -/
noncomputable def leakyDer (p : LeakyTanh ℝ) (x : ℝ) : ℝ :=
  if p.max_val ≤ |x| then p.linear_grad else 1 - Real.tanh x ^ 2

theorem leakyDer_pos (h : Leaves.LeakyWF p) (x : ℝ) : 0 < leakyDer p x := by
  unfold leakyDer; split
  · exact h.g_pos
  · exact one_sub_tanh_sq_pos x

theorem leaky_transform_neg (h : Leaves.LeakyWF p) {x : ℝ} (hx : x ≤ -p.max_val) :
    p.transform x = p.linear_grad * x + (-1) * p.intercept := by
  have hm := h.m_pos
  have hx0 : x < 0 := by linarith
  have habs : p.max_val ≤ |x| := by rw [abs_of_neg hx0]; linarith
  rw [Leaves.leaky_transform_def]
  simp only [jabs_eq, ge_iff_le, habs, decide_true, where_true, jsign_neg hx0]

theorem leaky_transform_pos (h : Leaves.LeakyWF p) {x : ℝ} (hx : p.max_val ≤ x) :
    p.transform x = p.linear_grad * x + 1 * p.intercept := by
  have hm := h.m_pos
  have hx0 : 0 < x := by linarith
  have habs : p.max_val ≤ |x| := by rw [abs_of_pos hx0]; exact hx
  rw [Leaves.leaky_transform_def]
  simp only [jabs_eq, ge_iff_le, habs, decide_true, where_true, jsign_pos hx0]

theorem leaky_transform_mid {x : ℝ} (hx : |x| < p.max_val) : p.transform x = Real.tanh x := by
  rw [Leaves.leaky_transform_def]
  simp only [jabs_eq, ge_iff_le, not_le.mpr hx, decide_false, where_false, tanh_eq]

theorem leaky_piecewise (h : Leaves.LeakyWF p) : PiecewiseDeriv p.transform (leakyDer p) := by
  have hm := h.m_pos
  refine PiecewiseDeriv.of_three_open (a := -p.max_val) (b := p.max_val) ?_ ?_ ?_ (by linarith)
  · intro x hx
    have hx' : x ≤ -p.max_val := hx
    have hd : leakyDer p x = p.linear_grad := by
      unfold leakyDer; rw [if_pos]; rw [abs_of_neg (by linarith)]; linarith
    rw [hd]
    have hlin : HasDerivWithinAt (fun x => p.linear_grad * x + (-1) * p.intercept) p.linear_grad
        (Iic (-p.max_val)) x := by
      have := ((hasDerivAt_id' x).const_mul p.linear_grad).add_const ((-1) * p.intercept)
      simpa using this.hasDerivWithinAt
    exact hlin.congr (fun z hz => leaky_transform_neg h hz) (leaky_transform_neg h hx')
  · intro x hx
    have habs : |x| < p.max_val := abs_lt.mpr ⟨hx.1, hx.2⟩
    have hd : leakyDer p x = 1 - Real.tanh x ^ 2 := by
      unfold leakyDer; rw [if_neg (not_le.mpr habs)]
    rw [hd]
    exact (hasDerivAt_tanh x).hasDerivWithinAt.congr
      (fun z hz => leaky_transform_mid (abs_lt.mpr ⟨hz.1, hz.2⟩)) (leaky_transform_mid habs)
  · intro x hx
    have hx' : p.max_val ≤ x := hx
    have hd : leakyDer p x = p.linear_grad := by
      unfold leakyDer; rw [if_pos]; rw [abs_of_pos (by linarith)]; exact hx'
    rw [hd]
    have hlin : HasDerivWithinAt (fun x => p.linear_grad * x + 1 * p.intercept) p.linear_grad
        (Ici p.max_val) x := by
      have := ((hasDerivAt_id' x).const_mul p.linear_grad).add_const (1 * p.intercept)
      simpa using this.hasDerivWithinAt
    exact hlin.congr (fun z hz => leaky_transform_pos h hz) (leaky_transform_pos h hx')

theorem leaky_invLd (h : Leaves.LeakyWF p) (y : ℝ) :
    (p.inverse_and_log_det y).2 = -Real.log |leakyDer p (p.inverse y)| := by
  have hag := Leaves.leaky_branch_agree h (p.inverse y)
  rw [Leaves.leaky_right h y] at hag
  rw [abs_of_pos (leakyDer_pos h _)]
  unfold LeakyTanh.inverse_and_log_det leakyDer
  simp only [jabs_eq, ge_iff_le, tanh_eq, sumElem_eq, log_eq]
  by_cases hy : Real.tanh p.max_val ≤ |y|
  · simp only [hy, decide_true, where_true, if_pos (hag.mpr hy)]
  · have hx : ¬ p.max_val ≤ |p.inverse y| := fun hh => hy (hag.mp hh)
    simp only [hy, decide_false, where_false, if_neg hx]
    rw [← Docs.exp_tanhLogGrad, Real.log_exp]

theorem leakytanh_fwdJac (h : Leaves.LeakyWF p) (c : C) : FwdJac (p.toBij : Bij ℝ C ℝ) c :=
  ⟨Leaves.leakytanh_lawful h, leakyDer p, leaky_piecewise h, fun x => (leakyDer_pos h x).ne',
   fun y => leaky_invLd h y⟩

theorem leakytanh_bijective_of (h : Leaves.LeakyWF p) : Function.Bijective p.transform :=
  Function.bijective_iff_has_inverse.mpr ⟨p.inverse, Leaves.leaky_left h, Leaves.leaky_right h⟩

end leaky

/-! ### RationalQuadraticSpline -/
section rqs
open Rqs
variable {C : Type} {p : RationalQuadraticSpline ℝ}

/-- right derivative at the left end of the interval (the first knot derivative, not
necessarily 1: a genuine kink) -/
theorem rqs_hasDerivWithinAt_lo (h : RqsWF p) :
    HasDerivWithinAt p.transform (p.derivative p.interval.1) (Icc p.interval.1 p.interval.2)
      p.interval.1 := by
  have hn := h.two_le
  have hk : 0 + 1 < p.x_pos.length := by omega
  have hb : IsBin p.x_pos 0 p.interval.1 := ⟨hk, Or.inr ⟨rfl, h.x0.symm⟩⟩
  have hok := h.binOK hk
  rw [derivative_bin h hb]
  have hd : HasDerivAt (fwdK p 0) (derK p 0 p.interval.1) p.interval.1 :=
    binFwd_hasDerivAt hok ⟨hb.le, hb.le' h.x_inc⟩
  refine hd.hasDerivWithinAt.congr_of_eventuallyEq ?_ (transform_bin h hb)
  have hlt : p.interval.1 < nth p.x_pos (0 + 1) := by rw [← h.x0]; exact hok.hx
  filter_upwards [self_mem_nhdsWithin, mem_nhdsWithin_of_mem_nhds (Iio_mem_nhds hlt)] with z hz1 hz2
  rcases eq_or_lt_of_le hz1.1 with e | e
  · rw [← e]; exact transform_bin h hb
  · exact transform_bin h ⟨hk, Or.inl ⟨by rw [h.x0]; exact e, le_of_lt hz2⟩⟩

/-- left derivative at the right end of the interval -/
theorem rqs_hasDerivWithinAt_hi (h : RqsWF p) :
    HasDerivWithinAt p.transform (p.derivative p.interval.2) (Icc p.interval.1 p.interval.2)
      p.interval.2 := by
  have hn := h.two_le
  obtain ⟨k, hk2⟩ : ∃ k, p.x_pos.length = k + 2 := ⟨p.x_pos.length - 2, by omega⟩
  have hk : k + 1 < p.x_pos.length := by omega
  have hxN : nth p.x_pos (k + 1) = p.interval.2 := by
    have := h.xN; rwa [show p.x_pos.length - 1 = k + 1 by omega] at this
  have hok := h.binOK hk
  have hlt : nth p.x_pos k < p.interval.2 := by rw [← hxN]; exact hok.hx
  have hb : IsBin p.x_pos k p.interval.2 := ⟨hk, Or.inl ⟨hlt, hxN.ge⟩⟩
  rw [derivative_bin h hb]
  have hd : HasDerivAt (fwdK p k) (derK p k p.interval.2) p.interval.2 :=
    binFwd_hasDerivAt hok ⟨hb.le, hb.le' h.x_inc⟩
  refine hd.hasDerivWithinAt.congr_of_eventuallyEq ?_ (transform_bin h hb)
  filter_upwards [self_mem_nhdsWithin, mem_nhdsWithin_of_mem_nhds (Ioi_mem_nhds hlt)] with z hz1 hz2
  exact transform_bin h ⟨hk, Or.inl ⟨hz2, by rw [hxN]; exact hz1.2⟩⟩

theorem rqs_piecewise (h : RqsWF p) : PiecewiseDeriv p.transform p.derivative := by
  refine PiecewiseDeriv.of_three (a := p.interval.1) (b := p.interval.2) h.lo_lt_hi.le ?_ ?_ ?_
  · intro x hx
    obtain ⟨hd, e⟩ := rqs_hasDerivAt_outside h (Or.inl hx)
    rw [e]; exact hd.hasDerivWithinAt
  · intro x hx
    rcases eq_or_lt_of_le hx.1 with e | e
    · rw [← e]; exact rqs_hasDerivWithinAt_lo h
    · rcases eq_or_lt_of_le hx.2 with e' | e'
      · rw [e']; exact rqs_hasDerivWithinAt_hi h
      · exact (rqs_hasDerivAt h x e e').hasDerivWithinAt
  · intro x hx
    obtain ⟨hd, e⟩ := rqs_hasDerivAt_outside h (Or.inr hx)
    rw [e]; exact hd.hasDerivWithinAt

theorem rqs_fwdJac (h : RqsWF p) (c : C) : FwdJac (p.toBij : Bij ℝ C ℝ) c := by
  refine ⟨rqs_lawful h, p.derivative, rqs_piecewise h, fun x => (rqs_derivative_pos h x).ne',
    fun y => ?_⟩
  rw [abs_of_pos (rqs_derivative_pos h _)]
  rfl

theorem rqs_bijective (h : RqsWF p) : Function.Bijective p.transform :=
  Function.bijective_iff_has_inverse.mpr ⟨p.inverse, rqs_left h, rqs_right h⟩

end rqs

/-! ### from a forward derivative to the inverse-direction hypotheses -/
section inverse_direction
variable {C : Type}

/-- inverse function theorem, easy half, for a bijection of `ℝ` that is differentiable with
positive derivative everywhere: the inverse is differentiable with derivative `1 / f' (g y)` -/
theorem hasDerivAt_inverse_of_pos {f g f' : ℝ → ℝ}
    (hr : Function.RightInverse g f) (hf : ∀ x, HasDerivAt f (f' x) x) (hpos : ∀ x, 0 < f' x)
    (y : ℝ) : HasDerivAt g (f' (g y))⁻¹ y := by
  have hmono : StrictMono f := strictMono_of_deriv_pos fun x => by rw [(hf x).deriv]; exact hpos x
  let e := hmono.orderIsoOfSurjective f hr.surjective
  have he : ∀ y, e.symm y = g y := fun y => by
    have := StrictMono.orderIsoOfSurjective_symm_apply_self f hmono hr.surjective (g y)
    rwa [hr y] at this
  have hcont : Continuous g := by
    have : g = e.symm := funext fun y => (he y).symm
    rw [this]; exact e.symm.continuous
  exact (hf (g y)).of_local_left_inverse hcont.continuousAt (hpos _).ne'
    (Filter.Eventually.of_forall hr)

/-- a lawful layer whose forward map is everywhere differentiable with positive derivative `d`
and whose inverse log-det is `-log d (inverse y)` satisfies the INVERSE-direction hypotheses
(the exact hypotheses of `flow1d_normalised`) with `1 / d (inverse y)` -/
theorem invJac_of_fwd_pos {b : Bij ℝ C ℝ} {c : C} (hb : b.Lawful univ univ) (d : ℝ → ℝ)
    (hd : ∀ x, HasDerivAt (fun x => b.fwd x c) (d x) x) (hpos : ∀ x, 0 < d x)
    (hld : ∀ y, (b.invLd y c).2 = -Real.log (d (b.inv y c))) (y : ℝ) :
    HasDerivAt (fun y => b.inv y c) (d (b.inv y c))⁻¹ y ∧ (d (b.inv y c))⁻¹ ≠ 0 ∧
      (b.invLd y c).2 = Real.log |(d (b.inv y c))⁻¹| := by
  refine ⟨hasDerivAt_inverse_of_pos (Lawful.rightInv hb c) hd hpos y,
    inv_ne_zero (hpos _).ne', ?_⟩
  rw [hld y, abs_of_pos (inv_pos.mpr (hpos _)), Real.log_inv]

end inverse_direction

/-! ### LeakyTanh is C¹ at the switch points when `linear_grad = 1 - tanh² max_val` (the constructor's value) -/
section leakyC1
variable {C : Type} {p : LeakyTanh ℝ}

theorem leaky_transform_tanh_Ioc (h : Leaves.LeakyWF p) {x : ℝ} (h1 : -p.max_val ≤ x)
    (h2 : x ≤ p.max_val) : p.transform x = Real.tanh x := by
  rcases eq_or_lt_of_le h2 with e | e
  · rw [leaky_transform_pos h e.ge, h.icpt, e]; ring
  · rcases eq_or_lt_of_le h1 with e' | e'
    · rw [leaky_transform_neg h e'.symm.le, h.icpt, ← e', Real.tanh_neg]; ring
    · exact leaky_transform_mid (abs_lt.mpr ⟨e', e⟩)

theorem leaky_hasDerivAt (h : Leaves.LeakyWF p)
    (hC1 : p.linear_grad = 1 - Real.tanh p.max_val ^ 2) (x : ℝ) :
    HasDerivAt p.transform (leakyDer p x) x := by
  have hm := h.m_pos
  -- one-sided derivatives of the three formulas
  have hlinL : ∀ x ≤ -p.max_val, HasDerivWithinAt p.transform p.linear_grad (Iic (-p.max_val)) x := by
    intro x hx
    have hlin : HasDerivWithinAt (fun x => p.linear_grad * x + (-1) * p.intercept) p.linear_grad
        (Iic (-p.max_val)) x := by
      have := ((hasDerivAt_id' x).const_mul p.linear_grad).add_const ((-1) * p.intercept)
      simpa using this.hasDerivWithinAt
    exact hlin.congr (fun z hz => leaky_transform_neg h hz) (leaky_transform_neg h hx)
  have hlinR : ∀ x, p.max_val ≤ x → HasDerivWithinAt p.transform p.linear_grad (Ici p.max_val) x := by
    intro x hx
    have hlin : HasDerivWithinAt (fun x => p.linear_grad * x + 1 * p.intercept) p.linear_grad
        (Ici p.max_val) x := by
      have := ((hasDerivAt_id' x).const_mul p.linear_grad).add_const (1 * p.intercept)
      simpa using this.hasDerivWithinAt
    exact hlin.congr (fun z hz => leaky_transform_pos h hz) (leaky_transform_pos h hx)
  have hmid : ∀ x ∈ Icc (-p.max_val) p.max_val,
      HasDerivWithinAt p.transform (1 - Real.tanh x ^ 2) (Icc (-p.max_val) p.max_val) x := by
    intro x hx
    exact (hasDerivAt_tanh x).hasDerivWithinAt.congr
      (fun z hz => leaky_transform_tanh_Ioc h hz.1 hz.2) (leaky_transform_tanh_Ioc h hx.1 hx.2)
  have hgm : 1 - Real.tanh (-p.max_val) ^ 2 = p.linear_grad := by rw [Real.tanh_neg, hC1]; ring
  rcases lt_trichotomy x (-p.max_val) with hx | hx | hx
  · have hd : leakyDer p x = p.linear_grad := by
      unfold leakyDer; rw [if_pos]; rw [abs_of_neg (by linarith)]; linarith
    rw [hd]; exact (hlinL x hx.le).hasDerivAt (Iic_mem_nhds hx)
  · have hd : leakyDer p x = p.linear_grad := by
      unfold leakyDer; rw [if_pos]; rw [hx, abs_neg, abs_of_pos hm]
    rw [hd, hx]
    have hR := hmid (-p.max_val) ⟨le_refl _, by linarith⟩
    rw [hgm] at hR
    have hU := (hlinL (-p.max_val) (le_refl _)).union hR
    refine hU.hasDerivAt ?_
    have : Iic (-p.max_val) ∪ Icc (-p.max_val) p.max_val = Iic p.max_val := by
      ext z; simp only [mem_union, mem_Iic, mem_Icc]; constructor
      · rintro (hz | hz) <;> linarith [hz]
      · intro hz; rcases le_or_gt z (-p.max_val) with h' | h'
        · exact Or.inl h'
        · exact Or.inr ⟨h'.le, hz⟩
    rw [this]; exact Iic_mem_nhds (by linarith)
  · rcases lt_trichotomy x p.max_val with hx' | hx' | hx'
    · have habs : |x| < p.max_val := abs_lt.mpr ⟨hx, hx'⟩
      have hd : leakyDer p x = 1 - Real.tanh x ^ 2 := by
        unfold leakyDer; rw [if_neg (not_le.mpr habs)]
      rw [hd]
      exact (hmid x ⟨hx.le, hx'.le⟩).hasDerivAt (Icc_mem_nhds hx hx')
    · have hd : leakyDer p x = p.linear_grad := by
        unfold leakyDer; rw [if_pos]; rw [hx', abs_of_pos hm]
      rw [hd, hx']
      have hL := hmid p.max_val ⟨by linarith, le_refl _⟩
      rw [← hC1] at hL
      have hU := hL.union (hlinR p.max_val (le_refl _))
      refine hU.hasDerivAt ?_
      have : Icc (-p.max_val) p.max_val ∪ Ici p.max_val = Ici (-p.max_val) := by
        ext z; simp only [mem_union, mem_Ici, mem_Icc]; constructor
        · rintro (hz | hz) <;> linarith [hz]
        · intro hz; rcases le_or_gt z p.max_val with h' | h'
          · exact Or.inl ⟨hz, h'⟩
          · exact Or.inr h'.le
      rw [this]; exact Ici_mem_nhds (by linarith)
    · have hd : leakyDer p x = p.linear_grad := by
        unfold leakyDer; rw [if_pos]; rw [abs_of_pos (by linarith)]; exact hx'.le
      rw [hd]; exact (hlinR x hx'.le).hasDerivAt (Ici_mem_nhds hx')

/-- `LeakyTanh.init m` satisfies the inverse-direction hypotheses of `flow1d_normalised`
(everywhere differentiable inverse, switch points included) -/
theorem leakytanh_init_inverse_deriv {m : ℝ} (hm : 0 < m) (c : C) (y : ℝ) :
    ∃ d, HasDerivAt (fun y => ((LeakyTanh.init m).toBij : Bij ℝ C ℝ).inv y c) d y ∧ d ≠ 0 ∧
      (((LeakyTanh.init m).toBij : Bij ℝ C ℝ).invLd y c).2 = Real.log |d| := by
  have h := Leaves.leaky_init_wf hm
  have hC1 : (LeakyTanh.init m : LeakyTanh ℝ).linear_grad
      = 1 - Real.tanh (LeakyTanh.init m : LeakyTanh ℝ).max_val ^ 2 := Docs.leaky_linear_grad_eq m
  have := invJac_of_fwd_pos (c := c) (Leaves.leakytanh_lawful (C := C) h) (leakyDer (LeakyTanh.init m))
    (fun x => leaky_hasDerivAt h hC1 x) (leakyDer_pos h)
    (fun y => by
      have := leaky_invLd h y
      rwa [abs_of_pos (leakyDer_pos h _)] at this) y
  exact ⟨_, this⟩

end leakyC1

/-! ### a normalised concrete base: the generated `StandardNormal._log_prob` at `ℝ` -/
section base

noncomputable local instance : HasPi ℝ := ⟨Real.pi⟩
noncomputable local instance : HasLgamma ℝ := ⟨fun x => Real.log (Real.Gamma x)⟩

/-- the scalar standard normal as a `Distn` record: `_log_prob` is the GENERATED one; the sampler
is left abstract (`s`) -/
noncomputable def stdNormal {C K : Type} (s : K → C → ℝ) : Distn ℝ C K ℝ :=
  ⟨fun x _ => StandardNormal.logProb x, s, fun k c => (s k c, StandardNormal.logProb (s k c))⟩

theorem stdNormal_normalised {C K : Type} (s : K → C → ℝ) (c : C) :
    ∫ z, Real.exp ((stdNormal s).logProb z c) = 1 := by
  have hpi : 0 < 2 * Real.pi := by positivity
  have hs : 0 < Real.sqrt (2 * Real.pi) := Real.sqrt_pos.mpr hpi
  have e : ∀ z : ℝ, Real.exp ((stdNormal s).logProb z c)
      = (Real.sqrt (2 * Real.pi))⁻¹ * Real.exp (-(1 / 2) * z ^ 2) := by
    intro z
    show Real.exp (-(z * z) / 2 - Real.log (Real.sqrt (2 * Real.pi))) = _
    rw [Real.exp_sub, Real.exp_log hs, div_eq_inv_mul]
    congr 2; ring
  simp_rw [e]
  rw [integral_const_mul, integral_gaussian]
  rw [show Real.pi / (1 / 2) = 2 * Real.pi by ring]
  exact inv_mul_cancel₀ hs.ne'

/-- `StandardNormal((n,))` as a `Distn` record on `ℝⁿ = Fin n → ℝ`: its `_log_prob` is the SUM over the coordinates of the
GENERATED scalar kernel (`sum_dims`, C05 `family_sum_dims`); the sampler is left abstract (`s`). Used by the non-vacuity
instances of the d-dimensional theorems. -/
noncomputable def stdNormalN (n : ℕ) {C K : Type} (s : K → C → Fin n → ℝ) : Distn (Fin n → ℝ) C K ℝ :=
  ⟨fun x _ => ∑ i, StandardNormal.logProb (x i), s, fun k c => (s k c, ∑ i, StandardNormal.logProb (s k c i))⟩

theorem stdNormalN_normalised (n : ℕ) {C K : Type} (s : K → C → Fin n → ℝ) (c : C) :
    ∫ z, Real.exp ((stdNormalN n s).logProb z c) = 1 := by
  have e : ∀ z : Fin n → ℝ, Real.exp ((stdNormalN n s).logProb z c)
      = ∏ i : Fin n, Real.exp ((stdNormal (C := C) (K := K) (fun _ _ => 0)).logProb (z i) c) := by
    intro z
    show Real.exp (∑ i, StandardNormal.logProb (z i)) = ∏ i : Fin n, Real.exp (StandardNormal.logProb (z i))
    rw [Real.exp_sum]
  simp_rw [e]
  rw [MeasureTheory.integral_fintype_prod_volume_eq_prod
    (fun (_ : Fin n) (x : ℝ) => Real.exp ((stdNormal (C := C) (K := K) (fun _ _ => 0)).logProb x c))]
  simp [stdNormal_normalised]

end base

/-- a hand-written d-dimensional layer (isotropic scaling `x ↦ a • x`, log-det `n log |a|`) used only to show
that the d-dimensional hypotheses are satisfiable by a non-identity map -/
noncomputable def scaleBij (n : ℕ) (C : Type) (a : ℝ) : Bij (EuclideanSpace ℝ (Fin n)) C ℝ :=
  ⟨fun x _ => a • x, fun y _ => a⁻¹ • y, fun x _ => (a • x, n * Real.log |a|),
   fun y _ => (a⁻¹ • y, -(n * Real.log |a|))⟩




end Mass
