import Flowjaxv.Proofs.AdKernels
import Flowjaxv.Proofs.Rqs
/-!
# C18 for the rational-quadratic spline: the generated ASTs are `Safe` at EVERY real input

For every `p` with `Rqs.RqsWF p` and every real `x` (ends of the interval, knots, bin interiors,
outside) the deep ASTs of `transform`, `inverse`, `derivative`, `transform_and_log_det`,
`inverse_and_log_det` (`Gen/LeavesAst.lean`) are `AdT.Safe` in the environment of `p`: every
sub-expression — both branches of every `where`, `clip`'s `max`/`min` included — has a finite value
and every primitive a finite partial, hence (`AdT.safe_eval_fin`, `AdT.safe_vjp_fin`) finite values
and finite adjoints.  The point: out-of-bounds inputs are first replaced by `lo` (`x_robust`), so the
bin formulas are always evaluated at a point of `[lo, hi]`, where all denominators are non-zero, the
discriminant under the square root is STRICTLY positive and the derivative fed to `log` is positive.
-/
set_option linter.unusedSimpArgs false
set_option linter.unusedVariables false
noncomputable section
open Ad EF AdT GenAst Gen Rqs

namespace AdRqs

/-! ### bridging the `EF` world and ℝ -/
theorem searchsorted_map_fin (xs : List ℝ) (v : ℝ) :
    Ad.searchsorted (xs.map fin) (fin v) = Jnp.searchsorted xs v := by
  unfold Ad.searchsorted Jnp.searchsorted
  rw [List.filter_map, List.length_map]
  rfl

theorem resolveIdx_nat {n k : ℕ} (h : k < n) : Ad.resolveIdx n (k : ℤ) = k := by
  unfold Ad.resolveIdx
  have h1 : ¬ ((k : ℤ) < 0) := by omega
  have h2 : ¬ ((k : ℤ) ≥ (n : ℤ)) := by omega
  simp only [h1, h2, if_false, Int.toNat_natCast]

theorem resolveIdx_nat_succ {n k : ℕ} (h : k + 1 < n) : Ad.resolveIdx n ((k : ℤ) + 1) = k + 1 := by
  have := resolveIdx_nat h
  rwa [Nat.cast_succ] at this

theorem getD_map_fin (zs : List ℝ) (k : ℕ) : (zs.map fin).getD k (fin 0) = fin (nth zs k) := by
  unfold nth; simp only [List.getD_eq_getElem?_getD, List.getElem?_map, Option.getD_map]

theorem mem_map_fin (zs : List ℝ) : ∀ x ∈ zs.map fin, isFin x := by
  intro x hx; obtain ⟨a, _, rfl⟩ := List.mem_map.mp hx; trivial


theorem forall_mem_map_fin (zs : List ℝ) : (∀ x ∈ zs.map fin, isFin x) ↔ True :=
  iff_true_intro (mem_map_fin zs)

theorem fin_ne_zero {a : ℝ} : (fin a ≠ fin 0) ↔ a ≠ 0 := by
  simp only [ne_eq, fin.injEq]

/-! ### stepping through `letE` with known finite values -/

theorem safe_letE {env : Env EF} {i : ℕ} {v body : Expr EF} (r : ℝ)
    (hv : Safe env v) (he : v.eval env = fin r) (hb : Safe (env.set i (fin r)) body) :
    Safe env (Expr.letE i v body) := by
  show Safe env v ∧ Safe (env.set i (v.eval env)) body
  rw [he]; exact ⟨hv, hb⟩

theorem safe_letE_any {env : Env EF} {i : ℕ} {v body : Expr EF}
    (hv : Safe env v) (hb : ∀ r, Safe (env.set i (fin r)) body) :
    Safe env (Expr.letE i v body) := by
  obtain ⟨r, hr⟩ := isFin_iff.mp (safe_eval_fin v env hv)
  exact safe_letE r hv hr (hb r)

/-- safe, with known value -/
def SafeVal (env : Env EF) (e : Expr EF) (q : ℝ) : Prop := Safe env e ∧ e.eval env = fin q

theorem safeVal_letE {env : Env EF} {i : ℕ} {v body : Expr EF} {q : ℝ} (r : ℝ)
    (hv : Safe env v) (he : v.eval env = fin r) (hb : SafeVal (env.set i (fin r)) body q) :
    SafeVal env (Expr.letE i v body) q := by
  refine ⟨safe_letE r hv he hb.1, ?_⟩
  show body.eval (env.set i (v.eval env)) = fin q
  rw [he]; exact hb.2

/-- the environment carries the (finite) parameters of `p`: scalars 1,2 = interval ends, vectors
0,1,2 = `x_pos`, `y_pos`, `derivatives` -/
structure EnvOK (p : RationalQuadraticSpline ℝ) (env : Env EF) : Prop where
  s1 : env.s 1 = fin p.interval.1
  s2 : env.s 2 = fin p.interval.2
  v0 : env.v 0 = p.x_pos.map fin
  v1 : env.v 1 = p.y_pos.map fin
  v2 : env.v 2 = p.derivatives.map fin

theorem EnvOK.set {p : RationalQuadraticSpline ℝ} {env : Env EF} (he : EnvOK p env) {j : ℕ}
    (h1 : j ≠ 1) (h2 : j ≠ 2) (a : EF) : EnvOK p (env.set j a) := by
  refine ⟨?_, ?_, he.v0, he.v1, he.v2⟩
  · simp only [Env.set, if_neg (Ne.symm h1)]; exact he.s1
  · simp only [Env.set, if_neg (Ne.symm h2)]; exact he.s2

theorem envOK_envOf (p : RationalQuadraticSpline ℝ) (x : ℝ) :
    EnvOK p (AdK.envOf x [p.interval.1, p.interval.2] [p.x_pos, p.y_pos, p.derivatives]) :=
  ⟨rfl, rfl, rfl, rfl, rfl⟩

/-- `x_robust`: the input if in bounds, else `lo` -/
def robust (p : RationalQuadraticSpline ℝ) (x : ℝ) : ℝ :=
  if p.interval.1 ≤ x ∧ x ≤ p.interval.2 then x else p.interval.1

theorem robust_mem {p : RationalQuadraticSpline ℝ} (h : RqsWF p) (x : ℝ) :
    p.interval.1 ≤ robust p x ∧ robust p x ≤ p.interval.2 := by
  unfold robust; split
  · assumption
  · exact ⟨le_refl _, h.lo_lt_hi.le⟩

set_option hygiene false in
/-- evaluate / unfold `Safe` in an explicit `Env.set` chain over an `EnvOK` environment -/
macro "ev_simp" : tactic => `(tactic|
  simp only [Safe, PrimSafe, Expr.eval, applyPrim, Env.set, ↓reduceIte, Nat.reduceEqDiff, if_true, if_false,
    he.s1, he.s2, he.v0, he.v1, he.v2, hx, AdK.X,
    forall_mem_map_fin, searchsorted_map_fin, List.length_map, hbu, r0k, r0k1, r1k, r1k1, r2k, r2k1,
    getD_map_fin, ofInt_eq, Int.cast_zero, Int.cast_one, Int.cast_ofNat, fin_sub, fin_add, fin_mul, fin_neg,
    fin_div hw, isFin_fin, fin_ne_zero, true_and, and_true, and_self])

/-! ### `transform` -/

theorem transform_safe_env {p : RationalQuadraticSpline ℝ} (h : RqsWF p) {env : Env EF}
    (he : EnvOK p env) {x : ℝ} (hx : env.s 0 = fin x) :
    Safe env (RationalQuadraticSpline.transform.ast AdK.X) := by
  obtain ⟨hr1, hr2⟩ := robust_mem h x
  obtain ⟨k, hb⟩ := in_bounds_bin h hr1 hr2
  have hk := hb.1
  have hky : k + 1 < p.y_pos.length := by rw [h.len_y]; exact hk
  have hkd : k + 1 < p.derivatives.length := by rw [h.len_d]; exact hk
  have hok := h.binOK hk
  have hw : nth p.x_pos (k + 1) - nth p.x_pos k ≠ 0 := (sub_pos.mpr hok.hx).ne'
  have hden := (hok.den_pos ⟨hb.le, hb.le' h.x_inc⟩).ne'
  obtain ⟨xr, hxr⟩ : ∃ xr, xr = robust p x := ⟨_, rfl⟩
  rw [← hxr] at hb hden
  have r0k := resolveIdx_nat (Nat.lt_of_succ_lt hk)
  have r0k1 := resolveIdx_nat_succ hk
  have r1k := resolveIdx_nat (Nat.lt_of_succ_lt hky)
  have r1k1 := resolveIdx_nat_succ hky
  have r2k := resolveIdx_nat (Nat.lt_of_succ_lt hkd)
  have r2k1 := resolveIdx_nat_succ hkd
  have hbu := bin_unique h.x_inc hb
  obtain ⟨ξ, hξ⟩ : ∃ ξ, ξ = (xr - nth p.x_pos k) / (nth p.x_pos (k + 1) - nth p.x_pos k) := ⟨_, rfl⟩
  obtain ⟨s, hs⟩ : ∃ s, s = (nth p.y_pos (k + 1) - nth p.y_pos k) / (nth p.x_pos (k + 1) - nth p.x_pos k) :=
    ⟨_, rfl⟩
  rw [← hξ, ← hs] at hden
  simp only [RationalQuadraticSpline.transform.ast]
  refine safe_letE xr ?_ ?_ ?_
  · ev_simp
  · ev_simp
    simp only [num_le, hxr, robust, Bool.and_eq_true, decide_eq_true_eq]
    split <;> rfl
  refine safe_letE ξ ?_ ?_ ?_
  · ev_simp; exact hw
  · ev_simp; rw [hξ]
  refine safe_letE s ?_ ?_ ?_
  · ev_simp; exact hw
  · ev_simp; rw [hs]
  refine safe_letE (nth p.derivatives k) ?_ ?_ ?_
  · ev_simp
  · ev_simp
  refine safe_letE (nth p.derivatives (k + 1)) ?_ ?_ ?_
  · ev_simp
  · ev_simp
  refine safe_letE (nth p.y_pos k) ?_ ?_ ?_
  · ev_simp
  · ev_simp
  refine safe_letE (nth p.y_pos (k + 1)) ?_ ?_ ?_
  · ev_simp
  · ev_simp
  refine safe_letE _ ?_ (by ev_simp; rfl) ?_
  · ev_simp
  refine safe_letE (rqD s (nth p.derivatives k) (nth p.derivatives (k + 1)) ξ) ?_ ?_ ?_
  · ev_simp
  · ev_simp; rfl
  refine safe_letE _ ?_ (by ev_simp; rw [fin_div hden, fin_add]) ?_
  · ev_simp; exact hden
  refine safe_letE_any ?_ (fun r => ?_)
  · ev_simp
  · ev_simp

/-! ### `derivative` (value known and positive; input variable `0` or the let-variable of `ild`) -/

theorem derivative_safe_env {p : RationalQuadraticSpline ℝ} (h : RqsWF p) {env : Env EF}
    (he : EnvOK p env) {x : ℝ} {i : ℕ} (hi : i = 0 ∨ i = 34001) (hx : env.s i = fin x) :
    ∃ q, 0 < q ∧ SafeVal env (RationalQuadraticSpline.derivative.ast (Expr.var i)) q := by
  obtain ⟨hr1, hr2⟩ := robust_mem h x
  obtain ⟨k, hb⟩ := in_bounds_bin h hr1 hr2
  have hk := hb.1
  have hky : k + 1 < p.y_pos.length := by rw [h.len_y]; exact hk
  have hkd : k + 1 < p.derivatives.length := by rw [h.len_d]; exact hk
  have hok := h.binOK hk
  have hw : nth p.x_pos (k + 1) - nth p.x_pos k ≠ 0 := (sub_pos.mpr hok.hx).ne'
  have hden := (hok.den_pos ⟨hb.le, hb.le' h.x_inc⟩).ne'
  have hpos := binDer_pos hok ⟨hb.le, hb.le' h.x_inc⟩
  unfold binDer at hpos
  dsimp only at hpos
  obtain ⟨xr, hxr⟩ : ∃ xr, xr = robust p x := ⟨_, rfl⟩
  rw [← hxr] at hb hden hpos
  have r0k := resolveIdx_nat (Nat.lt_of_succ_lt hk)
  have r0k1 := resolveIdx_nat_succ hk
  have r1k := resolveIdx_nat (Nat.lt_of_succ_lt hky)
  have r1k1 := resolveIdx_nat_succ hky
  have r2k := resolveIdx_nat (Nat.lt_of_succ_lt hkd)
  have r2k1 := resolveIdx_nat_succ hkd
  have hbu := bin_unique h.x_inc hb
  obtain ⟨ξ, hξ⟩ : ∃ ξ, ξ = (xr - nth p.x_pos k) / (nth p.x_pos (k + 1) - nth p.x_pos k) := ⟨_, rfl⟩
  obtain ⟨s, hs⟩ : ∃ s, s = (nth p.y_pos (k + 1) - nth p.y_pos k) / (nth p.x_pos (k + 1) - nth p.x_pos k) :=
    ⟨_, rfl⟩
  rw [← hξ, ← hs] at hden hpos
  have hdd := mul_ne_zero hden hden
  obtain ⟨dv, hdv⟩ : ∃ dv, dv = (s * s * (nth p.derivatives (k + 1) * (ξ * ξ) + 2 * s * ξ * (1 - ξ) +
      nth p.derivatives k * ((1 - ξ) * (1 - ξ)))) /
      (rqD s (nth p.derivatives k) (nth p.derivatives (k + 1)) ξ *
        rqD s (nth p.derivatives k) (nth p.derivatives (k + 1)) ξ) := ⟨_, rfl⟩
  rw [← hdv] at hpos
  refine ⟨if p.interval.1 ≤ x ∧ x ≤ p.interval.2 then dv else 1, by split <;> [exact hpos; exact one_pos], ?_⟩
  rcases hi with rfl | rfl
  all_goals
    simp only [RationalQuadraticSpline.derivative.ast]
    refine safeVal_letE xr ?_ ?_ ?_
    · ev_simp
    · ev_simp
      simp only [num_le, hxr, robust, Bool.and_eq_true, decide_eq_true_eq]
      split <;> rfl
    refine safeVal_letE ξ ?_ ?_ ?_
    · ev_simp; exact hw
    · ev_simp; rw [hξ]
    refine safeVal_letE s ?_ ?_ ?_
    · ev_simp; exact hw
    · ev_simp; rw [hs]
    refine safeVal_letE (nth p.derivatives k) ?_ ?_ ?_
    · ev_simp
    · ev_simp
    refine safeVal_letE (nth p.derivatives (k + 1)) ?_ ?_ ?_
    · ev_simp
    · ev_simp
    refine safeVal_letE _ ?_ (by ev_simp; rfl) ?_
    · ev_simp
    refine safeVal_letE (rqD s (nth p.derivatives k) (nth p.derivatives (k + 1)) ξ *
        rqD s (nth p.derivatives k) (nth p.derivatives (k + 1)) ξ) ?_ ?_ ?_
    · ev_simp
    · ev_simp; rfl
    refine safeVal_letE dv ?_ ?_ ?_
    · ev_simp; exact hdd
    · ev_simp; rw [fin_div hdd, hdv]
    refine ⟨?_, ?_⟩
    · ev_simp
    · ev_simp
      simp only [num_le, Bool.and_eq_true, decide_eq_true_eq]
      split <;> rfl

/-! ### `inverse` -/

/-- side conditions of the inverse's quadratic formula inside one bin, in the normalised coordinate:
the discriminant is strictly positive and the selected denominator `-b - sqrt(b²-4ac)` is non-zero -/
theorem rqs_root_side (xi s d0 d1 D : ℝ) (hs : 0 < s) (h0 : 0 < d0) (h1 : 0 < d1) (hD : 0 < D)
    (hx0 : 0 ≤ xi) (hx1 : xi ≤ 1) :
    let u := (D * rqN s d0 xi) / rqD s d0 d1 xi
    let T := u * ((d1 + d0) - (2 * s))
    let a := (D * (s - d0)) + T
    let b := (D * d0) - T
    let c := (-s) * u
    0 < (b * b) - ((4 * a) * c) ∧ (-b) - Real.sqrt ((b * b) - ((4 * a) * c)) ≠ 0 := by
  intro u T a b c
  have hden : 0 < rqD s d0 d1 xi := rqD_pos hs h0 h1 hx0 hx1
  have hu : u * rqD s d0 d1 xi = D * rqN s d0 xi := div_mul_cancel₀ _ hden.ne'
  clear_value u
  have hroot : a * xi^2 + b * xi + c = 0 := by
    simp only [a, b, c, T]; unfold rqD rqN at hu; linear_combination (-1 : ℝ) * hu
  have h2 : (2*a*xi + b) * rqD s d0 d1 xi = D * (s * (d0*(1-xi)^2 + d1*xi^2 + 2*s*xi*(1-xi))) := by
    simp only [a, b, T]; unfold rqD rqN at hu; unfold rqD
    linear_combination ((d1 + d0 - 2*s) * (2*xi - 1)) * hu
  have h3 : (a*xi + b) * rqD s d0 d1 xi = D * (s * (d0*(1-xi) + s*xi)) := by
    simp only [a, b, T]; unfold rqD rqN at hu; unfold rqD
    linear_combination ((d1 + d0 - 2*s) * (xi - 1)) * hu
  have h1x : 0 ≤ 1 - xi := by linarith
  have p2 : 0 < 2*a*xi + b := by
    have : 0 < (2*a*xi + b) * rqD s d0 d1 xi := by
      rw [h2]; apply mul_pos hD; apply mul_pos hs
      have := mul_nonneg h0.le (sq_nonneg (1-xi))
      have := mul_nonneg h1.le (sq_nonneg xi)
      have := mul_nonneg (mul_nonneg (by linarith : (0:ℝ) ≤ 2*s) hx0) h1x
      rcases eq_or_lt_of_le hx0 with h | h
      · subst h; simp; positivity
      · have := mul_pos h1 (pow_pos h 2); linarith
    exact (pos_iff_pos_of_mul_pos this).mpr hden
  have p3 : 0 < a*xi + b := by
    have : 0 < (a*xi + b) * rqD s d0 d1 xi := by
      rw [h3]; apply mul_pos hD; apply mul_pos hs
      rcases eq_or_lt_of_le hx0 with h | h
      · subst h; simp; exact h0
      · have := mul_pos hs h; have := mul_nonneg h0.le h1x; linarith
    exact (pos_iff_pos_of_mul_pos this).mpr hden
  have hdisc : (b * b) - ((4 * a) * c) = (2*a*xi + b)^2 := by
    have : c = -(a*xi^2 + b*xi) := by linarith
    rw [this]; ring
  rw [hdisc, Real.sqrt_sq p2.le]
  refine ⟨pow_pos p2 2, ?_⟩
  have e : -b - (2*a*xi + b) = -2 * (a*xi + b) := by ring
  rw [e]; intro h0'; nlinarith

/-- the same side conditions for every `y` of the closed bin `[y_k, y_{k+1}]`, in the syntax of the
generated `inverse` -/
theorem binInv_side {xk xk1 yk yk1 dk dk1 : ℝ} (h : BinOK xk xk1 yk yk1 dk dk1) {y : ℝ}
    (hy : y ∈ Set.Icc yk yk1) :
    let sk := ((yk1 - yk) / (xk1 - xk))
    let t := ((y - yk) * ((dk1 + dk) - (2 * sk)))
    let a := (((yk1 - yk) * (sk - dk)) + t)
    let b := (((yk1 - yk) * dk) - t)
    let c := ((-sk) * (y - yk))
    0 < (b * b) - ((4 * a) * c) ∧ (-b) - Real.sqrt ((b * b) - ((4 * a) * c)) ≠ 0 := by
  obtain ⟨x, hx, hxy⟩ := binFwd_surj h hy
  have hside := rqs_root_side ((x - xk) / (xk1 - xk)) ((yk1 - yk) / (xk1 - xk)) dk dk1 (yk1 - yk)
    h.s_pos h.h0 h.h1 (sub_pos.mpr h.hy) (h.xi_nonneg hx.1) (h.xi_le_one hx.2)
  dsimp only at hside
  have hu : y - yk = (yk1 - yk) * rqN ((yk1 - yk) / (xk1 - xk)) dk ((x - xk) / (xk1 - xk)) /
      rqD ((yk1 - yk) / (xk1 - xk)) dk dk1 ((x - xk) / (xk1 - xk)) := by
    rw [← hxy]; unfold binFwd; rw [add_sub_cancel_left]
  dsimp only
  rw [hu]
  exact hside

theorem inverse_safe_env {p : RationalQuadraticSpline ℝ} (h : RqsWF p) {env : Env EF}
    (he : EnvOK p env) {x : ℝ} (hx : env.s 0 = fin x) :
    Safe env (RationalQuadraticSpline.inverse.ast AdK.X) := by
  obtain ⟨hr1, hr2⟩ := robust_mem h x
  obtain ⟨k, hb⟩ := in_bounds_bin_y h hr1 hr2
  have hky := hb.1
  have hk : k + 1 < p.x_pos.length := by rw [← h.len_y]; exact hky
  have hkd : k + 1 < p.derivatives.length := by rw [h.len_d]; exact hk
  have hok := h.binOK hk
  have hw : nth p.x_pos (k + 1) - nth p.x_pos k ≠ 0 := (sub_pos.mpr hok.hx).ne'
  have hside := binInv_side hok (y := robust p x) ⟨hb.le, hb.le' h.y_inc⟩
  dsimp only at hside
  obtain ⟨yr, hyr⟩ : ∃ yr, yr = robust p x := ⟨_, rfl⟩
  rw [← hyr] at hb hside
  have r0k := resolveIdx_nat (Nat.lt_of_succ_lt hk)
  have r0k1 := resolveIdx_nat_succ hk
  have r1k := resolveIdx_nat (Nat.lt_of_succ_lt hky)
  have r1k1 := resolveIdx_nat_succ hky
  have r2k := resolveIdx_nat (Nat.lt_of_succ_lt hkd)
  have r2k1 := resolveIdx_nat_succ hkd
  have hbu := bin_unique h.y_inc hb
  obtain ⟨s, hs⟩ : ∃ s, s = (nth p.y_pos (k + 1) - nth p.y_pos k) / (nth p.x_pos (k + 1) - nth p.x_pos k) :=
    ⟨_, rfl⟩
  rw [← hs] at hside
  obtain ⟨T, hT⟩ : ∃ T, T = (yr - nth p.y_pos k) *
      (nth p.derivatives (k + 1) + nth p.derivatives k - 2 * s) := ⟨_, rfl⟩
  rw [← hT] at hside
  obtain ⟨a, ha⟩ : ∃ a, a = (nth p.y_pos (k + 1) - nth p.y_pos k) * (s - nth p.derivatives k) + T :=
    ⟨_, rfl⟩
  obtain ⟨b, hb'⟩ : ∃ b, b = (nth p.y_pos (k + 1) - nth p.y_pos k) * nth p.derivatives k - T := ⟨_, rfl⟩
  obtain ⟨c, hc⟩ : ∃ c, c = -s * (yr - nth p.y_pos k) := ⟨_, rfl⟩
  rw [← ha, ← hb', ← hc] at hside
  obtain ⟨hdisc, hden2⟩ := hside
  simp only [RationalQuadraticSpline.inverse.ast]
  refine safe_letE yr ?_ ?_ ?_
  · ev_simp
  · ev_simp
    simp only [num_le, hyr, robust, Bool.and_eq_true, decide_eq_true_eq]
    split <;> rfl
  refine safe_letE (nth p.x_pos k) ?_ ?_ ?_
  · ev_simp
  · ev_simp
  refine safe_letE (nth p.x_pos (k + 1)) ?_ ?_ ?_
  · ev_simp
  · ev_simp
  refine safe_letE (nth p.y_pos k) ?_ ?_ ?_
  · ev_simp
  · ev_simp
  refine safe_letE (nth p.y_pos (k + 1)) ?_ ?_ ?_
  · ev_simp
  · ev_simp
  refine safe_letE s ?_ ?_ ?_
  · ev_simp; exact hw
  · ev_simp; rw [hs]
  refine safe_letE T ?_ ?_ ?_
  · ev_simp
  · ev_simp; rw [hT]
  refine safe_letE a ?_ ?_ ?_
  · ev_simp
  · ev_simp; rw [ha]
  refine safe_letE b ?_ ?_ ?_
  · ev_simp
  · ev_simp; rw [hb']
  refine safe_letE c ?_ ?_ ?_
  · ev_simp
  · ev_simp; rw [hc]
  refine safe_letE (Real.sqrt (b * b - 4 * a * c)) ?_ ?_ ?_
  · ev_simp
    intro r hr; cases hr; exact hdisc
  · ev_simp; exact num_sqrt hdisc.le
  refine safe_letE _ ?_ (by ev_simp; rw [fin_div hden2]) ?_
  · ev_simp; exact hden2
  refine safe_letE _ ?_ (by ev_simp; rfl) ?_
  · ev_simp
  refine safe_letE_any ?_ (fun r => ?_)
  · ev_simp
  · ev_simp

/-! ### the pairs `transform_and_log_det`, `inverse_and_log_det` in a general environment -/

theorem tld_safe_env {p : RationalQuadraticSpline ℝ} (h : RqsWF p) {env : Env EF}
    (he : EnvOK p env) {x : ℝ} (hx : env.s 0 = fin x) :
    Safe env (RationalQuadraticSpline.transform_and_log_det.ast AdK.X).1 ∧
    Safe env (RationalQuadraticSpline.transform_and_log_det.ast AdK.X).2 := by
  have hT := transform_safe_env h he hx
  obtain ⟨t, ht⟩ := isFin_iff.mp (safe_eval_fin _ _ hT)
  have he1 : EnvOK p (env.set 33001 (fin t)) := he.set (by norm_num) (by norm_num) _
  have hx1 : (env.set 33001 (fin t)).s 0 = fin x := by
    simp only [Env.set, Nat.reduceEqDiff, if_false]; exact hx
  obtain ⟨q, hq, hS, hE⟩ := derivative_safe_env h he1 (Or.inl rfl) hx1
  constructor
  · refine safe_letE t hT ht (safe_letE q hS hE ?_)
    simp only [Safe, Env.set, Nat.reduceEqDiff, if_true, if_false, ↓reduceIte, isFin_fin]
  · refine safe_letE t hT ht (safe_letE q hS hE ?_)
    simp only [Safe, PrimSafe, Expr.eval, Env.set, Nat.reduceEqDiff, if_true, if_false, ↓reduceIte,
      isFin_fin, true_and]
    intro r hr; cases hr; exact hq

theorem ild_safe_env {p : RationalQuadraticSpline ℝ} (h : RqsWF p) {env : Env EF}
    (he : EnvOK p env) {y : ℝ} (hy : env.s 0 = fin y) :
    Safe env (RationalQuadraticSpline.inverse_and_log_det.ast AdK.X).1 ∧
    Safe env (RationalQuadraticSpline.inverse_and_log_det.ast AdK.X).2 := by
  have hI := inverse_safe_env h he hy
  obtain ⟨v, hv⟩ := isFin_iff.mp (safe_eval_fin _ _ hI)
  have he1 : EnvOK p (env.set 34001 (fin v)) := he.set (by norm_num) (by norm_num) _
  have hx1 : (env.set 34001 (fin v)).s 34001 = fin v := by
    simp only [Env.set, if_true]
  obtain ⟨q, hq, hS, hE⟩ := derivative_safe_env h he1 (Or.inr rfl) hx1
  constructor
  · refine safe_letE v hI hv (safe_letE q hS hE ?_)
    simp only [Safe, Env.set, Nat.reduceEqDiff, if_true, if_false, ↓reduceIte, isFin_fin]
  · refine safe_letE v hI hv (safe_letE q hS hE ?_)
    simp only [Safe, PrimSafe, Expr.eval, Env.set, Nat.reduceEqDiff, if_true, if_false, ↓reduceIte,
      isFin_fin, true_and]
    intro r hr; cases hr; exact hq

/-! ### main theorems: every real input, in the environment of `p` -/
section main
variable {p : RationalQuadraticSpline ℝ}

/-- the kernel environment of `p` at input `x` -/
abbrev envP (p : RationalQuadraticSpline ℝ) (x : ℝ) : Env EF :=
  AdK.envOf x [p.interval.1, p.interval.2] [p.x_pos, p.y_pos, p.derivatives]

theorem rqs_transform_safe (h : RqsWF p) (x : ℝ) :
    Safe (AdK.envOf x [p.interval.1, p.interval.2] [p.x_pos, p.y_pos, p.derivatives])
      (RationalQuadraticSpline.transform.ast AdK.X) :=
  transform_safe_env h (envOK_envOf p x) rfl

theorem rqs_inverse_safe (h : RqsWF p) (y : ℝ) :
    Safe (AdK.envOf y [p.interval.1, p.interval.2] [p.x_pos, p.y_pos, p.derivatives])
      (RationalQuadraticSpline.inverse.ast AdK.X) :=
  inverse_safe_env h (envOK_envOf p y) rfl

theorem rqs_derivative_safe (h : RqsWF p) (x : ℝ) :
    Safe (AdK.envOf x [p.interval.1, p.interval.2] [p.x_pos, p.y_pos, p.derivatives])
      (RationalQuadraticSpline.derivative.ast AdK.X) := by
  obtain ⟨q, _, hS, _⟩ := derivative_safe_env h (envOK_envOf p x) (Or.inl rfl) (x := x) rfl
  exact hS

/-- the derivative AST evaluates to a strictly positive finite number (so `log` is safe) -/
theorem rqs_derivative_eval_pos (h : RqsWF p) (x : ℝ) :
    ∃ q : ℝ, 0 < q ∧ (RationalQuadraticSpline.derivative.ast AdK.X).eval
      (AdK.envOf x [p.interval.1, p.interval.2] [p.x_pos, p.y_pos, p.derivatives]) = fin q := by
  obtain ⟨q, hq, _, hE⟩ := derivative_safe_env h (envOK_envOf p x) (Or.inl rfl) (x := x) rfl
  exact ⟨q, hq, hE⟩

theorem rqs_tld_safe (h : RqsWF p) (x : ℝ) :
    Safe (AdK.envOf x [p.interval.1, p.interval.2] [p.x_pos, p.y_pos, p.derivatives])
      (RationalQuadraticSpline.transform_and_log_det.ast AdK.X).1 ∧
    Safe (AdK.envOf x [p.interval.1, p.interval.2] [p.x_pos, p.y_pos, p.derivatives])
      (RationalQuadraticSpline.transform_and_log_det.ast AdK.X).2 :=
  tld_safe_env h (envOK_envOf p x) rfl

theorem rqs_ild_safe (h : RqsWF p) (y : ℝ) :
    Safe (AdK.envOf y [p.interval.1, p.interval.2] [p.x_pos, p.y_pos, p.derivatives])
      (RationalQuadraticSpline.inverse_and_log_det.ast AdK.X).1 ∧
    Safe (AdK.envOf y [p.interval.1, p.interval.2] [p.x_pos, p.y_pos, p.derivatives])
      (RationalQuadraticSpline.inverse_and_log_det.ast AdK.X).2 :=
  ild_safe_env h (envOK_envOf p y) rfl

/-- consequence (C18): the log-determinant of `transform_and_log_det` has a finite value and only
finite adjoints — w.r.t. the input, the interval ends and every knot / derivative parameter — for
every finite incoming cotangent, at every real input -/
theorem rqs_tld_logdet_grad_fin (h : RqsWF p) (x : ℝ) (ct : EF) (hct : isFin ct) :
    isFin ((RationalQuadraticSpline.transform_and_log_det.ast AdK.X).2.eval (envP p x)) ∧
    AllFin ((RationalQuadraticSpline.transform_and_log_det.ast AdK.X).2.vjp (envP p x) ct) :=
  ⟨safe_eval_fin _ _ (rqs_tld_safe h x).2, safe_vjp_fin _ _ (rqs_tld_safe h x).2 ct hct⟩

theorem rqs_ild_logdet_grad_fin (h : RqsWF p) (y : ℝ) (ct : EF) (hct : isFin ct) :
    isFin ((RationalQuadraticSpline.inverse_and_log_det.ast AdK.X).2.eval (envP p y)) ∧
    AllFin ((RationalQuadraticSpline.inverse_and_log_det.ast AdK.X).2.vjp (envP p y) ct) :=
  ⟨safe_eval_fin _ _ (rqs_ild_safe h y).2, safe_vjp_fin _ _ (rqs_ild_safe h y).2 ct hct⟩

end main

/-! ### non-vacuity -/
theorem rqs_tld_safe_instance (x : ℝ) :
    Safe (envP exampleSpline x) (RationalQuadraticSpline.transform_and_log_det.ast AdK.X).1 ∧
    Safe (envP exampleSpline x) (RationalQuadraticSpline.transform_and_log_det.ast AdK.X).2 :=
  rqs_tld_safe rqsWF_instance x

theorem rqs_ild_safe_instance (y : ℝ) :
    Safe (envP exampleSpline y) (RationalQuadraticSpline.inverse_and_log_det.ast AdK.X).1 ∧
    Safe (envP exampleSpline y) (RationalQuadraticSpline.inverse_and_log_det.ast AdK.X).2 :=
  rqs_ild_safe rqsWF_instance y

end AdRqs
end
