import Flowjaxv.Proofs.AdTheory
import Mathlib.Analysis.SpecialFunctions.Trigonometric.DerivHyp
import Flowjaxv.Gen.LeavesAst
/-!
# The generated kernels' ASTs are `Safe` (finite value, finite adjoints) at every finite input
-/
set_option linter.unusedSimpArgs false
set_option linter.unusedVariables false
noncomputable section
open Ad EF AdT GenAst

namespace AdK

/-- environment of a kernel: variable 0 = input, variable i+1 = scalar parameter i, vector j -/
def envOf (x : ℝ) (ss : List ℝ) (vs : List (List ℝ)) : Env EF :=
  { s := fun i => if i = 0 then fin x else fin (ss.getD (i - 1) 0), v := fun j => (vs.getD j []).map fin }

@[simp] theorem envOf_s0 (x ss vs) : (envOf x ss vs).s 0 = fin x := rfl
@[simp] theorem envOf_s1 (x a ss vs) : (envOf x (a :: ss) vs).s 1 = fin a := rfl
@[simp] theorem envOf_s2 (x a b ss vs) : (envOf x (a :: b :: ss) vs).s 2 = fin b := rfl
@[simp] theorem envOf_s3 (x a b c ss vs) : (envOf x (a :: b :: c :: ss) vs).s 3 = fin c := rfl

abbrev X : Expr EF := Expr.var 0

/-! ### Affine / Loc / Scale -/
theorem affine_transform_safe (loc scale x : ℝ) :
    Safe (envOf x [loc, scale] []) (Affine.transform.ast X) := by
  simp [Affine.transform.ast, Safe]

theorem affine_inverse_safe (loc scale x : ℝ) (h : scale ≠ 0) :
    Safe (envOf x [loc, scale] []) (Affine.inverse.ast X) := by
  simp [Affine.inverse.ast, Safe, Expr.eval, h]

theorem affine_tld_safe (loc scale x : ℝ) (h : scale ≠ 0) :
    Safe (envOf x [loc, scale] []) (Affine.transform_and_log_det.ast X).1 ∧
    Safe (envOf x [loc, scale] []) (Affine.transform_and_log_det.ast X).2 := by
  refine ⟨by simp [Affine.transform_and_log_det.ast, Safe], ?_⟩
  simp [Affine.transform_and_log_det.ast, Safe, Expr.eval, applyPrim, PrimSafe, h]

theorem affine_ild_safe (loc scale x : ℝ) (h : scale ≠ 0) :
    Safe (envOf x [loc, scale] []) (Affine.inverse_and_log_det.ast X).1 ∧
    Safe (envOf x [loc, scale] []) (Affine.inverse_and_log_det.ast X).2 := by
  refine ⟨by simp [Affine.inverse_and_log_det.ast, Safe, Expr.eval, h], ?_⟩
  simp [Affine.inverse_and_log_det.ast, Safe, Expr.eval, applyPrim, PrimSafe, h]

/-! ### Exp, SoftPlus, Tanh (forward everywhere; inverse on the codomain) -/
theorem exp_tld_safe (x : ℝ) :
    Safe (envOf x [] []) (Exp.transform_and_log_det.ast X).1 ∧ Safe (envOf x [] []) (Exp.transform_and_log_det.ast X).2 := by
  constructor <;> simp [Exp.transform_and_log_det.ast, Safe, PrimSafe]

theorem exp_ild_safe (y : ℝ) (h : 0 < y) :
    Safe (envOf y [] []) (Exp.inverse_and_log_det.ast X).1 ∧ Safe (envOf y [] []) (Exp.inverse_and_log_det.ast X).2 := by
  constructor <;> simp [Exp.inverse_and_log_det.ast, Safe, PrimSafe, Expr.eval, Env.set, h, applyPrim, EF.num_log h]

theorem softplus_tld_safe (x : ℝ) :
    Safe (envOf x [] []) (SoftPlus.transform_and_log_det.ast X).1 ∧
    Safe (envOf x [] []) (SoftPlus.transform_and_log_det.ast X).2 := by
  constructor <;> simp [SoftPlus.transform_and_log_det.ast, Safe, PrimSafe]

theorem softplus_inverse_safe (y : ℝ) (h : 0 < y) : Safe (envOf y [] []) (SoftPlus.inverse.ast X) := by
  have h1 : Real.exp (-y) < 1 := by rw [Real.exp_lt_one_iff]; linarith
  simp [SoftPlus.inverse.ast, Safe, PrimSafe, Expr.eval, applyPrim]
  linarith

theorem tanh_tld_safe (x : ℝ) :
    Safe (envOf x [] []) (Tanh.transform_and_log_det.ast X).1 ∧
    Safe (envOf x [] []) (Tanh.transform_and_log_det.ast X).2 := by
  constructor <;> simp [Tanh.transform_and_log_det.ast, tanhLogGrad.ast, Safe, PrimSafe, Expr.eval, applyPrim]

theorem tanh_inverse_safe (y : ℝ) (h : |y| < 1) : Safe (envOf y [] []) (Tanh.inverse.ast X) := by
  simp [Tanh.inverse.ast, Safe, PrimSafe, Expr.eval, h]

/-! ### LeakyTanh: all four methods, every real input (switch points included) -/
theorem leaky_transform_safe (m c g x : ℝ) : Safe (envOf x [m, c, g] []) (LeakyTanh.transform.ast X) := by
  simp [LeakyTanh.transform.ast, Safe, PrimSafe, Env.set, Expr.eval, applyPrim]

/-- the repaired inverse (double `where`): the `arctanh` branch is fed `0` wherever it is not selected -/
theorem leaky_inverse_safe (m c g y : ℝ) (hg : g ≠ 0) :
    Safe (envOf y [m, c, g] []) (LeakyTanh.inverse.ast X) := by
  have ht1 := Real.tanh_lt_one m
  simp only [LeakyTanh.inverse.ast, Safe, PrimSafe, Expr.eval, applyPrim, Env.set, envOf_s0, envOf_s1, envOf_s2, envOf_s3,
    EF.num_tanh, EF.num_abs, EF.num_le, EF.ofInt_eq, EF.num_sign, EF.fin_mul, EF.fin_sub, EF.isFin_fin, true_and, and_true]
  by_cases hl : Real.tanh m ≤ |y|
  · simp [hl, hg, EF.fin_div hg, EF.num_artanh]
  · have : |y| < 1 := lt_trans (not_le.mp hl) ht1
    simp [hl, hg, EF.fin_div hg, EF.num_artanh this, this]

theorem leaky_tld_safe (m c g x : ℝ) (hg : 0 < g) :
    Safe (envOf x [m, c, g] []) (LeakyTanh.transform_and_log_det.ast X).1 ∧
    Safe (envOf x [m, c, g] []) (LeakyTanh.transform_and_log_det.ast X).2 := by
  have h2 : (0:ℝ) < 2 := by norm_num
  constructor <;>
    simp [LeakyTanh.transform_and_log_det.ast, LeakyTanh.transform.ast, tanhLogGrad.ast, Safe, PrimSafe, Env.set,
      Expr.eval, applyPrim, hg, EF.num_log hg, EF.num_log h2] <;>
    split_ifs <;> simp

theorem leaky_ild_safe (m c g y : ℝ) (hg : 0 < g) :
    Safe (envOf y [m, c, g] []) (LeakyTanh.inverse_and_log_det.ast X).1 ∧
    Safe (envOf y [m, c, g] []) (LeakyTanh.inverse_and_log_det.ast X).2 := by
  have ht1 := Real.tanh_lt_one m
  have hg' : g ≠ 0 := hg.ne'
  have h2 : (0:ℝ) < 2 := by norm_num
  constructor
  all_goals
    simp only [LeakyTanh.inverse_and_log_det.ast, LeakyTanh.inverse.ast, tanhLogGrad.ast, Safe, PrimSafe, Expr.eval,
      applyPrim, Env.set, envOf_s0, envOf_s1, envOf_s2, envOf_s3, EF.num_tanh, EF.num_abs, EF.num_le, EF.ofInt_eq,
      EF.num_sign, EF.fin_mul, EF.fin_sub, EF.isFin_fin, true_and, and_true]
    by_cases hl : Real.tanh m ≤ |y|
    · simp [hl, hg, hg', EF.fin_div hg', EF.num_artanh, EF.num_log hg, EF.num_log h2]
    · have : |y| < 1 := lt_trans (not_le.mp hl) ht1
      simp [hl, hg, hg', EF.fin_div hg', EF.num_artanh this, this, EF.num_log hg, EF.num_log h2]

end AdK
end
