import Mathlib.Tactic
import Flowjaxv.Proofs.RealInst
import Flowjaxv.Model.Masks
/-!
# C09 — proofs about the mask / masked-network model (`Model/Masks.lean`)
-/
open Masks

namespace MasksPf

theorem entry_eq (m : Mask) (r c : Nat) :
    entry m r c = ((m[r]?.getD [])[c]?).getD false := by
  simp [entry, List.getD_eq_getElem?_getD]

theorem entry_of_getElem {m : Mask} {r c : Nat} (hr : r < m.length) (hc : c < m[r].length) :
    entry m r c = m[r][c] := by
  simp [entry_eq, hr, hc]

/-! ### rank_based_mask -/
theorem rankBasedMask_shape (i o : List Int) (eq : Bool) :
    HasShape (rankBasedMask i o eq) o.length i.length := by
  constructor
  · simp [rankBasedMask]
  · intro row hrow
    simp only [rankBasedMask, List.mem_map] at hrow
    obtain ⟨a, _, rfl⟩ := hrow
    simp

theorem entry_rankBasedMask (i o : List Int) (eq : Bool) {r c : Nat} (hr : r < o.length) (hc : c < i.length) :
    entry (rankBasedMask i o eq) r c = if eq then decide (o[r] ≥ i[c]) else decide (o[r] > i[c]) := by
  simp [entry_eq, rankBasedMask, hr, hc]

theorem entry_rankBasedMask_oob (i o : List Int) (eq : Bool) {r c : Nat} (h : ¬ (r < o.length ∧ c < i.length)) :
    entry (rankBasedMask i o eq) r c = false := by
  simp only [entry_eq, rankBasedMask]
  by_cases hr : r < o.length
  · have hc : ¬ c < i.length := fun hc => h ⟨hr, hc⟩
    simp [hr, hc]
  · simp [hr]

/-! ### lists of the form `(range n).flatMap (fun k => replicate b (f k))` -/
theorem flatMap_replicate_length {β : Type} (f : Nat → β) (b n : Nat) :
    ((List.range n).flatMap fun k => List.replicate b (f k)).length = n * b := by
  induction n with
  | zero => simp
  | succ n ih => simp [List.range_succ, List.flatMap_append, ih, Nat.succ_mul]

theorem flatMap_replicate_getElem? {β : Type} (f : Nat → β) (b n r : Nat) (hr : r < n * b) :
    ((List.range n).flatMap fun k => List.replicate b (f k))[r]? = some (f (r / b)) := by
  induction n with
  | zero => simp at hr
  | succ n ih =>
    rw [List.range_succ, List.flatMap_append]
    by_cases h : r < n * b
    · rw [List.getElem?_append_left (by rw [flatMap_replicate_length]; exact h)]
      exact ih h
    · have hb : 0 < b := by
        rcases Nat.eq_zero_or_pos b with h0 | h0
        · subst h0; simp at hr
        · exact h0
      rw [List.getElem?_append_right (by rw [flatMap_replicate_length]; omega), flatMap_replicate_length]
      have h1 : r - n * b < b := by rw [Nat.succ_mul] at hr; omega
      have h2 : r / b = n := by
        rw [Nat.succ_mul] at hr
        have h3 : n * b ≤ r := by omega
        apply Nat.div_eq_of_lt_le
        · rw [Nat.mul_comm] at h3; rw [Nat.mul_comm]; exact h3
        · rw [Nat.succ_mul]; exact hr
      simp [h1, h2]


/-! ### block_diag_mask -/
theorem blockDiagRow_getElem? (b1 n k c : Nat) (hk : k < n) (hc : c < n * b1) :
    (List.replicate (k * b1) false ++ List.replicate b1 true ++ List.replicate ((n - 1 - k) * b1) false)[c]?
      = some (decide (c / b1 = k)) := by
  have hb : 0 < b1 := by
    rcases Nat.eq_zero_or_pos b1 with h0 | h0
    · subst h0; simp at hc
    · exact h0
  have hlen : k * b1 + b1 + (n - 1 - k) * b1 = n * b1 := by
    have : n = k + 1 + (n - 1 - k) := by omega
    conv_rhs => rw [this]
    ring
  have hdiv : c / b1 = k ↔ k * b1 ≤ c ∧ c < k * b1 + b1 := by
    rw [Nat.div_eq_iff hb]; omega
  simp only [List.getElem?_append, List.length_append, List.length_replicate, List.getElem?_replicate]
  by_cases h1 : c < k * b1
  · have : ¬ (c / b1 = k) := by rw [hdiv]; omega
    simp [h1, this, show c < k * b1 + b1 by omega]
  · by_cases h2 : c < k * b1 + b1
    · have : c / b1 = k := by rw [hdiv]; omega
      simp [h1, h2, this, show c - k * b1 < b1 by omega]
    · have : ¬ (c / b1 = k) := by rw [hdiv]; omega
      have h3 : c - (k * b1 + b1) < (n - 1 - k) * b1 := by omega
      simp [h2, this, h3]

theorem blockDiagMask_getElem? (b0 b1 n r : Nat) (hr : r < n * b0) :
    (blockDiagMask b0 b1 n)[r]? = some (List.replicate ((r / b0) * b1) false ++ List.replicate b1 true ++
        List.replicate ((n - 1 - r / b0) * b1) false) := by
  unfold blockDiagMask
  exact flatMap_replicate_getElem? _ b0 n r hr

theorem blockDiagMask_shape (b0 b1 n : Nat) : HasShape (blockDiagMask b0 b1 n) (b0 * n) (b1 * n) := by
  constructor
  · unfold blockDiagMask; rw [flatMap_replicate_length, Nat.mul_comm]
  · intro row hrow
    simp only [blockDiagMask, List.mem_flatMap, List.mem_range, List.mem_replicate] at hrow
    obtain ⟨k, hk, _, rfl⟩ := hrow
    simp only [List.length_append, List.length_replicate]
    have : n = k + 1 + (n - 1 - k) := by omega
    conv_rhs => rw [this]
    ring

theorem entry_blockDiagMask (b0 b1 n r c : Nat) (hr : r < b0 * n) (hc : c < b1 * n) :
    entry (blockDiagMask b0 b1 n) r c = decide (r / b0 = c / b1) := by
  have hb0 : 0 < b0 := by
    rcases Nat.eq_zero_or_pos b0 with h0 | h0
    · subst h0; simp at hr
    · exact h0
  have hk : r / b0 < n := by rw [Nat.div_lt_iff_lt_mul hb0, Nat.mul_comm]; exact hr
  rw [entry_eq, blockDiagMask_getElem? b0 b1 n r (by rw [Nat.mul_comm]; exact hr)]
  simp only [Option.getD_some]
  rw [blockDiagRow_getElem? b1 n (r / b0) c hk (by rw [Nat.mul_comm]; exact hc)]
  simp [eq_comm]

/-! ### block_tril_mask: the loop and its closed form -/
theorem setBlockTrue_length (m : Mask) (row col w : Nat) : (setBlockTrue m row col w).length = m.length := by
  simp [setBlockTrue]

theorem setBlockTrue_shape {m : Mask} {rows cols : Nat} (h : HasShape m rows cols) (row col w : Nat) :
    HasShape (setBlockTrue m row col w) rows cols := by
  refine ⟨by rw [setBlockTrue_length]; exact h.1, ?_⟩
  intro rowv hrow
  obtain ⟨r, hr, rfl⟩ := List.getElem_of_mem hrow
  have hr' : r < m.length := by rw [setBlockTrue_length] at hr; exact hr
  have := h.2 m[r] (List.getElem_mem hr')
  simp only [setBlockTrue, List.getElem_mapIdx]
  split <;> simp [this]

theorem entry_setBlockTrue (m : Mask) (row col w r c : Nat) (hr : r < m.length) (hc : c < m[r].length) :
    entry (setBlockTrue m row col w) r c
      = ((decide (row ≤ r) && (decide (col ≤ c) && decide (c < col + w))) || entry m r c) := by
  rw [entry_of_getElem hr hc]
  have hr' : r < (setBlockTrue m row col w).length := by rw [setBlockTrue_length]; exact hr
  by_cases h : row ≤ r
  · have hc' : c < (setBlockTrue m row col w)[r].length := by
      simp [setBlockTrue, List.getElem_mapIdx, h, hc]
    rw [entry_of_getElem hr' hc']
    simp [setBlockTrue, List.getElem_mapIdx, h]
  · have hc' : c < (setBlockTrue m row col w)[r].length := by
      simp [setBlockTrue, List.getElem_mapIdx, h, hc]
    rw [entry_of_getElem hr' hc']
    simp [setBlockTrue, List.getElem_mapIdx, h]

theorem zeros_shape (rows cols : Nat) : HasShape (zeros rows cols) rows cols := by
  constructor
  · simp [zeros]
  · intro row hrow
    simp only [zeros, List.mem_replicate] at hrow
    rw [hrow.2]; simp

theorem entry_zeros (rows cols r c : Nat) : entry (zeros rows cols) r c = false := by
  simp only [entry_eq, zeros]
  by_cases hr : r < rows
  · by_cases hc : c < cols <;> simp [hr, hc]
  · simp [hr]

/-- loop invariant of `block_tril_mask` after `m` iterations -/
theorem blockTril_loop (b0 b1 : Nat) (k : Int) (rows cols m : Nat) :
    HasShape ((List.range m).foldl (blockTrilStep b0 b1 k) (zeros rows cols)) rows cols ∧
    ∀ r c, r < rows → c < cols →
      (entry ((List.range m).foldl (blockTrilStep b0 b1 k) (zeros rows cols)) r c = true ↔
        ∃ i, i < m ∧ (max 0 ((i : Int) - k)).toNat * b0 ≤ r ∧ i * b1 ≤ c ∧ c < i * b1 + b1) := by
  induction m with
  | zero =>
    refine ⟨by simpa using zeros_shape rows cols, ?_⟩
    intro r c _ _
    simp [entry_zeros]
  | succ m ih =>
    obtain ⟨hshape, hent⟩ := ih
    rw [List.range_succ, List.foldl_append]
    simp only [List.foldl_cons, List.foldl_nil]
    refine ⟨setBlockTrue_shape hshape _ _ _, ?_⟩
    intro r c hr hc
    set M := (List.range m).foldl (blockTrilStep b0 b1 k) (zeros rows cols) with hM
    have hr' : r < M.length := by rw [hshape.1]; exact hr
    have hc' : c < M[r].length := by rw [hshape.2 _ (List.getElem_mem hr')]; exact hc
    unfold blockTrilStep
    rw [entry_setBlockTrue M _ _ _ r c hr' hc']
    simp only [Bool.or_eq_true, Bool.and_eq_true, decide_eq_true_eq]
    rw [hent r c hr hc]
    constructor
    · rintro (⟨h1, h2, h3⟩ | ⟨i, hi, h⟩)
      · exact ⟨m, Nat.lt_succ_self m, h1, h2, h3⟩
      · exact ⟨i, Nat.lt_succ_of_lt hi, h⟩
    · rintro ⟨i, hi, h⟩
      rcases Nat.lt_succ_iff_lt_or_eq.mp hi with hlt | heq
      · exact Or.inr ⟨i, hlt, h⟩
      · subst heq; exact Or.inl h

theorem blockTrilMask_shape (b0 b1 n : Nat) (k : Int) : HasShape (blockTrilMask b0 b1 n k) (b0 * n) (b1 * n) :=
  (blockTril_loop b0 b1 k (b0 * n) (b1 * n) n).1

theorem entry_blockTrilMask (b0 b1 n : Nat) (k : Int) (r c : Nat) (hr : r < b0 * n) (hc : c < b1 * n) :
    entry (blockTrilMask b0 b1 n k) r c = true ↔ ((c / b1 : Nat) : Int) - k ≤ ((r / b0 : Nat) : Int) := by
  have hb0 : 0 < b0 := by
    rcases Nat.eq_zero_or_pos b0 with h0 | h0
    · subst h0; simp at hr
    · exact h0
  have hb1 : 0 < b1 := by
    rcases Nat.eq_zero_or_pos b1 with h0 | h0
    · subst h0; simp at hc
    · exact h0
  unfold blockTrilMask
  rw [(blockTril_loop b0 b1 k (b0 * n) (b1 * n) n).2 r c hr hc]
  have key : ∀ i : Nat, ((max 0 ((i : Int) - k)).toNat * b0 ≤ r ↔ (i : Int) - k ≤ ((r / b0 : Nat) : Int)) := by
    intro i
    rw [← Nat.le_div_iff_mul_le hb0]
    generalize r / b0 = q
    omega
  constructor
  · rintro ⟨i, _, h1, h2, h3⟩
    have : c / b1 = i := by rw [Nat.div_eq_iff hb1]; omega
    rw [this]; exact (key i).mp h1
  · intro h
    refine ⟨c / b1, ?_, (key _).mpr h, ?_, ?_⟩
    · rw [Nat.div_lt_iff_lt_mul hb1, Nat.mul_comm]; exact hc
    · exact Nat.div_mul_le_self c b1
    · have := Nat.lt_div_mul_add hb1 (a := c); omega


/-! ### rank vectors of `MaskedAutoregressive.__init__` -/
theorem jmod_zero (a : Int) : jmod a 0 = 0 := by simp [jmod]

theorem jmod_natCast_pos (a b : Nat) (hb : 0 < b) : jmod (a : Int) (b : Int) = ((a % b : Nat) : Int) := by
  have hb' : (b : Int) ≠ 0 := by omega
  simp only [jmod, hb', if_false]
  rw [Int.fmod_eq_emod_of_nonneg _ (by omega)]
  simp

theorem arange_length (n : Nat) : (arange n).length = n := by simp [arange]

theorem arange_getElem? (n j : Nat) (hj : j < n) : (arange n)[j]? = some (j : Int) := by
  simp [arange, hj]

theorem mafInRanks_length (dim : Nat) (cd : Option Nat) : (mafInRanks dim cd).length = dim + cd.getD 0 := by
  cases cd <;> simp [mafInRanks, arange_length]

theorem mafInRanks_x (dim : Nat) (cd : Option Nat) (j : Nat) (hj : j < dim) :
    (mafInRanks dim cd)[j]? = some (j : Int) := by
  cases cd with
  | none => exact arange_getElem? dim j hj
  | some c =>
    simp only [mafInRanks]
    rw [List.getElem?_append_left (by rw [arange_length]; exact hj)]
    exact arange_getElem? dim j hj

theorem mafInRanks_cond (dim c j : Nat) (h1 : dim ≤ j) (h2 : j < dim + c) :
    (mafInRanks dim (some c))[j]? = some (-1 : Int) := by
  simp only [mafInRanks]
  rw [List.getElem?_append_right (by rw [arange_length]; exact h1), arange_length]
  simp [show j - dim < c by omega]

theorem mafHiddenRanks_length (dim width : Nat) (cd : Option Nat) : (mafHiddenRanks dim width cd).length = width := by
  cases cd <;> simp [mafHiddenRanks, arange_length]

theorem mafHiddenRanks_none (dim width u : Nat) (hu : u < width) :
    (mafHiddenRanks dim width none)[u]? = some (jmod (u : Int) ((dim : Int) - 1)) := by
  simp [mafHiddenRanks, arange, hu]

theorem mafHiddenRanks_some (dim width c u : Nat) (hu : u < width) :
    (mafHiddenRanks dim width (some c))[u]? = some (jmod (u : Int) (dim : Int) - 1) := by
  simp [mafHiddenRanks, arange, hu]

theorem mafOutRanks_length (dim np : Nat) : (mafOutRanks dim np).length = dim * np := by
  simp only [mafOutRanks, arange, List.flatMap_map]
  exact flatMap_replicate_length (fun k => (Int.ofNat k)) np dim

theorem mafOutRanks_getElem? (dim np o : Nat) (ho : o < dim * np) :
    (mafOutRanks dim np)[o]? = some ((o / np : Nat) : Int) := by
  simp only [mafOutRanks, arange, List.flatMap_map]
  exact flatMap_replicate_getElem? (fun k => (Int.ofNat k)) np dim o ho

/-! ### the layer masks of `masked_autoregressive_mlp`: closed form of the indexed loop -/
theorem mlpMasks_aux (hidR outR : List Int) (d s total : Nat) (h : s + d = total) :
    List.mapIdx (fun i (ab : List Int × List Int) => rankBasedMask ab.1 ab.2 (i + s != total))
        ((hidR :: (List.replicate d hidR ++ [outR])).zip (List.replicate d hidR ++ [outR]))
      = List.replicate d (rankBasedMask hidR hidR true) ++ [rankBasedMask hidR outR false] := by
  induction d generalizing s with
  | zero =>
    have : s = total := by omega
    simp [this]
  | succ d ih =>
    rw [List.replicate_succ, List.cons_append, List.zip_cons_cons, List.mapIdx_cons, List.replicate_succ,
      List.cons_append]
    have h0 : (0 + s != total) = true := by simp; omega
    rw [h0]
    congr 1
    have := ih (s + 1) (by omega)
    simpa [Nat.add_assoc, Nat.add_comm 1 s] using this

theorem mlpMasks_zero (inR hidR outR : List Int) :
    mlpMasks inR hidR outR 0 = [rankBasedMask inR outR false] := by
  simp [mlpMasks, mlpRanks]

theorem mlpMasks_succ (inR hidR outR : List Int) (d : Nat) :
    mlpMasks inR hidR outR (d + 1) = rankBasedMask inR hidR true ::
      (List.replicate d (rankBasedMask hidR hidR true) ++ [rankBasedMask hidR outR false]) := by
  simp only [mlpMasks, mlpRanks, List.tail_cons]
  rw [List.replicate_succ, List.cons_append, List.zip_cons_cons, List.mapIdx_cons]
  have h0 : (0 != d + 1) = true := by simp
  rw [h0]
  congr 1
  have := mlpMasks_aux hidR outR d 1 (d + 1) (by omega)
  simpa using this

theorem mlpMasks_length (inR hidR outR : List Int) (d : Nat) : (mlpMasks inR hidR outR d).length = d + 1 := by
  cases d with
  | zero => simp [mlpMasks_zero]
  | succ d => simp [mlpMasks_succ]

/-! ### masks are applied at unwrap: `Where(mask, w, 0)` -/
section unwrap
variable {α : Type} [OfNat α 0]

theorem whereMask_length (mask : Mask) (w : List (List α)) :
    (whereMask mask w).length = min mask.length w.length := by
  simp [whereMask]

theorem whereMask_row_length (mask : Mask) (w : List (List α)) (r : Nat) (hr : r < (whereMask mask w).length) :
    (whereMask mask w)[r].length =
      min (mask[r]'(by rw [whereMask_length] at hr; omega)).length (w[r]'(by rw [whereMask_length] at hr; omega)).length := by
  simp [whereMask]

/-- entries of the unwrapped weight: the raw weight where the mask is true, `0` where it is false -/
theorem whereMask_getElem (mask : Mask) (w : List (List α)) (r c : Nat) (hr : r < (whereMask mask w).length)
    (hc : c < (whereMask mask w)[r].length) :
    (whereMask mask w)[r][c] =
      if entry mask r c = true then
        (w[r]'(by rw [whereMask_length] at hr; omega))[c]'(by rw [whereMask_row_length] at hc; omega)
      else 0 := by
  have hr1 : r < mask.length := by rw [whereMask_length] at hr; omega
  have hc1 : c < mask[r].length := by rw [whereMask_row_length] at hc; omega
  rw [entry_of_getElem hr1 hc1]
  simp [whereMask]

theorem whereMask_false (mask : Mask) (w : List (List α)) (r c : Nat) (hr : r < (whereMask mask w).length)
    (hc : c < (whereMask mask w)[r].length) (h : entry mask r c = false) : (whereMask mask w)[r][c] = 0 := by
  rw [whereMask_getElem, if_neg (by simp [h])]

end unwrap

/-! ### dependency of a linear layer on its inputs -/

/-- `v` and `v'` have the same length and agree at every index satisfying `P` -/
def AgreeOn (P : Nat → Prop) (v v' : List ℝ) : Prop :=
  v.length = v'.length ∧ ∀ c (h : c < v.length) (h' : c < v'.length), P c → v[c] = v'[c]

/-- every non-zero entry `(u, c)` of `W` with `Q u` has `P c`: units satisfying `Q` only read inputs satisfying `P` -/
def Sees (W : List (List ℝ)) (P Q : Nat → Prop) : Prop :=
  ∀ u c (hu : u < W.length) (hc : c < W[u].length), Q u → W[u][c] ≠ 0 → P c

theorem dot_congr (row v v' : List ℝ) (hlen : v.length = v'.length)
    (h : ∀ c (h1 : c < row.length) (h2 : c < v.length) (h3 : c < v'.length), row[c] ≠ 0 → v[c] = v'[c]) :
    Jnp.dot row v = Jnp.dot row v' := by
  unfold Jnp.dot
  congr 1
  apply List.ext_getElem
  · simp [hlen]
  · intro c h1 h2
    simp only [List.length_zipWith] at h1 h2
    simp only [List.getElem_zipWith]
    by_cases h0 : row[c]'(by omega) = 0
    · rw [h0]; simp
    · rw [h c (by omega) (by omega) (by omega) h0]

theorem linearApply_length (W : List (List ℝ)) (b v : List ℝ) : (linearApply W b v).length = min W.length b.length := by
  simp [linearApply]

theorem linearApply_getElem (W : List (List ℝ)) (b v : List ℝ) (u : Nat) (hu : u < (linearApply W b v).length) :
    (linearApply W b v)[u] = Jnp.dot (W[u]'(by rw [linearApply_length] at hu; omega)) v
      + b[u]'(by rw [linearApply_length] at hu; omega) := by
  simp [linearApply]

theorem linearApply_agree {W : List (List ℝ)} {P Q : Nat → Prop} (hW : Sees W P Q) (b : List ℝ) {v v' : List ℝ}
    (hv : AgreeOn P v v') : AgreeOn Q (linearApply W b v) (linearApply W b v') := by
  refine ⟨by simp [linearApply_length], ?_⟩
  intro u hu hu' hQ
  rw [linearApply_getElem, linearApply_getElem]
  congr 1
  have hu1 : u < W.length := by rw [linearApply_length] at hu; omega
  apply dot_congr _ _ _ hv.1
  intro c h1 h2 h3 hne
  exact hv.2 c h2 h3 (hW u c hu1 h1 hQ hne)

theorem map_agree {Q : Nat → Prop} (f : ℝ → ℝ) {v v' : List ℝ} (hv : AgreeOn Q v v') :
    AgreeOn Q (v.map f) (v'.map f) := by
  refine ⟨by simp [hv.1], ?_⟩
  intro c h h' hQ
  simp only [List.getElem_map]
  rw [hv.2 c (by simpa using h) (by simpa using h') hQ]

theorem AgreeOn.getElem? {Q : Nat → Prop} {v v' : List ℝ} (hv : AgreeOn Q v v') {o : Nat} (ho : Q o) :
    v[o]? = v'[o]? := by
  by_cases h : o < v.length
  · have h' : o < v'.length := hv.1 ▸ h
    rw [List.getElem?_eq_getElem h, List.getElem?_eq_getElem h', hv.2 o h h' ho]
  · have h' : ¬ o < v'.length := hv.1 ▸ h
    rw [List.getElem?_eq_none (by omega), List.getElem?_eq_none (by omega)]

/-! ### rank-masked layers -/

/-- "index `c` carries a rank (in `ranks`) that is `≤ ρ`" -/
def RankLE (ranks : List Int) (ρ : Int) (c : Nat) : Prop := ∃ h : c < ranks.length, ranks[c] ≤ ρ

/-- a hidden layer (`eq = True`): a unit of rank `≤ ρ` only reads inputs of rank `≤ ρ` — for ALL raw weights -/
theorem sees_hidden (inR outR : List Int) (w : List (List ℝ)) (ρ : Int) :
    Sees (whereMask (rankBasedMask inR outR true) w) (RankLE inR ρ) (RankLE outR ρ) := by
  intro u c hu hc ⟨hu', hρ⟩ hne
  have hent : entry (rankBasedMask inR outR true) u c = true := by
    by_contra hf
    exact hne (whereMask_false _ _ u c hu hc (by simpa using hf))
  by_cases hb : u < outR.length ∧ c < inR.length
  · rw [entry_rankBasedMask inR outR true hb.1 hb.2] at hent
    simp only [if_true, decide_eq_true_eq] at hent
    exact ⟨hb.2, le_trans hent hρ⟩
  · rw [entry_rankBasedMask_oob _ _ _ hb] at hent; exact absurd hent (by simp)

/-- the last layer (`eq = False`): output `o` only reads units of rank `< rank o` -/
theorem sees_last (inR outR : List Int) (w : List (List ℝ)) (o : Nat) (ho : o < outR.length) :
    Sees (whereMask (rankBasedMask inR outR false) w) (RankLE inR (outR[o] - 1)) (fun u => u = o) := by
  intro u c hu hc hQ hne
  subst hQ
  have hent : entry (rankBasedMask inR outR false) u c = true := by
    by_contra hf
    exact hne (whereMask_false _ _ u c hu hc (by simpa using hf))
  by_cases hb : u < outR.length ∧ c < inR.length
  · rw [entry_rankBasedMask inR outR false hb.1 hb.2] at hent
    simp only [Bool.false_eq_true, if_false, decide_eq_true_eq] at hent
    exact ⟨hb.2, by omega⟩
  · rw [entry_rankBasedMask_oob _ _ _ hb] at hent; exact absurd hent (by simp)

/-- a stack of rank-masked layers: `≥`-masks between consecutive rank vectors, `>` on the last one.  The rank
vectors are arbitrary (flowjax repeats one hidden vector). -/
inductive RankChain : List Int → List (MaskedLinear ℝ) → List Int → Prop
  | last (inR outR : List Int) (w : List (List ℝ)) (b : List ℝ) :
      RankChain inR [⟨rankBasedMask inR outR false, w, b⟩] outR
  | cons (inR midR outR : List Int) (w : List (List ℝ)) (b : List ℝ) (rest : List (MaskedLinear ℝ)) :
      RankChain midR rest outR → RankChain inR (⟨rankBasedMask inR midR true, w, b⟩ :: rest) outR

theorem RankChain.ne_nil {inR outR : List Int} {Ls : List (MaskedLinear ℝ)} (h : RankChain inR Ls outR) : Ls ≠ [] := by
  cases h <;> simp

/-- induction over the layers: a hidden unit of rank `≤ ρ` depends only on inputs of rank `≤ ρ` -/
theorem rankChain_dep {inR outR : List Int} {Ls : List (MaskedLinear ℝ)} (h : RankChain inR Ls outR)
    (act : ℝ → ℝ) (o : Nat) (ho : o < outR.length) :
    ∀ {v v' : List ℝ}, AgreeOn (RankLE inR (outR[o] - 1)) v v' →
      AgreeOn (fun u => u = o) (mlpForward act Ls v) (mlpForward act Ls v') := by
  induction h with
  | last inR outR w b =>
    intro v v' hv
    simp only [mlpForward, MaskedLinear.apply, MaskedLinear.unwrapW]
    exact linearApply_agree (sees_last inR outR w o ho) b hv
  | cons inR midR outR w b rest hrest ih =>
    intro v v' hv
    obtain ⟨L', Ls', rfl⟩ := List.exists_cons_of_ne_nil hrest.ne_nil
    simp only [mlpForward]
    apply ih ho
    apply map_agree
    simp only [MaskedLinear.apply, MaskedLinear.unwrapW]
    exact linearApply_agree (sees_hidden inR midR w _) b hv

/-! ### the layer list `masked_autoregressive_mlp` builds is a rank chain -/
theorem rankChain_hidden (hidR outR : List Int) :
    ∀ (d : Nat) (ws : List (List (List ℝ))) (bs : List (List ℝ)), ws.length = d + 1 → bs.length = d + 1 →
      RankChain hidR
        (mkLayers (List.replicate d (rankBasedMask hidR hidR true) ++ [rankBasedMask hidR outR false]) ws bs) outR := by
  intro d
  induction d with
  | zero =>
    intro ws bs hw hb
    obtain ⟨w, rfl⟩ := List.length_eq_one_iff.mp hw
    obtain ⟨b, rfl⟩ := List.length_eq_one_iff.mp hb
    exact RankChain.last hidR outR w b
  | succ d ih =>
    intro ws bs hw hb
    match ws, bs, hw, hb with
    | w :: ws', b :: bs', hw, hb =>
      rw [List.replicate_succ, List.cons_append]
      exact RankChain.cons hidR hidR outR w b _ (ih ws' bs' (by simpa using hw) (by simpa using hb))

theorem rankChain_mlp (inR hidR outR : List Int) (d : Nat) (ws : List (List (List ℝ))) (bs : List (List ℝ))
    (hw : ws.length = d + 1) (hb : bs.length = d + 1) :
    RankChain inR (mkLayers (mlpMasks inR hidR outR d) ws bs) outR := by
  cases d with
  | zero =>
    obtain ⟨w, rfl⟩ := List.length_eq_one_iff.mp hw
    obtain ⟨b, rfl⟩ := List.length_eq_one_iff.mp hb
    rw [mlpMasks_zero]
    exact RankChain.last inR outR w b
  | succ d =>
    match ws, bs, hw, hb with
    | w :: ws', b :: bs', hw, hb =>
      rw [mlpMasks_succ]
      exact RankChain.cons inR hidR outR w b _
        (rankChain_hidden hidR outR d ws' bs' (by simpa using hw) (by simpa using hb))

/-- `masked_mlp_dependency`, list form -/
theorem mlp_dependency (inR hidR outR : List Int) (depth : Nat) (ws : List (List (List ℝ))) (bs : List (List ℝ))
    (hw : ws.length = depth + 1) (hb : bs.length = depth + 1) (act : ℝ → ℝ) (o : Nat) (ho : o < outR.length)
    (x x' : List ℝ) (hlen : x.length = x'.length)
    (hagree : ∀ j (hj : j < x.length) (hj' : j < x'.length) (hr : j < inR.length), inR[j] < outR[o] → x[j] = x'[j]) :
    (mlpForward act (mkLayers (mlpMasks inR hidR outR depth) ws bs) x)[o]? =
      (mlpForward act (mkLayers (mlpMasks inR hidR outR depth) ws bs) x')[o]? := by
  have hA : AgreeOn (RankLE inR (outR[o] - 1)) x x' :=
    ⟨hlen, fun c h h' ⟨hr, hle⟩ => hagree c h h' hr (by omega)⟩
  exact (rankChain_dep (rankChain_mlp inR hidR outR depth ws bs hw hb) act o ho hA).getElem? rfl

/-! ### output length of the MLP -/
theorem apply_length (L : MaskedLinear ℝ) (v : List ℝ) :
    (L.apply v).length = min (min L.mask.length L.weight.length) L.bias.length := by
  simp [MaskedLinear.apply, MaskedLinear.unwrapW, linearApply_length, whereMask_length]

theorem mlpForward_length (act : ℝ → ℝ) :
    ∀ (ms : List Mask) (ws : List (List (List ℝ))) (bs : List (List ℝ)) (v : List ℝ) (ml : Mask) (wl : List (List ℝ))
      (bl : List ℝ), ms.length = ws.length → ms.length = bs.length →
      ms.getLast? = some ml → ws.getLast? = some wl → bs.getLast? = some bl →
      (mlpForward act (mkLayers ms ws bs) v).length = min (min ml.length wl.length) bl.length := by
  intro ms
  induction ms with
  | nil => intro ws bs v ml wl bl _ _ h; simp at h
  | cons m ms ih =>
    intro ws bs v ml wl bl hw hb hml hwl hbl
    match ws, bs, hw, hb with
    | w :: ws', b :: bs', hw, hb =>
      cases ms with
      | nil =>
        have hw' : ws' = [] := by simpa using hw.symm
        have hb' : bs' = [] := by simpa using hb.symm
        subst hw' hb'
        simp only [List.getLast?_singleton, Option.some.injEq] at hml hwl hbl
        subst hml hwl hbl
        simp [mkLayers, mlpForward, apply_length]
      | cons m' ms' =>
        match ws', bs', hw, hb with
        | w' :: ws'', b' :: bs'', hw, hb =>
          have h1 := ih (w' :: ws'') (b' :: bs'') ((MaskedLinear.apply ⟨m, w, b⟩ v).map act) ml wl bl
            (by simpa using hw) (by simpa using hb) (by simpa using hml) (by simpa using hwl) (by simpa using hbl)
          simpa [mkLayers, mlpForward] using h1

/-! ### `reshape(params, (dim, -1))` -/
theorem reshapeRows_getElem? (dim P : Nat) (flat : List ℝ) (hlen : flat.length = dim * P) (i : Nat) (hi : i < dim) :
    (reshapeRows dim flat)[i]? = some ((flat.drop (i * P)).take P) := by
  have hp : flat.length / dim = P := by rw [hlen]; exact Nat.mul_div_cancel_left P (by omega)
  simp [reshapeRows, hp, hi]

theorem reshapeRows_length (dim : Nat) (flat : List ℝ) : (reshapeRows dim flat).length = dim := by
  simp [reshapeRows]

theorem take_drop_congr (P a : Nat) (l l' : List ℝ) (h : ∀ k, k < P → l[a + k]? = l'[a + k]?) :
    (l.drop a).take P = (l'.drop a).take P := by
  apply List.ext_getElem?
  intro k
  simp only [List.getElem?_take, List.getElem?_drop]
  split
  · rename_i hk; exact h k hk
  · rfl

theorem getLast?_cons_append_singleton {β : Type} (a : β) (l : List β) (z : β) :
    (a :: (l ++ [z])).getLast? = some z := by
  have : a :: (l ++ [z]) = (a :: l) ++ [z] := rfl
  rw [this, List.getLast?_append]
  simp

/-! ### the MAF conditioner -/
section maf
variable (N : MafNet ℝ)

theorem maf_inRanks_length : N.inRanks.length = N.dim + N.condDim.getD 0 := mafInRanks_length _ _
theorem maf_outRanks_length : N.outRanks.length = N.dim * N.numParams := mafOutRanks_length _ _

theorem maf_masks_getLast? : ∃ r, N.masks.getLast? = some (rankBasedMask r N.outRanks false) := by
  unfold MafNet.masks
  cases N.depth with
  | zero => exact ⟨_, by rw [mlpMasks_zero]; rfl⟩
  | succ d => exact ⟨N.hiddenRanks, by rw [mlpMasks_succ]; exact getLast?_cons_append_singleton _ _ _⟩

theorem maf_flatParams_length (hN : N.WellShaped) (x cond : List ℝ) :
    (N.flatParams x cond).length = N.dim * N.numParams := by
  obtain ⟨hw, hb, hsh⟩ := hN
  obtain ⟨r, hr⟩ := maf_masks_getLast? N
  have hd1 : N.depth < N.weights.length := by omega
  have hd2 : N.depth < N.biases.length := by omega
  obtain ⟨nin, nout, _, h2, h3, h4⟩ := hsh N.depth hd1 hd2
  have hnout : nout = N.dim * N.numParams := by
    have : N.sizes[N.depth + 1]? = some (N.dim * N.numParams) := by
      simp only [MafNet.sizes, List.getElem?_cons_succ]
      rw [List.getElem?_append_right (by simp)]
      simp
    rw [this] at h2; exact (Option.some.inj h2).symm
  have hwl : N.weights.getLast? = some N.weights[N.depth] := by
    rw [List.getLast?_eq_getElem?, hw]; simp [hd1]
  have hbl : N.biases.getLast? = some N.biases[N.depth] := by
    rw [List.getLast?_eq_getElem?, hb]; simp [hd2]
  have hml : N.masks.length = N.depth + 1 := mlpMasks_length _ _ _ _
  unfold MafNet.flatParams MafNet.layers
  rw [mlpForward_length N.act N.masks N.weights N.biases _ _ _ _ (by omega) (by omega) hr hwl hbl]
  rw [(rankBasedMask_shape _ _ _).1, maf_outRanks_length N, h3.1, h4, hnout]
  simp

/-- flat transformer parameter `i * P + k` (a parameter of coordinate `i`) is unchanged by any change of
`x_j, j ≥ i` — all raw weights, biases, activation, all sizes -/
theorem maf_flat_dep (hN : N.WellShaped) (x x' cond : List ℝ) (hx : x.length = N.dim) (hx' : x'.length = N.dim)
    (i k : Nat) (hi : i < N.dim) (hk : k < N.numParams)
    (hagree : ∀ j (hj : j < x.length) (hj' : j < x'.length), j < i → x[j] = x'[j]) :
    (N.flatParams x cond)[i * N.numParams + k]? = (N.flatParams x' cond)[i * N.numParams + k]? := by
  have ho : i * N.numParams + k < N.dim * N.numParams := by
    calc i * N.numParams + k < i * N.numParams + N.numParams := by omega
      _ = (i + 1) * N.numParams := by ring
      _ ≤ N.dim * N.numParams := Nat.mul_le_mul_right _ hi
  have ho' : i * N.numParams + k < N.outRanks.length := by rw [maf_outRanks_length N]; exact ho
  have hrank : N.outRanks[i * N.numParams + k] = (i : Int) := by
    have := mafOutRanks_getElem? N.dim N.numParams _ ho
    rw [List.getElem?_eq_getElem (by rw [mafOutRanks_length]; exact ho)] at this
    have h2 : (i * N.numParams + k) / N.numParams = i := by
      rw [Nat.mul_comm, Nat.mul_add_div (by omega), Nat.div_eq_of_lt hk]; simp
    rw [h2] at this
    exact Option.some.inj this
  unfold MafNet.flatParams MafNet.layers MafNet.masks
  apply mlp_dependency _ _ _ _ _ _ hN.1 hN.2.1 N.act _ ho'
  · simp [hx, hx']
  · intro j hj hj' hr hlt
    rw [hrank] at hlt
    by_cases hjd : j < N.dim
    · have h1 : N.inRanks[j]? = some (j : Int) := mafInRanks_x N.dim N.condDim j hjd
      rw [List.getElem?_eq_getElem hr] at h1
      have h2 : N.inRanks[j] = (j : Int) := Option.some.inj h1
      rw [h2] at hlt
      rw [List.getElem_append_left (by omega), List.getElem_append_left (by omega)]
      exact hagree j (by omega) (by omega) (by omega)
    · rw [List.getElem_append_right (by omega), List.getElem_append_right (by omega)]
      simp [hx, hx']

end maf

section maf2
variable (N : MafNet ℝ)

/-- row `i` of the reshaped parameters (the transformer parameters of coordinate `i`) depends only on `x_j, j < i` -/
theorem maf_params_dep (hN : N.WellShaped) (x x' cond : List ℝ) (hx : x.length = N.dim) (hx' : x'.length = N.dim)
    (i : Nat) (hi : i < N.dim)
    (hagree : ∀ j (hj : j < x.length) (hj' : j < x'.length), j < i → x[j] = x'[j]) :
    (N.params x cond)[i]? = (N.params x' cond)[i]? := by
  unfold MafNet.params
  rw [reshapeRows_getElem? _ N.numParams _ (maf_flatParams_length N hN x cond) i hi,
    reshapeRows_getElem? _ N.numParams _ (maf_flatParams_length N hN x' cond) i hi]
  congr 1
  apply take_drop_congr
  intro k hk
  exact maf_flat_dep N hN x x' cond hx hx' i k hi hk hagree

/-- output `i` of the layer depends only on `x_0 … x_i` (and the condition), for every scalar transformer family -/
theorem maf_transform_dep (hN : N.WellShaped) (T : List ℝ → ℝ → ℝ) (x x' cond : List ℝ) (hx : x.length = N.dim)
    (hx' : x'.length = N.dim) (i : Nat) (hi : i < N.dim)
    (hagree : ∀ j (hj : j < x.length) (hj' : j < x'.length), j ≤ i → x[j] = x'[j]) :
    (N.transform T x cond)[i]? = (N.transform T x' cond)[i]? := by
  have hp := maf_params_dep N hN x x' cond hx hx' i hi (fun j hj hj' hlt => hagree j hj hj' (by omega))
  have hxi : x[i]? = x'[i]? := by
    rw [List.getElem?_eq_getElem (by omega), List.getElem?_eq_getElem (by omega),
      hagree i (by omega) (by omega) (le_refl i)]
  simp only [MafNet.transform, List.getElem?_zipWith, hp, hxi]

end maf2

/-! ### completeness: no permitted dependency is structurally missing -/

/-- `PathOpen masks [u_0, u_1, …, u_L]`: every mask entry along the path `u_0 → u_1 → … → u_L` is true
(`masks[l]` connects layer `l` (columns) to layer `l+1` (rows)) -/
def PathOpen : List Mask → List Nat → Prop
  | [], [_] => True
  | m :: ms, a :: b :: rest => entry m b a = true ∧ PathOpen ms (b :: rest)
  | _, _ => False

theorem pathOpen_hidden (hidR outR : List Int) (u o : Nat) (hu : u < hidR.length) (ho : o < outR.length)
    (hlt : hidR[u] < outR[o]) (d : Nat) :
    PathOpen (List.replicate d (rankBasedMask hidR hidR true) ++ [rankBasedMask hidR outR false])
      (u :: (List.replicate d u ++ [o])) := by
  induction d with
  | zero =>
    simp only [List.replicate_zero, List.nil_append, PathOpen, and_true]
    rw [entry_rankBasedMask hidR outR false ho hu]
    simpa using hlt
  | succ d ih =>
    simp only [List.replicate_succ, List.cons_append, PathOpen]
    refine ⟨?_, ih⟩
    rw [entry_rankBasedMask hidR hidR true hu hu]
    simp

theorem pathOpen_mlp_zero (inR hidR outR : List Int) (j o : Nat) (hj : j < inR.length) (ho : o < outR.length)
    (h : inR[j] < outR[o]) : PathOpen (mlpMasks inR hidR outR 0) [j, o] := by
  rw [mlpMasks_zero]
  simp only [PathOpen, and_true]
  rw [entry_rankBasedMask inR outR false ho hj]
  simpa using h

theorem pathOpen_mlp_succ (inR hidR outR : List Int) (j u o : Nat) (hj : j < inR.length) (hu : u < hidR.length)
    (ho : o < outR.length) (h1 : inR[j] ≤ hidR[u]) (h2 : hidR[u] < outR[o]) (d : Nat) :
    PathOpen (mlpMasks inR hidR outR (d + 1)) (j :: u :: (List.replicate d u ++ [o])) := by
  rw [mlpMasks_succ]
  simp only [PathOpen]
  refine ⟨?_, pathOpen_hidden hidR outR u o hu ho h2 d⟩
  rw [entry_rankBasedMask inR hidR true hu hj]
  simpa using h1

/-- one statement for both depths: given a hidden unit `u` whose rank lies in `[rank j, rank o)` (only needed when
`depth ≥ 1`) and `rank j < rank o`, there is an open path `j → … → o` of the right length -/
theorem pathOpen_mlp (inR hidR outR : List Int) (j u o : Nat) (hj : j < inR.length) (hu : u < hidR.length)
    (ho : o < outR.length) (h1 : inR[j] ≤ hidR[u]) (h2 : hidR[u] < outR[o]) (depth : Nat) :
    ∃ path : List Nat, path.head? = some j ∧ path.getLast? = some o ∧ path.length = depth + 2 ∧
      PathOpen (mlpMasks inR hidR outR depth) path := by
  cases depth with
  | zero => exact ⟨[j, o], rfl, rfl, rfl, pathOpen_mlp_zero inR hidR outR j o hj ho (lt_of_le_of_lt h1 h2)⟩
  | succ d =>
    refine ⟨j :: u :: (List.replicate d u ++ [o]), rfl, ?_, by simp, pathOpen_mlp_succ inR hidR outR j u o hj hu ho h1 h2 d⟩
    rw [List.getLast?_cons_cons]
    exact getLast?_cons_append_singleton _ _ _

theorem getElem_of_getElem? {β : Type} {l : List β} {i : Nat} {a : β} (h : l[i]? = some a) (hi : i < l.length) :
    l[i] = a := by
  rw [List.getElem?_eq_getElem hi] at h; exact Option.some.inj h

theorem maf_complete_aux (dim width depth np : Nat) (cd : Option Nat) (hw : dim ≤ width)
    (i k : Nat) (hi : i < dim) (hk : k < np) (j : Nat) (hj : j < i ∨ (dim ≤ j ∧ j < dim + cd.getD 0)) :
    ∃ path : List Nat, path.head? = some j ∧ path.getLast? = some (i * np + k) ∧ path.length = depth + 2 ∧
      PathOpen (mlpMasks (mafInRanks dim cd) (mafHiddenRanks dim width cd) (mafOutRanks dim np) depth) path := by
  have ho : i * np + k < dim * np := by
    calc i * np + k < i * np + np := by omega
      _ = (i + 1) * np := by ring
      _ ≤ dim * np := Nat.mul_le_mul_right _ hi
  have ho' : i * np + k < (mafOutRanks dim np).length := by rw [mafOutRanks_length]; exact ho
  have hdiv : (i * np + k) / np = i := by
    rw [Nat.mul_comm, Nat.mul_add_div (by omega), Nat.div_eq_of_lt hk]; simp
  have hout : (mafOutRanks dim np)[i * np + k] = (i : Int) := by
    have := mafOutRanks_getElem? dim np _ ho
    rw [hdiv] at this
    exact getElem_of_getElem? this ho'
  have hjl : j < (mafInRanks dim cd).length := by rw [mafInRanks_length]; omega
  -- the hidden unit the path goes through
  cases cd with
  | none =>
    have hji : j < i := by
      rcases hj with h | ⟨h1, h2⟩
      · exact h
      · simp at h2; omega
    have hu : j < (mafHiddenRanks dim width none).length := by rw [mafHiddenRanks_length]; omega
    have hin : (mafInRanks dim none)[j] = (j : Int) := getElem_of_getElem? (mafInRanks_x dim none j (by omega)) hjl
    have hhid : (mafHiddenRanks dim width none)[j] = (j : Int) := by
      have h := mafHiddenRanks_none dim width j (by omega)
      have hc : ((dim : Int) - 1) = ((dim - 1 : Nat) : Int) := by omega
      rw [hc, jmod_natCast_pos j (dim - 1) (by omega), Nat.mod_eq_of_lt (by omega)] at h
      exact getElem_of_getElem? h hu
    exact pathOpen_mlp _ _ _ j j _ hjl hu ho' (by rw [hin, hhid]) (by rw [hhid, hout]; exact_mod_cast hji) depth
  | some c =>
    rcases hj with hji | ⟨hj1, hj2⟩
    · have hu : j + 1 < (mafHiddenRanks dim width (some c)).length := by rw [mafHiddenRanks_length]; omega
      have hin : (mafInRanks dim (some c))[j] = (j : Int) :=
        getElem_of_getElem? (mafInRanks_x dim (some c) j (by omega)) hjl
      have hhid : (mafHiddenRanks dim width (some c))[j + 1] = (j : Int) := by
        have h := mafHiddenRanks_some dim width c (j + 1) (by omega)
        rw [jmod_natCast_pos (j + 1) dim (by omega), Nat.mod_eq_of_lt (by omega)] at h
        have := getElem_of_getElem? h hu
        rw [this]; push_cast; ring
      exact pathOpen_mlp _ _ _ j (j + 1) _ hjl hu ho' (by rw [hin, hhid]) (by rw [hhid, hout]; exact_mod_cast hji) depth
    · have hu : 0 < (mafHiddenRanks dim width (some c)).length := by rw [mafHiddenRanks_length]; omega
      have hin : (mafInRanks dim (some c))[j] = (-1 : Int) :=
        getElem_of_getElem? (mafInRanks_cond dim c j hj1 (by simpa using hj2)) hjl
      have hhid : (mafHiddenRanks dim width (some c))[0] = (-1 : Int) := by
        have h := mafHiddenRanks_some dim width c 0 (by omega)
        rw [jmod_natCast_pos 0 dim (by omega)] at h
        have := getElem_of_getElem? h hu
        rw [this]; simp
      exact pathOpen_mlp _ _ _ j 0 _ hjl hu ho' (by rw [hin, hhid]) (by rw [hhid, hout]; omega) depth

/-! ### the Boolean product of the masks decides path existence -/
theorem entry_boolMatMul (a b : Mask) (n r c : Nat) (hc : c < n) :
    entry (boolMatMul a b n) r c = true ↔ ∃ t, entry a r t = true ∧ entry b t c = true := by
  simp only [entry_eq, boolMatMul, List.getElem?_map]
  cases har : a[r]? with
  | none => simp
  | some arow =>
    simp only [Option.map_some, Option.getD_some, List.getElem?_map, List.getElem?_range hc, List.any_eq_true,
      Bool.and_eq_true]
    constructor
    · rintro ⟨⟨x, brow⟩, hmem, hx, hb⟩
      obtain ⟨t, ht⟩ := List.mem_iff_getElem?.mp hmem
      rw [List.getElem?_zip_eq_some] at ht
      refine ⟨t, ?_, ?_⟩
      · rw [ht.1]; simpa using hx
      · rw [ht.2]; simpa [List.getD_eq_getElem?_getD] using hb
    · rintro ⟨t, h1, h2⟩
      cases hat : arow[t]? with
      | none => rw [hat] at h1; simp at h1
      | some x =>
        cases hbt : b[t]? with
        | none => rw [hbt] at h2; simp at h2
        | some brow =>
          refine ⟨(x, brow), List.mem_iff_getElem?.mpr ⟨t, by rw [List.getElem?_zip_eq_some]; exact ⟨hat, hbt⟩⟩, ?_, ?_⟩
          · rw [hat] at h1; simpa using h1
          · rw [hbt] at h2; simpa [List.getD_eq_getElem?_getD] using h2

theorem reachMask_snoc (n : Nat) (m : Mask) (ms : List Mask) (m' : Mask) :
    reachMask n (m :: (ms ++ [m'])) = boolMatMul m' (reachMask n (m :: ms)) n := by
  simp [reachMask, List.foldl_append]

theorem pathOpen_snoc (masks : List Mask) (m' : Mask) (o : Nat) :
    ∀ path : List Nat, PathOpen (masks ++ [m']) (path ++ [o]) ↔
      ∃ u, path.getLast? = some u ∧ PathOpen masks path ∧ entry m' o u = true := by
  induction masks with
  | nil =>
    intro path
    match path with
    | [] => simp [PathOpen]
    | [u] => simp [PathOpen]
    | u :: u2 :: rest =>
      simp only [List.nil_append, List.cons_append, PathOpen]
      constructor
      · rintro ⟨_, h⟩
        cases rest <;> simp [PathOpen] at h
      · rintro ⟨_, _, h, _⟩; exact absurd h (by simp)
  | cons m ms ih =>
    intro path
    match path with
    | [] => simp [PathOpen]
    | [a] =>
      have := ih []
      simp only [List.nil_append, List.getLast?_nil] at this
      simp only [List.cons_append, List.nil_append, PathOpen, this]
      simp
    | a :: b :: rest =>
      have := ih (b :: rest)
      simp only [List.cons_append] at this
      simp only [List.cons_append, PathOpen, this, List.getLast?_cons_cons]
      constructor
      · rintro ⟨h1, u, h2, h3, h4⟩; exact ⟨u, h2, ⟨h1, h3⟩, h4⟩
      · rintro ⟨u, h2, ⟨h1, h3⟩, h4⟩; exact ⟨h1, u, h2, h3, h4⟩

theorem pathOpen_ne_nil {masks : List Mask} {path : List Nat} (h : PathOpen masks path) : path ≠ [] := by
  intro hp; subst hp
  cases masks <;> simp [PathOpen] at h

/-- entry `(o, i)` of the Boolean product of the masks is true iff some path `i → … → o` has every mask entry true -/
theorem reach_iff_path (n : Nat) (m : Mask) (ms : List Mask) (o i : Nat) (hi : i < n) :
    entry (reachMask n (m :: ms)) o i = true ↔
      ∃ path : List Nat, path.head? = some i ∧ path.getLast? = some o ∧ PathOpen (m :: ms) path := by
  induction ms using List.reverseRecOn generalizing o with
  | nil =>
    simp only [reachMask, List.foldl_nil]
    constructor
    · intro h; exact ⟨[i, o], rfl, rfl, by simp [PathOpen, h]⟩
    · rintro ⟨path, h1, h2, h3⟩
      match path, h1, h2, h3 with
      | [a, b], h1, h2, h3 =>
        simp only [List.head?_cons, Option.some.injEq] at h1
        simp only [List.getLast?_cons_cons, List.getLast?_singleton, Option.some.injEq] at h2
        subst h1 h2
        simpa [PathOpen] using h3
      | [], h1, _, _ => simp at h1
      | [a], _, _, h3 => simp [PathOpen] at h3
      | a :: b :: c :: rest, _, _, h3 => simp [PathOpen] at h3
  | append_singleton ms m' ih =>
    rw [reachMask_snoc, entry_boolMatMul _ _ _ _ _ hi]
    constructor
    · rintro ⟨t, h1, h2⟩
      obtain ⟨path, hp1, hp2, hp3⟩ := (ih t).mp h2
      refine ⟨path ++ [o], ?_, by simp, ?_⟩
      · cases path with
        | nil => simp at hp1
        | cons a rest => simpa using hp1
      · rw [← List.cons_append, pathOpen_snoc]
        exact ⟨t, hp2, hp3, h1⟩
    · rintro ⟨path, hp1, hp2, hp3⟩
      have hne := pathOpen_ne_nil hp3
      obtain ⟨init, last, rfl⟩ : ∃ init last, path = init ++ [last] :=
        ⟨path.dropLast, path.getLast hne, (List.dropLast_append_getLast hne).symm⟩
      have hlast : last = o := by simpa using hp2
      subst hlast
      rw [← List.cons_append, pathOpen_snoc] at hp3
      obtain ⟨u, hu1, hu2, hu3⟩ := hp3
      refine ⟨u, hu3, (ih u).mpr ⟨init, ?_, hu1, hu2⟩⟩
      cases init with
      | nil => simp at hu1
      | cons a rest => simpa using hp1

/-! ### `Coupling.transform` -/
theorem coupling_length (d : Nat) (cnd : List ℝ → List ℝ) (T : List ℝ → ℝ → ℝ) (x cond : List ℝ) (hd : d ≤ x.length) :
    (couplingTransform d cnd T x cond).length = x.length := by
  simp only [couplingTransform, List.length_append, List.length_take, List.length_zipWith, reshapeRows_length,
    List.length_drop]
  omega

theorem coupling_take (d : Nat) (cnd : List ℝ → List ℝ) (T : List ℝ → ℝ → ℝ) (x cond : List ℝ) :
    (couplingTransform d cnd T x cond).take d = x.take d := by
  simp only [couplingTransform]
  by_cases hd : d ≤ x.length
  · rw [List.take_append_of_le_length (by simp [hd])]
    simp
  · have h1 : x.drop d = [] := List.drop_eq_nil_of_le (by omega)
    rw [h1]
    simp

theorem coupling_getElem? (d : Nat) (cnd : List ℝ → List ℝ) (T : List ℝ → ℝ → ℝ) (x cond : List ℝ) (i : Nat)
    (hdi : d ≤ i) (hi : i < x.length) :
    ∃ ps, (reshapeRows (x.length - d) (cnd (x.take d ++ cond)))[i - d]? = some ps ∧
      (couplingTransform d cnd T x cond)[i]? = some (T ps x[i]) := by
  have hrow : i - d < (reshapeRows (x.length - d) (cnd (x.take d ++ cond))).length := by
    rw [reshapeRows_length]; omega
  refine ⟨(reshapeRows (x.length - d) (cnd (x.take d ++ cond)))[i - d], List.getElem?_eq_getElem hrow, ?_⟩
  simp only [couplingTransform]
  rw [List.getElem?_append_right (by simp; omega)]
  have hlen : (x.take d).length = d := by simp; omega
  rw [hlen, List.getElem?_zipWith, List.getElem?_eq_getElem hrow, List.getElem?_drop]
  have : d + (i - d) = i := by omega
  simp [this, hi]

/-! ### `block_autoregressive_linear`: entries of the unwrapped weight -/
theorem jsum_eq_sum (l : List ℝ) : Jnp.sum l = l.sum := by
  unfold Jnp.sum
  rw [List.sum_eq_foldl]

theorem softplus_pos (x : ℝ) : 0 < (Transc.softplus x : ℝ) := by
  rw [RealInst.softplus_eq]
  exact Real.log_pos (by linarith [Real.exp_pos x])

theorem whereMat_length (mask : Mask) (a b : List (List ℝ)) :
    (whereMat mask a b).length = min mask.length (min a.length b.length) := by
  simp [whereMat]

theorem whereMat_getElem (mask : Mask) (a b : List (List ℝ)) (r c : Nat) (hr : r < (whereMat mask a b).length)
    (hc : c < (whereMat mask a b)[r].length) :
    ∃ (hrm : r < mask.length) (_ : c < mask[r].length)
      (hra : r < a.length) (hrb : r < b.length) (hca : c < a[r].length) (hcb : c < b[r].length),
      (whereMat mask a b)[r][c] = if entry mask r c = true then a[r][c] else b[r][c] := by
  have hr' := hr
  rw [whereMat_length] at hr'
  have hra : r < a.length := by omega
  have hrb : r < b.length := by omega
  have hrm : r < mask.length := by omega
  have hc' : c < min mask[r].length (min a[r].length b[r].length) := by
    simpa [whereMat] using hc
  refine ⟨hrm, by omega, hra, hrb, by omega, by omega, ?_⟩
  rw [entry_of_getElem hrm (by omega)]
  simp [whereMat]

section bnafLayer
variable (L : BnafLayer ℝ)

theorem diag_subset_tril (b0 b1 n r c : Nat) (hr : r < b0 * n) (hc : c < b1 * n)
    (h : entry (blockDiagMask b0 b1 n) r c = true) : entry (blockTrilMask b0 b1 n 0) r c = true := by
  rw [entry_blockDiagMask b0 b1 n r c hr hc] at h
  rw [entry_blockTrilMask b0 b1 n 0 r c hr hc]
  have : r / b0 = c / b1 := by simpa using h
  rw [this]; simp

/-- index bounds implied by an entry of `preNorm` being addressable -/
theorem preNorm_bounds (r c : Nat) (hr : r < L.preNorm.length) (hc : c < L.preNorm[r].length) :
    r < L.b0 * L.n ∧ c < L.b1 * L.n := by
  have hr2 : r < (whereMat (blockDiagMask L.b0 L.b1 L.n)
      ((whereMask (blockTrilMask L.b0 L.b1 L.n 0) L.weight).map fun row : List ℝ => row.map (Transc.softplus : ℝ → ℝ))
      (whereMask (blockTrilMask L.b0 L.b1 L.n 0) L.weight)).length := hr
  obtain ⟨hrm, hcm, _⟩ := whereMat_getElem _ _ _ r c hr2 hc
  have hd := blockDiagMask_shape L.b0 L.b1 L.n
  refine ⟨by rw [← hd.1]; exact hrm, ?_⟩
  rw [hd.2 _ (List.getElem_mem hrm)] at hcm
  exact hcm

/-- outside the block-lower-triangular mask the pre-normalisation weight is `0`; on the diagonal blocks it is a
softplus, hence positive — whatever the raw weights are -/
theorem preNorm_entry (r c : Nat) (hr : r < L.preNorm.length) (hc : c < L.preNorm[r].length) :
    (entry (blockTrilMask L.b0 L.b1 L.n 0) r c = false → L.preNorm[r][c] = 0) ∧
    (entry (blockDiagMask L.b0 L.b1 L.n) r c = true → 0 < L.preNorm[r][c]) := by
  obtain ⟨hrb, hcb⟩ := preNorm_bounds L r c hr hc
  have hr2 : r < (whereMat (blockDiagMask L.b0 L.b1 L.n)
      ((whereMask (blockTrilMask L.b0 L.b1 L.n 0) L.weight).map fun row : List ℝ => row.map (Transc.softplus : ℝ → ℝ))
      (whereMask (blockTrilMask L.b0 L.b1 L.n 0) L.weight)).length := hr
  obtain ⟨_, _, hra, hrb', hca, hcb', heq⟩ := whereMat_getElem _ _ _ r c hr2 hc
  have heq' : L.preNorm[r][c] = _ := heq
  constructor
  · intro htril
    have hdiag : ¬ entry (blockDiagMask L.b0 L.b1 L.n) r c = true := fun hd =>
      by rw [diag_subset_tril L.b0 L.b1 L.n r c hrb hcb hd] at htril; exact absurd htril (by simp)
    rw [if_neg hdiag] at heq'
    exact heq'.trans (whereMask_false _ _ r c hrb' hcb' htril)
  · intro hdiag
    rw [if_pos hdiag] at heq'
    refine lt_of_lt_of_eq ?_ heq'.symm
    simp only [List.getElem_map]
    exact softplus_pos _

theorem unwrapW_length : L.unwrapW.length = min L.preNorm.length L.scaleRaw.length := by
  simp [BnafLayer.unwrapW]

theorem unwrapW_row_length (r : Nat) (hr : r < L.unwrapW.length) :
    L.unwrapW[r].length = (L.preNorm[r]'(by rw [unwrapW_length] at hr; omega)).length := by
  simp [BnafLayer.unwrapW]

theorem unwrapW_getElem (r c : Nat) (hr : r < L.unwrapW.length) (hc : c < L.unwrapW[r].length) :
    L.unwrapW[r][c] =
      Transc.softplus (L.scaleRaw[r]'(by rw [unwrapW_length] at hr; omega)) *
        ((L.preNorm[r]'(by rw [unwrapW_length] at hr; omega))[c]'(by rw [unwrapW_row_length] at hc; exact hc)) /
        Transc.sqrt (Jnp.sum ((L.preNorm[r]'(by rw [unwrapW_length] at hr; omega)).map fun v => v * v)) := by
  simp [BnafLayer.unwrapW]

/-- `mask_survives_update` for the BNAF layer: the unwrapped (weight-normalised) weight is `0` outside the
block-lower-triangular mask and strictly positive on the diagonal blocks, for ALL raw weights and raw scales -/
theorem unwrapW_entry (r c : Nat) (hr : r < L.unwrapW.length) (hc : c < L.unwrapW[r].length) :
    (entry (blockTrilMask L.b0 L.b1 L.n 0) r c = false → L.unwrapW[r][c] = 0) ∧
    (entry (blockDiagMask L.b0 L.b1 L.n) r c = true → 0 < L.unwrapW[r][c]) := by
  have hr1 : r < L.preNorm.length := by rw [unwrapW_length] at hr; omega
  have hc1 : c < L.preNorm[r].length := by rw [unwrapW_row_length] at hc; exact hc
  obtain ⟨h0, hpos⟩ := preNorm_entry L r c hr1 hc1
  rw [unwrapW_getElem L r c hr hc]
  constructor
  · intro h; rw [h0 h]; simp
  · intro h
    have hp := hpos h
    have hsum : 0 < Jnp.sum (L.preNorm[r].map fun v => v * v) := by
      rw [jsum_eq_sum]
      have hmem : L.preNorm[r][c] * L.preNorm[r][c] ∈ L.preNorm[r].map fun v => v * v :=
        List.mem_map.mpr ⟨_, List.getElem_mem hc1, rfl⟩
      have hnn : ∀ y ∈ L.preNorm[r].map fun v => v * v, 0 ≤ y := by
        intro y hy
        obtain ⟨v, _, rfl⟩ := List.mem_map.mp hy
        exact mul_self_nonneg v
      exact lt_of_lt_of_le (mul_pos hp hp) (List.single_le_sum hnn _ hmem)
    rw [RealInst.sqrt_eq]
    exact div_pos (mul_pos (softplus_pos _) hp) (Real.sqrt_pos.mpr hsum)

/-- a BNAF layer: units of block `≤ i` only read inputs of block `≤ i` -/
theorem sees_bnaf (i : Nat) : Sees L.unwrapW (fun c => c / L.b1 ≤ i) (fun u => u / L.b0 ≤ i) := by
  intro u c hu hc hQ hne
  have hr1 : u < L.preNorm.length := by rw [unwrapW_length] at hu; omega
  have hc1 : c < L.preNorm[u].length := by rw [unwrapW_row_length] at hc; exact hc
  obtain ⟨hrb, hcb⟩ := preNorm_bounds L u c hr1 hc1
  have htril : entry (blockTrilMask L.b0 L.b1 L.n 0) u c = true := by
    by_contra hf
    exact hne ((unwrapW_entry L u c hu hc).1 (by simpa using hf))
  rw [entry_blockTrilMask L.b0 L.b1 L.n 0 u c hrb hcb] at htril
  have : c / L.b1 ≤ u / L.b0 := by exact_mod_cast (by simpa using htril : ((c / L.b1 : Nat) : Int) ≤ ((u / L.b0 : Nat) : Int))
  exact le_trans this hQ

end bnafLayer

/-! ### the BNAF layer stack -/

/-- consecutive layers fit: the output block size of one is the input block size of the next -/
inductive BnafChain : Nat → List (BnafLayer ℝ) → Nat → Prop
  | last (L : BnafLayer ℝ) : BnafChain L.b1 [L] L.b0
  | cons (L : BnafLayer ℝ) (rest : List (BnafLayer ℝ)) (bout : Nat) :
      BnafChain L.b0 rest bout → BnafChain L.b1 (L :: rest) bout

theorem BnafChain.ne_nil {bin bout : Nat} {Ls : List (BnafLayer ℝ)} (h : BnafChain bin Ls bout) : Ls ≠ [] := by
  cases h <;> simp

theorem zipWith_add_agree {Q : Nat → Prop} {v v' : List ℝ} (c : List ℝ) (hv : AgreeOn Q v v') :
    AgreeOn Q (List.zipWith (· + ·) v c) (List.zipWith (· + ·) v' c) := by
  refine ⟨by simp [hv.1], ?_⟩
  intro k h h' hQ
  simp only [List.length_zipWith] at h h'
  simp only [List.getElem_zipWith]
  rw [hv.2 k (by omega) (by omega) hQ]

theorem bnafChain_dep {bin bout : Nat} {Ls : List (BnafLayer ℝ)} (h : BnafChain bin Ls bout) (act : ℝ → ℝ) (i : Nat) :
    ∀ (first : Bool) (condTerm : Option (List ℝ)) {v v' : List ℝ}, AgreeOn (fun c => c / bin ≤ i) v v' →
      AgreeOn (fun u => u / bout ≤ i) (bnafForward act first condTerm Ls v) (bnafForward act first condTerm Ls v') := by
  induction h with
  | last L =>
    intro first condTerm v v' hv
    simp only [bnafForward, BnafLayer.apply]
    exact linearApply_agree (sees_bnaf L i) L.bias hv
  | cons L rest bout hrest ih =>
    intro first condTerm v v' hv
    obtain ⟨L', Ls', rfl⟩ := List.exists_cons_of_ne_nil hrest.ne_nil
    simp only [bnafForward]
    apply ih
    apply map_agree
    have h1 : AgreeOn (fun u => u / L.b0 ≤ i) (L.apply v) (L.apply v') := by
      simp only [BnafLayer.apply]
      exact linearApply_agree (sees_bnaf L i) L.bias hv
    cases first <;> cases condTerm <;> simp only [] <;> first | exact h1 | exact zipWith_add_agree _ h1

/-- the stacks `BlockAutoregressiveNetwork.__init__` builds are chains from block size 1 to block size 1 -/
theorem bnafChain_of_shapes (depth bd : Nat) (Ls : List (BnafLayer ℝ))
    (h : Ls.map (fun L => (L.b0, L.b1)) = bnafBlockShapes depth bd) : BnafChain 1 Ls 1 := by
  have tailChain : ∀ (m : Nat) (Ls : List (BnafLayer ℝ)),
      Ls.map (fun L => (L.b0, L.b1)) = List.replicate m (bd, bd) ++ [(1, bd)] → BnafChain bd Ls 1 := by
    intro m
    induction m with
    | zero =>
      intro Ls h
      match Ls, h with
      | [], h => simp at h
      | _ :: _ :: _, h => simp at h
      | [L], h =>
        simp only [List.map_cons, List.map_nil, List.replicate_zero, List.nil_append, List.cons.injEq, Prod.mk.injEq,
          and_true] at h
        have := BnafChain.last L
        rw [h.1, h.2] at this; exact this
    | succ m ih =>
      intro Ls h
      match Ls, h with
      | [], h => simp at h
      | L :: rest, h =>
        simp only [List.map_cons, List.replicate_succ, List.cons_append, List.cons.injEq, Prod.mk.injEq] at h
        have := BnafChain.cons L rest 1 (by rw [h.1.1]; exact ih rest h.2)
        rw [h.1.2] at this; exact this
  unfold bnafBlockShapes at h
  split at h
  · match Ls, h with
    | [], h => simp at h
    | _ :: _ :: _, h => simp at h
    | [L], h =>
      simp only [List.map_cons, List.map_nil, List.cons.injEq, Prod.mk.injEq, and_true] at h
      have := BnafChain.last L
      rw [h.1, h.2] at this; exact this
  · match Ls, h with
    | [], h => simp at h
    | L :: rest, h =>
      simp only [List.map_cons, List.cons.injEq, Prod.mk.injEq] at h
      have := BnafChain.cons L rest 1 (by rw [h.1.1]; exact tailChain _ rest h.2)
      rw [h.1.2] at this; exact this

/-! ### shapes of a well-shaped BNAF layer -/

/-- the raw arrays have the shapes `block_autoregressive_linear` allocates -/
def BnafWellShaped (L : BnafLayer ℝ) : Prop :=
  HasShape L.weight (L.b0 * L.n) (L.b1 * L.n) ∧ L.bias.length = L.b0 * L.n ∧ L.scaleRaw.length = L.b0 * L.n

theorem whereMat_row_length (mask : Mask) (a b : List (List ℝ)) (r : Nat) (hr : r < (whereMat mask a b).length) :
    (whereMat mask a b)[r].length =
      min (mask[r]'(by rw [whereMat_length] at hr; omega)).length
        (min (a[r]'(by rw [whereMat_length] at hr; omega)).length (b[r]'(by rw [whereMat_length] at hr; omega)).length) := by
  simp [whereMat]

theorem unwrapW_shape (L : BnafLayer ℝ) (hL : BnafWellShaped L) : HasShape L.unwrapW (L.b0 * L.n) (L.b1 * L.n) := by
  obtain ⟨hW, _, hs⟩ := hL
  have hd := blockDiagMask_shape L.b0 L.b1 L.n
  have ht := blockTrilMask_shape L.b0 L.b1 L.n 0
  have hw1 : HasShape (whereMask (blockTrilMask L.b0 L.b1 L.n 0) L.weight) (L.b0 * L.n) (L.b1 * L.n) := by
    constructor
    · rw [whereMask_length, ht.1, hW.1]; simp
    · intro row hrow
      obtain ⟨r, hr, rfl⟩ := List.getElem_of_mem hrow
      rw [whereMask_row_length, ht.2 _ (List.getElem_mem _), hW.2 _ (List.getElem_mem _)]; simp
  have hpre : HasShape L.preNorm (L.b0 * L.n) (L.b1 * L.n) := by
    constructor
    · simp only [BnafLayer.preNorm, whereMat_length, List.length_map, hd.1, hw1.1]; simp
    · intro row hrow
      obtain ⟨r, hr, rfl⟩ := List.getElem_of_mem hrow
      have hr2 : r < (whereMat (blockDiagMask L.b0 L.b1 L.n)
        ((whereMask (blockTrilMask L.b0 L.b1 L.n 0) L.weight).map fun row : List ℝ => row.map (Transc.softplus : ℝ → ℝ))
        (whereMask (blockTrilMask L.b0 L.b1 L.n 0) L.weight)).length := hr
      have := whereMat_row_length _ _ _ r hr2
      refine Eq.trans this ?_
      rw [hd.2 _ (List.getElem_mem _), hw1.2 _ (List.getElem_mem _)]
      simp only [List.getElem_map, List.length_map]
      rw [hw1.2 _ (List.getElem_mem _)]; simp
  constructor
  · rw [unwrapW_length, hpre.1, hs]; simp
  · intro row hrow
    obtain ⟨r, hr, rfl⟩ := List.getElem_of_mem hrow
    rw [unwrapW_row_length, hpre.2 _ (List.getElem_mem _)]

theorem bnafApply_length (L : BnafLayer ℝ) (hL : BnafWellShaped L) (v : List ℝ) : (L.apply v).length = L.b0 * L.n := by
  simp only [BnafLayer.apply, linearApply_length, (unwrapW_shape L hL).1, hL.2.1]; simp

/-! ### finite sums -/
/-- total accessor used in the calculus statements (`0` past the end) -/
def nth (l : List ℝ) (c : Nat) : ℝ := l[c]?.getD 0

theorem nth_of_lt {l : List ℝ} {c : Nat} (h : c < l.length) : nth l c = l[c] := by simp [nth, h]

theorem dot_eq_sum (row v : List ℝ) :
    Jnp.dot row v = ∑ c ∈ Finset.range row.length, nth row c * nth v c := by
  unfold Jnp.dot
  rw [jsum_eq_sum]
  induction row generalizing v with
  | nil => simp
  | cons a row ih =>
    cases v with
    | nil => simp [nth]
    | cons b v =>
      simp only [List.zipWith_cons_cons, List.sum_cons, List.length_cons]
      rw [Finset.sum_range_succ', ih v]
      simp [nth]
      ring

theorem nth_linearApply (W : List (List ℝ)) (b v : List ℝ) (u : Nat) (hu : u < W.length) (hb : u < b.length) :
    nth (linearApply W b v) u = (∑ c ∈ Finset.range W[u].length, nth W[u] c * nth v c) + b[u] := by
  rw [nth_of_lt (by rw [linearApply_length]; omega), linearApply_getElem, dot_eq_sum]

/-! ### the Jacobian of the BNAF transform along coordinate lines -/

/-- invariant of a curve `t ↦ v t` of unit vectors through the layers: units in blocks `< i` do not move, units in
block `i` move with strictly positive velocity at `t0` -/
structure CurveInv (bq i m : Nat) (v : ℝ → List ℝ) (t0 : ℝ) : Prop where
  len : ∀ t, (v t).length = m
  const : ∀ c, c < m → c / bq < i → ∀ t, nth (v t) c = nth (v t0) c
  pos : ∀ c, c < m → c / bq = i →
    DifferentiableAt ℝ (fun t => nth (v t) c) t0 ∧ 0 < deriv (fun t => nth (v t) c) t0

theorem curveInv_layer (L : BnafLayer ℝ) (hL : BnafWellShaped L) (hb1 : 0 < L.b1) (i : Nat) (hi : i < L.n)
    (v : ℝ → List ℝ) (t0 : ℝ) (hv : CurveInv L.b1 i (L.b1 * L.n) v t0) :
    CurveInv L.b0 i (L.b0 * L.n) (fun t => L.apply (v t)) t0 := by
  have hsh := unwrapW_shape L hL
  refine ⟨fun t => bnafApply_length L hL _, ?_, ?_⟩
  · -- blocks `< i`: dependency
    intro u hu hblk t
    have hA : AgreeOn (fun c => c / L.b1 ≤ u / L.b0) (v t) (v t0) := by
      refine ⟨by rw [hv.len, hv.len], ?_⟩
      intro c h h' hc
      have hcm : c < L.b1 * L.n := by rw [hv.len] at h; exact h
      have := hv.const c hcm (by omega) t
      rwa [nth_of_lt h, nth_of_lt h'] at this
    have := (linearApply_agree (sees_bnaf L (u / L.b0)) L.bias hA)
    have h2 := this.2 u (by rw [← BnafLayer.apply, bnafApply_length L hL]; exact hu)
      (by rw [← BnafLayer.apply, bnafApply_length L hL]; exact hu) (le_refl _)
    rw [nth_of_lt (by rw [bnafApply_length L hL]; exact hu), nth_of_lt (by rw [bnafApply_length L hL]; exact hu)]
    exact h2
  · -- block `i`: positive velocity
    intro u hu hblk
    have huW : u < L.unwrapW.length := by rw [hsh.1]; exact hu
    have hub : u < L.bias.length := by rw [hL.2.1]; exact hu
    have hrow : L.unwrapW[u].length = L.b1 * L.n := hsh.2 _ (List.getElem_mem huW)
    have hfun : (fun t => nth (L.apply (v t)) u) =
        fun t => (∑ c ∈ Finset.range (L.b1 * L.n), nth L.unwrapW[u] c * nth (v t) c) + L.bias[u] := by
      funext t
      rw [BnafLayer.apply, nth_linearApply _ _ _ u huW hub, hrow]
    -- per-term derivative
    let D : Nat → ℝ := fun c =>
      if c / L.b1 = i then nth L.unwrapW[u] c * deriv (fun t => nth (v t) c) t0 else 0
    have hterm : ∀ c ∈ Finset.range (L.b1 * L.n),
        HasDerivAt (fun t => nth L.unwrapW[u] c * nth (v t) c) (D c) t0 := by
      intro c hc
      have hcm : c < L.b1 * L.n := Finset.mem_range.mp hc
      have hcW : c < L.unwrapW[u].length := by rw [hrow]; exact hcm
      rcases lt_trichotomy (c / L.b1) i with hlt | heq | hgt
      · have hconst : (fun t => nth L.unwrapW[u] c * nth (v t) c) = fun _ => nth L.unwrapW[u] c * nth (v t0) c := by
          funext t; rw [hv.const c hcm hlt t]
        have hD : D c = 0 := by simp only [D]; rw [if_neg (by omega)]
        rw [hconst, hD]; exact hasDerivAt_const _ _
      · have hD : D c = nth L.unwrapW[u] c * deriv (fun t => nth (v t) c) t0 := by simp only [D]; rw [if_pos heq]
        rw [hD]
        exact ((hv.pos c hcm heq).1.hasDerivAt).const_mul _
      · have hz : nth L.unwrapW[u] c = 0 := by
          rw [nth_of_lt hcW]
          apply (unwrapW_entry L u c huW hcW).1
          have hnot : ¬ entry (blockTrilMask L.b0 L.b1 L.n 0) u c = true := by
            rw [entry_blockTrilMask L.b0 L.b1 L.n 0 u c hu hcm]
            have : u / L.b0 < c / L.b1 := by omega
            simp only [sub_zero, not_le]; exact_mod_cast this
          simpa using hnot
        have hconst : (fun t => nth L.unwrapW[u] c * nth (v t) c) = fun _ => (0 : ℝ) := by
          funext t; rw [hz, zero_mul]
        have hD : D c = 0 := by simp only [D]; rw [if_neg (by omega)]
        rw [hconst, hD]; exact hasDerivAt_const _ _
    have hsum : HasDerivAt (fun t => (∑ c ∈ Finset.range (L.b1 * L.n), nth L.unwrapW[u] c * nth (v t) c) + L.bias[u])
        (∑ c ∈ Finset.range (L.b1 * L.n), D c) t0 := (HasDerivAt.fun_sum hterm).add_const _
    have hpos : 0 < ∑ c ∈ Finset.range (L.b1 * L.n), D c := by
      apply Finset.sum_pos'
      · intro c hc
        have hcm : c < L.b1 * L.n := Finset.mem_range.mp hc
        simp only [D]
        split
        · rename_i heq
          have hcW : c < L.unwrapW[u].length := by rw [hrow]; exact hcm
          have hdiag : entry (blockDiagMask L.b0 L.b1 L.n) u c = true := by
            rw [entry_blockDiagMask L.b0 L.b1 L.n u c hu hcm]; simp [hblk, heq]
          have hw := (unwrapW_entry L u c huW hcW).2 hdiag
          rw [nth_of_lt hcW]
          exact le_of_lt (mul_pos hw (hv.pos c hcm heq).2)
        · exact le_refl _
      · have hc0 : i * L.b1 < L.b1 * L.n := by
          calc i * L.b1 < (i + 1) * L.b1 := by nlinarith
            _ ≤ L.n * L.b1 := Nat.mul_le_mul_right _ hi
            _ = L.b1 * L.n := Nat.mul_comm _ _
        have hdiv : i * L.b1 / L.b1 = i := Nat.mul_div_cancel _ hb1
        refine ⟨i * L.b1, Finset.mem_range.mpr hc0, ?_⟩
        have hcW : i * L.b1 < L.unwrapW[u].length := by rw [hrow]; exact hc0
        have hdiag : entry (blockDiagMask L.b0 L.b1 L.n) u (i * L.b1) = true := by
          rw [entry_blockDiagMask L.b0 L.b1 L.n u _ hu hc0]; simp [hblk, hdiv]
        have hw := (unwrapW_entry L u _ huW hcW).2 hdiag
        simp only [D]
        rw [if_pos hdiv, nth_of_lt hcW]
        exact mul_pos hw (hv.pos _ hc0 hdiv).2
    rw [hfun]
    exact ⟨hsum.differentiableAt, by rw [hsum.deriv]; exact hpos⟩

theorem curveInv_map (act : ℝ → ℝ) (hact : ∀ z, DifferentiableAt ℝ act z ∧ 0 < deriv act z) (bq i m : Nat)
    (v : ℝ → List ℝ) (t0 : ℝ) (hv : CurveInv bq i m v t0) : CurveInv bq i m (fun t => (v t).map act) t0 := by
  have hnth : ∀ c, c < m → ∀ t, nth ((v t).map act) c = act (nth (v t) c) := by
    intro c hc t
    rw [nth_of_lt (by simp [hv.len, hc]), nth_of_lt (by rw [hv.len]; exact hc)]; simp
  refine ⟨fun t => by simp [hv.len], ?_, ?_⟩
  · intro c hc hblk t
    rw [hnth c hc t, hnth c hc t0, hv.const c hc hblk t]
  · intro c hc hblk
    have hfun : (fun t => nth ((v t).map act) c) = fun t => act (nth (v t) c) := by funext t; exact hnth c hc t
    obtain ⟨hd, hp⟩ := hv.pos c hc hblk
    have hcomp := (hact (nth (v t0) c)).1.hasDerivAt.comp t0 hd.hasDerivAt
    rw [hfun]
    refine ⟨hcomp.differentiableAt, ?_⟩
    have : deriv (fun t => act (nth (v t) c)) t0 = deriv act (nth (v t0) c) * deriv (fun t => nth (v t) c) t0 :=
      hcomp.deriv
    rw [this]
    exact mul_pos (hact _).2 hp

theorem curveInv_add (cterm : List ℝ) (bq i m : Nat) (hc : cterm.length = m)
    (v : ℝ → List ℝ) (t0 : ℝ) (hv : CurveInv bq i m v t0) :
    CurveInv bq i m (fun t => List.zipWith (· + ·) (v t) cterm) t0 := by
  have hnth : ∀ c, c < m → ∀ t, nth (List.zipWith (· + ·) (v t) cterm) c = nth (v t) c + nth cterm c := by
    intro c hcm t
    rw [nth_of_lt (by simp [hv.len, hc, hcm]), nth_of_lt (by rw [hv.len]; exact hcm), nth_of_lt (by rw [hc]; exact hcm)]
    simp
  refine ⟨fun t => by simp [hv.len, hc], ?_, ?_⟩
  · intro c hcm hblk t
    rw [hnth c hcm t, hnth c hcm t0, hv.const c hcm hblk t]
  · intro c hcm hblk
    have hfun : (fun t => nth (List.zipWith (· + ·) (v t) cterm) c) = fun t => nth (v t) c + nth cterm c := by
      funext t; exact hnth c hcm t
    obtain ⟨hd, hp⟩ := hv.pos c hcm hblk
    have h := hd.hasDerivAt.add_const (nth cterm c)
    rw [hfun]
    exact ⟨h.differentiableAt, by rw [h.deriv]; exact hp⟩

theorem bnafChain_curve {bin bout : Nat} {Ls : List (BnafLayer ℝ)} (h : BnafChain bin Ls bout) (act : ℝ → ℝ)
    (hact : ∀ z, DifferentiableAt ℝ act z ∧ 0 < deriv act z) (n i : Nat) (hi : i < n) :
    (∀ L ∈ Ls, BnafWellShaped L ∧ L.n = n ∧ 0 < L.b1) →
    ∀ (first : Bool) (condTerm : Option (List ℝ)),
      (first = true → ∀ L ∈ Ls.head?, ∀ c ∈ condTerm, c.length = L.b0 * n) →
      ∀ (v : ℝ → List ℝ) (t0 : ℝ), CurveInv bin i (bin * n) v t0 →
        CurveInv bout i (bout * n) (fun t => bnafForward act first condTerm Ls (v t)) t0 := by
  induction h with
  | last L =>
    intro hall first condTerm _ v t0 hv
    obtain ⟨hL, hn, hb1⟩ := hall L (by simp)
    have := curveInv_layer L hL hb1 i (by rw [hn]; exact hi) v t0 (by rw [hn]; exact hv)
    rw [hn] at this
    simpa only [bnafForward] using this
  | cons L rest bout hrest ih =>
    intro hall first condTerm hcond v t0 hv
    obtain ⟨hL, hn, hb1⟩ := hall L (by simp)
    obtain ⟨L', Ls', rfl⟩ := List.exists_cons_of_ne_nil hrest.ne_nil
    have h1 := curveInv_layer L hL hb1 i (by rw [hn]; exact hi) v t0 (by rw [hn]; exact hv)
    rw [hn] at h1
    have hall' : ∀ M ∈ L' :: Ls', BnafWellShaped M ∧ M.n = n ∧ 0 < M.b1 := fun M hM => hall M (List.mem_cons_of_mem _ hM)
    simp only [bnafForward]
    apply ih hall' false condTerm (by intro hf; cases hf)
    apply curveInv_map act hact
    cases first with
    | false => exact h1
    | true =>
      cases condTerm with
      | none => exact h1
      | some c =>
        have hc : c.length = L.b0 * n := hcond rfl L (by simp) c (by simp)
        exact curveInv_add c L.b0 i (L.b0 * n) hc _ t0 h1

theorem bnafBlockShapes_pos (depth bd : Nat) (hbd : 0 < bd) : ∀ p ∈ bnafBlockShapes depth bd, 0 < p.2 := by
  intro p hp
  unfold bnafBlockShapes at hp
  split at hp
  · simp only [List.mem_singleton] at hp; subst hp; simp
  · simp only [List.mem_cons, List.mem_append, List.mem_replicate, List.not_mem_nil, or_false] at hp
    rcases hp with rfl | ⟨_, rfl⟩ | rfl <;> simp [hbd]

theorem nth_set_ne (x : List ℝ) (j c : Nat) (t : ℝ) (h : c ≠ j) : nth (x.set j t) c = nth x c := by
  simp [nth, Ne.symm h]

theorem nth_set_self (x : List ℝ) (j : Nat) (t : ℝ) (h : j < x.length) : nth (x.set j t) j = t := by
  simp [nth, h]

/-- `bnaf_jacobian`: every partial derivative above the diagonal vanishes (output `i` does not depend on `x_j`,
`j > i`, at all) and every diagonal partial derivative exists and is strictly positive -/
theorem bnaf_partials (act : ℝ → ℝ) (hact : ∀ z, DifferentiableAt ℝ act z ∧ 0 < deriv act z)
    (dim depth bd : Nat) (hbd : 0 < bd) (Ls : List (BnafLayer ℝ))
    (hshapes : Ls.map (fun L => (L.b0, L.b1)) = bnafBlockShapes depth bd)
    (hws : ∀ L ∈ Ls, BnafWellShaped L ∧ L.n = dim)
    (condLinear : Option (List (List ℝ))) (cond : List ℝ)
    (hcl : ∀ C ∈ condLinear, ∀ L ∈ Ls.head?, C.length = L.b0 * dim)
    (x : List ℝ) (hx : x.length = dim) (i : Nat) (hi : i < dim) :
    (∀ j, i < j → ∀ t, nth (bnafTransform act Ls condLinear (x.set j t) cond) i
        = nth (bnafTransform act Ls condLinear x cond) i) ∧
    (∀ t0, ∃ d, 0 < d ∧
      HasDerivAt (fun t => nth (bnafTransform act Ls condLinear (x.set i t) cond) i) d t0) := by
  have hchain := bnafChain_of_shapes depth bd Ls hshapes
  constructor
  · intro j hij t
    have hA : AgreeOn (fun c => c / 1 ≤ i) (x.set j t) x := by
      refine ⟨by simp, ?_⟩
      intro c h h' hc
      simp only [Nat.div_one] at hc
      rw [List.getElem_set]
      rw [if_neg (by omega)]
    have := (bnafChain_dep hchain act i true (condLinear.map fun C => C.map fun row => Jnp.dot row cond) hA).getElem?
      (o := i) (by simp)
    simp only [bnafTransform, nth, this]
  · intro t0
    have hall : ∀ L ∈ Ls, BnafWellShaped L ∧ L.n = dim ∧ 0 < L.b1 := by
      intro L hL
      refine ⟨(hws L hL).1, (hws L hL).2, ?_⟩
      have : (L.b0, L.b1) ∈ bnafBlockShapes depth bd := by rw [← hshapes]; exact List.mem_map.mpr ⟨L, hL, rfl⟩
      exact bnafBlockShapes_pos depth bd hbd _ this
    have hv0 : CurveInv 1 i (1 * dim) (fun t => x.set i t) t0 := by
      refine ⟨fun t => by simp [hx], ?_, ?_⟩
      · intro c _ hc t
        simp only [Nat.div_one] at hc
        rw [nth_set_ne x i c t (by omega), nth_set_ne x i c t0 (by omega)]
      · intro c _ hc
        simp only [Nat.div_one] at hc
        subst hc
        have hfun : (fun t => nth (x.set c t) c) = fun t => t := by
          funext t; exact nth_set_self x c t (by omega)
        rw [hfun]
        exact ⟨differentiableAt_id, by simp⟩
    have hcond : (true = true → ∀ L ∈ Ls.head?, ∀ c ∈ (condLinear.map fun C => C.map fun row => Jnp.dot row cond),
        c.length = L.b0 * dim) := by
      intro _ L hL c hc
      simp only [Option.mem_def, Option.map_eq_some_iff] at hc
      obtain ⟨C, hC, rfl⟩ := hc
      simp only [List.length_map]
      exact hcl C hC L hL
    have hout := bnafChain_curve hchain act hact dim i hi hall true _ hcond _ t0 hv0
    obtain ⟨hd, hp⟩ := hout.pos i (by omega) (Nat.div_one i)
    exact ⟨_, hp, hd.hasDerivAt⟩

/-- output `i` of the BNAF transform depends only on `x_0 … x_i` (and the condition) — all raw weights/scales,
no shape hypotheses needed -/
theorem bnaf_dep (act : ℝ → ℝ) (depth bd : Nat) (Ls : List (BnafLayer ℝ))
    (hshapes : Ls.map (fun L => (L.b0, L.b1)) = bnafBlockShapes depth bd)
    (condLinear : Option (List (List ℝ))) (cond : List ℝ) (x x' : List ℝ) (hlen : x.length = x'.length) (i : Nat)
    (hagree : ∀ j (hj : j < x.length) (hj' : j < x'.length), j ≤ i → x[j] = x'[j]) :
    (bnafTransform act Ls condLinear x cond)[i]? = (bnafTransform act Ls condLinear x' cond)[i]? := by
  have hchain := bnafChain_of_shapes depth bd Ls hshapes
  have hA : AgreeOn (fun c => c / 1 ≤ i) x x' :=
    ⟨hlen, fun c h h' hc => hagree c h h' (by simpa using hc)⟩
  exact (bnafChain_dep hchain act i true _ hA).getElem? (o := i) (by simp)

/-! ### strict monotonicity in the own coordinate (derivative-free form of the positive diagonal) -/

/-- `v'` is `v` with block `i` strictly raised and the blocks before `i` untouched -/
structure StepInv (bq i m : Nat) (v v' : List ℝ) : Prop where
  len : v.length = m
  len' : v'.length = m
  eq : ∀ c, c < m → c / bq < i → nth v c = nth v' c
  lt : ∀ c, c < m → c / bq = i → nth v c < nth v' c

theorem stepInv_layer (L : BnafLayer ℝ) (hL : BnafWellShaped L) (hb1 : 0 < L.b1) (i : Nat) (hi : i < L.n)
    (v v' : List ℝ) (hv : StepInv L.b1 i (L.b1 * L.n) v v') :
    StepInv L.b0 i (L.b0 * L.n) (L.apply v) (L.apply v') := by
  have hsh := unwrapW_shape L hL
  refine ⟨bnafApply_length L hL _, bnafApply_length L hL _, ?_, ?_⟩
  · intro u hu hblk
    have hA : AgreeOn (fun c => c / L.b1 ≤ u / L.b0) v v' := by
      refine ⟨by rw [hv.len, hv.len'], ?_⟩
      intro c h h' hc
      have hcm : c < L.b1 * L.n := by rw [hv.len] at h; exact h
      have := hv.eq c hcm (by omega)
      rwa [nth_of_lt h, nth_of_lt h'] at this
    have := (linearApply_agree (sees_bnaf L (u / L.b0)) L.bias hA)
    have h2 := this.2 u (by rw [← BnafLayer.apply, bnafApply_length L hL]; exact hu)
      (by rw [← BnafLayer.apply, bnafApply_length L hL]; exact hu) (le_refl _)
    rw [nth_of_lt (by rw [bnafApply_length L hL]; exact hu), nth_of_lt (by rw [bnafApply_length L hL]; exact hu)]
    exact h2
  · intro u hu hblk
    have huW : u < L.unwrapW.length := by rw [hsh.1]; exact hu
    have hub : u < L.bias.length := by rw [hL.2.1]; exact hu
    have hrow : L.unwrapW[u].length = L.b1 * L.n := hsh.2 _ (List.getElem_mem huW)
    show nth (linearApply L.unwrapW L.bias v) u < nth (linearApply L.unwrapW L.bias v') u
    rw [nth_linearApply _ _ _ u huW hub, nth_linearApply _ _ _ u huW hub, hrow]
    apply add_lt_add_left
    apply Finset.sum_lt_sum
    · intro c hc
      have hcm : c < L.b1 * L.n := Finset.mem_range.mp hc
      have hcW : c < L.unwrapW[u].length := by rw [hrow]; exact hcm
      rcases lt_trichotomy (c / L.b1) i with hlt | heq | hgt
      · rw [hv.eq c hcm hlt]
      · have hdiag : entry (blockDiagMask L.b0 L.b1 L.n) u c = true := by
          rw [entry_blockDiagMask L.b0 L.b1 L.n u c hu hcm]; simp [hblk, heq]
        have hw := (unwrapW_entry L u c huW hcW).2 hdiag
        rw [nth_of_lt hcW]
        exact le_of_lt (mul_lt_mul_of_pos_left (hv.lt c hcm heq) hw)
      · have hz : nth L.unwrapW[u] c = 0 := by
          rw [nth_of_lt hcW]
          apply (unwrapW_entry L u c huW hcW).1
          have hnot : ¬ entry (blockTrilMask L.b0 L.b1 L.n 0) u c = true := by
            rw [entry_blockTrilMask L.b0 L.b1 L.n 0 u c hu hcm]
            have : u / L.b0 < c / L.b1 := by omega
            simp only [sub_zero, not_le]; exact_mod_cast this
          simpa using hnot
        rw [hz]; simp
    · have hc0 : i * L.b1 < L.b1 * L.n := by
        calc i * L.b1 < (i + 1) * L.b1 := by nlinarith
          _ ≤ L.n * L.b1 := Nat.mul_le_mul_right _ hi
          _ = L.b1 * L.n := Nat.mul_comm _ _
      have hdiv : i * L.b1 / L.b1 = i := Nat.mul_div_cancel _ hb1
      refine ⟨i * L.b1, Finset.mem_range.mpr hc0, ?_⟩
      have hcW : i * L.b1 < L.unwrapW[u].length := by rw [hrow]; exact hc0
      have hdiag : entry (blockDiagMask L.b0 L.b1 L.n) u (i * L.b1) = true := by
        rw [entry_blockDiagMask L.b0 L.b1 L.n u _ hu hc0]; simp [hblk, hdiv]
      have hw := (unwrapW_entry L u _ huW hcW).2 hdiag
      rw [nth_of_lt hcW]
      exact mul_lt_mul_of_pos_left (hv.lt _ hc0 hdiv) hw

theorem stepInv_map (act : ℝ → ℝ) (hact : StrictMono act) (bq i m : Nat) (v v' : List ℝ) (hv : StepInv bq i m v v') :
    StepInv bq i m (v.map act) (v'.map act) := by
  have hn : ∀ (w : List ℝ), w.length = m → ∀ c, c < m → nth (w.map act) c = act (nth w c) := by
    intro w hw c hc
    rw [nth_of_lt (by simp [hw, hc]), nth_of_lt (by rw [hw]; exact hc)]; simp
  refine ⟨by simp [hv.len], by simp [hv.len'], ?_, ?_⟩
  · intro c hc hblk; rw [hn v hv.len c hc, hn v' hv.len' c hc, hv.eq c hc hblk]
  · intro c hc hblk; rw [hn v hv.len c hc, hn v' hv.len' c hc]; exact hact (hv.lt c hc hblk)

theorem stepInv_add (cterm : List ℝ) (bq i m : Nat) (hc : cterm.length = m) (v v' : List ℝ) (hv : StepInv bq i m v v') :
    StepInv bq i m (List.zipWith (· + ·) v cterm) (List.zipWith (· + ·) v' cterm) := by
  have hn : ∀ (w : List ℝ), w.length = m → ∀ c, c < m → nth (List.zipWith (· + ·) w cterm) c = nth w c + nth cterm c := by
    intro w hw c hcm
    rw [nth_of_lt (by simp [hw, hc, hcm]), nth_of_lt (by rw [hw]; exact hcm), nth_of_lt (by rw [hc]; exact hcm)]
    simp
  refine ⟨by simp [hv.len, hc], by simp [hv.len', hc], ?_, ?_⟩
  · intro c hcm hblk; rw [hn v hv.len c hcm, hn v' hv.len' c hcm, hv.eq c hcm hblk]
  · intro c hcm hblk; rw [hn v hv.len c hcm, hn v' hv.len' c hcm]; exact add_lt_add_left (hv.lt c hcm hblk) _

theorem bnafChain_step {bin bout : Nat} {Ls : List (BnafLayer ℝ)} (h : BnafChain bin Ls bout) (act : ℝ → ℝ)
    (hact : StrictMono act) (n i : Nat) (hi : i < n) :
    (∀ L ∈ Ls, BnafWellShaped L ∧ L.n = n ∧ 0 < L.b1) →
    ∀ (first : Bool) (condTerm : Option (List ℝ)),
      (first = true → ∀ L ∈ Ls.head?, ∀ c ∈ condTerm, c.length = L.b0 * n) →
      ∀ (v v' : List ℝ), StepInv bin i (bin * n) v v' →
        StepInv bout i (bout * n) (bnafForward act first condTerm Ls v) (bnafForward act first condTerm Ls v') := by
  induction h with
  | last L =>
    intro hall first condTerm _ v v' hv
    obtain ⟨hL, hn, hb1⟩ := hall L (by simp)
    have := stepInv_layer L hL hb1 i (by rw [hn]; exact hi) v v' (by rw [hn]; exact hv)
    rw [hn] at this
    simpa only [bnafForward] using this
  | cons L rest bout hrest ih =>
    intro hall first condTerm hcond v v' hv
    obtain ⟨hL, hn, hb1⟩ := hall L (by simp)
    obtain ⟨L', Ls', rfl⟩ := List.exists_cons_of_ne_nil hrest.ne_nil
    have h1 := stepInv_layer L hL hb1 i (by rw [hn]; exact hi) v v' (by rw [hn]; exact hv)
    rw [hn] at h1
    have hall' : ∀ M ∈ L' :: Ls', BnafWellShaped M ∧ M.n = n ∧ 0 < M.b1 := fun M hM => hall M (List.mem_cons_of_mem _ hM)
    simp only [bnafForward]
    apply ih hall' false condTerm (by intro hf; cases hf)
    apply stepInv_map act hact
    cases first with
    | false => exact h1
    | true =>
      cases condTerm with
      | none => exact h1
      | some c =>
        have hc : c.length = L.b0 * n := hcond rfl L (by simp) c (by simp)
        exact stepInv_add c L.b0 i (L.b0 * n) hc _ _ h1

/-- raising `x_i` strictly raises output `i` (strictly increasing activation; no differentiability needed) -/
theorem bnaf_strictMono (act : ℝ → ℝ) (hact : StrictMono act)
    (dim depth bd : Nat) (hbd : 0 < bd) (Ls : List (BnafLayer ℝ))
    (hshapes : Ls.map (fun L => (L.b0, L.b1)) = bnafBlockShapes depth bd)
    (hws : ∀ L ∈ Ls, BnafWellShaped L ∧ L.n = dim)
    (condLinear : Option (List (List ℝ))) (cond : List ℝ)
    (hcl : ∀ C ∈ condLinear, ∀ L ∈ Ls.head?, C.length = L.b0 * dim)
    (x : List ℝ) (hx : x.length = dim) (i : Nat) (hi : i < dim) (t t' : ℝ) (htt : t < t') :
    nth (bnafTransform act Ls condLinear (x.set i t) cond) i < nth (bnafTransform act Ls condLinear (x.set i t') cond) i := by
  have hchain := bnafChain_of_shapes depth bd Ls hshapes
  have hall : ∀ L ∈ Ls, BnafWellShaped L ∧ L.n = dim ∧ 0 < L.b1 := by
    intro L hL
    refine ⟨(hws L hL).1, (hws L hL).2, ?_⟩
    have : (L.b0, L.b1) ∈ bnafBlockShapes depth bd := by rw [← hshapes]; exact List.mem_map.mpr ⟨L, hL, rfl⟩
    exact bnafBlockShapes_pos depth bd hbd _ this
  have hv0 : StepInv 1 i (1 * dim) (x.set i t) (x.set i t') := by
    refine ⟨by simp [hx], by simp [hx], ?_, ?_⟩
    · intro c _ hc
      simp only [Nat.div_one] at hc
      rw [nth_set_ne x i c t (by omega), nth_set_ne x i c t' (by omega)]
    · intro c _ hc
      simp only [Nat.div_one] at hc
      subst hc
      rw [nth_set_self x c t (by omega), nth_set_self x c t' (by omega)]; exact htt
  have hcond : (true = true → ∀ L ∈ Ls.head?, ∀ c ∈ (condLinear.map fun C => C.map fun row => Jnp.dot row cond),
      c.length = L.b0 * dim) := by
    intro _ L hL c hc
    simp only [Option.mem_def, Option.map_eq_some_iff] at hc
    obtain ⟨C, hC, rfl⟩ := hc
    simp only [List.length_map]
    exact hcl C hC L hL
  exact (bnafChain_step hchain act hact dim i hi hall true _ hcond _ _ hv0).lt i (by omega) (Nat.div_one i)

/-! ### products of block-lower-triangular matrices (the chain-rule factorisation of the Jacobian) -/

/-- `(A · B) r c = Σ_{k < q} A r k * B k c` for `ℕ`-indexed matrices with inner dimension `q` -/
def matMul (q : Nat) (A B : Nat → Nat → ℝ) (r c : Nat) : ℝ := ∑ k ∈ Finset.range q, A r k * B k c

/-- block-lower-triangular: zero whenever the row block index is smaller than the column block index -/
def BlockLT (bo bi : Nat) (A : Nat → Nat → ℝ) : Prop := ∀ r c, r / bo < c / bi → A r c = 0

/-- entrywise positive diagonal blocks (`p × q` matrix) -/
def BlockDiagPos (bo bi p q : Nat) (A : Nat → Nat → ℝ) : Prop := ∀ r c, r < p → c < q → r / bo = c / bi → 0 < A r c

theorem blockLT_matMul (bo bm bi q : Nat) (A B : Nat → Nat → ℝ) (hA : BlockLT bo bm A) (hB : BlockLT bm bi B) :
    BlockLT bo bi (matMul q A B) := by
  intro r c hrc
  unfold matMul
  apply Finset.sum_eq_zero
  intro k _
  by_cases hk : r / bo < k / bm
  · rw [hA r k hk, zero_mul]
  · rw [hB k c (by omega), mul_zero]

theorem blockDiagPos_matMul (bo bm bi n p s : Nat) (hbm : 0 < bm) (hp : p ≤ bo * n) (hbo : 0 < bo) (A B : Nat → Nat → ℝ)
    (hA : BlockLT bo bm A) (hB : BlockLT bm bi B)
    (hAp : BlockDiagPos bo bm p (bm * n) A) (hBp : BlockDiagPos bm bi (bm * n) s B) :
    BlockDiagPos bo bi p s (matMul (bm * n) A B) := by
  intro r c hr hc hrc
  unfold matMul
  have hblk : r / bo < n := by
    rw [Nat.div_lt_iff_lt_mul hbo, Nat.mul_comm]; omega
  apply Finset.sum_pos'
  · intro k hk
    have hkq : k < bm * n := Finset.mem_range.mp hk
    rcases lt_trichotomy (k / bm) (r / bo) with hlt | heq | hgt
    · rw [hB k c (by omega), mul_zero]
    · exact le_of_lt (mul_pos (hAp r k hr hkq heq.symm) (hBp k c hkq hc (by omega)))
    · rw [hA r k hgt, zero_mul]
  · have hk0 : (r / bo) * bm < bm * n := by
      calc (r / bo) * bm < (r / bo + 1) * bm := by nlinarith
        _ ≤ n * bm := Nat.mul_le_mul_right _ hblk
        _ = bm * n := Nat.mul_comm _ _
    have hdiv : (r / bo) * bm / bm = r / bo := Nat.mul_div_cancel _ hbm
    exact ⟨(r / bo) * bm, Finset.mem_range.mpr hk0,
      mul_pos (hAp r _ hr hk0 hdiv.symm) (hBp _ c hk0 hc (by omega))⟩

/-- right-multiplication by a positive diagonal matrix (the activation derivatives) preserves both properties -/
theorem blockLT_mul_diag (bo bi p q : Nat) (A : Nat → Nat → ℝ) (d : Nat → ℝ) (hd : ∀ c, 0 < d c)
    (hA : BlockLT bo bi A) (hAp : BlockDiagPos bo bi p q A) :
    BlockLT bo bi (fun r c => A r c * d c) ∧ BlockDiagPos bo bi p q (fun r c => A r c * d c) :=
  ⟨fun r c h => by simp [hA r c h], fun r c hr hc h => mul_pos (hAp r c hr hc h) (hd c)⟩

/-! ### concrete objects used by the non-vacuity instances of `Props/C09.lean` -/
def mafExample : MafNet ℝ :=
  { dim := 2, condDim := none, width := 2, depth := 1, numParams := 1,
    weights := [[[1, 1], [1, 1]], [[1, 1], [1, 1]]], biases := [[0, 0], [0, 0]], act := fun z => z }


def bnafExample : List (BnafLayer ℝ) :=
  [{ b0 := 1, b1 := 1, n := 2, weight := [[1, 5], [-3, 2]], bias := [0, 1], scaleRaw := [0, -1] },
   { b0 := 1, b1 := 1, n := 2, weight := [[-2, 7], [4, -1]], bias := [1, 0], scaleRaw := [2, 0] }]


end MasksPf
