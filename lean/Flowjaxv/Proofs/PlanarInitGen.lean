import Flowjaxv.Gen.PlanarInitGen
import Flowjaxv.Gen.Planar
import Flowjaxv.Proofs.RealInst
/-!
# The GENERATED `_UnconditionalPlanar.__init__` (`Gen/PlanarInitGen.lean`): guard, activation choice, tie to `Gen/Planar.lean`
-/
namespace PlanarInitPf
open Gen

section generic
variable {α : Type} [Add α] [Sub α] [Mul α] [Div α] [Neg α] [LT α] [LE α] [BEq α]
  [OfNat α 0] [OfNat α 1] [OfNat α 2] [OfNat α 4] [OfScientific α]
  [DecidableLT α] [DecidableLE α] [Transc α] [Inhabited α]

/-- the documented behaviour of the constructor -/
def spec (weight act_scale : List α) (bias : α) : Option α → Except Pw.PyErr (Pw.UPlanar α)
  | none => .ok ⟨weight, bias, [weight.length], none, act_scale, "tanh".toList, fun z => Transc.tanh z⟩
  | some s => if s ≤ 0 then .error .valueError
      else .ok ⟨weight, bias, [weight.length], some s, act_scale, "leaky_relu".toList, fun z => Jnp.leakyRelu z s⟩

/-- **generated `_UnconditionalPlanar.__init__` = its specification**, every scalar type, every argument -/
theorem gen_init_eq (weight act_scale : List α) (bias : α) (negative_slope : Option α) :
    GenPlanarInit.init weight act_scale bias negative_slope = spec weight act_scale bias negative_slope := by
  unfold GenPlanarInit.init spec
  cases negative_slope with
  | none => rfl
  | some s =>
    by_cases h : s ≤ 0
    · simp [h, Except.bind]
    · simp [h, Except.bind]

/-- the constructor raises iff `negative_slope` is given and `≤ 0`, and then `ValueError` -/
theorem gen_init_raises_iff (weight act_scale : List α) (bias : α) (negative_slope : Option α) (e : Pw.PyErr) :
    GenPlanarInit.init weight act_scale bias negative_slope = .error e ↔ e = .valueError ∧ ∃ s, negative_slope = some s ∧ s ≤ 0 := by
  rw [gen_init_eq]
  cases e
  cases negative_slope with
  | none => simp [spec]
  | some s =>
    by_cases h : s ≤ 0
    · simp [spec, h]
    · simp [spec, h]

/-- **tie to `Gen/Planar.lean`**: for an object the generated constructor returns, the generated `_UnconditionalPlanar.transform`
specialised to the activation the constructor selected (`transform_tanh` for `negative_slope=None`, `transform_lrelu s` for
`negative_slope=s`) is `x + u * self.activation_fn(self.weight @ x + self.bias)` with the `activation_fn` the constructor stored, and
`self.activation` is the matching string. -/
theorem gen_init_activation [NatCast α] (weight act_scale : List α) (bias : α) (negative_slope : Option α) (obj : Pw.UPlanar α)
    (h : GenPlanarInit.init weight act_scale bias negative_slope = .ok obj) (x : List α) :
    let p : UnconditionalPlanar α := ⟨obj.weight, obj._act_scale, obj.bias⟩
    obj.weight = weight ∧ obj._act_scale = act_scale ∧ obj.bias = bias ∧ obj.shape = [weight.length] ∧
    obj.negative_slope = negative_slope ∧
    (negative_slope = none → obj.activation = "tanh".toList ∧ p.transform_tanh x
          = List.zipWith (fun a b => a + b) x (p.get_act_scale.map fun a => a * obj.activation_fn (Jnp.dot p.weight x + p.bias))) ∧
    (∀ s, negative_slope = some s → ¬ s ≤ 0 ∧ obj.activation = "leaky_relu".toList ∧ p.transform_lrelu s x
          = List.zipWith (fun a b => a + b) x (p.get_act_scale.map fun a => a * obj.activation_fn (Jnp.dot p.weight x + p.bias))) := by
  rw [gen_init_eq] at h
  cases negative_slope with
  | none => simp only [spec] at h; cases h; exact ⟨rfl, rfl, rfl, rfl, rfl, fun _ => ⟨rfl, rfl⟩, fun s hs => (by cases hs)⟩
  | some s =>
    by_cases hs : s ≤ 0
    · simp only [spec, if_pos hs] at h; cases h
    · simp only [spec, if_neg hs] at h; cases h
      exact ⟨rfl, rfl, rfl, rfl, rfl, fun hn => (by cases hn), fun s' hs' => (by cases hs'; exact ⟨hs, rfl, rfl⟩)⟩

end generic
end PlanarInitPf
