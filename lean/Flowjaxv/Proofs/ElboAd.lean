import Flowjaxv.Proofs.EF
import Flowjaxv.Model.ElboAd
/-!
# `stop_gradient` under reverse mode, and the gradient of the ELBO with and without stick-the-landing

Everything in the first part holds for EVERY number domain `N` (`Float`, `EF`, …) as an exact equality of the
adjoint LISTS the reverse pass produces — no algebra is used.  The decomposition `plain = path + score` adds up
adjoints and needs addition to be a commutative monoid (`AddLawful`: holds for `EF`, infinities and NaN
included — the finite part of `EF` is `ℝ` with exact arithmetic).
-/
namespace ElboAdT
open Ad ElboAd
variable {N : Type} [Num N]

/-! ### `stop_gradient(params)` does not change a value … -/
theorem sg_eval (e : Expr N) : ∀ (P : Params) (env : Env N), (sg P e).eval env = e.eval env := by
  induction e with
  | var i => intro P env; simp only [sg]; split <;> rfl
  | const c => intro P env; rfl
  | get vec idx => intro P env; simp only [sg]; split <;> rfl
  | add a b iha ihb => intro P env; simp only [sg, Expr.eval, iha, ihb]
  | sub a b iha ihb => intro P env; simp only [sg, Expr.eval, iha, ihb]
  | mul a b iha ihb => intro P env; simp only [sg, Expr.eval, iha, ihb]
  | div a b iha ihb => intro P env; simp only [sg, Expr.eval, iha, ihb]
  | neg a iha => intro P env; simp only [sg, Expr.eval, iha]
  | prim p a iha => intro P env; simp only [sg, Expr.eval, iha]
  | bin p a b iha ihb => intro P env; simp only [sg, Expr.eval, iha, ihb]
  | max a b iha ihb => intro P env; simp only [sg, Expr.eval, iha, ihb]
  | min a b iha ihb => intro P env; simp only [sg, Expr.eval, iha, ihb]
  | sel c a b iha ihb => intro P env; simp only [sg, Expr.eval, iha, ihb]
  | letE i v body ihv ihb => intro P env; simp only [sg, Expr.eval, ihv, ihb]
  | stopGrad a _ => intro P env; rfl

/-! ### totals of filtered / appended adjoint lists -/
/-- keeping only the entries of key `k` -/
theorem total_filter (p : Key → Bool) (g : Grad N) (k : Key) :
    Grad.total (g.filter (fun kv => p kv.1)) k = if p k then Grad.total g k else Num.ofInt 0 := by
  unfold Grad.total
  rw [List.filter_filter]
  by_cases h : p k
  · simp only [h, if_true]
    congr 1
    apply List.filter_congr
    intro kv _
    by_cases hk : kv.1 = k
    · simp [hk, h]
    · simp [hk]
  · simp only [h]
    have : g.filter (fun kv => (decide (kv.1 = k) && p kv.1)) = [] := by
      apply List.filter_eq_nil_iff.mpr
      intro kv _
      by_cases hk : kv.1 = k
      · simp [hk, h]
      · simp [hk]
    simp [this]

theorem total_append (a b : Grad N) (k : Key) :
    Grad.total (a ++ b) k = (b.filter (fun kv => kv.1 = k)).foldl (fun acc kv => acc + kv.2) (Grad.total a k) := by
  unfold Grad.total
  rw [List.filter_append, List.foldl_append]

/-! ### … and deletes exactly the adjoints of the trainable leaves -/
theorem erase_has_self (P : Params) (i : Nat) : (P.erase i).has (Key.s i) = false := by
  simp [Params.erase, Params.has]

theorem erase_has_ne (P : Params) (i : Nat) {k : Key} (h : k ≠ Key.s i) : (P.erase i).has k = P.has k := by
  cases k with
  | s j =>
    have : j ≠ i := fun e => h (by rw [e])
    simp [Params.erase, Params.has, this]
  | v vec pos => rfl

/-- the `let` rule commutes with deleting the parameter adjoints -/
theorem letE_filter (P : Params) (i : Nat) (gb : Grad N) :
    (gb.filter (fun kv => !(P.erase i).has kv.1)).filter (fun kv => kv.1 ≠ Key.s i)
      = (gb.filter (fun kv => kv.1 ≠ Key.s i)).filter (fun kv => !P.has kv.1)
    ∧ Grad.total (gb.filter (fun kv => !(P.erase i).has kv.1)) (Key.s i) = Grad.total gb (Key.s i) := by
  constructor
  · rw [List.filter_filter, List.filter_filter]
    apply List.filter_congr
    intro kv _
    by_cases hk : kv.1 = Key.s i
    · simp [hk]
    · simp [hk, erase_has_ne P i hk]
  · unfold Grad.total
    rw [List.filter_filter]
    congr 1
    apply List.filter_congr
    intro kv _
    by_cases hk : kv.1 = Key.s i
    · simp [hk, erase_has_self]
    · simp [hk]

theorem sg_vjp (e : Expr N) : ∀ (P : Params) (env : Env N) (ct : N),
    (sg P e).vjp env ct = (e.vjp env ct).filter (fun kv => !P.has kv.1) := by
  induction e with
  | var i =>
    intro P env ct; simp only [sg]
    by_cases h : P.s i <;> simp [h, Expr.vjp, Params.has]
  | const c => intro P env ct; simp [sg, Expr.vjp]
  | get vec idx =>
    intro P env ct; simp only [sg]
    by_cases h : P.v vec <;> simp [h, Expr.vjp, Params.has]
  | add a b iha ihb => intro P env ct; simp only [sg, Expr.vjp, iha, ihb, List.filter_append]
  | sub a b iha ihb => intro P env ct; simp only [sg, Expr.vjp, iha, ihb, List.filter_append]
  | mul a b iha ihb => intro P env ct; simp only [sg, Expr.vjp, iha, ihb, List.filter_append, sg_eval]
  | div a b iha ihb => intro P env ct; simp only [sg, Expr.vjp, iha, ihb, List.filter_append, sg_eval]
  | neg a iha => intro P env ct; simp only [sg, Expr.vjp, iha]
  | prim p a iha => intro P env ct; simp only [sg, Expr.vjp, iha, sg_eval]
  | bin p a b iha ihb => intro P env ct; simp only [sg, Expr.vjp, iha, ihb, List.filter_append, sg_eval]
  | max a b iha ihb => intro P env ct; simp only [sg, Expr.vjp, iha, ihb, List.filter_append, sg_eval]
  | min a b iha ihb => intro P env ct; simp only [sg, Expr.vjp, iha, ihb, List.filter_append, sg_eval]
  | sel c a b iha ihb => intro P env ct; simp only [sg, Expr.vjp, iha, ihb, List.filter_append]
  | letE i v body ihv ihb =>
    intro P env ct
    simp only [sg, Expr.vjp, sg_eval, ihv, ihb, List.filter_append]
    rw [(letE_filter P i _).1, (letE_filter P i _).2]
  | stopGrad a _ => intro P env ct; simp [sg, Expr.vjp]

omit [Num N] in
theorem sg_of_paramFree (e : Expr N) : ∀ (P : Params), paramFree P e = true → sg P e = e := by
  induction e with
  | var i => intro P h; simp only [paramFree, Bool.not_eq_true'] at h; simp [sg, h]
  | const c => intro P h; rfl
  | get vec idx => intro P h; simp only [paramFree, Bool.not_eq_true'] at h; simp [sg, h]
  | add a b iha ihb => intro P h; simp only [paramFree, Bool.and_eq_true] at h; simp only [sg, iha P h.1, ihb P h.2]
  | sub a b iha ihb => intro P h; simp only [paramFree, Bool.and_eq_true] at h; simp only [sg, iha P h.1, ihb P h.2]
  | mul a b iha ihb => intro P h; simp only [paramFree, Bool.and_eq_true] at h; simp only [sg, iha P h.1, ihb P h.2]
  | div a b iha ihb => intro P h; simp only [paramFree, Bool.and_eq_true] at h; simp only [sg, iha P h.1, ihb P h.2]
  | neg a iha => intro P h; simp only [paramFree] at h; simp only [sg, iha P h]
  | prim p a iha => intro P h; simp only [paramFree] at h; simp only [sg, iha P h]
  | bin p a b iha ihb => intro P h; simp only [paramFree, Bool.and_eq_true] at h; simp only [sg, iha P h.1, ihb P h.2]
  | max a b iha ihb => intro P h; simp only [paramFree, Bool.and_eq_true] at h; simp only [sg, iha P h.1, ihb P h.2]
  | min a b iha ihb => intro P h; simp only [paramFree, Bool.and_eq_true] at h; simp only [sg, iha P h.1, ihb P h.2]
  | sel c a b iha ihb => intro P h; simp only [paramFree, Bool.and_eq_true] at h; simp only [sg, iha P h.1, ihb P h.2]
  | letE i v body ihv ihb =>
    intro P h; simp only [paramFree, Bool.and_eq_true] at h; simp only [sg, ihv P h.1, ihb _ h.2]
  | stopGrad a _ => intro P h; rfl

/-- a parameter-free expression sends nothing to a trainable leaf -/
theorem paramFree_vjp {P : Params} {e : Expr N} (h : paramFree P e = true) (env : Env N) (ct : N) :
    (e.vjp env ct).filter (fun kv => !P.has kv.1) = e.vjp env ct := by
  rw [← sg_vjp, sg_of_paramFree e P h]

theorem letAll_eval (xs : List (Nat × Expr N)) (body : Expr N) : ∀ env : Env N,
    (letAll xs body).eval env = body.eval (bindEnv env xs) := by
  induction xs with
  | nil => intro env; rfl
  | cons iv rest ih => intro env; obtain ⟨i, v⟩ := iv; simp only [letAll, Expr.eval, bindEnv, ih]

theorem letAll_vjp (xs : List (Nat × Expr N)) (body : Expr N) : ∀ (env : Env N) (ct : N),
    (letAll xs body).vjp env ct = pullAll env xs (body.vjp (bindEnv env xs) ct) := by
  induction xs with
  | nil => intro env ct; rfl
  | cons iv rest ih => intro env ct; obtain ⟨i, v⟩ := iv; simp only [letAll, Expr.vjp, bindEnv, pullAll, pull, ih]

/-- The totals a reverse pass through the sample's definition delivers on a set `K` of keys depend only on the
totals of the incoming adjoints on `K` and on the sample components. -/
theorem pullAll_congr (K : Key → Prop) (xs : List (Nat × Expr N)) : ∀ (env : Env N) (g₁ g₂ : Grad N),
    (∀ k, K k ∨ isSample xs k = true → Grad.total g₁ k = Grad.total g₂ k) →
    ∀ k, K k → Grad.total (pullAll env xs g₁) k = Grad.total (pullAll env xs g₂) k := by
  induction xs generalizing K with
  | nil => intro env g₁ g₂ h k hk; exact h k (Or.inl hk)
  | cons iv rest ih =>
    intro env g₁ g₂ h k hk
    obtain ⟨i, v⟩ := iv
    simp only [pullAll, pull]
    have hrec := ih (fun k => K k ∨ k = Key.s i) (env.set i (v.eval env)) g₁ g₂ (by
      intro k' hk'
      apply h k'
      rcases hk' with (h1 | h1) | h1
      · exact Or.inl h1
      · right; subst h1; simp [isSample]
      · right
        cases k' with
        | s j => simp only [isSample, List.any_cons] at h1 ⊢; simp [h1]
        | v _ _ => simp [isSample] at h1)
    rw [total_append, total_append, hrec (Key.s i) (Or.inr rfl)]
    congr 1
    have := total_filter (fun k' => decide (k' ≠ Key.s i)) (pullAll (env.set i (v.eval env)) rest g₁) k
    have h2 := total_filter (fun k' => decide (k' ≠ Key.s i)) (pullAll (env.set i (v.eval env)) rest g₂) k
    simp only [decide_eq_true_eq] at this h2
    rw [this, h2, hrec k (Or.inl hk)]

/-! ### the ELBO integrand -/
omit [Num N] in
theorem body_false (E : Elbo N) : E.body false = .sub E.lq E.tg := rfl
omit [Num N] in
theorem body_true (E : Elbo N) : E.body true = .sub (sg E.P E.lq) E.tg := rfl

omit [Num N] in
theorem wf_sample_not_param {E : Elbo N} (h : E.wf = true) {k : Key} (hk : isSample E.xs k = true) :
    E.P.has k = false := by
  simp only [Elbo.wf, Bool.and_eq_true, List.all_eq_true] at h
  cases k with
  | s i =>
    simp only [isSample, List.any_eq_true] at hk
    obtain ⟨iv, hiv, hi⟩ := hk
    have := h.1 iv hiv
    have hi' : iv.1 = i := by simpa using hi
    rw [hi'] at this
    simpa [Params.has] using this
  | v _ _ => simp [isSample] at hk

/-- (a) same value with or without `stop_gradient(params)` -/
theorem integrand_eval (E : Elbo N) (env : Env N) :
    (E.integrand true).eval env = (E.integrand false).eval env := by
  simp only [Elbo.integrand, body_true, body_false, letAll_eval, Expr.eval, sg_eval]

/-- the reverse pass of the STL integrand is the reverse pass of the plain one in which the adjoints the body
sends DIRECTLY to the trainable leaves are deleted before going back through the sample -/
theorem stl_vjp (E : Elbo N) (h : E.wf = true) (env : Env N) (ct : N) :
    (E.integrand true).vjp env ct
      = pullAll env E.xs (((E.body false).vjp (bindEnv env E.xs) ct).filter (fun kv => !E.P.has kv.1)) := by
  have htg : paramFree E.P E.tg = true := by
    simp only [Elbo.wf, Bool.and_eq_true] at h; exact h.2
  simp only [Elbo.integrand, body_true, body_false, letAll_vjp, Expr.vjp, sg_vjp, List.filter_append,
    paramFree_vjp htg]

/-- (b) on every trainable leaf the STL adjoint is the path derivative -/
theorem stl_total_eq_path (E : Elbo N) (h : E.wf = true) (env : Env N) (ct : N) (k : Key)
    (hk : E.P.has k = true) :
    Grad.total ((E.integrand true).vjp env ct) k = Grad.total (E.pathGrad env ct) k := by
  rw [stl_vjp E h, Elbo.pathGrad]
  refine pullAll_congr (fun k => E.P.has k = true) E.xs env _ _ ?_ k hk
  intro k' hk'
  rw [sampleCot, total_filter (fun k => !E.P.has k), total_filter (fun k => isSample E.xs k)]
  rcases hk' with h1 | h1
  · have : isSample E.xs k' = false := by
      by_contra hc
      have := wf_sample_not_param h (Bool.not_eq_false _ ▸ hc : isSample E.xs k' = true)
      rw [h1] at this; cases this
    simp [h1, this]
  · simp [h1, wf_sample_not_param h h1]

/-- one sample component: the path derivative is `∂x/∂θ` applied to the single adjoint
`x̄ = ∂[log q_φ(x) − target(x)]/∂x` -/
theorem path_single (P : Params) (i : Nat) (x lq tg : Expr N) (env : Env N) (ct : N) (k : Key)
    (hi : P.s i = false) (hk : P.has k = true) :
    Grad.total ((⟨P, [(i, x)], lq, tg⟩ : Elbo N).pathGrad env ct) k
      = Grad.total (x.vjp env (Grad.total ((Expr.sub lq tg).vjp (env.set i (x.eval env)) ct) (Key.s i))) k := by
  have hne : k ≠ Key.s i := by
    intro e; rw [e] at hk; simp [Params.has, hi] at hk
  simp only [Elbo.pathGrad, pullAll, pull, bindEnv, body_false, sampleCot]
  rw [total_append]
  have h1 := total_filter (fun k' => decide (k' ≠ Key.s i))
    (List.filter (fun kv => isSample [(i, x)] kv.1) ((Expr.sub lq tg).vjp (env.set i (x.eval env)) ct)) k
  simp only [decide_eq_true_eq] at h1
  have h2 : isSample [(i, x)] k = false := by
    cases k with
    | s j =>
      have : i ≠ j := fun e => hne (by rw [e])
      simp [isSample, this]
    | v _ _ => rfl
  rw [h1, total_filter (fun k => isSample [(i, x)] k), total_filter (fun k => isSample [(i, x)] k)]
  have h3 : isSample [(i, x)] (Key.s i) = true := by simp [isSample]
  simp only [h2, h3, if_true, Bool.false_eq_true, if_false, ite_self]
  rfl

/-! ### adding adjoints up: addition a commutative monoid -/

/-- addition of the number domain is a commutative monoid with unit `ofInt 0` (true for `EF`, `±∞` and NaN included — hence for
`ℝ` = its finite part; NOT assumed: cancellation, distributivity) -/
class AddLawful (N : Type) [Num N] : Prop where
  assoc : ∀ a b c : N, a + b + c = a + (b + c)
  comm : ∀ a b : N, a + b = b + a
  zero_left : ∀ a : N, Num.ofInt 0 + a = a

section lawful
variable [AddLawful N]

theorem add_zero' (a : N) : a + Num.ofInt 0 = a := by rw [AddLawful.comm, AddLawful.zero_left]

theorem foldl_add (l : Grad N) : ∀ acc : N,
    l.foldl (fun acc kv => acc + kv.2) acc = acc + l.foldl (fun acc kv => acc + kv.2) (Num.ofInt 0) := by
  induction l with
  | nil => intro acc; simp [add_zero']
  | cons kv l ih => intro acc; simp only [List.foldl_cons]; rw [ih, ih (Num.ofInt 0 + kv.2), AddLawful.zero_left, AddLawful.assoc]

theorem total_append_add (a b : Grad N) (k : Key) :
    Grad.total (a ++ b) k = Grad.total a k + Grad.total b k := by
  rw [total_append, foldl_add]; rfl

/-- if the incoming adjoints differ by `d`, a quantity that vanishes on the sample components, the outgoing
adjoints differ by the same `d` -/
theorem pullAll_add (xs : List (Nat × Expr N)) (d : Key → N) (hd : ∀ k, isSample xs k = true → d k = Num.ofInt 0) :
    ∀ (env : Env N) (g₁ g₂ : Grad N), (∀ k, Grad.total g₁ k = Grad.total g₂ k + d k) →
    ∀ k, Grad.total (pullAll env xs g₁) k = Grad.total (pullAll env xs g₂) k + d k := by
  induction xs with
  | nil => intro env g₁ g₂ h k; exact h k
  | cons iv rest ih =>
    intro env g₁ g₂ h k
    obtain ⟨i, v⟩ := iv
    have hrec := ih (fun k hk => hd k (by
      cases k with
      | s j => simp only [isSample, List.any_cons] at hk ⊢; simp [hk]
      | v _ _ => simp [isSample] at hk)) (env.set i (v.eval env)) g₁ g₂ h
    have hi : d (Key.s i) = Num.ofInt 0 := hd _ (by simp [isSample])
    simp only [pullAll, pull]
    rw [total_append_add, total_append_add]
    have e1 := total_filter (fun k' => decide (k' ≠ Key.s i)) (pullAll (env.set i (v.eval env)) rest g₁) k
    have e2 := total_filter (fun k' => decide (k' ≠ Key.s i)) (pullAll (env.set i (v.eval env)) rest g₂) k
    simp only [decide_eq_true_eq] at e1 e2
    rw [e1, e2, hrec (Key.s i), hi, add_zero']
    by_cases hk : k = Key.s i
    · subst hk; simp only [ne_eq, not_true_eq_false, if_false, hi, add_zero']
    · simp only [ne_eq, hk, not_false_eq_true, if_true, hrec k]
      rw [AddLawful.assoc, AddLawful.assoc, AddLawful.comm (d k)]

/-- (c) plain adjoint = STL adjoint + score term, on every key -/
theorem plain_total_eq_stl_add_score (E : Elbo N) (h : E.wf = true) (env : Env N) (ct : N) (k : Key) :
    Grad.total ((E.integrand false).vjp env ct) k
      = Grad.total ((E.integrand true).vjp env ct) k + Grad.total (E.scoreGrad env ct) k := by
  rw [stl_vjp E h, Elbo.integrand, letAll_vjp]
  refine pullAll_add E.xs (fun k => Grad.total (E.scoreGrad env ct) k) ?_ env _ _ ?_ k
  · intro k' hk'
    rw [Elbo.scoreGrad, total_filter (fun k => E.P.has k), wf_sample_not_param h hk']; rfl
  · intro k'
    have htg : paramFree E.P E.tg = true := by
      simp only [Elbo.wf, Bool.and_eq_true] at h; exact h.2
    rw [body_false]
    simp only [Expr.vjp, List.filter_append, paramFree_vjp htg, total_append_add, Elbo.scoreGrad]
    rw [total_filter (fun k => !E.P.has k), total_filter (fun k => E.P.has k)]
    by_cases hp : E.P.has k' = true
    · simp only [hp, Bool.not_true, Bool.false_eq_true, if_false, if_true, AddLawful.zero_left]
      rw [AddLawful.comm]
    · have hp' : E.P.has k' = false := by simpa using hp
      simp only [hp', Bool.not_false, if_true, Bool.false_eq_true, if_false, add_zero']

end lawful
/-! ### `.mean()` over the samples -/

theorem sumE_vjp (es : List (Expr N)) (env : Env N) (ct : N) :
    (sumE es).vjp env ct = es.flatMap (fun e => e.vjp env ct) := by
  induction es with
  | nil => rfl
  | cons e es ih => simp only [sumE, Expr.vjp, ih, List.flatMap_cons]

/-- the reverse pass of `mean` hands every term the cotangent `ct / n` -/
theorem meanE_vjp (es : List (Expr N)) (env : Env N) (ct : N) :
    (meanE es).vjp env ct = es.flatMap (fun e => e.vjp env (ct / Num.ofInt es.length)) := by
  simp only [meanE, Expr.vjp, Expr.eval, sumE_vjp, List.append_nil]

theorem sumE_eval_congr (es es' : List (Expr N)) (env : Env N)
    (h : List.Forall₂ (fun e e' => e.eval env = e'.eval env) es es') : (sumE es).eval env = (sumE es').eval env := by
  induction h with
  | nil => rfl
  | cons h _ ih => simp only [sumE, Expr.eval, h, ih]

/-- `jnp.sum` of a list of numbers -/
def sumN (l : List N) : N := l.foldr (· + ·) (Num.ofInt 0)

section lawful
variable [AddLawful N]

theorem total_flatMap {α : Type} (f : α → Grad N) (l : List α) (k : Key) :
    Grad.total (l.flatMap f) k = sumN (l.map fun a => Grad.total (f a) k) := by
  induction l with
  | nil => rfl
  | cons a l ih => simp only [List.flatMap_cons, total_append_add, ih, List.map_cons, sumN, List.foldr_cons]

theorem sumN_add {α : Type} (f g : α → N) (l : List α) :
    sumN (l.map fun a => f a + g a) = sumN (l.map f) + sumN (l.map g) := by
  induction l with
  | nil => simp [sumN, AddLawful.zero_left]
  | cons a l ih =>
    simp only [List.map_cons, sumN, List.foldr_cons] at ih ⊢
    rw [ih, AddLawful.assoc, AddLawful.assoc]
    congr 1
    rw [← AddLawful.assoc, ← AddLawful.assoc, AddLawful.comm (g a)]

end lawful

/-- the whole loss: `.mean()` of the integrands of the samples -/
def loss (Es : List (Elbo N)) (stl : Bool) : Expr N := meanE (Es.map fun E => E.integrand stl)

theorem loss_eval (Es : List (Elbo N)) (env : Env N) : (loss Es true).eval env = (loss Es false).eval env := by
  simp only [loss, meanE, Expr.eval, List.length_map]
  congr 1
  apply sumE_eval_congr
  induction Es with
  | nil => exact .nil
  | cons E Es ih => exact .cons (integrand_eval E env) ih

theorem loss_stl_total (Es : List (Elbo N)) (h : ∀ E ∈ Es, E.wf = true) (env : Env N) (ct : N) (k : Key)
    (hk : ∀ E ∈ Es, E.P.has k = true) [AddLawful N] :
    Grad.total ((loss Es true).vjp env ct) k
      = sumN (Es.map fun E => Grad.total (E.pathGrad env (ct / Num.ofInt Es.length)) k) := by
  rw [loss, meanE_vjp, List.flatMap_map, total_flatMap, List.length_map]
  congr 1
  apply List.map_congr_left
  intro E hE
  exact stl_total_eq_path E (h E hE) env _ k (hk E hE)

theorem loss_plain_total (Es : List (Elbo N)) (h : ∀ E ∈ Es, E.wf = true) (env : Env N) (ct : N) (k : Key)
    [AddLawful N] :
    Grad.total ((loss Es false).vjp env ct) k
      = Grad.total ((loss Es true).vjp env ct) k
        + sumN (Es.map fun E => Grad.total (E.scoreGrad env (ct / Num.ofInt Es.length)) k) := by
  rw [loss, loss, meanE_vjp, meanE_vjp, List.flatMap_map, List.flatMap_map, total_flatMap, total_flatMap,
    List.length_map, List.length_map, ← sumN_add]
  congr 1
  apply List.map_congr_left
  intro E hE
  exact plain_total_eq_stl_add_score E (h E hE) env _ k

/-! ### instances of `AddLawful` -/
instance : AddLawful EF where
  assoc a b c := by
    show EF.add (EF.add a b) c = EF.add a (EF.add b c)
    cases a <;> cases b <;> cases c <;> simp [EF.add, _root_.add_assoc]
  comm a b := by
    show EF.add a b = EF.add b a
    cases a <;> cases b <;> simp [EF.add, _root_.add_comm]
  zero_left a := by
    show EF.add (EF.fin ((0:Int):ℝ)) a = a
    cases a <;> simp [EF.add]

/-- over `EF`: a finite score term can be subtracted — `STL adjoint = plain adjoint − score term` -/
theorem ef_add_sub_cancel (x : EF) (s : ℝ) : x + EF.fin s - EF.fin s = x := by
  show EF.add (EF.add x (EF.fin s)) (EF.neg (EF.fin s)) = x
  cases x <;> simp [EF.add, EF.neg]

/-! ### a concrete instance: q = N(μ, σ), x = μ + σ ε, target(x) = −x²/2 -/
section inst
open EF GenAst
set_option linter.unusedSimpArgs false

/-- q = N(μ, σ) through the GENERATED `Affine` kernels (`loc` = variable 1, `scale` = variable 2), noise = variable 0,
sample = variable 3, target(x) = −x²/2 -/
noncomputable def gaussE : Elbo EF where
  P := { s := fun i => i == 1 || i == 2, v := fun _ => false }
  xs := [(3, Affine.transform.ast (.var 0))]
  lq := .add (stdNormalLp (fin (Real.log (2 * Real.pi))) (Affine.inverse_and_log_det.ast (.var 3)).1)
          (Affine.inverse_and_log_det.ast (.var 3)).2
  tg := .neg (.div (.mul (.var 3) (.var 3)) (.const (fin 2)))

/-- ε = 2, μ = 1, σ = 2 (so x = 5, z = 2) -/
noncomputable def gaussEnv : Env EF :=
  { s := fun i => if i = 0 then fin 2 else if i = 1 then fin 1 else fin 2, v := fun _ => [] }

theorem fin_div2 (a : ℝ) : (fin a / fin 2 : EF) = fin (a / 2) := EF.fin_div (by norm_num)

theorem fin_div4 (a : ℝ) : (fin a / fin 4 : EF) = fin (a / 4) := EF.fin_div (by norm_num)

theorem gauss_wf : gaussE.wf = true := by
  simp [gaussE, Elbo.wf, paramFree, Params.erase]

theorem gauss_stl :
    Grad.total ((gaussE.integrand true).vjp gaussEnv (fin 1)) (Key.s 1) = fin 4 ∧
    Grad.total ((gaussE.integrand true).vjp gaussEnv (fin 1)) (Key.s 2) = fin 8 := by
  constructor <;>
  · simp [gaussE, gaussEnv, Elbo.integrand, Elbo.body, letAll, sg, Params.erase, stdNormalLp,
      Affine.transform.ast, Affine.inverse_and_log_det.ast, Expr.vjp, Expr.eval, Grad.total, Env.set, dPrim,
      applyPrim, fin_div2]
    norm_num [fin_div2, fin_div4]

theorem gauss_plain :
    Grad.total ((gaussE.integrand false).vjp gaussEnv (fin 1)) (Key.s 1) = fin 5 ∧
    Grad.total ((gaussE.integrand false).vjp gaussEnv (fin 1)) (Key.s 2) = fin (19 / 2) := by
  constructor <;>
  · simp [gaussE, gaussEnv, Elbo.integrand, Elbo.body, letAll, stdNormalLp,
      Affine.transform.ast, Affine.inverse_and_log_det.ast, Expr.vjp, Expr.eval, Grad.total, Env.set, dPrim,
      applyPrim, fin_div2]
    norm_num [fin_div2, fin_div4]

theorem gauss_score :
    Grad.total (gaussE.scoreGrad gaussEnv (fin 1)) (Key.s 1) = fin 1 ∧
    Grad.total (gaussE.scoreGrad gaussEnv (fin 1)) (Key.s 2) = fin (3 / 2) := by
  constructor <;>
  · simp [gaussE, gaussEnv, Elbo.scoreGrad, bindEnv, stdNormalLp, Params.has,
      Affine.transform.ast, Affine.inverse_and_log_det.ast, Expr.vjp, Expr.eval, Grad.total, Env.set, dPrim,
      applyPrim, fin_div2]
    norm_num [fin_div2, fin_div4]

theorem gauss_path :
    Grad.total (gaussE.pathGrad gaussEnv (fin 1)) (Key.s 1) = fin 4 ∧
    Grad.total (gaussE.pathGrad gaussEnv (fin 1)) (Key.s 2) = fin 8 := by
  constructor <;>
  · simp [gaussE, gaussEnv, Elbo.pathGrad, Elbo.body, pullAll, pull, sampleCot, isSample, bindEnv, stdNormalLp,
      Affine.transform.ast, Affine.inverse_and_log_det.ast, Expr.vjp, Expr.eval, Grad.total, Env.set, dPrim,
      applyPrim, fin_div2]
    norm_num [fin_div2, fin_div4]

end inst

end ElboAdT
