import Flowjaxv.Gen.BnafInitGen
import Flowjaxv.Proofs.BnafGen
/-!
# The GENERATED `BlockAutoregressiveNetwork.__init__` (`Gen/BnafInitGen.lean`) = the hand models

`gen_init_eq`: for EVERY key, `dim`, `cond_dim`, `depth`, `block_dim`, activation argument, inverter and world, the generated
constructor is the documented activation selection (`resolveAct`: `None` → `LeakyTanh(3)`; a bijection must have `shape == ()` and
`cond_shape is None`, else `ValueError`; anything else → `_CallableToBijection`) followed by `builtNet`: `depth + 1` (or, for
`depth = 0`, one) layers, each the GENERATED `block_autoregressive_linear(key_i, n_blocks=dim, block_shape=s_i)` with `s` the hand
model's `Masks.bnafBlockShapes depth block_dim`, `cond_linear` sized by the first layer's `out_features`, `shape = (dim,)`,
`cond_shape`, `depth`, `block_dim`, the default inverter.  `zip(strict=True)` and `[0]` never raise.
`builtNet_unwrap`: `unwrap` of that object is `BnafGenPf.netOf` over the hand layers holding the world's arrays (the network all
`gen_bnaf_*` theorems are stated for); `built_bnafOK`: in every world that allocates arrays of the declared shapes their hypothesis
`NetLawful.BnafOK` holds of it.
-/
set_option linter.unusedSectionVars false
namespace BnafInitPf
open Masks BnafGenPf

theorem foldl_append_singleton {β γ : Type} (f : β → γ) : ∀ (l : List β) (acc : List γ),
    List.foldl (fun acc v => acc ++ [f v]) acc l = acc ++ l.map f := by
  intro l; induction l with
  | nil => simp
  | cons a l ih => intro acc; simp [ih]

theorem blockShapes_eq (depth bd : Nat) (h : depth ≠ 0) :
    [(bd, 1)] ++ Bw.listRepeat [(bd, bd)] (Int.ofNat depth - Int.ofNat 1) ++ [(1, bd)] = bnafBlockShapes depth bd := by
  simp [Bw.listRepeat, bnafBlockShapes, h]

theorem blockShapes_length (depth bd : Nat) : (bnafBlockShapes depth bd).length = if depth = 0 then 1 else depth + 1 := by
  unfold bnafBlockShapes; split <;> simp; omega

section generic
variable {K : Type} {α : Type} [Add α] [Sub α] [Mul α] [Div α] [Neg α] [LT α] [LE α] [BEq α]
  [OfNat α 0] [OfNat α 1] [OfNat α 2] [OfNat α 4] [OfScientific α]
  [DecidableLT α] [DecidableLE α] [Transc α] [Inhabited α]

/-- the documented activation selection -/
def resolveAct : Option (Bw.ActArg α) → Except Bw.PyErr (Bw.ScalarBij α)
  | none => .ok (Bw.leakyTanh (3.0 : α))
  | some (.bijection b) => if b.shape ≠ [] ∨ b.cond_shape ≠ none then .error .valueError else .ok b
  | some (.callable fn) => .ok (Bw.callableToBijection fn)

/-- the keys the layers are built with -/
def layerKeys (IW : Bw.InitWorld K α) (key : K) (depth : Nat) : List K :=
  if depth = 0 then [(IW.keys.split2 key).1] else IW.keys.splitN (IW.keys.split2 key).1 (depth + 1)

theorem layerKeys_length (IW : Bw.InitWorld K α) (key : K) (depth : Nat) :
    (layerKeys IW key depth).length = (bnafBlockShapes depth bd).length := by
  rw [blockShapes_length]; unfold layerKeys Bw.KeySplit.splitN; split <;> simp

/-- the layers: the GENERATED `block_autoregressive_linear` on `(key_i, n_blocks = dim, block_shape_i)`, block shapes = the hand
model's `bnafBlockShapes` -/
def genLayers (W : Bw.World K α) (IW : Bw.InitWorld K α) (key : K) (dim depth bd : Nat) :
    List (Bw.LinearW α × (Bw.Linear α → Bw.Blocks α)) :=
  (List.zip (layerKeys IW key depth) (bnafBlockShapes depth bd)).map fun p => GenBnaf.blockAutoregressiveLinear W p.1 dim p.2

def firstKey (IW : Bw.InitWorld K α) (key : K) (depth : Nat) : K :=
  if depth = 0 then (IW.keys.split2 key).1 else IW.keys.split (IW.keys.split2 key).1 (depth + 1) 0

def firstShape (depth bd : Nat) : Nat × Nat := if depth = 0 then (1, 1) else (bd, 1)

theorem genLayers_head (W : Bw.World K α) (IW : Bw.InitWorld K α) (key : K) (dim depth bd : Nat) :
    Bw.head0 (genLayers W IW key dim depth bd) = .ok (GenBnaf.blockAutoregressiveLinear W (firstKey IW key depth) dim (firstShape depth bd)) := by
  unfold genLayers layerKeys firstKey firstShape bnafBlockShapes Bw.KeySplit.splitN
  by_cases h : depth = 0
  · simp [h, Bw.head0]
  · simp [h, Bw.head0, List.range_succ_eq_map]

/-- the object the constructor builds, given the selected activation -/
def builtNet (W : Bw.World K α) (IW : Bw.InitWorld K α) (key : K) (dim : Nat) (cond_dim : Option Nat) (depth bd : Nat)
    (inverter : Option (List α → Option (List α) → List α)) (act : Bw.ScalarBij α) : Bw.NetW α where
  shape := [dim]
  cond_shape := cond_dim.map fun c => [c]
  depth := depth
  layers := genLayers W IW key dim depth bd
  cond_linear := cond_dim.map fun c => IW.condLinearInit (IW.keys.split2 key).2 c
    (GenBnaf.blockAutoregressiveLinear W (firstKey IW key depth) dim (firstShape depth bd)).1.outFeatures
  block_dim := bd
  activation := act
  inverter := inverter.getD IW.defaultInverter

theorem gen_init_eq (W : Bw.World K α) (IW : Bw.InitWorld K α) (key : K) (dim : Nat) (cond_dim : Option Nat) (depth bd : Nat)
    (activation : Option (Bw.ActArg α)) (inverter : Option (List α → Option (List α) → List α)) :
    GenBnafInit.init W IW key dim cond_dim depth bd activation inverter
      = (resolveAct activation).map (builtNet W IW key dim cond_dim depth bd inverter) := by
  have hlayers : (if decide (depth = 0) then
        (Except.ok (([] : List (Bw.LinearW α × (Bw.Linear α → Bw.Blocks α))) ++ [GenBnaf.blockAutoregressiveLinear W (IW.keys.split2 key).1 dim (1, 1)]) : Except Bw.PyErr _)
      else
        Except.bind (Bw.zipStrict (IW.keys.splitN (IW.keys.split2 key).1 (depth + 1))
          ([(bd, 1)] ++ Bw.listRepeat [(bd, bd)] (Int.ofNat depth - Int.ofNat 1) ++ [(1, bd)])) fun t8 =>
          Except.ok (List.foldl (fun acc v => acc ++ [GenBnaf.blockAutoregressiveLinear W v.1 dim v.2]) [] t8))
      = .ok (genLayers W IW key dim depth bd) := by
    by_cases h : depth = 0
    · simp [h, genLayers, layerKeys, bnafBlockShapes]
    · have hl := layerKeys_length (bd := bd) IW key depth
      simp only [layerKeys, h, if_false] at hl
      rw [blockShapes_eq depth bd h]
      simp only [Bw.zipStrict, hl, if_true, Except.bind, foldl_append_singleton, List.nil_append]
      simp [h, genLayers, layerKeys]
  unfold GenBnafInit.init
  simp only [hlayers]
  simp only [Except.bind, genLayers_head]
  rcases activation with _ | ⟨b | fn⟩
  · cases cond_dim <;> cases inverter <;> rfl
  · by_cases hg : b.shape ≠ [] ∨ b.cond_shape ≠ none
    · have : (decide (b.shape ≠ []) || b.cond_shape.isSome) = true := by
        rcases hg with hg | hg
        · simp [hg]
        · cases hcs : b.cond_shape <;> simp_all
      simp only [resolveAct, if_pos hg, if_pos this, Except.map]
    · have : (decide (b.shape ≠ []) || b.cond_shape.isSome) = false := by
        cases hcs : b.cond_shape <;> simp_all
      have this' : ¬ (decide (b.shape ≠ []) || b.cond_shape.isSome) = true := by rw [this]; exact Bool.false_ne_true
      simp only [resolveAct, if_neg hg, if_neg this', Except.map]
      cases cond_dim <;> cases inverter <;> rfl
  · cases cond_dim <;> cases inverter <;> rfl
/-- the hand-model layers of the constructed network: the raw arrays the world allocates for layer `i` -/
def handLayers (W : Bw.World K α) (IW : Bw.InitWorld K α) (key : K) (dim depth bd : Nat) : List (BnafLayer α) :=
  (List.zip (layerKeys IW key depth) (bnafBlockShapes depth bd)).map fun p => layerOfWorld W p.1 dim p.2.1 p.2.2

/-- the weight of the `cond_linear` the constructor allocates -/
def condWeight (W : Bw.World K α) (IW : Bw.InitWorld K α) (key : K) (dim : Nat) (cond_dim : Option Nat) (depth bd : Nat) :
    Option (List (List α)) :=
  cond_dim.map fun c => (IW.condLinearInit (IW.keys.split2 key).2 c
    (GenBnaf.blockAutoregressiveLinear W (firstKey IW key depth) dim (firstShape depth bd)).1.outFeatures).weight

theorem handLayers_shapes (W : Bw.World K α) (IW : Bw.InitWorld K α) (key : K) (dim depth bd : Nat) :
    (handLayers W IW key dim depth bd).map (fun L => (L.b0, L.b1)) = bnafBlockShapes depth bd := by
  unfold handLayers
  rw [List.map_map]
  have : ((fun L : BnafLayer α => (L.b0, L.b1)) ∘ fun p : K × (Nat × Nat) => layerOfWorld W p.1 dim p.2.1 p.2.2) = Prod.snd := by
    funext p; rfl
  rw [this, List.map_snd_zip]
  rw [layerKeys_length (bd := bd)]

theorem handLayers_head (W : Bw.World K α) (IW : Bw.InitWorld K α) (key : K) (dim depth bd : Nat) :
    (handLayers W IW key dim depth bd).head?
      = some (layerOfWorld W (firstKey IW key depth) dim (firstShape depth bd).1 (firstShape depth bd).2) := by
  unfold handLayers layerKeys firstKey firstShape bnafBlockShapes Bw.KeySplit.splitN
  by_cases h : depth = 0
  · simp [h]
  · simp [h, List.range_succ_eq_map]

/-- **`unwrap` of the constructed object is the network the `gen_bnaf_*` theorems are about**: `netOf` over the hand layers holding the
world's arrays, the closures being the generated ones, the two methods those of the selected activation. -/
theorem builtNet_unwrap (W : Bw.World K α) (IW : Bw.InitWorld K α) (key : K) (dim : Nat) (cond_dim : Option Nat) (depth bd : Nat)
    (inverter : Option (List α → Option (List α) → List α)) (act : Bw.ScalarBij α) :
    (builtNet W IW key dim cond_dim depth bd inverter act).unwrap
      = netOf act.methods.transform_and_log_det act.methods.transform dim bd (handLayers W IW key dim depth bd)
          (fun L => (GenBnaf.blockAutoregressiveLinear W key L.n (L.b0, L.b1)).2) (condWeight W IW key dim cond_dim depth bd)
          (inverter.getD IW.defaultInverter) := by
  unfold Bw.NetW.unwrap builtNet netOf genLayers handLayers condWeight
  simp only [List.map_map]
  congr 1
  · apply List.map_congr_left
    rintro ⟨k, b0, b1⟩ _
    exact Prod.ext (gen_block_linear_eq_model W k dim b0 b1) rfl
  · cases cond_dim <;> rfl

/-- **the guard**: the generated constructor raises iff `activation` is an `AbstractBijection` whose `shape` is not `()` or whose
`cond_shape` is not `None`, and then it is a `ValueError` — whatever the other arguments -/
theorem gen_init_raises_iff (W : Bw.World K α) (IW : Bw.InitWorld K α) (key : K) (dim : Nat) (cond_dim : Option Nat) (depth bd : Nat)
    (activation : Option (Bw.ActArg α)) (inverter : Option (List α → Option (List α) → List α)) (e : Bw.PyErr) :
    GenBnafInit.init W IW key dim cond_dim depth bd activation inverter = .error e
      ↔ e = .valueError ∧ ∃ b, activation = some (.bijection b) ∧ (b.shape ≠ [] ∨ b.cond_shape ≠ none) := by
  rw [gen_init_eq]
  rcases activation with _ | ⟨b | fn⟩
  · simp [resolveAct, Except.map]
  · by_cases hg : b.shape ≠ [] ∨ b.cond_shape ≠ none
    · simp only [resolveAct, if_pos hg, Except.map]
      constructor
      · intro h; cases h; exact ⟨rfl, b, rfl, hg⟩
      · rintro ⟨rfl, _⟩; rfl
    · simp only [resolveAct, if_neg hg, Except.map]
      constructor
      · intro h; cases h
      · rintro ⟨_, b', hb, hg'⟩
        cases hb; exact absurd hg' hg
  · simp [resolveAct, Except.map]

/-- a successful construction is `builtNet` on the selected activation -/
theorem gen_init_ok (W : Bw.World K α) (IW : Bw.InitWorld K α) (key : K) (dim : Nat) (cond_dim : Option Nat) (depth bd : Nat)
    (activation : Option (Bw.ActArg α)) (inverter : Option (List α → Option (List α) → List α)) (N : Bw.NetW α)
    (h : GenBnafInit.init W IW key dim cond_dim depth bd activation inverter = .ok N) :
    resolveAct activation = .ok N.activation ∧ N = builtNet W IW key dim cond_dim depth bd inverter N.activation := by
  rw [gen_init_eq] at h
  cases hr : resolveAct activation with
  | error e => rw [hr] at h; cases h
  | ok act => rw [hr] at h; cases h; exact ⟨rfl, rfl⟩

theorem genLayers_length (W : Bw.World K α) (IW : Bw.InitWorld K α) (key : K) (dim depth bd : Nat) :
    (genLayers W IW key dim depth bd).length = if depth = 0 then 1 else depth + 1 := by
  unfold genLayers
  rw [List.length_map, List.length_zip, layerKeys_length (bd := bd), Nat.min_self, blockShapes_length]

end generic

section real
open MasksPf NetLawful

/-- rows of the raw array under a nest of wrappers (every wrapper keeps the shape) -/
def rows : Bw.WNest ℝ → Nat
  | .raw w => w.length
  | .whereZ _ t _ => rows t
  | .whereN _ t _ => rows t
  | .reparam t _ => rows t
  | .weightNorm t _ => rows t

/-- the world allocates arrays of the declared shapes: `eqx.nn.Linear(in, out)` a weight `(out, in)` and a bias `(out,)`,
`WeightNormalization(w)` one raw scale per row of `w`, `eqx.nn.Linear(in, out, use_bias=False)` a weight with `out` rows -/
structure WorldShaped {K : Type} (W : Bw.World K ℝ) (IW : Bw.InitWorld K ℝ) : Prop where
  weight : ∀ k i o, HasShape (W.linearInit k i o).weight o i
  bias : ∀ k i o, (W.linearInit k i o).bias.length = o
  scale : ∀ t, (W.wnScaleRaw t).length = rows t
  cond : ∀ k i o, (IW.condLinearInit k i o).weight.length = o

/-- **the hypotheses `BnafOK` of the `gen_bnaf_*` theorems hold of every constructed network** (every key, `dim`, `depth`,
`block_dim ≥ 1`, `cond_dim`, every world allocating arrays of the declared shapes) -/
theorem built_bnafOK {K : Type} (W : Bw.World K ℝ) (IW : Bw.InitWorld K ℝ) (hW : WorldShaped W IW) (key : K) (dim : Nat)
    (cond_dim : Option Nat) (depth bd : Nat) (hbd : 0 < bd) :
    BnafOK dim depth bd (handLayers W IW key dim depth bd) (condWeight W IW key dim cond_dim depth bd) := by
  refine ⟨hbd, handLayers_shapes W IW key dim depth bd, ?_, ?_⟩
  · intro L hL
    unfold handLayers at hL
    obtain ⟨p, _, rfl⟩ := List.mem_map.1 hL
    refine ⟨⟨hW.weight _ _ _, hW.bias _ _ _, ?_⟩, rfl⟩
    show (W.wnScaleRaw _).length = _
    rw [hW.scale]
    exact (hW.weight _ _ _).1
  · intro C hC L hL
    rw [handLayers_head] at hL
    cases cond_dim with
    | none => simp [condWeight] at hC
    | some c =>
      simp only [condWeight, Option.map_some, Option.mem_def, Option.some.injEq] at hC hL
      subst hC; subst hL
      rw [hW.cond]
      exact hW.bias _ _ _

end real
end BnafInitPf
