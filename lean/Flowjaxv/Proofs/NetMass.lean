import Mathlib.MeasureTheory.Measure.Lebesgue.EqHaar
import Flowjaxv.Proofs.MassFlow
import Flowjaxv.Proofs.NetLogDet
/-!
# C04 in `d` dimensions for an affine coupling layer: `Mass.InvJacN` discharged

The layer is the hand model `Masks.couplingBij` (forward `Model/Masks.lean`, inverse / log-dets `Model/NetInverse.lean`)
with the GENERATED `Affine` as scalar transformer: `tf ps = Affine(loc ps, scale ps)` for arbitrary functions
`loc scale : List ℝ → ℝ` of the parameter row with `scale ps ≠ 0` (flowjax: `loc = ps[0]`, `scale = softplus(ps[1]) > 0`),
read in coordinates on `ℝⁿ = Fin n → ℝ` (`liftBij`).  The only analytic hypothesis is that the conditioner is
differentiable (`NetLogDet.CondDiff`): the location and scale of every transformed coordinate are differentiable functions of
the input.  (With the default `relu` conditioner this holds off the kinks only — a null set, outside this theorem.)
-/
set_option linter.unusedSectionVars false
set_option linter.unusedVariables false
open Masks MasksPf Gen Set MeasureTheory NetLogDet

namespace NetMass

/-- a list-level bijection read in coordinates on vectors of length `n` -/
noncomputable def liftBij (n : ℕ) {C : Type} (b : Bij (List ℝ) C ℝ) : Bij (Fin n → ℝ) C ℝ where
  fwd w c := fun i => nth (b.fwd (List.ofFn w) c) i
  inv w c := fun i => nth (b.inv (List.ofFn w) c) i
  fwdLd w c := (fun i => nth (b.fwdLd (List.ofFn w) c).1 i, (b.fwdLd (List.ofFn w) c).2)
  invLd w c := (fun i => nth (b.invLd (List.ofFn w) c).1 i, (b.invLd (List.ofFn w) c).2)

theorem ofFn_nth (l : List ℝ) (n : ℕ) (h : l.length = n) : List.ofFn (fun i : Fin n => nth l i) = l := by
  apply List.ext_getElem (by simp [h])
  intro k h1 h2
  simp [nth, h2]

theorem nth_ofFn {n : ℕ} (w : Fin n → ℝ) (i : Fin n) : nth (List.ofFn w) i = w i := by
  simp [nth]

theorem liftBij_lawful (n : ℕ) {C : Type} (b : Bij (List ℝ) C ℝ) (D E : Set (List ℝ)) (hL : b.Lawful D E)
    (hD : ∀ x : List ℝ, x.length = n → x ∈ D) (hE : ∀ x : List ℝ, x.length = n → x ∈ E)
    (hf : ∀ (x : List ℝ) c, x.length = n → (b.fwd x c).length = n)
    (hi : ∀ (x : List ℝ) c, x.length = n → (b.inv x c).length = n) :
    (liftBij n b).Lawful univ univ := by
  refine ⟨fun _ _ _ => trivial, fun _ _ _ => trivial, ?_, ?_, ?_, ?_⟩
  · intro w _ c
    funext i
    simp only [liftBij]
    rw [ofFn_nth _ n (hf _ c (by simp)), hL.left _ (hD _ (by simp)) c, nth_ofFn]
  · intro w _ c
    funext i
    simp only [liftBij]
    rw [ofFn_nth _ n (hi _ c (by simp)), hL.right _ (hE _ (by simp)) c, nth_ofFn]
  · intro w c; simp only [liftBij]; rw [hL.fwdLd_fst]
  · intro w c; simp only [liftBij]; rw [hL.invLd_fst]

section
variable (d n : ℕ) (cnd : List ℝ → List ℝ) (loc scale : List ℝ → ℝ)

theorem affineFamily_lawful (hs : ∀ ps, scale ps ≠ 0) (ps : List ℝ) : (affineFamily loc scale ps).Lawful univ univ :=
  Leaves.affine_lawful _ (hs ps)

theorem coupling_affine_lawful (hs : ∀ ps, scale ps ≠ 0) :
    (liftBij n (couplingBij d cnd (affineFamily loc scale))).Lawful univ univ := by
  have hL := NetLawful.coupling_lawful d cnd (affineFamily loc scale) univ univ (affineFamily_lawful loc scale hs)
  refine liftBij_lawful n _ _ _ hL (fun x _ t _ => trivial) (fun x _ t _ => trivial) ?_ ?_
  · intro x c hx
    show (couplingTransform d cnd _ x c).length = n
    rw [NetLawful.coupling_length', hx]
  · intro x c hx
    show (couplingTransform d cnd _ x c).length = n
    rw [NetLawful.coupling_length', hx]

/-- the inverse pass in coordinates -/
theorem coupling_affine_inv_apply (c : List ℝ) (w : Fin n → ℝ) (i : Fin n) :
    (liftBij n (couplingBij d cnd (affineFamily loc scale))).inv w c i =
      if (i : ℕ) < d then w i
      else (w i - loc (rowAt d n cnd c w (i - d))) / scale (rowAt d n cnd c w (i - d)) := by
  show nth (couplingTransform d cnd (fun ps t => (affineFamily loc scale ps).inv t ()) (List.ofFn w) c) i = _
  split
  · rename_i hid
    simp only [nth]
    rw [NetLogDet.coupling_out_first d cnd _ _ c i hid]
    simp
  · rename_i hid
    obtain ⟨ps, h1, h2⟩ := coupling_getElem? d cnd (fun ps t => (affineFamily loc scale ps).inv t ())
      (List.ofFn w) c i (by omega) (by simp)
    simp only [List.length_ofFn] at h1
    rw [rowAt_spec d n cnd c w (i - d) (by have := i.2; omega)] at h1
    have : ps = rowAt d n cnd c w (i - d) := (Option.some.inj h1).symm
    subst this
    simp only [nth, h2]
    simp [affineFamily, Affine.toBij, Affine.inverse]

theorem coupling_affine_inv_differentiable (hs : ∀ ps, scale ps ≠ 0) (c : List ℝ) (hc : CondDiff d n cnd loc scale c) :
    Differentiable ℝ (fun w => (liftBij n (couplingBij d cnd (affineFamily loc scale))).inv w c) := by
  rw [differentiable_pi]
  intro i
  have e : (fun w => (liftBij n (couplingBij d cnd (affineFamily loc scale))).inv w c i)
      = fun w : Fin n → ℝ => if (i : ℕ) < d then w i
          else (w i - loc (rowAt d n cnd c w (i - d))) / scale (rowAt d n cnd c w (i - d)) := by
    funext w; exact coupling_affine_inv_apply d n cnd loc scale c w i
  rw [e]
  by_cases hid : (i : ℕ) < d
  · simp only [if_pos hid]; exact differentiable_apply i
  · simp only [if_neg hid]
    obtain ⟨hm, hsd⟩ := hc (i - d) (by have := i.2; omega)
    simp only [div_eq_mul_inv]
    exact ((differentiable_apply (𝕜 := ℝ) (F' := fun _ : Fin n => ℝ) i).fun_sub hm).fun_mul
      (hsd.fun_inv (fun w => hs _))

/-- **`Mass.InvJacN` for the affine coupling layer** — every conditioner function whose location/scale outputs are
differentiable, every first-block size `d ≤ n`, every condition, every non-vanishing scale function. -/
theorem coupling_affine_invJacN (hdn : d ≤ n) (hs : ∀ ps, scale ps ≠ 0) (c : List ℝ) (hc : CondDiff d n cnd loc scale c) :
    Mass.InvJacN (liftBij n (couplingBij d cnd (affineFamily loc scale))) c := by
  have hdiff := coupling_affine_inv_differentiable d n cnd loc scale hs c hc
  refine Mass.InvJacN.of_hasFDerivAt (coupling_affine_lawful d n cnd loc scale hs)
    (fun y => fderiv ℝ (fun w => (liftBij n (couplingBij d cnd (affineFamily loc scale))).inv w c) y) ?_
  intro y
  have hJ := (hdiff y).hasFDerivAt
  refine ⟨hJ, ?_⟩
  -- the inverse pass IS a coupling transform with the flipped transformer family
  have hJ' : HasFDerivAt (NetLogDet.coords n fun x => (couplingBij d cnd (fun ps => swapBij (affineFamily loc scale ps))).fwd x c)
      (fderiv ℝ (fun w => (liftBij n (couplingBij d cnd (affineFamily loc scale))).inv w c) y) y := hJ
  obtain ⟨_, hne, hld⟩ := NetLogDet.coupling_logdet d n hdn cnd (fun ps => swapBij (affineFamily loc scale ps)) c y _ hJ'
    (fun i => (scale (rowAt d n cnd c y (i - d)))⁻¹) (by
      intro i hid ps hps
      rw [rowAt_spec d n cnd c y (i - d) (by have := i.2; omega)] at hps
      have : ps = rowAt d n cnd c y (i - d) := (Option.some.inj hps).symm
      subst this
      refine ⟨?_, inv_ne_zero (hs _), ?_⟩
      · have := ((hasDerivAt_id' (y i)).sub_const (loc (rowAt d n cnd c y (i - d)))).div_const
          (scale (rowAt d n cnd c y (i - d)))
        simpa [swapBij, affineFamily, Affine.toBij, Affine.inverse, one_div] using this
      · simp [swapBij, affineFamily, Affine.toBij, Affine.inverse_and_log_det, abs_inv, Real.log_inv])
  refine ⟨hne, ?_⟩
  rw [← hld]
  simp only [liftBij, couplingBij, vmapInvLd, vmapFwdLd, List.zipWith_map_left]
  rfl

end

instance (n : ℕ) : (volume : Measure (Fin n → ℝ)).IsAddHaarMeasure := isAddHaarMeasure_volume_pi (Fin n)

end NetMass
