import Flowjaxv.Proofs.Triangular
import Flowjaxv.Model.TriangularGen
/-!
# The GENERATED `TriangularAffine` (`Gen/TriangularGen.lean`) is the hand model `Model/Triangular.lean`

Every statement for every dimension, every matrix / vector (no shape hypothesis unless stated), both values of `lower`.
-/
open Gen RealInst

namespace TriGenPf

/-- the generated record read as the hand model's -/
def toModel (t : TriangularAffine ℝ) : Tri.TriAffine ℝ := ⟨t.triangular, t.loc, t.lower⟩

/-! ### primitives -/

theorem diag_cons (row : List ℝ) (rows : List (List ℝ)) :
    TriPrims.diag (row :: rows) = row.headD 0 :: TriPrims.diag (rows.map List.tail) := by
  simp only [TriPrims.diag, List.mapIdx_cons]
  congr 1
  · cases row <;> simp
  · apply List.ext_getElem?
    intro i
    simp only [List.getElem?_mapIdx, List.getElem?_map]
    cases rows[i]? with
    | none => rfl
    | some r => cases r <;> simp

/-- the spec of `jnp.diag` (entries `A[i][i]`) is the hand model's first-row / first-column recursion — any list of rows -/
theorem diag_eq : ∀ (n : ℕ) (A : List (List ℝ)), A.length = n → TriPrims.diag A = Tri.diag A := by
  intro n
  induction n with
  | zero => intro A h; rw [List.length_eq_zero_iff.mp h, Tri.diag]; rfl
  | succ n ih =>
    intro A h
    obtain ⟨row, rows, rfl⟩ := List.exists_cons_of_length_eq_add_one h
    rw [Tri.diag, diag_cons, ih (rows.map List.tail) (by simpa using h)]

theorem matVec_eq (A : List (List ℝ)) (x : List ℝ) : TriPrims.matVec A x = Tri.matVec A x := rfl

theorem logDet_eq (A : List (List ℝ)) :
    Jnp.sum (List.map (fun v => Transc.log v) (List.map (fun v => Jnp.abs v) (TriPrims.diag A))) = Tri.logDet A := by
  rw [diag_eq A.length A rfl, List.map_map]; rfl

/-! ### the four methods -/

theorem gen_transform_eq (t : TriangularAffine ℝ) (x : List ℝ) : t.transform x = (toModel t).transform x := rfl

theorem gen_inverse_eq (t : TriangularAffine ℝ) (y : List ℝ) : t.inverse y = (toModel t).inverse y := by
  simp only [TriangularAffine.inverse, TriPrims.solveTriangular, Tri.TriAffine.inverse, toModel]
  rfl

theorem gen_transform_and_log_det_eq (t : TriangularAffine ℝ) (x : List ℝ) :
    t.transform_and_log_det x = (toModel t).transform_and_log_det x := by
  simp only [TriangularAffine.transform_and_log_det, Tri.TriAffine.transform_and_log_det, logDet_eq, toModel]
  rfl

theorem gen_inverse_and_log_det_eq (t : TriangularAffine ℝ) (y : List ℝ) :
    t.inverse_and_log_det y = (toModel t).inverse_and_log_det y := by
  simp only [TriangularAffine.inverse_and_log_det, Tri.TriAffine.inverse_and_log_det, logDet_eq, ← gen_inverse_eq]
  rfl

/-- **generated = hand model**, all four methods at once -/
theorem gen_toBij_eq {C : Type} (t : TriangularAffine ℝ) :
    (TriGen.toBij t : Bij (List ℝ) C ℝ) = (toModel t).toBij := by
  simp only [TriGen.toBij, Tri.TriAffine.toBij]
  congr 1 <;> funext a _
  all_goals first
    | exact gen_inverse_eq t a
    | exact gen_transform_and_log_det_eq t a
    | exact gen_inverse_and_log_det_eq t a

/-! ### `_to_triangular` -/

theorem gen_toTriangular_getElem? (lower : Bool) (diag : List ℝ) (arr : List (List ℝ)) (i : ℕ) :
    (TriangularAffine.toTriangular lower diag arr)[i]? =
      match diag[i]?, arr[i]? with
      | some d, some row => some ((row.take diag.length).mapIdx (fun j a =>
          (if j = i then d else 0) + (if (if lower then j < i else i < j) then a else 0)))
      | _, _ => none := by
  cases lower
  all_goals
    simp only [TriangularAffine.toTriangular, Bool.false_eq_true, if_false, if_true, List.getElem?_zipWith,
      TriPrims.diagMat, TriPrims.tril, TriPrims.triu, List.getElem?_mapIdx]
    cases hd : diag[i]? <;> cases ha : arr[i]? <;> simp only [Option.map_none, Option.map_some] <;> try rfl
    rename_i d row
    congr 1
    apply List.ext_getElem?
    intro j
    simp only [List.getElem?_zipWith, List.getElem?_map, List.getElem?_mapIdx, List.getElem?_take]
    by_cases hj : j < diag.length
    · rw [List.getElem?_range hj]
      cases row[j]? with
      | none => simp [hj]
      | some a =>
        simp only [Option.map_some, hj, if_true]
        congr 2
        first
          | (have : ((i : ℤ) + 1 ≤ (j : ℤ)) ↔ i < j := by omega) ; simp only [this]
          | (have : ((j : ℤ) ≤ (i : ℤ) + -1) ↔ j < i := by omega) ; simp only [this]
    · have : (List.range diag.length)[j]? = none := by simp; omega
      simp [hj]

/-- **generated `_to_triangular` = hand `Params.toTriangular`** whenever no row of `arr` is longer than `diag` (in particular for
every square `arr` with a diagonal of matching length) — both values of `lower`, every size. -/
theorem gen_toTriangular_eq (lower : Bool) (diag : List ℝ) (arr : List (List ℝ)) (h : ∀ r ∈ arr, r.length ≤ diag.length) :
    TriangularAffine.toTriangular lower diag arr = Params.toTriangular lower diag arr := by
  apply List.ext_getElem?
  intro i
  rw [gen_toTriangular_getElem?, ParamsPf.toTriangular_getElem?]
  cases hd : diag[i]? <;> cases ha : arr[i]? <;> simp only
  rename_i d row
  have : row.length ≤ diag.length := h row (List.mem_of_getElem? ha)
  rw [List.take_of_length_le this]

/-! ### `unwrap` of the stored object, and the constructor -/

theorem unwrapTriangular_eq (s : TriangularAffineStored ℝ) :
    TriGen.unwrapTriangular s
      = TriangularAffine.toTriangular s.lower (s.triangular_diag.map Wr.BijectionReparam.unwrap) s.triangular_arr := rfl

/-- for raw (trainable) diagonal parameters the unwrapped generated object IS the hand model `Tri.ofRaw` — every size, every
raw value, both orientations (no row of `arr` longer than the diagonal, e.g. `arr` square of matching size) -/
theorem gen_ofRaw_eq (lower : Bool) (raw : List ℝ) (arr : List (List ℝ)) (loc : List ℝ)
    (h : ∀ r ∈ arr, r.length ≤ raw.length) :
    toModel (TriGen.unwrap (TriGen.ofRaw lower raw arr loc)) = Tri.ofRaw lower raw arr loc := by
  simp only [toModel, TriGen.unwrap, unwrapTriangular_eq, TriGen.ofRaw, Tri.ofRaw, Params.triangularOfRaw, List.map_map]
  rw [gen_toTriangular_eq lower _ arr (by simpa using h)]
  rfl

theorem square_rows {n : ℕ} {arr : List (List ℝ)} (hsq : TriPf.Square n arr) {k : ℕ} (hk : k = n) :
    ∀ r ∈ arr, r.length ≤ k := fun r hr => by rw [hsq.2 r hr, hk]

/-- every exception of the generated constructor is a `ValueError` -/
theorem gen_init_error_class (loc : List ℝ) (arr : TriPrims.NdArr ℝ) (lower : Bool) (e : PyShape.Err)
    (h : TriangularAffine.init loc arr lower = .error e) : e = .valueError := by
  unfold TriangularAffine.init at h
  split at h
  · injection h with h; exact h.symm
  · simp only [TriPrims.broadcastTo] at h
    by_cases h1 : loc.length = arr.asMat.length
    · simp [h1, Except.bind] at h
    · by_cases h3 : loc.length = 1
      · rw [if_neg h1, if_pos h3] at h; simp [Except.bind] at h
      · rw [if_neg h1, if_neg h3] at h; simp only [Except.bind] at h; injection h with h; exact h.symm

/-- **the generated constructor accepts exactly** a rank-2 array with as many rows as columns and a `loc` of that size or of
size 1 (scalar / one element: broadcast) — any other rank, a non-square matrix, any other `loc` is a `ValueError`. -/
theorem gen_init_accepts_iff (loc : List ℝ) (arr : TriPrims.NdArr ℝ) (lower : Bool) :
    (∃ s, TriangularAffine.init loc arr lower = .ok s) ↔
      arr.ndim = 2 ∧ arr.shapeGet 0 = arr.shapeGet 1 ∧ (loc.length = arr.shapeGet 0 ∨ loc.length = 1) := by
  unfold TriangularAffine.init
  by_cases h2 : arr.ndim = 2
  · by_cases hs : arr.shapeGet 0 = arr.shapeGet 1
    · have hlen : (TriPrims.NdArr.asMat arr).length = arr.shapeGet 0 := by
        cases arr <;> simp [TriPrims.NdArr.ndim] at h2
        simp [TriPrims.NdArr.asMat, TriPrims.NdArr.shapeGet, TriPrims.NdArr.shape]
      simp only [h2, hs, beq_self_eq_true, Bool.not_true, Bool.or_self, Bool.false_eq_true, if_false,
        TriPrims.broadcastTo, hlen, true_and]
      by_cases h1 : loc.length = arr.shapeGet 1
      · rw [if_pos h1]; exact ⟨fun _ => Or.inl h1, fun _ => ⟨_, rfl⟩⟩
      · by_cases h3 : loc.length = 1
        · rw [if_neg h1, if_pos h3]; exact ⟨fun _ => Or.inr h3, fun _ => ⟨_, rfl⟩⟩
        · rw [if_neg h1, if_neg h3]
          constructor
          · rintro ⟨s, hs⟩; simp [Except.bind] at hs
          · rintro (h | h) <;> contradiction
    · simp [h2, hs]
  · simp [h2]

/-- on a (rectangular) matrix the generated guard is the hand model's `isSquare` -/
theorem gen_guard_isSquare (m : List (List ℝ)) (hrect : ∀ r ∈ m, r.length = (m.headD []).length) :
    ((TriPrims.NdArr.mat m).shapeGet 0 = (TriPrims.NdArr.mat m).shapeGet 1) ↔ Params.isSquare m = true := by
  simp only [TriPrims.NdArr.shapeGet, TriPrims.NdArr.shape, Params.isSquare, List.all_eq_true, beq_iff_eq]
  constructor
  · intro h r hr
    rw [hrect r hr]; simpa using h.symm
  · intro h
    cases m with
    | nil => simp
    | cons r rs => simpa using (h r (by simp)).symm

theorem diagEntries_eq_diag (m : List (List ℝ)) (hsq : ∀ r ∈ m, r.length = m.length) :
    Params.diagEntries m = (TriPrims.diag m).map some := by
  apply List.ext_getElem?
  intro i
  simp only [Params.diagEntries, TriPrims.diag, List.getElem?_mapIdx, List.getElem?_map]
  cases h : m[i]? with
  | none => rfl
  | some row =>
    have hi : i < m.length := (List.getElem?_eq_some_iff.mp h).1
    have hr : row.length = m.length := hsq row (List.mem_of_getElem? h)
    simp [List.getD_eq_getElem?_getD, List.getElem?_eq_getElem (show i < row.length by omega)]

/-- **generated `__init__` then `unwrap` = hand model `Tri.init`**: whenever the hand constructor model accepts a matrix
(square, every diagonal entry accepted by the SoftPlus reparameterisation) with a `loc` of matching size, the generated constructor
accepts, declares `shape = (dim,)`, and the unwrapped object is the hand model's — every size, both orientations. -/
theorem gen_init_eq_model (lower : Bool) (m : List (List ℝ)) (loc : List ℝ) (hl : loc.length = m.length)
    {t : Tri.TriAffine ℝ} (h : Tri.init lower m loc = some t) :
    ∃ s, TriangularAffine.init loc (.mat m) lower = .ok s ∧ toModel (TriGen.unwrap s) = t ∧ s.shape = [m.length] := by
  simp only [Tri.init, Params.triangularInit] at h
  by_cases hsq : Params.isSquare m = true
  · have hsq' : ∀ r ∈ m, r.length = m.length := by
      simpa [Params.isSquare] using hsq
    rw [if_neg (by simp [hsq]), diagEntries_eq_diag m hsq', ParamsPf.mapM_id_map_some] at h
    simp only at h
    split at h
    · simp at h
    · simp only [Option.map_some, Option.some.injEq] at h
      have hshape : (TriPrims.NdArr.mat m).shapeGet 0 = (TriPrims.NdArr.mat m).shapeGet 1 := by
        cases m with
        | nil => rfl
        | cons r rs => simpa [TriPrims.NdArr.shapeGet, TriPrims.NdArr.shape] using (hsq' r (by simp)).symm
      refine ⟨{ triangular_diag := List.map (fun v => Wr.BijectionReparam.init v SoftPlus.toBij) (TriPrims.diag m), triangular_arr := m, lower := lower, shape := [m.length], loc := loc }, ?_, ?_, rfl⟩
      · unfold TriangularAffine.init
        simp only [TriPrims.NdArr.ndim, hshape, beq_self_eq_true, Bool.not_true, Bool.or_self, Bool.false_eq_true, if_false,
          TriPrims.NdArr.asMat, TriPrims.broadcastTo, hl, if_true, Except.bind]
      · rw [← h]
        simp only [toModel, TriGen.unwrap, unwrapTriangular_eq, List.map_map]
        rw [gen_toTriangular_eq lower _ m (by intro r hr; simp [TriPrims.diag, hsq' r hr])]
        rfl
  · have hf : Params.isSquare m = false := by simpa using hsq
    rw [hf] at h; simp at h

/-- what an accepted constructor call stores: the object `TriGen.ofRaw` for the raw diagonal `SoftPlus.inverse(jnp.diag(arr))`,
the matrix itself, and `loc` broadcast to the dimension -/
theorem gen_init_ok (loc : List ℝ) (m : List (List ℝ)) (lower : Bool) {s : TriangularAffineStored ℝ}
    (h : TriangularAffine.init loc (.mat m) lower = .ok s) :
    s = TriGen.ofRaw lower ((TriPrims.diag m).map fun v => SoftPlus.toBij.inv v ()) m s.loc ∧ s.loc.length = m.length ∧
      (s.loc = loc ∨ (loc.length = 1 ∧ s.loc = List.replicate m.length (loc.headD 0))) := by
  unfold TriangularAffine.init at h
  split at h
  · cases h
  · simp only [TriPrims.broadcastTo, TriPrims.NdArr.asMat] at h
    by_cases h1 : loc.length = m.length
    · simp only [h1, if_true, Except.bind, Except.ok.injEq] at h
      subst h
      exact ⟨by simp [TriGen.ofRaw, Wr.BijectionReparam.init, List.map_map, Function.comp_def], h1, Or.inl rfl⟩
    · by_cases h3 : loc.length = 1
      · have h1' : ¬ 1 = m.length := h3 ▸ h1
        simp only [h3, h1', if_true, if_false, Except.bind, Except.ok.injEq] at h
        subst h
        exact ⟨by simp [TriGen.ofRaw, Wr.BijectionReparam.init, List.map_map, Function.comp_def], by simp, Or.inr ⟨h3, rfl⟩⟩
      · simp [h1, h3, Except.bind] at h

/-- the matrix of EVERY accepted constructor call is well-formed for C01 / C02: triangular in the requested orientation with
strictly positive diagonal (SoftPlus of any real raw value is positive), `loc` of matching size -/
theorem gen_init_wf {n : ℕ} (loc : List ℝ) (m : List (List ℝ)) (lower : Bool) (hsq : TriPf.Square n m)
    {s : TriangularAffineStored ℝ} (h : TriangularAffine.init loc (.mat m) lower = .ok s) :
    TriPf.TriWF n (toModel (TriGen.unwrap s)) := by
  obtain ⟨hs, hlen, _⟩ := gen_init_ok loc m lower h
  have hd : (TriPrims.diag m).length = n := by simp [TriPrims.diag, hsq.1]
  rw [hs, gen_ofRaw_eq lower _ m _ (square_rows hsq (by simpa using hd))]
  exact TriPf.ofRaw_wf lower _ m _ hsq (by simpa using hd) (by rw [hlen, hsq.1])

end TriGenPf
