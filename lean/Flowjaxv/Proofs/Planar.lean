import Flowjaxv.Proofs.VecLd
import Flowjaxv.Model.Planar
/-!
# Planar (C01, C02, C07): the generated `_UnconditionalPlanar` methods over ℝ

All statements are about the definitions generated into `Gen/Planar.lean` (and `get_act_scale` of
`Gen/Params.lean`).  Vectors are lists of length `n`; the algebra is done on `Fin n → ℝ` through
`List.ofFn` (`Proofs/VecLd.lean`).
-/
open Gen RealInst VecLd Matrix

namespace PlanarPf
variable {n : ℕ} {C : Type}

/-- what the constructor / `get_planar` guarantee plus `w ≠ 0`: both vectors have length `n` -/
structure WF (p : UnconditionalPlanar ℝ) (n : ℕ) : Prop where
  lenW : p.weight.length = n
  lenU : p._act_scale.length = n
  wne : Jnp.dot p.weight p.weight ≠ 0

/-- the slope the code selects with `jnp.where(· < 0, negative_slope, 1)` -/
noncomputable def slope (s z : ℝ) : ℝ := if z < 0 then s else 1

theorem lrelu_slope (z s : ℝ) : Jnp.leakyRelu z s = slope s z * z := by
  unfold slope Jnp.leakyRelu; split <;> simp

theorem where_slope (s z : ℝ) : Jnp.where (decide (z < 0)) s (1 : ℝ) = slope s z := by
  unfold slope Jnp.where; simp

theorem slope_pos {s : ℝ} (hs : 0 < s) (z : ℝ) : 0 < slope s z := by unfold slope; split <;> simp [hs]
theorem slope_le_one {s : ℝ} (hs : s ≤ 1) (z : ℝ) : slope s z ≤ 1 := by unfold slope; split <;> simp [hs]

theorem slope_mul_pos {s z k : ℝ} (hk : 0 < k) : slope s (z * k) = slope s z := by
  unfold slope
  have : z * k < 0 ↔ z < 0 := by
    constructor
    · intro h; by_contra h'; exact absurd h (not_lt.mpr (mul_nonneg (not_lt.mp h') hk.le))
    · intro h; exact mul_neg_of_neg_of_pos h hk
  simp [this]

theorem slope_lrelu {s : ℝ} (hs : 0 < s) (z : ℝ) : slope s (Jnp.leakyRelu z s) = slope s z := by
  rw [lrelu_slope, mul_comm]; exact slope_mul_pos (slope_pos hs z)

theorem get_act_scale_length {p : UnconditionalPlanar ℝ} (h : WF p n) : p.get_act_scale.length = n := by
  simp [UnconditionalPlanar.get_act_scale, h.lenW, h.lenU]

/-- C11's constraint in vector form: `w·û > −1` -/
theorem constraint {p : UnconditionalPlanar ℝ} (h : WF p n) :
    -1 < toVec n p.weight ⬝ᵥ toVec n p.get_act_scale := by
  have h1 := ParamsPf.planar_dot p (h.lenU.trans h.lenW.symm) h.wne
  have h2 := ParamsPf.planarM_gt (Jnp.dot p._act_scale p.weight)
  rw [← h1, ← ofFn_toVec (get_act_scale_length h), ← ofFn_toVec h.lenW, dot_ofFn, dotProduct_comm] at h2
  simpa using h2

/-! ### vector-level maps -/

/-- `x ↦ x + û · act(w·x + b)` -/
noncomputable def fwdV (act : ℝ → ℝ) (w û : Fin n → ℝ) (b : ℝ) (x : Fin n → ℝ) : Fin n → ℝ :=
  fun i => x i + û i * act (w ⬝ᵥ x + b)

/-- the library's analytic inverse for the leaky-relu activation -/
noncomputable def invV (s : ℝ) (w û : Fin n → ℝ) (b : ℝ) (y : Fin n → ℝ) : Fin n → ℝ :=
  fun i => y i - (û i * slope s (w ⬝ᵥ y + b)) *
    ((w ⬝ᵥ y + b) / (1 + w ⬝ᵥ (fun j => û j * slope s (w ⬝ᵥ y + b))))

theorem dot_mul_right (w û : Fin n → ℝ) (σ : ℝ) : w ⬝ᵥ (fun i => û i * σ) = (w ⬝ᵥ û) * σ := by
  simp [dotProduct, Finset.sum_mul, mul_assoc]

theorem dot_fwdV (act : ℝ → ℝ) (w û : Fin n → ℝ) (b : ℝ) (x : Fin n → ℝ) :
    w ⬝ᵥ fwdV act w û b x = w ⬝ᵥ x + (w ⬝ᵥ û) * act (w ⬝ᵥ x + b) := by
  simp [fwdV, dotProduct, mul_add, Finset.sum_add_distrib, Finset.sum_mul, mul_assoc]

theorem dot_invV (s : ℝ) (w û : Fin n → ℝ) (b : ℝ) (y : Fin n → ℝ) :
    w ⬝ᵥ invV s w û b y = w ⬝ᵥ y - (w ⬝ᵥ û) * slope s (w ⬝ᵥ y + b) *
      ((w ⬝ᵥ y + b) / (1 + (w ⬝ᵥ û) * slope s (w ⬝ᵥ y + b))) := by
  unfold invV
  simp only [dot_mul_right]
  simp [dotProduct, mul_sub, Finset.sum_sub_distrib, Finset.sum_mul, mul_assoc]

/-- `inverse(transform x) = x`: the slope test on the numerator selects the piece `x` came from -/
theorem invV_fwdV {s : ℝ} (hs0 : 0 < s) (hs1 : s ≤ 1) (w û : Fin n → ℝ) (hc : -1 < w ⬝ᵥ û) (b : ℝ)
    (x : Fin n → ℝ) : invV s w û b (fwdV (fun z => Jnp.leakyRelu z s) w û b x) = x := by
  set z := w ⬝ᵥ x + b with hz
  set c := w ⬝ᵥ û with hcdef
  have hk : 0 < 1 + slope s z * c := ParamsPf.one_add_mul_pos hc (slope_pos hs0 z) (slope_le_one hs1 z)
  have hN : w ⬝ᵥ fwdV (fun z => Jnp.leakyRelu z s) w û b x + b = z * (1 + slope s z * c) := by
    rw [dot_fwdV, lrelu_slope]; ring
  have hsl : slope s (z * (1 + slope s z * c)) = slope s z := slope_mul_pos hk
  funext i
  simp only [invV, hN, hsl, dot_mul_right]
  simp only [fwdV, lrelu_slope, ← hz, ← hcdef]
  have hk' : 1 + c * slope s z ≠ 0 := by rw [mul_comm]; exact hk.ne'
  field_simp
  ring

/-- `transform(inverse y) = y` -/
theorem fwdV_invV {s : ℝ} (hs0 : 0 < s) (hs1 : s ≤ 1) (w û : Fin n → ℝ) (hc : -1 < w ⬝ᵥ û) (b : ℝ)
    (y : Fin n → ℝ) : fwdV (fun z => Jnp.leakyRelu z s) w û b (invV s w û b y) = y := by
  set N := w ⬝ᵥ y + b with hN
  set c := w ⬝ᵥ û with hcdef
  have hk : 0 < 1 + slope s N * c := ParamsPf.one_add_mul_pos hc (slope_pos hs0 N) (slope_le_one hs1 N)
  have hk' : 1 + c * slope s N ≠ 0 := by rw [mul_comm]; exact hk.ne'
  have hz : w ⬝ᵥ invV s w û b y + b = N * (1 / (1 + slope s N * c)) := by
    rw [dot_invV, ← hN, ← hcdef]; field_simp; ring
  have hsl : slope s (N * (1 / (1 + slope s N * c))) = slope s N := slope_mul_pos (by positivity)
  funext i
  simp only [fwdV, hz, lrelu_slope, hsl]
  simp only [invV, ← hN, dot_mul_right, ← hcdef]
  field_simp
  ring

/-! ### the generated list code in vector form -/
section unfold
variable {p : UnconditionalPlanar ℝ} {w û : Fin n → ℝ}

theorem transform_lrelu_ofFn (hw : p.weight = List.ofFn w) (hu : p.get_act_scale = List.ofFn û) (s : ℝ)
    (x : Fin n → ℝ) :
    p.transform_lrelu s (List.ofFn x) = List.ofFn (fwdV (fun z => Jnp.leakyRelu z s) w û p.bias x) := by
  simp only [UnconditionalPlanar.transform_lrelu, hw, hu, List.map_ofFn, LogDet.zipWith_ofFn, dot_ofFn]
  rfl

theorem transform_tanh_ofFn (hw : p.weight = List.ofFn w) (hu : p.get_act_scale = List.ofFn û)
    (x : Fin n → ℝ) :
    p.transform_tanh (List.ofFn x) = List.ofFn (fwdV Real.tanh w û p.bias x) := by
  simp only [UnconditionalPlanar.transform_tanh, hw, hu, List.map_ofFn, LogDet.zipWith_ofFn, dot_ofFn]
  rfl

theorem tld_lrelu_ofFn (hw : p.weight = List.ofFn w) (hu : p.get_act_scale = List.ofFn û) {s : ℝ} (hs : 0 < s)
    (x : Fin n → ℝ) :
    p.transform_and_log_det_lrelu s (List.ofFn x)
      = (List.ofFn (fwdV (fun z => Jnp.leakyRelu z s) w û p.bias x),
         Real.log |1 + û ⬝ᵥ (slope s (w ⬝ᵥ x + p.bias) • w)|) := by
  simp only [UnconditionalPlanar.transform_and_log_det_lrelu, hw, hu, List.map_ofFn, LogDet.zipWith_ofFn,
    dot_ofFn, where_slope, slope_lrelu hs, log_eq, jabs_eq, dotProduct_comm x w]
  rfl

theorem tld_tanh_ofFn (hw : p.weight = List.ofFn w) (hu : p.get_act_scale = List.ofFn û) (x : Fin n → ℝ) :
    p.transform_and_log_det_tanh (List.ofFn x)
      = (List.ofFn (fwdV Real.tanh w û p.bias x),
         Real.log |1 + û ⬝ᵥ ((1 - Real.tanh (w ⬝ᵥ x + p.bias) ^ 2) • w)|) := by
  simp only [UnconditionalPlanar.transform_and_log_det_tanh, hw, hu, List.map_ofFn, LogDet.zipWith_ofFn,
    dot_ofFn, log_eq, jabs_eq, tanh_eq, dotProduct_comm x w, ← pow_two]
  rfl

theorem ild_lrelu_ofFn (hw : p.weight = List.ofFn w) (hu : p.get_act_scale = List.ofFn û) (s : ℝ)
    (y : Fin n → ℝ) :
    p.inverse_and_log_det_lrelu s (List.ofFn y)
      = (List.ofFn (invV s w û p.bias y),
         -Real.log |1 + (fun i => û i * slope s (w ⬝ᵥ y + p.bias)) ⬝ᵥ w|) := by
  simp only [UnconditionalPlanar.inverse_and_log_det_lrelu, hw, hu, List.map_ofFn, LogDet.zipWith_ofFn,
    dot_ofFn, where_slope, log_eq, jabs_eq]
  rfl

end unfold

/-! ### C01: round trips of the generated leaky-relu methods -/

theorem vec {p : UnconditionalPlanar ℝ} (h : WF p n) :
    p.weight = List.ofFn (toVec n p.weight) ∧ p.get_act_scale = List.ofFn (toVec n p.get_act_scale) :=
  ⟨(ofFn_toVec h.lenW).symm, (ofFn_toVec (get_act_scale_length h)).symm⟩

/-- the numerator `w·y + b` at `y = transform x` is `z·(1 + σ(z)·w·û)`, a positive multiple of `z = w·x + b` -/
theorem num_fwdV (s : ℝ) (w û : Fin n → ℝ) (b : ℝ) (x : Fin n → ℝ) :
    w ⬝ᵥ fwdV (fun z => Jnp.leakyRelu z s) w û b x + b
      = (w ⬝ᵥ x + b) * (1 + slope s (w ⬝ᵥ x + b) * (w ⬝ᵥ û)) := by
  rw [dot_fwdV, lrelu_slope]; ring

theorem slope_num {s : ℝ} (hs0 : 0 < s) (hs1 : s ≤ 1) (w û : Fin n → ℝ) (hc : -1 < w ⬝ᵥ û) (b : ℝ)
    (x : Fin n → ℝ) :
    slope s (w ⬝ᵥ fwdV (fun z => Jnp.leakyRelu z s) w û b x + b) = slope s (w ⬝ᵥ x + b) := by
  rw [num_fwdV]
  exact slope_mul_pos (ParamsPf.one_add_mul_pos hc (slope_pos hs0 _) (slope_le_one hs1 _))

theorem lrelu_lawful {p : UnconditionalPlanar ℝ} (h : WF p n) {s : ℝ} (hs0 : 0 < s) (hs1 : s ≤ 1) :
    (Planar.lreluBij p s : Bij (List ℝ) C ℝ).Lawful {x | x.length = n} {y | y.length = n} := by
  obtain ⟨hw, hu⟩ := vec h
  have hc := constraint h
  refine ⟨?_, ?_, ?_, ?_, ?_, ?_⟩
  · intro x hx c
    obtain ⟨v, rfl⟩ := exists_ofFn hx
    simp [Planar.lreluBij, transform_lrelu_ofFn hw hu]
  · intro y hy c
    obtain ⟨v, rfl⟩ := exists_ofFn hy
    simp [Planar.lreluBij, UnconditionalPlanar.inverse_lrelu, ild_lrelu_ofFn hw hu]
  · intro x hx c
    obtain ⟨v, rfl⟩ := exists_ofFn hx
    simp only [Planar.lreluBij, UnconditionalPlanar.inverse_lrelu, transform_lrelu_ofFn hw hu,
      ild_lrelu_ofFn hw hu]
    rw [invV_fwdV hs0 hs1 _ _ hc]
  · intro y hy c
    obtain ⟨v, rfl⟩ := exists_ofFn hy
    simp only [Planar.lreluBij, UnconditionalPlanar.inverse_lrelu, transform_lrelu_ofFn hw hu,
      ild_lrelu_ofFn hw hu]
    rw [fwdV_invV hs0 hs1 _ _ hc]
  · intro x c
    simp only [Planar.lreluBij, UnconditionalPlanar.transform_and_log_det_lrelu,
      UnconditionalPlanar.transform_lrelu]
    rw [ParamsPf.jdot_comm x]
  · intro y c; rfl

theorem lrelu_ld_antisym {p : UnconditionalPlanar ℝ} (h : WF p n) {s : ℝ} (hs0 : 0 < s) (hs1 : s ≤ 1) :
    (Planar.lreluBij p s : Bij (List ℝ) C ℝ).LdAntisym {x | x.length = n} := by
  obtain ⟨hw, hu⟩ := vec h
  have hc := constraint h
  intro x hx c
  obtain ⟨v, rfl⟩ := exists_ofFn hx
  simp only [Planar.lreluBij, transform_lrelu_ofFn hw hu, ild_lrelu_ofFn hw hu, tld_lrelu_ofFn hw hu hs0]
  rw [slope_num hs0 hs1 _ _ hc]
  congr 3
  simp [dotProduct, mul_comm, mul_left_comm]

/-! ### C02: Fréchet derivative of the generated forward map, `J = I + û ψᵀ` -/
open Filter Topology Set

/-- the Jacobian matrix `I + û ψᵀ` -/
noncomputable def jac (û ψ : Fin n → ℝ) : Matrix (Fin n) (Fin n) ℝ :=
  1 + replicateCol Unit û * replicateRow Unit ψ

/-- matrix determinant lemma (Mathlib): `det (I + û ψᵀ) = 1 + ψ·û` -/
theorem jac_det (û ψ : Fin n → ℝ) : (jac û ψ).det = 1 + ψ ⬝ᵥ û :=
  det_one_add_replicateCol_mul_replicateRow û ψ

theorem jac_mulVec (û ψ v : Fin n → ℝ) (i : Fin n) : (jac û ψ *ᵥ v) i = v i + û i * (ψ ⬝ᵥ v) := by
  unfold jac
  rw [Matrix.add_mulVec, Matrix.one_mulVec, Pi.add_apply]
  congr 1
  simp [Matrix.mulVec, dotProduct, Matrix.mul_apply, Finset.mul_sum, mul_assoc]

/-- `v ↦ w·v` as a continuous linear functional -/
noncomputable def dotL (w : Fin n → ℝ) : (Fin n → ℝ) →L[ℝ] ℝ :=
  LinearMap.toContinuousLinearMap (dotProductBilin ℝ ℝ w)

@[simp] theorem dotL_apply (w v : Fin n → ℝ) : dotL w v = w ⬝ᵥ v := rfl

theorem fwdV_hasFDerivAt {act : ℝ → ℝ} {d : ℝ} (w û : Fin n → ℝ) (b : ℝ) (x : Fin n → ℝ)
    (hact : HasDerivAt act d (w ⬝ᵥ x + b)) :
    HasFDerivAt (fwdV act w û b) (matCLM (jac û (d • w))) x := by
  rw [hasFDerivAt_pi']
  intro i
  show HasFDerivAt (fun x : Fin n → ℝ => x i + û i * act (w ⬝ᵥ x + b)) _ x
  have hproj : HasFDerivAt (fun x : Fin n → ℝ => x i) (ContinuousLinearMap.proj (R := ℝ) i) x :=
    (ContinuousLinearMap.proj (R := ℝ) (φ := fun _ : Fin n => ℝ) i).hasFDerivAt
  have hdot : HasFDerivAt (fun x : Fin n → ℝ => w ⬝ᵥ x + b) (dotL w) x :=
    ((dotL w).hasFDerivAt).add_const b
  have h2 := (hact.comp_hasFDerivAt x hdot).const_mul (û i)
  have h3 := hproj.add h2
  have e : (ContinuousLinearMap.proj (R := ℝ) (φ := fun _ : Fin n => ℝ) i).comp (matCLM (jac û (d • w)))
      = ContinuousLinearMap.proj (R := ℝ) (φ := fun _ : Fin n => ℝ) i + û i • (d • dotL w) := by
    ext v
    simp [matCLM, jac_mulVec, Matrix.toLin'_apply, smul_dotProduct]
  rw [e]; exact h3

theorem lrelu_hasDerivAt (s : ℝ) {z : ℝ} (hz : z ≠ 0) :
    HasDerivAt (fun z => Jnp.leakyRelu z s) (slope s z) z := by
  rcases lt_or_gt_of_ne hz with h | h
  · have e : (fun z => Jnp.leakyRelu z s) =ᶠ[𝓝 z] fun z => s * z := by
      filter_upwards [Iio_mem_nhds h] with y hy
      simp [Jnp.leakyRelu, mem_Iio.mp hy]
    have hd : HasDerivAt (fun z => s * z) s z := by simpa using (hasDerivAt_id z).const_mul s
    simpa [slope, h] using hd.congr_of_eventuallyEq e
  · have e : (fun z => Jnp.leakyRelu z s) =ᶠ[𝓝 z] fun z => z := by
      filter_upwards [Ioi_mem_nhds h] with y hy
      simp [Jnp.leakyRelu, not_lt.mpr (le_of_lt (mem_Ioi.mp hy))]
    simpa [slope, not_lt.mpr h.le] using (hasDerivAt_id z).congr_of_eventuallyEq e

theorem lrelu_ld {p : UnconditionalPlanar ℝ} (h : WF p n) {s : ℝ} (hs0 : 0 < s) (hs1 : s ≤ 1) :
    (Planar.lreluBij p s : Bij (List ℝ) C ℝ).LdCorrectVecWith n
      {v | toVec n p.weight ⬝ᵥ v + p.bias ≠ 0}
      (fun v => jac (toVec n p.get_act_scale)
        (slope s (toVec n p.weight ⬝ᵥ v + p.bias) • toVec n p.weight)) := by
  obtain ⟨hw, hu⟩ := vec h
  have hc := constraint h
  intro v hv c
  have hcm : coordMap n (fun x => (Planar.lreluBij p s : Bij (List ℝ) C ℝ).fwd x c)
      = fwdV (fun z => Jnp.leakyRelu z s) (toVec n p.weight) (toVec n p.get_act_scale) p.bias :=
    coordMap_eq (fun v => transform_lrelu_ofFn hw hu s v)
  have hpos := ParamsPf.one_add_mul_pos hc (slope_pos hs0 (toVec n p.weight ⬝ᵥ v + p.bias))
    (slope_le_one hs1 _)
  refine ⟨?_, ?_, ?_, ?_⟩
  · rw [hcm]; exact fwdV_hasFDerivAt _ _ _ _ (lrelu_hasDerivAt s hv)
  · intro v'; simp [Planar.lreluBij, transform_lrelu_ofFn hw hu]
  · rw [jac_det, smul_dotProduct, smul_eq_mul]; exact hpos.ne'
  · simp only [Planar.lreluBij, tld_lrelu_ofFn hw hu hs0]
    rw [jac_det, dotProduct_comm]

/-- tanh activation: differentiable everywhere; `ψ = (1 − tanh² z)·w`, `det J = 1 + ψ·û > 0`. -/
theorem tanh_ld {p : UnconditionalPlanar ℝ} (h : WF p n) (v : Fin n → ℝ) :
    HasFDerivAt (coordMap n p.transform_tanh)
      (matCLM (jac (toVec n p.get_act_scale)
        ((1 - Real.tanh (toVec n p.weight ⬝ᵥ v + p.bias) ^ 2) • toVec n p.weight))) v ∧
    (∀ v' : Fin n → ℝ, (p.transform_tanh (List.ofFn v')).length = n) ∧
    0 < (jac (toVec n p.get_act_scale)
        ((1 - Real.tanh (toVec n p.weight ⬝ᵥ v + p.bias) ^ 2) • toVec n p.weight)).det ∧
    (p.transform_and_log_det_tanh (List.ofFn v)).2 = Real.log |(jac (toVec n p.get_act_scale)
        ((1 - Real.tanh (toVec n p.weight ⬝ᵥ v + p.bias) ^ 2) • toVec n p.weight)).det| ∧
    (p.transform_and_log_det_tanh (List.ofFn v)).1 = p.transform_tanh (List.ofFn v) := by
  obtain ⟨hw, hu⟩ := vec h
  have hc := constraint h
  have hcm : coordMap n p.transform_tanh
      = fwdV Real.tanh (toVec n p.weight) (toVec n p.get_act_scale) p.bias :=
    coordMap_eq (fun v => transform_tanh_ofFn hw hu v)
  have hd1 := LogDet.one_sub_tanh_sq_pos (toVec n p.weight ⬝ᵥ v + p.bias)
  have hd2 : 1 - Real.tanh (toVec n p.weight ⬝ᵥ v + p.bias) ^ 2 ≤ 1 := by
    have := sq_nonneg (Real.tanh (toVec n p.weight ⬝ᵥ v + p.bias)); linarith
  have hpos := ParamsPf.one_add_mul_pos hc hd1 hd2
  refine ⟨?_, ?_, ?_, ?_, ?_⟩
  · rw [hcm]; exact fwdV_hasFDerivAt _ _ _ _ (LogDet.hasDerivAt_tanh _)
  · intro v'; simp [transform_tanh_ofFn hw hu]
  · rw [jac_det, smul_dotProduct, smul_eq_mul]; exact hpos
  · rw [tld_tanh_ofFn hw hu, jac_det, dotProduct_comm]
  · rw [tld_tanh_ofFn hw hu, transform_tanh_ofFn hw hu]

/-! ### `Planar.get_planar` -/

/-- the record `get_planar` builds from a parameter vector of length `2n + 1` has `w`, `u` of length `n` -/
theorem getPlanar_wf {params : List ℝ} (hl : params.length = 2 * n + 1)
    (hw : Jnp.dot (params.take n) (params.take n) ≠ 0) : WF (Planar.getPlanar n params) n :=
  ⟨by simp [Planar.getPlanar]; omega, by simp [Planar.getPlanar]; omega, hw⟩

/-! ### C07: the documented function -/

/-- `û = u + (m(wᵀu) − wᵀu)·w/‖w‖²` with `m(t) = −1 + log(1 + softplus t)` (appendix A.1 of the paper) -/
theorem get_act_scale_doc {p : UnconditionalPlanar ℝ} (h : WF p n) (i : Fin n) :
    toVec n p.get_act_scale i = toVec n p._act_scale i +
      (ParamsPf.planarM (toVec n p._act_scale ⬝ᵥ toVec n p.weight) - toVec n p._act_scale ⬝ᵥ toVec n p.weight)
        * toVec n p.weight i / (toVec n p.weight ⬝ᵥ toVec n p.weight) := by
  have hw := (ofFn_toVec h.lenW).symm
  have hu := (ofFn_toVec h.lenU).symm
  have hnn : 0 ≤ toVec n p.weight ⬝ᵥ toVec n p.weight := by
    rw [← dot_ofFn, ← hw]; exact ParamsPf.jdot_self_nonneg _
  have e : p.get_act_scale = List.ofFn (fun i => toVec n p._act_scale i +
      (ParamsPf.planarM (toVec n p._act_scale ⬝ᵥ toVec n p.weight) - toVec n p._act_scale ⬝ᵥ toVec n p.weight)
        * toVec n p.weight i / (toVec n p.weight ⬝ᵥ toVec n p.weight)) := by
    unfold UnconditionalPlanar.get_act_scale
    rw [hw, hu]
    simp only [List.map_ofFn, LogDet.zipWith_ofFn, dot_ofFn, sqrt_eq, log_eq, softplus_eq, toVec_ofFn,
      Real.mul_self_sqrt hnn]
    rfl
  rw [e, toVec_ofFn]

end PlanarPf
