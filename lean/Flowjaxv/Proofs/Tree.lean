import Flowjaxv.Model.Tree
/-!
# Lemmas about the pytree model (`Model/Tree.lean`) — core Lean only

All proofs are mutual structural inductions over `Tree` / `List Tree`, unbounded in size, depth
and width.
-/
namespace PyTree
variable {α : Type}

/-! ## unwrap leaves no wrapper; idempotence -/

/-- the semantic assumption on the per-class `.unwrap()` bodies: applied to wrapper-free arguments
they return a wrapper-free value (`jnp.where`, `bijection.transform`, … return arrays). -/
def WrapFree (f : WrapFn α) : Prop := ∀ k tag cs, noWrapL cs = true → noWrap (f k tag cs) = true

mutual
theorem noWrap_sliceT (i : Nat) : ∀ t : Tree α, noWrap t = true → noWrap (sliceT i t) = true
  | .none, _ => by simp [sliceT, noWrap]
  | .arr _ _ _, _ => by simp [sliceT, noWrap]
  | .static _, _ => by simp [sliceT, noWrap]
  | .node cs, h => by
      simp only [sliceT, noWrap] at h ⊢
      exact noWrapL_sliceL i cs h
  | .wrap _ _ _ _, h => by simp [noWrap] at h
theorem noWrapL_sliceL (i : Nat) : ∀ cs : List (Tree α), noWrapL cs = true → noWrapL (sliceL i cs) = true
  | [], _ => by simp [sliceL, noWrapL]
  | c :: cs, h => by
      simp only [noWrapL, Bool.and_eq_true] at h
      simp only [sliceL, noWrapL, Bool.and_eq_true]
      exact ⟨noWrap_sliceT i c h.1, noWrapL_sliceL i cs h.2⟩
end

mutual
theorem noWrap_stackF (n : Nat) : ∀ (tm : Tree α) (g : Nat → Tree α), noWrap tm = true → noWrap (stackF n g tm) = true
  | .none, _, _ => by simp [stackF, noWrap]
  | .arr _ _ _, _, _ => by simp [stackF, noWrap]
  | .static _, _, _ => by simp [stackF, noWrap]
  | .node cs, g, h => by
      simp only [stackF, noWrap] at h ⊢
      exact noWrapL_stackFL n cs g 0 h
  | .wrap _ _ _ _, _, h => by simp [noWrap] at h
theorem noWrapL_stackFL (n : Nat) : ∀ (cs : List (Tree α)) (g : Nat → Tree α) (j : Nat),
    noWrapL cs = true → noWrapL (stackFL n g j cs) = true
  | [], _, _, _ => by simp [stackFL, noWrapL]
  | c :: cs, g, j, h => by
      simp only [noWrapL, Bool.and_eq_true] at h
      simp only [stackFL, noWrapL, Bool.and_eq_true]
      exact ⟨noWrap_stackF n c _ h.1, noWrapL_stackFL n cs g (j + 1) h.2⟩
end

theorem noWrap_applyB {f : WrapFn α} (hf : WrapFree f) (k : Kind) (tag : Nat) :
    ∀ (b : List Nat) (cs : List (Tree α)), noWrapL cs = true → noWrap (applyB f k tag b cs) = true
  | [], cs, h => by simpa [applyB] using hf k tag cs h
  | n :: b, cs, h => by
      simp only [applyB]
      exact noWrap_stackF n _ _ (noWrap_applyB hf k tag b _ (noWrapL_sliceL 0 cs h))

theorem noWrap_applyW {f : WrapFn α} (hf : WrapFree f) (k : Kind) (tag : Nat) (b : List Nat)
    (cs : List (Tree α)) (h : noWrapL cs = true) : noWrap (applyW f k tag b cs) = true := by
  cases k with
  | nonTrainable =>
      simp only [applyW]
      split
      · simpa [noWrapL] using h
      · simpa [noWrap] using h
  | reparam => exact noWrap_applyB hf _ tag b cs h
  | lambda => exact noWrap_applyB hf _ tag b cs h
  | whereK => exact hf _ tag cs h
  | weightNorm => exact hf _ tag cs h

mutual
theorem unwrap_noWrap {f : WrapFn α} (hf : WrapFree f) : ∀ t : Tree α, noWrap (unwrap f t) = true
  | .none => by simp [unwrap, noWrap]
  | .arr _ _ _ => by simp [unwrap, noWrap]
  | .static _ => by simp [unwrap, noWrap]
  | .node cs => by simpa [unwrap, noWrap] using unwrapL_noWrap hf cs
  | .wrap k tag b cs => by
      simp only [unwrap]
      exact noWrap_applyW hf k tag b _ (unwrapL_noWrap hf cs)
theorem unwrapL_noWrap {f : WrapFn α} (hf : WrapFree f) : ∀ cs : List (Tree α), noWrapL (unwrapL f cs) = true
  | [] => by simp [unwrapL, noWrapL]
  | c :: cs => by simp [unwrapL, noWrapL, unwrap_noWrap hf c, unwrapL_noWrap hf cs]
end

mutual
theorem unwrap_id_of_noWrap (f : WrapFn α) : ∀ t : Tree α, noWrap t = true → unwrap f t = t
  | .none, _ => by simp [unwrap]
  | .arr _ _ _, _ => by simp [unwrap]
  | .static _, _ => by simp [unwrap]
  | .node cs, h => by simp [unwrap, unwrapL_id_of_noWrap f cs (by simpa [noWrap] using h)]
  | .wrap _ _ _ _, h => by simp [noWrap] at h
theorem unwrapL_id_of_noWrap (f : WrapFn α) : ∀ cs : List (Tree α), noWrapL cs = true → unwrapL f cs = cs
  | [], _ => by simp [unwrapL]
  | c :: cs, h => by
      simp only [noWrapL, Bool.and_eq_true] at h
      simp [unwrapL, unwrap_id_of_noWrap f c h.1, unwrapL_id_of_noWrap f cs h.2]
end

theorem unwrap_idem {f : WrapFn α} (hf : WrapFree f) (t : Tree α) : unwrap f (unwrap f t) = unwrap f t :=
  unwrap_id_of_noWrap f _ (unwrap_noWrap hf t)

mutual
theorem wrapTags_of_noWrap : ∀ t : Tree α, noWrap t = true → wrapTags t = []
  | .none, _ => by simp [wrapTags]
  | .arr _ _ _, _ => by simp [wrapTags]
  | .static _, _ => by simp [wrapTags]
  | .node cs, h => by simpa [wrapTags] using wrapTagsL_of_noWrapL cs (by simpa [noWrap] using h)
  | .wrap _ _ _ _, h => by simp [noWrap] at h
theorem wrapTagsL_of_noWrapL : ∀ cs : List (Tree α), noWrapL cs = true → wrapTagsL cs = []
  | [], _ => by simp [wrapTagsL]
  | c :: cs, h => by
      simp only [noWrapL, Bool.and_eq_true] at h
      simp [wrapTagsL, wrapTags_of_noWrap c h.1, wrapTagsL_of_noWrapL cs h.2]
end

/-! ## the instrumented run -/

mutual
theorem unwrapM_eq (f : WrapFn α) : ∀ (t : Tree α) (log : List Nat),
    unwrapM f t log = (unwrap f t, log ++ wrapTags t)
  | .none, log => by simp [unwrapM, unwrap, wrapTags]
  | .arr _ _ _, log => by simp [unwrapM, unwrap, wrapTags]
  | .static _, log => by simp [unwrapM, unwrap, wrapTags]
  | .node cs, log => by simp [unwrapM, unwrap, wrapTags, unwrapML_eq f cs log]
  | .wrap k tag b cs, log => by simp [unwrapM, unwrap, wrapTags, unwrapML_eq f cs log]
theorem unwrapML_eq (f : WrapFn α) : ∀ (cs : List (Tree α)) (log : List Nat),
    unwrapML f cs log = (unwrapL f cs, log ++ wrapTagsL cs)
  | [], log => by simp [unwrapML, unwrapL, wrapTagsL]
  | c :: cs, log => by
      simp [unwrapML, unwrapL, wrapTagsL, unwrapM_eq f c log, unwrapML_eq f cs (log ++ wrapTags c)]
end

theorem count_eq_one_of_nodup {l : List Nat} (h : l.Nodup) {x : Nat} (hx : x ∈ l) : l.count x = 1 := by
  induction l with
  | nil => simp at hx
  | cons a l ih =>
      rw [List.nodup_cons] at h
      rcases List.mem_cons.mp hx with rfl | hx'
      · have : l.count x = 0 := List.count_eq_zero.mpr h.1
        simp [this]
      · have hne : a ≠ x := fun e => h.1 (e ▸ hx')
        simp [hne, ih h.2 hx']

/-! ## partition / combine -/

mutual
theorem combine_part : ∀ t : Tree α, combine (partP t) (partS t) = t
  | .none => by simp [partP, partS, combine]
  | .arr id ix a => by cases ix <;> simp [partP, partS, combine]
  | .static _ => by simp [partP, partS, combine]
  | .node cs => by simp [partP, partS, combine, combineL_part cs]
  | .wrap k tag b cs => by cases k <;> simp [partP, partS, combine, combineL_part cs]
theorem combineL_part : ∀ cs : List (Tree α), combineL (partPL cs) (partSL cs) = cs
  | [] => by simp [partPL, partSL, combineL]
  | c :: cs => by simp [partPL, partSL, combineL, combine_part c, combineL_part cs]
end

mutual
theorem leaves_partS : ∀ t : Tree α, leaves (partS t) = frozenLeaves t
  | .none => by simp [partS, leaves, frozenLeaves]
  | .arr id ix a => by cases ix <;> simp [partS, leaves, frozenLeaves]
  | .static _ => by simp [partS, leaves, frozenLeaves]
  | .node cs => by simp [partS, leaves, frozenLeaves, leavesL_partSL cs]
  | .wrap k tag b cs => by cases k <;> simp [partS, leaves, frozenLeaves, leavesL_partSL cs]
theorem leavesL_partSL : ∀ cs : List (Tree α), leavesL (partSL cs) = frozenLeavesL cs
  | [] => by simp [partSL, leavesL, frozenLeavesL]
  | c :: cs => by simp [partSL, leavesL, frozenLeavesL, leaves_partS c, leavesL_partSL cs]
end

mutual
theorem leaves_partP : ∀ t : Tree α, leaves (partP t) = trainableLeaves t
  | .none => by simp [partP, leaves, trainableLeaves]
  | .arr id ix a => by cases ix <;> simp [partP, leaves, trainableLeaves]
  | .static _ => by simp [partP, leaves, trainableLeaves]
  | .node cs => by simp [partP, leaves, trainableLeaves, leavesL_partPL cs]
  | .wrap k tag b cs => by cases k <;> simp [partP, leaves, trainableLeaves, leavesL_partPL cs]
theorem leavesL_partPL : ∀ cs : List (Tree α), leavesL (partPL cs) = trainableLeavesL cs
  | [] => by simp [partPL, leavesL, trainableLeavesL]
  | c :: cs => by simp [partPL, leavesL, trainableLeavesL, leaves_partP c, leavesL_partPL cs]
end

mutual
theorem statics_partP : ∀ t : Tree α, statics (partP t) = []
  | .none => by simp [partP, statics]
  | .arr id ix a => by cases ix <;> simp [partP, statics]
  | .static _ => by simp [partP, statics]
  | .node cs => by simp [partP, statics, staticsL_partPL cs]
  | .wrap k tag b cs => by cases k <;> simp [partP, statics, staticsL_partPL cs]
theorem staticsL_partPL : ∀ cs : List (Tree α), staticsL (partPL cs) = []
  | [] => by simp [partPL, staticsL]
  | c :: cs => by simp [partPL, staticsL, statics_partP c, staticsL_partPL cs]
end

mutual
theorem statics_partS : ∀ t : Tree α, statics (partS t) = statics t
  | .none => by simp [partS]
  | .arr id ix a => by cases ix <;> simp [partS, statics]
  | .static _ => by simp [partS]
  | .node cs => by simp [partS, statics, staticsL_partSL cs]
  | .wrap k tag b cs => by cases k <;> simp [partS, statics, staticsL_partSL cs]
theorem staticsL_partSL : ∀ cs : List (Tree α), staticsL (partSL cs) = staticsL cs
  | [] => by simp [partSL]
  | c :: cs => by simp [partSL, staticsL, statics_partS c, staticsL_partSL cs]
end

mutual
/-- every trainable leaf is an inexact array -/
theorem trainable_inexact : ∀ (t : Tree α) (l : Leaf α), l ∈ trainableLeaves t → l.2.1 = true
  | .none, l, h => by simp [trainableLeaves] at h
  | .arr id ix a, l, h => by
      cases ix <;> simp [trainableLeaves] at h
      simp [h]
  | .static _, l, h => by simp [trainableLeaves] at h
  | .node cs, l, h => trainableL_inexact cs l (by simpa [trainableLeaves] using h)
  | .wrap k tag b cs, l, h => by
      cases k <;> simp only [trainableLeaves] at h
      · simp at h
      all_goals exact trainableL_inexact cs l h
theorem trainableL_inexact : ∀ (cs : List (Tree α)) (l : Leaf α), l ∈ trainableLeavesL cs → l.2.1 = true
  | [], l, h => by simp [trainableLeavesL] at h
  | c :: cs, l, h => by
      simp only [trainableLeavesL, List.mem_append] at h
      rcases h with h | h
      · exact trainable_inexact c l h
      · exact trainableL_inexact cs l h
end

mutual
/-- trainable and frozen leaves together are exactly the array leaves (as a count) -/
theorem leaves_length_split : ∀ t : Tree α,
    (leaves t).length = (trainableLeaves t).length + (frozenLeaves t).length
  | .none => by simp [leaves, trainableLeaves, frozenLeaves]
  | .arr id ix a => by cases ix <;> simp [leaves, trainableLeaves, frozenLeaves]
  | .static _ => by simp [leaves, trainableLeaves, frozenLeaves]
  | .node cs => by simpa [leaves, trainableLeaves, frozenLeaves] using leavesL_length_split cs
  | .wrap k tag b cs => by
      cases k <;> simp only [leaves, trainableLeaves, frozenLeaves]
      · simp
      all_goals exact leavesL_length_split cs
theorem leavesL_length_split : ∀ cs : List (Tree α),
    (leavesL cs).length = (trainableLeavesL cs).length + (frozenLeavesL cs).length
  | [] => by simp [leavesL, trainableLeavesL, frozenLeavesL]
  | c :: cs => by
      simp only [leavesL, trainableLeavesL, frozenLeavesL, List.length_append,
        leaves_length_split c, leavesL_length_split cs]
      omega
end

/-! ## skeleton relation -/

mutual
theorem Sk_refl : ∀ t : Tree α, Sk t t = true
  | .none => by simp [Sk]
  | .arr _ _ _ => by simp [Sk]
  | .static _ => by simp [Sk]
  | .node cs => by simpa [Sk] using SkL_refl cs
  | .wrap k tag b cs => by simpa [Sk] using SkL_refl cs
theorem SkL_refl : ∀ cs : List (Tree α), SkL cs cs = true
  | [] => by simp [SkL]
  | c :: cs => by simp [SkL, Sk_refl c, SkL_refl cs]
end

mutual
theorem Sk_trans : ∀ (a b c : Tree α), Sk a b = true → Sk b c = true → Sk a c = true
  | .none, b, c, h1, h2 => by
      cases b <;> simp [Sk] at h1
      exact h2
  | .arr id ix x, b, c, h1, h2 => by
      cases b <;> simp [Sk] at h1
      cases c <;> simp [Sk] at h2
      simp [Sk, h1, h2]
  | .static i, b, c, h1, h2 => by
      cases b <;> simp [Sk] at h1
      cases c <;> simp [Sk] at h2
      simp [Sk, h1, h2]
  | .node cs, b, c, h1, h2 => by
      cases b with
      | node bs =>
        cases c with
        | node ds =>
          simp only [Sk] at h1 h2 ⊢
          exact SkL_trans cs _ _ h1 h2
        | _ => simp [Sk] at h2
      | _ => simp [Sk] at h1
  | .wrap k t bb cs, b, c, h1, h2 => by
      cases b with
      | wrap k1 t1 b1 bs =>
        cases c with
        | wrap k2 t2 b2 ds =>
          simp only [Sk, Bool.and_eq_true, decide_eq_true_eq, beq_iff_eq] at h1 h2 ⊢
          obtain ⟨⟨⟨h1a, h1b⟩, h1c⟩, h1d⟩ := h1
          obtain ⟨⟨⟨h2a, h2b⟩, h2c⟩, h2d⟩ := h2
          exact ⟨⟨⟨h1a.trans h2a, h1b.trans h2b⟩, h1c.trans h2c⟩, SkL_trans cs _ _ h1d h2d⟩
        | _ => simp [Sk] at h2
      | _ => simp [Sk] at h1
theorem SkL_trans : ∀ (as bs cs : List (Tree α)), SkL as bs = true → SkL bs cs = true → SkL as cs = true
  | [], bs, cs, h1, h2 => by
      cases bs <;> simp [SkL] at h1
      exact h2
  | a :: as, bs, cs, h1, h2 => by
      cases bs with
      | nil => simp [SkL] at h1
      | cons b bs =>
        cases cs with
        | nil => simp [SkL] at h2
        | cons c cs =>
          simp only [SkL, Bool.and_eq_true] at h1 h2 ⊢
          exact ⟨Sk_trans a b c h1.1 h2.1, SkL_trans as bs cs h1.2 h2.2⟩
end

/-! ## training leaves the static half alone -/

mutual
theorem applyU_Sk (add : Arr α → Arr α → Arr α) : ∀ (u p p' : Tree α), applyU add u p = some p' → Sk p p' = true
  | .none, p, p', h => by
      simp only [applyU, Option.some.injEq] at h
      subst h
      exact Sk_refl p
  | .arr _ _ ua, p, p', h => by
      cases p <;> simp [applyU] at h
      subst h
      simp [Sk]
  | .static _, p, p', h => by simp [applyU] at h
  | .node us, p, p', h => by
      cases p with
      | node ps =>
        simp only [applyU] at h
        cases hr : applyUL add us ps with
        | none => simp [hr] at h
        | some rs =>
          rw [hr] at h
          simp only [Option.map_some, Option.some.injEq] at h
          subst h
          simp only [Sk]
          exact applyUL_SkL add us ps rs hr
      | _ => simp [applyU] at h
  | .wrap k _ _ us, p, p', h => by
      cases p with
      | wrap k' t' b' ps =>
        simp only [applyU] at h
        split at h
        · cases hr : applyUL add us ps with
          | none => simp [hr] at h
          | some rs =>
            rw [hr] at h
            simp only [Option.map_some, Option.some.injEq] at h
            subst h
            simp only [Sk, decide_true, beq_self_eq_true, Bool.true_and]
            exact applyUL_SkL add us ps rs hr
        · simp at h
      | _ => simp [applyU] at h
theorem applyUL_SkL (add : Arr α → Arr α → Arr α) : ∀ (us ps ps' : List (Tree α)),
    applyUL add us ps = some ps' → SkL ps ps' = true
  | [], ps, ps', h => by
      cases ps <;> simp [applyUL] at h
      subst h
      simp [SkL]
  | u :: us, ps, ps', h => by
      cases ps with
      | nil => simp [applyUL] at h
      | cons p ps =>
        simp only [applyUL] at h
        cases h1 : applyU add u p with
        | none => simp [h1] at h
        | some r =>
          cases h2 : applyUL add us ps with
          | none => simp [h1, h2] at h
          | some rs =>
            simp only [h1, h2, Option.some.injEq] at h
            subst h
            simp only [SkL, Bool.and_eq_true]
            exact ⟨applyU_Sk add u p r h1, applyUL_SkL add us ps rs h2⟩
end

theorem train_Sk (add : Arr α → Arr α → Arr α) : ∀ (us : List (Tree α)) (p p' : Tree α),
    train add p us = some p' → Sk p p' = true
  | [], p, p', h => by
      simp only [train, Option.some.injEq] at h
      subst h
      exact Sk_refl p
  | u :: us, p, p', h => by
      simp only [train] at h
      cases h1 : applyU add u p with
      | none => simp [h1] at h
      | some q =>
        simp only [h1, Option.bind_some] at h
        exact Sk_trans _ _ _ (applyU_Sk add u p q h1) (train_Sk add us q p' h)

mutual
/-- any tree with the skeleton of the `params` half, recombined with the `static` half, has the
original `static` half -/
theorem partS_combine_of_Sk : ∀ (t p' : Tree α), Sk (partP t) p' = true →
    partS (combine p' (partS t)) = partS t
  | .none, p', h => by
      cases p' <;> simp [partP, Sk] at h
      simp [combine, partS]
  | .arr id ix a, p', h => by
      cases ix
      · cases p' <;> simp [partP, Sk] at h
        simp [combine, partS]
      · cases p' <;> simp [partP, Sk] at h
        obtain ⟨rfl, rfl⟩ := h
        simp [combine, partS]
  | .static _, p', h => by
      cases p' <;> simp [partP, Sk] at h
      simp [combine, partS]
  | .node cs, p', h => by
      cases p' with
      | node ds =>
        simp only [partP, Sk] at h
        simp only [partS, combine]
        rw [partSL_combineL_of_SkL cs ds h]
      | _ => simp [partP, Sk] at h
  | .wrap k tag b cs, p', h => by
      cases k
      · cases p' <;> simp [partP, Sk] at h
        simp [partS, combine]
      all_goals
        cases p' with
        | wrap k' t' b' ds =>
          simp only [partP, Sk, Bool.and_eq_true, decide_eq_true_eq, beq_iff_eq] at h
          obtain ⟨⟨⟨rfl, rfl⟩, rfl⟩, hd⟩ := h
          simp only [partS, combine]
          rw [partSL_combineL_of_SkL cs ds hd]
        | _ => simp [partP, Sk] at h
theorem partSL_combineL_of_SkL : ∀ (cs ds : List (Tree α)), SkL (partPL cs) ds = true →
    partSL (combineL ds (partSL cs)) = partSL cs
  | [], ds, h => by
      cases ds <;> simp [partPL, SkL] at h
      simp [combineL, partSL]
  | c :: cs, ds, h => by
      cases ds with
      | nil => simp [partPL, SkL] at h
      | cons d ds =>
        simp only [partPL, SkL, Bool.and_eq_true] at h
        simp only [partSL, combineL, partS_combine_of_Sk c d h.1, partSL_combineL_of_SkL cs ds h.2]
end

mutual
/-- … and its `params` half is exactly the recombined one -/
theorem partP_combine_of_Sk : ∀ (t p' : Tree α), Sk (partP t) p' = true →
    partP (combine p' (partS t)) = p'
  | .none, p', h => by
      cases p' <;> simp [partP, Sk] at h
      simp [combine, partS, partP]
  | .arr id ix a, p', h => by
      cases ix
      · cases p' <;> simp [partP, Sk] at h
        simp [combine, partS, partP]
      · cases p' <;> simp [partP, Sk] at h
        obtain ⟨rfl, rfl⟩ := h
        simp [combine, partP]
  | .static _, p', h => by
      cases p' <;> simp [partP, Sk] at h
      simp [combine, partS, partP]
  | .node cs, p', h => by
      cases p' with
      | node ds =>
        simp only [partP, Sk] at h
        simp only [partS, combine, partP]
        rw [partPL_combineL_of_SkL cs ds h]
      | _ => simp [partP, Sk] at h
  | .wrap k tag b cs, p', h => by
      cases k
      · cases p' <;> simp [partP, Sk] at h
        simp [partS, combine, partP]
      all_goals
        cases p' with
        | wrap k' t' b' ds =>
          simp only [partP, Sk, Bool.and_eq_true, decide_eq_true_eq, beq_iff_eq] at h
          obtain ⟨⟨⟨rfl, rfl⟩, rfl⟩, hd⟩ := h
          simp only [partS, combine, partP]
          rw [partPL_combineL_of_SkL cs ds hd]
        | _ => simp [partP, Sk] at h
theorem partPL_combineL_of_SkL : ∀ (cs ds : List (Tree α)), SkL (partPL cs) ds = true →
    partPL (combineL ds (partSL cs)) = ds
  | [], ds, h => by
      cases ds <;> simp [partPL, SkL] at h
      simp [combineL, partPL]
  | c :: cs, ds, h => by
      cases ds with
      | nil => simp [partPL, SkL] at h
      | cons d ds =>
        simp only [partPL, SkL, Bool.and_eq_true] at h
        simp only [partSL, combineL, partPL, partP_combine_of_Sk c d h.1, partPL_combineL_of_SkL cs ds h.2]
end

/-! ## ravel / unravel -/

mutual
theorem Arr.unflat_flat : ∀ (a : Arr α) (rest : List α), a.unflat (a.flat ++ rest) = (a, rest)
  | .base d, rest => by simp [Arr.unflat, Arr.flat]
  | .batch xs, rest => by simp [Arr.unflat, Arr.flat, Arr.unflatL_flatL xs rest]
theorem Arr.unflatL_flatL : ∀ (xs : List (Arr α)) (rest : List α),
    Arr.unflatL xs (Arr.flatL xs ++ rest) = (xs, rest)
  | [], rest => by simp [Arr.unflatL, Arr.flatL]
  | x :: xs, rest => by
      simp [Arr.unflatL, Arr.flatL, List.append_assoc, Arr.unflat_flat x, Arr.unflatL_flatL xs rest]
end

mutual
theorem Arr.unflat_spec : ∀ (a : Arr α) (v : List α),
    (a.unflat v).1.flat = v.take a.flat.length ∧ (a.unflat v).2 = v.drop a.flat.length
  | .base d, v => by simp [Arr.unflat, Arr.flat]
  | .batch xs, v => by simpa [Arr.unflat, Arr.flat] using Arr.unflatL_spec xs v
theorem Arr.unflatL_spec : ∀ (xs : List (Arr α)) (v : List α),
    Arr.flatL (Arr.unflatL xs v).1 = v.take (Arr.flatL xs).length ∧
      (Arr.unflatL xs v).2 = v.drop (Arr.flatL xs).length
  | [], v => by simp [Arr.unflatL, Arr.flatL]
  | x :: xs, v => by
      have h1 := Arr.unflat_spec x v
      have h2 := Arr.unflatL_spec xs (x.unflat v).2
      simp only [Arr.unflatL, Arr.flatL, List.length_append]
      rw [h1.1, h2.1, h2.2, h1.2, List.take_add, List.drop_drop]
      exact ⟨rfl, rfl⟩
end

mutual
theorem unravel_ravel : ∀ (p : Tree α) (rest : List α), unravel p (ravel p ++ rest) = (p, rest)
  | .none, rest => by simp [unravel, ravel]
  | .arr id ix a, rest => by simp [unravel, ravel, Arr.unflat_flat a rest]
  | .static _, rest => by simp [unravel, ravel]
  | .node cs, rest => by simp [unravel, ravel, unravelL_ravelL cs rest]
  | .wrap k t b cs, rest => by simp [unravel, ravel, unravelL_ravelL cs rest]
theorem unravelL_ravelL : ∀ (cs : List (Tree α)) (rest : List α),
    unravelL cs (ravelL cs ++ rest) = (cs, rest)
  | [], rest => by simp [unravelL, ravelL]
  | c :: cs, rest => by
      simp [unravelL, ravelL, List.append_assoc, unravel_ravel c, unravelL_ravelL cs rest]
end

mutual
theorem unravel_spec : ∀ (p : Tree α) (v : List α),
    ravel (unravel p v).1 = v.take (ravel p).length ∧ (unravel p v).2 = v.drop (ravel p).length
  | .none, v => by simp [unravel, ravel]
  | .arr id ix a, v => by simpa [unravel, ravel] using Arr.unflat_spec a v
  | .static _, v => by simp [unravel, ravel]
  | .node cs, v => by simpa [unravel, ravel] using unravelL_spec cs v
  | .wrap k t b cs, v => by simpa [unravel, ravel] using unravelL_spec cs v
theorem unravelL_spec : ∀ (cs : List (Tree α)) (v : List α),
    ravelL (unravelL cs v).1 = v.take (ravelL cs).length ∧ (unravelL cs v).2 = v.drop (ravelL cs).length
  | [], v => by simp [unravelL, ravelL]
  | c :: cs, v => by
      have h1 := unravel_spec c v
      have h2 := unravelL_spec cs (unravel c v).2
      simp only [unravelL, ravelL, List.length_append]
      rw [h1.1, h2.1, h2.2, h1.2, List.take_add, List.drop_drop]
      exact ⟨rfl, rfl⟩
end

mutual
theorem unravel_Sk : ∀ (p : Tree α) (v : List α), Sk p (unravel p v).1 = true
  | .none, v => by simp [unravel, Sk]
  | .arr id ix a, v => by simp [unravel, Sk]
  | .static _, v => by simp [unravel, Sk]
  | .node cs, v => by simpa [unravel, Sk] using unravelL_SkL cs v
  | .wrap k t b cs, v => by simpa [unravel, Sk] using unravelL_SkL cs v
theorem unravelL_SkL : ∀ (cs : List (Tree α)) (v : List α), SkL cs (unravelL cs v).1 = true
  | [], v => by simp [unravelL, SkL]
  | c :: cs, v => by simp [unravelL, SkL, unravel_Sk c v, unravelL_SkL cs (unravel c v).2]
end

/-- flattened data of a list of leaves -/
def flatLeaves (ls : List (Leaf α)) : List α := ls.flatMap fun l => l.2.2.flat

mutual
theorem ravel_eq_leaves : ∀ t : Tree α, ravel t = flatLeaves (leaves t)
  | .none => by simp [ravel, leaves, flatLeaves]
  | .arr id ix a => by simp [ravel, leaves, flatLeaves]
  | .static _ => by simp [ravel, leaves, flatLeaves]
  | .node cs => by simpa [ravel, leaves] using ravelL_eq_leavesL cs
  | .wrap k t b cs => by simpa [ravel, leaves] using ravelL_eq_leavesL cs
theorem ravelL_eq_leavesL : ∀ cs : List (Tree α), ravelL cs = flatLeaves (leavesL cs)
  | [] => by simp [ravelL, leavesL, flatLeaves]
  | c :: cs => by
      have h1 := ravel_eq_leaves c
      have h2 := ravelL_eq_leavesL cs
      simp only [flatLeaves] at h1 h2 ⊢
      simp [ravelL, leavesL, h1, h2]
end

theorem zipWith_zero_left {add : α → α → α} {zero : α} (h0 : ∀ x, add zero x = x) :
    ∀ l : List α, List.zipWith add (List.replicate l.length zero) l = l
  | [] => by simp
  | x :: l => by simp [List.replicate_succ, h0 x, zipWith_zero_left h0 l]

/-! ## vmapped construction -/

theorem drop_eq_cons {β : Type} : ∀ {l : List β} {j : Nat} {d : β} {ds : List β} (dflt : β),
    l.drop j = d :: ds → l.getD j dflt = d ∧ l.drop (j + 1) = ds
  | [], j, d, ds, dflt, h => by simp at h
  | x :: l, 0, d, ds, dflt, h => by
      simp only [List.drop_zero, List.cons.injEq] at h
      simp [h.1, h.2]
  | x :: l, j + 1, d, ds, dflt, h => by
      simp only [List.drop_succ_cons] at h
      have := drop_eq_cons (l := l) dflt h
      simpa using this

theorem Sk_node_inv {cs : List (Tree α)} {t : Tree α} (h : Sk (.node cs) t = true) :
    t = .node t.children ∧ SkL cs t.children = true := by
  cases t with
  | node ds => exact ⟨rfl, by simpa [Sk, Tree.children] using h⟩
  | _ => simp [Sk] at h

theorem Sk_wrap_inv {k : Kind} {tag : Nat} {b : List Nat} {cs : List (Tree α)} {t : Tree α}
    (h : Sk (.wrap k tag b cs) t = true) : t = .wrap k tag b t.children ∧ SkL cs t.children = true := by
  cases t with
  | wrap k' t' b' ds =>
      simp only [Sk, Bool.and_eq_true, decide_eq_true_eq, beq_iff_eq] at h
      obtain ⟨⟨⟨rfl, rfl⟩, rfl⟩, hd⟩ := h
      exact ⟨rfl, by simpa [Tree.children] using hd⟩
  | _ => simp [Sk] at h

theorem Sk_none_inv {t : Tree α} (h : Sk .none t = true) : t = .none := by
  cases t <;> simp [Sk] at h
  rfl

theorem Sk_static_inv {id : Nat} {t : Tree α} (h : Sk (.static id) t = true) : t = .static id := by
  cases t <;> simp [Sk] at h
  rw [h]

theorem Sk_arr_inv {id : Nat} {ix : Bool} {a : Arr α} {t : Tree α} (h : Sk (.arr id ix a) t = true) :
    t = .arr id ix t.arrOf := by
  cases t <;> simp [Sk] at h
  obtain ⟨rfl, rfl⟩ := h
  rfl

theorem getD_range_map {β : Type} (n i : Nat) (hi : i < n) (F : Nat → β) (d : β) :
    ((List.range n).map F).getD i d = F i := by
  simp [List.getD_eq_getElem?_getD, hi]

mutual
/-- slicing a stack gives the slice back: `jnp.stack(xs)[i] = xs[i]`, leafwise over the tree -/
theorem sliceT_stackF {n i : Nat} (hi : i < n) : ∀ (tm : Tree α) (g : Nat → Tree α),
    (∀ m, m < n → Sk tm (g m) = true) → sliceT i (stackF n g tm) = g i
  | .none, g, h => by
      rw [Sk_none_inv (h i hi)]
      simp [stackF, sliceT]
  | .arr id ix a, g, h => by
      rw [Sk_arr_inv (h i hi)]
      simp only [stackF, sliceT, Arr.slice]
      rw [getD_range_map n i hi]
  | .static id, g, h => by
      rw [Sk_static_inv (h i hi)]
      simp [stackF, sliceT]
  | .node cs, g, h => by
      have hL := sliceL_stackFL hi cs g 0 (fun m hm => by simpa using (Sk_node_inv (h m hm)).2)
      rw [(Sk_node_inv (h i hi)).1]
      simp only [stackF, sliceT]
      rw [hL, List.drop_zero]
  | .wrap k tag b cs, g, h => by
      have hL := sliceL_stackFL hi cs g 0 (fun m hm => by simpa using (Sk_wrap_inv (h m hm)).2)
      rw [(Sk_wrap_inv (h i hi)).1]
      simp only [stackF, sliceT, List.tail_cons]
      rw [hL, List.drop_zero]
theorem sliceL_stackFL {n i : Nat} (hi : i < n) : ∀ (cs : List (Tree α)) (g : Nat → Tree α) (j : Nat),
    (∀ m, m < n → SkL cs ((g m).children.drop j) = true) →
      sliceL i (stackFL n g j cs) = (g i).children.drop j
  | [], g, j, h => by
      have := h i hi
      cases hd : (g i).children.drop j with
      | nil => simp [stackFL, sliceL]
      | cons d ds => simp [hd, SkL] at this
  | c :: cs, g, j, h => by
      have hdec : ∀ m, m < n → Sk c ((g m).child j) = true ∧ SkL cs ((g m).children.drop (j + 1)) = true := by
        intro m hm
        have := h m hm
        cases hd : (g m).children.drop j with
        | nil => simp [hd, SkL] at this
        | cons d ds =>
          simp only [hd, SkL, Bool.and_eq_true] at this
          have e := drop_eq_cons Tree.none hd
          rw [Tree.child, e.1, e.2]
          exact this
      have h1 := sliceT_stackF hi c (fun m => (g m).child j) (fun m hm => (hdec m hm).1)
      have h2 := sliceL_stackFL hi cs g (j + 1) (fun m hm => (hdec m hm).2)
      simp only [stackFL, sliceL, h1, h2]
      have := h i hi
      cases hd : (g i).children.drop j with
      | nil => simp [hd, SkL] at this
      | cons d ds =>
        have e := drop_eq_cons Tree.none hd
        rw [Tree.child, e.1, e.2]
end

mutual
theorem stackF_congr {n : Nat} : ∀ (tm : Tree α) (g g' : Nat → Tree α),
    (∀ m, m < n → g m = g' m) → stackF n g tm = stackF n g' tm
  | .none, _, _, _ => by simp [stackF]
  | .arr id ix a, g, g', h => by
      simp only [stackF]
      congr 2
      apply List.map_congr_left
      intro m hm
      rw [h m (List.mem_range.mp hm)]
  | .static _, _, _, _ => by simp [stackF]
  | .node cs, g, g', h => by simp only [stackF, stackFL_congr cs g g' 0 h]
  | .wrap k t b cs, g, g', h => by simp only [stackF, stackFL_congr cs g g' 0 h]
theorem stackFL_congr {n : Nat} : ∀ (cs : List (Tree α)) (g g' : Nat → Tree α) (j : Nat),
    (∀ m, m < n → g m = g' m) → stackFL n g j cs = stackFL n g' j cs
  | [], _, _, _, _ => by simp [stackFL]
  | c :: cs, g, g', j, h => by
      simp only [stackFL]
      rw [stackF_congr c _ (fun i => (g' i).child j) (fun m hm => by simp only [h m hm]),
        stackFL_congr cs g g' (j + 1) h]
end

mutual
/-- `WB f n t`: `t` is a tree built under one `eqx.filter_vmap` of axis size `n`:
* every array has a leading batch axis of size `n`;
* every wrapper with a `_dummy` has `_dummy.shape = n :: _` and its per-slice results have one
  common skeleton (what tracing guarantees: output structure does not depend on values);
* every `Where` / `WeightNormalization` node (no `_dummy`, not vectorised) is applied to arguments on
  which its computation is itself batch-polymorphic ("the unwrapping should support broadcasting /
  vmapped initialisations", module docstring). -/
def WB (f : WrapFn α) (n : Nat) : Tree α → Prop
  | .none => True
  | .arr _ _ a => ∃ xs, a = .batch xs ∧ xs.length = n
  | .static _ => True
  | .node cs => WBL f n cs
  | .wrap k tag b cs =>
      WBL f n cs ∧
      match k with
      | .nonTrainable => True
      | .reparam => ∃ b', b = n :: b' ∧ ∀ m, m < n →
          Sk (applyB f .reparam tag b' (sliceL 0 (unwrapL f cs))) (applyB f .reparam tag b' (sliceL m (unwrapL f cs))) = true
      | .lambda => ∃ b', b = n :: b' ∧ ∀ m, m < n →
          Sk (applyB f .lambda tag b' (sliceL 0 (unwrapL f cs))) (applyB f .lambda tag b' (sliceL m (unwrapL f cs))) = true
      | .whereK => ∀ i, i < n → sliceT i (f .whereK tag (unwrapL f cs)) = f .whereK tag (sliceL i (unwrapL f cs))
      | .weightNorm => ∀ i, i < n → sliceT i (f .weightNorm tag (unwrapL f cs)) = f .weightNorm tag (sliceL i (unwrapL f cs))
def WBL (f : WrapFn α) (n : Nat) : List (Tree α) → Prop
  | [] => True
  | c :: cs => WB f n c ∧ WBL f n cs
end

mutual
/-- one vmap level: the `i`-th slice of the unwrapped batched tree is the unwrapped `i`-th
individually built tree — through any nesting of wrappers and containers -/
theorem sliceT_unwrap (f : WrapFn α) {n i : Nat} (hi : i < n) : ∀ t : Tree α, WB f n t →
    sliceT i (unwrap f t) = unwrap f (sliceT i t)
  | .none, _ => by simp [unwrap, sliceT]
  | .arr _ _ _, _ => by simp [unwrap, sliceT]
  | .static _, _ => by simp [unwrap, sliceT]
  | .node cs, h => by
      simp only [WB] at h
      simp only [unwrap, sliceT, sliceL_unwrapL f hi cs h]
  | .wrap k tag b cs, h => by
      simp only [WB] at h
      have hL := sliceL_unwrapL f hi cs h.1
      cases k with
      | nonTrainable =>
          simp only [unwrap, sliceT, applyW]
          match cs, hL with
          | [], _ => simp [unwrapL, sliceL, sliceT]
          | [c], hL =>
              simp only [unwrapL, sliceL, List.cons.injEq, and_true] at hL ⊢
              exact hL
          | c1 :: c2 :: cs, hL =>
              simp only [unwrapL, sliceL] at hL ⊢
              simp only [sliceT, sliceL, hL]
      | reparam =>
          obtain ⟨b', rfl, hsk⟩ := h.2
          simp only [unwrap, sliceT, applyW, applyB, List.tail_cons]
          rw [sliceT_stackF hi _ _ hsk, hL]
      | lambda =>
          obtain ⟨b', rfl, hsk⟩ := h.2
          simp only [unwrap, sliceT, applyW, applyB, List.tail_cons]
          rw [sliceT_stackF hi _ _ hsk, hL]
      | whereK =>
          simp only [unwrap, sliceT, applyW]
          rw [h.2 i hi, hL]
      | weightNorm =>
          simp only [unwrap, sliceT, applyW]
          rw [h.2 i hi, hL]
theorem sliceL_unwrapL (f : WrapFn α) {n i : Nat} (hi : i < n) : ∀ cs : List (Tree α), WBL f n cs →
    sliceL i (unwrapL f cs) = unwrapL f (sliceL i cs)
  | [], _ => by simp [unwrapL, sliceL]
  | c :: cs, h => by
      simp only [WBL] at h
      simp only [unwrapL, sliceL, sliceT_unwrap f hi c h.1, sliceL_unwrapL f hi cs h.2]
end

/-- well-batchedness for nested vmaps, outermost axis size first -/
def WBs (f : WrapFn α) : List Nat → Tree α → Prop
  | [], _ => True
  | n :: ns, t => WB f n t ∧ ∀ i, i < n → WBs f ns (sliceT i t)

/-- slice by a multi-index, outermost first -/
def sliceTs : List Nat → Tree α → Tree α
  | [], t => t
  | i :: is, t => sliceTs is (sliceT i t)

/-- a multi-index inside the batch shape -/
def IdxLt : List Nat → List Nat → Prop
  | [], [] => True
  | i :: is, n :: ns => i < n ∧ IdxLt is ns
  | _, _ => False

theorem sliceTs_unwrap (f : WrapFn α) : ∀ (ns is : List Nat) (t : Tree α),
    IdxLt is ns → WBs f ns t → sliceTs is (unwrap f t) = unwrap f (sliceTs is t)
  | [], [], t, _, _ => by simp [sliceTs]
  | [], _ :: _, t, hlt, _ => by simp [IdxLt] at hlt
  | n :: ns, [], t, hlt, _ => by simp [IdxLt] at hlt
  | n :: ns, i :: is, t, hlt, h => by
      simp only [IdxLt] at hlt
      simp only [WBs] at h
      simp only [sliceTs]
      rw [sliceT_unwrap f hlt.1 t h.1]
      exact sliceTs_unwrap f ns is _ hlt.2 (h.2 i hlt.1)

/-- stack form for one wrapper built under `vmap`: its unwrapped value is the leafwise stack of the
unwrapped values of the `n` individually built wrappers -/
theorem unwrap_wrap_stack (f : WrapFn α) (k : Kind) (hk : k = .reparam ∨ k = .lambda) (tag n : Nat)
    (hn : 0 < n) (b : List Nat) (cs : List (Tree α)) (h : WBL f n cs) :
    unwrap f (.wrap k tag (n :: b) cs) =
      stackF n (fun i => unwrap f (.wrap k tag b (sliceL i cs))) (unwrap f (.wrap k tag b (sliceL 0 cs))) := by
  have e : ∀ i, i < n → unwrap f (.wrap k tag b (sliceL i cs)) = applyB f k tag b (sliceL i (unwrapL f cs)) := by
    intro i hi
    rw [sliceL_unwrapL f hi cs h]
    rcases hk with rfl | rfl <;> simp only [unwrap, applyW]
  have e0 : unwrap f (.wrap k tag (n :: b) cs) = stackF n (fun i => applyB f k tag b (sliceL i (unwrapL f cs)))
      (applyB f k tag b (sliceL 0 (unwrapL f cs))) := by
    rcases hk with rfl | rfl <;> simp only [unwrap, applyW, applyB]
  rw [e0, e 0 hn]
  exact stackF_congr _ _ _ (fun m hm => (e m hm).symm)

/-! ## the per-node skeleton clauses of `WB` from one global hypothesis on `f` -/

/-- what tracing guarantees of every jax-traceable `.unwrap()` body: the skeleton (tree structure, leaf
identities) of the result depends only on the skeleton of the arguments, not on array values -/
def SkUniform (f : WrapFn α) : Prop :=
  ∀ k tag cs cs', SkL cs cs' = true → Sk (f k tag cs) (f k tag cs') = true

mutual
theorem Sk_sliceT (i j : Nat) : ∀ t t' : Tree α, Sk t t' = true → Sk (sliceT i t) (sliceT j t') = true
  | .none, t', h => by rw [Sk_none_inv h]; simp [sliceT, Sk]
  | .arr id ix a, t', h => by rw [Sk_arr_inv h]; simp [sliceT, Sk]
  | .static id, t', h => by rw [Sk_static_inv h]; simp [sliceT, Sk]
  | .node cs, t', h => by
      rw [(Sk_node_inv h).1]
      simp only [sliceT, Sk]
      exact SkL_sliceL i j cs _ (Sk_node_inv h).2
  | .wrap k tag b cs, t', h => by
      rw [(Sk_wrap_inv h).1]
      simp only [sliceT, Sk, decide_true, beq_self_eq_true, Bool.true_and]
      exact SkL_sliceL i j cs _ (Sk_wrap_inv h).2
theorem SkL_sliceL (i j : Nat) : ∀ cs cs' : List (Tree α), SkL cs cs' = true → SkL (sliceL i cs) (sliceL j cs') = true
  | [], cs', h => by
      cases cs' with
      | nil => simp [sliceL, SkL]
      | cons _ _ => simp [SkL] at h
  | c :: cs, cs', h => by
      cases cs' with
      | nil => simp [SkL] at h
      | cons c' cs' =>
        simp only [SkL, Bool.and_eq_true] at h
        simp only [sliceL, SkL, Bool.and_eq_true]
        exact ⟨Sk_sliceT i j c c' h.1, SkL_sliceL i j cs cs' h.2⟩
end

mutual
theorem Sk_stackF (n : Nat) : ∀ (tm tm' : Tree α) (g g' : Nat → Tree α), Sk tm tm' = true →
    Sk (stackF n g tm) (stackF n g' tm') = true
  | .none, tm', g, g', h => by rw [Sk_none_inv h]; simp [stackF, Sk]
  | .arr id ix a, tm', g, g', h => by rw [Sk_arr_inv h]; simp [stackF, Sk]
  | .static id, tm', g, g', h => by rw [Sk_static_inv h]; simp [stackF, Sk]
  | .node cs, tm', g, g', h => by
      rw [(Sk_node_inv h).1]
      simp only [stackF, Sk]
      exact SkL_stackFL n cs _ g g' 0 (Sk_node_inv h).2
  | .wrap k tag b cs, tm', g, g', h => by
      rw [(Sk_wrap_inv h).1]
      simp only [stackF, Sk, decide_true, beq_self_eq_true, Bool.true_and]
      exact SkL_stackFL n cs _ g g' 0 (Sk_wrap_inv h).2
theorem SkL_stackFL (n : Nat) : ∀ (cs cs' : List (Tree α)) (g g' : Nat → Tree α) (j : Nat), SkL cs cs' = true →
    SkL (stackFL n g j cs) (stackFL n g' j cs') = true
  | [], cs', g, g', j, h => by
      cases cs' with
      | nil => simp [stackFL, SkL]
      | cons _ _ => simp [SkL] at h
  | c :: cs, cs', g, g', j, h => by
      cases cs' with
      | nil => simp [SkL] at h
      | cons c' cs' =>
        simp only [SkL, Bool.and_eq_true] at h
        simp only [stackFL, SkL, Bool.and_eq_true]
        exact ⟨Sk_stackF n c c' _ _ h.1, SkL_stackFL n cs cs' g g' (j + 1) h.2⟩
end

theorem applyB_Sk {f : WrapFn α} (hf : SkUniform f) (k : Kind) (tag : Nat) : ∀ (b : List Nat) (cs cs' : List (Tree α)),
    SkL cs cs' = true → Sk (applyB f k tag b cs) (applyB f k tag b cs') = true
  | [], cs, cs', h => by simpa [applyB] using hf k tag cs cs' h
  | n :: b, cs, cs', h => by
      simp only [applyB]
      exact Sk_stackF n _ _ _ _ (applyB_Sk hf k tag b _ _ (SkL_sliceL 0 0 cs cs' h))

mutual
/-- `WB` without the per-node skeleton clauses (they follow from `SkUniform f`) -/
def WBg (f : WrapFn α) (n : Nat) : Tree α → Prop
  | .none => True
  | .arr _ _ a => ∃ xs, a = .batch xs ∧ xs.length = n
  | .static _ => True
  | .node cs => WBgL f n cs
  | .wrap k tag b cs =>
      WBgL f n cs ∧
      match k with
      | .nonTrainable => True
      | .reparam => ∃ b', b = n :: b'
      | .lambda => ∃ b', b = n :: b'
      | .whereK => ∀ i, i < n → sliceT i (f .whereK tag (unwrapL f cs)) = f .whereK tag (sliceL i (unwrapL f cs))
      | .weightNorm => ∀ i, i < n → sliceT i (f .weightNorm tag (unwrapL f cs)) = f .weightNorm tag (sliceL i (unwrapL f cs))
def WBgL (f : WrapFn α) (n : Nat) : List (Tree α) → Prop
  | [] => True
  | c :: cs => WBg f n c ∧ WBgL f n cs
end

mutual
theorem WB_of_WBg {f : WrapFn α} (hf : SkUniform f) (n : Nat) : ∀ t : Tree α, WBg f n t → WB f n t
  | .none, _ => by simp [WB]
  | .arr _ _ _, h => by simpa [WB, WBg] using h
  | .static _, _ => by simp [WB]
  | .node cs, h => by
      simp only [WB, WBg] at h ⊢
      exact WBL_of_WBgL hf n cs h
  | .wrap k tag b cs, h => by
      simp only [WBg] at h
      simp only [WB]
      refine ⟨WBL_of_WBgL hf n cs h.1, ?_⟩
      cases k with
      | nonTrainable => trivial
      | reparam =>
          obtain ⟨b', hb⟩ := h.2
          exact ⟨b', hb, fun m _ => applyB_Sk hf _ tag b' _ _ (SkL_sliceL 0 m _ _ (SkL_refl _))⟩
      | lambda =>
          obtain ⟨b', hb⟩ := h.2
          exact ⟨b', hb, fun m _ => applyB_Sk hf _ tag b' _ _ (SkL_sliceL 0 m _ _ (SkL_refl _))⟩
      | whereK => exact h.2
      | weightNorm => exact h.2
theorem WBL_of_WBgL {f : WrapFn α} (hf : SkUniform f) (n : Nat) : ∀ cs : List (Tree α), WBgL f n cs → WBL f n cs
  | [], _ => by simp [WBL]
  | c :: cs, h => by
      simp only [WBgL] at h
      simp only [WBL]
      exact ⟨WB_of_WBg hf n c h.1, WBL_of_WBgL hf n cs h.2⟩
end

def WBgs (f : WrapFn α) : List Nat → Tree α → Prop
  | [], _ => True
  | n :: ns, t => WBg f n t ∧ ∀ i, i < n → WBgs f ns (sliceT i t)

theorem WBs_of_WBgs {f : WrapFn α} (hf : SkUniform f) : ∀ (ns : List Nat) (t : Tree α), WBgs f ns t → WBs f ns t
  | [], _, _ => by simp [WBs]
  | n :: ns, t, h => by
      simp only [WBgs] at h
      simp only [WBs]
      exact ⟨WB_of_WBg hf n t h.1, fun i hi => WBs_of_WBgs hf ns _ (h.2 i hi)⟩


theorem forall_lt_two {P : Nat → Prop} (h0 : P 0) (h1 : P 1) : ∀ m, m < 2 → P m
  | 0, _ => h0
  | 1, _ => h1

theorem forall_lt_three {P : Nat → Prop} (h0 : P 0) (h1 : P 1) (h2 : P 2) : ∀ m, m < 3 → P m
  | 0, _ => h0
  | 1, _ => h1
  | 2, _ => h2

end PyTree
