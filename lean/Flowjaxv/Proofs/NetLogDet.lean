import Mathlib.LinearAlgebra.Matrix.Block
import Mathlib.Analysis.Calculus.Deriv.Prod
import Flowjaxv.Proofs.LogDet
import Flowjaxv.Proofs.NetLawful
/-!
# C02 for the NETWORK bijections: triangular Jacobians

`det_lowerTriangular_of_dependency` is the algebraic core: a map `ℝⁿ → ℝⁿ` that is Fréchet differentiable at `x`
and whose output `i` does not change when input `j > i` moves (along the coordinate line through `x`) has a
lower-triangular Jacobian matrix there, hence `det J = ∏ᵢ ∂fᵢ/∂xᵢ`.  It is applied to the Coupling, MAF and BNAF
models through their dependency theorems (`coupling_dependency`, `maf_autoregressive`, `bnaf_dependency`).

The oracle is Mathlib's `HasFDerivAt` of the model's forward map in coordinates
`w ↦ (i ↦ nth (fwd (List.ofFn w) cond) i)`; the value compared with `log |det J|` is the second component of the
model's `transform_and_log_det` (the SUM of the per-coordinate transformer log-dets).
-/
set_option linter.unusedSectionVars false
set_option linter.unusedVariables false
open Masks MasksPf

namespace NetLogDet

/-! ## the algebraic core -/

/-- partial derivatives of a Fréchet-differentiable map along coordinate lines are the matrix entries of `J` -/
theorem hasDerivAt_slice {n : ℕ} (f : (Fin n → ℝ) → Fin n → ℝ) (x : Fin n → ℝ)
    (J : (Fin n → ℝ) →L[ℝ] (Fin n → ℝ)) (hJ : HasFDerivAt f J x) (i j : Fin n) :
    HasDerivAt (fun t => f (Function.update x j t) i) (J (Pi.single j 1) i) (x j) := by
  have h1 : HasDerivAt (Function.update x j) (Pi.single j (1 : ℝ)) (x j) := hasDerivAt_update x j (x j)
  have hJ' : HasFDerivAt f J (Function.update x j (x j)) := by rwa [Function.update_eq_self]
  have h2 := hJ'.comp_hasDerivAt (x j) h1
  exact (hasDerivAt_pi.mp h2) i

/-- **`det_lowerTriangular_of_dependency`** -/
theorem det_lowerTriangular_of_dependency {n : ℕ} (f : (Fin n → ℝ) → Fin n → ℝ) (x : Fin n → ℝ)
    (J : (Fin n → ℝ) →L[ℝ] (Fin n → ℝ)) (hJ : HasFDerivAt f J x)
    (hdep : ∀ i j : Fin n, i < j → ∀ t, f (Function.update x j t) i = f x i) :
    (∀ i j : Fin n, i < j → J (Pi.single j 1) i = 0) ∧
    (∀ i, HasDerivAt (fun t => f (Function.update x i t) i) (J (Pi.single i 1) i) (x i)) ∧
    J.det = ∏ i, J (Pi.single i 1) i := by
  have hzero : ∀ i j : Fin n, i < j → J (Pi.single j 1) i = 0 := by
    intro i j hij
    have h1 := hasDerivAt_slice f x J hJ i j
    have h2 : HasDerivAt (fun t => f (Function.update x j t) i) 0 (x j) := by
      have e : (fun t => f (Function.update x j t) i) = fun _ => f x i := by
        funext t; exact hdep i j hij t
      rw [e]; exact hasDerivAt_const _ _
    exact h1.unique h2
  refine ⟨hzero, fun i => hasDerivAt_slice f x J hJ i i, ?_⟩
  have hent : ∀ i j : Fin n, LinearMap.toMatrix' (J : (Fin n → ℝ) →ₗ[ℝ] (Fin n → ℝ)) i j = J (Pi.single j 1) i := by
    intro i j
    rw [LinearMap.toMatrix'_apply]; rfl
  have hM : (LinearMap.toMatrix' (J : (Fin n → ℝ) →ₗ[ℝ] (Fin n → ℝ))).IsLowerTriangular := by
    intro i j hij
    have hij' : i < j := hij
    rw [hent]; exact hzero i j hij'
  have hdet : J.det = (LinearMap.toMatrix' (J : (Fin n → ℝ) →ₗ[ℝ] (Fin n → ℝ))).det := by
    rw [LinearMap.det_toMatrix']
  rw [hdet, Matrix.det_of_isLowerTriangular _ hM]
  exact Finset.prod_congr rfl (fun i _ => hent i i)

/-- the same with the diagonal partial derivatives named -/
theorem det_eq_prod_of_dependency {n : ℕ} (f : (Fin n → ℝ) → Fin n → ℝ) (x : Fin n → ℝ)
    (J : (Fin n → ℝ) →L[ℝ] (Fin n → ℝ)) (hJ : HasFDerivAt f J x)
    (hdep : ∀ i j : Fin n, i < j → ∀ t, f (Function.update x j t) i = f x i)
    (d : Fin n → ℝ) (hd : ∀ i, HasDerivAt (fun t => f (Function.update x i t) i) (d i) (x i)) :
    J.det = ∏ i, d i := by
  obtain ⟨_, h2, h3⟩ := det_lowerTriangular_of_dependency f x J hJ hdep
  rw [h3]
  exact Finset.prod_congr rfl (fun i _ => (h2 i).unique (hd i))

/-! ## lists ↔ `Fin n → ℝ` -/

theorem ofFn_update {n : ℕ} (v : Fin n → ℝ) (j : Fin n) (t : ℝ) :
    List.ofFn (Function.update v j t) = (List.ofFn v).set j t := by
  apply List.ext_getElem (by simp)
  intro k h1 h2
  simp only [List.length_ofFn] at h1
  simp only [List.getElem_ofFn, List.getElem_set]
  by_cases hk : (j : ℕ) = k
  · have : (⟨k, h1⟩ : Fin n) = j := Fin.ext hk.symm
    simp [hk, this]
  · have : (⟨k, h1⟩ : Fin n) ≠ j := fun h => hk (by rw [← h])
    simp [hk, Function.update_of_ne this]

theorem zipWith_eq_ofFn {β γ : Type} {n : ℕ} (g : β → ℝ → γ) (P : List β) (hP : P.length = n) (v : Fin n → ℝ) :
    List.zipWith g P (List.ofFn v) = List.ofFn (fun i : Fin n => g (P[i]'(by rw [hP]; exact i.2)) (v i)) := by
  apply List.ext_getElem (by simp [hP])
  intro k h1 h2
  simp

/-- a list-to-list map read in coordinates on vectors of length `n` -/
noncomputable def coords (n : ℕ) (F : List ℝ → List ℝ) (w : Fin n → ℝ) : Fin n → ℝ :=
  fun i => nth (F (List.ofFn w)) i

theorem list_sum_range (l : List ℝ) : l.sum = ∑ k ∈ Finset.range l.length, nth l k := by
  induction l with
  | nil => simp
  | cons a l ih =>
    rw [List.sum_cons, List.length_cons, Finset.sum_range_succ', ih]
    simp [nth, add_comm]

theorem log_abs_prod {ι : Type} (s : Finset ι) (d : ι → ℝ) (h : ∀ i ∈ s, d i ≠ 0) :
    Real.log |∏ i ∈ s, d i| = ∑ i ∈ s, Real.log |d i| := by
  rw [Finset.abs_prod, Real.log_prod (fun i hi => abs_ne_zero.mpr (h i hi))]

/-! ## MaskedAutoregressive -/
section maf
variable (N : MafNet ℝ)

theorem maf_coords_dep (hN : N.WellShaped) (T : List ℝ → ℝ → ℝ) (cond : List ℝ) (v : Fin N.dim → ℝ)
    (i j : Fin N.dim) (hij : i < j) (t : ℝ) :
    coords N.dim (fun x => N.transform T x cond) (Function.update v j t) i
      = coords N.dim (fun x => N.transform T x cond) v i := by
  unfold coords
  rw [ofFn_update]
  have := maf_transform_dep N hN T ((List.ofFn v).set j t) (List.ofFn v) cond (by simp) (by simp) i i.2 (by
    intro k h1 h2 hki
    rw [List.getElem_set_ne (by have : (i : ℕ) < j := hij; omega)])
  simp only [nth, this]

theorem maf_coords_slice (hN : N.WellShaped) (T : List ℝ → ℝ → ℝ) (cond : List ℝ) (v : Fin N.dim → ℝ)
    (i : Fin N.dim) (ps : List ℝ) (hps : (N.params (List.ofFn v) cond)[(i : ℕ)]? = some ps) (t : ℝ) :
    coords N.dim (fun x => N.transform T x cond) (Function.update v i t) i = T ps t := by
  unfold coords
  rw [ofFn_update]
  have hrow : (N.params ((List.ofFn v).set i t) cond)[(i : ℕ)]? = some ps := by
    rw [← hps]
    apply maf_params_dep N hN _ _ cond (by simp) (by simp) i i.2
    intro k h1 h2 hki
    rw [List.getElem_set_ne (by omega)]
  have hx : ((List.ofFn v).set i t)[(i : ℕ)]? = some t := by simp
  unfold MafNet.transform
  simp only [nth]
  rw [NetLawful.getElem?_zipWith' T _ _ i _ _ hrow hx]
  rfl

/-- **`maf_logdet`**: for every well-shaped masked network (all weights), transformer family and condition, at
every point where the forward map is Fréchet differentiable: the Jacobian determinant is the product of the scalar
transformer derivatives `T'ᵢ` (each taken with the parameters row `i` the network computes at that point), and the
log-det the layer returns — the SUM of the per-coordinate transformer log-dets — is `log |det J|`. -/
theorem maf_logdet (hN : N.WellShaped) (tf : List ℝ → Bij ℝ Unit ℝ) (cond : List ℝ) (v : Fin N.dim → ℝ)
    (J : (Fin N.dim → ℝ) →L[ℝ] (Fin N.dim → ℝ))
    (hJ : HasFDerivAt (coords N.dim fun x => (mafBij N tf).fwd x cond) J v)
    (d : Fin N.dim → ℝ)
    (hd : ∀ (i : Fin N.dim) (ps : List ℝ), (N.params (List.ofFn v) cond)[(i : ℕ)]? = some ps →
      HasDerivAt (fun t => (tf ps).fwd t ()) (d i) (v i) ∧ d i ≠ 0 ∧
        ((tf ps).fwdLd (v i) ()).2 = Real.log |d i|) :
    J.det = ∏ i, d i ∧ J.det ≠ 0 ∧ ((mafBij N tf).fwdLd (List.ofFn v) cond).2 = Real.log |J.det| := by
  have hP : (N.params (List.ofFn v) cond).length = N.dim := NetLawful.params_length N _ _
  have hrow : ∀ i : Fin N.dim, (N.params (List.ofFn v) cond)[(i : ℕ)]? =
      some ((N.params (List.ofFn v) cond)[(i : ℕ)]'(by rw [hP]; exact i.2)) :=
    fun i => List.getElem?_eq_getElem _
  have hdet : J.det = ∏ i, d i := by
    apply det_eq_prod_of_dependency _ v J hJ
    · intro i j hij t
      exact maf_coords_dep N hN _ cond v i j hij t
    · intro i
      obtain ⟨ps, hps⟩ : ∃ ps, (N.params (List.ofFn v) cond)[(i : ℕ)]? = some ps := ⟨_, hrow i⟩
      have e : (fun t => coords N.dim (fun x => (mafBij N tf).fwd x cond) (Function.update v i t) i)
          = fun t => (tf ps).fwd t () := by
        funext t
        exact maf_coords_slice N hN (fun ps t => (tf ps).fwd t ()) cond v i ps hps t
      rw [e]
      exact (hd i ps hps).1
  have hne : ∏ i, d i ≠ 0 := Finset.prod_ne_zero_iff.mpr (fun i _ => (hd i _ (hrow i)).2.1)
  refine ⟨hdet, by rw [hdet]; exact hne, ?_⟩
  rw [hdet, log_abs_prod _ _ (fun i _ => (hd i _ (hrow i)).2.1)]
  simp only [mafBij, vmapFwdLd]
  rw [List.zipWith_map_left, zipWith_eq_ofFn _ _ hP v, jsum_eq_sum, List.sum_ofFn]
  exact Finset.sum_congr rfl (fun i _ => (hd i _ (hrow i)).2.2)

end maf

/-! ## Coupling -/
section coupling

theorem coupling_out_first (d : ℕ) (cnd : List ℝ → List ℝ) (T : List ℝ → ℝ → ℝ) (x cond : List ℝ) (i : ℕ)
    (hi : i < d) : (couplingTransform d cnd T x cond)[i]? = x[i]? := by
  rw [← List.getElem?_take_of_lt hi, coupling_take, List.getElem?_take_of_lt hi]

theorem coupling_coords_dep (d n : ℕ) (cnd : List ℝ → List ℝ) (T : List ℝ → ℝ → ℝ) (cond : List ℝ)
    (v : Fin n → ℝ) (i j : Fin n) (hij : i < j) (t : ℝ) :
    coords n (fun x => couplingTransform d cnd T x cond) (Function.update v j t) i
      = coords n (fun x => couplingTransform d cnd T x cond) v i := by
  have hij' : (i : ℕ) < j := hij
  unfold coords
  rw [ofFn_update]
  simp only [nth]
  by_cases hid : (i : ℕ) < d
  · rw [coupling_out_first d cnd T _ cond i hid, coupling_out_first d cnd T _ cond i hid,
      List.getElem?_set_ne (by omega)]
  · obtain ⟨ps, h1, h2⟩ := coupling_getElem? d cnd T ((List.ofFn v).set j t) cond i (by omega) (by simp)
    obtain ⟨ps', h1', h2'⟩ := coupling_getElem? d cnd T (List.ofFn v) cond i (by omega) (by simp)
    rw [List.take_set_of_le (by omega)] at h1
    simp only [List.length_set] at h1
    rw [h1'] at h1
    rw [h2, h2', Option.some.inj h1, List.getElem_set_ne (by omega)]

theorem coupling_coords_slice_first (d n : ℕ) (cnd : List ℝ → List ℝ) (T : List ℝ → ℝ → ℝ) (cond : List ℝ)
    (v : Fin n → ℝ) (i : Fin n) (hid : (i : ℕ) < d) (t : ℝ) :
    coords n (fun x => couplingTransform d cnd T x cond) (Function.update v i t) i = t := by
  unfold coords
  rw [ofFn_update]
  simp only [nth]
  rw [coupling_out_first d cnd T _ cond i hid]
  simp

theorem coupling_coords_slice (d n : ℕ) (cnd : List ℝ → List ℝ) (T : List ℝ → ℝ → ℝ) (cond : List ℝ)
    (v : Fin n → ℝ) (i : Fin n) (hid : d ≤ (i : ℕ)) (ps : List ℝ)
    (hps : (reshapeRows (n - d) (cnd ((List.ofFn v).take d ++ cond)))[(i : ℕ) - d]? = some ps) (t : ℝ) :
    coords n (fun x => couplingTransform d cnd T x cond) (Function.update v i t) i = T ps t := by
  unfold coords
  rw [ofFn_update]
  obtain ⟨ps', h1, h2⟩ := coupling_getElem? d cnd T ((List.ofFn v).set i t) cond i hid (by simp)
  rw [List.take_set_of_le hid] at h1
  simp only [List.length_set, List.length_ofFn] at h1
  rw [hps] at h1
  have : ps' = ps := (Option.some.inj h1).symm
  subst this
  simp only [nth, h2]
  simp

/-- **`coupling_logdet`**: for EVERY conditioner function, first-block size `d ≤ n`, transformer family and condition,
at every point where the forward map is Fréchet differentiable: the Jacobian is block lower triangular
`[[I, 0], [*, diag T'ᵢ]]`, so `det J = ∏_{i ≥ d} T'ᵢ`, and the log-det the layer returns (the SUM of the
per-coordinate transformer log-dets) is `log |det J|`.  `dT i` is the derivative of the scalar transformer of
coordinate `i ≥ d` (with the parameters row `i - d` computed from the first block) at `v i`. -/
theorem coupling_logdet (d n : ℕ) (hdn : d ≤ n) (cnd : List ℝ → List ℝ) (tf : List ℝ → Bij ℝ Unit ℝ) (cond : List ℝ)
    (v : Fin n → ℝ) (J : (Fin n → ℝ) →L[ℝ] (Fin n → ℝ))
    (hJ : HasFDerivAt (coords n fun x => (couplingBij d cnd tf).fwd x cond) J v)
    (dT : ℕ → ℝ)
    (hd : ∀ (i : Fin n), d ≤ (i : ℕ) → ∀ ps : List ℝ,
      (reshapeRows (n - d) (cnd ((List.ofFn v).take d ++ cond)))[(i : ℕ) - d]? = some ps →
      HasDerivAt (fun t => (tf ps).fwd t ()) (dT i) (v i) ∧ dT i ≠ 0 ∧
        ((tf ps).fwdLd (v i) ()).2 = Real.log |dT i|) :
    J.det = ∏ i : Fin n, (if (i : ℕ) < d then 1 else dT i) ∧ J.det ≠ 0 ∧
      ((couplingBij d cnd tf).fwdLd (List.ofFn v) cond).2 = Real.log |J.det| := by
  set rows := reshapeRows (n - d) (cnd ((List.ofFn v).take d ++ cond)) with hrows
  have hR : rows.length = n - d := reshapeRows_length _ _
  have hrow : ∀ i : Fin n, d ≤ (i : ℕ) → ∃ ps, rows[(i : ℕ) - d]? = some ps := fun i hi =>
    ⟨rows[(i : ℕ) - d]'(by rw [hR]; have := i.2; omega), List.getElem?_eq_getElem _⟩
  have hdet : J.det = ∏ i : Fin n, (if (i : ℕ) < d then 1 else dT i) := by
    apply det_eq_prod_of_dependency _ v J hJ
    · intro i j hij t
      exact coupling_coords_dep d n cnd _ cond v i j hij t
    · intro i
      by_cases hid : (i : ℕ) < d
      · have e : (fun t => coords n (fun x => (couplingBij d cnd tf).fwd x cond) (Function.update v i t) i)
            = fun t => t := by
          funext t
          exact coupling_coords_slice_first d n cnd _ cond v i hid t
        rw [e, if_pos hid]; exact hasDerivAt_id _
      · obtain ⟨ps, hps⟩ := hrow i (by omega)
        have e : (fun t => coords n (fun x => (couplingBij d cnd tf).fwd x cond) (Function.update v i t) i)
            = fun t => (tf ps).fwd t () := by
          funext t
          exact coupling_coords_slice d n cnd (fun ps t => (tf ps).fwd t ()) cond v i (by omega) ps hps t
        rw [e, if_neg hid]
        exact (hd i (by omega) ps hps).1
  have hne : ∀ i : Fin n, (if (i : ℕ) < d then 1 else dT i) ≠ 0 := by
    intro i
    split
    · exact one_ne_zero
    · rename_i hid
      obtain ⟨ps, hps⟩ := hrow i (by omega)
      exact (hd i (by omega) ps hps).2.1
  refine ⟨hdet, by rw [hdet]; exact Finset.prod_ne_zero_iff.mpr (fun i _ => hne i), ?_⟩
  rw [hdet, log_abs_prod _ _ (fun i _ => hne i)]
  -- the returned value: a sum over the `n - d` transformed coordinates
  have hret : ((couplingBij d cnd tf).fwdLd (List.ofFn v) cond).2
      = ∑ k ∈ Finset.range (n - d), nth (List.zipWith (fun ps t => ((tf ps).fwdLd t ()).2) rows ((List.ofFn v).drop d)) k := by
    simp only [couplingBij, vmapFwdLd, List.length_ofFn]
    rw [List.zipWith_map_left, jsum_eq_sum, list_sum_range]
    congr 1
    simp [reshapeRows_length]
  rw [hret]
  -- the right-hand side: the first `d` terms are `log 1`
  have hsplit : ∑ i : Fin n, Real.log |if (i : ℕ) < d then (1 : ℝ) else dT i|
      = ∑ k ∈ Finset.range (n - d), Real.log |dT (d + k)| := by
    rw [Fin.sum_univ_eq_sum_range (fun k => Real.log |if k < d then (1 : ℝ) else dT k|) n]
    have hn : n = d + (n - d) := by omega
    conv_lhs => rw [hn]
    rw [Finset.sum_range_add]
    have h0 : ∑ x ∈ Finset.range d, Real.log |if x < d then (1 : ℝ) else dT x| = 0 := by
      apply Finset.sum_eq_zero
      intro k hk
      rw [if_pos (Finset.mem_range.mp hk)]; simp
    rw [h0, zero_add]
    apply Finset.sum_congr rfl
    intro k _
    rw [if_neg (by omega)]
  rw [hsplit]
  apply Finset.sum_congr rfl
  intro k hk
  have hk' : k < n - d := Finset.mem_range.mp hk
  have hi : d + k < n := by omega
  obtain ⟨ps, hps⟩ := hrow ⟨d + k, hi⟩ (by simp)
  have hps' : rows[k]? = some ps := by simpa using hps
  have hx : ((List.ofFn v).drop d)[k]? = some (v ⟨d + k, hi⟩) := by
    rw [List.getElem?_drop]; simp [hi]
  simp only [nth]
  rw [NetLawful.getElem?_zipWith' _ _ _ k _ _ hps' hx]
  exact (hd ⟨d + k, hi⟩ (by simp) ps hps).2.2

end coupling

/-! ## BlockAutoregressiveNetwork -/
section bnaf

/-- **`bnaf_det`**: wherever `BlockAutoregressiveNetwork.transform` is Fréchet differentiable, its Jacobian matrix is
lower triangular with the strictly positive diagonal of `bnaf_jacobian`; hence `det J = ∏ᵢ ∂yᵢ/∂xᵢ > 0` and
`log |det J| = Σᵢ log (∂yᵢ/∂xᵢ)`. -/
theorem bnaf_det (act : ℝ → ℝ) (hact : ∀ z, DifferentiableAt ℝ act z ∧ 0 < deriv act z)
    {dim depth bd : ℕ} {Ls : List (BnafLayer ℝ)} {condLinear : Option (List (List ℝ))}
    (hok : NetLawful.BnafOK dim depth bd Ls condLinear) (cond : List ℝ) (v : Fin dim → ℝ)
    (J : (Fin dim → ℝ) →L[ℝ] (Fin dim → ℝ))
    (hJ : HasFDerivAt (coords dim fun x => bnafTransform act Ls condLinear x cond) J v) :
    ∃ d : Fin dim → ℝ,
      (∀ i, 0 < d i ∧
        HasDerivAt (fun t => nth (bnafTransform act Ls condLinear ((List.ofFn v).set i t) cond) i) (d i) (v i)) ∧
      (∀ i j : Fin dim, i < j → J (Pi.single j 1) i = 0) ∧
      J.det = ∏ i, d i ∧ 0 < J.det ∧ Real.log |J.det| = ∑ i, Real.log (d i) := by
  have hpart := fun i : Fin dim => bnaf_partials act hact dim depth bd hok.hbd Ls hok.hshapes hok.hws condLinear cond
    hok.hcl (List.ofFn v) (by simp) i i.2
  choose d hd using fun i : Fin dim => (hpart i).2 (v i)
  have hdep : ∀ i j : Fin dim, i < j → ∀ t,
      coords dim (fun x => bnafTransform act Ls condLinear x cond) (Function.update v j t) i
        = coords dim (fun x => bnafTransform act Ls condLinear x cond) v i := by
    intro i j hij t
    unfold coords
    rw [ofFn_update]
    exact (hpart i).1 j hij t
  obtain ⟨hz, _, _⟩ := det_lowerTriangular_of_dependency _ v J hJ hdep
  have hdet : J.det = ∏ i, d i := by
    apply det_eq_prod_of_dependency _ v J hJ hdep
    intro i
    have e : (fun t => coords dim (fun x => bnafTransform act Ls condLinear x cond) (Function.update v i t) i)
        = fun t => nth (bnafTransform act Ls condLinear ((List.ofFn v).set i t) cond) i := by
      funext t; unfold coords; rw [ofFn_update]
    rw [e]; exact (hd i).2
  have hpos : 0 < ∏ i, d i := Finset.prod_pos (fun i _ => (hd i).1)
  refine ⟨d, fun i => hd i, hz, hdet, by rw [hdet]; exact hpos, ?_⟩
  rw [hdet, log_abs_prod _ _ (fun i _ => (hd i).1.ne')]
  exact Finset.sum_congr rfl (fun i _ => by rw [abs_of_pos (hd i).1])

end bnaf

/-! ## BlockAutoregressiveNetwork is differentiable wherever the activation is -/
section bnafDiff

/-- a list-valued map of `w ∈ ℝⁿ` with `m` differentiable coordinates -/
structure DiffInv {n : ℕ} (m : ℕ) (g : (Fin n → ℝ) → List ℝ) (v : Fin n → ℝ) : Prop where
  len : ∀ w, (g w).length = m
  diff : ∀ c, c < m → DifferentiableAt ℝ (fun w => nth (g w) c) v

theorem diffInv_linear {n : ℕ} (W : List (List ℝ)) (b : List ℝ) (rows cols : ℕ) (hW : HasShape W rows cols)
    (hb : b.length = rows) (g : (Fin n → ℝ) → List ℝ) (v : Fin n → ℝ) (hg : DiffInv cols g v) :
    DiffInv rows (fun w => linearApply W b (g w)) v := by
  refine ⟨fun w => by simp [linearApply_length, hW.1, hb], ?_⟩
  intro u hu
  have huW : u < W.length := by rw [hW.1]; exact hu
  have hub : u < b.length := by rw [hb]; exact hu
  have hrow : W[u].length = cols := hW.2 _ (List.getElem_mem huW)
  have hfun : (fun w => nth (linearApply W b (g w)) u)
      = fun w => (∑ c ∈ Finset.range cols, nth W[u] c * nth (g w) c) + b[u] := by
    funext w
    rw [nth_linearApply _ _ _ u huW hub, hrow]
  rw [hfun]
  apply DifferentiableAt.add_const
  apply DifferentiableAt.fun_sum
  intro c hc
  exact (hg.diff c (Finset.mem_range.mp hc)).const_mul _

theorem diffInv_map {n : ℕ} (act : ℝ → ℝ) (hact : ∀ z, DifferentiableAt ℝ act z) (m : ℕ)
    (g : (Fin n → ℝ) → List ℝ) (v : Fin n → ℝ) (hg : DiffInv m g v) : DiffInv m (fun w => (g w).map act) v := by
  refine ⟨fun w => by simp [hg.len], ?_⟩
  intro c hc
  have hfun : (fun w => nth ((g w).map act) c) = fun w => act (nth (g w) c) := by
    funext w
    rw [nth_of_lt (by simp [hg.len, hc]), nth_of_lt (by rw [hg.len]; exact hc)]; simp
  rw [hfun]
  exact (hact _).comp v (hg.diff c hc)

theorem diffInv_add {n : ℕ} (cterm : List ℝ) (m : ℕ) (hc : cterm.length = m) (g : (Fin n → ℝ) → List ℝ)
    (v : Fin n → ℝ) (hg : DiffInv m g v) : DiffInv m (fun w => List.zipWith (· + ·) (g w) cterm) v := by
  refine ⟨fun w => by simp [hg.len, hc], ?_⟩
  intro c hcm
  have hfun : (fun w => nth (List.zipWith (· + ·) (g w) cterm) c) = fun w => nth (g w) c + nth cterm c := by
    funext w
    rw [nth_of_lt (by simp [hg.len, hc, hcm]), nth_of_lt (by rw [hg.len]; exact hcm), nth_of_lt (by rw [hc]; exact hcm)]
    simp
  rw [hfun]
  exact (hg.diff c hcm).add_const _

theorem bnafChain_diff {bin bout : ℕ} {Ls : List (BnafLayer ℝ)} (h : BnafChain bin Ls bout) (act : ℝ → ℝ)
    (hact : ∀ z, DifferentiableAt ℝ act z) (dim : ℕ) {n : ℕ} (v : Fin n → ℝ) :
    (∀ L ∈ Ls, BnafWellShaped L ∧ L.n = dim) →
    ∀ (first : Bool) (condTerm : Option (List ℝ)),
      (first = true → ∀ L ∈ Ls.head?, ∀ c ∈ condTerm, c.length = L.b0 * dim) →
      ∀ (g : (Fin n → ℝ) → List ℝ), DiffInv (bin * dim) g v →
        DiffInv (bout * dim) (fun w => bnafForward act first condTerm Ls (g w)) v := by
  induction h with
  | last L =>
    intro hall first condTerm _ g hg
    obtain ⟨hL, hn⟩ := hall L (by simp)
    have hsh := unwrapW_shape L hL
    rw [hn] at hsh
    have := diffInv_linear L.unwrapW L.bias _ _ hsh (by rw [hL.2.1, hn]) g v hg
    simpa only [bnafForward, BnafLayer.apply] using this
  | cons L rest bout hrest ih =>
    intro hall first condTerm hcond g hg
    obtain ⟨hL, hn⟩ := hall L (by simp)
    obtain ⟨L', Ls', rfl⟩ := List.exists_cons_of_ne_nil hrest.ne_nil
    have hsh := unwrapW_shape L hL
    rw [hn] at hsh
    have h1 : DiffInv (L.b0 * dim) (fun w => L.apply (g w)) v :=
      diffInv_linear L.unwrapW L.bias _ _ hsh (by rw [hL.2.1, hn]) g v hg
    have hall' : ∀ M ∈ L' :: Ls', BnafWellShaped M ∧ M.n = dim := fun M hM => hall M (List.mem_cons_of_mem _ hM)
    simp only [bnafForward]
    apply ih hall' false condTerm (by intro hf; cases hf)
    apply diffInv_map act hact
    cases first with
    | false => exact h1
    | true =>
      cases condTerm with
      | none => exact h1
      | some c =>
        have hc : c.length = L.b0 * dim := hcond rfl L (by simp) c (by simp)
        exact diffInv_add c (L.b0 * dim) hc _ v h1

/-- **the BNAF forward map is Fréchet differentiable at every point** when the activation is differentiable —
all well-shaped raw weights / biases / raw scales, every depth, block_dim, condition -/
theorem bnaf_differentiable (act : ℝ → ℝ) (hact : ∀ z, DifferentiableAt ℝ act z)
    {dim depth bd : ℕ} {Ls : List (BnafLayer ℝ)} {condLinear : Option (List (List ℝ))}
    (hok : NetLawful.BnafOK dim depth bd Ls condLinear) (cond : List ℝ) (v : Fin dim → ℝ) :
    DifferentiableAt ℝ (coords dim fun x => bnafTransform act Ls condLinear x cond) v := by
  have hchain := bnafChain_of_shapes depth bd Ls hok.hshapes
  have hg0 : DiffInv (1 * dim) (fun w : Fin dim → ℝ => List.ofFn w) v := by
    refine ⟨fun w => by simp, ?_⟩
    intro c hc
    have hc' : c < dim := by omega
    have hfun : (fun w : Fin dim → ℝ => nth (List.ofFn w) c) = fun w => w ⟨c, hc'⟩ := by
      funext w; simp [nth, hc']
    rw [hfun]
    exact differentiableAt_apply (𝕜 := ℝ) (F' := fun _ : Fin dim => ℝ) ⟨c, hc'⟩ v
  have hcond : (true = true → ∀ L ∈ Ls.head?, ∀ c ∈ (condLinear.map fun C => C.map fun row => Jnp.dot row cond),
      c.length = L.b0 * dim) := by
    intro _ L hL c hc
    simp only [Option.mem_def, Option.map_eq_some_iff] at hc
    obtain ⟨C, hC, rfl⟩ := hc
    simp only [List.length_map]
    exact hok.hcl C hC L hL
  have hout := bnafChain_diff hchain act hact dim v hok.hws true _ hcond _ hg0
  rw [differentiableAt_pi]
  intro i
  have := hout.diff i (by have := i.2; omega)
  exact this

/-- `bnaf_det` with the differentiability hypothesis discharged: `J` is THE derivative -/
theorem bnaf_det' (act : ℝ → ℝ) (hact : ∀ z, DifferentiableAt ℝ act z ∧ 0 < deriv act z)
    {dim depth bd : ℕ} {Ls : List (BnafLayer ℝ)} {condLinear : Option (List (List ℝ))}
    (hok : NetLawful.BnafOK dim depth bd Ls condLinear) (cond : List ℝ) (v : Fin dim → ℝ) :
    ∃ (J : (Fin dim → ℝ) →L[ℝ] (Fin dim → ℝ)) (d : Fin dim → ℝ),
      HasFDerivAt (coords dim fun x => bnafTransform act Ls condLinear x cond) J v ∧
      (∀ i, 0 < d i ∧
        HasDerivAt (fun t => nth (bnafTransform act Ls condLinear ((List.ofFn v).set i t) cond) i) (d i) (v i)) ∧
      (∀ i j : Fin dim, i < j → J (Pi.single j 1) i = 0) ∧
      J.det = ∏ i, d i ∧ 0 < J.det ∧ Real.log |J.det| = ∑ i, Real.log (d i) := by
  have hJ := (bnaf_differentiable act (fun z => (hact z).1) hok cond v).hasFDerivAt
  obtain ⟨d, h1, h2, h3, h4, h5⟩ := bnaf_det act hact hok cond v _ hJ
  exact ⟨_, d, hJ, h1, h2, h3, h4, h5⟩

end bnafDiff

/-! ## affine coupling: everything from a differentiable conditioner -/
section affineCoupling
open Gen

/-- the scalar transformer family: the generated `Affine` with location and scale computed from the parameter row -/
noncomputable def affineFamily (loc scale : List ℝ → ℝ) (ps : List ℝ) : Bij ℝ Unit ℝ :=
  (Affine.mk (loc ps) (scale ps)).toBij

/-- swap the two directions of a scalar bijection -/
def swapBij (b : Bij ℝ Unit ℝ) : Bij ℝ Unit ℝ := ⟨b.inv, b.fwd, b.invLd, b.fwdLd⟩

/-- row `k` of the reshaped conditioner output at the point `w` (a function of the first block and the condition) -/
noncomputable def rowAt (d n : ℕ) (cnd : List ℝ → List ℝ) (c : List ℝ) (w : Fin n → ℝ) (k : ℕ) : List ℝ :=
  (reshapeRows (n - d) (cnd ((List.ofFn w).take d ++ c))).getD k []

/-- the conditioner is differentiable: location and scale of every transformed coordinate are differentiable in `w` -/
def CondDiff (d n : ℕ) (cnd : List ℝ → List ℝ) (loc scale : List ℝ → ℝ) (c : List ℝ) : Prop :=
  ∀ k, k < n - d → Differentiable ℝ (fun w : Fin n → ℝ => loc (rowAt d n cnd c w k)) ∧
    Differentiable ℝ (fun w : Fin n → ℝ => scale (rowAt d n cnd c w k))

theorem rowAt_spec (d n : ℕ) (cnd : List ℝ → List ℝ) (c : List ℝ) (w : Fin n → ℝ) (k : ℕ) (hk : k < n - d) :
    (reshapeRows (n - d) (cnd ((List.ofFn w).take d ++ c)))[k]? = some (rowAt d n cnd c w k) := by
  have : k < (reshapeRows (n - d) (cnd ((List.ofFn w).take d ++ c))).length := by
    rw [reshapeRows_length]; exact hk
  simp [rowAt, List.getD_eq_getElem?_getD, this]

/-- the forward pass of the affine coupling layer in coordinates -/
theorem coupling_affine_fwd_apply (d n : ℕ) (cnd : List ℝ → List ℝ) (loc scale : List ℝ → ℝ) (c : List ℝ)
    (w : Fin n → ℝ) (i : Fin n) :
    coords n (fun x => (couplingBij d cnd (affineFamily loc scale)).fwd x c) w i =
      if (i : ℕ) < d then w i
      else w i * scale (rowAt d n cnd c w (i - d)) + loc (rowAt d n cnd c w (i - d)) := by
  show nth (couplingTransform d cnd (fun ps t => (affineFamily loc scale ps).fwd t ()) (List.ofFn w) c) i = _
  split
  · rename_i hid
    simp only [nth]
    rw [coupling_out_first d cnd _ _ c i hid]
    simp
  · rename_i hid
    obtain ⟨ps, h1, h2⟩ := coupling_getElem? d cnd (fun ps t => (affineFamily loc scale ps).fwd t ())
      (List.ofFn w) c i (by omega) (by simp)
    simp only [List.length_ofFn] at h1
    rw [rowAt_spec d n cnd c w (i - d) (by have := i.2; omega)] at h1
    have : ps = rowAt d n cnd c w (i - d) := (Option.some.inj h1).symm
    subst this
    simp only [nth, h2]
    simp [affineFamily, Affine.toBij, Affine.transform] <;> ring

theorem coupling_affine_fwd_differentiable (d n : ℕ) (cnd : List ℝ → List ℝ) (loc scale : List ℝ → ℝ) (c : List ℝ)
    (hc : CondDiff d n cnd loc scale c) :
    Differentiable ℝ (coords n fun x => (couplingBij d cnd (affineFamily loc scale)).fwd x c) := by
  rw [differentiable_pi]
  intro i
  have e : (fun w => coords n (fun x => (couplingBij d cnd (affineFamily loc scale)).fwd x c) w i)
      = fun w : Fin n → ℝ => if (i : ℕ) < d then w i
          else w i * scale (rowAt d n cnd c w (i - d)) + loc (rowAt d n cnd c w (i - d)) := by
    funext w; exact coupling_affine_fwd_apply d n cnd loc scale c w i
  rw [e]
  by_cases hid : (i : ℕ) < d
  · simp only [if_pos hid]; exact differentiable_apply i
  · simp only [if_neg hid]
    obtain ⟨hm, hsd⟩ := hc (i - d) (by have := i.2; omega)
    exact ((differentiable_apply (𝕜 := ℝ) (F' := fun _ : Fin n => ℝ) i).fun_mul hsd).fun_add hm

/-- **affine coupling, no Jacobian hypothesis**: for any conditioner whose location / scale outputs are differentiable,
any split `d ≤ n`, condition and non-vanishing scale, at EVERY point `v`: the Fréchet derivative `J` of the forward map
exists, `det J = ∏_{i ≥ d} scaleᵢ(v) ≠ 0`, and the returned log-det is `log |det J|` -/
theorem coupling_affine_logdet (d n : ℕ) (hdn : d ≤ n) (cnd : List ℝ → List ℝ) (loc scale : List ℝ → ℝ)
    (hs : ∀ ps, scale ps ≠ 0) (c : List ℝ) (hc : CondDiff d n cnd loc scale c) (v : Fin n → ℝ) :
    ∃ J : (Fin n → ℝ) →L[ℝ] (Fin n → ℝ),
      HasFDerivAt (coords n fun x => (couplingBij d cnd (affineFamily loc scale)).fwd x c) J v ∧
      J.det = ∏ i : Fin n, (if (i : ℕ) < d then 1 else scale (rowAt d n cnd c v (i - d))) ∧ J.det ≠ 0 ∧
      ((couplingBij d cnd (affineFamily loc scale)).fwdLd (List.ofFn v) c).2 = Real.log |J.det| := by
  have hJ := ((coupling_affine_fwd_differentiable d n cnd loc scale c hc) v).hasFDerivAt
  obtain ⟨h1, h2, h3⟩ := coupling_logdet d n hdn cnd (affineFamily loc scale) c v _ hJ
    (fun i => scale (rowAt d n cnd c v (i - d))) (by
      intro i hid ps hps
      rw [rowAt_spec d n cnd c v (i - d) (by have := i.2; omega)] at hps
      have : ps = rowAt d n cnd c v (i - d) := (Option.some.inj hps).symm
      subst this
      exact LogDet.affine_ld (C := Unit) (Affine.mk (loc _) (scale _)) (hs _) (v i) trivial ())
  exact ⟨_, hJ, h1, h2, h3⟩

end affineCoupling

/-! ## the log-det returned with the inverse is minus the forward one at the preimage -/
section antisym

theorem sum_zipWith_neg (f g T : List ℝ → ℝ → ℝ) (S : Set ℝ) (h : ∀ ps, ∀ t ∈ S, g ps (T ps t) = -f ps t) :
    ∀ (rows : List (List ℝ)) (xs : List ℝ), (∀ t ∈ xs, t ∈ S) →
      (List.zipWith g rows (List.zipWith T rows xs)).sum = -(List.zipWith f rows xs).sum := by
  intro rows
  induction rows with
  | nil => intro xs _; simp
  | cons p rows ih =>
    intro xs hS
    cases xs with
    | nil => simp
    | cons t xs =>
      simp only [List.zipWith_cons_cons, List.sum_cons]
      rw [h p t (hS t (by simp)), ih xs (fun t' ht' => hS t' (by simp [ht']))]
      ring

/-- Coupling: `inverse_and_log_det(transform(x))[1] = -transform_and_log_det(x)[1]` whenever every scalar transformer
has that property on `D₁` -/
theorem coupling_ld_antisym (d : ℕ) (cnd : List ℝ → List ℝ) (tf : List ℝ → Bij ℝ Unit ℝ) (D₁ : Set ℝ)
    (htf : ∀ ps, (tf ps).LdAntisym D₁) :
    (couplingBij d cnd tf).LdAntisym {x | ∀ t ∈ x.drop d, t ∈ D₁} := by
  intro x hx c
  show Jnp.sum (List.zipWith (fun (b : Bij ℝ Unit ℝ) t => (b.invLd t ()).2)
        ((reshapeRows ((couplingTransform d cnd (fun ps t => (tf ps).fwd t ()) x c).length - d)
          (cnd ((couplingTransform d cnd (fun ps t => (tf ps).fwd t ()) x c).take d ++ c))).map tf)
        ((couplingTransform d cnd (fun ps t => (tf ps).fwd t ()) x c).drop d))
      = -Jnp.sum (List.zipWith (fun (b : Bij ℝ Unit ℝ) t => (b.fwdLd t ()).2)
        ((reshapeRows (x.length - d) (cnd (x.take d ++ c))).map tf) (x.drop d))
  rw [NetLawful.coupling_length', coupling_take, NetLawful.coupling_drop, List.zipWith_map_left,
    List.zipWith_map_left, jsum_eq_sum, jsum_eq_sum]
  exact sum_zipWith_neg (fun ps t => ((tf ps).fwdLd t ()).2) (fun ps t => ((tf ps).invLd t ()).2)
    (fun ps t => (tf ps).fwd t ()) D₁ (fun ps t ht => htf ps t ht ()) _ _ hx

/-- MAF: `inverse_and_log_det` IS `x = inverse(y); (x, -transform_and_log_det(x)[1])`, so antisymmetry is the left
inverse law -/
theorem maf_ld_antisym (N : MafNet ℝ) (hN : N.WellShaped) (tf : List ℝ → Bij ℝ Unit ℝ) (D₁ E₁ : Set ℝ)
    (htf : ∀ ps, (tf ps).Lawful D₁ E₁) :
    (mafBij N tf).LdAntisym {x | x.length = N.dim ∧ ∀ t ∈ x, t ∈ D₁} := by
  intro x hx c
  have hl := (NetLawful.maf_lawful N hN tf D₁ E₁ htf).left x hx c
  have e : ((mafBij N tf).invLd ((mafBij N tf).fwd x c) c).2
      = -((mafBij N tf).fwdLd ((mafBij N tf).inv ((mafBij N tf).fwd x c) c) c).2 := rfl
  rw [e, hl]

end antisym

theorem exampleFamily_ld (ps : List ℝ) (t : ℝ) :
    HasDerivAt (fun t => (NetLawful.exampleFamily ps).fwd t ()) 2 t ∧ (2 : ℝ) ≠ 0 ∧
      ((NetLawful.exampleFamily ps).fwdLd t ()).2 = Real.log |(2 : ℝ)| :=
  LogDet.affine_ld (C := Unit) (Gen.Affine.mk (ps.getD 0 0) 2) (by norm_num) t trivial ()

end NetLogDet
