import Flowjaxv.Proofs.Families
import Flowjaxv.Proofs.Triangular
import Mathlib.LinearAlgebra.Matrix.NonsingularInverse
import Flowjaxv.Proofs.Mass
/-!
# MultivariateNormal (C05): `Families.mvn` over ℝ

`Families.mvn loc L` is the GENERATED `Transformed._log_prob/_sample/_sample_and_log_prob` over
`StandardNormal((n,))` and the hand model of `TriangularAffine(loc, L)` as its constructor builds it
(`Tri.init`: `_to_triangular(softplus(softplus⁻¹(diag L)), L)`).  `L` stands for
`linalg.cholesky(covariance)`: square, lower triangular, positive diagonal (`CholFactor n L`).
-/
open Gen RealInst VecLd Matrix Families

namespace MvnPf
open TriPf

/-- what `jnp.linalg.cholesky` returns for a positive-definite matrix: `n × n`, zero above the diagonal,
positive on it -/
structure CholFactor (n : ℕ) (L : List (List ℝ)) : Prop where
  sq : Square n L
  zero : ∀ i j, i < j → j < n → entry L i j = 0
  diag_pos : ∀ i, i < n → 0 < entry L i i

theorem CholFactor.lowerTri {n : ℕ} {L : List (List ℝ)} (h : CholFactor n L) : LowerTri n L :=
  ⟨h.sq, h.zero, fun i hi => (h.diag_pos i hi).ne'⟩

theorem entry_of_getElem? {L : List (List ℝ)} {i j : ℕ} {row : List ℝ} {a : ℝ}
    (h1 : L[i]? = some row) (h2 : row[j]? = some a) : entry L i j = a := by
  simp [entry, List.getD_eq_getElem?_getD, h1, h2]

/-- the constructor accepts a Cholesky factor and stores (after `unwrap`) exactly it -/
theorem triInit_chol {n : ℕ} {L : List (List ℝ)} (h : CholFactor n L) :
    Params.triangularInit true L = some L := by
  obtain ⟨⟨hlen, hrow⟩, hz, hp⟩ := h
  apply ParamsPf.triangularInit_lower L (fun r hr => by rw [hrow r hr, hlen])
  · intro i j row a h1 h2 hij
    have hr : row.length = n := hrow row (List.mem_of_getElem? h1)
    have hj : j < n := by rw [← hr]; exact (List.getElem?_eq_some_iff.mp h2).1
    rw [← entry_of_getElem? h1 h2]; exact hz i j hij hj
  · intro i row d h1 h2
    have hi : i < n := by rw [← hlen]; exact (List.getElem?_eq_some_iff.mp h1).1
    rw [← entry_of_getElem? h1 h2]; exact hp i hi

theorem broadcastLoc_of_length {n : ℕ} {loc : List ℝ} (h : loc.length = n) : broadcastLoc loc n = loc := by
  unfold broadcastLoc
  split
  · simp at h; subst h; rfl
  · rfl

theorem broadcastLoc_single (l : ℝ) (n : ℕ) : broadcastLoc [l] n = List.replicate n l := rfl

/-- **the constructor path**: for a Cholesky factor `L` and `loc` of `n` entries, the unwrapped bijection is
`TriangularAffine` with `triangular = L` exactly and `loc = loc` -/
theorem mvnBijection_chol {n : ℕ} {L : List (List ℝ)} (h : CholFactor n L) {loc : List ℝ} (hl : loc.length = n) :
    mvnBijection loc L = some { triangular := L, loc := loc, lower := true } := by
  have hlen : L.length = n := h.sq.1
  simp only [mvnBijection, hlen, broadcastLoc_of_length hl, Tri.init, triInit_chol h, hl,
    bne_self_eq_false, Bool.false_eq_true, if_false, Option.map_some]

/-- … and a one-entry `loc` (scalar or shape `(1,)`) is broadcast to every dimension -/
theorem mvnBijection_chol_scalar {n : ℕ} {L : List (List ℝ)} (h : CholFactor n L) (l : ℝ) :
    mvnBijection [l] L = some { triangular := L, loc := List.replicate n l, lower := true } := by
  have hlen : L.length = n := h.sq.1
  simp only [mvnBijection, broadcastLoc_single, Tri.init, triInit_chol h, hlen, List.length_replicate,
    bne_self_eq_false, Bool.false_eq_true, if_false, Option.map_some]

/-- **every trained value**: whatever the raw (trainable) diagonal parameters and the stored array are (any reals),
the unwrapped `triangular` of `TriangularAffine(lower=True)` — `_to_triangular(softplus raw, arr)` — is a Cholesky
factor: the strictly-upper part of `arr` is ignored and the diagonal is `softplus rawᵢ > 0` -/
theorem cholFactor_ofRaw {n : ℕ} (raw : List ℝ) (arr : List (List ℝ)) (hsq : Square n arr) (hr : raw.length = n) :
    CholFactor n (Params.triangularOfRaw true raw arr) := by
  have hwf := ofRaw_wf true raw arr (List.replicate n 0) hsq hr (by simp)
  obtain ⟨_, htri⟩ := hwf
  simp only [Tri.ofRaw, if_true] at htri
  refine ⟨htri.sq, htri.zero, ?_⟩
  intro i hi
  have hd : (raw.map (fun r => (Params.softplusRaw r).unwrap)).length = n := by simpa using hr
  show 0 < entry (Params.toTriangular true (raw.map (fun r => (Params.softplusRaw r).unwrap)) arr) i i
  rw [entry_toTriangular true _ arr hsq hd hi hi]
  have hpos : 0 < (raw.map (fun r => (Params.softplusRaw r).unwrap)).getD i 0 := by
    rw [List.getD_eq_getElem?_getD, List.getElem?_eq_getElem (by omega)]
    simp only [List.getElem_map, Option.getD_some]
    exact ParamsPf.softplusRaw_pos _
  simpa using hpos

/-! ### the standard normal of shape `(n,)` -/

theorem zipWith_replicate_apply {β γ : Type} (f : β) (g : β → ℝ → γ) :
    ∀ (n : ℕ) (z : List ℝ), z.length = n → List.zipWith g (List.replicate n f) z = z.map (g f)
  | 0, z, h => by rw [List.length_eq_zero_iff.mp h]; rfl
  | n + 1, z, h => by
    obtain ⟨a, z, rfl⟩ := List.exists_cons_of_length_eq_add_one h
    simp only [List.replicate_succ, List.zipWith_cons_cons, List.map_cons]
    rw [zipWith_replicate_apply f g n z (by simpa using h)]

theorem sum_map_normLp (z : List ℝ) :
    (z.map (fun t => StandardNormal.logProb t)).sum
      = -(z.length : ℝ) / 2 * Real.log (2 * Real.pi) - 1 / 2 * (z.map (fun t => t ^ 2)).sum := by
  have hs : Real.log (Real.sqrt (2 * Real.pi)) = Real.log (2 * Real.pi) / 2 := Real.log_sqrt (by positivity)
  induction z with
  | nil => simp
  | cons a z ih =>
    simp only [List.map_cons, List.sum_cons, ih, List.length_cons, Nat.cast_add, Nat.cast_one]
    simp only [StandardNormal.logProb, Stats.normLogpdf, sumElem_eq, log_eq, sqrt_eq, FamiliesPf.pi_eq, hs]
    ring

/-- `StandardNormal((n,))._log_prob z = −(n/2)·log(2π) − ½ Σ zᵢ²` -/
theorem stdNormalVec_logProb {n : ℕ} {z : List ℝ} (h : z.length = n) :
    (stdNormalVec n).logProb z ()
      = -(n : ℝ) / 2 * Real.log (2 * Real.pi) - 1 / 2 * (z.map (fun t => t ^ 2)).sum := by
  simp only [stdNormalVec, stdVec, DistCore.toDist, FamiliesPf.jsum_eq]
  rw [zipWith_replicate_apply _ _ n z h, sum_map_normLp, h]

theorem sum_sq_ofFn {n : ℕ} (w : Fin n → ℝ) : ((List.ofFn w).map (fun t => t ^ 2)).sum = w ⬝ᵥ w := by
  rw [List.map_ofFn, List.sum_ofFn]
  simp [dotProduct, pow_two]

/-! ### the log-density -/

/-- the distribution `mvn` builds for a Cholesky factor -/
noncomputable def mvnDist (n : ℕ) (loc : List ℝ) (L : List (List ℝ)) : Distn (List ℝ) Unit (List ℝ) ℝ :=
  (Transformed.mk (stdNormalVec n)
    ((⟨L, loc, true⟩ : Tri.TriAffine ℝ).toBij : Bij (List ℝ) Unit ℝ)).toDist

theorem mvn_eq {n : ℕ} {L : List (List ℝ)} (h : CholFactor n L) {loc : List ℝ} (hl : loc.length = n) :
    mvn loc L = some (mvnDist n loc L) := by
  simp only [mvn, mvnBijection_chol h hl, Option.map_some, h.sq.1, mvnDist]

theorem sub_length {x loc : List ℝ} {n : ℕ} (hx : x.length = n) (hl : loc.length = n) :
    (List.zipWith (fun a b => a - b) x loc).length = n := by simp [hx, hl]

/-- log-density in terms of the modelled forward substitution `z = L⁻¹(x − loc)` -/
theorem mvnDist_logProb {n : ℕ} {L : List (List ℝ)} (h : CholFactor n L) {loc x : List ℝ}
    (hl : loc.length = n) (hx : x.length = n) :
    (mvnDist n loc L).logProb x ()
      = -(n : ℝ) / 2 * Real.log (2 * Real.pi) - ∑ i : Fin n, Real.log (toMat n L i i)
        - 1 / 2 * ((Tri.solveLower L (List.zipWith (fun a b => a - b) x loc)).map (fun t => t ^ 2)).sum := by
  have hz : (Tri.solveLower L (List.zipWith (fun a b => a - b) x loc)).length = n :=
    solveLower_length h.lowerTri (sub_length hx hl)
  have hld : Tri.logDet L = ∑ i : Fin n, Real.log (toMat n L i i) := by
    rw [logDet_eq h.sq.1]
    refine Finset.sum_congr rfl (fun i _ => ?_)
    show Real.log |entry L i i| = Real.log (entry L i i)
    rw [abs_of_pos (h.diag_pos i i.2)]
  simp only [mvnDist, Transformed.toDist, Transformed.logProb, Tri.TriAffine.toBij,
    Tri.TriAffine.inverse_and_log_det, Tri.TriAffine.inverse, if_true]
  rw [stdNormalVec_logProb hz, hld]
  ring

/-- `A · solveLower A b = b`, in coordinates -/
theorem mulVec_solveLower {n : ℕ} {L : List (List ℝ)} (h : CholFactor n L) (r : Fin n → ℝ) :
    toMat n L *ᵥ toVec n (Tri.solveLower L (List.ofFn r)) = r := by
  have hlen : (Tri.solveLower L (List.ofFn r)).length = n := solveLower_length h.lowerTri (by simp)
  have := matVec_solveLower h.lowerTri (b := List.ofFn r) (by simp)
  rw [← ofFn_toVec hlen, matVec_ofFn h.sq] at this
  exact ofFn_injective' this

theorem chol_det_ne {n : ℕ} {L : List (List ℝ)} (h : CholFactor n L) : (toMat n L).det ≠ 0 := by
  rw [lowerTri_det h.lowerTri]
  exact Finset.prod_ne_zero_iff.mpr (fun i _ => (h.diag_pos i i.2).ne')

theorem chol_det_pos {n : ℕ} {L : List (List ℝ)} (h : CholFactor n L) : 0 < (toMat n L).det := by
  rw [lowerTri_det h.lowerTri]
  exact Finset.prod_pos (fun i _ => h.diag_pos i i.2)

/-- `‖M⁻¹ r‖² = rᵀ (M Mᵀ)⁻¹ r` -/
theorem quad_form_eq {n : ℕ} (M : Matrix (Fin n) (Fin n) ℝ) (hM : M.det ≠ 0) (z r : Fin n → ℝ)
    (h : M *ᵥ z = r) : z ⬝ᵥ z = r ⬝ᵥ ((M * Mᵀ)⁻¹ *ᵥ r) := by
  have hu : IsUnit M.det := isUnit_iff_ne_zero.mpr hM
  have hut : IsUnit Mᵀ.det := by rw [det_transpose]; exact hu
  have e1 : (M * Mᵀ)⁻¹ *ᵥ r = Mᵀ⁻¹ *ᵥ z := by
    rw [Matrix.mul_inv_rev, ← Matrix.mulVec_mulVec, ← h, Matrix.mulVec_mulVec z M⁻¹ M,
      Matrix.nonsing_inv_mul M hu, Matrix.one_mulVec]
  rw [e1, ← h, ← vecMul_transpose M z, ← Matrix.dotProduct_mulVec, Matrix.mulVec_mulVec,
    Matrix.mul_nonsing_inv Mᵀ hut, Matrix.one_mulVec]

/-- `Σᵢ log Lᵢᵢ = ½ log det (L Lᵀ)` -/
theorem sum_log_diag {n : ℕ} {L : List (List ℝ)} (h : CholFactor n L) :
    ∑ i : Fin n, Real.log (toMat n L i i) = 1 / 2 * Real.log ((toMat n L * (toMat n L)ᵀ).det) := by
  have hp : Real.log (∏ i : Fin n, toMat n L i i) = ∑ i : Fin n, Real.log (toMat n L i i) :=
    Real.log_prod (fun (i : Fin n) _ => (h.diag_pos i i.2).ne')
  rw [det_mul, det_transpose, Real.log_mul (chol_det_ne h) (chol_det_ne h), lowerTri_det h.lowerTri, hp]
  ring

/-- **the textbook multivariate-normal log-density**, `Σ = L Lᵀ`:
`−(n/2)·log(2π) − ½·log det Σ − ½·(x − μ)ᵀ Σ⁻¹ (x − μ)` -/
theorem mvnDist_logProb_matrix {n : ℕ} {L : List (List ℝ)} (h : CholFactor n L) (μ x : Fin n → ℝ) :
    (mvnDist n (List.ofFn μ) L).logProb (List.ofFn x) ()
      = -(n : ℝ) / 2 * Real.log (2 * Real.pi) - 1 / 2 * Real.log ((toMat n L * (toMat n L)ᵀ).det)
        - 1 / 2 * ((x - μ) ⬝ᵥ ((toMat n L * (toMat n L)ᵀ)⁻¹ *ᵥ (x - μ))) := by
  rw [mvnDist_logProb h (by simp) (by simp), sum_log_diag h]
  have hsub : List.zipWith (fun a b => a - b) (List.ofFn x) (List.ofFn μ) = List.ofFn (x - μ) := by
    rw [LogDet.zipWith_ofFn]; rfl
  rw [hsub]
  have hlen : (Tri.solveLower L (List.ofFn (x - μ))).length = n := solveLower_length h.lowerTri (by simp)
  rw [← ofFn_toVec hlen, sum_sq_ofFn,
    quad_form_eq _ (chol_det_ne h) _ _ (mulVec_solveLower h (x - μ))]

/-! ### sampler -/

theorem mvnDist_sample {n : ℕ} (loc : List ℝ) (L : List (List ℝ)) (z : List ℝ) :
    (mvnDist n loc L).sample z ()
      = List.zipWith (fun a b => a + b) (Tri.matVec L z) loc := rfl

/-- the log-prob returned with a sample equals `log_prob` at that sample -/
theorem mvnDist_consistent {n : ℕ} {L : List (List ℝ)} (h : CholFactor n L) {loc : List ℝ}
    (hl : loc.length = n) {z : List ℝ} (hz : z.length = n) :
    (mvnDist n loc L).sampleLp z ()
      = ((mvnDist n loc L).sample z (), (mvnDist n loc L).logProb ((mvnDist n loc L).sample z ()) ()) := by
  have hm : (Tri.matVec L z).length = loc.length := by rw [matVec_length, h.sq.1, hl]
  simp only [mvnDist, Transformed.toDist, Transformed.sampleLp, Transformed.sample, Transformed.logProb,
    stdNormalVec, stdVec, DistCore.toDist, DistCore.defaultSampleLp, Tri.TriAffine.toBij,
    Tri.TriAffine.transform_and_log_det, Tri.TriAffine.transform, Tri.TriAffine.inverse_and_log_det,
    Tri.TriAffine.inverse, if_true, zipWith_sub_add hm, solveLower_matVec h.lowerTri hz]
  ext
  · rfl
  · simp only; ring

/-! ### sample law: `L z + loc` for a standard normal `z` has density `exp ∘ log_prob` -/

theorem logDet_chol {n : ℕ} {L : List (List ℝ)} (h : CholFactor n L) :
    Tri.logDet L = Real.log (toMat n L).det := by
  have hp : Real.log (∏ i : Fin n, toMat n L i i) = ∑ i : Fin n, Real.log (toMat n L i i) :=
    Real.log_prod (fun (i : Fin n) _ => (h.diag_pos i i.2).ne')
  rw [logDet_eq h.sq.1, lowerTri_det h.lowerTri, hp]
  refine Finset.sum_congr rfl (fun i _ => ?_)
  show Real.log |entry L i i| = Real.log (entry L i i)
  rw [abs_of_pos (h.diag_pos i i.2)]

/-- **samples follow the density (MultivariateNormal)**: the base sample `z` has the standard normal law on
`ℝⁿ` (density `exp ∘ StandardNormal((n,))._log_prob`, what `jr.normal(key, (n,))` draws — trusted); then the
law of the model's `_sample` has density `exp ∘ _log_prob` of the multivariate normal -/
theorem mvn_sample_law {n : ℕ} {L : List (List ℝ)} (h : CholFactor n L) (μ : Fin n → ℝ) :
    MeasureTheory.Measure.map (fun z : Fin n → ℝ => toVec n ((mvnDist n (List.ofFn μ) L).sample (List.ofFn z) ()))
        (MeasureTheory.volume.withDensity fun z =>
          ENNReal.ofReal (Real.exp ((stdNormalVec n).logProb (List.ofFn z) ())))
      = MeasureTheory.volume.withDensity fun x =>
          ENNReal.ofReal (Real.exp ((mvnDist n (List.ofFn μ) L).logProb (List.ofFn x) ())) := by
  set M := toMat n L with hM
  have hdet := chol_det_pos h
  let T : (Fin n → ℝ) → (Fin n → ℝ) := fun v => M *ᵥ v + μ
  let Tinv : (Fin n → ℝ) → (Fin n → ℝ) := fun y => toVec n (Tri.solveLower L (List.ofFn (y - μ)))
  have hT : (fun z : Fin n → ℝ => toVec n ((mvnDist n (List.ofFn μ) L).sample (List.ofFn z) ())) = T := by
    funext z
    rw [mvnDist_sample, matVec_ofFn h.sq, LogDet.zipWith_ofFn, toVec_ofFn]
    rfl
  have hl : Function.LeftInverse Tinv T := by
    intro v
    show toVec n (Tri.solveLower L (List.ofFn (M *ᵥ v + μ - μ))) = v
    rw [add_sub_cancel_right, ← matVec_ofFn h.sq, solveLower_matVec h.lowerTri (by simp), toVec_ofFn]
  have hr : Function.RightInverse Tinv T := by
    intro y
    show M *ᵥ toVec n (Tri.solveLower L (List.ofFn (y - μ))) + μ = y
    rw [mulVec_solveLower h, sub_add_cancel]
  have hD : ∀ x, HasFDerivAt T (matCLM M) x := fun x => ((matCLM M).hasFDerivAt).add_const _
  have hne : ∀ x : Fin n → ℝ, (matCLM M).det ≠ 0 := fun _ => by rw [matCLM_det]; exact hdet.ne'
  rw [hT, Mass.pushforward_density MeasureTheory.volume T Tinv (fun _ => matCLM M) hD hne hl hr]
  congr 1
  funext y
  congr 1
  have hlen : (Tri.solveLower L (List.ofFn (y - μ))).length = n := solveLower_length h.lowerTri (by simp)
  have hsub : List.zipWith (fun a b => a - b) (List.ofFn y) (List.ofFn μ) = List.ofFn (y - μ) := by
    rw [LogDet.zipWith_ofFn]; rfl
  show Real.exp ((stdNormalVec n).logProb (List.ofFn (toVec n (Tri.solveLower L (List.ofFn (y - μ))))) ())
      * |(matCLM M).det|⁻¹ = _
  rw [ofFn_toVec hlen, matCLM_det, abs_of_pos hdet]
  simp only [mvnDist, Transformed.toDist, Transformed.logProb, Tri.TriAffine.toBij,
    Tri.TriAffine.inverse_and_log_det, Tri.TriAffine.inverse, if_true, hsub]
  rw [Real.exp_add, logDet_chol h, Real.exp_neg, Real.exp_log hdet]

/-! ### accessors -/

/-- `A @ A.T` is Mathlib's `A * Aᵀ` -/
theorem toMat_matMulT {n : ℕ} {A : List (List ℝ)} (h : Square n A) :
    toMat n (matMulT A) = toMat n A * (toMat n A)ᵀ := by
  funext i j
  have hA := square_eq_ofFn h
  have hi : i.1 < A.length := by rw [h.1]; exact i.2
  have hj : j.1 < A.length := by rw [h.1]; exact j.2
  have hrow : ∀ k : Fin n, A.getD k [] = List.ofFn (fun c : Fin n => toMat n A k c) := by
    intro k
    conv_lhs => rw [hA]
    simp [List.getD_eq_getElem?_getD]
  simp only [toMat, entry, matMulT, List.getD_eq_getElem?_getD, List.getElem?_map,
    List.getElem?_eq_getElem hi, List.getElem?_eq_getElem hj, Option.map_some, Option.getD_some]
  have e1 := hrow i
  have e2 := hrow j
  simp only [List.getD_eq_getElem?_getD, List.getElem?_eq_getElem hi, List.getElem?_eq_getElem hj,
    Option.getD_some] at e1 e2
  rw [e1, e2, dot_ofFn]
  simp [Matrix.mul_apply, dotProduct, toMat, entry, List.getD_eq_getElem?_getD]

theorem matMulT_square {n : ℕ} {A : List (List ℝ)} (h : Square n A) : Square n (matMulT A) := by
  refine ⟨by simp [matMulT, h.1], ?_⟩
  intro r hr
  obtain ⟨r', _, rfl⟩ := List.mem_map.mp hr
  simp [h.1]

end MvnPf
