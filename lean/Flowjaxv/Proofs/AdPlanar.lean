import Flowjaxv.Proofs.AdVecTheory
import Flowjaxv.Proofs.Params
import Flowjaxv.Gen.VecAst
/-!
# `_UnconditionalPlanar` as a reverse-mode AST (`Gen/VecAst.lean`) is `Safe` for every dimension, every `w ≠ 0`, `u`, `b`, `x` (C18)

The constrained `û = get_act_scale()` AST evaluates to the shallow generated `Gen.UnconditionalPlanar.get_act_scale`
(both come from the same Python), so the C11 lemmas (`wᵀû > −1`) give `1 + û·ψ > 0`: the log-det's `log|·|` is taken at a
positive number and the inverse's denominator is non-zero.  `w = 0` is excluded: the code divides by `‖w‖²`
(real code there: `get_act_scale()` is NaN, every output NaN, public `log_prob = −inf`).
The leaky-relu variants need `0 < negative_slope ≤ 1` (for steeper slopes the constraint does not keep `1 + û·ψ` away
from `0` — the recorded C02 finding `planar_steep`).
-/
set_option linter.unusedSimpArgs false
set_option linter.unusedVariables false
noncomputable section
open Classical Ad EF AdT AdV GenAst

namespace AdP

/-- the environment of a planar kernel: weight, raw act-scale, input (vectors 0, 1, 2), bias and slope (scalars 1, 2) -/
structure PlEnv (env : Env EF) (w u x : List ℝ) (b s : ℝ) (d : Nat) : Prop where
  hw : env.v 0 = w.map fin
  hu : env.v 1 = u.map fin
  hx : env.v 2 = x.map fin
  hb : env.s 1 = fin b
  hs : env.s 2 = fin s
  lw : w.length = d
  lu : u.length = d
  lx : x.length = d

theorem set_s_same (env : Env EF) (i : Nat) (v : EF) : (env.set i v).s i = v := by simp [Env.set]
theorem set_s_ne (env : Env EF) {i j : Nat} (v : EF) (h : j ≠ i) : (env.set i v).s j = env.s j := by simp [Env.set, h]

theorem PlEnv.set {env : Env EF} {w u x : List ℝ} {b s : ℝ} {d : Nat} (h : PlEnv env w u x b s d) {i : Nat} (hi : 100 ≤ i) (v : EF) :
    PlEnv (env.set i v) w u x b s d :=
  { h with hb := by rw [set_s_ne _ _ (by omega)]; exact h.hb, hs := by rw [set_s_ne _ _ (by omega)]; exact h.hs,
           hw := h.hw, hu := h.hu, hx := h.hx }

section
variable {env : Env EF} {w u x : List ℝ} {b s : ℝ} {d : Nat}

theorem W_evalsTo (h : PlEnv env w u x b s d) : EvalsTo env (Vec.ofVec 0 d) w := ofVec_evalsTo h.hw h.lw
theorem U_evalsTo (h : PlEnv env w u x b s d) : EvalsTo env (Vec.ofVec 1 d) u := ofVec_evalsTo h.hu h.lu
theorem X_evalsTo (h : PlEnv env w u x b s d) : EvalsTo env (Vec.ofVec 2 d) x := ofVec_evalsTo h.hx h.lx
theorem W_safe (h : PlEnv env w u x b s d) : SafeVec env (Vec.ofVec 0 d) := ofVec_safe h.hw
theorem U_safe (h : PlEnv env w u x b s d) : SafeVec env (Vec.ofVec 1 d) := ofVec_safe h.hu
theorem X_safe (h : PlEnv env w u x b s d) : SafeVec env (Vec.ofVec 2 d) := ofVec_safe h.hx

theorem dot_eval' {as bs : List (Expr EF)} {xs ys : List ℝ} (ha : EvalsTo env as xs) (hb : EvalsTo env bs ys) :
    (Vec.dot as bs).eval env = fin (Jnp.dot xs ys) := by
  rw [dot_eval ha hb, ParamsPf.jdot_eq]

/-- `‖w‖` -/
theorem norm_eval (h : PlEnv env w u x b s d) :
    (Vec.norm (Vec.ofVec 0 d)).eval env = fin (Real.sqrt (Jnp.dot w w)) := by
  simp only [Vec.norm, Expr.eval, applyPrim, dot_eval' (W_evalsTo h) (W_evalsTo h)]
  exact EF.num_sqrt (ParamsPf.jdot_self_nonneg w)

theorem norm_safe (h : PlEnv env w u x b s d) (hw0 : Jnp.dot w w ≠ 0) : Safe env (Vec.norm (Vec.ofVec 0 d)) := by
  refine ⟨dot_safe (W_safe h) (W_safe h), fun r hr => ?_⟩
  rw [dot_eval' (W_evalsTo h) (W_evalsTo h)] at hr
  cases hr
  exact lt_of_le_of_ne (ParamsPf.jdot_self_nonneg w) (Ne.symm hw0)


/-- `m(wᵀu) − wᵀu`'s ingredients -/
def wtu (w u : List ℝ) : ℝ := Jnp.dot u w
def mW (w u : List ℝ) : ℝ := -1 + Real.log (1 + Real.log (1 + Real.exp (wtu w u)))

abbrev wtuE (d : Nat) : Expr EF := Vec.dot (Vec.ofVec 1 d) (Vec.ofVec 0 d)
abbrev mE : Expr EF :=
  Expr.add (Expr.const (Num.ofInt (-1))) (Expr.prim Prim.log (Expr.add (Expr.const (Num.ofInt 1)) (Expr.prim Prim.softplus (Expr.var 202001))))

theorem sp_pos' (r : ℝ) : 0 < Real.log (1 + Real.exp r) := Real.log_pos (by linarith [Real.exp_pos r])

theorem wtuE_eval (h : PlEnv env w u x b s d) : (wtuE d).eval env = fin (wtu w u) := dot_eval' (U_evalsTo h) (W_evalsTo h)
theorem wtuE_safe (h : PlEnv env w u x b s d) : Safe env (wtuE d) := dot_safe (U_safe h) (W_safe h)
theorem mE_eval {env : Env EF} {r : ℝ} (h1 : env.s 202001 = fin r) :
    mE.eval env = fin (-1 + Real.log (1 + Real.log (1 + Real.exp r))) := by
  have hp : 0 < 1 + Real.log (1 + Real.exp r) := by linarith [sp_pos' r]
  simp [mE, Expr.eval, applyPrim, h1, EF.num_log hp]
theorem mE_safe {env : Env EF} {r : ℝ} (h1 : env.s 202001 = fin r) : Safe env mE := by
  have hp : 0 < 1 + Real.log (1 + Real.exp r) := by linarith [sp_pos' r]
  simp [mE, Safe, Expr.eval, applyPrim, PrimSafe, h1, hp]

/-- the environment inside the two lets of `get_act_scale` -/
def envA (env : Env EF) (d : Nat) : Env EF :=
  (env.set 202001 ((wtuE d).eval env)).set 202002 (mE.eval (env.set 202001 ((wtuE d).eval env)))

theorem envA_pl (h : PlEnv env w u x b s d) : PlEnv (envA env d) w u x b s d := (h.set (by norm_num) _).set (by norm_num) _
theorem envA_s1 (h : PlEnv env w u x b s d) : (envA env d).s 202001 = fin (wtu w u) := by
  unfold envA; rw [set_s_ne _ _ (by decide), set_s_same, wtuE_eval h]
theorem envA_s2 (h : PlEnv env w u x b s d) : (envA env d).s 202002 = fin (mW w u) := by
  unfold envA; rw [set_s_same, mE_eval (r := wtu w u) (by rw [set_s_same, wtuE_eval h])]; rfl

/-- the body of `get_act_scale` (before the let-wrapping) -/
abbrev actBody (d : Nat) : List (Expr EF) :=
  Vec.zip Expr.add (Vec.ofVec 1 d) (Vec.mapR Expr.div (Vec.mapL Expr.mul (Expr.sub (Expr.var 202002) (Expr.var 202001)) (Vec.ofVec 0 d))
    (Expr.mul (Vec.norm (Vec.ofVec 0 d)) (Vec.norm (Vec.ofVec 0 d))))

theorem actScale_def (d : Nat) : (UnconditionalPlanar.get_act_scale.ast d : List (Expr EF)) =
    Vec.mapE (fun e_ => Expr.letE 202001 (wtuE d) (Expr.letE 202002 mE e_)) (actBody d) := rfl

theorem actBody_evalsTo (h : PlEnv env w u x b s d) (hw0 : Jnp.dot w w ≠ 0) :
    EvalsTo (envA env d) (actBody d) (Gen.UnconditionalPlanar.get_act_scale ⟨w, u, b⟩) := by
  have hA := envA_pl h
  have hn := norm_eval hA
  have hsq : Real.sqrt (Jnp.dot w w) * Real.sqrt (Jnp.dot w w) ≠ 0 := by
    rw [Real.mul_self_sqrt (ParamsPf.jdot_self_nonneg w)]; exact hw0
  unfold Gen.UnconditionalPlanar.get_act_scale
  refine evalsTo_zip (fun a b x y hx hy => by simp [Expr.eval, hx, hy]) (U_evalsTo hA) ?_
  unfold Vec.mapR Vec.mapL
  refine evalsTo_map (env' := envA env d) (fun a x hx => ?_) (evalsTo_map (env' := envA env d) (fun a x hx => ?_) (W_evalsTo hA))
  · simp only [Expr.eval, hx, hn, EF.fin_mul]; rw [EF.fin_div hsq]; rfl
  · simp only [Expr.eval, hx, envA_s1 h, envA_s2 h, EF.fin_sub, EF.fin_mul]; rfl

theorem actBody_safe (h : PlEnv env w u x b s d) (hw0 : Jnp.dot w w ≠ 0) : SafeVec (envA env d) (actBody d) := by
  have hA := envA_pl h
  have hn := norm_eval hA
  have hns := norm_safe hA hw0
  have hsq : Real.sqrt (Jnp.dot w w) * Real.sqrt (Jnp.dot w w) ≠ 0 := by
    rw [Real.mul_self_sqrt (ParamsPf.jdot_self_nonneg w)]; exact hw0
  refine safeVec_zip (op := Expr.add) (fun _ _ h1 h2 => ⟨h1, h2⟩) (U_safe hA) ?_
  unfold Vec.mapR Vec.mapL
  have h2 : isFin ((envA env d).s 202002) := by rw [envA_s2 h]; trivial
  have h1 : isFin ((envA env d).s 202001) := by rw [envA_s1 h]; trivial
  have hne : (Expr.mul (Vec.norm (Vec.ofVec 0 d)) (Vec.norm (Vec.ofVec 0 d))).eval (envA env d) ≠ fin 0 := by
    simp only [Expr.eval, hn, EF.fin_mul]; intro hc; exact hsq (EF.fin.inj hc)
  have k1 : ∀ a, Safe (envA env d) a →
      Safe (envA env d) (Expr.mul (Expr.sub (Expr.var 202002) (Expr.var 202001)) a) := fun a ha => ⟨⟨h2, h1⟩, ha⟩
  have k2 : ∀ a, Safe (envA env d) a →
      Safe (envA env d) (Expr.div a (Expr.mul (Vec.norm (Vec.ofVec 0 d)) (Vec.norm (Vec.ofVec 0 d)))) :=
    fun a ha => ⟨ha, ⟨hns, hns⟩, hne⟩
  exact safeVec_map k2 (safeVec_map k1 (W_safe hA))

/-- `get_act_scale` as an AST evaluates to the generated shallow `get_act_scale` and is safe, for every `w ≠ 0` -/
theorem actScale_evalsTo (h : PlEnv env w u x b s d) (hw0 : Jnp.dot w w ≠ 0) :
    EvalsTo env (UnconditionalPlanar.get_act_scale.ast d) (Gen.UnconditionalPlanar.get_act_scale ⟨w, u, b⟩) := by
  rw [actScale_def]
  exact evalsTo_mapE (env' := envA env d) (fun a x hx => by simpa [Expr.eval, envA] using hx) (actBody_evalsTo h hw0)

theorem actScale_safe (h : PlEnv env w u x b s d) (hw0 : Jnp.dot w w ≠ 0) :
    SafeVec env (UnconditionalPlanar.get_act_scale.ast d) := by
  rw [actScale_def]
  unfold Vec.mapE
  have k : ∀ a, Safe (envA env d) a → Safe env (Expr.letE 202001 (wtuE d) (Expr.letE 202002 mE a)) :=
    fun a ha => ⟨wtuE_safe h, mE_safe (r := wtu w u) (by rw [set_s_same, wtuE_eval h]), ha⟩
  exact safeVec_map k (actBody_safe h hw0)

/-! ### the invertibility constraint (from the C11 lemmas of `Proofs/Params.lean`): the log-det's argument is positive -/
abbrev uhat (w u : List ℝ) (b : ℝ) : List ℝ := Gen.UnconditionalPlanar.get_act_scale ⟨w, u, b⟩

theorem uhat_dot_gt (hl : u.length = w.length) (hw0 : Jnp.dot w w ≠ 0) : -1 < Jnp.dot (uhat w u b) w := by
  have := ParamsPf.planar_dot ⟨w, u, b⟩ hl hw0
  simp only at this
  rw [show Jnp.dot (uhat w u b) w = _ from this]; exact ParamsPf.planarM_gt _

theorem det_pos_left (hl : u.length = w.length) (hw0 : Jnp.dot w w ≠ 0) {c : ℝ} (hc0 : 0 < c) (hc1 : c ≤ 1) :
    0 < 1 + Jnp.dot (uhat w u b) (List.map (fun a => c * a) w) := by
  rw [ParamsPf.jdot_comm, ParamsPf.jdot_map_left, ParamsPf.jdot_comm]
  exact ParamsPf.one_add_mul_pos (uhat_dot_gt hl hw0) hc0 hc1

theorem map_mul_comm (c : ℝ) (l : List ℝ) : List.map (fun a => a * c) l = List.map (fun a => c * a) l := by
  apply List.map_congr_left; intro a _; ring

theorem det_pos_right (hl : u.length = w.length) (hw0 : Jnp.dot w w ≠ 0) {c : ℝ} (hc0 : 0 < c) (hc1 : c ≤ 1) :
    0 < 1 + Jnp.dot w (List.map (fun a => a * c) (uhat w u b)) ∧ 0 < 1 + Jnp.dot (List.map (fun a => a * c) (uhat w u b)) w := by
  rw [map_mul_comm, ParamsPf.jdot_comm w, ParamsPf.jdot_map_left]
  exact ⟨ParamsPf.one_add_mul_pos (uhat_dot_gt hl hw0) hc0 hc1, ParamsPf.one_add_mul_pos (uhat_dot_gt hl hw0) hc0 hc1⟩

/-! ### forward, tanh activation -/
abbrev XV (d : Nat) : List (Expr EF) := Vec.ofVec 2 d
abbrev WV (d : Nat) : List (Expr EF) := Vec.ofVec 0 d
abbrev UH (d : Nat) : List (Expr EF) := UnconditionalPlanar.get_act_scale.ast d
abbrev preact (d : Nat) : Expr EF := Expr.add (Vec.dot (XV d) (WV d)) (Expr.var 1)
abbrev actT (d : Nat) : Expr EF := Expr.prim Prim.tanh (preact d)
abbrev psiT (d : Nat) : List (Expr EF) :=
  Vec.mapL Expr.mul (Expr.sub (Expr.const (Num.ofInt 1)) (Expr.mul (Expr.var 203001) (Expr.var 203001))) (WV d)
abbrev ldT (d : Nat) : Expr EF := Expr.prim Prim.log (Expr.prim Prim.abs (Expr.add (Expr.const (Num.ofInt 1)) (Vec.dot (UH d) (psiT d))))
abbrev yT (d : Nat) : List (Expr EF) := Vec.zip Expr.add (XV d) (Vec.mapR Expr.mul (UH d) (Expr.var 203001))

theorem tldT_def (d : Nat) : (UnconditionalPlanar.transform_and_log_det_tanh.ast d (XV d) : List (Expr EF) × Expr EF) =
    (Vec.mapE (fun e_ => Expr.letE 203001 (actT d) (Expr.letE 203002 (ldT d) e_)) (yT d),
     Expr.letE 203001 (actT d) (Expr.letE 203002 (ldT d) (Expr.var 203002))) := rfl

def zPre (w x : List ℝ) (b : ℝ) : ℝ := Jnp.dot x w + b

theorem preact_eval (h : PlEnv env w u x b s d) : (preact d).eval env = fin (zPre w x b) := by
  simp [Expr.eval, dot_eval' (X_evalsTo h) (W_evalsTo h), h.hb, zPre]
theorem preact_safe (h : PlEnv env w u x b s d) : Safe env (preact d) :=
  ⟨dot_safe (X_safe h) (W_safe h), by show isFin (env.s 1); rw [h.hb]; trivial⟩

/-- the log-det expression `log|1 + û·ψ|` for `ψ = c·w`, `0 < c ≤ 1` -/
theorem ld_gen (h : PlEnv env w u x b s d) (hw0 : Jnp.dot w w ≠ 0) {psi : List (Expr EF)} {c : ℝ}
    (hpsi : EvalsTo env psi (List.map (fun a => c * a) w)) (hpsiS : SafeVec env psi) (hc0 : 0 < c) (hc1 : c ≤ 1) :
    Safe env (Expr.prim Prim.log (Expr.prim Prim.abs (Expr.add (Expr.const (Num.ofInt 1)) (Vec.dot (UH d) psi)))) ∧
    isFin ((Expr.prim Prim.log (Expr.prim Prim.abs (Expr.add (Expr.const (Num.ofInt 1)) (Vec.dot (UH d) psi)))).eval env) := by
  have hl : u.length = w.length := by rw [h.lu, h.lw]
  have hpos := det_pos_left (b := b) hl hw0 hc0 hc1
  have hdot := dot_eval' (actScale_evalsTo h hw0) hpsi
  have harg : (Expr.add (Expr.const (Num.ofInt 1)) (Vec.dot (UH d) psi)).eval env
      = fin (1 + Jnp.dot (uhat w u b) (List.map (fun a => c * a) w)) := by
    simp [Expr.eval, hdot]
  have habs : 0 < |1 + Jnp.dot (uhat w u b) (List.map (fun a => c * a) w)| := abs_pos.mpr hpos.ne'
  have heabs : (Expr.prim Prim.abs (Expr.add (Expr.const (Num.ofInt 1)) (Vec.dot (UH d) psi))).eval env
      = fin |1 + Jnp.dot (uhat w u b) (List.map (fun a => c * a) w)| := by
    show Num.abs (Expr.eval env _) = _; rw [harg]; rfl
  refine ⟨⟨⟨⟨by simp [Safe], dot_safe (actScale_safe h hw0) hpsiS⟩, fun _ _ => trivial⟩, fun r hr => ?_⟩, ?_⟩
  · rw [heabs] at hr; cases hr; exact habs
  · show isFin (Num.log (Expr.eval env _)); rw [heabs, EF.num_log habs]; trivial

theorem ldT_facts (h : PlEnv env w u x b s d) (hw0 : Jnp.dot w w ≠ 0) {t : ℝ} (ht : env.s 203001 = fin t) (ht1 : -1 < t) (ht2 : t < 1) :
    Safe env (ldT d) ∧ isFin ((ldT d).eval env) := by
  have hc0 : 0 < 1 - t * t := by nlinarith
  have hc1 : 1 - t * t ≤ 1 := by nlinarith [mul_self_nonneg t]
  have hpsi : EvalsTo env (psiT d) (List.map (fun a => (1 - t * t) * a) w) := by
    unfold psiT Vec.mapL
    exact evalsTo_map (env' := env) (fun a x hx => by simp [Expr.eval, hx, ht]) (W_evalsTo h)
  have hpsiS : SafeVec env (psiT d) := by
    have k : ∀ a, Safe env a → Safe env (Expr.mul (Expr.sub (Expr.const (Num.ofInt 1)) (Expr.mul (Expr.var 203001) (Expr.var 203001))) a) :=
      fun a ha => ⟨⟨by simp [Safe], ⟨by show isFin (env.s 203001); rw [ht]; trivial, by show isFin (env.s 203001); rw [ht]; trivial⟩⟩, ha⟩
    exact safeVec_map k (W_safe h)
  exact ld_gen h hw0 hpsi hpsiS hc0 hc1

/-- tanh planar layer: every output element and the log-det are `Safe`, for every `w ≠ 0`, `u`, `b`, `x`, every dimension -/
theorem tldT_safe (h : PlEnv env w u x b s d) (hw0 : Jnp.dot w w ≠ 0) :
    SafeVec env (UnconditionalPlanar.transform_and_log_det_tanh.ast d (XV d)).1 ∧
    Safe env (UnconditionalPlanar.transform_and_log_det_tanh.ast d (XV d)).2 := by
  rw [tldT_def]
  have hact : (actT d).eval env = fin (Real.tanh (zPre w x b)) := by
    show Num.tanh (Expr.eval env (preact d)) = _; rw [preact_eval h]; rfl
  have hactS : Safe env (actT d) := ⟨preact_safe h, fun _ _ => trivial⟩
  have h1 := h.set (i := 203001) (by norm_num) ((actT d).eval env)
  have hs1 : (env.set 203001 ((actT d).eval env)).s 203001 = fin (Real.tanh (zPre w x b)) := by rw [set_s_same, hact]
  obtain ⟨hldS, hldF⟩ := ldT_facts h1 hw0 hs1 (Real.neg_one_lt_tanh _) (Real.tanh_lt_one _)
  have h2 := h1.set (i := 203002) (by norm_num) ((ldT d).eval (env.set 203001 ((actT d).eval env)))
  refine ⟨?_, hactS, hldS, ?_⟩
  · have k : ∀ a, Safe ((env.set 203001 ((actT d).eval env)).set 203002 ((ldT d).eval (env.set 203001 ((actT d).eval env)))) a →
        Safe env (Expr.letE 203001 (actT d) (Expr.letE 203002 (ldT d) a)) := fun a ha => ⟨hactS, hldS, ha⟩
    unfold Vec.mapE
    refine safeVec_map k (safeVec_zip (op := Expr.add) (fun _ _ a b => ⟨a, b⟩) (X_safe h2) ?_)
    unfold Vec.mapR
    have k2 : ∀ a, Safe ((env.set 203001 ((actT d).eval env)).set 203002 ((ldT d).eval (env.set 203001 ((actT d).eval env)))) a →
        Safe ((env.set 203001 ((actT d).eval env)).set 203002 ((ldT d).eval (env.set 203001 ((actT d).eval env)))) (Expr.mul a (Expr.var 203001)) :=
      fun a ha => ⟨ha, by show isFin (Env.s _ 203001); rw [set_s_ne _ _ (by decide), hs1]; trivial⟩
    exact safeVec_map k2 (actScale_safe h2 hw0)
  · show isFin (Env.s _ 203002); rw [set_s_same]; exact hldF

/-! ### forward, leaky-relu activation (slope `0 < s ≤ 1`) -/
abbrev actL (d : Nat) : Expr EF := Jnn.leaky_relu.ast (preact d) (Expr.var 2)
/-- `where(v < 0, negative_slope, 1)` on the let-bound scalar `i` -/
abbrev coef (i : Nat) : Expr EF :=
  Expr.sel (fun env => Num.lt (Expr.eval env (Expr.var i)) (Expr.eval env (Expr.const (Num.ofInt 0)))) (Expr.var 2) (Expr.const (Num.ofInt 1))
abbrev psiL (d : Nat) : List (Expr EF) := Vec.mapL Expr.mul (coef 204001) (WV d)
abbrev ldL (d : Nat) : Expr EF := Expr.prim Prim.log (Expr.prim Prim.abs (Expr.add (Expr.const (Num.ofInt 1)) (Vec.dot (UH d) (psiL d))))
abbrev yL (d : Nat) : List (Expr EF) := Vec.zip Expr.add (XV d) (Vec.mapR Expr.mul (UH d) (Expr.var 204001))

theorem tldL_def (d : Nat) : (UnconditionalPlanar.transform_and_log_det_lrelu.ast d (XV d) : List (Expr EF) × Expr EF) =
    (Vec.mapE (fun e_ => Expr.letE 204001 (actL d) (Expr.letE 204002 (ldL d) e_)) (yL d),
     Expr.letE 204001 (actL d) (Expr.letE 204002 (ldL d) (Expr.var 204002))) := rfl

theorem coef_facts {env : Env EF} {i : Nat} {a s : ℝ} (hi : env.s i = fin a) (hs : env.s 2 = fin s) :
    (coef i).eval env = fin (if a < 0 then s else 1) ∧ Safe env (coef i) := by
  refine ⟨?_, by show isFin (env.s 2) ∧ isFin _; rw [hs]; exact ⟨trivial, trivial⟩⟩
  by_cases ha : a < 0 <;> simp [Expr.eval, hi, hs, ha]

theorem coef_range {a s : ℝ} (hs0 : 0 < s) (hs1 : s ≤ 1) : 0 < (if a < 0 then s else 1) ∧ (if a < 0 then s else 1) ≤ 1 := by
  split <;> constructor <;> linarith

theorem leaky_eval {env : Env EF} {z sl : Expr EF} {r s : ℝ} (hz : z.eval env = fin r)
    (hs : sl.eval (env.set 201001 (fin r)) = fin s) :
    (Jnn.leaky_relu.ast z sl).eval env = fin (if 0 ≤ r then r else s * r) := by
  by_cases hc : 0 ≤ r <;> simp [Jnn.leaky_relu.ast, Expr.eval, hz, set_s_same, hs, hc]

theorem actL_facts (h : PlEnv env w u x b s d) :
    Safe env (actL d) ∧ ∃ a, (actL d).eval env = fin a := by
  have hz := preact_eval h
  refine ⟨⟨preact_safe h, ?_, ?_, ?_⟩, ?_⟩
  · show isFin (Env.s _ 201001); rw [set_s_same, hz]; trivial
  · show isFin (Env.s _ 2); rw [set_s_ne _ _ (by decide), h.hs]; trivial
  · show isFin (Env.s _ 201001); rw [set_s_same, hz]; trivial
  · exact ⟨_, leaky_eval hz (by show Env.s _ 2 = _; rw [set_s_ne _ _ (by decide), h.hs])⟩

/-- leaky-relu planar layer, forward -/
theorem tldL_safe (h : PlEnv env w u x b s d) (hw0 : Jnp.dot w w ≠ 0) (hs0 : 0 < s) (hs1 : s ≤ 1) :
    SafeVec env (UnconditionalPlanar.transform_and_log_det_lrelu.ast d (XV d)).1 ∧
    Safe env (UnconditionalPlanar.transform_and_log_det_lrelu.ast d (XV d)).2 := by
  rw [tldL_def]
  obtain ⟨hactS, a, hact⟩ := actL_facts h
  have h1 := h.set (i := 204001) (by norm_num) ((actL d).eval env)
  have hs1' : (env.set 204001 ((actL d).eval env)).s 204001 = fin a := by rw [set_s_same, hact]
  obtain ⟨hce, hcS⟩ := coef_facts hs1' h1.hs
  obtain ⟨hc0, hc1⟩ := coef_range (a := a) hs0 hs1
  have hpsi : EvalsTo (env.set 204001 ((actL d).eval env)) (psiL d) (List.map (fun v => (if a < 0 then s else 1) * v) w) := by
    unfold psiL Vec.mapL
    exact evalsTo_map (env' := env.set 204001 ((actL d).eval env)) (fun e r hr => by
      show Expr.eval _ (coef 204001) * Expr.eval _ e = _; rw [hce, hr]; rfl) (W_evalsTo h1)
  have hpsiS : SafeVec (env.set 204001 ((actL d).eval env)) (psiL d) := by
    have k : ∀ e, Safe (env.set 204001 ((actL d).eval env)) e → Safe (env.set 204001 ((actL d).eval env)) (Expr.mul (coef 204001) e) :=
      fun e he => ⟨hcS, he⟩
    exact safeVec_map k (W_safe h1)
  obtain ⟨hldS, hldF⟩ := ld_gen h1 hw0 hpsi hpsiS hc0 hc1
  have h2 := h1.set (i := 204002) (by norm_num) ((ldL d).eval (env.set 204001 ((actL d).eval env)))
  refine ⟨?_, hactS, hldS, ?_⟩
  · have k : ∀ e, Safe ((env.set 204001 ((actL d).eval env)).set 204002 ((ldL d).eval (env.set 204001 ((actL d).eval env)))) e →
        Safe env (Expr.letE 204001 (actL d) (Expr.letE 204002 (ldL d) e)) := fun e he => ⟨hactS, hldS, he⟩
    unfold Vec.mapE
    refine safeVec_map k (safeVec_zip (op := Expr.add) (fun _ _ a b => ⟨a, b⟩) (X_safe h2) ?_)
    unfold Vec.mapR
    have k2 : ∀ e, Safe ((env.set 204001 ((actL d).eval env)).set 204002 ((ldL d).eval (env.set 204001 ((actL d).eval env)))) e →
        Safe ((env.set 204001 ((actL d).eval env)).set 204002 ((ldL d).eval (env.set 204001 ((actL d).eval env)))) (Expr.mul e (Expr.var 204001)) :=
      fun e he => ⟨he, by show isFin (Env.s _ 204001); rw [set_s_ne _ _ (by decide), hs1']; trivial⟩
    exact safeVec_map k2 (actScale_safe h2 hw0)
  · show isFin (Env.s _ 204002); rw [set_s_same]; exact hldF

/-! ### inverse, leaky-relu activation -/
abbrev numI (d : Nat) : Expr EF := Expr.add (Vec.dot (WV d) (XV d)) (Expr.var 1)
abbrev usI (d : Nat) : List (Expr EF) := Vec.mapR Expr.mul (UH d) (Expr.var 205002)
abbrev denI (d : Nat) : Expr EF := Expr.add (Expr.const (Num.ofInt 1)) (Vec.dot (WV d) (usI d))
abbrev ldI (d : Nat) : Expr EF :=
  Expr.neg (Expr.prim Prim.log (Expr.prim Prim.abs (Expr.add (Expr.const (Num.ofInt 1)) (Vec.dot (usI d) (WV d)))))
abbrev xI (d : Nat) : List (Expr EF) :=
  Vec.zip Expr.sub (XV d) (Vec.mapR Expr.mul (usI d) (Expr.div (Expr.var 205001) (Expr.var 205003)))
abbrev wrapI (d : Nat) (e : Expr EF) : Expr EF :=
  Expr.letE 205001 (numI d) (Expr.letE 205002 (coef 205001) (Expr.letE 205003 (denI d) (Expr.letE 205004 (ldI d) e)))

theorem ildL_def (d : Nat) : (UnconditionalPlanar.inverse_and_log_det_lrelu.ast d (XV d) : List (Expr EF) × Expr EF) =
    (Vec.mapE (wrapI d) (xI d), wrapI d (Expr.var 205004)) := rfl

theorem usI_facts (h : PlEnv env w u x b s d) (hw0 : Jnp.dot w w ≠ 0) {c : ℝ} (hc : env.s 205002 = fin c) :
    EvalsTo env (usI d) (List.map (fun a => a * c) (uhat w u b)) ∧ SafeVec env (usI d) := by
  unfold usI Vec.mapR
  refine ⟨evalsTo_map (env' := env) (fun e r hr => by simp [Expr.eval, hr, hc]) (actScale_evalsTo h hw0), ?_⟩
  have k : ∀ e, Safe env e → Safe env (Expr.mul e (Expr.var 205002)) :=
    fun e he => ⟨he, by show isFin (env.s 205002); rw [hc]; trivial⟩
  exact safeVec_map k (actScale_safe h hw0)

/-- leaky-relu planar layer, inverse direction -/
theorem ildL_safe (h : PlEnv env w u x b s d) (hw0 : Jnp.dot w w ≠ 0) (hs0 : 0 < s) (hs1 : s ≤ 1) :
    SafeVec env (UnconditionalPlanar.inverse_and_log_det_lrelu.ast d (XV d)).1 ∧
    Safe env (UnconditionalPlanar.inverse_and_log_det_lrelu.ast d (XV d)).2 := by
  rw [ildL_def]
  have hl : u.length = w.length := by rw [h.lu, h.lw]
  -- numerator
  have hnumE : (numI d).eval env = fin (Jnp.dot w x + b) := by
    simp [Expr.eval, dot_eval' (W_evalsTo h) (X_evalsTo h), h.hb]
  have hnumS : Safe env (numI d) := ⟨dot_safe (W_safe h) (X_safe h), by show isFin (env.s 1); rw [h.hb]; trivial⟩
  generalize hn : Jnp.dot w x + b = num at hnumE
  -- slope
  let env1 := env.set 205001 ((numI d).eval env)
  have h1 : PlEnv env1 w u x b s d := h.set (by norm_num) _
  have e1 : env1.s 205001 = fin num := by show Env.s (env.set _ _) _ = _; rw [set_s_same, hnumE]
  obtain ⟨hce, hcS⟩ := coef_facts e1 h1.hs
  obtain ⟨hc0, hc1⟩ := coef_range (a := num) hs0 hs1
  generalize hcdef : (if num < 0 then s else 1) = c at hce hc0 hc1
  let env2 := env1.set 205002 ((coef 205001).eval env1)
  have h2 : PlEnv env2 w u x b s d := h1.set (by norm_num) _
  have e2 : env2.s 205002 = fin c := by show Env.s (env1.set _ _) _ = _; rw [set_s_same, hce]
  have e21 : env2.s 205001 = fin num := by show Env.s (env1.set _ _) _ = _; rw [set_s_ne _ _ (by decide), e1]
  -- denominator
  obtain ⟨husE, husS⟩ := usI_facts h2 hw0 e2
  obtain ⟨hp1, hp2⟩ := det_pos_right (b := b) hl hw0 hc0 hc1
  have hdenE : (denI d).eval env2 = fin (1 + Jnp.dot w (List.map (fun a => a * c) (uhat w u b))) := by
    simp [Expr.eval, dot_eval' (W_evalsTo h2) husE]
  have hdenS : Safe env2 (denI d) := ⟨by simp [Safe], dot_safe (W_safe h2) husS⟩
  let env3 := env2.set 205003 ((denI d).eval env2)
  have h3 : PlEnv env3 w u x b s d := h2.set (by norm_num) _
  have e3 : env3.s 205003 = fin (1 + Jnp.dot w (List.map (fun a => a * c) (uhat w u b))) := by
    show Env.s (env2.set _ _) _ = _; rw [set_s_same, hdenE]
  have e32 : env3.s 205002 = fin c := by show Env.s (env2.set _ _) _ = _; rw [set_s_ne _ _ (by decide), e2]
  have e31 : env3.s 205001 = fin num := by show Env.s (env2.set _ _) _ = _; rw [set_s_ne _ _ (by decide), e21]
  -- log-det
  obtain ⟨husE3, husS3⟩ := usI_facts h3 hw0 e32
  have harg : (Expr.add (Expr.const (Num.ofInt 1)) (Vec.dot (usI d) (WV d))).eval env3
      = fin (1 + Jnp.dot (List.map (fun a => a * c) (uhat w u b)) w) := by
    simp [Expr.eval, dot_eval' husE3 (W_evalsTo h3)]
  have habs : 0 < |1 + Jnp.dot (List.map (fun a => a * c) (uhat w u b)) w| := abs_pos.mpr hp2.ne'
  have heabs : (Expr.prim Prim.abs (Expr.add (Expr.const (Num.ofInt 1)) (Vec.dot (usI d) (WV d)))).eval env3
      = fin |1 + Jnp.dot (List.map (fun a => a * c) (uhat w u b)) w| := by
    show Num.abs (Expr.eval env3 _) = _; rw [harg]; rfl
  have hldS : Safe env3 (ldI d) := by
    refine ⟨⟨⟨by simp [Safe], dot_safe husS3 (W_safe h3)⟩, fun _ _ => trivial⟩, fun r hr => ?_⟩
    rw [heabs] at hr; cases hr; exact habs
  have hldF : isFin ((ldI d).eval env3) := by
    show isFin (-(Num.log (Expr.eval env3 _))); rw [heabs, EF.num_log habs]; trivial
  let env4 := env3.set 205004 ((ldI d).eval env3)
  have h4 : PlEnv env4 w u x b s d := h3.set (by norm_num) _
  have e44 : isFin (env4.s 205004) := by show isFin (Env.s (env3.set _ _) _); rw [set_s_same]; exact hldF
  have e43 : env4.s 205003 = fin (1 + Jnp.dot w (List.map (fun a => a * c) (uhat w u b))) := by
    show Env.s (env3.set _ _) _ = _; rw [set_s_ne _ _ (by decide), e3]
  have e42 : env4.s 205002 = fin c := by show Env.s (env3.set _ _) _ = _; rw [set_s_ne _ _ (by decide), e32]
  have e41 : env4.s 205001 = fin num := by show Env.s (env3.set _ _) _ = _; rw [set_s_ne _ _ (by decide), e31]
  have kw : ∀ e, Safe env4 e → Safe env (wrapI d e) := fun e he => ⟨hnumS, hcS, hdenS, hldS, he⟩
  refine ⟨?_, kw _ e44⟩
  unfold Vec.mapE
  refine safeVec_map kw (safeVec_zip (op := Expr.sub) (fun _ _ a b => ⟨a, b⟩) (X_safe h4) ?_)
  obtain ⟨_, husS4⟩ := usI_facts h4 hw0 e42
  have hq : Safe env4 (Expr.div (Expr.var 205001) (Expr.var 205003)) := by
    refine ⟨by show isFin (env4.s 205001); rw [e41]; trivial, by show isFin (env4.s 205003); rw [e43]; trivial, ?_⟩
    show env4.s 205003 ≠ fin 0
    rw [e43]; intro hc; exact hp1.ne' (EF.fin.inj hc)
  have k2 : ∀ e, Safe env4 e → Safe env4 (Expr.mul e (Expr.div (Expr.var 205001) (Expr.var 205003))) := fun e he => ⟨he, hq⟩
  unfold Vec.mapR
  exact safeVec_map k2 husS4

/-- the concrete environment: weight, raw act-scale, input, bias, slope -/
def envPl (w u x : List ℝ) (b s : ℝ) : Env EF :=
  { s := fun i => if i = 1 then fin b else if i = 2 then fin s else fin 0,
    v := fun j => if j = 0 then w.map fin else if j = 1 then u.map fin else if j = 2 then x.map fin else [] }

theorem envPl_pl (hw : w.length = d) (hu : u.length = d) (hx : x.length = d) : PlEnv (envPl w u x b s) w u x b s d :=
  ⟨rfl, rfl, rfl, rfl, rfl, hw, hu, hx⟩

theorem dot_ne_zero_of_exists (hw : ∃ a ∈ w, a ≠ 0) : Jnp.dot w w ≠ 0 := by
  intro h0
  obtain ⟨a, ha, hne⟩ := hw
  exact hne (ParamsPf.jdot_self_eq_zero.mp h0 a ha)
end
end AdP
end
