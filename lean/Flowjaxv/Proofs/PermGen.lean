import Flowjaxv.Proofs.Perm
import Flowjaxv.Model.Params
import Flowjaxv.Gen.PermGen
/-!
# The GENERATED `Permute` (`Gen/PermGen.lean`) is the flat hand model `Model/Perm.lean`
for every rank, every shape, every permutation array.
-/
open PermPrims Gen.PermGen

namespace PermGenPf

theorem unravel_length : ∀ (s : List Nat) (i : Nat), (unravel s i).length = s.length
  | [], _ => rfl
  | _ :: ds, i => by simp [unravel, unravel_length ds]

/-- row-major offset of the row-major coordinates of an in-range flat index is the index -/
theorem ravel_unravel : ∀ (s : List Nat) (i : Nat), i < prod s → ravelMulti s (unravel s i) = i
  | [], i, h => by
    have : i = 0 := by simpa [prod] using h
    simp [ravelMulti, unravel, this]
  | d :: ds, i, h => by
    have hP : 0 < prod ds := by
      rcases Nat.eq_zero_or_pos (prod ds) with h0 | h0
      · simp [prod] at h h0; simp [h0] at h
      · exact h0
    have hlt : i / prod ds < d := by
      rw [Nat.div_lt_iff_lt_mul hP]
      simpa [prod] using h
    simp only [unravel, ravelMulti]
    rw [ravel_unravel ds (i % prod ds) (Nat.mod_lt _ hP), Nat.mod_eq_of_lt hlt]
    exact Nat.div_add_mod' i (prod ds)

/-- the coordinate tuple of position `pos`, read across the per-axis index arrays -/
theorem unravelIndex_col (sh0 shape : List Nat) (q : List Nat) (pos : Nat) (hpos : pos < q.length) :
    ((unravelIndex ⟨sh0, q.map Int.ofNat⟩ shape).map fun i => reshape i shape).map
        (fun a => (a.data.getD pos 0).toNat) = unravel shape q[pos] := by
  apply List.ext_getElem
  · simp [unravelIndex, unravel_length]
  · intro k h1 h2
    simp [unravelIndex, reshape, List.getD_eq_getElem?_getD, List.getElem?_eq_getElem hpos,
      List.getElem?_eq_getElem (show k < (unravel shape q[pos]).length from h2)]

/-- indexing with the unravelled index arrays of a flat index list `q` is flat indexing with `q` — every rank ≥ 1, every shape -/
theorem getItem_unravel {α : Type} [Inhabited α] (sh0 shape : List Nat) (hne : shape ≠ []) (q : List Nat)
    (hq : ∀ i ∈ q, i < prod shape) (x : FArr α) (hx : x.shape = shape) :
    (getItem x ((unravelIndex ⟨sh0, q.map Int.ofNat⟩ shape).map fun i => reshape i shape)).data = PermModel.fwd q x.data ∧
    (getItem x ((unravelIndex ⟨sh0, q.map Int.ofNat⟩ shape).map fun i => reshape i shape)).shape = shape := by
  obtain ⟨d, ds, rfl⟩ := List.exists_cons_of_ne_nil hne
  have hhead : (((unravelIndex ⟨sh0, q.map Int.ofNat⟩ (d :: ds)).map fun i => reshape i (d :: ds))).head?
      = some ⟨d :: ds, (q.map Int.ofNat).map fun i => Int.ofNat ((unravel (d :: ds) i.toNat).getD 0 0)⟩ := by
    simp [unravelIndex, List.range_succ_eq_map, reshape]
  unfold getItem
  rw [hhead]
  refine ⟨?_, rfl⟩
  simp only [PermModel.fwd]
  apply List.ext_getElem
  · simp
  · intro pos h1 h2
    have hpos : pos < q.length := by simpa using h2
    simp only [List.getElem_map, List.getElem_range]
    rw [unravelIndex_col sh0 (d :: ds) q pos hpos, hx, ravel_unravel _ _ (hq _ (List.getElem_mem hpos))]

/-! ### the constructor's check -/

theorem zipWith_ne_any : ∀ (a b : List Int), a.length = b.length →
    (List.zipWith (fun x y => !decide (x = y)) a b).any id = (a != b)
  | [], [], _ => rfl
  | [], _ :: _, h => by simp at h
  | _ :: _, [], h => by simp at h
  | x :: a, y :: b, h => by
    have ih := zipWith_ne_any a b (by simpa using h)
    by_cases hxy : x = y
    · subst hxy
      have e : (x :: a != x :: b) = (a != b) := by
        by_cases hab : a = b
        · subst hab; simp
        · simp [bne]
      rw [e, ← ih]
      simp
    · simp [hxy, bne]

/-- the predicate handed to `eqx.error_if` fires exactly when the hand model's `permuteRejects` does -/
theorem errorIf_pred (p : IArr) :
    (ne (sort (ravel p)) (arange (size p))).any id = Params.permuteRejects p.data := by
  simp only [ne, sort, ravel, arange, size, Params.permuteRejects]
  exact zipWith_ne_any _ _ (by simp)

/-- **the generated constructor accepts exactly** when the sorted flattened entries are `0, 1, …, size-1` (`Params.permuteRejects`
is false), whatever the rank / shape; it then stores the array's shape. The only exception is `eqx.error_if`'s. -/
theorem gen_init_accepts_iff (p : IArr) :
    (∃ s, Permute.init p = .ok s) ↔ Params.permuteRejects p.data = false := by
  simp only [Permute.init, arraylikeToArray, Except.bind, errorIf, errorIf_pred]
  cases h : Params.permuteRejects p.data <;> simp

theorem gen_init_ok {p : IArr} {s : Permute} (h : Permute.init p = .ok s) :
    Params.permuteRejects p.data = false ∧ s.shape = p.shape ∧
    s.permutation = (unravelIndex (ravel p) p.shape).map (fun i => reshape i p.shape) ∧
    s.inverse_permutation = (unravelIndex (argsort (ravel p)) p.shape).map (fun i => reshape i p.shape) := by
  simp only [Permute.init, arraylikeToArray, Except.bind, errorIf, errorIf_pred] at h
  cases hr : Params.permuteRejects p.data
  · simp only [hr, Bool.false_eq_true, if_false, Except.ok.injEq] at h
    subst h
    exact ⟨rfl, rfl, rfl, rfl⟩
  · simp [hr] at h

/-- an accepted array is a permutation of `0..n-1`: entries non-negative, and as naturals a `List.Perm` of `range n` -/
theorem accepted_perm {d : List Int} (h : Params.permuteRejects d = false) :
    (d.map Int.toNat).Perm (List.range (d.map Int.toNat).length) ∧ d = (d.map Int.toNat).map Int.ofNat := by
  have hs : d.mergeSort (fun a b => decide (a ≤ b)) = (List.range d.length).map Int.ofNat := by
    simpa [Params.permuteRejects] using h
  have hp : d.Perm ((List.range d.length).map Int.ofNat) := by
    rw [← hs]; exact (List.mergeSort_perm d _).symm
  have hnn : ∀ e ∈ d, 0 ≤ e := by
    intro e he
    obtain ⟨j, _, rfl⟩ := List.mem_map.mp (hp.mem_iff.mp he)
    exact Int.natCast_nonneg j
  refine ⟨?_, ?_⟩
  · have := hp.map Int.toNat
    simpa [List.map_map, Function.comp_def] using this
  · rw [List.map_map]
    conv_lhs => rw [← List.map_id d]
    apply List.map_congr_left
    intro e he
    simp [Int.toNat_of_nonneg (hnn e he)]

/-- **generated = hand model** (`Model/Perm.lean`, flat row-major): for an array of any rank ≥ 1 and any shape whose constructor call is
accepted, on every input of that shape: `x[self.permutation]` is flat indexing by the flattened permutation, `y[self.inverse_permutation]`
is flat indexing by its `argsort`, both results have the declared shape, both log-dets are `0`. -/
theorem gen_permute_eq_model {α : Type} [Inhabited α] [OfNat α 0] (p : IArr) (hwf : p.data.length = prod p.shape)
    (hne : p.shape ≠ []) {s : Permute} (h : Permute.init p = .ok s) (x : FArr α) (hx : x.shape = p.shape) :
    (p.data.map Int.toNat).Perm (List.range (p.data.map Int.toNat).length) ∧ s.shape = p.shape ∧
    (s.transform x).data = PermModel.fwd (p.data.map Int.toNat) x.data ∧ (s.transform x).shape = p.shape ∧
    (s.inverse x).data = PermModel.inv (p.data.map Int.toNat) x.data ∧ (s.inverse x).shape = p.shape ∧
    s.transform_and_log_det x = (s.transform x, 0) ∧ s.inverse_and_log_det x = (s.inverse x, 0) := by
  obtain ⟨hacc, hshape, hperm, hinv⟩ := gen_init_ok h
  obtain ⟨hP, hdata⟩ := accepted_perm hacc
  have hn : (p.data.map Int.toNat).length = prod p.shape := by simpa using hwf
  have hlt : ∀ i ∈ p.data.map Int.toNat, i < prod p.shape := by
    intro i hi; rw [← hn]; exact List.mem_range.mp (hP.mem_iff.mp hi)
  have hlt' : ∀ i ∈ PermModel.argsort (p.data.map Int.toNat), i < prod p.shape := by
    intro i hi
    simp only [PermModel.argsort, List.mem_map, List.mem_range] at hi
    obtain ⟨j, hj, rfl⟩ := hi
    rw [← hn]
    exact List.idxOf_lt_length_iff.mpr (hP.mem_iff.mpr (List.mem_range.mpr hj))
  have e1 : ravel p = ⟨[p.data.length], (p.data.map Int.toNat).map Int.ofNat⟩ := by
    simp only [ravel]; rw [← hdata]
  have e2 : argsort (ravel p) = ⟨[p.data.length], (PermModel.argsort (p.data.map Int.toNat)).map Int.ofNat⟩ := rfl
  have f := getItem_unravel [p.data.length] p.shape hne _ hlt x hx
  have g := getItem_unravel [p.data.length] p.shape hne _ hlt' x hx
  refine ⟨hP, hshape, ?_, ?_, ?_, ?_, rfl, rfl⟩
  · simp only [Permute.transform, hperm, e1]; exact f.1
  · simp only [Permute.transform, hperm, e1]; exact f.2
  · simp only [Permute.inverse, hinv, e2]; exact g.1
  · simp only [Permute.inverse, hinv, e2]; exact g.2

/-- rank 0 (`shape = ()`): the index tuples are empty and `x[()]` is `x` — both directions are the identity -/
theorem gen_permute_rank0 {α : Type} [Inhabited α] [OfNat α 0] (p : IArr) (h0 : p.shape = []) {s : Permute}
    (h : Permute.init p = .ok s) (x : FArr α) :
    s.shape = [] ∧ s.transform x = x ∧ s.inverse x = x := by
  obtain ⟨_, hshape, hperm, hinv⟩ := gen_init_ok h
  refine ⟨by rw [hshape, h0], ?_, ?_⟩
  · simp only [Permute.transform, hperm, h0, unravelIndex]; rfl
  · simp only [Permute.inverse, hinv, h0, unravelIndex]; rfl

end PermGenPf
