import Flowjaxv.Proofs.Leaves
import Flowjaxv.Proofs.DistTheory
import Flowjaxv.Model.Families
import Mathlib.Analysis.SpecialFunctions.Gamma.Basic
import Mathlib.Probability.Distributions.Gaussian.Real
import Mathlib.Probability.Distributions.Cauchy
import Mathlib.Probability.Distributions.Exponential
/-!
# ℝ instances of `HasPi` / `HasLgamma` and the textbook form of every family's log-density (C05 helpers)

Every statement is about `Families.*` (`Model/Families.lean`), i.e. the GENERATED standard
log-densities under the generated `Transformed.logProb` with the constructor's bijection.
-/
open Gen RealInst ProbabilityTheory

noncomputable instance : HasPi ℝ := ⟨Real.pi⟩
noncomputable instance : HasLgamma ℝ := ⟨fun x => Real.log (Real.Gamma x)⟩

namespace FamiliesPf
open Families

@[simp] theorem pi_eq : (HasPi.pi : ℝ) = Real.pi := rfl
@[simp] theorem lgamma_eq (x : ℝ) : (HasLgamma.lgamma x : ℝ) = Real.log (Real.Gamma x) := rfl

theorem affine_scale_eq (loc scale : ℝ) (h : 0 < scale) : (Ctors.affine loc scale).scale = scale :=
  Leaves.softplus_softplus_inv h
theorem affine_loc_eq (loc scale : ℝ) : (Ctors.affine loc scale).loc = loc := rfl
theorem scale_scale_eq (s : ℝ) (h : 0 < s) : (Ctors.scale s).scale = s :=
  Leaves.softplus_softplus_inv h
theorem studentDf_eq (df : ℝ) (h : 0 < df) : studentDf df = df := Leaves.softplus_softplus_inv h

theorem locScale_logProb (lp : ℝ → ℝ) (loc scale x : ℝ) (h : 0 < scale) :
    (locScale lp loc scale).logProb x () = lp ((x - loc) / scale) - Real.log scale := by
  have hs := affine_scale_eq loc scale h
  simp only [locScale, locScaleComp, oneDim, Transformed.toDist, Transformed.logProb, stdDist, DistCore.toDist, Affine.toBij,
    Affine.inverse_and_log_det, hs, sumElem_eq, jabs_eq, log_eq, abs_of_pos h]
  show lp ((x - (Ctors.affine loc scale).loc) / scale) + -Real.log scale = _
  rfl

theorem normal_lp (μ σ x : ℝ) (h : 0 < σ) :
    (normal μ σ).logProb x () = -(x - μ) ^ 2 / (2 * σ ^ 2) - Real.log (σ * Real.sqrt (2 * Real.pi)) := by
  unfold normal
  rw [locScale_logProb _ _ _ _ h]
  simp only [StandardNormal.logProb, Stats.normLogpdf, sumElem_eq, log_eq, sqrt_eq, pi_eq]
  have hp : 0 < Real.sqrt (2 * Real.pi) := Real.sqrt_pos.mpr (by positivity)
  rw [Real.log_mul h.ne' hp.ne']
  field_simp
  ring

theorem logNormal_lp (μ σ x : ℝ) (h : 0 < σ) (hx : 0 < x) :
    (logNormal μ σ).logProb x ()
      = -(Real.log x - μ) ^ 2 / (2 * σ ^ 2) - Real.log (x * σ * Real.sqrt (2 * Real.pi)) := by
  have hs := affine_scale_eq μ σ h
  have hl := affine_loc_eq μ σ
  simp only [logNormal, logNormalComp, oneDim, Transformed.toDist, Transformed.logProb, stdDist, DistCore.toDist, Chain.toBij,
    Chain.inverse_and_log_det, List.reverse_cons, List.reverse_nil, List.nil_append, List.cons_append,
    List.foldl_cons, List.foldl_nil, Exp.toBij, Exp.inverse_and_log_det, Affine.toBij,
    Affine.inverse_and_log_det, hs, hl, sumElem_eq, jabs_eq, log_eq, abs_of_pos h,
    StandardNormal.logProb, Stats.normLogpdf, sqrt_eq, pi_eq]
  have hp : 0 < Real.sqrt (2 * Real.pi) := Real.sqrt_pos.mpr (by positivity)
  rw [Real.log_mul (mul_pos hx h).ne' hp.ne', Real.log_mul hx.ne' h.ne']
  field_simp
  ring

theorem uniform_lp (a b x : ℝ) (h : a < b) (hx1 : a ≤ x) (hx2 : x ≤ b) :
    (uniform a b).logProb x () = -Real.log (b - a) := by
  have hpos : 0 < b - a := sub_pos.mpr h
  have hs := affine_scale_eq a (b - a) hpos
  have hl := affine_loc_eq a (b - a)
  simp only [uniform, uniformComp, oneDim, Transformed.toDist, Transformed.logProb, stdDist, DistCore.toDist, Affine.toBij,
    Affine.inverse_and_log_det, hs, hl, sumElem_eq, jabs_eq, log_eq, abs_of_pos hpos,
    StandardUniform.logProb, Stats.uniformLogpdf]
  have h0 : ¬ (x - a) / (b - a) < 0 := not_lt.mpr (div_nonneg (by linarith) hpos.le)
  have h1 : ¬ 1 < (x - a) / (b - a) := not_lt.mpr ((div_le_one hpos).mpr (by linarith))
  simp [h0, h1]

theorem gumbel_lp (μ β x : ℝ) (h : 0 < β) :
    (gumbel μ β).logProb x ()
      = -((x - μ) / β + Real.exp (-((x - μ) / β))) - Real.log β := by
  unfold gumbel
  rw [locScale_logProb _ _ _ _ h]
  simp only [StandardGumbel.logProb, sumElem_eq, exp_eq]

theorem cauchy_lp (x₀ γ x : ℝ) (h : 0 < γ) :
    (cauchy x₀ γ).logProb x ()
      = -Real.log (Real.pi * γ * (1 + ((x - x₀) / γ) ^ 2)) := by
  unfold cauchy
  rw [locScale_logProb _ _ _ _ h]
  simp only [StandardCauchy.logProb, Stats.cauchyLogpdf, sumElem_eq, log_eq, pi_eq]
  have h1 : 0 < 1 + ((x - x₀) / γ) ^ 2 := by positivity
  rw [Real.log_mul (mul_pos Real.pi_pos h).ne' h1.ne', Real.log_mul Real.pi_pos.ne' h.ne', pow_two]
  ring

theorem laplace_lp (μ b x : ℝ) (h : 0 < b) :
    (laplace μ b).logProb x () = -|x - μ| / b - Real.log (2 * b) := by
  unfold laplace
  rw [locScale_logProb _ _ _ _ h]
  simp only [StandardLaplace.logProb, Stats.laplaceLogpdf, sumElem_eq, log_eq, jabs_eq]
  rw [Real.log_mul (by norm_num) h.ne', abs_div, abs_of_pos h]
  ring

theorem exponential_lp (lam x : ℝ) (h : 0 < lam) (hx : 0 ≤ x) :
    (exponential lam).logProb x () = Real.log lam - lam * x := by
  have hpos : 0 < 1 / lam := by positivity
  have hs := scale_scale_eq (1 / lam) hpos
  simp only [exponential, exponentialComp, oneDim, Transformed.toDist, Transformed.logProb, stdDist, DistCore.toDist, Scale.toBij,
    Scale.inverse_and_log_det, hs, sumElem_eq, jabs_eq, log_eq, abs_of_pos hpos,
    StandardExponential.logProb, Stats.exponLogpdf]
  have h0 : ¬ x / (1 / lam) < 0 := not_lt.mpr (div_nonneg hx hpos.le)
  rw [if_neg h0, Real.log_one, one_div, Real.log_inv]
  field_simp
  ring

theorem logistic_lp (μ s x : ℝ) (h : 0 < s) :
    (logistic μ s).logProb x ()
      = -((x - μ) / s) - 2 * Real.log (1 + Real.exp (-((x - μ) / s))) - Real.log s := by
  unfold logistic
  rw [locScale_logProb _ _ _ _ h]
  simp only [StandardLogistic.logProb, Stats.logisticLogpdf, sumElem_eq, softplus_eq]

theorem studentT_lp (ν μ σ x : ℝ) (hν : 0 < ν) (h : 0 < σ) :
    (studentT ν μ σ).logProb x ()
      = Real.log (Real.Gamma ((ν + 1) / 2)) - Real.log (Real.Gamma (ν / 2))
        - Real.log (ν * Real.pi) / 2 - Real.log σ
        - (ν + 1) / 2 * Real.log (1 + ((x - μ) / σ) ^ 2 / ν) := by
  unfold studentT
  rw [locScale_logProb _ _ _ _ h, studentDf_eq ν hν]
  simp only [StdStudentT.logProb, Stats.tLogpdf, sumElem_eq, log_eq, pi_eq, lgamma_eq, pow_two]
  ring

/-! ### independent dimensions, logsumexp, mixtures -/

theorem jsum_eq (xs : List ℝ) : Jnp.sum xs = xs.sum := by
  unfold Jnp.sum
  have : ∀ (a : ℝ) (l : List ℝ), List.foldl (· + ·) a l = a + l.sum := by
    intro a l
    induction l generalizing a with
    | nil => simp
    | cons x l ih => simp only [List.foldl_cons, List.sum_cons, ih]; ring
  rw [this]; simp

theorem foldl_add_eq (xs : List ℝ) : List.foldl (· + ·) 0 xs = xs.sum := jsum_eq xs

/-- the lifted log-prob is the sum of the per-dimension log-probs -/
theorem lifted_logProb (comps : List (Comp ℝ)) (xs : List ℝ) :
    (lifted comps).logProb xs ()
      = (List.zipWith (fun p x => (oneDim p).logProb x ()) comps xs).sum := by
  simp only [lifted, oneDim, Transformed.toDist, Transformed.logProb, stdVec, stdDist, DistCore.toDist,
    Bij.elementwise, jsum_eq, foldl_add_eq]
  induction comps generalizing xs with
  | nil => simp
  | cons p ps ih =>
    cases xs with
    | nil => simp
    | cons x xs =>
      simp only [List.map_cons, List.zipWith_cons_cons, List.sum_cons]
      rw [← ih xs]
      ring

/-! ### logsumexp -/
theorem sum_exp_pos {xs : List ℝ} (h : xs ≠ []) : 0 < (xs.map Real.exp).sum := by
  cases xs with
  | nil => exact absurd rfl h
  | cons x xs =>
    simp only [List.map_cons, List.sum_cons]
    have : 0 ≤ (xs.map Real.exp).sum := List.sum_nonneg (by
      intro y hy; obtain ⟨z, _, rfl⟩ := List.mem_map.mp hy; exact (Real.exp_pos z).le)
    linarith [Real.exp_pos x]

theorem sum_exp_shift (xs : List ℝ) (m : ℝ) :
    (xs.map (fun x => Real.exp (x - m))).sum = (xs.map Real.exp).sum * Real.exp (-m) := by
  induction xs with
  | nil => simp
  | cons x xs ih =>
    rw [List.map_cons, List.sum_cons, ih, List.map_cons, List.sum_cons, sub_eq_add_neg, Real.exp_add]; ring

/-- the max-shifted `logsumexp` that the driver runs equals `log Σ exp xᵢ` -/
theorem logsumexp_eq (xs : List ℝ) : logsumexp xs = Real.log ((xs.map Real.exp).sum) := by
  unfold logsumexp
  simp only [sub_self, le_refl, if_true, jsum_eq, exp_eq, log_eq]
  rcases eq_or_ne xs [] with rfl | hne
  · simp [listMax]
  · rw [sum_exp_shift, Real.log_mul (sum_exp_pos hne).ne' (Real.exp_pos _).ne', Real.log_exp]; ring

theorem logSoftmax_eq (v : List ℝ) :
    logSoftmax v = v.map (fun x => x - Real.log ((v.map Real.exp).sum)) := by
  unfold logSoftmax; simp only [logsumexp_eq]

theorem map_exp_log {ws : List ℝ} (h : ∀ w ∈ ws, 0 < w) : (ws.map Real.log).map Real.exp = ws := by
  induction ws with
  | nil => rfl
  | cons w ws ih =>
    simp only [List.map_cons]
    rw [Real.exp_log (h w (List.mem_cons_self ..)), ih (fun w' hw' => h w' (List.mem_cons_of_mem _ hw'))]

theorem logNormWeights_eq {ws : List ℝ} (h : ∀ w ∈ ws, 0 < w) :
    logNormWeights ws = ws.map (fun w => Real.log w - Real.log ws.sum) := by
  unfold logNormWeights
  have : (Transc.log : ℝ → ℝ) = Real.log := rfl
  rw [this, logSoftmax_eq, map_exp_log h, List.map_map]; rfl

theorem mix_sum_aux (L : ℝ) : ∀ (ws : List ℝ), (∀ w ∈ ws, 0 < w) → ∀ lps : List ℝ,
    ((List.zipWith (· + ·) lps (ws.map (fun w => Real.log w - L))).map Real.exp).sum
      = (List.zipWith (fun w lp => w * Real.exp (-L) * Real.exp lp) ws lps).sum := by
  intro ws
  induction ws with
  | nil => intro _ lps; simp
  | cons w ws ih =>
    intro h lps
    cases lps with
    | nil => simp
    | cons lp lps =>
      simp only [List.map_cons, List.zipWith_cons_cons, List.sum_cons]
      rw [ih (fun w' hw' => h w' (List.mem_cons_of_mem _ hw')) lps]
      have hw := h w (List.mem_cons_self ..)
      rw [Real.exp_add, sub_eq_add_neg, Real.exp_add, Real.exp_log hw]; ring

theorem mixture_density {ws : List ℝ} (h : ∀ w ∈ ws, 0 < w) (lps : List ℝ) :
    mixtureLogProb lps ws
      = Real.log ((List.zipWith (fun w lp => w / ws.sum * Real.exp lp) ws lps).sum) := by
  unfold mixtureLogProb
  rw [logsumexp_eq, logNormWeights_eq h, mix_sum_aux _ ws h lps]
  rcases eq_or_ne ws [] with rfl | hne
  · simp
  · have hpos : 0 < ws.sum := by
      cases ws with
      | nil => exact absurd rfl hne
      | cons w ws =>
        simp only [List.sum_cons]
        have : 0 ≤ ws.sum := List.sum_nonneg (fun y hy => (h y (List.mem_cons_of_mem _ hy)).le)
        linarith [h w (List.mem_cons_self ..)]
    rw [Real.exp_neg, Real.exp_log hpos]
    rfl


theorem logSoftmax_normalised {v : List ℝ} (h : v ≠ []) : ((logSoftmax v).map Real.exp).sum = 1 := by
  rw [logSoftmax_eq, List.map_map]
  have := sum_exp_shift v (Real.log ((v.map Real.exp).sum))
  have hpos := sum_exp_pos h
  rw [Real.exp_neg, Real.exp_log hpos] at this
  show (List.map (fun x => Real.exp (x - Real.log (List.map Real.exp v).sum)) v).sum = 1
  rw [this]; field_simp

theorem sum_pos_of_pos {ws : List ℝ} (h : ∀ w ∈ ws, 0 < w) (hne : ws ≠ []) : 0 < ws.sum := by
  cases ws with
  | nil => exact absurd rfl hne
  | cons w ws =>
    simp only [List.sum_cons]
    have : 0 ≤ ws.sum := List.sum_nonneg (fun y hy => (h y (List.mem_cons_of_mem _ hy)).le)
    linarith [h w (List.mem_cons_self ..)]

theorem mixture_scale_invariant {ws : List ℝ} (h : ∀ w ∈ ws, 0 < w) (lps : List ℝ) {c : ℝ} (hc : 0 < c) :
    mixtureLogProb lps (ws.map (fun w => c * w)) = mixtureLogProb lps ws := by
  have h' : ∀ w ∈ ws.map (fun w => c * w), 0 < w := by
    intro w hw; obtain ⟨w', hw', rfl⟩ := List.mem_map.mp hw; exact mul_pos hc (h w' hw')
  rw [mixture_density h', mixture_density h, List.sum_map_mul_left, List.zipWith_map_left]
  congr 3
  funext w lp
  simp only [List.map_id']
  rcases eq_or_ne ws.sum 0 with h0 | h0
  · simp [h0]
  · field_simp

/-! ### samplers -/
theorem locScale_sample (lp : ℝ → ℝ) (loc scale z : ℝ) (h : 0 < scale) :
    (locScale lp loc scale).sample z () = scale * z + loc := by
  have hs := affine_scale_eq loc scale h
  simp only [locScale, locScaleComp, oneDim, Transformed.toDist, Transformed.sample, stdDist, DistCore.toDist, Affine.toBij,
    Affine.transform, hs, affine_loc_eq]
  ring

theorem locScale_consistent (lp : ℝ → ℝ) (loc scale : ℝ) (h : 0 < scale) :
    (locScale lp loc scale).Consistent := by
  have hs := affine_scale_eq loc scale h
  intro z c
  simp only [locScale, locScaleComp, oneDim, Transformed.toDist, Transformed.sample, Transformed.sampleLp, Transformed.logProb,
    stdDist, DistCore.toDist, DistCore.defaultSampleLp, Affine.toBij, Affine.transform,
    Affine.transform_and_log_det, Affine.inverse_and_log_det, hs, affine_loc_eq, sumElem_eq]
  ext
  · rfl
  · simp only
    -- whichever way the source orders `loc + scale * z`
    simp only [add_sub_cancel_right, add_sub_cancel_left, mul_div_cancel_left₀ _ h.ne', mul_div_cancel_right₀ _ h.ne']; ring

theorem logNormal_sample (μ σ z : ℝ) (h : 0 < σ) :
    (logNormal μ σ).sample z () = Real.exp (σ * z + μ) := by
  have hs := affine_scale_eq μ σ h
  simp only [logNormal, logNormalComp, oneDim, Transformed.toDist, Transformed.sample, stdDist, DistCore.toDist, Chain.toBij,
    Chain.transform, List.foldl_cons, List.foldl_nil, Affine.toBij, Exp.toBij, Exp.transform,
    Affine.transform, hs, affine_loc_eq, exp_eq]
  congr 1; ring

theorem logNormal_consistent (μ σ : ℝ) (h : 0 < σ) : (logNormal μ σ).Consistent := by
  have hs := affine_scale_eq μ σ h
  intro z c
  simp only [logNormal, logNormalComp, oneDim, Transformed.toDist, Transformed.sample, Transformed.sampleLp, Transformed.logProb,
    stdDist, DistCore.toDist, DistCore.defaultSampleLp, Chain.toBij, Chain.transform,
    Chain.transform_and_log_det, Chain.inverse_and_log_det, List.reverse_cons, List.reverse_nil,
    List.nil_append, List.cons_append, List.foldl_cons, List.foldl_nil, Affine.toBij, Exp.toBij,
    Exp.transform, Exp.transform_and_log_det, Exp.inverse_and_log_det, Affine.transform,
    Affine.transform_and_log_det, Affine.inverse_and_log_det, hs, affine_loc_eq, sumElem_eq, exp_eq,
    log_eq, Real.log_exp]
  ext
  · rfl
  · simp only
    simp only [add_sub_cancel_right, add_sub_cancel_left, mul_div_cancel_left₀ _ h.ne', mul_div_cancel_right₀ _ h.ne']; ring

theorem exponential_sample (lam z : ℝ) (h : 0 < lam) :
    (exponential lam).sample z () = z / lam := by
  have hpos : 0 < 1 / lam := by positivity
  have hs := scale_scale_eq (1 / lam) hpos
  simp only [exponential, exponentialComp, oneDim, Transformed.toDist, Transformed.sample, stdDist, DistCore.toDist, Scale.toBij,
    Scale.transform, hs]
  field_simp

theorem exponential_consistent (lam : ℝ) (h : 0 < lam) : (exponential lam).Consistent := by
  have hpos : 0 < 1 / lam := by positivity
  have hs := scale_scale_eq (1 / lam) hpos
  intro z c
  simp only [exponential, exponentialComp, oneDim, Transformed.toDist, Transformed.sample, Transformed.sampleLp, Transformed.logProb,
    stdDist, DistCore.toDist, DistCore.defaultSampleLp, Scale.toBij, Scale.transform,
    Scale.transform_and_log_det, Scale.inverse_and_log_det, hs, sumElem_eq]
  ext
  · rfl
  · simp only
    have : z * (1 / lam) / (1 / lam) = z := by field_simp
    rw [this]; ring

/-! ### links to Mathlib's probability library -/

theorem normal_eq_log_gaussianPDF (μ σ x : ℝ) (h : 0 < σ) :
    (normal μ σ).logProb x () = Real.log (gaussianPDFReal μ (NNReal.mk (σ ^ 2) (sq_nonneg σ)) x) := by
  rw [normal_lp μ σ x h, gaussianPDFReal_def]
  have hsq : Real.sqrt (2 * Real.pi * ((NNReal.mk (σ ^ 2) (sq_nonneg σ)) : ℝ)) = σ * Real.sqrt (2 * Real.pi) := by
    show Real.sqrt (2 * Real.pi * σ ^ 2) = _
    rw [Real.sqrt_mul (by positivity), Real.sqrt_sq h.le]; ring
  rw [hsq]
  have hp : 0 < σ * Real.sqrt (2 * Real.pi) := mul_pos h (Real.sqrt_pos.mpr (by positivity))
  rw [Real.log_mul (inv_pos.mpr hp).ne' (Real.exp_pos _).ne', Real.log_inv, Real.log_exp]
  show _ = -Real.log (σ * √(2 * Real.pi)) + -(x - μ) ^ 2 / (2 * σ ^ 2)
  ring

theorem cauchy_eq_log_cauchyPDF (x₀ γ x : ℝ) (h : 0 < γ) :
    (cauchy x₀ γ).logProb x () = Real.log (cauchyPDFReal x₀ (NNReal.mk γ h.le) x) := by
  rw [cauchy_lp x₀ γ x h, cauchyPDFReal_def, ← Real.log_inv]
  congr 1
  show _ = Real.pi⁻¹ * γ * ((x - x₀) ^ 2 + γ ^ 2)⁻¹
  have : 0 < (x - x₀) ^ 2 + γ ^ 2 := by positivity
  field_simp
  ring

theorem exponential_eq_log_exponentialPDF (lam x : ℝ) (h : 0 < lam) (hx : 0 ≤ x) :
    (exponential lam).logProb x () = Real.log (exponentialPDFReal lam x) := by
  rw [exponential_lp lam x h hx, exponentialPDFReal, gammaPDFReal, if_pos hx]
  simp only [Real.rpow_one, Real.Gamma_one, div_one, sub_self, Real.rpow_zero, mul_one]
  rw [Real.log_mul h.ne' (Real.exp_pos _).ne', Real.log_exp]; ring

/-- samples follow the density (Normal): pushing a standard Gaussian base sample through the model's sampler
gives the Gaussian law with the constructor's mean and variance -/
theorem normal_sample_law (μ σ : ℝ) (h : 0 < σ) :
    (gaussianReal 0 1).map (fun z => (normal μ σ).sample z ()) = gaussianReal μ (NNReal.mk (σ ^ 2) (sq_nonneg σ)) := by
  have hf : (fun z => (normal μ σ).sample z ()) = (fun y => y + μ) ∘ (fun z => σ * z) := by
    funext z; exact locScale_sample _ μ σ z h
  rw [hf, ← MeasureTheory.Measure.map_map (by fun_prop) (by fun_prop), gaussianReal_map_const_mul,
    gaussianReal_map_add_const]
  congr 1 <;> simp

/-! ### which branch is taken outside the support -/

/-- outside `[a, b]` the generated code evaluates `log 0` (IEEE: −∞) plus the finite log-det -/
theorem uniform_outside (a b x : ℝ) (h : a < b) (hx : x < a ∨ b < x) :
    (uniform a b).logProb x () = (Transc.log (0 : ℝ)) - Real.log (b - a) := by
  have hpos : 0 < b - a := sub_pos.mpr h
  have hs := affine_scale_eq a (b - a) hpos
  have hl := affine_loc_eq a (b - a)
  simp only [uniform, uniformComp, oneDim, Transformed.toDist, Transformed.logProb, stdDist, DistCore.toDist,
    Affine.toBij, Affine.inverse_and_log_det, hs, hl, sumElem_eq, jabs_eq, abs_of_pos hpos,
    StandardUniform.logProb, Stats.uniformLogpdf]
  rcases hx with hx | hx
  · have h0 : (x - a) / (b - a) < 0 := div_neg_of_neg_of_pos (by linarith) hpos
    rw [if_pos h0]; rfl
  · have h0 : ¬ (x - a) / (b - a) < 0 := not_lt.mpr (div_nonneg (by linarith) hpos.le)
    have h1 : 1 < (x - a) / (b - a) := (one_lt_div hpos).mpr (by linarith)
    rw [if_neg h0, if_pos h1]; rfl

theorem exponential_outside (lam x : ℝ) (h : 0 < lam) (hx : x < 0) :
    (exponential lam).logProb x () = -(lam * x) + (Transc.log (0 : ℝ)) + Real.log lam := by
  have hpos : 0 < 1 / lam := by positivity
  have hs := scale_scale_eq (1 / lam) hpos
  simp only [exponential, exponentialComp, oneDim, Transformed.toDist, Transformed.logProb, stdDist,
    DistCore.toDist, Scale.toBij, Scale.inverse_and_log_det, hs, sumElem_eq, jabs_eq, abs_of_pos hpos,
    StandardExponential.logProb, Stats.exponLogpdf]
  have h0 : x / (1 / lam) < 0 := div_neg_of_neg_of_pos hx hpos
  rw [if_pos h0, log_eq, log_eq, one_div, Real.log_inv]
  field_simp

end FamiliesPf
