import Flowjaxv.Model.TraceSem
/-!
# Noninterference for checked control-flow skeletons (C14)

For a skeleton accepted by the staging discipline of `Model/Trace.lean`, two runs of the concrete
semantics of `Model/TraceSem.lean` from stores that agree on static data take the SAME control path,
end in the same way and keep agreeing on static data.  Hence the one path JAX records while tracing
(on tracers that carry the static aspect only) is the path of every concrete execution with the same
static data: `jit` replays what eager execution would do, `vmap` does what the Python loop over the
batch would do for every element, and the method is a deterministic function of its inputs.
-/
namespace Trace

variable {Val Aspect : Type}

/-! ## the relation -/

/-- two stores agree on static data: equal on every static variable, same static aspect everywhere -/
def Rel (S : Sem Val Aspect) (Γ : Env) (σ₁ σ₂ : Store Val) : Prop :=
  ∀ v, (Γ v = .static → σ₁ v = σ₂ v) ∧ S.aspect (σ₁ v) = S.aspect (σ₂ v)

/--
The two semantic ASSUMPTIONS on the expression evaluator, relative to a staging environment `Γ`.

* `static_eq` (A1): an expression that `E.stage` classifies as static evaluates to the same value in
  stores that agree on static data.  By definition of `E.stage` such an expression calls no array
  library and every variable it reads is either static in `Γ` (equal in both stores) or is read
  through its static aspect only (`x.shape`, `x.ndim`, `len(x)`, `x is None`, `isinstance(x, …)`; equal
  aspects in both stores).  So A1 says precisely that the skeleton generator's `reads`/`aspectOnly`
  annotation is HONEST: the expression's value is a function of the values of its full reads and the
  aspects of its aspect-only reads, of nothing else (no hidden global state, no RNG, no clock) —
  this is what is trusted about `tools/py2lean/tracegen.py` and about Python expression evaluation.
* `aspect_eq` (A2): the static aspect of the value of EVERY expression, traced or not, is the same in
  stores that agree on static data: shapes, dtypes, None-ness and pytree structure of a result are
  determined by the shapes/dtypes/structure of the operands and by static values (`jnp.zeros(n)`,
  `x.reshape(shape)`, `x[i]` for a static `i`).  This is the contract of JAX's abstract evaluation
  (`jax.eval_shape`): every primitive has a shape rule that does not look at operand values, and
  operations without one (`jnp.nonzero(x)` without `size=`, boolean-mask indexing, `x[:n]` for traced
  `n`) are rejected by JAX itself at trace time.  It is what is trusted about JAX.

A1 constrains the generator in one place worth spelling out.  `for b in self.bijections:` with `self`
TRACED (the usual case: `jit(loss)(params, x)`) must not be emitted with the iterable as an aspect-only
read of `self`: the module list is not a function of the pytree structure of `self` (it contains the
array leaves), A1 would be false, and the loop variable would wrongly be classified static.  Emitted as
a full read the iterable is traced and `check` rejects the method.  The honest encoding needs no change
of `Stmt`: `for i in <aspect-only read of self>: b = <full read of self, i>; …` — the iteration count is
structure, the item is traced (`Toy.chainTracedSelf_checks`, `Toy.chainNaive_rejected`,
`Toy.chainLeak_rejected`).

Nothing is assumed about `truthy` and `items`: they are applied to static values only.
`toy_evOK` below shows the assumptions are satisfiable (for every `Γ` at once).
-/
structure EvOK (S : Sem Val Aspect) (Γ : Env) : Prop where
  static_eq : ∀ (e : E) (σ₁ σ₂ : Store Val), e.stage Γ = .static → Rel S Γ σ₁ σ₂ → S.ev e σ₁ = S.ev e σ₂
  aspect_eq : ∀ (e : E) (σ₁ σ₂ : Store Val), Rel S Γ σ₁ σ₂ → S.aspect (S.ev e σ₁) = S.aspect (S.ev e σ₂)

/-- outcomes agree: same constructor; a returned value comes from the same `return` expression, has
the same static aspect, and is equal when that expression is static -/
def OutAgree (S : Sem Val Aspect) (Γ : Env) : Outcome Val → Outcome Val → Prop
  | .normal, .normal => True
  | .raised, .raised => True
  | .returned e₁ v₁, .returned e₂ v₂ =>
      e₁ = e₂ ∧ S.aspect v₁ = S.aspect v₂ ∧ (e₁.stage Γ = .static → v₁ = v₂)
  | .stuck k₁, .stuck k₂ => k₁ = k₂
  | _, _ => False

/-- the two runs are indistinguishable: both run out of fuel, or both finish with the same control
path, stores that agree on static data, and agreeing outcomes -/
def ResRel (S : Sem Val Aspect) (Γ : Env) : Option (Result Val) → Option (Result Val) → Prop
  | some r₁, some r₂ => r₁.path = r₂.path ∧ Rel S Γ r₁.store r₂.store ∧ OutAgree S Γ r₁.out r₂.out
  | none, none => True
  | _, _ => False

section core
variable {S : Sem Val Aspect} {Γ : Env}

theorem Rel.refl (σ : Store Val) : Rel S Γ σ σ := fun _ => ⟨fun _ => rfl, rfl⟩

theorem Rel.symm {σ₁ σ₂ : Store Val} (h : Rel S Γ σ₁ σ₂) : Rel S Γ σ₂ σ₁ :=
  fun v => ⟨fun hv => ((h v).1 hv).symm, (h v).2.symm⟩

theorem Rel.trans {σ₁ σ₂ σ₃ : Store Val} (h : Rel S Γ σ₁ σ₂) (h' : Rel S Γ σ₂ σ₃) : Rel S Γ σ₁ σ₃ :=
  fun v => ⟨fun hv => ((h v).1 hv).trans ((h' v).1 hv), (h v).2.trans (h' v).2⟩

/-- binding related values keeps stores related -/
theorem Rel.bind {σ₁ σ₂ : Store Val} (h : Rel S Γ σ₁ σ₂) (ts : List String) {x₁ x₂ : Val}
    (ha : S.aspect x₁ = S.aspect x₂) (he : ∀ v, ts.contains v = true → Γ v = .static → x₁ = x₂) :
    Rel S Γ (bindAll ts x₁ σ₁) (bindAll ts x₂ σ₂) := by
  intro v
  unfold bindAll
  cases hc : ts.contains v with
  | true => exact ⟨fun hv => by simpa using he v hc hv, by simpa using ha⟩
  | false => simpa using h v

theorem OutAgree.normal_iff {o₁ o₂ : Outcome Val} (h : OutAgree S Γ o₁ o₂) :
    o₁ = .normal ↔ o₂ = .normal := by
  cases o₁ <;> cases o₂ <;> simp_all [OutAgree]

theorem ResRel.some_iff {r₁ r₂ : Result Val} :
    ResRel S Γ (some r₁) (some r₂) ↔
      r₁.path = r₂.path ∧ Rel S Γ r₁.store r₂.store ∧ OutAgree S Γ r₁.out r₂.out := Iff.rfl

theorem ResRel.map_pre {o₁ o₂ : Option (Result Val)} (h : ResRel S Γ o₁ o₂) (p : List (Event Val)) :
    ResRel S Γ (o₁.map (Result.pre p)) (o₂.map (Result.pre p)) := by
  cases o₁ <;> cases o₂ <;> simp_all [ResRel, Result.pre]

theorem ResRel.bind {o₁ o₂ : Option (Result Val)} (h : ResRel S Γ o₁ o₂)
    {f g : Result Val → Option (Result Val)}
    (hf : ∀ r₁ r₂, ResRel S Γ (some r₁) (some r₂) → ResRel S Γ (f r₁) (g r₂)) :
    ResRel S Γ (o₁.bind f) (o₂.bind g) := by
  cases o₁ <;> cases o₂
  · exact True.intro
  · exact h.elim
  · exact h.elim
  · exact hf _ _ h

/-- sequencing preserves indistinguishability -/
theorem ResRel.andThen {r₁ r₂ : Result Val} (h : ResRel S Γ (some r₁) (some r₂))
    {k₁ k₂ : Store Val → Option (Result Val)}
    (hk : ∀ σ₁ σ₂, Rel S Γ σ₁ σ₂ → ResRel S Γ (k₁ σ₁) (k₂ σ₂)) :
    ResRel S Γ (r₁.andThen k₁) (r₂.andThen k₂) := by
  obtain ⟨hp, hs, ho⟩ := h
  unfold Result.andThen
  cases h₁ : r₁.out <;> cases h₂ : r₂.out <;> simp only [h₁, h₂, OutAgree] at ho
  · have := ResRel.map_pre (hk _ _ hs) r₁.path
    rw [hp] at this ⊢
    exact this
  all_goals exact ⟨hp, hs, by rw [h₁, h₂]; exact ho⟩

/-- `for` over the same item list -/
theorem loopFor_rel {body₁ body₂ : Store Val → Option (Result Val)}
    (hb : ∀ σ₁ σ₂, Rel S Γ σ₁ σ₂ → ResRel S Γ (body₁ σ₁) (body₂ σ₂)) (vs : List String) :
    ∀ (xs : List Val) (σ₁ σ₂ : Store Val), Rel S Γ σ₁ σ₂ →
      ResRel S Γ (loopFor body₁ vs xs σ₁) (loopFor body₂ vs xs σ₂)
  | [], σ₁, σ₂, h => ⟨rfl, h, trivial⟩
  | x :: xs, σ₁, σ₂, h => by
    unfold loopFor
    refine ResRel.bind (hb _ _ (h.bind vs rfl fun _ _ _ => rfl)) fun r₁ r₂ hr => ?_
    exact ResRel.map_pre (ResRel.andThen hr (loopFor_rel hb vs xs)) _

/-- `while` with a test that cannot tell the stores apart -/
theorem loopWhile_rel {test₁ test₂ : Store Val → Bool} {body₁ body₂ : Store Val → Option (Result Val)}
    (ht : ∀ σ₁ σ₂, Rel S Γ σ₁ σ₂ → test₁ σ₁ = test₂ σ₂)
    (hb : ∀ σ₁ σ₂, Rel S Γ σ₁ σ₂ → ResRel S Γ (body₁ σ₁) (body₂ σ₂)) :
    ∀ (fuel : Nat) (σ₁ σ₂ : Store Val), Rel S Γ σ₁ σ₂ →
      ResRel S Γ (loopWhile test₁ body₁ fuel σ₁) (loopWhile test₂ body₂ fuel σ₂)
  | 0, σ₁, σ₂, h => by
    unfold loopWhile
    rw [ht _ _ h]
    cases test₂ σ₂
    · exact ⟨rfl, h, trivial⟩
    · trivial
  | n + 1, σ₁, σ₂, h => by
    unfold loopWhile
    rw [ht _ _ h]
    cases test₂ σ₂
    · exact ⟨rfl, h, trivial⟩
    · refine ResRel.bind (hb _ _ h) fun r₁ r₂ hr => ?_
      exact ResRel.map_pre (ResRel.andThen hr (loopWhile_rel ht hb n)) _

theorem closed_append (Γ : Env) (a b : List (List String × E)) :
    closed Γ (a ++ b) = (closed Γ a && closed Γ b) := by
  simp [closed, List.all_append]

theorem closed_cons (Γ : Env) (te : List String × E) (a : List (List String × E)) :
    closed Γ (te :: a) =
      ((te.2.stage Γ == .static || te.1.all (fun v => Γ v == .traced)) && closed Γ a) := by
  simp [closed]

theorem Stage.eq_static_of_ne_traced {s : Stage} (h : s ≠ .traced) : s = .static := by
  cases s <;> simp_all

/-- an assignment allowed by `closed` keeps stores related (uses A1 for static targets, A2 for all) -/
theorem assign_rel (hev : EvOK S Γ) {ts : List String} {e : E}
    (hc : (e.stage Γ == .static || ts.all (fun v => Γ v == .traced)) = true)
    {σ₁ σ₂ : Store Val} (h : Rel S Γ σ₁ σ₂) :
    Rel S Γ (bindAll ts (S.ev e σ₁) σ₁) (bindAll ts (S.ev e σ₂) σ₂) := by
  refine h.bind ts (hev.aspect_eq e _ _ h) fun v hv hs => ?_
  rcases Bool.or_eq_true _ _ ▸ hc with hst | htr
  · exact hev.static_eq e _ _ (by simpa using hst) h
  · have : Γ v = .traced := by
      have := List.all_eq_true.mp htr v (by simpa using hv)
      simpa using this
    rw [hs] at this
    cases this

mutual
/-- noninterference for one statement -/
theorem Stmt.ni (hev : EvOK S Γ) (fuel : Nat) :
    ∀ (s : Stmt), s.ok Γ = true → closed Γ s.assigns = true →
      ∀ σ₁ σ₂ : Store Val, Rel S Γ σ₁ σ₂ → ResRel S Γ (s.exec S fuel σ₁) (s.exec S fuel σ₂)
  | .assign ts e, _, hc, σ₁, σ₂, h => by
    simp only [Stmt.assigns, closed, List.all_cons, List.all_nil, Bool.and_true] at hc
    simp only [Stmt.exec]
    exact ⟨rfl, assign_rel hev hc h, trivial⟩
  | .ifS t a b, hok, hc, σ₁, σ₂, h => by
    simp only [Stmt.ok, Bool.and_eq_true, beq_iff_eq] at hok
    simp only [Stmt.assigns, closed_append, Bool.and_eq_true] at hc
    simp only [Stmt.exec]
    rw [hev.static_eq t σ₁ σ₂ hok.1.1 h]
    cases S.truthy (S.ev t σ₂)
    · exact ResRel.map_pre (niL hev fuel b hok.2 hc.2 σ₁ σ₂ h) _
    · exact ResRel.map_pre (niL hev fuel a hok.1.2 hc.1 σ₁ σ₂ h) _
  | .forS vs it body, hok, hc, σ₁, σ₂, h => by
    simp only [Stmt.ok, Bool.and_eq_true, beq_iff_eq] at hok
    simp only [Stmt.assigns, closed_cons, Bool.and_eq_true] at hc
    simp only [Stmt.exec]
    rw [hev.static_eq it σ₁ σ₂ hok.1 h]
    exact loopFor_rel (fun τ₁ τ₂ hτ => niL hev fuel body hok.2 hc.2 τ₁ τ₂ hτ) vs _ σ₁ σ₂ h
  | .whileS t body, hok, hc, σ₁, σ₂, h => by
    simp only [Stmt.ok, Bool.and_eq_true, beq_iff_eq] at hok
    simp only [Stmt.assigns] at hc
    simp only [Stmt.exec]
    exact loopWhile_rel (fun τ₁ τ₂ hτ => by rw [hev.static_eq t τ₁ τ₂ hok.1 hτ])
      (fun τ₁ τ₂ hτ => niL hev fuel body hok.2 hc τ₁ τ₂ hτ) fuel σ₁ σ₂ h
  | .force t, hok, _, σ₁, σ₂, h => by
    simp only [Stmt.ok, beq_iff_eq] at hok
    simp only [Stmt.exec]
    rw [hev.static_eq t σ₁ σ₂ hok h]
    exact ⟨rfl, h, trivial⟩
  | .ret e, _, _, σ₁, σ₂, h => by
    simp only [Stmt.exec]
    exact ⟨rfl, h, rfl, hev.aspect_eq e _ _ h, fun hs => hev.static_eq e _ _ hs h⟩
  | .exprS _, _, _, σ₁, σ₂, h => ⟨rfl, h, trivial⟩
  | .raiseS, _, _, σ₁, σ₂, h => ⟨rfl, h, trivial⟩
  | .hazard _, hok, _, _, _, _ => by simp [Stmt.ok] at hok
/-- noninterference for a block -/
theorem niL (hev : EvOK S Γ) (fuel : Nat) :
    ∀ (ss : List Stmt), okL Γ ss = true → closed Γ (assignsL ss) = true →
      ∀ σ₁ σ₂ : Store Val, Rel S Γ σ₁ σ₂ → ResRel S Γ (execL S fuel ss σ₁) (execL S fuel ss σ₂)
  | [], _, _, σ₁, σ₂, h => ⟨rfl, h, trivial⟩
  | s :: ss, hok, hc, σ₁, σ₂, h => by
    simp only [okL, Bool.and_eq_true] at hok
    simp only [assignsL, closed_append, Bool.and_eq_true] at hc
    simp only [execL]
    refine ResRel.bind (Stmt.ni hev fuel s hok.1 hc.1 σ₁ σ₂ h) fun r₁ r₂ hr => ?_
    exact ResRel.andThen hr (fun τ₁ τ₂ hτ => niL hev fuel ss hok.2 hc.2 τ₁ τ₂ hτ)
end

end core

/-! ## main theorems -/

/-- NONINTERFERENCE, relational form. -/
theorem noninterference_rel {S : Sem Val Aspect} {Γ : Env} (hev : EvOK S Γ) {prog : List Stmt}
    (hok : okL Γ prog = true) (hcl : closed Γ (assignsL prog) = true)
    {σ₁ σ₂ : Store Val} (h : Rel S Γ σ₁ σ₂) (fuel : Nat) :
    ResRel S Γ (exec S fuel σ₁ prog) (exec S fuel σ₂ prog) :=
  niL hev fuel prog hok hcl σ₁ σ₂ h

/-- NONINTERFERENCE.  For a skeleton whose control-flow tests are all static under `Γ` (`okL`) and
whose assignments respect `Γ` (`closed`), two runs from stores that agree on static data consume fuel
identically and, when they finish, have taken the same control path, still agree on static data, and
ended the same way (a returned value comes from the same `return`, has the same static aspect, and is
equal when the returned expression is static). -/
theorem noninterference {S : Sem Val Aspect} {Γ : Env} (hev : EvOK S Γ) {prog : List Stmt}
    (hok : okL Γ prog = true) (hcl : closed Γ (assignsL prog) = true)
    {σ₁ σ₂ : Store Val} (h : Rel S Γ σ₁ σ₂) (fuel : Nat) :
    match exec S fuel σ₁ prog, exec S fuel σ₂ prog with
    | some r₁, some r₂ =>
        r₁.path = r₂.path ∧ Rel S Γ r₁.store r₂.store ∧ OutAgree S Γ r₁.out r₂.out
    | none, none => True
    | _, _ => False := by
  have := noninterference_rel hev hok hcl h fuel
  revert this
  cases exec S fuel σ₁ prog <;> cases exec S fuel σ₂ prog <;> exact id

/-! ## the staging analysis -/

/-- a round of the analysis never un-traces a variable -/
theorem stepEnv_monotone (asg : List (List String × E)) (env : Env) (v : String)
    (h : env v = .traced) : stepEnv asg env v = .traced := by
  simp [stepEnv, h]

theorem foldl_stepEnv_traced (asg : List (List String × E)) (v : String) :
    ∀ (l : List Nat) (env : Env), env v = .traced →
      (l.foldl (fun env _ => stepEnv asg env) env) v = .traced
  | [], _, h => h
  | _ :: l, env, h => foldl_stepEnv_traced asg v l _ (stepEnv_monotone asg env v h)

/-- the traced parameters are traced in the computed environment — so the first conjunct of `check`
is in fact always true; `check_sound` uses the conjunct, `check_sound'` this lemma -/
theorem stageEnv_traced_params (tracedParams : List String) (prog : List Stmt) (v : String)
    (h : v ∈ tracedParams) : stageEnv tracedParams prog v = .traced := by
  unfold stageEnv
  exact foldl_stepEnv_traced _ v _ _ (by simp [h])

/-- `closed` is exactly "fixpoint of `stepEnv`": what the second conjunct of `check` verifies -/
theorem closed_iff_fixpoint (env : Env) (asg : List (List String × E)) :
    closed env asg = true ↔ ∀ v, stepEnv asg env v = env v := by
  constructor
  · intro hc v
    unfold stepEnv
    cases hv : env v with
    | traced => simp
    | static =>
      have : asg.any (fun te => te.1.contains v && te.2.stage env == .traced) = false := by
        rw [List.any_eq_false]
        intro te hte
        have := List.all_eq_true.mp hc te hte
        rcases Bool.or_eq_true _ _ ▸ this with hst | htr
        · have : te.2.stage env = .static := by simpa using hst
          simp [this]
        · intro hcon
          simp only [Bool.and_eq_true] at hcon
          have := List.all_eq_true.mp htr v (by simpa using hcon.1)
          simp [hv] at this
      rw [this]
      rfl
  · intro hfix
    unfold closed
    rw [List.all_eq_true]
    intro te hte
    by_cases hst : te.2.stage env = .static
    · simp [hst]
    · have hst' : te.2.stage env = .traced := by
        cases h : te.2.stage env <;> simp_all
      simp only [hst', Bool.or_eq_true, List.all_eq_true]
      right
      intro v hv
      have hany : asg.any (fun te => te.1.contains v && te.2.stage env == .traced) = true := by
        rw [List.any_eq_true]
        exact ⟨te, hte, by simp [hv, hst']⟩
      have := hfix v
      unfold stepEnv at this
      cases hv' : env v with
      | traced => simp
      | static =>
        rw [hv', hany] at this
        exact absurd this (by decide)

/-- stores that differ at most on the traced parameters, and there only in value, not in static
aspect, agree on static data for the computed environment -/
theorem rel_of_agree_off_traced {S : Sem Val Aspect} {tracedParams : List String} {Γ : Env}
    (hp : tracedParams.all (fun v => Γ v == .traced) = true) {σ₁ σ₂ : Store Val}
    (hval : ∀ v, v ∉ tracedParams → σ₁ v = σ₂ v)
    (hasp : ∀ v, S.aspect (σ₁ v) = S.aspect (σ₂ v)) : Rel S Γ σ₁ σ₂ := by
  intro v
  refine ⟨fun hs => hval v fun hmem => ?_, hasp v⟩
  have := List.all_eq_true.mp hp v hmem
  simp [hs] at this

/-- SOUNDNESS OF `check`.  If `check tracedParams prog` accepts, then for the computed staging
environment and any two stores that agree on every variable outside `tracedParams` and agree on the
static aspect everywhere, the two runs are indistinguishable in the sense of `noninterference`.  The
three conjuncts of `check` are used for: relating the initial stores, preserving the relation across
assignments, and making every control-flow test independent of traced values — nothing else. -/
theorem check_sound {S : Sem Val Aspect} {tracedParams : List String} {prog : List Stmt}
    (hchk : check tracedParams prog = true) (hev : EvOK S (stageEnv tracedParams prog))
    {σ₁ σ₂ : Store Val} (hval : ∀ v, v ∉ tracedParams → σ₁ v = σ₂ v)
    (hasp : ∀ v, S.aspect (σ₁ v) = S.aspect (σ₂ v)) (fuel : Nat) :
    match exec S fuel σ₁ prog, exec S fuel σ₂ prog with
    | some r₁, some r₂ =>
        r₁.path = r₂.path ∧ Rel S (stageEnv tracedParams prog) r₁.store r₂.store ∧
          OutAgree S (stageEnv tracedParams prog) r₁.out r₂.out
    | none, none => True
    | _, _ => False := by
  simp only [check, Bool.and_eq_true] at hchk
  exact noninterference hev hchk.2 hchk.1.2 (rel_of_agree_off_traced hchk.1.1 hval hasp) fuel

/-- the first conjunct of `check` is redundant: a fixpoint check and `okL` suffice -/
theorem check_sound' {S : Sem Val Aspect} {tracedParams : List String} {prog : List Stmt}
    (hcl : closed (stageEnv tracedParams prog) (assignsL prog) = true)
    (hok : okL (stageEnv tracedParams prog) prog = true)
    (hev : EvOK S (stageEnv tracedParams prog))
    {σ₁ σ₂ : Store Val} (hval : ∀ v, v ∉ tracedParams → σ₁ v = σ₂ v)
    (hasp : ∀ v, S.aspect (σ₁ v) = S.aspect (σ₂ v)) (fuel : Nat) :
    ResRel S (stageEnv tracedParams prog) (exec S fuel σ₁ prog) (exec S fuel σ₂ prog) :=
  noninterference_rel hev hok hcl
    (rel_of_agree_off_traced
      (List.all_eq_true.mpr fun v hv => by simp [stageEnv_traced_params tracedParams prog v hv])
      hval hasp) fuel

/-- TRACE REPLAY: the path recorded by one finished run (e.g. the tracing run) is the path of every
run from a store with the same static data, and that run finishes with the same fuel. -/
theorem trace_replay {S : Sem Val Aspect} {Γ : Env} (hev : EvOK S Γ) {prog : List Stmt}
    (hok : okL Γ prog = true) (hcl : closed Γ (assignsL prog) = true)
    {σ₁ σ₂ : Store Val} (h : Rel S Γ σ₁ σ₂) {fuel : Nat} {r₁ : Result Val}
    (h₁ : exec S fuel σ₁ prog = some r₁) :
    ∃ r₂, exec S fuel σ₂ prog = some r₂ ∧ r₂.path = r₁.path ∧ Rel S Γ r₁.store r₂.store ∧
      OutAgree S Γ r₁.out r₂.out := by
  have := noninterference_rel hev hok hcl h fuel
  rw [h₁] at this
  cases h₂ : exec S fuel σ₂ prog with
  | none => rw [h₂] at this; exact this.elim
  | some r₂ => rw [h₂] at this; exact ⟨r₂, rfl, this.1.symm, this.2⟩

/-- purity of the model: `exec` is a function of (semantics, fuel, store, skeleton) -/
theorem deterministic (S : Sem Val Aspect) (fuel : Nat) {σ₁ σ₂ : Store Val} (prog : List Stmt)
    (h : ∀ v, σ₁ v = σ₂ v) : exec S fuel σ₁ prog = exec S fuel σ₂ prog := by
  rw [funext h]

/-! ## a checked skeleton never reaches a hazard -/

def Outcome.isStuck : Outcome Val → Bool
  | .stuck _ => true
  | _ => false

/-- no result of the computation is stuck -/
def NoStuck (o : Option (Result Val)) : Prop := ∀ r, o = some r → r.out.isStuck = false

section stuck
variable {S : Sem Val Aspect} {Γ : Env}

theorem NoStuck.map_pre {o : Option (Result Val)} (h : NoStuck o) (p : List (Event Val)) :
    NoStuck (o.map (Result.pre p)) := by
  intro r hr
  cases o with
  | none => simp at hr
  | some r' =>
    simp only [Option.map_some, Option.some.injEq] at hr
    subst hr
    exact h r' rfl

theorem NoStuck.bind {o : Option (Result Val)} (h : NoStuck o) {f : Result Val → Option (Result Val)}
    (hf : ∀ r, r.out.isStuck = false → NoStuck (f r)) : NoStuck (o.bind f) := by
  cases o with
  | none => intro r hr; simp at hr
  | some r' => exact hf r' (h r' rfl)

theorem NoStuck.andThen {r : Result Val} (h : r.out.isStuck = false)
    {k : Store Val → Option (Result Val)} (hk : ∀ σ, NoStuck (k σ)) : NoStuck (r.andThen k) := by
  unfold Result.andThen
  split
  · exact (hk _).map_pre _
  · intro r' hr'
    simp only [Option.some.injEq] at hr'
    subst hr'
    exact h

theorem loopFor_noStuck {body : Store Val → Option (Result Val)} (hb : ∀ σ, NoStuck (body σ))
    (vs : List String) : ∀ (xs : List Val) (σ : Store Val), NoStuck (loopFor body vs xs σ)
  | [], σ => by intro r hr; simp only [loopFor, Option.some.injEq] at hr; subst hr; rfl
  | x :: xs, σ => by
    unfold loopFor
    exact (hb _).bind fun r hr => (NoStuck.andThen hr (loopFor_noStuck hb vs xs)).map_pre _

theorem loopWhile_noStuck {test : Store Val → Bool} {body : Store Val → Option (Result Val)}
    (hb : ∀ σ, NoStuck (body σ)) : ∀ (fuel : Nat) (σ : Store Val), NoStuck (loopWhile test body fuel σ)
  | 0, σ => by
    intro r hr
    unfold loopWhile at hr
    split at hr
    · simp at hr
    · simp only [Option.some.injEq] at hr; subst hr; rfl
  | n + 1, σ => by
    unfold loopWhile
    split
    · exact (hb _).bind fun r hr => (NoStuck.andThen hr (loopWhile_noStuck hb n)).map_pre _
    · intro r hr; simp only [Option.some.injEq] at hr; subst hr; rfl

theorem NoStuck.of_some {r : Result Val} (h : r.out.isStuck = false) : NoStuck (some r) := by
  intro r' hr'
  simp only [Option.some.injEq] at hr'
  subst hr'
  exact h

mutual
theorem Stmt.noStuck (fuel : Nat) :
    ∀ (s : Stmt), s.ok Γ = true → ∀ σ : Store Val, NoStuck (s.exec S fuel σ)
  | .assign _ _, _, _ => NoStuck.of_some rfl
  | .ifS t a b, hok, σ => by
    simp only [Stmt.ok, Bool.and_eq_true] at hok
    simp only [Stmt.exec]
    split
    · exact (noStuckL fuel a hok.1.2 σ).map_pre _
    · exact (noStuckL fuel b hok.2 σ).map_pre _
  | .forS vs it body, hok, σ => by
    simp only [Stmt.ok, Bool.and_eq_true] at hok
    simp only [Stmt.exec]
    exact loopFor_noStuck (fun τ => noStuckL fuel body hok.2 τ) vs _ σ
  | .whileS t body, hok, σ => by
    simp only [Stmt.ok, Bool.and_eq_true] at hok
    simp only [Stmt.exec]
    exact loopWhile_noStuck (fun τ => noStuckL fuel body hok.2 τ) fuel σ
  | .force _, _, _ => NoStuck.of_some rfl
  | .ret _, _, _ => NoStuck.of_some rfl
  | .exprS _, _, _ => NoStuck.of_some rfl
  | .raiseS, _, _ => NoStuck.of_some rfl
  | .hazard _, hok, _ => by simp [Stmt.ok] at hok
theorem noStuckL (fuel : Nat) :
    ∀ (ss : List Stmt), okL Γ ss = true → ∀ σ : Store Val, NoStuck (execL S fuel ss σ)
  | [], _, _ => NoStuck.of_some rfl
  | s :: ss, hok, σ => by
    simp only [okL, Bool.and_eq_true] at hok
    simp only [execL]
    exact (Stmt.noStuck fuel s hok.1 σ).bind fun r hr =>
      NoStuck.andThen hr (fun τ => noStuckL fuel ss hok.2 τ)
end

end stuck

/-- a skeleton accepted by `okL` (a fortiori by `check`) never reaches a `hazard` statement -/
theorem ok_not_stuck {S : Sem Val Aspect} {Γ : Env} {prog : List Stmt} (hok : okL Γ prog = true)
    (fuel : Nat) (σ : Store Val) {r : Result Val} (h : exec S fuel σ prog = some r) :
    r.out.isStuck = false :=
  noStuckL fuel prog hok σ r h

/-! ## non-vacuity: a toy instance of the semantics satisfying A1/A2, a skeleton that passes `check`,
one that fails it, and two concrete runs -/
namespace Toy

/-- a value with its "shape": the static aspect is the second component -/
abbrev V := Int × Nat

/-- value: sum over the reads (the shape of an aspect-only read, the value of a full read);
shape: sum of the shapes of the reads -/
def ev (e : E) (σ : Store V) : V :=
  ((e.reads.map fun r => if r.aspectOnly then ((σ r.name).2 : Int) else (σ r.name).1).sum,
   (e.reads.map fun r => (σ r.name).2).sum)

def sem : Sem V Nat where
  aspect := Prod.snd
  ev := ev
  truthy := fun v => decide (v.1 ≠ 0)
  items := fun v => (List.range v.1.toNat).map fun (i : Nat) => ((i : Int), v.2)

/-- A1 and A2 are satisfiable — here for every staging environment at once -/
theorem toy_evOK (Γ : Env) : EvOK sem Γ where
  static_eq e σ₁ σ₂ hs h := by
    have hall : ∀ r ∈ e.reads, r.aspectOnly = true ∨ Γ r.name = .static := by
      unfold E.stage at hs
      split at hs
      · cases hs
      · split at hs
        · rename_i h'
          simpa using h'
        · cases hs
    show ev e σ₁ = ev e σ₂
    unfold ev
    congr 2
    · apply List.map_congr_left
      intro r hr
      rcases hall r hr with ha | hst
      · simp only [ha, if_true]
        exact congrArg Int.ofNat (h r.name).2
      · rw [(h r.name).1 hst]
    · apply List.map_congr_left
      intro r _
      exact (h r.name).2
  aspect_eq e σ₁ σ₂ h := by
    show (ev e σ₁).2 = (ev e σ₂).2
    unfold ev
    simp only
    congr 1
    apply List.map_congr_left
    intro r _
    exact (h r.name).2

/-- shaped like `Chain.transform` / `LeakyTanh.transform` / the `condition` handling of the conditional
bijections:
```
for b in bijections:                 # static module list
    x = b.transform(x, condition)    # array library call on traced data
if condition is not None:            # aspect-only test on a traced parameter
    y = jnp.g(x, condition)
else:
    y = jnp.f(x)
assert n                             # forced static value
while flag:                          # static loop
    flag = 0
return y
``` -/
def good : List Stmt :=
  [ .forS ["b"] ⟨[⟨"bijections", false⟩], false⟩
      [.assign ["x"] ⟨[⟨"b", false⟩, ⟨"x", false⟩, ⟨"condition", false⟩], true⟩],
    .ifS ⟨[⟨"condition", true⟩], false⟩
      [.assign ["y"] ⟨[⟨"x", false⟩, ⟨"condition", false⟩], true⟩]
      [.assign ["y"] ⟨[⟨"x", false⟩], true⟩],
    .force ⟨[⟨"n", false⟩], false⟩,
    .whileS ⟨[⟨"flag", false⟩], false⟩ [.assign ["flag"] ⟨[], false⟩],
    .ret ⟨[⟨"y", false⟩], false⟩ ]

/-- `if x > 0: return x else: raise` on a traced `x` -/
def bad : List Stmt :=
  [ .ifS ⟨[⟨"x", false⟩], false⟩ [.ret ⟨[⟨"x", false⟩], false⟩] [.raiseS] ]

theorem good_checks : check ["x", "condition"] good = true := by decide

theorem bad_rejected : check ["x"] bad = false := by decide

/-- the same skeleton is accepted when `x` is not traced (a static configuration value) -/
theorem bad_ok_when_static : check [] bad = true := by decide

/-- `Chain.transform` with `self` traced, honest encoding:
`for i in range(len(self.bijections)): b = self.bijections[i]; x = b.transform(x)`; `return x` -/
def chainTracedSelf : List Stmt :=
  [ .forS ["i"] ⟨[⟨"self", true⟩], false⟩
      [ .assign ["b"] ⟨[⟨"self", false⟩, ⟨"i", false⟩], false⟩,
        .assign ["x"] ⟨[⟨"b", false⟩, ⟨"x", false⟩], true⟩ ],
    .ret ⟨[⟨"x", false⟩], false⟩ ]

theorem chainTracedSelf_checks : check ["self", "x"] chainTracedSelf = true := by decide

/-- the naive encoding (iterable = full read of traced `self`) is rejected -/
def chainNaive : List Stmt :=
  [ .forS ["b"] ⟨[⟨"self", false⟩], false⟩ [.assign ["x"] ⟨[⟨"b", false⟩, ⟨"x", false⟩], true⟩],
    .ret ⟨[⟨"x", false⟩], false⟩ ]

theorem chainNaive_rejected : check ["self", "x"] chainNaive = false := by decide

/-- in the honest encoding the item `b` is traced: branching on a value inside it is caught -/
def chainLeak : List Stmt :=
  [ .forS ["i"] ⟨[⟨"self", true⟩], false⟩
      [ .assign ["b"] ⟨[⟨"self", false⟩, ⟨"i", false⟩], false⟩,
        .ifS ⟨[⟨"b", false⟩], false⟩ [.assign ["x"] ⟨[⟨"b", false⟩, ⟨"x", false⟩], true⟩] [] ],
    .ret ⟨[⟨"x", false⟩], false⟩ ]

theorem chainLeak_rejected : check ["self", "x"] chainLeak = false := by decide

def σa : Store V := fun v =>
  if v = "bijections" then (3, 0) else if v = "x" then (5, 2) else if v = "condition" then (7, 1)
  else if v = "n" then (4, 0) else if v = "flag" then (1, 0) else (0, 0)

/-- differs from `σa` in the VALUES of the traced parameters only -/
def σb : Store V := bindAll ["x"] (0, 2) (bindAll ["condition"] (0, 1) σa)

/-- both runs take the same control path (three loop iterations; the `then` branch because `condition`
has a non-None aspect — although its VALUE is `0` in `σb`; the forced `4`; one `while` iteration) -/
theorem good_paths :
    (exec sem 3 σa good).map (·.path) =
        some [.iter, .iter, .iter, .done, .branch true, .forced (4, 0), .branch true, .branch false] ∧
      (exec sem 3 σb good).map (·.path) =
        some [.iter, .iter, .iter, .done, .branch true, .forced (4, 0), .branch true, .branch false] := by
  decide

/-- but the returned (traced) values differ: the path does not determine the data -/
theorem good_values_differ :
    (exec sem 3 σa good).map (fun r => r.store "y") ≠ (exec sem 3 σb good).map (fun r => r.store "y") := by
  decide

/-- the rejected skeleton really does leak: the two stores take different paths -/
theorem bad_paths_differ :
    (exec sem 3 σa bad).map (·.path) ≠ (exec sem 3 σb bad).map (·.path) := by decide

/-- `check_sound` applies to the toy instance: its hypotheses are jointly satisfiable -/
theorem check_sound_instance (fuel : Nat) :
    ResRel sem (stageEnv ["x", "condition"] good) (exec sem fuel σa good) (exec sem fuel σb good) := by
  have := check_sound (S := sem) good_checks (toy_evOK _) (σ₁ := σa) (σ₂ := σb)
    (fun v hv => by
      have h1 : v ≠ "x" := fun h => hv (by simp [h])
      have h2 : v ≠ "condition" := fun h => hv (by simp [h])
      simp [σb, bindAll, h1, h2])
    (fun v => by
      show (σa v).2 = (σb v).2
      unfold σb bindAll σa
      by_cases h1 : v = "x"
      · simp [h1]
      · by_cases h2 : v = "condition"
        · simp [h2]
        · simp [h1, h2])
    fuel
  revert this
  cases exec sem fuel σa good <;> cases exec sem fuel σb good <;> exact id

end Toy

end Trace
