import Flowjaxv.Proofs.EF
/-!
# Finite values ⇒ finite adjoints, compositionally

`Safe env e` is a VALUE-dependent predicate: every sub-expression of `e` — including BOTH branches of
every `select`, because JAX differentiates the unselected branch with a zero cotangent — evaluates to a
finite number at which every primitive has a finite partial.  `safe_fin` shows a safe expression has a
finite value and only finite adjoints for every finite cotangent.
-/
noncomputable section
open Classical Ad EF

namespace AdT

/-- primitive `p` has a finite value and a finite partial at the finite argument `r` -/
def PrimSafe : Prim → ℝ → Prop
  | .log, r => 0 < r
  | .sqrt, r => 0 < r
  | .artanh, r => |r| < 1
  | .log1p, r => -1 < r
  | .lgamma, r => 0 < r
  | _, _ => True

theorem prim_fin {p : Prim} {r : ℝ} (h : PrimSafe p r) :
    (∃ v, applyPrim p (fin r) = fin v) ∧ (∃ d, dPrim p (fin r) = fin d) := by
  cases p
  · refine ⟨⟨_, rfl⟩, ?_⟩
    show ∃ d, (if Num.le (Num.ofInt 0 : EF) (fin r) then (Num.ofInt 1 : EF) else Num.ofInt (-1)) = fin d
    split
    · exact ⟨1, by simp⟩
    · exact ⟨-1, by simp⟩
  · exact ⟨⟨_, rfl⟩, ⟨_, rfl⟩⟩
  · exact ⟨⟨_, rfl⟩, ⟨_, rfl⟩⟩
  · have h' : 0 < r := h
    refine ⟨⟨Real.log r, by show EF.log (fin r) = _; simp [EF.log, h']⟩, ⟨(1:ℝ) / r, ?_⟩⟩
    show (fin ((1:Int):ℝ)) / fin r = _
    rw [EF.fin_div h'.ne']; simp
  · refine ⟨⟨_, rfl⟩, ⟨1 - Real.tanh r * Real.tanh r, ?_⟩⟩
    show (fin ((1:Int):ℝ)) - EF.tanh (fin r) * EF.tanh (fin r) = _
    simp [EF.tanh]
  · have h' : |r| < 1 := h
    have hne : (1:ℝ) - r * r ≠ 0 := by
      have := abs_lt.mp h'; nlinarith
    refine ⟨⟨Real.artanh r, by show EF.artanh (fin r) = _; simp [EF.artanh, h']⟩, ⟨1 / (1 - r * r), ?_⟩⟩
    show (fin ((1:Int):ℝ)) / ((fin ((1:Int):ℝ)) - fin r * fin r) = _
    simp only [EF.fin_mul, EF.fin_sub, Int.cast_one]
    rw [EF.fin_div hne]
  · have h' : 0 < r := h
    have hs : 0 < Real.sqrt r := Real.sqrt_pos.mpr h'
    refine ⟨⟨Real.sqrt r, by show EF.sqrt (fin r) = _; simp [EF.sqrt, h'.le]⟩, ⟨1 / (2 * Real.sqrt r), ?_⟩⟩
    show (fin ((1:Int):ℝ)) / ((fin ((2:Int):ℝ)) * EF.sqrt (fin r)) = _
    have : EF.sqrt (fin r) = fin (Real.sqrt r) := by simp [EF.sqrt, h'.le]
    rw [this, EF.fin_mul, EF.fin_div (by positivity)]; simp
  · exact ⟨⟨_, rfl⟩, ⟨_, rfl⟩⟩
  · exact ⟨⟨_, rfl⟩, ⟨_, rfl⟩⟩
  · -- log1p
    have h' : -1 < r := h
    have hne : (1:ℝ) + r ≠ 0 := by linarith
    refine ⟨⟨Real.log (1 + r), EF.num_log1p h'⟩, ⟨1 / (1 + r), ?_⟩⟩
    show (fin ((1:Int):ℝ)) / ((fin ((1:Int):ℝ)) + fin r) = _
    simp only [EF.fin_add, Int.cast_one]
    rw [EF.fin_div hne]
  · -- square
    exact ⟨⟨r * r, rfl⟩, ⟨2 * r, by show (fin ((2:Int):ℝ)) * fin r = _; simp⟩⟩
  · -- lgamma
    have h' : 0 < r := h
    exact ⟨⟨_, EF.num_lgamma h'⟩, ⟨_, EF.num_digamma h'⟩⟩
  · -- relu
    refine ⟨?_, ?_⟩
    · show ∃ v, (if Num.lt (fin r) (Num.ofInt 0 : EF) then (Num.ofInt 0 : EF) else fin r) = fin v
      split
      · exact ⟨0, by simp⟩
      · exact ⟨r, rfl⟩
    · show ∃ d, (if Num.lt (Num.ofInt 0 : EF) (fin r) then (Num.ofInt 1 : EF) else Num.ofInt 0) = fin d
      split
      · exact ⟨1, by simp⟩
      · exact ⟨0, by simp⟩

/-- `logaddexp` of two finite numbers is the finite number `max a b + log(1 + e^{−|a−b|})` … -/
theorem logaddexp_fin (a b : ℝ) :
    (Ad.logaddexp (fin a) (fin b) : EF) = fin ((if a < b then b else a) + Real.log (1 + Real.exp (-|a - b|))) := by
  have hpos : (-1:ℝ) < Real.exp (-|a - b|) := lt_trans (by norm_num) (Real.exp_pos _)
  simp only [Ad.logaddexp, EF.fin_sub, EF.num_isNaN_fin, Bool.false_eq_true, if_false, EF.num_abs, EF.fin_neg,
    EF.num_exp, EF.num_log1p hpos, EF.num_lt, decide_eq_true_eq]
  split <;> simp

/-- … and both partials of its `custom_jvp` rule are finite -/
theorem prim2_fin (p : Prim2) (a b : ℝ) :
    (∃ v, applyPrim2 p (fin a) (fin b) = fin v) ∧
    (∃ d1 d2, dPrim2 p (fin a) (fin b) = (fin d1, fin d2)) := by
  cases p
  have hr : ∀ r : ℝ, (Ad.replaceInf (fin r) : EF) = fin r := by
    intro r
    have : (Num.beq (fin r) (pinf : EF)) = false := rfl
    simp [Ad.replaceInf, this]
  refine ⟨⟨_, logaddexp_fin a b⟩, ?_⟩
  simp only [dPrim2, logaddexp_fin, hr, EF.fin_sub, EF.num_exp]
  exact ⟨_, _, rfl⟩

def Safe : Env EF → Expr EF → Prop
  | env, .var i => isFin (env.s i)
  | _, .const c => isFin c
  | env, .get vec _ => ∀ x ∈ env.v vec, isFin x
  | env, .add a b => Safe env a ∧ Safe env b
  | env, .sub a b => Safe env a ∧ Safe env b
  | env, .mul a b => Safe env a ∧ Safe env b
  | env, .div a b => Safe env a ∧ Safe env b ∧ b.eval env ≠ fin 0
  | env, .neg a => Safe env a
  | env, .prim p a => Safe env a ∧ ∀ r, a.eval env = fin r → PrimSafe p r
  | env, .bin _ a b => Safe env a ∧ Safe env b
  | env, .max a b => Safe env a ∧ Safe env b
  | env, .min a b => Safe env a ∧ Safe env b
  | env, .sel _ a b => Safe env a ∧ Safe env b
  | env, .letE i v body => Safe env v ∧ Safe (env.set i (v.eval env)) body
  | env, .stopGrad a => isFin (a.eval env)

def AllFin (g : Grad EF) : Prop := ∀ kv ∈ g, isFin kv.2

theorem allFin_append {g h : Grad EF} (hg : AllFin g) (hh : AllFin h) : AllFin (g ++ h) := by
  intro kv hkv
  rcases List.mem_append.mp hkv with h1 | h1
  · exact hg kv h1
  · exact hh kv h1

theorem total_fin {g : Grad EF} (hg : AllFin g) (k : Key) : isFin (Grad.total g k) := by
  unfold Grad.total
  have hf : AllFin (g.filter (fun kv => kv.1 = k)) := fun kv hkv => hg kv (List.mem_filter.mp hkv).1
  generalize g.filter (fun kv => kv.1 = k) = l at hf
  have : ∀ (acc : EF), isFin acc → isFin (l.foldl (fun acc kv => acc + kv.2) acc) := by
    induction l with
    | nil => intro acc h; simpa using h
    | cons kv l ih =>
      intro acc hacc
      simp only [List.foldl_cons]
      apply ih (fun kv' h' => hf kv' (List.mem_cons_of_mem _ h'))
      obtain ⟨a, rfl⟩ := isFin_iff.mp hacc
      obtain ⟨b, hb⟩ := isFin_iff.mp (hf kv (List.mem_cons_self ..))
      rw [hb]; simp
  exact this _ (by simp)

theorem getD_fin {xs : List EF} (h : ∀ x ∈ xs, isFin x) (i : Nat) : isFin (xs.getD i (fin 0)) := by
  rw [List.getD_eq_getElem?_getD]
  cases hi : xs[i]? with
  | none => simp
  | some x => simpa using h x (List.mem_of_getElem? hi)

/-- A safe expression has a finite value … -/
theorem safe_eval_fin : ∀ (e : Expr EF) (env : Env EF), Safe env e → isFin (e.eval env)
  | .var i, env, h => h
  | .const c, env, h => h
  | .get vec idx, env, h => by
      simp only [Expr.eval]
      have : (Num.ofInt 0 : EF) = fin 0 := by simp
      rw [this]; exact getD_fin h _
  | .add a b, env, h => by
      obtain ⟨x, hx⟩ := isFin_iff.mp (safe_eval_fin a env h.1)
      obtain ⟨y, hy⟩ := isFin_iff.mp (safe_eval_fin b env h.2)
      simp [Expr.eval, hx, hy]
  | .sub a b, env, h => by
      obtain ⟨x, hx⟩ := isFin_iff.mp (safe_eval_fin a env h.1)
      obtain ⟨y, hy⟩ := isFin_iff.mp (safe_eval_fin b env h.2)
      simp [Expr.eval, hx, hy]
  | .mul a b, env, h => by
      obtain ⟨x, hx⟩ := isFin_iff.mp (safe_eval_fin a env h.1)
      obtain ⟨y, hy⟩ := isFin_iff.mp (safe_eval_fin b env h.2)
      simp [Expr.eval, hx, hy]
  | .div a b, env, h => by
      obtain ⟨x, hx⟩ := isFin_iff.mp (safe_eval_fin a env h.1)
      obtain ⟨y, hy⟩ := isFin_iff.mp (safe_eval_fin b env h.2.1)
      have hy0 : y ≠ 0 := by intro h0; apply h.2.2; rw [hy, h0]
      simp [Expr.eval, hx, hy, EF.fin_div hy0]
  | .neg a, env, h => by
      obtain ⟨x, hx⟩ := isFin_iff.mp (safe_eval_fin a env h)
      simp [Expr.eval, hx]
  | .prim p a, env, h => by
      obtain ⟨x, hx⟩ := isFin_iff.mp (safe_eval_fin a env h.1)
      obtain ⟨v, hv⟩ := (prim_fin (h.2 x hx)).1
      simp [Expr.eval, hx, hv]
  | .bin p a b, env, h => by
      obtain ⟨x, hx⟩ := isFin_iff.mp (safe_eval_fin a env h.1)
      obtain ⟨y, hy⟩ := isFin_iff.mp (safe_eval_fin b env h.2)
      obtain ⟨v, hv⟩ := (prim2_fin p x y).1
      simp [Expr.eval, hx, hy, hv]
  | .max a b, env, h => by
      simp only [Expr.eval]; split
      · exact safe_eval_fin b env h.2
      · exact safe_eval_fin a env h.1
  | .min a b, env, h => by
      simp only [Expr.eval]; split
      · exact safe_eval_fin b env h.2
      · exact safe_eval_fin a env h.1
  | .sel c a b, env, h => by
      simp only [Expr.eval]; split
      · exact safe_eval_fin a env h.1
      · exact safe_eval_fin b env h.2
  | .letE i v body, env, h => by
      simp only [Expr.eval]; exact safe_eval_fin body _ h.2
  | .stopGrad a, env, h => h

/-- … and only finite adjoints, for every finite cotangent (so a finite cotangent coming from the
layers above yields finite cotangents for the layers below: finiteness composes through flows). -/
theorem safe_vjp_fin : ∀ (e : Expr EF) (env : Env EF), Safe env e → ∀ ct, isFin ct → AllFin (e.vjp env ct)
  | .var i, env, _, ct, hct => by intro kv hkv; simp [Expr.vjp] at hkv; rw [hkv]; exact hct
  | .const c, env, _, ct, hct => by intro kv hkv; simp [Expr.vjp] at hkv
  | .get vec idx, env, _, ct, hct => by intro kv hkv; simp [Expr.vjp] at hkv; rw [hkv]; exact hct
  | .add a b, env, h, ct, hct =>
      allFin_append (safe_vjp_fin a env h.1 ct hct) (safe_vjp_fin b env h.2 ct hct)
  | .sub a b, env, h, ct, hct => by
      obtain ⟨c, rfl⟩ := isFin_iff.mp hct
      exact allFin_append (safe_vjp_fin a env h.1 _ (by simp)) (safe_vjp_fin b env h.2 _ (by simp))
  | .mul a b, env, h, ct, hct => by
      obtain ⟨c, rfl⟩ := isFin_iff.mp hct
      obtain ⟨x, hx⟩ := isFin_iff.mp (safe_eval_fin a env h.1)
      obtain ⟨y, hy⟩ := isFin_iff.mp (safe_eval_fin b env h.2)
      simp only [Expr.vjp, hx, hy]
      exact allFin_append (safe_vjp_fin a env h.1 _ (by simp)) (safe_vjp_fin b env h.2 _ (by simp))
  | .div a b, env, h, ct, hct => by
      obtain ⟨c, rfl⟩ := isFin_iff.mp hct
      obtain ⟨x, hx⟩ := isFin_iff.mp (safe_eval_fin a env h.1)
      obtain ⟨y, hy⟩ := isFin_iff.mp (safe_eval_fin b env h.2.1)
      have hy0 : y ≠ 0 := by intro h0; apply h.2.2; rw [hy, h0]
      have hyy : y * y ≠ 0 := mul_ne_zero hy0 hy0
      simp only [Expr.vjp, hx, hy]
      refine allFin_append (safe_vjp_fin a env h.1 _ ?_) (safe_vjp_fin b env h.2.1 _ ?_)
      · rw [EF.fin_div hy0]; simp
      · simp only [EF.fin_mul, EF.fin_neg]; rw [EF.fin_div hyy]; simp
  | .neg a, env, h, ct, hct => by
      obtain ⟨c, rfl⟩ := isFin_iff.mp hct
      exact safe_vjp_fin a env h _ (by simp)
  | .prim p a, env, h, ct, hct => by
      obtain ⟨c, rfl⟩ := isFin_iff.mp hct
      obtain ⟨x, hx⟩ := isFin_iff.mp (safe_eval_fin a env h.1)
      obtain ⟨d, hd⟩ := (prim_fin (h.2 x hx)).2
      simp only [Expr.vjp, hx, hd]
      exact safe_vjp_fin a env h.1 _ (by simp)
  | .bin p a b, env, h, ct, hct => by
      obtain ⟨c, rfl⟩ := isFin_iff.mp hct
      obtain ⟨x, hx⟩ := isFin_iff.mp (safe_eval_fin a env h.1)
      obtain ⟨y, hy⟩ := isFin_iff.mp (safe_eval_fin b env h.2)
      obtain ⟨d1, d2, hd⟩ := (prim2_fin p x y).2
      simp only [Expr.vjp, hx, hy, hd]
      exact allFin_append (safe_vjp_fin a env h.1 _ (by simp)) (safe_vjp_fin b env h.2 _ (by simp))
  | .max a b, env, h, ct, hct => by
      obtain ⟨c, rfl⟩ := isFin_iff.mp hct
      have hw : ∀ (p q : Bool), isFin (fin c * (if p then (Num.ofInt 1 : EF) else if q then Num.ofInt 0 else Num.ofInt 1 / Num.ofInt 2)) := by
        intro p q; have h2 : (2:ℝ) ≠ 0 := by norm_num
        cases p <;> cases q <;> simp [EF.fin_div h2]
      simp only [Expr.vjp]
      exact allFin_append (safe_vjp_fin a env h.1 _ (hw _ _)) (safe_vjp_fin b env h.2 _ (hw _ _))
  | .min a b, env, h, ct, hct => by
      obtain ⟨c, rfl⟩ := isFin_iff.mp hct
      have hw : ∀ (p q : Bool), isFin (fin c * (if p then (Num.ofInt 1 : EF) else if q then Num.ofInt 0 else Num.ofInt 1 / Num.ofInt 2)) := by
        intro p q; have h2 : (2:ℝ) ≠ 0 := by norm_num
        cases p <;> cases q <;> simp [EF.fin_div h2]
      simp only [Expr.vjp]
      exact allFin_append (safe_vjp_fin a env h.1 _ (hw _ _)) (safe_vjp_fin b env h.2 _ (hw _ _))
  | .sel c a b, env, h, ct, hct => by
      simp only [Expr.vjp]
      refine allFin_append (safe_vjp_fin a env h.1 _ ?_) (safe_vjp_fin b env h.2 _ ?_)
      · split
        · exact hct
        · simp
      · split
        · simp
        · exact hct
  | .letE i v body, env, h, ct, hct => by
      simp only [Expr.vjp]
      have hb := safe_vjp_fin body _ h.2 ct hct
      refine allFin_append (fun kv hkv => hb kv (List.mem_filter.mp hkv).1) ?_
      exact safe_vjp_fin v env h.1 _ (total_fin hb _)
  | .stopGrad a, env, h, ct, hct => by intro kv hkv; simp [Expr.vjp] at hkv

/-- the public `log_prob`'s last line `where(isnan(lps), -inf, lps)`: whatever the value, not NaN -/
def nanToNegInf : EF → EF | nan => ninf | x => x
theorem nanToNegInf_not_nan (x : EF) : ¬ isNaN (nanToNegInf x) := by cases x <;> simp [nanToNegInf, isNaN]

/-! ### `GradFin`: finite value and only finite adjoints — the conclusion of C18, with its own composition rules

`Safe` demands that BOTH branches of every `select` are finite.  The log-densities with bounded support
(`jstats.uniform/expon.logpdf`: `where(outside, -inf, log_probs)`) and the public `log_prob`'s
`where(isnan(lps), -inf, lps)` have the CONSTANT `-inf` in one branch: a constant receives no cotangent, so
it is harmless when it is not selected.  `GradFin` composes through that case as well. -/

def GradFin (env : Env EF) (e : Expr EF) : Prop :=
  isFin (e.eval env) ∧ ∀ ct, isFin ct → AllFin (e.vjp env ct)

theorem gradFin_of_safe {env : Env EF} {e : Expr EF} (h : Safe env e) : GradFin env e :=
  ⟨safe_eval_fin e env h, fun ct hct => safe_vjp_fin e env h ct hct⟩

/-- the reverse pass of an UNSELECTED branch is run with a zero cotangent -/
def ZeroCtFin (env : Env EF) (e : Expr EF) : Prop := AllFin (e.vjp env (fin 0))

theorem zeroCtFin_const (env : Env EF) (k : EF) : ZeroCtFin env (Expr.const k) := by
  intro kv hkv; simp [Expr.vjp] at hkv

theorem zeroCtFin_of_gradFin {env : Env EF} {e : Expr EF} (h : GradFin env e) : ZeroCtFin env e :=
  h.2 _ (by simp)

theorem gradFin_sel_true {env : Env EF} {c : Env EF → Bool} {a b : Expr EF} (hc : c env = true)
    (ha : GradFin env a) (hb : ZeroCtFin env b) : GradFin env (Expr.sel c a b) := by
  refine ⟨by simpa [Expr.eval, hc] using ha.1, fun ct hct => ?_⟩
  simp only [Expr.vjp, hc, if_true]
  exact allFin_append (ha.2 ct hct) (by simpa [ZeroCtFin] using hb)

theorem gradFin_sel_false {env : Env EF} {c : Env EF → Bool} {a b : Expr EF} (hc : c env = false)
    (ha : ZeroCtFin env a) (hb : GradFin env b) : GradFin env (Expr.sel c a b) := by
  refine ⟨by simpa [Expr.eval, hc] using hb.1, fun ct hct => ?_⟩
  simp only [Expr.vjp, hc, Bool.false_eq_true, if_false]
  exact allFin_append (by simpa [ZeroCtFin] using ha) (hb.2 ct hct)

theorem gradFin_add {env : Env EF} {a b : Expr EF} (ha : GradFin env a) (hb : GradFin env b) :
    GradFin env (Expr.add a b) := by
  obtain ⟨x, hx⟩ := isFin_iff.mp ha.1
  obtain ⟨y, hy⟩ := isFin_iff.mp hb.1
  exact ⟨by simp [Expr.eval, hx, hy], fun ct hct => allFin_append (ha.2 ct hct) (hb.2 ct hct)⟩

theorem gradFin_sub {env : Env EF} {a b : Expr EF} (ha : GradFin env a) (hb : GradFin env b) :
    GradFin env (Expr.sub a b) := by
  obtain ⟨x, hx⟩ := isFin_iff.mp ha.1
  obtain ⟨y, hy⟩ := isFin_iff.mp hb.1
  refine ⟨by simp [Expr.eval, hx, hy], fun ct hct => ?_⟩
  obtain ⟨c, rfl⟩ := isFin_iff.mp hct
  exact allFin_append (ha.2 _ (by simp)) (hb.2 _ (by simp))

theorem gradFin_neg {env : Env EF} {a : Expr EF} (ha : GradFin env a) : GradFin env (Expr.neg a) := by
  obtain ⟨x, hx⟩ := isFin_iff.mp ha.1
  refine ⟨by simp [Expr.eval, hx], fun ct hct => ?_⟩
  obtain ⟨c, rfl⟩ := isFin_iff.mp hct
  exact ha.2 _ (by simp)

theorem gradFin_mul {env : Env EF} {a b : Expr EF} (ha : GradFin env a) (hb : GradFin env b) :
    GradFin env (Expr.mul a b) := by
  obtain ⟨x, hx⟩ := isFin_iff.mp ha.1
  obtain ⟨y, hy⟩ := isFin_iff.mp hb.1
  refine ⟨by simp [Expr.eval, hx, hy], fun ct hct => ?_⟩
  obtain ⟨c, rfl⟩ := isFin_iff.mp hct
  simp only [Expr.vjp, hx, hy]
  exact allFin_append (ha.2 _ (by simp)) (hb.2 _ (by simp))

theorem gradFin_prim {env : Env EF} {p : Prim} {a : Expr EF} (ha : GradFin env a)
    (hp : ∀ r, a.eval env = fin r → PrimSafe p r) : GradFin env (Expr.prim p a) := by
  obtain ⟨x, hx⟩ := isFin_iff.mp ha.1
  obtain ⟨⟨v, hv⟩, ⟨d, hd⟩⟩ := prim_fin (hp x hx)
  refine ⟨by simp [Expr.eval, hx, hv], fun ct hct => ?_⟩
  obtain ⟨c, rfl⟩ := isFin_iff.mp hct
  simp only [Expr.vjp, hx, hd]
  exact ha.2 _ (by simp)

theorem gradFin_let {env : Env EF} {i : Nat} {v body : Expr EF} (hv : GradFin env v)
    (hb : GradFin (env.set i (v.eval env)) body) : GradFin env (Expr.letE i v body) := by
  refine ⟨by simpa [Expr.eval] using hb.1, fun ct hct => ?_⟩
  simp only [Expr.vjp]
  have h1 := hb.2 ct hct
  exact allFin_append (fun kv hkv => h1 kv (List.mem_filter.mp hkv).1) (hv.2 _ (total_fin h1 _))

/-- sum of finitely many gradient-finite terms (independent dimensions: `.sum()` of the per-element log-densities) -/
def sumExpr : List (Expr EF) → Expr EF
  | [] => Expr.const (fin 0)
  | e :: es => Expr.add e (sumExpr es)

theorem gradFin_sumExpr {env : Env EF} : ∀ {es : List (Expr EF)}, (∀ e ∈ es, GradFin env e) → GradFin env (sumExpr es)
  | [], _ => ⟨by simp [sumExpr, Expr.eval], fun ct _ => by intro kv hkv; simp [sumExpr, Expr.vjp] at hkv⟩
  | e :: es, h =>
      gradFin_add (h e (List.mem_cons_self ..)) (gradFin_sumExpr (fun e' he' => h e' (List.mem_cons_of_mem _ he')))

end AdT
end
