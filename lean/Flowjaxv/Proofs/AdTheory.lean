import Flowjaxv.Proofs.EF
/-!
# Finite values ⇒ finite adjoints, compositionally

`Safe env e` is a VALUE-dependent predicate: every sub-expression of `e` — including BOTH branches of
every `select`, because JAX differentiates the unselected branch with a zero cotangent — evaluates to a
finite number at which every primitive has a finite partial.  `safe_fin` shows a safe expression has a
finite value and only finite adjoints for every finite cotangent.
-/
noncomputable section
open Classical Ad EF

namespace AdT

/-- primitive `p` has a finite value and a finite partial at the finite argument `r` -/
def PrimSafe : Prim → ℝ → Prop
  | .log, r => 0 < r
  | .sqrt, r => 0 < r
  | .artanh, r => |r| < 1
  | _, _ => True

theorem prim_fin {p : Prim} {r : ℝ} (h : PrimSafe p r) :
    (∃ v, applyPrim p (fin r) = fin v) ∧ (∃ d, dPrim p (fin r) = fin d) := by
  cases p
  · exact ⟨⟨_, rfl⟩, ⟨_, rfl⟩⟩
  · exact ⟨⟨_, rfl⟩, ⟨_, rfl⟩⟩
  · exact ⟨⟨_, rfl⟩, ⟨_, rfl⟩⟩
  · have h' : 0 < r := h
    refine ⟨⟨Real.log r, by show EF.log (fin r) = _; simp [EF.log, h']⟩, ⟨(1:ℝ) / r, ?_⟩⟩
    show (fin ((1:Int):ℝ)) / fin r = _
    rw [EF.fin_div h'.ne']; simp
  · refine ⟨⟨_, rfl⟩, ⟨1 - Real.tanh r * Real.tanh r, ?_⟩⟩
    show (fin ((1:Int):ℝ)) - EF.tanh (fin r) * EF.tanh (fin r) = _
    simp [EF.tanh]
  · have h' : |r| < 1 := h
    have hne : (1:ℝ) - r * r ≠ 0 := by
      have := abs_lt.mp h'; nlinarith
    refine ⟨⟨Real.artanh r, by show EF.artanh (fin r) = _; simp [EF.artanh, h']⟩, ⟨1 / (1 - r * r), ?_⟩⟩
    show (fin ((1:Int):ℝ)) / ((fin ((1:Int):ℝ)) - fin r * fin r) = _
    simp only [EF.fin_mul, EF.fin_sub, Int.cast_one]
    rw [EF.fin_div hne]
  · have h' : 0 < r := h
    have hs : 0 < Real.sqrt r := Real.sqrt_pos.mpr h'
    refine ⟨⟨Real.sqrt r, by show EF.sqrt (fin r) = _; simp [EF.sqrt, h'.le]⟩, ⟨1 / (2 * Real.sqrt r), ?_⟩⟩
    show (fin ((1:Int):ℝ)) / ((fin ((2:Int):ℝ)) * EF.sqrt (fin r)) = _
    have : EF.sqrt (fin r) = fin (Real.sqrt r) := by simp [EF.sqrt, h'.le]
    rw [this, EF.fin_mul, EF.fin_div (by positivity)]; simp
  · exact ⟨⟨_, rfl⟩, ⟨_, rfl⟩⟩
  · exact ⟨⟨_, rfl⟩, ⟨_, rfl⟩⟩

def Safe : Env EF → Expr EF → Prop
  | env, .var i => isFin (env.s i)
  | _, .const c => isFin c
  | env, .get vec _ => ∀ x ∈ env.v vec, isFin x
  | env, .add a b => Safe env a ∧ Safe env b
  | env, .sub a b => Safe env a ∧ Safe env b
  | env, .mul a b => Safe env a ∧ Safe env b
  | env, .div a b => Safe env a ∧ Safe env b ∧ b.eval env ≠ fin 0
  | env, .neg a => Safe env a
  | env, .prim p a => Safe env a ∧ ∀ r, a.eval env = fin r → PrimSafe p r
  | env, .max a b => Safe env a ∧ Safe env b
  | env, .min a b => Safe env a ∧ Safe env b
  | env, .sel _ a b => Safe env a ∧ Safe env b
  | env, .letE i v body => Safe env v ∧ Safe (env.set i (v.eval env)) body

def AllFin (g : Grad EF) : Prop := ∀ kv ∈ g, isFin kv.2

theorem allFin_append {g h : Grad EF} (hg : AllFin g) (hh : AllFin h) : AllFin (g ++ h) := by
  intro kv hkv
  rcases List.mem_append.mp hkv with h1 | h1
  · exact hg kv h1
  · exact hh kv h1

theorem total_fin {g : Grad EF} (hg : AllFin g) (k : Key) : isFin (Grad.total g k) := by
  unfold Grad.total
  have hf : AllFin (g.filter (fun kv => kv.1 = k)) := fun kv hkv => hg kv (List.mem_filter.mp hkv).1
  generalize g.filter (fun kv => kv.1 = k) = l at hf
  have : ∀ (acc : EF), isFin acc → isFin (l.foldl (fun acc kv => acc + kv.2) acc) := by
    induction l with
    | nil => intro acc h; simpa using h
    | cons kv l ih =>
      intro acc hacc
      simp only [List.foldl_cons]
      apply ih (fun kv' h' => hf kv' (List.mem_cons_of_mem _ h'))
      obtain ⟨a, rfl⟩ := isFin_iff.mp hacc
      obtain ⟨b, hb⟩ := isFin_iff.mp (hf kv (List.mem_cons_self ..))
      rw [hb]; simp
  exact this _ (by simp)

theorem getD_fin {xs : List EF} (h : ∀ x ∈ xs, isFin x) (i : Nat) : isFin (xs.getD i (fin 0)) := by
  rw [List.getD_eq_getElem?_getD]
  cases hi : xs[i]? with
  | none => simp
  | some x => simpa using h x (List.mem_of_getElem? hi)

/-- A safe expression has a finite value … -/
theorem safe_eval_fin : ∀ (e : Expr EF) (env : Env EF), Safe env e → isFin (e.eval env)
  | .var i, env, h => h
  | .const c, env, h => h
  | .get vec idx, env, h => by
      simp only [Expr.eval]
      have : (Num.ofInt 0 : EF) = fin 0 := by simp
      rw [this]; exact getD_fin h _
  | .add a b, env, h => by
      obtain ⟨x, hx⟩ := isFin_iff.mp (safe_eval_fin a env h.1)
      obtain ⟨y, hy⟩ := isFin_iff.mp (safe_eval_fin b env h.2)
      simp [Expr.eval, hx, hy]
  | .sub a b, env, h => by
      obtain ⟨x, hx⟩ := isFin_iff.mp (safe_eval_fin a env h.1)
      obtain ⟨y, hy⟩ := isFin_iff.mp (safe_eval_fin b env h.2)
      simp [Expr.eval, hx, hy]
  | .mul a b, env, h => by
      obtain ⟨x, hx⟩ := isFin_iff.mp (safe_eval_fin a env h.1)
      obtain ⟨y, hy⟩ := isFin_iff.mp (safe_eval_fin b env h.2)
      simp [Expr.eval, hx, hy]
  | .div a b, env, h => by
      obtain ⟨x, hx⟩ := isFin_iff.mp (safe_eval_fin a env h.1)
      obtain ⟨y, hy⟩ := isFin_iff.mp (safe_eval_fin b env h.2.1)
      have hy0 : y ≠ 0 := by intro h0; apply h.2.2; rw [hy, h0]
      simp [Expr.eval, hx, hy, EF.fin_div hy0]
  | .neg a, env, h => by
      obtain ⟨x, hx⟩ := isFin_iff.mp (safe_eval_fin a env h)
      simp [Expr.eval, hx]
  | .prim p a, env, h => by
      obtain ⟨x, hx⟩ := isFin_iff.mp (safe_eval_fin a env h.1)
      obtain ⟨v, hv⟩ := (prim_fin (h.2 x hx)).1
      simp [Expr.eval, hx, hv]
  | .max a b, env, h => by
      simp only [Expr.eval]; split
      · exact safe_eval_fin b env h.2
      · exact safe_eval_fin a env h.1
  | .min a b, env, h => by
      simp only [Expr.eval]; split
      · exact safe_eval_fin b env h.2
      · exact safe_eval_fin a env h.1
  | .sel c a b, env, h => by
      simp only [Expr.eval]; split
      · exact safe_eval_fin a env h.1
      · exact safe_eval_fin b env h.2
  | .letE i v body, env, h => by
      simp only [Expr.eval]; exact safe_eval_fin body _ h.2

/-- … and only finite adjoints, for every finite cotangent (so a finite cotangent coming from the
layers above yields finite cotangents for the layers below: finiteness composes through flows). -/
theorem safe_vjp_fin : ∀ (e : Expr EF) (env : Env EF), Safe env e → ∀ ct, isFin ct → AllFin (e.vjp env ct)
  | .var i, env, _, ct, hct => by intro kv hkv; simp [Expr.vjp] at hkv; rw [hkv]; exact hct
  | .const c, env, _, ct, hct => by intro kv hkv; simp [Expr.vjp] at hkv
  | .get vec idx, env, _, ct, hct => by intro kv hkv; simp [Expr.vjp] at hkv; rw [hkv]; exact hct
  | .add a b, env, h, ct, hct =>
      allFin_append (safe_vjp_fin a env h.1 ct hct) (safe_vjp_fin b env h.2 ct hct)
  | .sub a b, env, h, ct, hct => by
      obtain ⟨c, rfl⟩ := isFin_iff.mp hct
      exact allFin_append (safe_vjp_fin a env h.1 _ (by simp)) (safe_vjp_fin b env h.2 _ (by simp))
  | .mul a b, env, h, ct, hct => by
      obtain ⟨c, rfl⟩ := isFin_iff.mp hct
      obtain ⟨x, hx⟩ := isFin_iff.mp (safe_eval_fin a env h.1)
      obtain ⟨y, hy⟩ := isFin_iff.mp (safe_eval_fin b env h.2)
      simp only [Expr.vjp, hx, hy]
      exact allFin_append (safe_vjp_fin a env h.1 _ (by simp)) (safe_vjp_fin b env h.2 _ (by simp))
  | .div a b, env, h, ct, hct => by
      obtain ⟨c, rfl⟩ := isFin_iff.mp hct
      obtain ⟨x, hx⟩ := isFin_iff.mp (safe_eval_fin a env h.1)
      obtain ⟨y, hy⟩ := isFin_iff.mp (safe_eval_fin b env h.2.1)
      have hy0 : y ≠ 0 := by intro h0; apply h.2.2; rw [hy, h0]
      have hyy : y * y ≠ 0 := mul_ne_zero hy0 hy0
      simp only [Expr.vjp, hx, hy]
      refine allFin_append (safe_vjp_fin a env h.1 _ ?_) (safe_vjp_fin b env h.2.1 _ ?_)
      · rw [EF.fin_div hy0]; simp
      · simp only [EF.fin_mul, EF.fin_neg]; rw [EF.fin_div hyy]; simp
  | .neg a, env, h, ct, hct => by
      obtain ⟨c, rfl⟩ := isFin_iff.mp hct
      exact safe_vjp_fin a env h _ (by simp)
  | .prim p a, env, h, ct, hct => by
      obtain ⟨c, rfl⟩ := isFin_iff.mp hct
      obtain ⟨x, hx⟩ := isFin_iff.mp (safe_eval_fin a env h.1)
      obtain ⟨d, hd⟩ := (prim_fin (h.2 x hx)).2
      simp only [Expr.vjp, hx, hd]
      exact safe_vjp_fin a env h.1 _ (by simp)
  | .max a b, env, h, ct, hct => by
      obtain ⟨c, rfl⟩ := isFin_iff.mp hct
      have hw : ∀ (p q : Bool), isFin (fin c * (if p then (Num.ofInt 1 : EF) else if q then Num.ofInt 0 else Num.ofInt 1 / Num.ofInt 2)) := by
        intro p q; have h2 : (2:ℝ) ≠ 0 := by norm_num
        cases p <;> cases q <;> simp [EF.fin_div h2]
      simp only [Expr.vjp]
      exact allFin_append (safe_vjp_fin a env h.1 _ (hw _ _)) (safe_vjp_fin b env h.2 _ (hw _ _))
  | .min a b, env, h, ct, hct => by
      obtain ⟨c, rfl⟩ := isFin_iff.mp hct
      have hw : ∀ (p q : Bool), isFin (fin c * (if p then (Num.ofInt 1 : EF) else if q then Num.ofInt 0 else Num.ofInt 1 / Num.ofInt 2)) := by
        intro p q; have h2 : (2:ℝ) ≠ 0 := by norm_num
        cases p <;> cases q <;> simp [EF.fin_div h2]
      simp only [Expr.vjp]
      exact allFin_append (safe_vjp_fin a env h.1 _ (hw _ _)) (safe_vjp_fin b env h.2 _ (hw _ _))
  | .sel c a b, env, h, ct, hct => by
      simp only [Expr.vjp]
      refine allFin_append (safe_vjp_fin a env h.1 _ ?_) (safe_vjp_fin b env h.2 _ ?_)
      · split
        · exact hct
        · simp
      · split
        · simp
        · exact hct
  | .letE i v body, env, h, ct, hct => by
      simp only [Expr.vjp]
      have hb := safe_vjp_fin body _ h.2 ct hct
      refine allFin_append (fun kv hkv => hb kv (List.mem_filter.mp hkv).1) ?_
      exact safe_vjp_fin v env h.1 _ (total_fin hb _)

/-- the public `log_prob`'s last line `where(isnan(lps), -inf, lps)`: whatever the value, not NaN -/
def nanToNegInf : EF → EF | nan => ninf | x => x
theorem nanToNegInf_not_nan (x : EF) : ¬ isNaN (nanToNegInf x) := by cases x <;> simp [nanToNegInf, isNaN]

end AdT
end
