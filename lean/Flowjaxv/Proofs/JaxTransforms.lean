import Flowjaxv.Model.JaxTrBij
import Flowjaxv.Proofs.LogDet
import Flowjaxv.Proofs.ArrGen
/-!
# The GENERATED `Scan` / `Vmap` (`Gen/JaxTransforms.lean`) against the generated `Chain` and the hand model of `Vmap`

`lax.scan` / `eqx.partition` / `eqx.combine` / `eqx.filter_vmap` have the meanings of `Model/JaxTrWorld.lean`; everything
else — which child method each closure calls, the carry, the accumulation of the log-dets, `reverse=True` — is read from
`jax_transforms.py` on every run.
-/
open Gen GenJaxTr

namespace JaxTrProofs

/-! ## `lax.scan`, `_filter_scan` -/
section scan
variable {γ ξ υ β : Type}

/-- the final carry of the reference loop is the left fold of the carry component -/
theorem scanList_fst (f : γ → ξ → γ × υ) (init : γ) (xs : List ξ) :
    (JaxTr.scanList f init xs).1 = xs.foldl (fun c x => (f c x).1) init := by
  induction xs generalizing init with
  | nil => rfl
  | cons x xs ih => simp only [JaxTr.scanList, List.foldl_cons]; exact ih _

theorem scanList_snd_length (f : γ → ξ → γ × υ) (init : γ) (xs : List ξ) :
    (JaxTr.scanList f init xs).2.length = xs.length := by
  induction xs generalizing init with
  | nil => rfl
  | cons x xs ih => simp only [JaxTr.scanList, List.length_cons]; rw [ih]

/-- **`lax.scan`'s carry**: the fold over the slices — over the REVERSED list of slices when `reverse=True` -/
theorem laxScan_fst (f : γ → JaxTr.LeafSlice β → γ × υ) (init : γ) (xs : JaxTr.Leaves β) (r : Bool) :
    (JaxTr.laxScan f init xs r).1
      = (if r then xs.slices.reverse else xs.slices).foldl (fun c x => (f c x).1) init := by
  cases r <;> simp [JaxTr.laxScan, scanList_fst]

/-- **the generated `_filter_scan`** (partition, `_scan_fn` with `combine`, `scan(…, reverse=reverse)`): its carry is the
fold of `f` over the unstacked layers, in reverse order iff `reverse` -/
theorem filterScan_fst (f : γ → β → γ × υ) (init : γ) (xs : JaxTr.Stacked β) (r : Bool) :
    (filterScan f init xs r).1 = (if r then xs.layers.reverse else xs.layers).foldl (fun c b => (f c b).1) init := by
  simp only [filterScan, laxScan_fst, JaxTr.partition]
  cases r
  · simp only [Bool.false_eq_true, if_false, List.foldl_map]; rfl
  · simp only [if_true, ← List.map_reverse, List.foldl_map]; rfl

/-- one `ys` entry per layer -/
theorem filterScan_snd_length (f : γ → β → γ × υ) (init : γ) (xs : JaxTr.Stacked β) (r : Bool) :
    (filterScan f init xs r).2.length = xs.layers.length := by
  cases r <;> simp [filterScan, JaxTr.laxScan, JaxTr.partition, scanList_snd_length]

end scan

/-! ## generated `Scan` = generated `Chain` of the unstacked layers -/
section scanChain
variable {X C α : Type} [Add α] [OfNat α 0]

theorem scan_transform_eq (s : JaxTr.Scan X C α) (x : X) (c : C) :
    Scan.transform s x c = (Chain.mk s.bijection.layers).transform x c := by
  simp only [Scan.transform, filterScan_fst, Chain.transform]; rfl

theorem scan_inverse_eq (s : JaxTr.Scan X C α) (y : X) (c : C) :
    Scan.inverse s y c = (Chain.mk s.bijection.layers).inverse y c := by
  simp only [Scan.inverse, filterScan_fst, Chain.inverse]; rfl

theorem scan_tld_eq (s : JaxTr.Scan X C α) (x : X) (c : C) :
    Scan.transform_and_log_det s x c = (Chain.mk s.bijection.layers).transform_and_log_det x c := by
  simp only [Scan.transform_and_log_det, filterScan_fst, Chain.transform_and_log_det]; rfl

theorem scan_ild_eq (s : JaxTr.Scan X C α) (y : X) (c : C) :
    Scan.inverse_and_log_det s y c = (Chain.mk s.bijection.layers).inverse_and_log_det y c := by
  simp only [Scan.inverse_and_log_det, filterScan_fst, Chain.inverse_and_log_det]; rfl

/-- **`gen_scan_eq_chain`** -/
theorem scan_toBij_eq_chain [Neg α] (s : JaxTr.Scan X C α) : s.toBij = (Chain.mk s.bijection.layers).toBij := by
  simp only [JaxTr.Scan.toBij, Chain.toBij, Bij.mk.injEq]
  exact ⟨funext fun x => funext fun c => scan_transform_eq s x c, funext fun x => funext fun c => scan_inverse_eq s x c,
    funext fun x => funext fun c => scan_tld_eq s x c, funext fun x => funext fun c => scan_ild_eq s x c⟩

end scanChain

/-! ## consequences at ℝ: lawful, log-det correct, antisymmetric whenever the layers are -/
section scanReal
variable {X C : Type}

/-- generated `Scan` of typed-composable lawful layers (heterogeneous, any number) is lawful -/
theorem scan_lawful {s : JaxTr.Scan X C ℝ} {D E : Set X} (h : ChainLawful s.bijection.layers D E) :
    s.toBij.Lawful D E := by
  rw [scan_toBij_eq_chain]; exact Gen.chain_lawful h

/-- the log-det the generated `Scan.transform_and_log_det` returns is `log |derivative|` of the generated
`Scan.transform` whenever every layer's is (chain rule, any number of layers) -/
theorem scan_ld {C : Type} {s : JaxTr.Scan ℝ C ℝ} {D E : Set ℝ} (h : LogDet.ChainAll Bij.LdCorrect s.bijection.layers D E) :
    s.toBij.LdCorrect D := by
  rw [scan_toBij_eq_chain]; exact LogDet.chain_ld h

/-- the generated `Scan.inverse_and_log_det` returns minus the forward log-det at the preimage whenever every layer does -/
theorem scan_ld_antisym {s : JaxTr.Scan X C ℝ} {D E : Set X} (h : LogDet.ChainAll Bij.LdAntisym s.bijection.layers D E) :
    s.toBij.LdAntisym D := by
  rw [scan_toBij_eq_chain]; exact LogDet.chain_ld_antisym h

end scanReal

/-! ## generated `Vmap` = the hand model (`ArrComb.vmap` = `Stack` along a new leading axis of the per-call bijections) -/
section vmap
open ArrJnp ArrComb ArrGen
variable {κ α : Type} [Add α] [OfNat α 0] [Inhabited κ]

/-- a child with the condition of its own call baked in (what call `i` of the vmapped function sees) -/
def fixCond (b : SBij (Arr κ) (Arr κ) α) (ci : Arr κ) : SBij (Arr κ) (Arr κ) α :=
  { fwd := fun x _ => b.fwd x ci, inv := fun y _ => b.inv y ci, fwdLd := fun x _ => b.fwdLd x ci,
    invLd := fun y _ => b.invLd y ci, shape := b.shape, cond_shape := b.cond_shape }

/-- the per-call bijections of a `Vmap` at condition `c`: slice `i` of the bijection (or the shared bijection) with slice `i` of
the condition along `in_axes_condition` (or the shared condition) -/
def calls (v : JaxTr.Vmap κ α) (c : Arr κ) : List (SBij (Arr κ) (Arr κ) α) :=
  List.zipWith fixCond (JaxTr.mapModule v.in_axes.1 v.bijection v.axis_size) (JaxTr.mapArg v.in_axes.2.2 c v.axis_size)

theorem zipWith3_fix {ρ : Type} (g : SBij (Arr κ) (Arr κ) α → Arr κ → Arr κ → ρ) (c0 : Arr κ)
    (hg : ∀ b ci x, g (fixCond b ci) x c0 = g b x ci)
    (bs : List (SBij (Arr κ) (Arr κ) α)) (xs cs : List (Arr κ)) :
    JaxTr.zipWith3 g bs xs cs = List.zipWith (fun b x => g b x c0) (List.zipWith fixCond bs cs) xs := by
  induction bs generalizing xs cs with
  | nil => cases xs <;> cases cs <;> simp [JaxTr.zipWith3]
  | cons b bs ih =>
    cases xs with
    | nil => cases cs <;> simp [JaxTr.zipWith3]
    | cons x xs =>
      cases cs with
      | nil => simp [JaxTr.zipWith3]
      | cons c cs => simp [JaxTr.zipWith3, ih, hg]

/-- the generated `Stack` object (axis 0) over the per-call bijections -/
def stk (v : JaxTr.Vmap κ α) (cs : List Nat) (c : Arr κ) : Stack κ (Arr κ) α :=
  ⟨v.axis_size :: cs, v.cond_shape, calls v c, 0⟩

/-- **generated `Vmap` method = generated `Stack` method (axis 0) over the per-call bijections** — mapped or broadcast
parameters, mapped (any axis) or broadcast condition -/
theorem vmap_eq_stack (v : JaxTr.Vmap κ α) (cs : List Nat) (x c : Arr κ) (hx0 : v.in_axes.2.1 = 0)
    (hn : (calls v c).length = v.axis_size) :
    Vmap.transform v x c = (stk v cs c).transform x c ∧ Vmap.inverse v x c = (stk v cs c).inverse x c
    ∧ Vmap.transform_and_log_det v x c = (stk v cs c).transform_and_log_det x c
    ∧ Vmap.inverse_and_log_det v x c = (stk v cs c).inverse_and_log_det x c := by
  have hsp : (stk v cs c)._split_and_squeeze x = JaxTr.unstack x v.axis_size ((v.in_axes.2.1 : Nat) : Int) := by
    simp only [Stack._split_and_squeeze, JaxTr.unstack, stk, hn, hx0]; rfl
  refine ⟨?_, ?_, ?_, ?_⟩
  · simp only [Vmap.transform, JaxTr.filterVmapArr, JaxTr.vmapCalls, Stack.transform, hsp, zipWithStrict]
    rw [zipWith3_fix _ c (fun _ _ _ => rfl)]; rfl
  · simp only [Vmap.inverse, JaxTr.filterVmapArr, JaxTr.vmapCalls, Stack.inverse, hsp, zipWithStrict]
    rw [zipWith3_fix _ c (fun _ _ _ => rfl)]; rfl
  · simp only [Vmap.transform_and_log_det, JaxTr.filterVmapArrLd, JaxTr.vmapCalls, Stack.transform_and_log_det, hsp,
      zipWithStrict, unzipStar, pySum, JaxTr.jnpSum]
    rw [zipWith3_fix _ c (fun _ _ _ => rfl)]; rfl
  · simp only [Vmap.inverse_and_log_det, JaxTr.filterVmapArrLd, JaxTr.vmapCalls, Stack.inverse_and_log_det, hsp,
      zipWithStrict, unzipStar, pySum, JaxTr.jnpSum]
    rw [zipWith3_fix _ c (fun _ _ _ => rfl)]; rfl

/-- the per-call bijections as plain records -/
abbrev callBijs (v : JaxTr.Vmap κ α) (c : Arr κ) : List (Bij (Arr κ) (Arr κ) α) := (calls v c).map SBij.toBij

/-- **generated `Vmap` = hand model of `Vmap`** (`ArrComb.vmap` of the per-call bijections), all four methods, on arrays of
the declared shape `axis_size :: cs` -/
theorem vmap_eq_model (v : JaxTr.Vmap κ α) (cs : List Nat) (c : Arr κ) (hx0 : v.in_axes.2.1 = 0)
    (hn : (calls v c).length = v.axis_size) (hpos : 0 < v.axis_size)
    (hsh : StackShaped cs (callBijs v c)) {x : Arr κ} (hx : x ∈ WS (v.axis_size :: cs)) :
    Vmap.transform v x c = (ArrComb.vmap cs (callBijs v c)).fwd x c
    ∧ Vmap.inverse v x c = (ArrComb.vmap cs (callBijs v c)).inv x c
    ∧ Vmap.transform_and_log_det v x c = (ArrComb.vmap cs (callBijs v c)).fwdLd x c
    ∧ Vmap.inverse_and_log_det v x c = (ArrComb.vmap cs (callBijs v c)).invLd x c := by
  have hl : (callBijs v c).length = v.axis_size := by simp [callBijs, hn]
  have hco : StackCoherent ⟨v.axis_size :: cs, 0, List.replicate v.axis_size 1⟩ cs (stk v cs c).bijections.length := by
    have := vmap_coherent cs (callBijs v c); rw [hl] at this; simpa [stk, hn] using this
  have ho : StackOf (stk v cs c) ⟨v.axis_size :: cs, 0, List.replicate v.axis_size 1⟩ :=
    ⟨by simp [stk, Arr.normAxis], by simp [stk, hn, hpos]⟩
  have h := stack_eqOn hco ho (by simpa [stk] using hsh)
  obtain ⟨e1, e2, e3, e4⟩ := vmap_eq_stack v cs x c hx0 hn
  have hv : ArrComb.vmap cs (callBijs v c)
      = ArrComb.stack ⟨v.axis_size :: cs, 0, List.replicate v.axis_size 1⟩ cs (kids (stk v cs c).bijections) := by
    simp [ArrComb.vmap, hl, stk, callBijs]
  rw [e1, e2, e3, e4, hv]
  exact ⟨h.fwd x hx c, h.inv x hx c, h.fwdLd x hx c, h.invLd x hx c⟩

/-- fixing the condition keeps a lawful child lawful -/
theorem fixCond_lawful {b : SBij (Arr κ) (Arr κ) α} {D E : Set (Arr κ)} (h : b.toBij.Lawful D E) (ci : Arr κ) :
    (fixCond b ci).toBij.Lawful D E :=
  ⟨fun x hx _ => h.maps x hx ci, fun y hy _ => h.mapsInv y hy ci, fun x hx _ => h.left x hx ci,
   fun y hy _ => h.right y hy ci, fun x _ => h.fwdLd_fst x ci, fun y _ => h.invLd_fst y ci⟩

theorem callBijs_lawful {v : JaxTr.Vmap κ α} {cs : List Nat} (c : Arr κ)
    (hb : ∀ b ∈ JaxTr.mapModule v.in_axes.1 v.bijection v.axis_size, b.toBij.Lawful (WS cs) (WS cs)) :
    ∀ b ∈ callBijs v c, b.Lawful (WS cs) (WS cs) := by
  intro b hbm
  obtain ⟨b', hb', rfl⟩ := List.mem_map.1 hbm
  obtain ⟨b0, hb0, ci, _, rfl⟩ := mem_zipWith hb'
  exact fixCond_lawful (hb b0 hb0) ci

/-- **round trips of the generated `Vmap` at a condition `c`** whose mapped axis (if any) exists: maps the declared shape to
itself, `inverse ∘ transform = id`, `transform ∘ inverse = id`, and the `…_and_log_det` points are the plain points -/
theorem vmap_roundtrip (v : JaxTr.Vmap κ α) (cs : List Nat) (c : Arr κ) (hx0 : v.in_axes.2.1 = 0)
    (hn : (calls v c).length = v.axis_size) (hpos : 0 < v.axis_size)
    (hb : ∀ b ∈ JaxTr.mapModule v.in_axes.1 v.bijection v.axis_size, b.toBij.Lawful (WS cs) (WS cs))
    {x : Arr κ} (hx : x ∈ WS (v.axis_size :: cs)) :
    Vmap.transform v x c ∈ WS (v.axis_size :: cs) ∧ Vmap.inverse v x c ∈ WS (v.axis_size :: cs)
    ∧ Vmap.inverse v (Vmap.transform v x c) c = x ∧ Vmap.transform v (Vmap.inverse v x c) c = x
    ∧ (Vmap.transform_and_log_det v x c).1 = Vmap.transform v x c
    ∧ (Vmap.inverse_and_log_det v x c).1 = Vmap.inverse v x c := by
  have hbl := callBijs_lawful c hb
  have hl : (callBijs v c).length = v.axis_size := by simp [callBijs, hn]
  have hL := ArrComb.vmap_lawful cs hbl
  rw [hl] at hL
  have hsh := stackShaped_of_lawful hbl
  have e := fun {y : Arr κ} (hy : y ∈ WS (v.axis_size :: cs)) => vmap_eq_model v cs c hx0 hn hpos hsh hy
  have h1 := hL.maps x hx c
  have h2 := hL.mapsInv x hx c
  refine ⟨by rw [(e hx).1]; exact h1, by rw [(e hx).2.1]; exact h2, ?_, ?_, ?_, ?_⟩
  · rw [(e hx).1, (e h1).2.1]; exact hL.left x hx c
  · rw [(e hx).2.1, (e h2).1]; exact hL.right x hx c
  · rw [(e hx).2.2.1, (e hx).1]; exact hL.fwdLd_fst x c
  · rw [(e hx).2.2.2, (e hx).2.1]; exact hL.invLd_fst x c

/-- **the generated `Vmap` with a broadcast condition (`in_axes_condition=None`) is a lawful bijection of the declared shape**
whenever every per-call bijection (the slices of a mapped bijection, or the one shared bijection) is lawful on the child shape -/
theorem vmap_lawful (v : JaxTr.Vmap κ α) (cs : List Nat) (hx0 : v.in_axes.2.1 = 0) (hc : v.in_axes.2.2 = none)
    (hm : (JaxTr.mapModule v.in_axes.1 v.bijection v.axis_size).length = v.axis_size) (hpos : 0 < v.axis_size)
    (hb : ∀ b ∈ JaxTr.mapModule v.in_axes.1 v.bijection v.axis_size, b.toBij.Lawful (WS cs) (WS cs)) :
    v.toBij.Lawful (WS (v.axis_size :: cs)) (WS (v.axis_size :: cs)) := by
  have hn : ∀ c, (calls v c).length = v.axis_size := by
    intro c; simp [calls, hc, JaxTr.mapArg, hm]
  have h := fun c {x : Arr κ} (hx : x ∈ WS (v.axis_size :: cs)) => vmap_roundtrip v cs c hx0 (hn c) hpos hb hx
  refine ⟨fun x hx c => (h c hx).1, fun y hy c => (h c hy).2.1, fun x hx c => (h c hx).2.2.1,
    fun y hy c => (h c hy).2.2.2.1, ?_, ?_⟩
  · intro x c
    obtain ⟨_, _, e3, _⟩ := vmap_eq_stack v cs x c hx0 (hn c)
    obtain ⟨e1, _, _, _⟩ := vmap_eq_stack v cs x c hx0 (hn c)
    show (Vmap.transform_and_log_det v x c).1 = Vmap.transform v x c
    rw [e3, e1]
    exact (stack_fst (stk v cs c) (lawful_fst (cs := cs) (by simpa [stk] using callBijs_lawful c hb)) x c).1
  · intro y c
    obtain ⟨_, e2, _, e4⟩ := vmap_eq_stack v cs y c hx0 (hn c)
    show (Vmap.inverse_and_log_det v y c).1 = Vmap.inverse v y c
    rw [e4, e2]
    exact (stack_fst (stk v cs c) (lawful_fst (cs := cs) (by simpa [stk] using callBijs_lawful c hb)) y c).2

/-- **slicewise, in the code's own terms** (every `in_axes`, every `in_axes_condition`): the generated `Vmap.transform` /
`inverse` return `jnp.stack(·, 0)` of the child method applied to (bijection `i`, slice `i` of the input, condition `i`), and the
log-det of the `…_and_log_det` methods is the `jnp.sum` of the per-call log-dets -/
theorem vmap_slicewise (v : JaxTr.Vmap κ α) (x c : Arr κ) :
    let bs := JaxTr.mapModule v.in_axes.1 v.bijection v.axis_size
    let xs := JaxTr.unstack x v.axis_size ((v.in_axes.2.1 : Nat) : Int)
    let cds := JaxTr.mapArg v.in_axes.2.2 c v.axis_size
    Vmap.transform v x c = ArrJnp.stack (JaxTr.zipWith3 (fun b xi ci => b.fwd xi ci) bs xs cds) 0
    ∧ Vmap.inverse v x c = ArrJnp.stack (JaxTr.zipWith3 (fun b xi ci => b.inv xi ci) bs xs cds) 0
    ∧ Vmap.transform_and_log_det v x c
        = (ArrJnp.stack (JaxTr.zipWith3 (fun b xi ci => (b.fwdLd xi ci).1) bs xs cds) 0,
           JaxTr.jnpSum (JaxTr.zipWith3 (fun b xi ci => (b.fwdLd xi ci).2) bs xs cds))
    ∧ Vmap.inverse_and_log_det v x c
        = (ArrJnp.stack (JaxTr.zipWith3 (fun b xi ci => (b.invLd xi ci).1) bs xs cds) 0,
           JaxTr.jnpSum (JaxTr.zipWith3 (fun b xi ci => (b.invLd xi ci).2) bs xs cds)) := by
  have hmap : ∀ {ρ σ : Type} (g : SBij (Arr κ) (Arr κ) α → Arr κ → Arr κ → ρ) (f : ρ → σ) bs xs cds,
      (JaxTr.zipWith3 g bs xs cds).map f = JaxTr.zipWith3 (fun b x c => f (g b x c)) bs xs cds := by
    intro ρ σ g f bs
    induction bs with
    | nil => intro xs cds; cases xs <;> cases cds <;> simp [JaxTr.zipWith3]
    | cons b bs ih =>
      intro xs cds
      cases xs with
      | nil => cases cds <;> simp [JaxTr.zipWith3]
      | cons x xs => cases cds with
        | nil => simp [JaxTr.zipWith3]
        | cons c cds => simp [JaxTr.zipWith3, ih]
  refine ⟨rfl, rfl, ?_, ?_⟩
  · simp only [Vmap.transform_and_log_det, JaxTr.filterVmapArrLd, JaxTr.vmapCalls, hmap]; rfl
  · simp only [Vmap.inverse_and_log_det, JaxTr.filterVmapArrLd, JaxTr.vmapCalls, hmap]; rfl

end vmap

end JaxTrProofs
