import Flowjaxv.Model.JaxTrBij
import Flowjaxv.Proofs.LogDet
import Flowjaxv.Proofs.ArrGen
/-!
# The GENERATED `Scan` / `Vmap` (`Gen/JaxTransforms.lean`) against the generated `Chain` and the hand model of `Vmap`

`lax.scan` / `eqx.partition` / `eqx.combine` / `eqx.filter_vmap` have the meanings of `Model/JaxTrWorld.lean`; everything
else — which child method each closure calls, the carry, the accumulation of the log-dets, `reverse=True` — is read from
`jax_transforms.py` on every run.
-/
open Gen GenJaxTr

namespace JaxTrProofs

/-! ## `lax.scan`, `_filter_scan` -/
section scan
variable {γ ξ υ β : Type}

/-- the final carry of the reference loop is the left fold of the carry component -/
theorem scanList_fst (f : γ → ξ → γ × υ) (init : γ) (xs : List ξ) :
    (JaxTr.scanList f init xs).1 = xs.foldl (fun c x => (f c x).1) init := by
  induction xs generalizing init with
  | nil => rfl
  | cons x xs ih => simp only [JaxTr.scanList, List.foldl_cons]; exact ih _

theorem scanList_snd_length (f : γ → ξ → γ × υ) (init : γ) (xs : List ξ) :
    (JaxTr.scanList f init xs).2.length = xs.length := by
  induction xs generalizing init with
  | nil => rfl
  | cons x xs ih => simp only [JaxTr.scanList, List.length_cons]; rw [ih]

/-- **`lax.scan`'s carry**: the fold over the slices — over the REVERSED list of slices when `reverse=True` -/
theorem laxScan_fst (f : γ → JaxTr.LeafSlice β → γ × υ) (init : γ) (xs : JaxTr.Leaves β) (r : Bool) :
    (JaxTr.laxScan f init xs r).1
      = (if r then xs.slices.reverse else xs.slices).foldl (fun c x => (f c x).1) init := by
  cases r <;> simp [JaxTr.laxScan, scanList_fst]

/-- **the generated `_filter_scan`** (partition, `_scan_fn` with `combine`, `scan(…, reverse=reverse)`): its carry is the
fold of `f` over the unstacked layers, in reverse order iff `reverse` -/
theorem filterScan_fst (f : γ → β → γ × υ) (init : γ) (xs : JaxTr.Stacked β) (r : Bool) :
    (filterScan f init xs r).1 = (if r then xs.layers.reverse else xs.layers).foldl (fun c b => (f c b).1) init := by
  simp only [filterScan, laxScan_fst, JaxTr.partition]
  cases r
  · simp only [Bool.false_eq_true, if_false, List.foldl_map]; rfl
  · simp only [if_true, ← List.map_reverse, List.foldl_map]; rfl

/-- one `ys` entry per layer -/
theorem filterScan_snd_length (f : γ → β → γ × υ) (init : γ) (xs : JaxTr.Stacked β) (r : Bool) :
    (filterScan f init xs r).2.length = xs.layers.length := by
  cases r <;> simp [filterScan, JaxTr.laxScan, JaxTr.partition, scanList_snd_length]

end scan

/-! ## generated `Scan` = generated `Chain` of the unstacked layers -/
section scanChain
variable {X C α : Type} [Add α] [OfNat α 0]

theorem scan_transform_eq (s : JaxTr.Scan X C α) (x : X) (c : C) :
    Scan.transform s x c = (Chain.mk s.bijection.layers).transform x c := by
  simp only [Scan.transform, filterScan_fst, Chain.transform]; rfl

theorem scan_inverse_eq (s : JaxTr.Scan X C α) (y : X) (c : C) :
    Scan.inverse s y c = (Chain.mk s.bijection.layers).inverse y c := by
  simp only [Scan.inverse, filterScan_fst, Chain.inverse]; rfl

theorem scan_tld_eq (s : JaxTr.Scan X C α) (x : X) (c : C) :
    Scan.transform_and_log_det s x c = (Chain.mk s.bijection.layers).transform_and_log_det x c := by
  simp only [Scan.transform_and_log_det, filterScan_fst, Chain.transform_and_log_det]; rfl

theorem scan_ild_eq (s : JaxTr.Scan X C α) (y : X) (c : C) :
    Scan.inverse_and_log_det s y c = (Chain.mk s.bijection.layers).inverse_and_log_det y c := by
  simp only [Scan.inverse_and_log_det, filterScan_fst, Chain.inverse_and_log_det]; rfl

/-- **`gen_scan_eq_chain`** -/
theorem scan_toBij_eq_chain [Neg α] (s : JaxTr.Scan X C α) : s.toBij = (Chain.mk s.bijection.layers).toBij := by
  simp only [JaxTr.Scan.toBij, Chain.toBij, Bij.mk.injEq]
  exact ⟨funext fun x => funext fun c => scan_transform_eq s x c, funext fun x => funext fun c => scan_inverse_eq s x c,
    funext fun x => funext fun c => scan_tld_eq s x c, funext fun x => funext fun c => scan_ild_eq s x c⟩

end scanChain

/-! ## consequences at ℝ: lawful, log-det correct, antisymmetric whenever the layers are -/
section scanReal
variable {X C : Type}

/-- generated `Scan` of typed-composable lawful layers (heterogeneous, any number) is lawful -/
theorem scan_lawful {s : JaxTr.Scan X C ℝ} {D E : Set X} (h : ChainLawful s.bijection.layers D E) :
    s.toBij.Lawful D E := by
  rw [scan_toBij_eq_chain]; exact Gen.chain_lawful h

/-- the log-det the generated `Scan.transform_and_log_det` returns is `log |derivative|` of the generated
`Scan.transform` whenever every layer's is (chain rule, any number of layers) -/
theorem scan_ld {C : Type} {s : JaxTr.Scan ℝ C ℝ} {D E : Set ℝ} (h : LogDet.ChainAll Bij.LdCorrect s.bijection.layers D E) :
    s.toBij.LdCorrect D := by
  rw [scan_toBij_eq_chain]; exact LogDet.chain_ld h

/-- the generated `Scan.inverse_and_log_det` returns minus the forward log-det at the preimage whenever every layer does -/
theorem scan_ld_antisym {s : JaxTr.Scan X C ℝ} {D E : Set X} (h : LogDet.ChainAll Bij.LdAntisym s.bijection.layers D E) :
    s.toBij.LdAntisym D := by
  rw [scan_toBij_eq_chain]; exact LogDet.chain_ld_antisym h

end scanReal
end JaxTrProofs
