import Flowjaxv.Model.FamiliesGenSem
import Flowjaxv.Proofs.Families
import Flowjaxv.Proofs.Vectorize
import Flowjaxv.Proofs.FamiliesMvn
/-!
# The regenerated family constructors (`Gen/FamiliesGen.lean`) build what `Model/Families.lean` wires by hand

For every parameter array, every pair / triple of broadcastable shapes: the object the GENERATED `__init__` returns, read through
`Model/FamiliesGenSem.lean` (unwrap, then the generated elementwise kernels), is `Families.lifted` over the hand-written per-element
components (`normalComp`, `logNormalComp`, `uniformComp`, …, `Ctors.affine`, `Ctors.scale`) of the broadcast parameters.
-/
open Gen RealInst Families Fw Vec

namespace FamGenPf

/-! ### broadcasting facts -/

theorem broadcastTo_length {β : Type} [Inhabited β] (a : NArr β) (s : List Nat) : (broadcastTo a s).data.length = sprod s := by
  simp [broadcastTo]

theorem broadcastTo_wf {β : Type} [Inhabited β] (a : NArr β) (s : List Nat) : (broadcastTo a s).WF := broadcastTo_length a s

/-- broadcasting a well-formed array to its own shape changes nothing -/
theorem broadcastTo_self {β : Type} [Inhabited β] (a : NArr β) (h : a.WF) : broadcastTo a a.shape = a := by
  obtain ⟨s, d⟩ := a
  simp only [NArr.WF] at h
  simp only [broadcastTo, NArr.mk.injEq, true_and]
  apply List.ext_getElem
  · simp [h]
  · intro k h1 h2
    simp only [List.length_map, List.length_range] at h1
    simp only [List.getElem_map, List.getElem_range]
    rw [bIndex_self (validIdx_unflatten h1), flatIndex_unflatten h1]
    simp [List.getD_eq_getElem?_getD, h2]

theorem bzip_absorb : ∀ {p q s : List Nat}, bzip p q = some s → bzip p s = some s
  | [], [], s, h => by simp only [bzip, Option.some.injEq] at h; subst h; simp [bzip]
  | [], _ :: _, s, h => by simp [bzip] at h
  | _ :: _, [], s, h => by simp [bzip] at h
  | x :: xs, y :: ys, s, h => by
    simp only [bzip] at h
    cases hd : bdim x y with
    | none => simp [hd] at h
    | some d =>
      cases hr : bzip xs ys with
      | none => simp [hd, hr] at h
      | some r =>
        simp only [hd, hr, Option.some.injEq] at h
        subst h
        have h1 : bdim x d = some d := by
          rcases bdim_eq_some.1 hd with ⟨rfl, rfl⟩ | ⟨rfl, rfl⟩ | ⟨rfl, rfl⟩
          · exact bdim_self _
          · exact bdim_one_left _
          · exact bdim_self _
        simp [bzip, h1, bzip_absorb hr]

/-- the broadcast shape absorbs its arguments: `broadcast_shapes(a, broadcast_shapes(a, b)) = broadcast_shapes(a, b)` -/
theorem bcast2_absorb {a b s : List Nat} (h : bcast2 a b = some s) : bcast2 a s = some s := by
  have hl := bcast2_length h
  unfold bcast2 at h ⊢
  have hm : max a.length s.length = max a.length b.length := by rw [hl]; omega
  rw [hm, padTo_of_le (s := s) (by omega)]
  exact bzip_absorb h

theorem bcast2_absorb_right {a b s : List Nat} (h : bcast2 a b = some s) : bcast2 b s = some s :=
  bcast2_absorb (by rwa [bcast2_comm] at h)

/-! ### list helpers -/

theorem map_fst_zipWith {β γ δ : Type} (c : δ) (f : β → γ → Bij ℝ Unit ℝ) : ∀ (L : List β) (S : List γ), L.length = S.length →
    (List.zipWith (fun l σ => ((c, f l σ) : δ × Bij ℝ Unit ℝ)) L S).map Prod.fst = List.replicate L.length c
  | [], [], _ => rfl
  | [], _ :: _, h => by simp at h
  | _ :: _, [], h => by simp at h
  | l :: L, σ :: S, h => by
    simp only [List.zipWith_cons_cons, List.map_cons, List.length_cons, List.replicate_succ, List.cons.injEq, true_and]
    exact map_fst_zipWith c f L S (by simpa using h)

theorem map_snd_zipWith {β γ δ ε : Type} (c : β → γ → δ) (f : β → γ → ε) (L : List β) (S : List γ) :
    (List.zipWith (fun l σ => (c l σ, f l σ)) L S).map Prod.snd = List.zipWith f L S := by
  rw [List.map_zipWith]

/-! ### `Affine.__init__`, `Scale.__init__`, `Loc.__init__` -/

/-- what the generated `Affine.__init__` returns, for every pair of shapes that broadcast -/
theorem affine_init_eq (loc scale : NArr ℝ) {s : List Nat} (h : bcast2 loc.shape scale.shape = some s) :
    GenFam.Affine.init loc scale
      = some { shape := s, loc := broadcastTo loc s, scale := Gen.Wr.BijectionReparam.init (broadcastTo scale s) softPlus } := by
  simp [GenFam.Affine.init, broadcastArrays2, toArray, h, broadcastTo]

/-- … and it raises exactly when the shapes do not broadcast -/
theorem affine_init_none (loc scale : NArr ℝ) (h : bcast2 loc.shape scale.shape = none) : GenFam.Affine.init loc scale = none := by
  simp [GenFam.Affine.init, broadcastArrays2, toArray, h]

/-- the unwrapped scale array of a `BijectionReparam(v, SoftPlus())`: entry by entry `Ctors.softplusUnwrap (Ctors.softplusRaw v)` -/
theorem reparam_unwrap_data (v : NArr ℝ) :
    (Gen.Wr.BijectionReparam.unwrap (Gen.Wr.BijectionReparam.init v softPlus)).data
      = v.data.map (fun x => Ctors.softplusUnwrap (Ctors.softplusRaw x)) := by
  simp [Gen.Wr.BijectionReparam.unwrap, Gen.Wr.BijectionReparam.init, softPlus, Ctors.softplusUnwrap, Ctors.softplusRaw, List.map_map,
    Function.comp_def]

/-- the raw stored leaf is `softplus⁻¹` of the argument, entry by entry -/
theorem reparam_raw (v : NArr ℝ) :
    Reparam.raw (Gen.Wr.BijectionReparam.init v softPlus) = v.data.map Ctors.softplusRaw := by
  simp [Reparam.raw, Gen.Wr.BijectionReparam.init, softPlus, Ctors.softplusRaw]

/-- the methods of the object the generated `Affine.__init__` builds are the hand model `Ctors.affine`, entry by entry -/
theorem affine_toBij (L S : NArr ℝ) (s : List Nat) :
    (AffineObj.toBij { shape := s, loc := L, scale := Gen.Wr.BijectionReparam.init S softPlus })
      = Bij.elementwise (List.zipWith (fun l σ => (Ctors.affine l σ).toBij) L.data S.data) := by
  simp only [AffineObj.toBij, reparam_unwrap_data, List.zipWith_map_right]
  rfl

theorem scale_toBij (S : NArr ℝ) (s : List Nat) :
    (ScaleObj.toBij { shape := s, scale := Gen.Wr.BijectionReparam.init S softPlus })
      = Bij.elementwise (S.data.map (fun σ => (Ctors.scale σ).toBij)) := by
  simp only [ScaleObj.toBij, reparam_unwrap_data, List.map_map]
  rfl

/-! ### the location-scale families -/

/-- the common body of `Normal/Gumbel/Cauchy/Laplace/Logistic.__init__` for the base kind `k` -/
theorem locscale_eq (k : BaseKind) (loc scale : NArr ℝ) {s : List Nat} (h : bcast2 loc.shape scale.shape = some s) :
    (Option.bind (Fw.broadcastShapes (shapeOf loc) (shapeOf scale)) fun t =>
      Option.bind (GenFam.Affine.init loc scale) fun b =>
        some ({ base_dist := StdBase.mk k t, bijection := b } : Fw.Transformed StdBase (AffineObj ℝ))).map locScaleDist
      = some (lifted (List.zipWith (locScaleComp k.logProb) (broadcastTo loc s).data (broadcastTo scale s).data)) := by
  simp only [Fw.broadcastShapes, shapeOf, h, affine_init_eq loc scale h, Option.bind_some, Option.map_some, Option.some.injEq]
  have hc : locScaleComp (α := ℝ) k.logProb = fun l σ => (k.logProb, (Ctors.affine l σ).toBij) := rfl
  simp only [locScaleDist, Transformed.toDistWith, affine_toBij, StdBase.toDist, lifted, hc]
  rw [map_snd_zipWith, map_fst_zipWith _ _ _ _ (by simp [broadcastTo_length]), broadcastTo_length]


theorem gen_normal_eq_model (loc scale : NArr ℝ) {s : List Nat} (h : bcast2 loc.shape scale.shape = some s) :
    (GenFam.Normal.init loc scale).map locScaleDist
      = some (lifted (List.zipWith normalComp (broadcastTo loc s).data (broadcastTo scale s).data)) :=
  locscale_eq .normal loc scale h
theorem gen_gumbel_eq_model (loc scale : NArr ℝ) {s : List Nat} (h : bcast2 loc.shape scale.shape = some s) :
    (GenFam.Gumbel.init loc scale).map locScaleDist
      = some (lifted (List.zipWith gumbelComp (broadcastTo loc s).data (broadcastTo scale s).data)) :=
  locscale_eq .gumbel loc scale h
theorem gen_cauchy_eq_model (loc scale : NArr ℝ) {s : List Nat} (h : bcast2 loc.shape scale.shape = some s) :
    (GenFam.Cauchy.init loc scale).map locScaleDist
      = some (lifted (List.zipWith cauchyComp (broadcastTo loc s).data (broadcastTo scale s).data)) :=
  locscale_eq .cauchy loc scale h
theorem gen_laplace_eq_model (loc scale : NArr ℝ) {s : List Nat} (h : bcast2 loc.shape scale.shape = some s) :
    (GenFam.Laplace.init loc scale).map locScaleDist
      = some (lifted (List.zipWith laplaceComp (broadcastTo loc s).data (broadcastTo scale s).data)) :=
  locscale_eq .laplace loc scale h
theorem gen_logistic_eq_model (loc scale : NArr ℝ) {s : List Nat} (h : bcast2 loc.shape scale.shape = some s) :
    (GenFam.Logistic.init loc scale).map locScaleDist
      = some (lifted (List.zipWith logisticComp (broadcastTo loc s).data (broadcastTo scale s).data)) :=
  locscale_eq .logistic loc scale h

/-- a constructor of a location-scale family raises exactly when the two shapes do not broadcast -/
theorem gen_normal_none (loc scale : NArr ℝ) (h : bcast2 loc.shape scale.shape = none) : GenFam.Normal.init loc scale = none := by
  simp [GenFam.Normal.init, Fw.broadcastShapes, shapeOf, h]

/-! ### `Exponential` -/

theorem map_fst_map {β δ : Type} (c : δ) (f : β → Bij ℝ Unit ℝ) (L : List β) :
    (L.map (fun l => ((c, f l) : δ × Bij ℝ Unit ℝ))).map Prod.fst = List.replicate L.length c := by
  induction L with
  | nil => rfl
  | cons l L ih => simp [List.replicate_succ, ih]

theorem gen_exponential_eq_model (rate : NArr ℝ) (hw : rate.WF) :
    exponentialDist (GenFam.Exponential.init rate) = lifted (rate.data.map exponentialComp) := by
  have hc : exponentialComp (α := ℝ) = fun r => (StandardExponential.logProb, (Ctors.scale (1 / r)).toBij) := rfl
  simp only [GenFam.Exponential.init, GenFam.Scale.init, toArray, exponentialDist, Transformed.toDistWith, scale_toBij, StdBase.toDist,
    lifted, hc, recip, List.map_map, shapeOf]
  unfold NArr.WF at hw
  simp only [Function.comp_def, List.map_const', hw]
  rfl

/-! ### `LogNormal`: a `Chain` of elementwise bijections is the elementwise chain -/

theorem zip2_val {A E X : Type} (f : A → X → X) (g : E → X → X) : ∀ (as : List A) (es : List E) (xs : List X),
    List.zipWith (fun (p : A × E) x => g p.2 (f p.1 x)) (List.zip as es) xs = List.zipWith g es (List.zipWith f as xs)
  | [], _, _ => by simp
  | _ :: _, [], _ => by simp
  | _ :: _, _ :: _, [] => by simp
  | a :: as, e :: es, x :: xs => by simp [zip2_val f g as es xs]

theorem zip2_sum {A E X : Type} (f : A → X → X) (lf : A → X → ℝ) (lg : E → X → ℝ) : ∀ (as : List A) (es : List E) (xs : List X),
    as.length = es.length →
    (List.zipWith (fun (p : A × E) x => 0 + lf p.1 x + lg p.2 (f p.1 x)) (List.zip as es) xs).sum
      = 0 + (List.zipWith lf as xs).sum + (List.zipWith lg es (List.zipWith f as xs)).sum
  | [], [], _, _ => by simp
  | [], _ :: _, _, h => by simp at h
  | _ :: _, [], _, h => by simp at h
  | _ :: _, _ :: _, [], _ => by simp
  | a :: as, e :: es, x :: xs, h => by
    have ih := zip2_sum f lf lg as es xs (by simpa using h)
    simp only [List.zip_cons_cons, List.zipWith_cons_cons, List.sum_cons, ih]
    ring

/-- `Chain([A, E])` of two elementwise bijections with as many entries = the elementwise bijection of the per-entry chains -/
theorem chain_elementwise (as es : List (Bij ℝ Unit ℝ)) (h : as.length = es.length) :
    (Chain.mk [Bij.elementwise as, Bij.elementwise es]).toBij
      = Bij.elementwise (List.zipWith (fun a e => (Chain.mk [a, e]).toBij) as es) := by
  have hz : List.zipWith (fun a e => (Chain.mk [a, e]).toBij) as es
      = (List.zip as es).map (fun p => (Chain.mk [p.1, p.2]).toBij) := by
    rw [List.zip, List.map_zipWith]
  rw [hz]
  simp only [Chain.toBij, Bij.elementwise, Bij.mk.injEq]
  refine ⟨?_, ?_, ?_, ?_⟩
  · funext xs c
    simp only [Chain.transform, List.foldl_cons, List.foldl_nil, List.zipWith_map_left]
    exact (zip2_val (fun a x => a.fwd x c) (fun e y => e.fwd y c) as es xs).symm
  · funext ys c
    simp only [Chain.inverse, List.reverse_cons, List.reverse_nil, List.nil_append, List.cons_append, List.foldl_cons, List.foldl_nil,
      List.zipWith_map_left]
    have := zip2_val (fun e y => e.inv y c) (fun a x => a.inv x c) es as ys
    rw [← this, ← List.zip_swap as es, List.zipWith_map_left]
    rfl
  · funext xs c
    simp only [Chain.transform_and_log_det, List.foldl_cons, List.foldl_nil, List.zipWith_map_left, sumElem_eq, FamiliesPf.foldl_add_eq,
      Prod.mk.injEq]
    exact ⟨(zip2_val (fun a x => (a.fwdLd x c).1) (fun e y => (e.fwdLd y c).1) as es xs).symm,
      (zip2_sum (fun a x => (a.fwdLd x c).1) (fun a x => (a.fwdLd x c).2) (fun e y => (e.fwdLd y c).2) as es xs h).symm⟩
  · funext ys c
    simp only [Chain.inverse_and_log_det, List.reverse_cons, List.reverse_nil, List.nil_append, List.cons_append, List.foldl_cons,
      List.foldl_nil, List.zipWith_map_left, sumElem_eq, FamiliesPf.foldl_add_eq, Prod.mk.injEq]
    have h1 := zip2_val (fun e y => (e.invLd y c).1) (fun a x => (a.invLd x c).1) es as ys
    have h2 := zip2_sum (fun e y => (e.invLd y c).1) (fun e y => (e.invLd y c).2) (fun a x => (a.invLd x c).2) es as ys h.symm
    rw [← h1, ← h2, ← List.zip_swap as es, List.zipWith_map_left, List.zipWith_map_left]
    exact ⟨rfl, rfl⟩


theorem zipWith_replicate_right {A B C : Type} (f : A → B → C) (c : B) : ∀ (l : List A) (n : Nat), l.length ≤ n →
    List.zipWith f l (List.replicate n c) = l.map (fun a => f a c)
  | [], _, _ => by simp
  | a :: l, 0, h => by simp at h
  | a :: l, n + 1, h => by
    simp only [List.replicate_succ, List.zipWith_cons_cons, List.map_cons, List.cons.injEq, true_and]
    exact zipWith_replicate_right f c l n (by simpa using h)

theorem gen_lognormal_eq_model (loc scale : NArr ℝ) {s : List Nat} (h : bcast2 loc.shape scale.shape = some s) :
    (GenFam.LogNormal.init loc scale).map logNormalDist
      = some (lifted (List.zipWith logNormalComp (broadcastTo loc s).data (broadcastTo scale s).data)) := by
  have hc : logNormalComp (α := ℝ) = fun l σ => (StandardNormal.logProb, (Chain.mk [(Ctors.affine l σ).toBij, Exp.toBij]).toBij) := rfl
  simp only [GenFam.LogNormal.init, Fw.broadcastShapes, shapeOf, h, affine_init_eq loc scale h, Option.bind_some, chainInit, BijObj.shape,
    List.all_cons, List.all_nil, beq_self_eq_true, Bool.and_self, if_true, Option.map_some, Option.some.injEq]
  simp only [logNormalDist, Transformed.toDistWith, ChainObj.toBij, List.map_cons, List.map_nil, BijObj.toBij, affine_toBij, ExpObj.toBij,
    StdBase.toDist, lifted, hc]
  rw [map_snd_zipWith, map_fst_zipWith _ _ _ _ (by simp [broadcastTo_length]), broadcastTo_length,
    chain_elementwise _ _ (by simp [broadcastTo_length])]
  congr 3
  rw [zipWith_replicate_right _ _ _ _ (by simp [broadcastTo_length]), List.map_zipWith]


/-! ### `Uniform` -/

theorem zipWith_zipWith_swap {A B C D : Type} (f : A → C → D) (g : B → A → C) : ∀ (as : List A) (bs : List B),
    List.zipWith f as (List.zipWith g bs as) = List.zipWith (fun a b => f a (g b a)) as bs
  | [], _ => by simp
  | _ :: _, [] => by simp
  | a :: as, b :: bs => by simp [zipWith_zipWith_swap f g as bs]

theorem any_le_false : ∀ (A B : List ℝ), (∀ p ∈ List.zip A B, ¬ p.1 ≤ p.2) →
    (List.zipWith (fun x y => decide (x ≤ y)) A B).any id = false
  | [], _, _ => by simp
  | _ :: _, [], _ => by simp
  | a :: A, b :: B, h => by
    have h0 := h (a, b) (by simp)
    have ih := any_le_false A B (fun p hp => h p (by simp [hp]))
    simp only [List.zipWith_cons_cons, List.any_cons, id, ih, Bool.or_false, decide_eq_false_iff_not]
    exact h0

/-- `Uniform(minval, maxval)`: every pair of shapes that broadcast, every entry with `minval < maxval` (otherwise `eqx.error_if` raises:
`gen_uniform_rejects`) -/
theorem gen_uniform_eq_model (minval maxval : NArr ℝ) {s : List Nat} (h : bcast2 minval.shape maxval.shape = some s)
    (hv : ∀ p ∈ List.zip (broadcastTo maxval s).data (broadcastTo minval s).data, ¬ p.1 ≤ p.2) :
    (GenFam.Uniform.init minval maxval).map locScaleDist
      = some (lifted (List.zipWith uniformComp (broadcastTo minval s).data (broadcastTo maxval s).data)) := by
  have h' : bcast2 maxval.shape minval.shape = some s := by rwa [bcast2_comm]
  have hc : uniformComp (α := ℝ) = fun a b => (StandardUniform.logProb, (Ctors.affine a (b - a)).toBij) := rfl
  let W : NArr ℝ := ⟨s, List.zipWith (· - ·) (broadcastTo maxval s).data (broadcastTo minval s).data⟩
  have hW : W.WF := by simp [W, NArr.WF, broadcastTo_length]
  have hle : Fw.le maxval minval
      = some ⟨s, List.zipWith (fun x y => decide (x ≤ y)) (broadcastTo maxval s).data (broadcastTo minval s).data⟩ := by
    simp [Fw.le, zipB, broadcastArrays2, h', broadcastTo]
  have hsub : Fw.sub maxval minval = some W := by
    simp [Fw.sub, zipB, broadcastArrays2, h', broadcastTo, W]
  have haff := affine_init_eq minval W (s := s) (bcast2_absorb h)
  have hself : broadcastTo W s = W := broadcastTo_self W hW
  simp only [GenFam.Uniform.init, Fw.broadcastShapes, shapeOf, h, hle, errorIf, any_le_false _ _ hv, Option.bind_some, hsub, haff, hself,
    Bool.false_eq_true, if_false, Option.map_some, Option.some.injEq]
  simp only [locScaleDist, Transformed.toDistWith, affine_toBij, StdBase.toDist, lifted, hc, W]
  rw [map_snd_zipWith, map_fst_zipWith _ _ _ _ (by simp [broadcastTo_length]), broadcastTo_length, zipWith_zipWith_swap]
  rfl


/-! ### `StudentT` -/

theorem map_zipWith3 {δ : Type} (c : ℝ → δ) (f : ℝ → ℝ → Bij ℝ Unit ℝ) : ∀ (D L S : List ℝ), D.length = L.length → L.length = S.length →
    (List.zipWith3 (fun d l σ => ((c d, f l σ) : δ × Bij ℝ Unit ℝ)) D L S).map Prod.fst = D.map c ∧
    (List.zipWith3 (fun d l σ => ((c d, f l σ) : δ × Bij ℝ Unit ℝ)) D L S).map Prod.snd = List.zipWith f L S
  | [], [], [], _, _ => by simp [List.zipWith3]
  | [], _ :: _, _, h, _ => by simp at h
  | _ :: _, [], _, h, _ => by simp at h
  | _ :: _, _ :: _, [], _, h => by simp at h
  | [], [], _ :: _, _, h => by simp at h
  | d :: D, l :: L, σ :: S, h1, h2 => by
    obtain ⟨i1, i2⟩ := map_zipWith3 c f D L S (by simpa using h1) (by simpa using h2)
    simp [List.zipWith3, i1, i2]

theorem any_leZero_false : ∀ (D : List ℝ), (∀ d ∈ D, 0 < d) → (D.map (fun x => decide (x ≤ 0))).any id = false
  | [], _ => by simp
  | d :: D, h => by
    have ih := any_leZero_false D (fun x hx => h x (by simp [hx]))
    simp only [List.map_cons, List.any_cons, id, ih, Bool.or_false, decide_eq_false_iff_not, not_le]
    exact h d (by simp)

/-- `_StandardStudentT(df)`: accepted for positive entries, stores `BijectionReparam(df, SoftPlus())` -/
theorem student_init_eq (df : NArr ℝ) (hpos : ∀ d ∈ df.data, 0 < d) :
    GenFam.StandardStudentT.init df = some { shape := df.shape, df := Gen.Wr.BijectionReparam.init df softPlus } := by
  simp [GenFam.StandardStudentT.init, toArray, errorIf, leZero, any_leZero_false _ hpos, shapeOf]

/-- `StudentT(df, loc, scale)`: every triple of shapes that broadcast, every entry of `df` positive -/
theorem gen_studentT_eq_model (df loc scale : NArr ℝ) {s : List Nat}
    (h : Vec.broadcastShapes [df.shape, loc.shape, scale.shape] = some s) (hpos : ∀ d ∈ (broadcastTo df s).data, 0 < d) :
    (GenFam.StudentT.init df loc scale).map studentTDist
      = some (lifted (List.zipWith3 studentTComp (broadcastTo df s).data (broadcastTo loc s).data (broadcastTo scale s).data)) := by
  have hc : studentTComp (α := ℝ) = fun d l σ => ((StdStudentT.mk (studentDf d)).logProb, (Ctors.affine l σ).toBij) := rfl
  have haff := affine_init_eq (broadcastTo loc s) (broadcastTo scale s) (s := s) (bcast2_self s)
  have h1 : broadcastTo (broadcastTo loc s) s = broadcastTo loc s := broadcastTo_self _ (broadcastTo_wf loc s)
  have h2 : broadcastTo (broadcastTo scale s) s = broadcastTo scale s := broadcastTo_self _ (broadcastTo_wf scale s)
  simp only [GenFam.StudentT.init, broadcastArrays3, h, Option.map_some, Option.bind_some, student_init_eq _ hpos, haff, h1, h2,
    Option.some.injEq]
  simp only [studentTDist, Transformed.toDistWith, affine_toBij, StdStudentT.toDist, reparam_unwrap_data, List.map_map, lifted, hc]
  obtain ⟨i1, i2⟩ := map_zipWith3 (fun d => (StdStudentT.mk (studentDf d)).logProb) (fun l σ => (Ctors.affine l σ).toBij)
    (broadcastTo df s).data (broadcastTo loc s).data (broadcastTo scale s).data (by simp [broadcastTo_length]) (by simp [broadcastTo_length])
  rw [i1, i2]
  rfl


/-! ### accessors -/

/-- `softplus(softplus⁻¹ σ) = σ` entry by entry on positive entries -/
theorem map_roundtrip {S : List ℝ} (h : ∀ σ ∈ S, 0 < σ) : S.map (fun x => Ctors.softplusUnwrap (Ctors.softplusRaw x)) = S := by
  induction S with
  | nil => rfl
  | cons σ S ih =>
    simp only [List.map_cons, List.cons.injEq]
    exact ⟨Leaves.softplus_softplus_inv (h σ (by simp)), ih (fun x hx => h x (by simp [hx]))⟩

/-- the unwrapped `BijectionReparam(v, SoftPlus())` is `v` again when every entry is positive -/
theorem reparam_unwrap_roundtrip (v : NArr ℝ) (h : ∀ σ ∈ v.data, 0 < σ) :
    Gen.Wr.BijectionReparam.unwrap (Gen.Wr.BijectionReparam.init v softPlus) = v := by
  have hd := reparam_unwrap_data v
  rw [map_roundtrip h] at hd
  obtain ⟨sh, d⟩ := v
  simp only [Gen.Wr.BijectionReparam.unwrap, Gen.Wr.BijectionReparam.init, softPlus] at hd ⊢
  simp only [NArr.mk.injEq, true_and]
  exact hd

/-- the generated `scale` accessor on the generated constructor's object: entry by entry the hand model's `accScale` -/
theorem scale_accessor_eq {B : Type} (b : B) (L S : NArr ℝ) (s : List Nat) :
    (GenFam.locScaleScale ({ base_dist := b, bijection := { shape := s, loc := L, scale := Gen.Wr.BijectionReparam.init S softPlus } }
        : Fw.Transformed B (AffineObj ℝ))).data
      = S.data.map (fun σ => accScale (0 : ℝ) σ) := by
  simp only [GenFam.locScaleScale, reparam_unwrap_data]
  rfl

/-- every entry of an unwrapped SoftPlus-reparameterised leaf is positive, whatever the raw (stored) array -/
theorem unwrap_raw_pos (shape : List Nat) (raw : List ℝ) :
    ∀ σ ∈ (Gen.Wr.BijectionReparam.unwrap (⟨⟨shape, raw⟩, softPlus⟩ : Reparam ℝ)).data, 0 < σ := by
  intro σ hσ
  simp only [Gen.Wr.BijectionReparam.unwrap, softPlus, List.mem_map] at hσ
  obtain ⟨r, _, rfl⟩ := hσ
  exact Leaves.softplus_pos r

/-! ### `MultivariateNormal` -/

/-- the generated constructor (Cholesky factor as the abstract parameter) builds the hand model `Families.mvn` -/
theorem gen_mvn_eq_model (cholesky : List (List ℝ) → List (List ℝ)) (loc : List ℝ) (cov : List (List ℝ)) {n : ℕ}
    (h : MvnPf.CholFactor n (cholesky cov)) (hl : loc.length = n) :
    (GenFam.MultivariateNormal.init cholesky loc cov).map mvnDist = Families.mvn loc (cholesky cov) := by
  simp only [GenFam.MultivariateNormal.init, triangularAffine, Families.mvn, MvnPf.mvnBijection_chol h hl, Option.bind_some,
    Option.map_some, Option.some.injEq]
  simp only [mvnDist, Transformed.toDistWith, StdBase.toDist, triShape, sprod, Nat.mul_one, stdNormalVec, BaseKind.logProb]

theorem transpose_transpose {n : ℕ} {A : List (List ℝ)} (h : TriPf.Square n A) : transpose (transpose A) = A := by
  obtain ⟨hlen, hrow⟩ := h
  rcases Nat.eq_zero_or_pos n with rfl | hn
  · have : A = [] := List.eq_nil_of_length_eq_zero hlen
    subst this; rfl
  have hhead : (A.headD []).length = n := by
    cases A with
    | nil => simp at hlen; omega
    | cons r A => exact hrow r (by simp)
  have ht : transpose A = (List.range n).map (fun j => A.map (fun row => row.getD j 0)) := by
    simp only [transpose, hhead]
  have hhead2 : ((transpose A).headD []).length = n := by
    rw [ht]
    cases n with
    | zero => omega
    | succ m => simp [List.range_succ_eq_map, hlen]
  have htt : transpose (transpose A)
      = (List.range ((transpose A).headD []).length).map (fun j => (transpose A).map (fun row => row.getD j 0)) := rfl
  rw [htt, hhead2, ht]
  apply List.ext_getElem
  · simp [hlen]
  · intro i h1 h2
    have hi : i < n := by rw [← hlen]; exact h2
    simp only [List.getElem_map, List.getElem_range, List.map_map]
    apply List.ext_getElem
    · simp [hrow _ (List.getElem_mem h2)]
    · intro j g1 g2
      have hj : j < n := by rw [← hrow _ (List.getElem_mem h2)]; exact g2
      simp [List.getD_eq_getElem?_getD, hi, h2, g2]

/-- `cholesky @ cholesky.T` of the generated `covariance` accessor is the hand model's `matMulT` on square matrices -/
theorem matmul_transpose_eq {n : ℕ} {A : List (List ℝ)} (h : TriPf.Square n A) : matmul A (transpose A) = matMulT A := by
  simp only [matmul, transpose_transpose h, matMulT]


/-! ### explicit constructor values, accessors on them, scalars -/

theorem locscale_init_eq (k : BaseKind) (loc scale : NArr ℝ) {s : List Nat} (h : bcast2 loc.shape scale.shape = some s) :
    (Option.bind (Fw.broadcastShapes (shapeOf loc) (shapeOf scale)) fun t =>
      Option.bind (GenFam.Affine.init loc scale) fun b =>
        some ({ base_dist := StdBase.mk k t, bijection := b } : Fw.Transformed StdBase (AffineObj ℝ)))
      = some { base_dist := ⟨k, s⟩,
               bijection := { shape := s, loc := broadcastTo loc s, scale := Gen.Wr.BijectionReparam.init (broadcastTo scale s) softPlus } } := by
  simp only [Fw.broadcastShapes, shapeOf, h, affine_init_eq loc scale h, Option.bind_some]

/-- the accessors of a location-scale family on the generated constructor's object: `loc` is the broadcast `loc`, `scale` the
broadcast `scale` (every entry positive), the stored raw leaf is `softplus⁻¹ scale` entry by entry -/
theorem locscale_accessor (k : BaseKind) (loc scale : NArr ℝ) {s : List Nat} (h : bcast2 loc.shape scale.shape = some s)
    (hpos : ∀ σ ∈ (broadcastTo scale s).data, 0 < σ) :
    ∃ d, (Option.bind (Fw.broadcastShapes (shapeOf loc) (shapeOf scale)) fun t =>
      Option.bind (GenFam.Affine.init loc scale) fun b =>
        some ({ base_dist := StdBase.mk k t, bijection := b } : Fw.Transformed StdBase (AffineObj ℝ))) = some d ∧
      d.base_dist = ⟨k, s⟩ ∧ d.bijection.shape = s ∧ GenFam.locScaleLoc d = broadcastTo loc s ∧
      GenFam.locScaleScale d = broadcastTo scale s ∧
      Reparam.raw d.bijection.scale = (broadcastTo scale s).data.map Ctors.softplusRaw :=
  ⟨_, locscale_init_eq k loc scale h, rfl, rfl, rfl, reparam_unwrap_roundtrip _ hpos, reparam_raw _⟩

theorem broadcastTo_scalar (v : ℝ) : (broadcastTo (NArr.scalar v) []).data = [v] := rfl

theorem scalar_logProb (c : Comp ℝ) (x : ℝ) : (lifted [c]).logProb [x] () = (oneDim c).logProb x () := by
  rw [FamiliesPf.lifted_logProb]; simp

theorem zipWith_add_sub : ∀ (A B : List ℝ), A.length = B.length → List.zipWith (fun a b => a + (b - a)) A B = B
  | [], [], _ => rfl
  | [], _ :: _, h => by simp at h
  | _ :: _, [], h => by simp at h
  | a :: A, b :: B, h => by
    simp only [List.zipWith_cons_cons, List.cons.injEq]
    exact ⟨by ring, zipWith_add_sub A B (by simpa using h)⟩

theorem pos_of_zip {A B : List ℝ} (hv : ∀ p ∈ List.zip A B, ¬ p.1 ≤ p.2) : ∀ σ ∈ List.zipWith (· - ·) A B, 0 < σ := by
  induction A generalizing B with
  | nil => simp
  | cons a A ih =>
    cases B with
    | nil => simp
    | cons b B =>
      intro σ hσ
      simp only [List.zipWith_cons_cons, List.mem_cons] at hσ
      rcases hσ with rfl | hσ
      · have := hv (a, b) (by simp); simp only [not_le] at this; linarith
      · exact ih (fun p hp => hv p (by simp [hp])) σ hσ

/-- `Uniform`: the generated constructor's object and its accessors -/
theorem uniform_accessor (minval maxval : NArr ℝ) {s : List Nat} (h : bcast2 minval.shape maxval.shape = some s)
    (hv : ∀ p ∈ List.zip (broadcastTo maxval s).data (broadcastTo minval s).data, ¬ p.1 ≤ p.2) :
    ∃ d, GenFam.Uniform.init minval maxval = some d ∧ d.base_dist = ⟨.uniform, s⟩ ∧
      GenFam.uniformMinval d = broadcastTo minval s ∧ GenFam.uniformMaxval d = some (broadcastTo maxval s) := by
  have h' : bcast2 maxval.shape minval.shape = some s := by rwa [bcast2_comm]
  let W : NArr ℝ := ⟨s, List.zipWith (· - ·) (broadcastTo maxval s).data (broadcastTo minval s).data⟩
  have hW : W.WF := by simp [W, NArr.WF, broadcastTo_length]
  have hle : Fw.le maxval minval
      = some ⟨s, List.zipWith (fun x y => decide (x ≤ y)) (broadcastTo maxval s).data (broadcastTo minval s).data⟩ := by
    simp [Fw.le, zipB, broadcastArrays2, h', broadcastTo]
  have hsub : Fw.sub maxval minval = some W := by
    simp [Fw.sub, zipB, broadcastArrays2, h', broadcastTo, W]
  have haff := affine_init_eq minval W (s := s) (bcast2_absorb h)
  have hself : broadcastTo W s = W := broadcastTo_self W hW
  refine ⟨{ base_dist := ⟨.uniform, s⟩,
            bijection := { shape := s, loc := broadcastTo minval s, scale := Gen.Wr.BijectionReparam.init W softPlus } }, ?_, rfl, rfl, ?_⟩
  · simp only [GenFam.Uniform.init, Fw.broadcastShapes, shapeOf, h, hle, errorIf, any_le_false _ _ hv, Option.bind_some, hsub, haff, hself,
      Bool.false_eq_true, if_false]
  · have hWpos : ∀ σ ∈ W.data, 0 < σ := pos_of_zip hv
    have hb1 : broadcastTo (broadcastTo minval s) s = broadcastTo minval s := broadcastTo_self _ (broadcastTo_wf minval s)
    simp only [GenFam.uniformMaxval, reparam_unwrap_roundtrip W hWpos, Fw.add, zipB, broadcastArrays2]
    have hs1 : (broadcastTo minval s).shape = s := rfl
    have hs2 : W.shape = s := rfl
    rw [hs1, hs2, bcast2_self, Option.map_some, Option.map_some, hb1, hself]
    simp only [W, zipWith_zipWith_swap, Option.some.injEq]
    rw [zipWith_add_sub _ _ (by simp [broadcastTo_length])]
    rfl

/-- `StudentT`: the generated constructor's object and its `df` accessor -/
theorem studentT_accessor (df loc scale : NArr ℝ) {s : List Nat}
    (h : Vec.broadcastShapes [df.shape, loc.shape, scale.shape] = some s) (hpos : ∀ d ∈ (broadcastTo df s).data, 0 < d) :
    ∃ d, GenFam.StudentT.init df loc scale = some d ∧ d.base_dist.shape = s ∧ GenFam.studentTDf d = broadcastTo df s ∧
      GenFam.locScaleLoc d = broadcastTo loc s ∧ Reparam.raw d.base_dist.df = (broadcastTo df s).data.map Ctors.softplusRaw := by
  have haff := affine_init_eq (broadcastTo loc s) (broadcastTo scale s) (s := s) (bcast2_self s)
  have h1 : broadcastTo (broadcastTo loc s) s = broadcastTo loc s := broadcastTo_self _ (broadcastTo_wf loc s)
  have h2 : broadcastTo (broadcastTo scale s) s = broadcastTo scale s := broadcastTo_self _ (broadcastTo_wf scale s)
  refine ⟨{ base_dist := { shape := s, df := Gen.Wr.BijectionReparam.init (broadcastTo df s) softPlus },
            bijection := { shape := s, loc := broadcastTo loc s, scale := Gen.Wr.BijectionReparam.init (broadcastTo scale s) softPlus } },
    ?_, rfl, reparam_unwrap_roundtrip _ hpos, rfl, reparam_raw _⟩
  simp only [GenFam.StudentT.init, broadcastArrays3, h, Option.map_some, Option.bind_some, student_init_eq _ hpos, haff, h1, h2]
  rfl

theorem recip_recip (rate : NArr ℝ) (hpos : ∀ r ∈ rate.data, 0 < r) : recip (recip rate) = rate := by
  obtain ⟨sh, d⟩ := rate
  simp only [recip, List.map_map, NArr.mk.injEq, true_and]
  induction d with
  | nil => rfl
  | cons r d ih =>
    simp only [List.map_cons, Function.comp, List.cons.injEq]
    exact ⟨by have := hpos r (by simp); field_simp, ih (fun x hx => hpos x (by simp [hx]))⟩

/-- `Exponential`: the `rate` accessor reproduces every positive rate array -/
theorem exponential_accessor (rate : NArr ℝ) (hpos : ∀ r ∈ rate.data, 0 < r) :
    GenFam.exponentialRate (GenFam.Exponential.init rate) = rate ∧ (GenFam.Exponential.init rate).base_dist = ⟨.exponential, rate.shape⟩ ∧
      Reparam.raw (GenFam.Exponential.init rate).bijection.scale = rate.data.map (fun r => Ctors.softplusRaw (1 / r)) := by
  have hp : ∀ σ ∈ (recip rate).data, 0 < σ := by
    intro σ hσ
    simp only [recip, List.mem_map] at hσ
    obtain ⟨r, hr, rfl⟩ := hσ
    exact one_div_pos.mpr (hpos r hr)
  refine ⟨?_, rfl, ?_⟩
  · simp only [GenFam.exponentialRate, GenFam.Exponential.init, GenFam.Scale.init, toArray, reparam_unwrap_roundtrip _ hp,
      recip_recip rate hpos]
  · simp only [GenFam.Exponential.init, GenFam.Scale.init, toArray, reparam_raw, recip, List.map_map]
    rfl

/-- what a generated `Affine.__init__` that does not raise returned -/
theorem affine_init_inv {loc scale : NArr ℝ} {d : AffineObj ℝ} (h : GenFam.Affine.init loc scale = some d) :
    ∃ s, bcast2 loc.shape scale.shape = some s ∧
      d = { shape := s, loc := broadcastTo loc s, scale := Gen.Wr.BijectionReparam.init (broadcastTo scale s) softPlus } := by
  cases hb : bcast2 loc.shape scale.shape with
  | none => rw [affine_init_none loc scale hb] at h; cases h
  | some s => rw [affine_init_eq loc scale hb] at h; exact ⟨s, rfl, (Option.some.inj h).symm⟩


/-! ### `VmapMixture` -/

theorem jnp_logSoftmax_eq (v : List ℝ) : Jnp.logSoftmax v = Families.logSoftmax v := by
  rw [FamiliesPf.logSoftmax_eq]
  simp only [Jnp.logSoftmax, FamiliesPf.jsum_eq, log_eq, exp_eq]

/-- the generated `VmapMixture.__init__` on positive weights: the declared shapes are the component distribution's, the stored raw
leaf is `log weights`, and the unwrapped `log_normalized_weights` is the hand model's `logNormWeights` -/
theorem mixture_init_eq {X K : Type} (dist : VDist X K ℝ) (w : NArr ℝ) (hpos : ∀ x ∈ w.data, 0 < x) :
    ∃ m, GenFam.VmapMixture.init dist w = some m ∧ m.shape = dist.shape ∧ m.cond_shape = dist.cond_shape ∧ m.dist = dist ∧
      m.log_normalized_weights.args = w.data.map Real.log ∧
      m.unwrap.log_normalized_weights = Families.logNormWeights w.data := by
  refine ⟨{ shape := dist.shape, cond_shape := dist.cond_shape, dist := dist,
            log_normalized_weights := Gen.Wr.Lambda.mk (fun (w : List ℝ) (_ : Unit) => Gen.mixtureLogNormalizedWeights w)
              (Gen.mixtureRawInit w.data) () }, ?_, rfl, rfl, rfl, ?_, ?_⟩
  · simp only [GenFam.VmapMixture.init, errorIf, leZero, any_leZero_false _ hpos, Bool.false_eq_true, if_false, Option.bind_some]
  · simp only [Gen.mixtureRawInit, log_eq]
  · simp only [MixtureObj.unwrap, Gen.Wr.Lambda.unwrap, Gen.mixtureLogNormalizedWeights, Gen.mixtureRawInit, jnp_logSoftmax_eq,
      Families.logNormWeights]

theorem mixture_init_none_iff {X K : Type} (dist : VDist X K ℝ) (w : NArr ℝ) :
    GenFam.VmapMixture.init dist w = none ↔ ∃ x ∈ w.data, x ≤ 0 := by
  have key : (List.map (fun x => decide (x ≤ 0)) w.data).any id = true ↔ ∃ x ∈ w.data, x ≤ 0 := by simp
  rw [← key]
  by_cases hany : (List.map (fun x => decide (x ≤ 0)) w.data).any id = true
  · simp [GenFam.VmapMixture.init, errorIf, leZero, hany]
  · simp [GenFam.VmapMixture.init, errorIf, leZero, hany]

/-- the generated `_log_prob` is the hand model's `mixtureLogProb` over the components' values -/
theorem mixture_logProb_eq {X K : Type} (m : MixtureU X K ℝ) (ws : List ℝ) (h : m.log_normalized_weights = Families.logNormWeights ws)
    (x : X) (c : Option Unit) :
    GenFam.mixtureLogProb m x c = Families.mixtureLogProb (m.dist.comps.map (fun d => d.logProb x ())) ws := by
  simp only [GenFam.mixtureLogProb, vmapLogProb, h, Families.mixtureLogProb]

/-- the generated `_sample` is the hand model's `mixtureSample` (key = categorical draw + second key) -/
theorem mixture_sample_eq {X K : Type} (m : MixtureU X K ℝ) (key : Nat × K) (c : Option Unit) :
    GenFam.mixtureSample m key c = Families.mixtureSample m.dist.comps key () := by
  simp only [GenFam.mixtureSample, mixSplit, categorical, takeComponent, sampleOf, Families.mixtureSample]
  cases Families.mixtureTake m.dist.comps key.1 <;> rfl

end FamGenPf
