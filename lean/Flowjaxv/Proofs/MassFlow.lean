import Flowjaxv.Proofs.Mass
import Flowjaxv.Proofs.DistTheory
/-!
# From the change-of-variables theorems to the GENERATED `Transformed` methods

`MassOK μ b c` / `LawOK μ b c` are the two global facts one layer has to supply (for every
integrand / every base density); `transformed_mass`, `nest_mass`, `transformed_law`, `nest_law`
push them through the generated `Transformed.logProb` / `Transformed.sample` and through any
depth of `nestTransformed`.  `InvJac`, `FwdJac` (one real variable, kinks allowed) and `InvJacN`,
`FwdJacN` (finite-dimensional, finitely many pieces) are the checkable hypotheses that imply them;
`InvJacN.invert` is the `Invert(·)` orientation.
-/
open Gen Set MeasureTheory

namespace Mass

section layer
variable {X C K : Type} [MeasurableSpace X]

/-- what normalisation needs from one layer at condition `c` -/
structure MassOK (μ : Measure X) (b : Bij X C ℝ) (c : C) : Prop where
  invLd_fst : ∀ y, (b.invLd y c).1 = b.inv y c
  mass : ∀ p : X → ℝ, ∫ y, p (b.inv y c) * Real.exp (b.invLd y c).2 ∂μ = ∫ z, p z ∂μ

/-- what "samples follow the density" needs from one layer at condition `c` -/
structure LawOK (μ : Measure X) (b : Bij X C ℝ) (c : C) : Prop where
  invLd_fst : ∀ y, (b.invLd y c).1 = b.inv y c
  fwd_meas : Measurable (fun x => b.fwd x c)
  law : ∀ p : X → ℝ,
    Measure.map (fun x => b.fwd x c) (μ.withDensity fun z => ENNReal.ofReal (p z))
      = μ.withDensity fun y => ENNReal.ofReal (p (b.inv y c) * Real.exp (b.invLd y c).2)

omit [MeasurableSpace X] in
/-- the density computed by the generated `_log_prob` -/
theorem transformed_density (t : Transformed X C K ℝ) (c : C)
    (h : ∀ y, (t.bijection.invLd y c).1 = t.bijection.inv y c) (y : X) :
    Real.exp (t.toDist.logProb y c)
      = Real.exp (t.base_dist.logProb (t.bijection.inv y c) c) * Real.exp (t.bijection.invLd y c).2 := by
  rw [transformed_logProb, Real.exp_add, h]

theorem transformed_mass (μ : Measure X) (t : Transformed X C K ℝ) (c : C)
    (h : MassOK μ t.bijection c) :
    ∫ y, Real.exp (t.toDist.logProb y c) ∂μ = ∫ z, Real.exp (t.base_dist.logProb z c) ∂μ := by
  rw [← h.mass (fun z => Real.exp (t.base_dist.logProb z c))]
  congr 1; funext y
  exact transformed_density t c h.invLd_fst y

omit [MeasurableSpace X] in
theorem nest_snoc (base : Distn X C K ℝ) (bs : List (Bij X C ℝ)) (b : Bij X C ℝ) :
    nestTransformed base (bs ++ [b]) = (Transformed.mk (nestTransformed base bs) b).toDist := by
  simp [nestTransformed, List.foldl_append]

/-- any depth of nesting carries the same total mass as the base -/
theorem nest_mass (μ : Measure X) (base : Distn X C K ℝ) (c : C) (bs : List (Bij X C ℝ))
    (hall : ∀ b ∈ bs, MassOK μ b c) :
    ∫ y, Real.exp ((nestTransformed base bs).logProb y c) ∂μ
      = ∫ z, Real.exp (base.logProb z c) ∂μ := by
  induction bs using List.reverseRecOn with
  | nil => rfl
  | append_singleton bs b ih =>
    rw [nest_snoc, transformed_mass μ _ c (hall b (by simp))]
    exact ih (fun b' hb' => hall b' (List.mem_append_left _ hb'))

/-- the law of `sample` (keys drawn from any measure `κ`) has density `exp ∘ log_prob` as soon as
the base sampler's law has density `exp ∘ base log_prob` -/
theorem transformed_law [MeasurableSpace K] (μ : Measure X) (κ : Measure K)
    (t : Transformed X C K ℝ) (c : C) (h : LawOK μ t.bijection c)
    (hs : Measurable fun k => t.base_dist.sample k c)
    (hbase : Measure.map (fun k => t.base_dist.sample k c) κ
      = μ.withDensity fun z => ENNReal.ofReal (Real.exp (t.base_dist.logProb z c))) :
    (Measurable fun k => t.toDist.sample k c) ∧
    Measure.map (fun k => t.toDist.sample k c) κ
      = μ.withDensity fun y => ENNReal.ofReal (Real.exp (t.toDist.logProb y c)) := by
  have e : (fun k => t.toDist.sample k c)
      = (fun x => t.bijection.fwd x c) ∘ (fun k => t.base_dist.sample k c) := rfl
  refine ⟨by rw [e]; exact h.fwd_meas.comp hs, ?_⟩
  rw [e, ← Measure.map_map h.fwd_meas hs, hbase, h.law]
  congr 1; funext y
  rw [transformed_density t c h.invLd_fst y]

theorem nest_law [MeasurableSpace K] (μ : Measure X) (κ : Measure K)
    (base : Distn X C K ℝ) (c : C) (bs : List (Bij X C ℝ))
    (hall : ∀ b ∈ bs, LawOK μ b c)
    (hs : Measurable fun k => base.sample k c)
    (hbase : Measure.map (fun k => base.sample k c) κ
      = μ.withDensity fun z => ENNReal.ofReal (Real.exp (base.logProb z c))) :
    (Measurable fun k => (nestTransformed base bs).sample k c) ∧
    Measure.map (fun k => (nestTransformed base bs).sample k c) κ
      = μ.withDensity fun y => ENNReal.ofReal (Real.exp ((nestTransformed base bs).logProb y c)) := by
  induction bs using List.reverseRecOn with
  | nil => exact ⟨hs, hbase⟩
  | append_singleton bs b ih =>
    rw [nest_snoc]
    have := ih (fun b' hb' => hall b' (List.mem_append_left _ hb'))
    exact transformed_law μ κ (Transformed.mk (nestTransformed base bs) b) c (hall b (by simp))
      this.1 this.2

end layer

/-! ### one real variable: checkable hypotheses -/
section oneD
variable {C K : Type}

/-- the INVERSE map has (piecewise) derivative `d ≠ 0` and the inverse log-det is `log |d|` -/
structure InvJac (b : Bij ℝ C ℝ) (c : C) : Prop where
  lawful : b.Lawful univ univ
  jac : ∃ d : ℝ → ℝ, PiecewiseDeriv (fun y => b.inv y c) d ∧
    ∀ y, d y ≠ 0 ∧ (b.invLd y c).2 = Real.log |d y|

/-- the FORWARD map has (piecewise) derivative `d ≠ 0` and the inverse log-det is
`-log |d (inverse y)|` -/
structure FwdJac (b : Bij ℝ C ℝ) (c : C) : Prop where
  lawful : b.Lawful univ univ
  jac : ∃ d : ℝ → ℝ, PiecewiseDeriv (fun x => b.fwd x c) d ∧ (∀ x, d x ≠ 0) ∧
    ∀ y, (b.invLd y c).2 = -Real.log |d (b.inv y c)|

theorem Lawful.leftInv {b : Bij ℝ C ℝ} (h : b.Lawful univ univ) (c : C) :
    Function.LeftInverse (fun y => b.inv y c) (fun x => b.fwd x c) := fun x => h.left x trivial c
theorem Lawful.rightInv {b : Bij ℝ C ℝ} (h : b.Lawful univ univ) (c : C) :
    Function.RightInverse (fun y => b.inv y c) (fun x => b.fwd x c) := fun y => h.right y trivial c

theorem InvJac.massOK {b : Bij ℝ C ℝ} {c : C} (h : InvJac b c) : MassOK volume b c := by
  obtain ⟨d, hd, hld⟩ := h.jac
  refine ⟨fun y => h.lawful.invLd_fst y c, fun p => ?_⟩
  rw [← mass_preserved_inv_pieces _ _ d hd (Lawful.leftInv h.lawful c) (Lawful.rightInv h.lawful c) p]
  congr 1; funext y
  rw [(hld y).2, Real.exp_log (abs_pos.mpr (hld y).1)]

theorem InvJac.lawOK {b : Bij ℝ C ℝ} {c : C} (h : InvJac b c) : LawOK volume b c := by
  obtain ⟨d, hd, hld⟩ := h.jac
  have := fun p => pushforward_density_inv_pieces _ _ d hd (Lawful.leftInv h.lawful c)
    (Lawful.rightInv h.lawful c) p
  refine ⟨fun y => h.lawful.invLd_fst y c, (this 0).1, fun p => ?_⟩
  rw [(this p).2]
  congr 1; funext y
  rw [(hld y).2, Real.exp_log (abs_pos.mpr (hld y).1)]

theorem FwdJac.exp_ld {b : Bij ℝ C ℝ} {c : C} {d : ℝ → ℝ} (hne : ∀ x, d x ≠ 0)
    (hld : ∀ y, (b.invLd y c).2 = -Real.log |d (b.inv y c)|) (y : ℝ) :
    Real.exp (b.invLd y c).2 = |d (b.inv y c)|⁻¹ := by
  rw [hld y, Real.exp_neg, Real.exp_log (abs_pos.mpr (hne _))]

theorem FwdJac.massOK {b : Bij ℝ C ℝ} {c : C} (h : FwdJac b c) : MassOK volume b c := by
  obtain ⟨d, hd, hne, hld⟩ := h.jac
  refine ⟨fun y => h.lawful.invLd_fst y c, fun p => ?_⟩
  rw [← mass_preserved_pieces _ _ d hd hne (Lawful.leftInv h.lawful c) (Lawful.rightInv h.lawful c) p]
  congr 1; funext y
  rw [FwdJac.exp_ld hne hld y]

theorem FwdJac.lawOK {b : Bij ℝ C ℝ} {c : C} (h : FwdJac b c) : LawOK volume b c := by
  obtain ⟨d, hd, hne, hld⟩ := h.jac
  have := fun p => pushforward_density_pieces _ _ d hd hne (Lawful.leftInv h.lawful c)
    (Lawful.rightInv h.lawful c) p
  refine ⟨fun y => h.lawful.invLd_fst y c, (this 0).1, fun p => ?_⟩
  rw [(this p).2]
  congr 1; funext y
  rw [FwdJac.exp_ld hne hld y]

end oneD

/-! ### finite-dimensional: checkable hypotheses -/
section nD
variable {E C K : Type} [NormedAddCommGroup E] [NormedSpace ℝ E] [FiniteDimensional ℝ E]
  [MeasurableSpace E] [BorelSpace E]

/-- the layer is a lawful bijection of `E`, its INVERSE map is (piecewise, `Mass.PiecewiseFDeriv`: finitely many
measurable pieces, derivative within the piece at piece boundaries) differentiable with invertible Jacobian `D y`,
and the inverse log-det it reports is `log |det D y|` -/
structure InvJacN (b : Bij E C ℝ) (c : C) : Prop where
  lawful : b.Lawful univ univ
  jac : ∃ D : E → E →L[ℝ] E, PiecewiseFDeriv (fun y => b.inv y c) D ∧
    ∀ y, (D y).det ≠ 0 ∧ (b.invLd y c).2 = Real.log |(D y).det|

/-- the layer is a lawful bijection of `E`, its FORWARD map is (piecewise) differentiable with invertible Jacobian
`J x`, and the inverse log-det it reports is `-log |det J (inverse y)|` -/
structure FwdJacN (b : Bij E C ℝ) (c : C) : Prop where
  lawful : b.Lawful univ univ
  jac : ∃ J : E → E →L[ℝ] E, PiecewiseFDeriv (fun x => b.fwd x c) J ∧ (∀ x, (J x).det ≠ 0) ∧
    ∀ y, (b.invLd y c).2 = -Real.log |(J (b.inv y c)).det|

/-- the everywhere-differentiable case -/
theorem InvJacN.of_hasFDerivAt {b : Bij E C ℝ} {c : C} (hL : b.Lawful univ univ) (D : E → E →L[ℝ] E)
    (h : ∀ y, HasFDerivAt (fun y => b.inv y c) (D y) y ∧ (D y).det ≠ 0 ∧
      (b.invLd y c).2 = Real.log |(D y).det|) : InvJacN b c :=
  ⟨hL, D, PiecewiseFDeriv.of_hasFDerivAt (fun y => (h y).1), fun y => (h y).2⟩

theorem FwdJacN.of_hasFDerivAt {b : Bij E C ℝ} {c : C} (hL : b.Lawful univ univ) (J : E → E →L[ℝ] E)
    (h : ∀ x, HasFDerivAt (fun x => b.fwd x c) (J x) x ∧ (J x).det ≠ 0)
    (hld : ∀ y, (b.invLd y c).2 = -Real.log |(J (b.inv y c)).det|) : FwdJacN b c :=
  ⟨hL, J, PiecewiseFDeriv.of_hasFDerivAt (fun x => (h x).1), fun x => (h x).2, hld⟩

theorem InvJacN.massOK (μ : Measure E) [μ.IsAddHaarMeasure] {b : Bij E C ℝ} {c : C}
    (h : InvJacN b c) : MassOK μ b c := by
  obtain ⟨D, hd, hD⟩ := h.jac
  refine ⟨fun y => h.lawful.invLd_fst y c, fun p => ?_⟩
  rw [← mass_preserved_inv_piecesN μ (fun x => b.fwd x c) (fun y => b.inv y c) D hd
    (fun x => h.lawful.left x trivial c) (fun y => h.lawful.right y trivial c) p]
  congr 1; funext y
  rw [(hD y).2, Real.exp_log (abs_pos.mpr (hD y).1)]

theorem InvJacN.lawOK (μ : Measure E) [μ.IsAddHaarMeasure] {b : Bij E C ℝ} {c : C}
    (h : InvJacN b c) : LawOK μ b c := by
  obtain ⟨D, hd, hD⟩ := h.jac
  have := fun p => pushforward_density_inv_piecesN μ (fun x => b.fwd x c) (fun y => b.inv y c) D hd
    (fun x => h.lawful.left x trivial c) (fun y => h.lawful.right y trivial c) p
  refine ⟨fun y => h.lawful.invLd_fst y c, (this 0).1, fun p => ?_⟩
  rw [(this p).2]
  congr 1; funext y
  rw [(hD y).2, Real.exp_log (abs_pos.mpr (hD y).1)]

theorem FwdJacN.exp_ld {b : Bij E C ℝ} {c : C} {J : E → E →L[ℝ] E} (hne : ∀ x, (J x).det ≠ 0)
    (hld : ∀ y, (b.invLd y c).2 = -Real.log |(J (b.inv y c)).det|) (y : E) :
    Real.exp (b.invLd y c).2 = |(J (b.inv y c)).det|⁻¹ := by
  rw [hld y, Real.exp_neg, Real.exp_log (abs_pos.mpr (hne _))]

theorem FwdJacN.massOK (μ : Measure E) [μ.IsAddHaarMeasure] {b : Bij E C ℝ} {c : C}
    (h : FwdJacN b c) : MassOK μ b c := by
  obtain ⟨J, hd, hne, hld⟩ := h.jac
  refine ⟨fun y => h.lawful.invLd_fst y c, fun p => ?_⟩
  rw [← mass_preserved_piecesN μ (fun x => b.fwd x c) (fun y => b.inv y c) J hd hne
    (fun x => h.lawful.left x trivial c) (fun y => h.lawful.right y trivial c) p]
  congr 1; funext y
  rw [FwdJacN.exp_ld hne hld y]

theorem FwdJacN.lawOK (μ : Measure E) [μ.IsAddHaarMeasure] {b : Bij E C ℝ} {c : C}
    (h : FwdJacN b c) : LawOK μ b c := by
  obtain ⟨J, hd, hne, hld⟩ := h.jac
  have := fun p => pushforward_density_piecesN μ (fun x => b.fwd x c) (fun y => b.inv y c) J hd hne
    (fun x => h.lawful.left x trivial c) (fun y => h.lawful.right y trivial c) p
  refine ⟨fun y => h.lawful.invLd_fst y c, (this 0).1, fun p => ?_⟩
  rw [(this p).2]
  congr 1; funext y
  rw [FwdJacN.exp_ld hne hld y]

/-- the forward-direction facts as C02 states them (`transform_and_log_det` reports `log |det J x|`, and the log-det returned
with the inverse is minus the forward one at the preimage) give `FwdJacN` -/
theorem FwdJacN.of_fwdLd {b : Bij E C ℝ} {c : C} (hL : b.Lawful univ univ) (J : E → E →L[ℝ] E)
    (hd : PiecewiseFDeriv (fun x => b.fwd x c) J)
    (h : ∀ x, (J x).det ≠ 0 ∧ (b.fwdLd x c).2 = Real.log |(J x).det|)
    (hanti : ∀ x, (b.invLd (b.fwd x c) c).2 = -(b.fwdLd x c).2) : FwdJacN b c := by
  refine ⟨hL, J, hd, fun x => (h x).1, fun y => ?_⟩
  have := hanti (b.inv y c)
  rw [hL.right y trivial c] at this
  rw [this, (h _).2]

/-- **`Invert`**: if the FORWARD map of `b` is (piecewise) differentiable with invertible Jacobian `J x` and `b`'s own
`transform_and_log_det` reports `log |det J x|`, then the GENERATED `Invert(b)` — whose `inverse_and_log_det` IS
`b.transform_and_log_det` — satisfies `InvJacN`: this is the orientation `Transformed(base, Invert(b))` the flow
factories build with `invert=True`, where `log_prob` evaluates only `b`'s forward methods. -/
theorem InvJacN.invert {b : Bij E C ℝ} {c : C} (hL : b.Lawful univ univ) (J : E → E →L[ℝ] E)
    (hd : PiecewiseFDeriv (fun x => b.fwd x c) J)
    (h : ∀ x, (J x).det ≠ 0 ∧ (b.fwdLd x c).2 = Real.log |(J x).det|) :
    InvJacN (Gen.Invert.mk b).toBij c :=
  ⟨⟨fun _ _ _ => trivial, fun _ _ _ => trivial, fun y _ c => hL.right y trivial c, fun x _ c => hL.left x trivial c,
    fun y c => hL.invLd_fst y c, fun x c => hL.fwdLd_fst x c⟩, J, hd, h⟩

end nD
end Mass
