import Mathlib.Tactic
import Flowjaxv.Model.Arr
/-!
# List-level theory of the n-d array model (`Model/Arr.lean`)

chunks / three-level views, splitting and concatenating views along the middle level,
positions gather / scatter.  Everything for arbitrary sizes and an arbitrary element type.
-/
set_option linter.unusedSectionVars false
set_option linter.unusedVariables false

namespace Arr
variable {α : Type}

/-! ## `prod`, `sum` -/

theorem prod_eq (s : List Nat) : Arr.prod s = s.prod := by
  unfold Arr.prod; exact List.prod_eq_foldl_nat.symm

theorem foldl_add_eq_sum (s : List Nat) : s.foldl (· + ·) 0 = s.sum :=
  List.sum_eq_foldl_nat.symm

@[simp] theorem prod_nil : Arr.prod [] = 1 := rfl

theorem prod_cons (a : Nat) (s : List Nat) : Arr.prod (a :: s) = a * Arr.prod s := by
  simp [prod_eq]

theorem prod_append (a b : List Nat) : Arr.prod (a ++ b) = Arr.prod a * Arr.prod b := by
  simp [prod_eq]

/-- the size of an array factors as (before the axis) × (the axis) × (after the axis) -/
theorem prod_split {s : List Nat} {k : Nat} (h : k < s.length) :
    Arr.prod s = Arr.prod (s.take k) * (s[k] * Arr.prod (s.drop (k + 1))) := by
  conv_lhs => rw [← List.take_append_drop k s]
  rw [prod_append, List.drop_eq_getElem_cons h, prod_cons]

theorem prod_set {s : List Nat} {k : Nat} (h : k < s.length) (n : Nat) :
    Arr.prod (s.set k n) = Arr.prod (s.take k) * (n * Arr.prod (s.drop (k + 1))) := by
  have h' : k < (s.set k n).length := by simpa using h
  rw [prod_split h', List.take_set_of_le (Nat.le_refl k), List.drop_set_of_lt (Nat.lt_succ_self k)]
  simp

theorem prod_eraseIdx {s : List Nat} {k : Nat} (h : k < s.length) :
    Arr.prod (s.eraseIdx k) = Arr.prod (s.take k) * Arr.prod (s.drop (k + 1)) := by
  rw [List.eraseIdx_eq_take_drop_succ, prod_append]

/-! ## chunks -/

@[simp] theorem chunks_length (n k : Nat) (l : List α) : (chunks n k l).length = k := by
  induction k generalizing l with
  | zero => rfl
  | succ k ih => simp [chunks, ih]

theorem flatten_chunks {n k : Nat} {l : List α} (h : l.length = n * k) :
    (chunks n k l).flatten = l := by
  induction k generalizing l with
  | zero => simp at h; simp [chunks, h]
  | succ k ih =>
    have : (l.drop n).length = n * k := by rw [List.length_drop, h]; ring_nf; omega
    simp [chunks, ih this]

theorem chunks_flatten {n k : Nat} {ls : List (List α)} (hk : ls.length = k)
    (hn : ∀ c ∈ ls, c.length = n) : chunks n k ls.flatten = ls := by
  induction ls generalizing k with
  | nil => subst hk; rfl
  | cons c cs ih =>
    subst hk
    have hc : c.length = n := hn c (List.mem_cons_self ..)
    have := ih (k := cs.length) rfl (fun c' h' => hn c' (List.mem_cons_of_mem _ h'))
    subst hc
    simp [chunks, this]

theorem chunks_mem_length {n k : Nat} {l : List α} (h : l.length = n * k) :
    ∀ c ∈ chunks n k l, c.length = n := by
  induction k generalizing l with
  | zero => intro c hc; simp [chunks] at hc
  | succ k ih =>
    have hd : (l.drop n).length = n * k := by rw [List.length_drop, h]; ring_nf; omega
    intro c hc
    simp only [chunks, List.mem_cons] at hc
    rcases hc with rfl | hc
    · rw [List.length_take, h]; ring_nf; omega
    · exact ih hd c hc

theorem flatten_length_of_const {n : Nat} {ls : List (List α)} (hn : ∀ c ∈ ls, c.length = n) :
    ls.flatten.length = ls.length * n := by
  induction ls with
  | nil => simp
  | cons c cs ih =>
    have := ih (fun c' h' => hn c' (List.mem_cons_of_mem _ h'))
    simp [this, hn c (List.mem_cons_self ..)]; ring

/-! ## three-level views -/

/-- a well-formed view: `O` blocks of `A` rows of `I` entries -/
def View.WF (O A I : Nat) (v : View α) : Prop :=
  v.length = O ∧ ∀ blk ∈ v, blk.length = A ∧ ∀ row ∈ blk, row.length = I

theorem view3_wf {O A I : Nat} {data : List α} (h : data.length = O * (A * I)) :
    View.WF O A I (view3 O A I data) := by
  refine ⟨by simp [view3], ?_⟩
  intro blk hblk
  simp only [view3, List.mem_map] at hblk
  obtain ⟨c, hc, rfl⟩ := hblk
  have hcl : c.length = I * A := by
    rw [chunks_mem_length (n := A * I) (k := O) (by rw [h]; ring) c hc]; ring
  exact ⟨by simp, chunks_mem_length hcl⟩

theorem unview3_view3 {O A I : Nat} {data : List α} (h : data.length = O * (A * I)) :
    unview3 (view3 O A I data) = data := by
  have h' : data.length = (A * I) * O := by rw [h]; ring
  unfold unview3 view3
  rw [List.map_map]
  have : (chunks (A * I) O data).map (List.flatten ∘ chunks I A) = chunks (A * I) O data := by
    conv_rhs => rw [← List.map_id (chunks (A * I) O data)]
    apply List.map_congr_left
    intro c hc
    have hcl : c.length = I * A := by rw [chunks_mem_length h' c hc]; ring
    simp [flatten_chunks hcl]
  rw [this, flatten_chunks h']

theorem view3_unview3 {O A I : Nat} {v : View α} (h : View.WF O A I v) :
    view3 O A I (unview3 v) = v := by
  obtain ⟨hO, hblk⟩ := h
  unfold unview3 view3
  rw [chunks_flatten (by simpa using hO)]
  · rw [List.map_map]
    conv_rhs => rw [← List.map_id v]
    apply List.map_congr_left
    intro blk hb
    simp [chunks_flatten (hblk blk hb).1 (hblk blk hb).2]
  · intro c hc
    simp only [List.mem_map] at hc
    obtain ⟨blk, hb, rfl⟩ := hc
    rw [flatten_length_of_const (hblk blk hb).2, (hblk blk hb).1]

theorem unview3_length {O A I : Nat} {v : View α} (h : View.WF O A I v) :
    (unview3 v).length = O * (A * I) := by
  obtain ⟨hO, hblk⟩ := h
  unfold unview3
  rw [flatten_length_of_const (n := A * I)]
  · simp [hO]
  · intro c hc
    simp only [List.mem_map] at hc
    obtain ⟨blk, hb, rfl⟩ := hc
    rw [flatten_length_of_const (hblk blk hb).2, (hblk blk hb).1]

/-! ## splitting / concatenating the middle level -/

/-- where part `j` starts along the axis: the sum of the earlier sizes -/
def offset (sizes : List Nat) (j : Nat) : Nat := (sizes.take j).sum

@[simp] theorem offset_zero (sizes : List Nat) : offset sizes 0 = 0 := by simp [offset]
@[simp] theorem offset_cons_succ (n : Nat) (ns : List Nat) (j : Nat) :
    offset (n :: ns) (j + 1) = n + offset ns j := by simp [offset]

theorem offset_add_le {sizes : List Nat} {j : Nat} (hj : j < sizes.length) :
    offset sizes j + sizes[j] ≤ sizes.sum := by
  induction sizes generalizing j with
  | nil => simp at hj
  | cons n ns ih =>
    cases j with
    | zero => simp
    | succ j =>
      have := ih (j := j) (by simpa using hj)
      simp only [offset_cons_succ, List.getElem_cons_succ, List.sum_cons]; omega

theorem range_map_getD (l : List α) (d : α) : (List.range l.length).map (fun j => l.getD j d) = l := by
  apply List.ext_getElem
  · simp
  · intro i h1 h2
    simp [List.getD_eq_getElem?_getD, List.getElem?_eq_getElem h2]

@[simp] theorem splitRows_length (sizes : List Nat) (rows : List (List α)) :
    (splitRows sizes rows).length = sizes.length := by
  induction sizes generalizing rows with
  | nil => rfl
  | cons n ns ih => simp [splitRows, ih]

theorem flatten_splitRows {sizes : List Nat} {blk : List (List α)} (h : blk.length = sizes.sum) :
    (splitRows sizes blk).flatten = blk := by
  induction sizes generalizing blk with
  | nil => simp at h; simp [splitRows, h]
  | cons n ns ih =>
    have : (blk.drop n).length = ns.sum := by simp [h]
    simp [splitRows, ih this]

/-- piece `j` of a split block is rows `offset j ..< offset j + sizes[j]` of the block -/
theorem splitRows_getD (sizes : List Nat) (blk : List (List α)) (j : Nat) :
    (splitRows sizes blk).getD j [] = (blk.drop (offset sizes j)).take (sizes.getD j 0) := by
  induction sizes generalizing blk j with
  | nil => simp [splitRows]
  | cons n ns ih =>
    cases j with
    | zero => simp [splitRows]
    | succ j =>
      have := ih (blk.drop n) j
      simp only [splitRows, List.getD_cons_succ, offset_cons_succ] at this ⊢
      rw [this, List.drop_drop]

theorem splitRows_flatten {sizes : List Nat} {ps : List (List (List α))}
    (hl : ps.length = sizes.length)
    (h : ∀ j (h1 : j < ps.length) (h2 : j < sizes.length), ps[j].length = sizes[j]) :
    splitRows sizes ps.flatten = ps := by
  induction sizes generalizing ps with
  | nil => simp at hl; simp [hl, splitRows]
  | cons n ns ih =>
    match ps, hl with
    | p :: ps, hl =>
      have hp : p.length = n := h 0 (by simp) (by simp)
      have := ih (ps := ps) (by simpa using hl)
        (fun j h1 h2 => h (j + 1) (by simpa using h1) (by simpa using h2))
      subst hp
      simp [splitRows, this]

@[simp] theorem splitView_length (sizes : List Nat) (v : View α) :
    (splitView sizes v).length = sizes.length := by simp [splitView]

/-- **child `j` sees exactly slice `j` along the axis**: part `j` of the split view is, block by
block, rows `offset_j ..< offset_j + sizes[j]` of the view. -/
theorem splitView_slicewise (sizes : List Nat) (v : View α) {j : Nat} (hj : j < sizes.length) :
    (splitView sizes v)[j]'(by simpa using hj)
      = v.map (fun blk => (blk.drop (offset sizes j)).take sizes[j]) := by
  simp only [splitView, List.getElem_map, List.getElem_range]
  apply List.map_congr_left
  intro blk _
  rw [splitRows_getD, List.getD_eq_getElem?_getD, List.getElem?_eq_getElem hj]; rfl

theorem splitView_wf {O A I : Nat} {sizes : List Nat} {v : View α} (hv : View.WF O A I v)
    (hA : A = sizes.sum) {j : Nat} (hj : j < sizes.length) :
    View.WF O sizes[j] I ((splitView sizes v)[j]'(by simpa using hj)) := by
  rw [splitView_slicewise sizes v hj]
  obtain ⟨hO, hblk⟩ := hv
  refine ⟨by simpa using hO, ?_⟩
  intro b hb
  simp only [List.mem_map] at hb
  obtain ⟨blk, hmem, rfl⟩ := hb
  have h1 := (hblk blk hmem).1
  have h2 := offset_add_le hj
  refine ⟨by simp; omega, ?_⟩
  intro row hrow
  exact (hblk blk hmem).2 row (List.mem_of_mem_drop (List.mem_of_mem_take hrow))

@[simp] theorem catView_length (O : Nat) (parts : List (View α)) : (catView O parts).length = O := by
  simp [catView]

theorem catView_getElem (O : Nat) (parts : List (View α)) {o : Nat} (ho : o < O) :
    (catView O parts)[o]'(by simpa using ho) = (parts.map (fun p => p.getD o [])).flatten := by
  simp [catView]

/-- concatenating the parts of a split gives back the view -/
theorem catView_splitView {O : Nat} {sizes : List Nat} {v : View α} (hO : v.length = O)
    (h : ∀ blk ∈ v, blk.length = sizes.sum) : catView O (splitView sizes v) = v := by
  apply List.ext_getElem
  · simp [hO]
  · intro o h1 h2
    have ho : o < O := by simpa using h1
    rw [catView_getElem O _ ho]
    have : (splitView sizes v).map (fun p => p.getD o []) = splitRows sizes v[o] := by
      simp only [splitView, List.map_map]
      conv_rhs => rw [← range_map_getD (splitRows sizes v[o]) [], splitRows_length]
      apply List.map_congr_left
      intro j _
      simp [List.getD_eq_getElem?_getD, List.getElem?_eq_getElem h2]
    rw [this, flatten_splitRows (h _ (List.getElem_mem h2))]

/-- splitting a concatenation gives back the parts -/
theorem splitView_catView {O : Nat} {sizes : List Nat} {parts : List (View α)}
    (hl : parts.length = sizes.length)
    (h : ∀ j (h1 : j < parts.length) (h2 : j < sizes.length),
      parts[j].length = O ∧ ∀ blk ∈ parts[j], blk.length = sizes[j]) :
    splitView sizes (catView O parts) = parts := by
  apply List.ext_getElem
  · simp [hl]
  · intro j h1 h2
    have hj : j < sizes.length := by simpa using h1
    obtain ⟨hjO, hjb⟩ := h j h2 hj
    simp only [splitView, List.getElem_map, List.getElem_range, catView, List.map_map]
    conv_rhs => rw [← range_map_getD parts[j] [], hjO]
    apply List.map_congr_left
    intro o ho
    have ho : o < O := by simpa using ho
    simp only [Function.comp]
    rw [splitRows_flatten (by simp [hl])]
    · simp [List.getD_eq_getElem?_getD, List.getElem?_eq_getElem h2]
    · intro i hi1 hi2
      have hi : i < parts.length := by simpa using hi1
      obtain ⟨hiO, hib⟩ := h i hi hi2
      simp only [List.getElem_map]
      have hoi : o < parts[i].length := by omega
      rw [List.getD_eq_getElem?_getD, List.getElem?_eq_getElem hoi]
      exact hib _ (List.getElem_mem hoi)

theorem catView_wf {O I : Nat} {sizes : List Nat} {parts : List (View α)}
    (hl : parts.length = sizes.length)
    (h : ∀ j (h1 : j < parts.length) (h2 : j < sizes.length), View.WF O sizes[j] I parts[j]) :
    View.WF O sizes.sum I (catView O parts) := by
  refine ⟨by simp, ?_⟩
  intro blk hblk
  obtain ⟨o, ho, rfl⟩ := List.getElem_of_mem hblk
  have ho' : o < O := by simpa using ho
  rw [catView_getElem O _ ho']
  constructor
  · rw [List.length_flatten, List.map_map]
    congr 1
    apply List.ext_getElem
    · simp [hl]
    · intro j h1 h2
      have hj : j < parts.length := by simpa using h1
      obtain ⟨hjO, hjb⟩ := h j hj h2
      have hoj : o < parts[j].length := by omega
      simp only [List.getElem_map, Function.comp, List.getD_eq_getElem?_getD,
        List.getElem?_eq_getElem hoj, Option.getD_some]
      exact (hjb _ (List.getElem_mem hoj)).1
  · intro row hrow
    simp only [List.mem_flatten, List.mem_map] at hrow
    obtain ⟨b, ⟨p, hp, rfl⟩, hrb⟩ := hrow
    obtain ⟨j, hj, rfl⟩ := List.getElem_of_mem hp
    obtain ⟨hjO, hjb⟩ := h j hj (by omega)
    have hoj : o < parts[j].length := by omega
    rw [List.getD_eq_getElem?_getD, List.getElem?_eq_getElem hoj] at hrb
    exact (hjb _ (List.getElem_mem hoj)).2 row hrb

/-- **child `j`'s output lands exactly in slice `j`**: rows `offset_j ..< offset_j + sizes[j]` of
every block of the concatenation are the corresponding block of part `j`. -/
theorem catView_slicewise {O : Nat} {sizes : List Nat} {parts : List (View α)}
    (hl : parts.length = sizes.length)
    (h : ∀ j (h1 : j < parts.length) (h2 : j < sizes.length),
      parts[j].length = O ∧ ∀ blk ∈ parts[j], blk.length = sizes[j])
    {j : Nat} (hj : j < sizes.length) :
    (catView O parts).map (fun blk => (blk.drop (offset sizes j)).take sizes[j])
      = parts[j]'(by omega) := by
  rw [← splitView_slicewise sizes (catView O parts) hj]
  simp [splitView_catView hl h]

/-! ## positions gather / scatter -/

theorem scatter_nil (data vals : List α) : scatter [] data vals = data := by simp [scatter]
theorem scatter_vals_nil (pos : List Nat) (data : List α) : scatter pos data [] = data := by
  simp [scatter]
theorem scatter_cons (p : Nat) (ps : List Nat) (data : List α) (v : α) (vs : List α) :
    scatter (p :: ps) data (v :: vs) = scatter ps (data.set p v) vs := by simp [scatter]

@[simp] theorem gather_length [Inhabited α] (pos : List Nat) (data : List α) :
    (gather pos data).length = pos.length := by simp [gather]

@[simp] theorem scatter_length (pos : List Nat) (data vals : List α) :
    (scatter pos data vals).length = data.length := by
  induction pos generalizing data vals with
  | nil => simp [scatter_nil]
  | cons p ps ih =>
    cases vals with
    | nil => simp [scatter_vals_nil]
    | cons v vs => simp [scatter_cons, ih]

/-- entries outside the index set are unchanged -/
theorem scatter_frame {pos : List Nat} {i : Nat} (hi : i ∉ pos) (data vals : List α) :
    (scatter pos data vals)[i]? = data[i]? := by
  induction pos generalizing data vals with
  | nil => simp [scatter_nil]
  | cons p ps ih =>
    cases vals with
    | nil => simp [scatter_vals_nil]
    | cons v vs =>
      simp only [List.mem_cons, not_or] at hi
      rw [scatter_cons, ih hi.2, List.getElem?_set_ne (Ne.symm hi.1)]

theorem scatter_set_comm {ps : List Nat} {p : Nat} (hp : p ∉ ps) (d vs : List α) (a : α) :
    (scatter ps d vs).set p a = scatter ps (d.set p a) vs := by
  induction ps generalizing d vs with
  | nil => simp [scatter_nil]
  | cons q qs ih =>
    cases vs with
    | nil => simp [scatter_vals_nil]
    | cons v vs =>
      simp only [List.mem_cons, not_or] at hp
      rw [scatter_cons, scatter_cons, ih hp.2, List.set_comm _ _ hp.1]

/-- reading the written positions gives the written values -/
theorem gather_scatter [Inhabited α] {pos : List Nat} {data vals : List α} (hnd : pos.Nodup)
    (hr : ∀ p ∈ pos, p < data.length) (hl : vals.length = pos.length) :
    gather pos (scatter pos data vals) = vals := by
  induction pos generalizing data vals with
  | nil => simp at hl; simp [gather, hl]
  | cons p ps ih =>
    match vals, hl with
    | v :: vs, hl =>
      have hp : p ∉ ps := (List.nodup_cons.mp hnd).1
      have hpl : p < data.length := hr p (List.mem_cons_self ..)
      have := ih (data := data.set p v) (vals := vs) (List.nodup_cons.mp hnd).2
        (fun q hq => by simpa using hr q (List.mem_cons_of_mem _ hq)) (by simpa using hl)
      simp only [gather, List.map_cons, scatter_cons] at this ⊢
      rw [this, List.getD_eq_getElem?_getD, scatter_frame hp]
      simp [hpl]

/-- writing back what was read changes nothing (no hypothesis on the positions needed) -/
theorem scatter_gather [Inhabited α] (pos : List Nat) (data : List α) :
    scatter pos data (gather pos data) = data := by
  induction pos with
  | nil => simp [scatter_nil]
  | cons p ps ih =>
    simp only [gather, List.map_cons, scatter_cons] at ih ⊢
    have : data.set p (data.getD p default) = data := by
      by_cases h : p < data.length
      · simp [List.getD_eq_getElem?_getD, List.getElem?_eq_getElem h]
      · exact List.set_eq_of_length_le (by omega)
    rw [this, ih]

/-- a second write to the same (distinct) positions overrides the first; in particular writing
the original values back restores the original data -/
theorem scatter_scatter_gather [Inhabited α] {pos : List Nat} {x ys : List α} (hnd : pos.Nodup)
    (hl : ys.length = pos.length) :
    scatter pos (scatter pos x ys) (gather pos x) = x := by
  induction pos generalizing x ys with
  | nil => simp [scatter_nil]
  | cons p ps ih =>
    match ys, hl with
    | y :: ys, hl =>
      have hp : p ∉ ps := (List.nodup_cons.mp hnd).1
      have h1 : (x.set p y).set p (x.getD p default) = x := by
        rw [List.set_set]
        by_cases h : p < x.length
        · simp [List.getD_eq_getElem?_getD, List.getElem?_eq_getElem h]
        · exact List.set_eq_of_length_le (by omega)
      have := ih (x := x) (ys := ys) (List.nodup_cons.mp hnd).2 (by simpa using hl)
      simp only [gather, List.map_cons, scatter_cons] at this ⊢
      rw [scatter_set_comm hp, h1, this]

end Arr
