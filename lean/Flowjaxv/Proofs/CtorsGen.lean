import Flowjaxv.Proofs.ArgCheck
import Flowjaxv.Model.ArgCheckExt
import Flowjaxv.Gen.CtorsGen
/-!
# The regenerated constructors / argument checks are the hand models (core Lean only)

`Gen/CtorsGen.lean` (translated from /repo by `tools/py2lean/py2ctor.py` on every run) in exception-valued form
against `Model/ArgCheck.lean` / `Model/ArgCheckExt.lean`: same verdict (accept / which exception), same declared
`shape` / `cond_shape` (and `split_idxs`, `axis`) on acceptance — for every list of children, every axis (negative
ones included), every modelled index.
-/
namespace CtorsGen
open PyShape PyCtor ArgCheck

/-! ## the loop / comprehension primitives -/

theorem forEach_enumerateFrom {α : Type} (g : α → Except Err Unit) (xs : List α) (k : Nat) :
    forEach (enumerateFrom k xs) (fun it => g it.2) = forEach xs g := by
  induction xs generalizing k with
  | nil => rfl
  | cons x xs ih =>
    simp only [enumerateFrom, forEach]
    cases g x with
    | error e => rfl
    | ok u => cases u; exact ih (k + 1)

theorem forEach_enumerate {α : Type} (g : α → Except Err Unit) (xs : List α) :
    forEach (enumerate xs) (fun it => g it.2) = forEach xs g := forEach_enumerateFrom g xs 0

/-- a loop whose body is `if c(x): raise ValueError` -/
theorem forEach_guard {α : Type} (p : α → Bool) (xs : List α) :
    forEach xs (fun x => if p x then Except.error Err.valueError else Except.ok ()) =
      if xs.all (fun x => !p x) then .ok () else .error .valueError := by
  induction xs with
  | nil => rfl
  | cons x xs ih =>
    simp only [forEach, List.all_cons]
    by_cases hp : p x = true
    · simp [hp]
    · simp only [hp, Bool.false_eq_true, ↓reduceIte]
      rw [ih]; simp

theorem allM_pure {α : Type} (p : α → Bool) (xs : List α) :
    allM (fun x => Except.ok (p x)) xs = .ok (xs.all p) := by
  induction xs with
  | nil => rfl
  | cons x xs ih =>
    simp only [allM, List.all_cons]
    cases hp : p x with
    | true => simp [ih]
    | false => simp

theorem idx_eq_getDim (ax : Nat) (s : Shape) : idx s ax = getDim ax s := by
  unfold idx getDim; cases s[ax]? <;> rfl

theorem mapM_getDim (ax : Nat) (shapes : List Shape) : mapM (getDim ax) shapes = getDims ax shapes := by
  induction shapes with
  | nil => rfl
  | cons s rest ih =>
    simp only [mapM, getDims, ih]
    cases getDim ax s with
    | error e => rfl
    | ok d => cases getDims ax rest <;> rfl

theorem mapM_idx_eq_getDims (ax : Nat) (shapes : List Shape) :
    mapM (fun s => idx s ax) shapes = getDims ax shapes := by
  have : (fun (s : Shape) => idx s ax) = getDim ax := funext (idx_eq_getDim ax)
  rw [this, mapM_getDim]

theorem natSum_eq_sum (l : List Nat) : natSum l = l.sum := by
  have h : ∀ (l : List Nat) (a : Nat), l.foldl (· + ·) a = a + l.sum := by
    intro l
    induction l with
    | nil => intro a; simp
    | cons x xs ih => intro a; simp only [List.foldl_cons, List.sum_cons, ih]; omega
  simp [natSum, h]

theorem idx_zero_cons {α : Type} (x : α) (xs : List α) : idx (x :: xs) 0 = .ok x := rfl

theorem idx_zero_nil {α : Type} : idx ([] : List α) 0 = .error .indexError := rfl

/-! ## `check_shapes_match`, `merge_cond_shapes` -/

/-- the regenerated `check_shapes_match` is the hand model: same verdict on every list of shapes -/
theorem gen_check_shapes_match_eq (shapes : List Shape) :
    GenCtors.checkShapesMatch shapes = checkShapesMatch shapes := by
  cases shapes with
  | nil => rfl
  | cons s0 rest =>
    unfold GenCtors.checkShapesMatch checkShapesMatch
    simp only [idx_zero_cons, Except.bind]
    rw [forEach_enumerate (fun shape => if decide (shape ≠ s0) then Except.error Err.valueError else Except.ok ())
      (s0 :: rest), forEach_guard]
    have : (fun (x : Shape) => !decide (x ≠ s0)) = fun s => decide (s = s0) := by
      funext x; simp
    rw [this]
    by_cases h : ((s0 :: rest).all fun s => decide (s = s0)) = true <;> simp [h]

theorem filterMap_id_ne_nil {α : Type} (l : List (Option α)) (h : l.all (fun s => s.isNone) = false) :
    l.filterMap id ≠ [] := by
  induction l with
  | nil => simp at h
  | cons x xs ih =>
    cases x with
    | none =>
      simp only [List.all_cons, Option.isNone_none, Bool.true_and] at h
      simpa using ih h
    | some v => simp

/-- the regenerated `merge_cond_shapes` is the hand model -/
theorem gen_merge_cond_shapes_eq (shapes : List (Option Shape)) :
    GenCtors.mergeCondShapes shapes = mergeCondShapes shapes := by
  unfold GenCtors.mergeCondShapes mergeCondShapes
  by_cases h0 : shapes.length = 0
  · simp [h0]
  · simp only [h0, decide_false, Bool.false_eq_true, ↓reduceIte]
    cases hall : shapes.all (fun s => s.isNone) with
    | true => simp
    | false =>
      simp only [Bool.false_eq_true, ↓reduceIte]
      have hid : List.filterMap (fun s => Option.map (fun s => s) s) shapes = shapes.filterMap id := by
        congr 1; funext s; cases s <;> rfl
      rw [hid]
      have hne := filterMap_id_ne_nil shapes hall
      cases hf : shapes.filterMap id with
      | nil => exact absurd hf hne
      | cons c cs =>
        simp only [idx_zero_cons, Except.bind]
        rw [allM_pure (fun s => decide (s = c)) (c :: cs)]

/-! ## `Chain.__init__` -/

/-- the regenerated `Chain.__init__` is the hand model `chainCtor`: same exception or same declared
`(shape, cond_shape)`, for every list of children -/
theorem gen_chain_ctor_eq (bs : List SB) :
    (GenCtors.Chain.init bs).map (fun r => (r.shape, r.cond_shape)) =
      chainCtor (bs.map (·.shape)) (bs.map (·.cond_shape)) := by
  unfold GenCtors.Chain.init chainCtor
  simp only [gen_check_shapes_match_eq, gen_merge_cond_shapes_eq]
  cases checkShapesMatch (List.map (fun b => b.shape) bs) with
  | error e => rfl
  | ok u =>
    cases bs with
    | nil => rfl
    | cons b rest =>
      simp only [idx_zero_cons, Except.bind, List.map_cons]
      cases mergeCondShapes (b.cond_shape :: List.map (fun b => b.cond_shape) rest) <;> rfl

/-! ## `Concatenate._argcheck_shapes`, `Concatenate.__init__` -/

/-- the regenerated `_argcheck_shapes` is the hand model: every list of shapes, every axis (negative included) -/
theorem gen_concatenate_argcheck_eq (axis : Int) (shapes : List Shape) :
    GenCtors.Concatenate.argcheckShapes axis shapes = concatenateArgcheck shapes axis := by
  unfold GenCtors.Concatenate.argcheckShapes concatenateArgcheck
  cases shapes with
  | nil => rfl
  | cons s0 rest =>
    simp only [idx_zero_cons, Except.bind, rangeGet]
    cases normAxis s0.length axis with
    | error e => rfl
    | ok ax =>
      simp only
      rw [forEach_enumerate (fun shape => if decide (List.take ax shape ++ List.drop (ax + 1) shape ≠
          List.take ax s0 ++ List.drop (ax + 1) s0) then Except.error Err.valueError else Except.ok ()) (s0 :: rest),
        forEach_guard]
      have : (fun (x : Shape) => !decide (List.take ax x ++ List.drop (ax + 1) x ≠ List.take ax s0 ++ List.drop (ax + 1) s0))
          = fun s => decide (removeAxis s ax = removeAxis s0 ax) := by
        funext x; simp [removeAxis]; exact decide_eq_decide.2 Iff.rfl
      rw [this]
      by_cases h : ((s0 :: rest).all fun s => decide (removeAxis s ax = removeAxis s0 ax)) = true <;> simp [h]

theorem getDims_dropLast {ax : Nat} {shapes : List Shape} {ds : List Nat} (h : getDims ax shapes = .ok ds) :
    getDims ax shapes.dropLast = .ok ds.dropLast := by
  obtain ⟨h1, h2⟩ := (getDims_ok_iff ax shapes ds).1 h
  refine (getDims_ok_iff ax _ _).2 ⟨fun s hs => h1 s (List.dropLast_subset _ hs), ?_⟩
  rw [h2, List.map_dropLast]

/-- the regenerated `Concatenate.__init__` is the hand model `concatenateCtor`: same exception or same declared
`(shape, cond_shape)`, for every list of children and every axis -/
theorem gen_concatenate_ctor_eq (bs : List SB) (axis : Int) :
    (GenCtors.Concatenate.init bs axis).map (fun r => (r.shape, r.cond_shape)) =
      concatenateCtor (bs.map (·.shape)) (bs.map (·.cond_shape)) axis := by
  unfold GenCtors.Concatenate.init concatenateCtor
  simp only [gen_concatenate_argcheck_eq, gen_merge_cond_shapes_eq]
  generalize List.map (fun b => b.shape) bs = shapes
  generalize List.map (fun b => b.cond_shape) bs = conds
  cases hA : concatenateArgcheck shapes axis with
  | error e => rfl
  | ok u =>
    cases shapes with
    | nil => simp [concatenateArgcheck] at hA
    | cons s0 rest =>
      simp only [idx_zero_cons, Except.bind, rangeGet]
      cases hN : normAxis s0.length axis with
      | error e => rfl
      | ok ax =>
        simp only [mapM_idx_eq_getDims]
        cases hD : getDims ax (s0 :: rest) with
        | error e => rfl
        | ok ds =>
          simp only [getDims_dropLast hD]
          cases mergeCondShapes conds with
          | error e => rfl
          | ok c => simp [Except.map, natSum_eq_sum]

/-- … and the other fields it sets: the axis as given, `split_idxs = accumulate` of the children's sizes along the
normalised axis, last child dropped -/
theorem gen_concatenate_fields (bs : List SB) (axis : Int) (r : GenCtors.ConcatenateF)
    (h : GenCtors.Concatenate.init bs axis = .ok r) :
    r.axis = axis ∧ ∃ s0 ax, (bs.map (·.shape)).head? = some s0 ∧ normAxis s0.length axis = .ok ax ∧
      r.split_idxs = accumulate ((bs.map (fun b => b.shape[ax]?.getD 0)).dropLast) := by
  unfold GenCtors.Concatenate.init at h
  simp only [gen_concatenate_argcheck_eq, gen_merge_cond_shapes_eq] at h
  cases hA : concatenateArgcheck (List.map (fun b => b.shape) bs) axis with
  | error e => rw [hA] at h; simp [Except.bind] at h
  | ok u =>
    rw [hA] at h
    cases bs with
    | nil => simp [concatenateArgcheck] at hA
    | cons b rest =>
      simp only [List.map_cons, idx_zero_cons, Except.bind, rangeGet] at h
      cases hN : normAxis b.shape.length axis with
      | error e => rw [hN] at h; simp at h
      | ok ax =>
        rw [hN] at h
        simp only [mapM_idx_eq_getDims] at h
        cases hD : getDims ax (b.shape :: List.map (fun b => b.shape) rest) with
        | error e => rw [hD] at h; simp at h
        | ok ds =>
          rw [hD] at h
          simp only [getDims_dropLast hD] at h
          cases hM : mergeCondShapes (b.cond_shape :: List.map (fun b => b.cond_shape) rest) with
          | error e => rw [hM] at h; simp at h
          | ok c =>
            rw [hM] at h
            simp only [Except.ok.injEq] at h
            subst h
            refine ⟨rfl, b.shape, ax, rfl, hN, ?_⟩
            obtain ⟨-, h2⟩ := (getDims_ok_iff ax _ ds).1 hD
            simp only [h2, List.map_cons, List.map_map]
            rfl

/-! ## `Stack.__init__` -/

/-- the regenerated `Stack.__init__` is the hand model `stackCtor` -/
theorem gen_stack_ctor_eq (bs : List SB) (axis : Int) :
    (GenCtors.Stack.init bs axis).map (fun r => (r.shape, r.cond_shape)) =
      stackCtor (bs.map (·.shape)) (bs.map (·.cond_shape)) axis := by
  unfold GenCtors.Stack.init stackCtor
  simp only [gen_check_shapes_match_eq, gen_merge_cond_shapes_eq]
  cases checkShapesMatch (List.map (fun b => b.shape) bs) with
  | error e => rfl
  | ok u =>
    cases bs with
    | nil => rfl
    | cons b rest =>
      simp only [List.map_cons, idx_zero_cons, Except.bind, rangeGet]
      cases normAxis (b.shape.length + 1) axis with
      | error e => rfl
      | ok ax =>
        cases mergeCondShapes (b.cond_shape :: List.map (fun b => b.cond_shape) rest) with
        | error e => rfl
        | ok c => simp [Except.map]

theorem gen_stack_fields (bs : List SB) (axis : Int) (r : GenCtors.StackF)
    (h : GenCtors.Stack.init bs axis = .ok r) : r.axis = axis := by
  unfold GenCtors.Stack.init at h
  simp only [Except.bind] at h
  split at h
  · simp at h
  · split at h
    · simp at h
    · split at h
      · simp at h
      · split at h
        · simp at h
        · simp only [Except.ok.injEq] at h; subst h; rfl

/-! ## `Partial.__check_init__`, `Reshape`, `EmbedCondition`, `AbstractTransformed.__check_init__`, wrappers -/

/-- the regenerated `Partial.__check_init__` is the hand model: every shape, every modelled index, every child shape -/
theorem gen_partial_check_eq (b : SB) (i : Idx) (shape : Shape) :
    GenCtors.Partial.checkInit b i shape = partialCheck shape i b.shape := by
  unfold GenCtors.Partial.checkInit partialCheck zerosIndexShape
  cases indexShape shape i with
  | error e => rfl
  | ok s =>
    simp only [Except.bind]
    by_cases h : s = b.shape <;> simp [h]

/-- `Partial(bijection, idxs, shape)` as Equinox runs it: the fields as given, accepted iff the check accepts -/
theorem gen_partial_ctor_eq (b : SB) (i : Idx) (shape : Shape) :
    GenCtors.Partial.ctor b i shape = (partialCheck shape i b.shape).map (fun _ => ⟨b, i, shape⟩) := by
  unfold GenCtors.Partial.ctor
  simp only [Except.bind, gen_partial_check_eq]
  cases partialCheck shape i b.shape <;> rfl

/-- the regenerated `Reshape.__check_init__` (the loop over the two `(new, old)` pairs) is the hand model -/
theorem gen_reshape_check_eq (b : SB) (shape : Shape) (cond : Option Shape) :
    GenCtors.Reshape.checkInit b shape cond = reshapeCheck shape cond b.shape b.cond_shape := by
  unfold GenCtors.Reshape.checkInit reshapeCheck
  rcases b with ⟨bs, bc⟩
  cases bc <;> cases cond <;>
    simp [forEach, Except.bind, prodOpt, PyCtor.prod] <;>
    (by_cases h : ArgCheck.prod shape = ArgCheck.prod bs <;> simp [h])
  rename_i a b
  by_cases h2 : ArgCheck.prod b = ArgCheck.prod a <;> simp [h2]

/-- the regenerated `Reshape.__init__` then `__check_init__` is the hand model `reshapeCtor` -/
theorem gen_reshape_ctor_eq (b : SB) (shape? cond? : Option Shape) :
    (GenCtors.Reshape.ctor b shape? cond?).map (fun r => (r.shape, r.cond_shape)) =
      reshapeCtor b.shape b.cond_shape shape? cond? := by
  unfold GenCtors.Reshape.ctor GenCtors.Reshape.init reshapeCtor
  simp only [Except.bind, gen_reshape_check_eq]
  cases shape? <;> cases cond? <;> simp only [Option.getD] <;>
    (generalize reshapeCheck _ _ _ _ = r; cases r <;> rfl)

theorem gen_reshape_ctor_bijection (b : SB) (shape? cond? : Option Shape) (r : GenCtors.ReshapeF)
    (h : GenCtors.Reshape.ctor b shape? cond? = .ok r) : r.bijection = b := by
  unfold GenCtors.Reshape.ctor GenCtors.Reshape.init at h
  simp only [Except.bind] at h
  split at h
  · simp at h
  · simp only [Except.ok.injEq] at h; subst h; rfl

/-- the regenerated `EmbedCondition.__init__` and `shape` property: never raise; the condition shape is the raw one,
the shape the wrapped bijection's -/
theorem gen_embed_ctor_eq (b : SB) (raw : Shape) :
    (GenCtors.EmbedCondition.init b raw).bind
        (fun r => (GenCtors.EmbedCondition.shape r.bijection).map (fun s => (s, some r.cond_shape))) =
      embedCtor b.shape raw := rfl

/-- the regenerated `AbstractTransformed.__check_init__` is the hand model -/
theorem gen_transformed_check_eq (base bij : SB) :
    GenCtors.Transformed.checkInit base bij = transformedCheckInit base.cond_shape bij.cond_shape := by
  unfold GenCtors.Transformed.checkInit transformedCheckInit
  rcases base with ⟨s1, a⟩
  rcases bij with ⟨s2, b⟩
  cases a <;> cases b <;> simp

/-- the regenerated `shape` / `cond_shape` properties of `Invert`, `Scan` and `Partial.cond_shape`: the wrapped
bijection's, never raising -/
theorem gen_wrapper_shapes_eq (b : SB) :
    GenCtors.Invert.shape b = .ok b.shape ∧ GenCtors.Invert.condShape b = .ok b.cond_shape ∧
    GenCtors.Scan.shape b = .ok b.shape ∧ GenCtors.Scan.condShape b = .ok b.cond_shape ∧
    GenCtors.Partial.condShape b = .ok b.cond_shape :=
  ⟨rfl, rfl, rfl, rfl, rfl⟩

/-! ## `Vmap.__init__`, `Vmap.get_cond_shape`, `Vmap.shape` -/

theorem gen_vmap_cond_shape_eq (b : VB) (n : Nat) (condAx : Option Int) :
    GenCtors.Vmap.getCondShape b n condAx = vmapCondShape b.cond_shape n condAx := by
  unfold GenCtors.Vmap.getCondShape vmapCondShape
  cases b.cond_shape with
  | none => cases condAx <;> rfl
  | some cs =>
    cases condAx with
    | none => rfl
    | some ax =>
      simp only [Except.bind, rangeGet]
      cases normAxis (cs.length + 1) ax <;> rfl

/-- the regenerated `Vmap.__init__` + `shape` property is the hand model `vmapCtor` -/
theorem gen_vmap_ctor_eq (b : VB) (inAxes : Option InAxes) (axisSize : Option Nat) (condAx : Option Int) :
    (GenCtors.Vmap.init b inAxes axisSize condAx).bind
        (fun r => (GenCtors.Vmap.shape r.axis_size r.bijection).map (fun s => (s, r.cond_shape))) =
      vmapCtor b inAxes axisSize condAx := by
  unfold GenCtors.Vmap.init vmapCtor vmapAxisSize GenCtors.Vmap.shape
  simp only [gen_vmap_cond_shape_eq]
  cases inAxes with
  | none =>
    cases axisSize with
    | none => rfl
    | some n =>
      simp only [Option.isSome_none, Bool.false_and, Bool.false_eq_true, ↓reduceIte, Except.bind]
      cases vmapCondShape b.cond_shape n condAx <;> simp [Except.map]
  | some a =>
    cases axisSize with
    | some n => rfl
    | none =>
      simp only [Option.isSome_some, Option.isSome_none, Bool.and_false, Bool.false_eq_true, ↓reduceIte, Except.bind,
        checkNoUnwrappables]
      cases a.hasUnwrappable with
      | true => rfl
      | false =>
        simp only [Bool.false_eq_true, ↓reduceIte]
        cases inferAxisSize b a with
        | error e => rfl
        | ok n =>
          simp only
          generalize vmapCondShape b.cond_shape n condAx = r
          cases r <;> simp [Except.map]

/-! ## specification of the `Vmap` hand model, and a helper for restating `…_ok_iff` theorems -/

theorem map_eq_ok_iff {α β : Type} (f : α → β) (x : Except Err α) (y : β) :
    x.map f = .ok y ↔ ∃ r, x = .ok r ∧ f r = y := by
  cases x <;> simp [Except.map]

theorem vmapAxisSize_ok_iff (b : VB) (ia : Option InAxes) (n? : Option Nat) (n : Nat) :
    vmapAxisSize b ia n? = .ok n ↔
      (ia = none ∧ n? = some n) ∨
        ∃ a, ia = some a ∧ n? = none ∧ a.hasUnwrappable = false ∧ inferAxisSize b a = .ok n := by
  unfold vmapAxisSize
  cases ia <;> cases n? <;> simp
  rename_i a
  cases a.hasUnwrappable <;> simp

theorem vmapCondShape_ok_iff (bc : Option Shape) (n : Nat) (ca : Option Int) (c : Option Shape) :
    vmapCondShape bc n ca = .ok c ↔
      ((bc = none ∨ ca = none) ∧ c = bc) ∨
        ∃ cs ax k, bc = some cs ∧ ca = some ax ∧ normAxis (cs.length + 1) ax = .ok k ∧ c = some (cs.insertIdx k n) := by
  unfold vmapCondShape
  cases bc with
  | none => cases ca <;> simp [eq_comm]
  | some cs =>
    cases ca with
    | none => simp [eq_comm]
    | some ax =>
      simp only [reduceCtorEq, or_self, false_and, Option.some.injEq, exists_and_left, exists_eq_left', false_or]
      cases hN : normAxis (cs.length + 1) ax with
      | error e => simp
      | ok k =>
        have hk : k ≤ cs.length := by have := normAxis_lt _ _ _ hN; omega
        simp [insertIdx_eq_take_drop cs k n hk, eq_comm]

/-- **`Vmap(bijection, in_axes=…, axis_size=…, in_axes_condition=…)`** is accepted IFF exactly one of `in_axes` /
`axis_size` is given (`in_axes` without unwrappables, mapping at least one array leaf along a valid axis — the
size of the first such leaf's axis is the batch size `n`) and, when the bijection is conditional and the condition is
mapped, the condition axis lies in `[-(rank+1), rank+1)`.  It declares `shape = (n, *bijection.shape)` and inserts
`n` into the condition shape at the (normalised, possibly negative) axis. -/
theorem vmapCtor_ok_iff (b : VB) (ia : Option InAxes) (n? : Option Nat) (ca : Option Int) (s : Shape)
    (c : Option Shape) :
    vmapCtor b ia n? ca = .ok (s, c) ↔
      ∃ n, ((ia = none ∧ n? = some n) ∨
          ∃ a, ia = some a ∧ n? = none ∧ a.hasUnwrappable = false ∧ inferAxisSize b a = .ok n) ∧
        s = n :: b.shape ∧
        (((b.cond_shape = none ∨ ca = none) ∧ c = b.cond_shape) ∨
          ∃ cs ax k, b.cond_shape = some cs ∧ ca = some ax ∧ normAxis (cs.length + 1) ax = .ok k ∧
            c = some (cs.insertIdx k n)) := by
  unfold vmapCtor
  cases hA : vmapAxisSize b ia n? with
  | error e =>
    simp only [reduceCtorEq, false_iff]
    rintro ⟨n, h1, -⟩
    rw [(vmapAxisSize_ok_iff b ia n? n).2 h1] at hA; simp at hA
  | ok n =>
    have hA' := (vmapAxisSize_ok_iff b ia n? n).1 hA
    cases hC : vmapCondShape b.cond_shape n ca with
    | error e =>
      simp only [hC, reduceCtorEq, false_iff]
      rintro ⟨m, h1, -, h3⟩
      have hm : m = n := by
        have := (vmapAxisSize_ok_iff b ia n? m).2 h1
        rw [hA] at this; simpa using this.symm
      subst hm
      rw [(vmapCondShape_ok_iff b.cond_shape m ca c).2 h3] at hC; simp at hC
    | ok c' =>
      simp only [hC, Except.ok.injEq, Prod.mk.injEq]
      constructor
      · rintro ⟨rfl, rfl⟩
        exact ⟨n, hA', rfl, (vmapCondShape_ok_iff _ _ _ _).1 hC⟩
      · rintro ⟨m, h1, h2, h3⟩
        have hm : m = n := by
          have := (vmapAxisSize_ok_iff b ia n? m).2 h1
          rw [hA] at this; simpa using this.symm
        subst hm
        have := (vmapCondShape_ok_iff b.cond_shape m ca c).2 h3
        rw [hC] at this
        exact ⟨h2.symm, by simpa using this⟩

theorem shapeAt_err (s : Shape) (ax : Int) (e : Err) (h : shapeAt s ax = .error e) : e = .indexError := by
  unfold shapeAt at h
  cases hN : normAxis s.length ax with
  | error e' => rw [hN] at h; simp only [Except.error.injEq] at h; subst h; exact (normAxis_err _ _ _ hN).1
  | ok k =>
    rw [hN] at h
    have hk := normAxis_lt _ _ _ hN
    simp [idx, List.getElem?_eq_getElem hk] at h

theorem axisSizes_err (ss : List Shape) (as : List (Option Int)) (e : Err) (h : axisSizes ss as = .error e) :
    e = .indexError := by
  induction ss generalizing as with
  | nil => cases as <;> simp [axisSizes] at h
  | cons s ss ih =>
    cases as with
    | nil => simp [axisSizes] at h
    | cons a as =>
      cases a with
      | none => simp only [axisSizes] at h; exact ih as h
      | some ax =>
        simp only [axisSizes] at h
        cases hS : shapeAt s ax with
        | error e' => rw [hS] at h; simp only [Except.error.injEq] at h; subst h; exact shapeAt_err _ _ _ hS
        | ok d =>
          rw [hS] at h
          cases hR : axisSizes ss as with
          | error e' => rw [hR] at h; simp only [Except.error.injEq] at h; subst h; exact ih as hR
          | ok ds => rw [hR] at h; simp at h

theorem inferAxisSize_err (b : VB) (a : InAxes) (e : Err) (h : inferAxisSize b a = .error e) :
    e = .valueError ∨ e = .indexError := by
  unfold inferAxisSize at h
  cases hR : axisSizes b.leaves a.leafAxes with
  | error e' => rw [hR] at h; simp only [Except.error.injEq] at h; subst h; exact Or.inr (axisSizes_err _ _ _ hR)
  | ok ds =>
    rw [hR] at h
    cases ds with
    | nil => simp only [Except.error.injEq] at h; exact Or.inl h.symm
    | cons d ds => simp at h

theorem vmapCtor_err (b : VB) (ia : Option InAxes) (n? : Option Nat) (ca : Option Int) (e : Err)
    (h : vmapCtor b ia n? ca = .error e) : e = .valueError ∨ e = .indexError := by
  have hinf : ∀ a e', ia = some a → inferAxisSize b a = .error e' → e' = .valueError ∨ e' = .indexError :=
    fun a e' _ h' => inferAxisSize_err b a e' h'
  unfold vmapCtor at h
  cases hA : vmapAxisSize b ia n? with
  | error e' =>
    rw [hA] at h; simp only [Except.error.injEq] at h; subst h
    unfold vmapAxisSize at hA
    cases ia <;> cases n? <;> simp at hA
    · exact Or.inl hA.symm
    · rename_i a
      cases hu : a.hasUnwrappable
      · rw [hu] at hA; simp at hA; exact hinf a e' rfl hA
      · rw [hu] at hA; simp at hA; exact Or.inl hA.symm
    · exact Or.inl hA.symm
  | ok n =>
    rw [hA] at h; simp only at h
    cases hC : vmapCondShape b.cond_shape n ca with
    | ok c => rw [hC] at h; simp at h
    | error e' =>
      rw [hC] at h; simp only [Except.error.injEq] at h; subst h
      unfold vmapCondShape at hC
      split at hC
      · split at hC
        · rename_i e2 hN; simp only [Except.error.injEq] at hC; subst hC
          exact Or.inr (normAxis_err _ _ _ hN).1
        · simp at hC
      · simp at hC

end CtorsGen
